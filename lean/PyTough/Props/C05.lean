/-
  C05 — listing tables hold exactly the numbers printed in the listing file.

  Models: Model/Listing.lean (row layer: start_of_values, key_positions, parse_table_line, read_table_line_*,
  listingtable) and Model/ListingFile.lean (the whole reader, all simulators).  On every run the harness
  compares the whole-file model with the real t2listing, table by table and cell by cell (bit-equal doubles), on
  the 37 shipped files and on value-perturbed copies; an independent tokenizer of the printed rows is the oracle.
  The theorems state the clauses of the property for the row layer, on which everything else rests.
-/
import PyTough.Model.Listing
import PyTough.Proofs.Listing
import PyTough.Proofs.ListingRows
import PyTough.Proofs.ListingValues
import PyTough.Proofs.ListingRowFormat
import PyTough.Proofs.ListingFile
import PyTough.Proofs.ListingWhole
import PyTough.Proofs.ListingWholeAut
import PyTough.Proofs.ListingWholeBlock
import PyTough.Proofs.ListingFileWholeT2
import PyTough.Proofs.ListingFileWholeAutBlock
import PyTough.Proofs.ListingFileWholeSetupA
import PyTough.Proofs.ListingFileWholeSetupT
import PyTough.Gen.ListingBind

namespace Props.C05
open Py Model Model.Listing Proofs.Listing Proofs.Rows Proofs.Values

/-! ### each cell equals the number printed in that row and column (TOUGH2 family: fixed columns) -/

/-- **Column inference.**  The longest line of a table is `P ++ fields ++ tail`: a prefix `P` (keys and index,
    no decimal point) that ends where `start_of_values` says the values start, then number fields, each `pad`
    blanks followed by a number text with exactly one decimal point and no blank (`Cell.WF`), consecutive fields
    related by `Sep`: either a blank in front of the next number, or the next number fills its field and this one
    ends in `E`, sign, two digits.  Then `parse_table_line` returns exactly the column where each field starts,
    followed by the length of the line.  (First column not the integer column `I` of ECO2M tables.) -/
theorem column_boundaries_correct (P : Str) (cells : List Cell) (tail : Str) (cols : List Str) (c0 : Str) (cs : List Str)
    (hcols : cols = c0 :: cs) (hI : c0 ≠ ['I'])
    (hP : '.' ∉ P) (ht : '.' ∉ tail) (hwf : ∀ c ∈ cells, c.WF) (hsep : SepChain cells) (hne : cells ≠ []) :
    parseTableLine (P ++ (renderAll cells ++ tail)) (some (P.length : Int)) cols
      = .ok ((starts P.length cells ++ [(P ++ (renderAll cells ++ tail)).length]).map natPos) := by
  rw [parseTableLine_cells P cells tail cols c0 cs hcols hI hP ht hwf hsep hne]
  simp [numposOf, natPos]

/-- The excluded case is a known finding, exhibited on the model: in an ECO2M table (integer column `I` first) whose
    first row prints a negative first real right against the integer, `parse_table_line` bounds the `I` column by the
    first blank after the digit — which now lies behind the pressure — so the `I` cell of an ordinary row reads as
    digit and pressure glued together (20.219638E+08 instead of 2) and the pressure column is empty. -/
theorem icolumn_negative_first_real_witness :
    startOfValues " A1001     1 2-0.221166E+08  45.0000\n".toList [['I'], ['P'], ['T']] = .ok (some 12) ∧
    parseTableLine " A1001     1 2-0.221166E+08  45.0000\n".toList (some 12) [['I'], ['P'], ['T']]
      = .ok [some 12, some 27, some 27, some 37] ∧
    readTableLineTOUGH2 " A1003     3 2 0.219638E+08  45.0000\n".toList 3 [some 12, some 27, some 27, some 37]
      = .ok [.fin false 20219638 2, .fin false 0 0, .fin false 450000 (-4)] ∧
    -- with the positive value the shipped file prints, the same functions give the right columns
    parseTableLine " A1001     1 2 0.221166E+08  45.0000\n".toList (some 12) [['I'], ['P'], ['T']]
      = .ok [some 12, some 14, some 27, some 37] := by decide

/-- **Row slicing.**  With boundaries `b₀ … bₙ` (as inferred above) `read_table_line_TOUGH2` never raises on any
    line whatsoever, returns at least `ncols` values, value `k` is `fortran_float` of columns `[b_k, b_{k+1})` of the
    row, and the values beyond the inferred fields are 0.0. -/
theorem row_slicing_correct (row : Str) (ncols : Nat) (bounds : List Nat) :
    ∃ vals, readTableLineTOUGH2 row ncols (bounds.map natPos) = .ok vals ∧
      (∀ (k a b : Nat), bounds[k]? = some a → bounds[k + 1]? = some b → vals[k]? = some (readField (slice row a b))) ∧
      (∀ (k : Nat), bounds.length - 1 ≤ k → k < ncols → vals[k]? = some zero) := by
  refine ⟨_, readTableLineTOUGH2_eq row ncols bounds, ?_, ?_⟩
  · intro k a b ha hb
    have h := fieldTexts_get row bounds k a b ha hb
    have hlt : k < ((fieldTexts row bounds).map readField).length := by
      rcases Nat.lt_or_ge k (fieldTexts row bounds).length with h1 | h1
      · simpa using h1
      · rw [List.getElem?_eq_none h1] at h; cases h
    rw [List.getElem?_append_left hlt, List.getElem?_map, h]; rfl
  · intro k hk hkn
    have hlen : ((fieldTexts row bounds).map readField).length = bounds.length - 1 := by
      rw [List.length_map]
      have : ∀ (l : List Nat), (fieldTexts row l).length = l.length - 1 := by
        intro l
        induction l with
        | nil => rfl
        | cons x r ih => cases r with
          | nil => rfl
          | cons y r' => simp only [fieldTexts, List.length_cons] at ih ⊢; omega
      exact this bounds
    rw [List.getElem?_append_right (by omega), hlen]
    rw [List.getElem?_replicate]
    rw [if_pos (by omega)]

/-- what `fortran_float` makes of the text of a field (C16): any Fortran rendering of a real — `E±dd`, `D`, three
    exponent digits without the letter, negative, zero — padded with blanks anywhere, reads as the decimal
    printed; a blank field, or one that lies beyond the end of a short row, reads as 0.0; a line terminator
    behind the last field changes nothing. -/
theorem field_value_printed (r : Proofs.FReal) (hr : r.WF) (s : Str) (hs : s.filter (· != ' ') = r.render) :
    readField s = r.value := readField_real r hr s hs

theorem blank_field_is_zero (s : Str) (h : ∀ c ∈ s, isStrWs c = true) : readField s = zero := readField_blank s h

theorem field_beyond_row_is_zero (row : Str) (a b : Nat) (h : row.length ≤ a) : readField (slice row a b) = zero := by
  rw [slice_beyond row a b h]; exact readField_blank [] (by simp)

theorem line_terminator_ignored (s t : Str) (ht : ∀ c ∈ t, isNumWs c = true) : readField (s ++ t) = readField s :=
  readField_append_ws s t ht

-- the generation-table row of rfp.listing with its two trailing columns blank, and a row of adjacent numbers
example : readTableLineTOUGH2 "      AA 1   INJ 1 1           0.37500E+01    0.50000E+06\n".toList 4 ([30, 42, 57, 70].map natPos)
    = .ok [.fin false 37500 (-4), .fin false 50000 1, .fin false 0 0, .fin false 0 0] := by decide
example : parseTableLine "  AA 1     1 0.99013E+07 0.00000E+00-0.12409E+03\n".toList (some 12) [['P'], ['T'], ['X']]
    = .ok [some 12, some 24, some 36, some 49] := by decide
example : readTableLineTOUGH2 "  BA 1     2 0.94153E+07 0.19209-103-0.66842E+01\n".toList 3 [some 12, some 24, some 36, some 49]
    = .ok [.fin false 94153 2, .fin false 19209 (-108), .fin true 66842 (-4)] := by decide
-- the hypotheses are satisfiable: the line of the second example as prefix ++ fields ++ tail
example : let cells : List Cell := [⟨1, ['0'], "99013E+07".toList⟩, ⟨1, ['0'], "00000E+00".toList⟩, ⟨0, ['-', '0'], "12409E+03".toList⟩]
    "  AA 1     1".toList ++ (renderAll cells ++ ['\n']) = "  AA 1     1 0.99013E+07 0.00000E+00-0.12409E+03\n".toList ∧
    SepChain cells ∧ starts 12 cells = [12, 24, 36] := by
  refine ⟨by decide, ⟨Or.inl ⟨by decide, by decide⟩, Or.inr ⟨rfl, "00000".toList, '+', '0', '0', by decide, by decide⟩, trivial⟩, by decide⟩

/-- The side conditions of `column_boundaries_correct` are decidable on a concrete line; `rowFormatB` decides them and
    this theorem says its answer can be trusted.  The driver evaluates it on the line every table's columns were
    inferred from (all TOUGH2-family tables of the 37 shipped files but the ECO2M table with the integer column
    satisfy it; the evidence file reports the count of every run). -/
theorem row_format_decidable (line : Str) (bounds : List Nat) (h : rowFormatB line bounds = true) :
    ∃ (P : Str) (cells : List Cell) (tail : Str),
      line = P ++ (renderAll cells ++ tail) ∧ '.' ∉ P ∧ '.' ∉ tail ∧ (∀ c ∈ cells, c.WF) ∧ SepChain cells ∧ cells ≠ [] ∧
      starts P.length cells = bounds :=
  rowFormat_sound line bounds h

example : rowFormatB "  AA 1     1 0.99013E+07 0.00000E+00-0.12409E+03\n".toList [12, 24, 36] = true := by decide

/-! ### one row per printed row, keyed by the printed names, in the order of the printed index -/

/-- `setup_table_TOUGH2` keeps the rows in a dictionary keyed by the printed index (`dictSet`) and orders the table
    by `sorted(keys)` (`sortByIndex`): a row printed again under the same index (TOUGH2-MP prints a row once per
    processor holding it) replaces the earlier one, every other index keeps its row, no index is held twice, and the
    table lists exactly the rows kept, in ascending order of the printed index. -/
theorem rows_keyed_by_printed_index (d : List Proofs.File.RowEntry) (i : Int) (v : Nat × Key) :
    (dictSet d i v).lookup i = some v ∧
    (∀ j, j ≠ i → (dictSet d i v).lookup j = d.lookup j) ∧
    ((d.map (·.1)).Nodup → ((dictSet d i v).map (·.1)).Nodup) :=
  ⟨Proofs.File.dictSet_lookup_self d i v, fun j hj => Proofs.File.dictSet_lookup_other d i j v hj,
   Proofs.File.dictSet_keys_nodup d i v⟩

theorem rows_in_index_order (d : List Proofs.File.RowEntry) :
    (sortByIndex d).Perm d ∧ Proofs.File.Ascending (sortByIndex d) :=
  ⟨Proofs.File.sortByIndex_perm d, Proofs.File.sortByIndex_ascending d⟩

example : sortByIndex (dictSet (dictSet (dictSet [] 3 (0, [['c']])) 1 (1, [['a']])) 3 (2, [['c']])) = [(1, 1, [['a']]), (3, 2, [['c']])] := by decide

/-! ### asking the reader to skip a table: where the file is left -/

/-- `skip_table_TOUGH2` skips `header_skiplines + num_rows + sum(skiplines)` lines; `read_table_TOUGH2` skips
    `header_skiplines` lines and then reads one line per entry of `skiplines`, skipping `skip` lines after each.  When no
    row of the table is printed twice (`num_rows = len(skiplines)`; TOUGH2-MP tables can violate it) both leave the file
    at exactly the same line, whatever the table contains — so the tables that follow are found and read alike.
    (When rows are printed twice the skip lands inside the table; `next_table` then scans forward to the next table
    header, which the correspondence and the oracle cover, not this theorem.)  `rest` are the lines from the table
    header on. -/
theorem skip_lands_where_read_lands (t t' : Table) (rest rest' : List Str)
    (hrows : t.rows.size = t.skips.length)
    (h : readRowsL t.keyPos t.cols.length t.numpos t.skips (rest.drop t.headerSkip) t = .ok (t', rest')) :
    rest' = rest.drop (t.headerSkip + t.rows.size + t.skips.sum) := by
  rw [Proofs.File.readRowsL_rest _ _ _ _ _ _ _ _ h, List.drop_drop, hrows]
  congr 1; omega

/-! ### AUTOUGH2 rows: values are separated by blanks -/

/-- An AUTOUGH2 row is `pre` (keys and index, as long as `start`) followed by whitespace and the printed numbers,
    each followed by whitespace (non-empty between two numbers).  `read_table_line_AUTOUGH2` returns exactly the
    values of the printed numbers, one per number. -/
theorem autough2_row_split_correct (pre lead : Str) (toks : List (Str × Str))
    (hlead : ∀ c ∈ lead, isStrWs c = true) (htoks : ToksOk toks) :
    readTableLineAUTOUGH2 (pre ++ (lead ++ joinToks toks)) (some (pre.length : Int))
      = .ok (toks.map (fun p => readField p.1)) := by
  unfold readTableLineAUTOUGH2
  have h1 : sliceO (pre ++ (lead ++ joinToks toks)) (some (pre.length : Int)) none = lead ++ joinToks toks := by
    have := sliceBound_nat (pre ++ (lead ++ joinToks toks)).length pre.length
    simp only [Int.ofNat_eq_natCast] at this
    simp only [sliceO, this]
    unfold slice
    have hmin : min pre.length (pre ++ (lead ++ joinToks toks)).length = pre.length := by simp
    rw [hmin, List.drop_left]
    apply List.take_of_length_le
    simp
  rw [h1, splitWs_strip]
  have h2 : splitWs (lead ++ joinToks toks) = toks.map (·.1) := by
    unfold splitWs
    rw [splitWs_go_ws lead _ hlead, splitWs_go_toks toks htoks]
  rw [h2, mapM_readField, List.map_map]
  rfl

/-- and it characterises the other case: two numbers printed with no blank between them are one token for the
    split (so the count of values no longer matches the column count, which `setup_table_AUTOUGH2` refuses) -/
theorem autough2_adjacent_numbers_merge (a b : Str) (ha : ∀ c ∈ a, isStrWs c = false) (hb : ∀ c ∈ b, isStrWs c = false)
    (hne : a ≠ []) : splitWs (a ++ b) = [a ++ b] := by
  have h : ToksOk [(a ++ b, [])] := by
    refine ⟨?_, ?_, by simp⟩
    · cases a with
      | nil => exact absurd rfl hne
      | cons _ _ => simp
    · intro c hc; rcases List.mem_append.mp hc with h | h
      · exact ha c h
      · exact hb c h
  have := splitWs_go_toks _ h
  simpa [splitWs, joinToks] using this

example : readTableLineAUTOUGH2 "    AA  1         1      0.29971E+08      0.39992E+03 -0.10000E+01\r\n".toList (some 24)
    = .ok [.fin false 29971 3, .fin false 39992 (-2), .fin true 10000 (-4)] := by decide
example : ToksOk [("0.29971E+08".toList, "   ".toList), ("-0.1E+01".toList, "\r\n".toList)] := by
  refine ⟨by decide, by decide, by decide, by decide, by decide, by decide, by decide⟩

/-! ### simulator detection binds only methods that the model implements -/

/-- the per-simulator methods of t2listing that the whole-file model transcribes -/
def modelledMethods : List String :=
  ["setup_pos_AUTOUGH2", "setup_pos_TOUGH2", "table_type_AUTOUGH2", "table_type_TOUGH2", "table_type_TOUGHplus",
   "setup_table_AUTOUGH2", "setup_table_TOUGH2", "setup_tables_AUTOUGH2", "setup_tables_TOUGH2", "setup_tables_TOUGHplus",
   "read_header_AUTOUGH2", "read_header_TOUGH2", "read_table_AUTOUGH2", "read_table_TOUGH2",
   "next_table_AUTOUGH2", "next_table_TOUGH2", "next_table_TOUGHplus",
   "read_tables_AUTOUGH2", "read_tables_TOUGH2", "read_tables_TOUGHplus",
   "skip_to_table_AUTOUGH2", "skip_to_table_TOUGH2", "skip_to_table_TOUGHplus",
   "read_table_line_AUTOUGH2", "read_table_line_TOUGH2",
   "read_title_AUTOUGH2", "read_title_TOUGH2", "read_title_TOUGH2_MP", "skip_table_AUTOUGH2", "skip_table_TOUGH2"]

/-- Over the table regenerated from /repo's current `detect_simulator` on every run (Gen/ListingBind.lean): for each of the
    six simulators every internal function name is bound, and bound to a method the model implements — the model
    dispatches through this very table (`Model.Listing.bound`).  A method added, removed or renamed in the source
    changes the table and this theorem is checked again. -/
theorem binding_is_modelled :
    Gen.ListingBind.binding.length = 6 ∧
    Gen.ListingBind.binding.all (fun p => Gen.ListingBind.internalFns.all (fun f =>
      match p.2.lookup f with
      | some tgt => modelledMethods.contains tgt
      | none => false)) = true := by decide

/-! ### the row-index, row-name and column-name ways of addressing a cell agree -/

/-- For a table cell (row `i` with key `key`, column `c` at position `k`, value `v`; `i` is the row its name
    addresses, i.e. the name is not repeated later): `table[i][c]`, `table[key][c]` and `table[c][i]` all give `v`,
    and both row forms announce `key`. -/
theorem addressing_agrees (t : Table) (i k : Nat) (c : Str) (key : Key) (rowv : Array FVal) (v : FVal)
    (hrow : t.rows[i]? = some key) (hname : lastIdx t.rows key = some i)
    (hcol : colIdx t.cols c = some k)
    (hdata : t.data[i]? = some rowv) (hlen : rowv.size = t.cols.length) (hv : rowv[k]? = some v) :
    (∃ rv, t.getByIndex i = .ok rv ∧ rv.key = key ∧ rv.get c = some v) ∧
    (∃ rv, t.getByName key = some rv ∧ rv.key = key ∧ rv.get c = some v) ∧
    (∃ col, t.getCol c = some col ∧ col[i]? = some v) := by
  have hi : i < t.rows.size := (lastIdx_spec hname).1
  refine ⟨⟨t.rowView i false, ?_, (rowView_key t i key hrow).1, ?_⟩, ⟨t.rowView i false, ?_, (rowView_key t i key hrow).1, ?_⟩,
    getCol_get t i k c rowv v hcol hdata hv⟩
  · unfold Table.getByIndex
    have h1 : ¬ ((i : Int) < 0) := by omega
    have h2 : ¬ ((i : Int) < 0 ∨ (i : Int) ≥ (t.rows.size : Int)) := by omega
    simp only [h1, if_false]
    simp [hi]
  · simpa using rowView_get t i k c rowv v false hcol hdata hlen hv
  · unfold Table.getByName; rw [hname]
  · simpa using rowView_get t i k c rowv v false hcol hdata hlen hv

/-- A connection named in reverse order (the name itself is not a row, its reverse is): the row comes back with the
    names reversed and every value negated. -/
theorem reversed_key_row (t : Table) (i k : Nat) (c : Str) (key rkey : Key) (rowv : Array FVal) (v : FVal)
    (hallow : t.allowRev = true) (hlen1 : pyLenKey key > 1)
    (hnot : lastIdx t.rows key = none) (hrev : lastIdx t.rows (pyRevKey key) = some i)
    (hrow : t.rows[i]? = some rkey)
    (hcol : colIdx t.cols c = some k)
    (hdata : t.data[i]? = some rowv) (hlen : rowv.size = t.cols.length) (hv : rowv[k]? = some v) :
    ∃ rv, t.getByName key = some rv ∧ rv.key = pyRevKey rkey ∧ rv.get c = some (negF v) := by
  refine ⟨t.rowView i true, ?_, (rowView_key t i rkey hrow).2, ?_⟩
  · unfold Table.getByName
    rw [hnot]
    have : (decide (pyLenKey key > 1) && t.allowRev) = true := by simp [hlen1, hallow]
    simp only [this, if_true, hrev]
  · simpa using rowView_get t i k c rowv v true hcol hdata hlen hv

-- a two-row connection table
private def exT : Table :=
  { mkTable [['F'], ['G']] #[[['a'], ['b']], [['b'], ['c']]] 2 true with
    data := #[#[.fin false 1 0, .fin false 2 0], #[.fin false 3 0, .fin true 4 0]] }
example : exT.getByIndex 1 = .ok ⟨[['b'], ['c']], [(['F'], .fin false 3 0), (['G'], .fin true 4 0)]⟩ := by decide
example : exT.getByName [['b'], ['c']] = some ⟨[['b'], ['c']], [(['F'], .fin false 3 0), (['G'], .fin true 4 0)]⟩ := by decide
example : exT.getByName [['c'], ['b']] = some ⟨[['c'], ['b']], [(['F'], .fin true 3 0), (['G'], .fin false 4 0)]⟩ := by decide
example : exT.getCol ['G'] = some [.fin false 2 0, .fin true 4 0] := by decide
example : lastIdx exT.rows [['b'], ['c']] = some 1 ∧ colIdx exT.cols ['G'] = some 1 := by decide


/-! ### a whole printed table: the reading loop of the whole-file reader over the lines of one table

  The region of a TOUGH2-family table, as the layout recorded at set-up time describes it: `header_skiplines` lines
  (column header, units, blank lines), then for every entry of `skiplines` one printed data line followed by that many
  lines to be skipped (blank lines, repeated headers), then whatever follows the table (`after`).  `read_table_TOUGH2`
  is the method bound for TOUGH2, TOUGH2_MP, TOUGH3, TOUGHREACT and TOUGH+ (`binding_is_modelled`). -/

open Proofs.Whole in
/-- the well-formedness of a table region for a table `t` that has been set up: decidable on concrete lines -/
def TableRegionT (t : Table) (header : List Str) (segs : List (Str × List Str)) : Prop :=
  header.length = t.headerSkip ∧ segs.map (·.2.length) = t.skips ∧ t.data.size = t.rows.size ∧
  ∀ sg ∈ segs, (rowOfLineT t.rows t.keyPos t.cols.length t.numpos sg.1).isSome = true

instance (t : Table) (header : List Str) (segs : List (Str × List Str)) : Decidable (TableRegionT t header segs) := by
  unfold TableRegionT; infer_instance

open Proofs.Whole in
/-- what `rowOfLineT … d = some (i, vals)` says about a printed data line `d`: its key (`key_from_line`) names row
    `i` of the table, the row reader does not raise on it and returns `vals`, one value per column -/
theorem data_line_meaning (t : Table) (d : Str) (i : Nat) (vals : List FVal) :
    rowOfLineT t.rows t.keyPos t.cols.length t.numpos d = some (i, vals) ↔
      ∃ key, keyFromLine d t.keyPos = .ok key ∧ lastIdx t.rows key = some i ∧
        readTableLineTOUGH2 d t.cols.length t.numpos = .ok vals ∧ vals.length = t.cols.length :=
  rowOfLineT_spec _ _ _ _ _ _ _

open Proofs.Whole in
/-- **One row per printed data line (TOUGH2 family).**  `read_table_TOUGH2`, run with the file at the first line of a
    well-formed table region, returns normally; the file is then exactly behind the region (line count included);
    for every printed data line `d` (the `j`-th), the row its key names holds exactly the values the row reader
    returns for `d` — unless a later data line of the same table names the same row, which then wins, as coded;
    rows named by no data line keep what they held; the table's row names, columns and layout are unchanged; no
    other table and no other attribute of the reader changes. -/
theorem table_read_TOUGH2 (tn : String) (t : Table) (s : Rd) (header : List Str) (segs : List (Str × List Str))
    (after : List Str)
    (ht : s.tables.lookup tn = some t)
    (hrest : s.pos.rest = header ++ (flat segs ++ after))
    (hwf : TableRegionT t header segs) :
    ∃ s' t', (readTableTOUGH2 tn).run s = .ok ((), s') ∧
      s'.pos = ⟨s.pos.no + (header.length + (flat segs).length), after⟩ ∧
      s'.tables.lookup tn = some t' ∧ t' = { t with data := t'.data } ∧ t'.data.size = t.data.size ∧
      (∀ (j : Nat) d i vals, (segs.map (·.1))[j]? = some d →
          rowOfLineT t.rows t.keyPos t.cols.length t.numpos d = some (i, vals) →
          (∀ (j' : Nat) d', j < j' → (segs.map (·.1))[j']? = some d' →
              ∀ v', rowOfLineT t.rows t.keyPos t.cols.length t.numpos d' ≠ some (i, v')) →
          t'.data[i]? = some vals.toArray) ∧
      (∀ i, (∀ d ∈ segs.map (·.1), ∀ v, rowOfLineT t.rows t.keyPos t.cols.length t.numpos d ≠ some (i, v)) →
          t'.data[i]? = t.data[i]?) ∧
      (∀ m, m ≠ tn → s'.tables.lookup m = s.tables.lookup m) ∧
      s'.tables.map (·.1) = s.tables.map (·.1) ∧
      s' = { s with pos := s'.pos, tables := s'.tables } := by
  obtain ⟨hh, hsk, hdata, hok⟩ := hwf
  let f : Str → Option (Nat × List FVal) := rowOfLineT t.rows t.keyPos t.cols.length t.numpos
  have hups : segs.map (fun sg => f sg.1) = ((segs.map (·.1)).filterMap f).map some := by
    rw [← map_eq_map_some_filterMap f (segs.map (·.1))]
    · rw [List.map_map]; rfl
    · intro x hx
      obtain ⟨sg, hsg, rfl⟩ := List.mem_map.mp hx
      exact hok sg hsg
  have hrun := readTableTOUGH2_run tn t s header segs after _ ht hrest hh hsk hups
  refine ⟨_, { t with data := applyRows t.data ((segs.map (·.1)).filterMap f) }, hrun, rfl, ?_, rfl, ?_, ?_, ?_, ?_, ?_, rfl⟩
  · exact putT_lookup_self tn _ _ (by simp [ht])
  · exact applyRows_size _ _
  · intro j d i vals hj hf hlater
    have hi : i < t.data.size := by
      obtain ⟨key, _, hli, _, _⟩ := (rowOfLineT_spec _ _ _ _ _ _ _).mp hf
      rw [hdata]; exact (Proofs.Listing.lastIdx_spec hli).1
    exact applyRows_line f _ t.data j d i vals hj hf hi hlater
  · intro i h
    exact applyRows_no_line f _ t.data i h
  · intro m hm
    exact putT_lookup_other tn m _ _ hm
  · exact putT_names tn _ _

open Proofs.Whole in
/-- **Each cell equals the number printed in that row and column (whole table, TOUGH2 family).**  With the column
    boundaries `b₀ … bₙ` of the layout (those `column_boundaries_correct` infers), after `read_table_TOUGH2` on a
    well-formed region the cell in the row named by data line `d` and column `k` is `fortran_float` of columns
    `[b_k, b_{k+1})` of `d` (what `field_value_printed` / `blank_field_is_zero` evaluate), when no later line names
    the same row. -/
theorem cells_equal_printed_table_TOUGH2 (tn : String) (t : Table) (s : Rd) (header : List Str) (segs : List (Str × List Str))
    (after : List Str) (bounds : List Nat)
    (ht : s.tables.lookup tn = some t)
    (hrest : s.pos.rest = header ++ (flat segs ++ after))
    (hwf : TableRegionT t header segs) (hb : t.numpos = bounds.map natPos) :
    ∃ s' t', (readTableTOUGH2 tn).run s = .ok ((), s') ∧ s'.pos.rest = after ∧ s'.tables.lookup tn = some t' ∧
      ∀ (j : Nat) d i vals, (segs.map (·.1))[j]? = some d →
        rowOfLineT t.rows t.keyPos t.cols.length t.numpos d = some (i, vals) →
        (∀ (j' : Nat) d', j < j' → (segs.map (·.1))[j']? = some d' →
            ∀ v', rowOfLineT t.rows t.keyPos t.cols.length t.numpos d' ≠ some (i, v')) →
        ∃ row, t'.data[i]? = some row ∧ row.size = t.cols.length ∧
          ∀ (k a b : Nat), bounds[k]? = some a → bounds[k + 1]? = some b → row[k]? = some (readField (slice d a b)) := by
  obtain ⟨s', t', hrun, hpos, htab, _, _, hline, _⟩ := table_read_TOUGH2 tn t s header segs after ht hrest hwf
  refine ⟨s', t', hrun, by rw [hpos], htab, ?_⟩
  intro j d i vals hj hf hlater
  refine ⟨vals.toArray, hline j d i vals hj hf hlater, ?_, ?_⟩
  · obtain ⟨_, _, _, _, hl⟩ := (rowOfLineT_spec _ _ _ _ _ _ _).mp hf
    simpa using hl
  · intro k a b ha hbb
    obtain ⟨_, _, _, hv, _⟩ := (rowOfLineT_spec _ _ _ _ _ _ _).mp hf
    obtain ⟨vals', hv', hcell, _⟩ := row_slicing_correct d t.cols.length bounds
    rw [hb, hv'] at hv
    injection hv with hv
    subst hv
    simpa using hcell k a b ha hbb

open Proofs.Whole in
/-- **Skipping a table leaves the file where reading it would (whole table, TOUGH2 family).**  On the same region,
    for a table with as many rows as printed data lines (no row printed twice), `skip_table_TOUGH2` and
    `read_table_TOUGH2` end at the same file position, and the skip changes nothing else. -/
theorem skip_table_lands_where_read_lands_TOUGH2 (tn : String) (t : Table) (s : Rd) (header : List Str)
    (segs : List (Str × List Str)) (after : List Str)
    (ht : s.tables.lookup tn = some t)
    (hrest : s.pos.rest = header ++ (flat segs ++ after))
    (hwf : TableRegionT t header segs) (hrows : t.rows.size = segs.length) :
    ∃ s₁ s₂, (readTableTOUGH2 tn).run s = .ok ((), s₁) ∧ (skipTableTOUGH2 tn).run s = .ok ((), s₂) ∧
      s₂.pos = s₁.pos ∧ s₂ = { s with pos := s₂.pos } := by
  obtain ⟨s₁, _, hrun, hpos, _⟩ := table_read_TOUGH2 tn t s header segs after ht hrest hwf
  refine ⟨s₁, _, hrun, skipTableTOUGH2_run tn t s header segs after ht hrest hwf.1 hwf.2.1 hrows, ?_, rfl⟩
  rw [hpos]

-- the hypotheses of the four theorems above are satisfiable: a two-row element table (header line, blank line, a data
-- line followed by a blank line, a data line, the `@@@@@` line behind the table)
private def exT2 : Table :=
  { mkTable [['P'], ['T'], ['X']] #[[" AA 1".toList], [" BA 1".toList]] 1 false with
    keyPos := [1], numpos := [12, 24, 36, 49].map natPos, headerSkip := 2, skips := [1, 0] }
private def exHdr : List Str := [" ELEM. INDEX P T X\n".toList, "\n".toList]
private def exSegs : List (Str × List Str) :=
  [("  AA 1     1 0.99013E+07 0.00000E+00-0.12409E+03\n".toList, ["\n".toList]),
   ("  BA 1     2 0.94153E+07 0.19209-103-0.66842E+01\n".toList, [])]
private def exAfter : List Str := [" @@@@@@@@@@\n".toList]
private def exRd : Rd :=
  { all := exHdr ++ (Proofs.Whole.flat exSegs ++ exAfter), isOutputData := false,
    pos := ⟨0, exHdr ++ (Proofs.Whole.flat exSegs ++ exAfter)⟩, tables := [("element", exT2)] }
example : exRd.tables.lookup "element" = some exT2 ∧ exRd.pos.rest = exHdr ++ (Proofs.Whole.flat exSegs ++ exAfter) ∧
    TableRegionT exT2 exHdr exSegs ∧ exT2.numpos = [12, 24, 36, 49].map natPos ∧ exT2.rows.size = exSegs.length :=
  ⟨rfl, rfl, by decide, rfl, by decide⟩
example : Proofs.Whole.rowOfLineT exT2.rows exT2.keyPos exT2.cols.length exT2.numpos exSegs[1].1
    = some (1, [.fin false 94153 2, .fin false 19209 (-108), .fin true 66842 (-4)]) := by decide


/-! ### a whole printed table, AUTOUGH2: the loop runs to the terminator line

  The lines from behind the table's keyword line (`EEEEE`, `CCCCC`, `GGGGG` in columns 1..5): the rest of the title
  block `A` (non-blank lines), a blank line `b`, the column header block `B` (non-blank lines), blank lines
  `b2 :: Bl`, the printed data lines `D`, the terminator `term` (the keyword again), then `tail`
  (`Proofs.Whole.autRegion` is this concatenation). -/

open Proofs.Whole in
/-- well-formedness of an AUTOUGH2 table region for a table `t` that has been set up: decidable on concrete lines -/
def TableRegionA (tn : String) (t : Table) (A : List Str) (b : Str) (B : List Str) (b2 : Str) (Bl D : List Str) (term : Str) : Prop :=
  (∀ l ∈ A, isBlank l = false) ∧ isBlank b = true ∧ (∀ l ∈ B, isBlank l = false) ∧ isBlank b2 = true ∧
  (∀ l ∈ Bl, isBlank l = true) ∧ isBlank ((D ++ [term]).headD []) = false ∧
  (∀ d ∈ D, slice d 1 6 ≠ keyword5 tn) ∧ slice term 1 6 = keyword5 tn ∧
  (∀ d ∈ D, (rowOfLineA t.cols.length (t.numpos.headD none) d).isSome = true) ∧
  D.length ≤ t.rows.size ∧ t.data.size = t.rows.size

instance (tn : String) (t : Table) (A : List Str) (b : Str) (B : List Str) (b2 : Str) (Bl D : List Str) (term : Str) :
    Decidable (TableRegionA tn t A b B b2 Bl D term) := by
  unfold TableRegionA; infer_instance

open Proofs.Whole in
/-- **One row per printed data line, in order, up to the terminator (AUTOUGH2).**  `read_table_AUTOUGH2`, run with the
    file at the first line of a well-formed region, returns normally; the loop stops at the terminator line and one
    more line is read behind it (`tail.drop 1` is left, line count included); row `j` of the table holds exactly the
    values `read_table_line_AUTOUGH2` returns for the `j`-th printed data line, one per column; rows beyond the
    printed lines keep what they held; row names, columns and layout of the table are unchanged; no other table and
    no other attribute of the reader changes. -/
theorem table_read_AUTOUGH2 (tn : String) (t : Table) (s : Rd)
    (A : List Str) (b : Str) (B : List Str) (b2 : Str) (Bl D : List Str) (term : Str) (tail : List Str)
    (ht : s.tables.lookup tn = some t)
    (hrest : s.pos.rest = autRegion A b B b2 Bl D term tail)
    (hwf : TableRegionA tn t A b B b2 Bl D term) :
    ∃ s' t', (readTableAUTOUGH2 tn).run s = .ok ((), s') ∧
      s'.pos = ⟨s.pos.no + (A.length + 1 + B.length + 1 + Bl.length + D.length + 1 + min 1 tail.length), tail.drop 1⟩ ∧
      s'.tables.lookup tn = some t' ∧ t' = { t with data := t'.data } ∧ t'.data.size = t.data.size ∧
      (∀ (j : Nat) d, D[j]? = some d →
          ∃ vals, readTableLineAUTOUGH2 d (t.numpos.headD none) = .ok vals ∧ vals.length = t.cols.length ∧
            t'.data[j]? = some vals.toArray) ∧
      (∀ i, D.length ≤ i → t'.data[i]? = t.data[i]?) ∧
      (∀ m, m ≠ tn → s'.tables.lookup m = s.tables.lookup m) ∧
      s'.tables.map (·.1) = s.tables.map (·.1) ∧
      s' = { s with pos := s'.pos, tables := s'.tables } := by
  obtain ⟨hA, hb, hB, hb2, hBl, hfirst, hD, hterm, hok, hsz, hdata⟩ := hwf
  let f : Str → Option (List FVal) := rowOfLineA t.cols.length (t.numpos.headD none)
  have hmap := map_eq_map_some_filterMap f D hok
  have hlen : (D.filterMap f).length = D.length := by
    have := congrArg List.length hmap; simpa using this.symm
  have hrun := readTableAUTOUGH2_run tn t s A b B b2 Bl D term tail ht hrest hA hb hB hb2 hBl hfirst hD hterm hok hsz
  refine ⟨_, { t with data := applyRows t.data (enumRows 0 (D.filterMap f)) }, hrun, rfl, ?_, rfl, ?_, ?_, ?_, ?_, ?_, rfl⟩
  · exact putT_lookup_self tn _ _ (by simp [ht])
  · exact applyRows_size _ _
  · intro j d hj
    obtain ⟨vals, hv, hl, hf⟩ := rowOfLineA_some (hok d (List.mem_of_getElem? hj))
    refine ⟨vals, hv, hl, ?_⟩
    have hget : (D.filterMap f)[j]? = some vals := by
      have := congrArg (fun l => l[j]?) hmap
      simp only [List.getElem?_map, hj, Option.map_some] at this
      have hf' : f d = some vals := hf
      rw [hf'] at this
      cases h : (D.filterMap f)[j]? with
      | none => rw [h] at this; cases this
      | some v => rw [h] at this; simp only [Option.map_some, Option.some.injEq] at this; rw [this]
    have := applyRows_enum t.data 0 (D.filterMap f) j vals hget (by rw [hlen, hdata]; omega)
    simpa using this
  · intro i hi
    exact applyRows_enum_other t.data 0 (D.filterMap f) i (Or.inr (by rw [hlen]; omega))
  · intro m hm
    exact putT_lookup_other tn m _ _ hm
  · exact putT_names tn _ _

open Proofs.Whole in
/-- **Skipping a table leaves the file where reading it would (AUTOUGH2).**  On the same region, when no line of the
    header block carries the table's keyword in columns 1..5, `skip_table_AUTOUGH2` and `read_table_AUTOUGH2` end at
    the same file position, and the skip changes nothing else. -/
theorem skip_table_lands_where_read_lands_AUTOUGH2 (tn : String) (t : Table) (s : Rd)
    (A : List Str) (b : Str) (B : List Str) (b2 : Str) (Bl D : List Str) (term : Str) (tail : List Str)
    (ht : s.tables.lookup tn = some t)
    (hrest : s.pos.rest = autRegion A b B b2 Bl D term tail)
    (hwf : TableRegionA tn t A b B b2 Bl D term)
    (hhead : ∀ l ∈ b :: (B ++ b2 :: Bl), slice l 1 6 ≠ keyword5 tn) :
    ∃ s₁ s₂, (readTableAUTOUGH2 tn).run s = .ok ((), s₁) ∧ (skipTableAUTOUGH2 tn).run s = .ok ((), s₂) ∧
      s₂.pos = s₁.pos ∧ s₂ = { s with pos := s₂.pos } := by
  obtain ⟨s₁, _, hrun, hpos, _⟩ := table_read_AUTOUGH2 tn t s A b B b2 Bl D term tail ht hrest hwf
  refine ⟨s₁, _, hrun, skipTableAUTOUGH2_run tn s A b B b2 Bl D term tail hrest hwf.1 hwf.2.1 hhead hwf.2.2.2.2.2.2.1 hwf.2.2.2.2.2.2.2.1, ?_, rfl⟩
  rw [hpos]

-- the hypotheses are satisfiable: an AUTOUGH2 element table of two rows between its two `EEEEE` lines
private def exTA : Table :=
  { mkTable [['P'], ['T'], ['X']] #[["AA  1".toList], ["AA  2".toList]] 1 false with keyPos := [4], numpos := [some 24] }
private def exDA : List Str :=
  ["    AA  1         1      0.29971E+08      0.39992E+03 -0.10000E+01\r\n".toList,
   "    AA  2         2      0.29000E+08      0.10000E+03  0.00000E+00\r\n".toList]
private def exRdA : Rd :=
  let ls := Proofs.Whole.autRegion [" a title line\n".toList] "\n".toList [" ELEMENT INDEX P T X\n".toList, " (PA) (DEG-C)\n".toList]
    "\n".toList ["  \n".toList] exDA " EEEEEEEEEEEEEEE\n".toList ["\n".toList, " next\n".toList]
  { all := ls, isOutputData := false, pos := ⟨7, ls⟩, tables := [("element", exTA)] }
example : exRdA.tables.lookup "element" = some exTA ∧
    exRdA.pos.rest = Proofs.Whole.autRegion [" a title line\n".toList] "\n".toList [" ELEMENT INDEX P T X\n".toList, " (PA) (DEG-C)\n".toList]
      "\n".toList ["  \n".toList] exDA " EEEEEEEEEEEEEEE\n".toList ["\n".toList, " next\n".toList] ∧
    TableRegionA "element" exTA [" a title line\n".toList] "\n".toList [" ELEMENT INDEX P T X\n".toList, " (PA) (DEG-C)\n".toList]
      "\n".toList ["  \n".toList] exDA " EEEEEEEEEEEEEEE\n".toList ∧
    (∀ l ∈ "\n".toList :: ([" ELEMENT INDEX P T X\n".toList, " (PA) (DEG-C)\n".toList] ++ "\n".toList :: ["  \n".toList]),
      slice l 1 6 ≠ keyword5 "element") :=
  ⟨rfl, rfl, by decide, by decide⟩


/-! ### all tables of one result block (TOUGH2 family): read_tables_TOUGH2, with some tables skipped

  A block is a list of entries (`Proofs.Whole.TEntry`): a table name, its lines — either a table that is read
  (`TKind.read t header segs`: the region of `table_read_TOUGH2`) or one that is skipped because the reader holds no
  table of that name (it is in `skip_tables`, so was never set up, or was absent at the first result time:
  `TKind.skip R atl`, lines `R` without `@@@@@` in columns 1..5 followed by the `@@@@@` line) — and the lines up to
  the next table: lines `X` without a `KCYC … ITER` line, that line `kc`, blank lines `Bl`.  `EntryOk`, `LinksOk`,
  `EndOk` (Proofs/ListingWholeBlock.lean) are the decidable well-formedness conditions: every read region is well
  formed for its table, every walk finds the `KCYC` line before the next result block and the next header names the
  next table (not the diffusion block `MASS FLOW RATES …`), and behind the last table comes the end of the file or a
  `KCYC` line of the next block.  `read_tables_TOUGH2` is `read_header` followed by this loop with fuel
  `len(remaining lines) + 2` (`Proofs.Whole.readTables_T2`); the theorem holds for any fuel above the number of tables. -/

open Proofs.Whole in
/-- **Every table of the block holds the values of its own region; skipping some tables changes nothing else.**
    The loop of `read_tables_TOUGH2` over a well-formed block returns; the file is left behind the block; every table
    the block reads holds, under the row named by each of ITS OWN data lines, the row-reader values of that line
    (a later line of the same table naming the same row wins) — whatever tables before it were read or skipped;
    every table no entry reads (the skipped ones, and tables not printed in this block) keeps its contents; nothing
    else of the reader changes. -/
theorem tables_read_block_TOUGH2 (e : TEntry) (more : List TEntry) (Xe : List Str) (tailE : Option (Str × List Str)) (s : Rd)
    (hrd : bound s.fam "read_table" = "read_table_TOUGH2") (hsk : bound s.fam "skip_table" = "skip_table_TOUGH2")
    (hnt : bound s.fam "next_table" = "next_table_TOUGH2") (htt : bound s.fam "table_type" = "table_type_TOUGH2")
    (hplus : (s.fam == .toughplus) = false)
    (hnodup : ((e :: more).map (·.tn)).Nodup)
    (hok : ∀ x ∈ e :: more, EntryOk s.skipTables s.tables x)
    (hlinks : LinksOk s.fulltimes.size s.fullpos s.index s.pos.no (e :: more))
    (hend : EndOk s.fulltimes.size s.fullpos s.index (endNo s.pos.no (e :: more)) Xe tailE)
    (hrest : s.pos.rest = blockLines (e :: more) (endLines Xe tailE))
    (fuel : Nat) (hfuel : more.length < fuel) :
    ∃ s', (tablesLoop actT2 false false fuel e.tn 0).run s = .ok ((), s') ∧
      s'.pos = endPos (endNo s.pos.no (e :: more)) Xe tailE ∧
      (∀ x ∈ e :: more, ∀ t header segs, x.kind = .read t header segs → t.data.size = t.rows.size →
        ∃ t', s'.tables.lookup x.tn = some t' ∧ t' = { t with data := t'.data } ∧
          ∀ (j : Nat) d i vals, (segs.map (·.1))[j]? = some d →
            rowOfLineT t.rows t.keyPos t.cols.length t.numpos d = some (i, vals) →
            (∀ (j' : Nat) d', j < j' → (segs.map (·.1))[j']? = some d' →
              ∀ v', rowOfLineT t.rows t.keyPos t.cols.length t.numpos d' ≠ some (i, v')) →
            t'.data[i]? = some vals.toArray) ∧
      (∀ m, (∀ x ∈ e :: more, x.tn = m → ∃ R atl, x.kind = .skip R atl) → s'.tables.lookup m = s.tables.lookup m) ∧
      s' = { s with pos := s'.pos, tables := s'.tables } := by
  have hrun := tablesLoop_block e more Xe tailE s fuel 0 hfuel hrd hsk hnt htt hplus hnodup hok hlinks hend hrest
  refine ⟨_, hrun, rfl, ?_, ?_, rfl⟩
  · intro x hx t header segs hk hdata
    have hxok := hok x hx
    unfold EntryOk at hxok
    rw [hk] at hxok
    refine ⟨_, foldl_lookup_read (e :: more) s.tables x t header segs hx hk hnodup (by rw [hxok.2.1]; rfl), rfl, ?_⟩
    intro j d i vals hj hf hlater
    have hi : i < t.data.size := by
      obtain ⟨key, _, hli, _, _⟩ := (rowOfLineT_spec _ _ _ _ _ _ _).mp hf
      rw [hdata]; exact (Proofs.Listing.lastIdx_spec hli).1
    exact applyRows_line _ _ t.data j d i vals hj hf hi hlater
  · intro m hm
    exact foldl_lookup_not_read (e :: more) s.tables m hm

-- the hypotheses are satisfiable: the element table of the example above is read, then a connection table the
-- reader holds no table for is skipped, then the file ends
private def exE1 : Proofs.Whole.TEntry :=
  { tn := "element", kind := .read exT2 exHdr exSegs, X := [" @@@@@@@@@@\n".toList, "\n".toList],
    kc := "   KCYC =   1  -  ITER =  1\n".toList, Bl := ["\n".toList] }
private def exE2 : Proofs.Whole.TEntry :=
  { tn := "connection",
    kind := .skip [" ELEM1 ELEM2 INDEX FLOH\n".toList, "\n".toList, "  AA 1  BA 1     1 0.10000E+01\n".toList] " @@@@@@@@@@\n".toList }
private def exRdB : Rd :=
  let ls := Proofs.Whole.blockLines [exE1, exE2] (Proofs.Whole.endLines ["\n".toList] none)
  { all := ls, isOutputData := false, pos := ⟨20, ls⟩, fam := .tough2, tables := [("element", exT2)], skipTables := ["connection"] }
example : bound exRdB.fam "read_table" = "read_table_TOUGH2" ∧ bound exRdB.fam "skip_table" = "skip_table_TOUGH2" ∧
    bound exRdB.fam "next_table" = "next_table_TOUGH2" ∧ bound exRdB.fam "table_type" = "table_type_TOUGH2" ∧
    (exRdB.fam == .toughplus) = false ∧ (([exE1, exE2]).map (·.tn)).Nodup := by decide
example : Proofs.Whole.EntryOk exRdB.skipTables exRdB.tables exE1 ∧ Proofs.Whole.EntryOk exRdB.skipTables exRdB.tables exE2 := by
  refine ⟨⟨by decide, rfl, by decide, by decide, by decide⟩, ⟨rfl, by decide, by decide⟩⟩
example : Proofs.Whole.LinksOk exRdB.fulltimes.size exRdB.fullpos exRdB.index exRdB.pos.no [exE1, exE2] ∧
    Proofs.Whole.EndOk exRdB.fulltimes.size exRdB.fullpos exRdB.index (Proofs.Whole.endNo exRdB.pos.no [exE1, exE2]) ["\n".toList] none := by
  refine ⟨⟨⟨by decide, by decide, by decide, by decide, by decide, by decide, by decide, by decide, by decide⟩, trivial⟩, by decide, trivial⟩

/-! ### all tables of one result block (AUTOUGH2): read_tables_AUTOUGH2, with some tables skipped

  A block is a list of entries (`Proofs.Whole.AEntry`), one per table: the three lines `read_header_AUTOUGH2` reads in
  front of every table (title line `tl`, the `… AFTER n TIME STEPS … t SECONDS` line `hl`, one more line `l3`), the
  table's lines — a table that is read (`AKind.read t A b B b2 Bl D term`: the region of `table_read_AUTOUGH2`) or one
  that is skipped because it is in `skip_tables` (`AKind.skip A b R term`: non-blank lines `A`, a blank line, lines `R`
  without the keyword in columns 1..5, the terminator line) — and, when another table follows, the line `x1` behind the
  terminator and the line `kwl` that `next_table_AUTOUGH2` reads (the keyword line of the next table).  `EntryOkA`,
  `LinksOkA`, `EndOkA` (Proofs/ListingFileWholeAutBlock.lean) are the decidable well-formedness conditions;
  `RegionAOk` there is `TableRegionA` here.  `read_tables_AUTOUGH2` is this loop with fuel `len(remaining lines) + 2`
  (`Proofs.Whole.readTables_A`); the theorem holds for any fuel above the number of tables. -/

example (tn : String) (t : Table) (A : List Str) (b : Str) (B : List Str) (b2 : Str) (Bl D : List Str) (term : Str) :
    Proofs.Whole.RegionAOk tn t A b B b2 Bl D term ↔ TableRegionA tn t A b B b2 Bl D term := Iff.rfl

open Proofs.Whole in
/-- what a reader state `s'` holds after the tables `L` of an AUTOUGH2 block have been gone through from state `s`:
    every table the block reads holds in row `j` exactly the values `read_table_line_AUTOUGH2` returns for ITS OWN
    `j`-th printed data line, one per column (rows beyond the printed lines keep what they held; names, columns and
    layout unchanged) — whatever tables before it were read or skipped; every table no entry reads keeps its contents -/
def HoldsBlockA (s s' : Rd) (L : List AEntry) : Prop :=
  (∀ x ∈ L, ∀ t A b B b2 Bl D term, x.kind = .read t A b B b2 Bl D term →
    ∃ t', s'.tables.lookup x.tn = some t' ∧ t' = { t with data := t'.data } ∧
      (∀ (j : Nat) d, D[j]? = some d →
        ∃ vals, readTableLineAUTOUGH2 d (t.numpos.headD none) = .ok vals ∧ vals.length = t.cols.length ∧
          t'.data[j]? = some vals.toArray) ∧
      (∀ i, D.length ≤ i → t'.data[i]? = t.data[i]?)) ∧
  (∀ m, (∀ x ∈ L, x.tn = m → ∃ A b R term, x.kind = .skip A b R term) → s'.tables.lookup m = s.tables.lookup m)

open Proofs.Whole in
private theorem holdsBlockA_foldl (s : Rd) (L : List AEntry) (T' : List (String × Table))
    (hT : T' = L.foldl (fun T x => stepTablesA x T) s.tables)
    (hnodup : (L.map (·.tn)).Nodup) (hok : ∀ x ∈ L, EntryOkA s.skipTables s.tables x) (s' : Rd) (hs' : s'.tables = T') :
    HoldsBlockA s s' L := by
  subst hT
  refine ⟨?_, ?_⟩
  · intro x hx t A b B b2 Bl D term hk
    have hxok := (hok x hx).2
    rw [hk] at hxok
    simp only at hxok
    rw [hs']
    refine ⟨_, foldlA_lookup_read L s.tables x t A b B b2 Bl D term hx hk hnodup (by rw [hxok.2.1]; rfl), rfl, ?_, ?_⟩
    · intro j d hj
      exact upsA_row x.tn t A b B b2 Bl D term hxok.2.2 j d hj
    · intro i hi
      exact upsA_row_beyond t D i hi
  · intro m hm
    rw [hs']
    exact foldlA_lookup_not_read L s.tables m hm

open Proofs.Whole in
/-- **Every table of the block holds the values of its own region; skipping some tables changes nothing else
    (AUTOUGH2).**  The loop of `read_tables_AUTOUGH2` over a well-formed block returns; the file is left two lines
    behind the last terminator line (or at the end of the file); `HoldsBlockA`; title, step and time are those of the
    header lines in front of the last table; nothing else of the reader changes. -/
theorem tables_read_block_AUTOUGH2 (e : AEntry) (more : List AEntry) (E : List Str) (s : Rd)
    (hhd : bound s.fam "read_header" = "read_header_AUTOUGH2") (hti : bound s.fam "read_title" = "read_title_AUTOUGH2")
    (hrd : bound s.fam "read_table" = "read_table_AUTOUGH2") (hsk : bound s.fam "skip_table" = "skip_table_AUTOUGH2")
    (hnt : bound s.fam "next_table" = "next_table_AUTOUGH2") (htt : bound s.fam "table_type" = "table_type_AUTOUGH2")
    (hnodup : ((e :: more).map (·.tn)).Nodup)
    (hok : ∀ x ∈ e :: more, EntryOkA s.skipTables s.tables x)
    (hlinks : LinksOkA (e :: more)) (hend : EndOkA E)
    (hrest : s.pos.rest = blockLinesA (e :: more) E)
    (fuel : Nat) (hfuel : more.length < fuel) :
    ∃ s', (tablesLoop actA true false fuel e.tn 0).run s = .ok ((), s') ∧
      s'.pos = ⟨endNoA s.pos.no (e :: more) + min 2 E.length, E.drop 2⟩ ∧
      HoldsBlockA s s' (e :: more) ∧
      s'.title = strip (lastE e more).tl ∧ headerAVals (lastE e more).hl = some (s'.step, s'.time) ∧
      s' = { s with pos := s'.pos, tables := s'.tables, title := s'.title, step := s'.step, time := s'.time } := by
  have hrun := tablesLoopA_block e more E s fuel 0 hfuel hhd hti hrd hsk hnt htt hnodup hok hlinks hend hrest
  refine ⟨_, hrun, rfl, holdsBlockA_foldl s (e :: more) _ rfl hnodup hok _ rfl, rfl, ?_, rfl⟩
  exact headerAVals_hvA _ (hok _ (lastE_mem e more)).1

open Proofs.Whole in
/-- **Composition over the result blocks of a file (AUTOUGH2): `set_index(i)` shows block `i`'s own numbers.**
    When the position recorded for result `i` in `fullpos` is the start of a well-formed block (the explicit,
    decidable hypotheses `hprest`, `hok`, `hlinks`, `hend` — the block is the one printed at that place of the file,
    its first table is the element table), `set_index(i)` (negative `i` counted from the end, as coded) returns, the
    index is `i` normalised, and every table holds the numbers of that block's own region (`HoldsBlockA`), whatever
    the reader held before. -/
theorem set_index_reads_block_AUTOUGH2 (s : Rd) (i : Int) (jn : Nat) (p : Pos)
    (e : AEntry) (more : List AEntry) (E : List Str)
    (hj : (if i < 0 then i + (s.fullpos.size : Int) else i) = (jn : Int)) (hjn : jn < s.fullpos.size)
    (hp : s.fullpos[jn]! = p)
    (hel : e.tn = "element")
    (hrt : bound s.fam "read_tables" = "read_tables_AUTOUGH2")
    (hhd : bound s.fam "read_header" = "read_header_AUTOUGH2") (hti : bound s.fam "read_title" = "read_title_AUTOUGH2")
    (hrd : bound s.fam "read_table" = "read_table_AUTOUGH2") (hsk : bound s.fam "skip_table" = "skip_table_AUTOUGH2")
    (hnt : bound s.fam "next_table" = "next_table_AUTOUGH2") (htt : bound s.fam "table_type" = "table_type_AUTOUGH2")
    (hprest : p.rest = blockLinesA (e :: more) E)
    (hnodup : ((e :: more).map (·.tn)).Nodup)
    (hok : ∀ x ∈ e :: more, EntryOkA s.skipTables s.tables x)
    (hlinks : LinksOkA (e :: more)) (hend : EndOkA E) :
    ∃ s', (setIndex i).run s = .ok ((), s') ∧
      s'.index = (if i < 0 then i + (s.fulltimes.size : Int) else i) ∧
      s'.pos = ⟨endNoA p.no (e :: more) + min 2 E.length, E.drop 2⟩ ∧
      HoldsBlockA s s' (e :: more) ∧
      s'.title = strip (lastE e more).tl ∧ headerAVals (lastE e more).hl = some (s'.step, s'.time) ∧
      s' = { s with pos := s'.pos, index := s'.index, tables := s'.tables, title := s'.title, step := s'.step, time := s'.time } := by
  have hrun := setIndex_block_A s i jn p e more E hj hjn hp hel hrt hhd hti hrd hsk hnt htt hprest hnodup hok hlinks hend
  refine ⟨_, hrun, rfl, rfl, holdsBlockA_foldl s (e :: more) _ rfl hnodup hok _ rfl, rfl, ?_, rfl⟩
  exact headerAVals_hvA _ (hok _ (lastE_mem e more)).1

-- the hypotheses are satisfiable: an element table (the region of the example above, laid out as AUTOUGH2 prints it) is
-- read, a connection table in the skip list is skipped; the block is the one recorded in `fullpos`
private def exA1 : Proofs.Whole.AEntry :=
  { tn := "element", tl := " AUTOUGH2 case 1\n".toList,
    hl := " OUTPUT AFTER  27 TIME STEPS    0.1000000000000000E+16 SECONDS\n".toList,
    l3 := " THE TIME IS 0.3169E+08 YEARS\n".toList,
    kind := .read exTA [" EEEEEEEEEEEEEEE\n".toList, "        ELEMENT TABLE\n".toList] "\n".toList [" ELEMENT INDEX P T X\n".toList]
      "\n".toList [] exDA " EEEEEEEEEEEEEEE\n".toList,
    x1 := "\n".toList, kwl := " CCCCCCCCCCCCCCC\n".toList }
private def exA2 : Proofs.Whole.AEntry :=
  { tn := "connection", tl := " AUTOUGH2 case 1\n".toList,
    hl := " OUTPUT AFTER  27 TIME STEPS    0.1000000000000000E+16 SECONDS\n".toList,
    l3 := " THE TIME IS 0.3169E+08 YEARS\n".toList,
    kind := .skip [" CCCCCCCCCCCCCCC\n".toList, "        CONNECTION TABLE\n".toList] "\n".toList
      [" ELEM1 ELEM2 INDEX FLOH\n".toList, "\n".toList, "    AA  1 AA  2         1      0.10000E+01\n".toList] " CCCCCCCCCCCCCCC\n".toList }
private def exRdAB : Rd :=
  let ls := Proofs.Whole.blockLinesA [exA1, exA2] ["\n".toList]
  { all := " EEEEEEEEEEEEEEE\n".toList :: ls, isOutputData := false, pos := ⟨0, " EEEEEEEEEEEEEEE\n".toList :: ls⟩, fam := .autough2,
    tables := [("element", exTA)], skipTables := ["connection"], fullpos := #[⟨1, ls⟩], fulltimes := #[zero] }
example : bound exRdAB.fam "read_tables" = "read_tables_AUTOUGH2" ∧ bound exRdAB.fam "read_header" = "read_header_AUTOUGH2" ∧
    bound exRdAB.fam "read_title" = "read_title_AUTOUGH2" ∧ bound exRdAB.fam "read_table" = "read_table_AUTOUGH2" ∧
    bound exRdAB.fam "skip_table" = "skip_table_AUTOUGH2" ∧ bound exRdAB.fam "next_table" = "next_table_AUTOUGH2" ∧
    bound exRdAB.fam "table_type" = "table_type_AUTOUGH2" ∧ (([exA1, exA2]).map (·.tn)).Nodup ∧ exA1.tn = "element" := by decide
example : Proofs.Whole.headerAVals exA1.hl = some (some 27, .fin false 1000000000000000 0) := by decide
example : Proofs.Whole.EntryOkA exRdAB.skipTables exRdAB.tables exA1 ∧ Proofs.Whole.EntryOkA exRdAB.skipTables exRdAB.tables exA2 :=
  ⟨⟨by decide, by decide, rfl, by decide⟩, ⟨by decide, by decide, by decide, by decide, by decide, by decide⟩⟩
example : Proofs.Whole.LinksOkA [exA1, exA2] ∧ Proofs.Whole.EndOkA ["\n".toList] ∧
    (if (0 : Int) < 0 then (0 : Int) + (exRdAB.fullpos.size : Int) else 0) = ((0 : Nat) : Int) ∧ 0 < exRdAB.fullpos.size ∧
    (exRdAB.fullpos[0]!).rest = Proofs.Whole.blockLinesA [exA1, exA2] ["\n".toList] ∧
    exRdAB.pos.rest.drop 1 = Proofs.Whole.blockLinesA [exA1, exA2] ["\n".toList] :=
  ⟨⟨by decide, trivial⟩, by decide, by decide, by decide, rfl, rfl⟩


/-! ### composition over the result blocks of a file (TOUGH2 family): set_index = seek + read_header + the block loop -/

open Proofs.Whole in
/-- what a reader state `s'` holds after the tables `L` of a TOUGH2-family block have been gone through from state `s`
    (the table part of the conclusion of `tables_read_block_TOUGH2`) -/
def HoldsBlockT (s s' : Rd) (L : List TEntry) : Prop :=
  (∀ x ∈ L, ∀ t header segs, x.kind = .read t header segs → t.data.size = t.rows.size →
    ∃ t', s'.tables.lookup x.tn = some t' ∧ t' = { t with data := t'.data } ∧
      ∀ (j : Nat) d i vals, (segs.map (·.1))[j]? = some d →
        rowOfLineT t.rows t.keyPos t.cols.length t.numpos d = some (i, vals) →
        (∀ (j' : Nat) d', j < j' → (segs.map (·.1))[j']? = some d' →
          ∀ v', rowOfLineT t.rows t.keyPos t.cols.length t.numpos d' ≠ some (i, v')) →
        t'.data[i]? = some vals.toArray) ∧
  (∀ m, (∀ x ∈ L, x.tn = m → ∃ R atl, x.kind = .skip R atl) → s'.tables.lookup m = s.tables.lookup m)

open Proofs.Whole in
/-- **Composition over the result blocks of a file (TOUGH2, TOUGH2_MP, TOUGH3, TOUGHREACT): `set_index(i)` shows block
    `i`'s own numbers.**  `read_header_TOUGH2` is characterised on lines: the line at the recorded position gives time
    and step (its first two words), then lines `X` up to the `@@@@@` line `atl`, blank lines `Bl`, and the first
    non-blank line is the header of the first table (at least four words, so the reader seeks back to it;
    `HeaderT2Ok`, decidable).  When the position recorded for result `i` in `fullpos` is the start of such a header
    followed by a well-formed block whose first table is the element table (explicit decidable hypotheses `hprest`,
    `hhead`, `hok`, `hlinks`, `hend`, evaluated with the index `set_index` sets), `set_index(i)` returns, the index is
    `i` normalised, time and step are those printed, and every table holds the numbers of that block's own region
    (`HoldsBlockT`), whatever the reader held before and whatever tables are skipped. -/
theorem set_index_reads_block_TOUGH2 (s : Rd) (i : Int) (jn : Nat) (p : Pos)
    (l0 : Str) (X : List Str) (atl : Str) (Bl : List Str) (tm : FVal) (st : Step)
    (e : TEntry) (more : List TEntry) (Xe : List Str) (tailE : Option (Str × List Str))
    (hj : (if i < 0 then i + (s.fullpos.size : Int) else i) = (jn : Int)) (hjn : jn < s.fullpos.size)
    (hp : s.fullpos[jn]! = p)
    (hel : e.tn = "element")
    (hrt : bound s.fam "read_tables" = "read_tables_TOUGH2") (hrh : bound s.fam "read_header" = "read_header_TOUGH2")
    (hrd : bound s.fam "read_table" = "read_table_TOUGH2") (hsk : bound s.fam "skip_table" = "skip_table_TOUGH2")
    (hnt : bound s.fam "next_table" = "next_table_TOUGH2") (htt : bound s.fam "table_type" = "table_type_TOUGH2")
    (hplus : (s.fam == .toughplus) = false)
    (hv : headerT2Vals l0 = some (tm, st))
    (hne : e.kind.lines ≠ [])
    (hhead : HeaderT2Ok l0 X atl Bl (e.kind.lines.headD [])) (h4 : 4 ≤ (splitWs (e.kind.lines.headD [])).length)
    (hprest : p.rest = l0 :: (X ++ atl :: (Bl ++ blockLines (e :: more) (endLines Xe tailE))))
    (hnodup : ((e :: more).map (·.tn)).Nodup)
    (hok : ∀ x ∈ e :: more, EntryOk s.skipTables s.tables x)
    (hlinks : LinksOk s.fulltimes.size s.fullpos (if i < 0 then i + (s.fulltimes.size : Int) else i)
      (p.no + 1 + X.length + 1 + Bl.length) (e :: more))
    (hend : EndOk s.fulltimes.size s.fullpos (if i < 0 then i + (s.fulltimes.size : Int) else i)
      (endNo (p.no + 1 + X.length + 1 + Bl.length) (e :: more)) Xe tailE) :
    ∃ s', (setIndex i).run s = .ok ((), s') ∧
      s'.index = (if i < 0 then i + (s.fulltimes.size : Int) else i) ∧ s'.time = tm ∧ s'.step = st ∧
      s'.pos = endPos (endNo (p.no + 1 + X.length + 1 + Bl.length) (e :: more)) Xe tailE ∧
      HoldsBlockT s s' (e :: more) ∧
      s' = { s with pos := s'.pos, index := s'.index, tables := s'.tables, step := s'.step, time := s'.time } := by
  have hrun := setIndex_block_T2 s i jn p l0 X atl Bl tm st e more Xe tailE hj hjn hp hel hrt hrh hrd hsk hnt htt hplus hv hne
    hhead h4 hprest hnodup hok hlinks hend
  refine ⟨_, hrun, rfl, rfl, rfl, rfl, ⟨?_, ?_⟩, rfl⟩
  · intro x hx t header segs hk hdata
    have hxok := hok x hx
    unfold EntryOk at hxok
    rw [hk] at hxok
    refine ⟨_, foldl_lookup_read (e :: more) s.tables x t header segs hx hk hnodup (by rw [hxok.2.1]; rfl), rfl, ?_⟩
    intro j d i' vals hj' hf hlater
    have hi : i' < t.data.size := by
      obtain ⟨key, _, hli, _, _⟩ := (rowOfLineT_spec _ _ _ _ _ _ _).mp hf
      rw [hdata]; exact (Proofs.Listing.lastIdx_spec hli).1
    exact applyRows_line _ _ t.data j d i' vals hj' hf hi hlater
  · intro m hm
    exact foldl_lookup_not_read (e :: more) s.tables m hm

-- the hypotheses are satisfiable: the block of the example above behind a result header, recorded in `fullpos`
private def exHdrT : List Str := [" 0.10000E+01      1      2\n".toList, " @@@@@@@@@@\n".toList, "\n".toList]
private def exRdS : Rd :=
  let ls := exHdrT ++ Proofs.Whole.blockLines [exE1, exE2] (Proofs.Whole.endLines ["\n".toList] none)
  { all := ls, isOutputData := false, pos := ⟨0, ls⟩, fam := .tough2, tables := [("element", exT2)], skipTables := ["connection"],
    fullpos := #[⟨17, ls⟩], fulltimes := #[zero] }
example : (if (0 : Int) < 0 then (0 : Int) + (exRdS.fullpos.size : Int) else 0) = ((0 : Nat) : Int) ∧ 0 < exRdS.fullpos.size ∧
    exE1.tn = "element" ∧ bound exRdS.fam "read_tables" = "read_tables_TOUGH2" ∧ bound exRdS.fam "read_header" = "read_header_TOUGH2" ∧
    (exRdS.fam == .toughplus) = false ∧
    Proofs.Whole.headerT2Vals " 0.10000E+01      1      2\n".toList = some (.fin false 10000 (-4), some 1) ∧
    exE1.kind.lines ≠ [] ∧
    Proofs.Whole.HeaderT2Ok " 0.10000E+01      1      2\n".toList [] " @@@@@@@@@@\n".toList ["\n".toList] (exE1.kind.lines.headD []) ∧
    4 ≤ (splitWs (exE1.kind.lines.headD [])).length := by decide
example : (exRdS.fullpos[0]!).rest = " 0.10000E+01      1      2\n".toList :: ([] ++ " @@@@@@@@@@\n".toList :: (["\n".toList] ++
    Proofs.Whole.blockLines [exE1, exE2] (Proofs.Whole.endLines ["\n".toList] none))) := rfl
example : Proofs.Whole.LinksOk exRdS.fulltimes.size exRdS.fullpos 0 (17 + 1 + 0 + 1 + 1) [exE1, exE2] ∧
    Proofs.Whole.EndOk exRdS.fulltimes.size exRdS.fullpos 0 (Proofs.Whole.endNo (17 + 1 + 0 + 1 + 1) [exE1, exE2]) ["\n".toList] none := by
  refine ⟨⟨⟨by decide, by decide, by decide, by decide, by decide, by decide, by decide, by decide, by decide⟩, trivial⟩, by decide, trivial⟩

/-! ### from set-up to reading (AUTOUGH2): the layout `setup_table_AUTOUGH2` records makes the same region readable -/

open Proofs.Whole in
/-- **The set-up of an AUTOUGH2 table records a layout for which the SAME printed region is a well-formed region of
    `read_table_AUTOUGH2`; one row per printed data line, keyed by the printed names.**  `setup_table_AUTOUGH2` is run
    with the file behind the three result-header lines, on: three lines `a1 a2 a3`, the column header line `hdr`, one
    line `u`, the data lines `d0 :: D'`, the terminator `term` (`SetupRegionA`, decidable: the header line gives
    `nkeys` key columns and the column names `cols`; the first data line gives the start of the values, one value per
    column and the key positions; no data line carries the keyword in columns 1..5, the terminator does; `ks` are the
    keys `key_from_line` cuts out of the data lines).  Print-level conditions that do not mention the table: the five
    lines in front of the data are a non-blank block `A`, a blank line, a non-blank block `B`, blank lines (`hlay`, as
    AUTOUGH2 prints them: keyword line, table title, blank, column header, blank), and every data line splits into one
    value per column (`hvals`).  Then the set-up returns, the table it stores has exactly the keys `ks` as rows (one
    per printed data line, in order) and the columns `cols`, the file is left where reading the table will leave it
    (`tail.drop 1`), and the region is `TableRegionA` for the stored table — so `table_read_AUTOUGH2` applies to it
    without assuming anything about the layout record. -/
theorem setup_table_records_region_AUTOUGH2 (tn : String) (s : Rd) (a1 a2 a3 hdr u d0 : Str) (D' : List Str) (term : Str)
    (tail : List Str) (nkeys : Nat) (cols : List Str) (start : Option Int) (keypos : List Int) (ks : List Key)
    (A : List Str) (b : Str) (B : List Str) (b2 : Str) (Bl : List Str)
    (hrest : s.pos.rest = a1 :: a2 :: a3 :: hdr :: u :: (((d0 :: D') ++ [term]) ++ tail))
    (hreg : SetupRegionA tn hdr d0 D' term nkeys cols start keypos ks)
    (hlay : a1 :: a2 :: a3 :: hdr :: [u] = A ++ b :: (B ++ b2 :: Bl))
    (hA : ∀ l ∈ A, isBlank l = false) (hb : isBlank b = true) (hB : ∀ l ∈ B, isBlank l = false) (hb2 : isBlank b2 = true)
    (hBl : ∀ l ∈ Bl, isBlank l = true) (hfirst : isBlank d0 = false)
    (hvals : ∀ d ∈ d0 :: D', (rowOfLineA cols.length start d).isSome = true) :
    ∃ s' t, (setupTableAUTOUGH2 tn).run s = .ok ((), s') ∧ s'.tables.lookup tn = some t ∧
      t.rows = ks.toArray ∧ t.rows.size = (d0 :: D').length ∧ t.cols = cols ∧
      (d0 :: D').map (fun d => keyFromLine d t.keyPos) = ks.map .ok ∧
      s.pos.rest = autRegion A b B b2 Bl (d0 :: D') term tail ∧
      TableRegionA tn t A b B b2 Bl (d0 :: D') term ∧
      s'.pos.rest = tail.drop 1 ∧
      (∀ m, m ≠ tn → s'.tables.lookup m = s.tables.lookup m) ∧
      s' = { s with pos := s'.pos, tables := s'.tables, tablenames := s.tablenames ++ [tn] } := by
  obtain ⟨s', t, hrun, _, hrest', hlook, ht, hcols, hrows, hsize, _, hkp, _, _, hother, hnames, hs'⟩ :=
    setup_table_AUTOUGH2_whole tn s a1 a2 a3 hdr u d0 D' term tail nkeys cols start keypos ks hrest hreg
  have hreads := setupTableA_reads tn hdr d0 D' term nkeys cols start keypos ks hreg hvals
  rw [← ht] at hreads
  refine ⟨s', t, hrun, hlook, hrows, hsize, hcols, ?_, ?_, ?_, hrest', hother, ?_⟩
  · rw [hkp]; exact hreg.2.2.2.2.2.2.2
  · rw [hrest]
    have : a1 :: a2 :: a3 :: hdr :: u :: (((d0 :: D') ++ [term]) ++ tail)
        = (a1 :: a2 :: a3 :: hdr :: [u]) ++ (((d0 :: D') ++ [term]) ++ tail) := rfl
    rw [this, hlay]
    simp [autRegion]
  · exact ⟨hA, hb, hB, hb2, hBl, hfirst, hreg.2.2.2.2.2.1, hreg.2.2.2.2.2.2.1, hreads.1, hreads.2.1, hreads.2.2⟩
  · rw [hnames] at hs'; exact hs'

-- the hypotheses are satisfiable: the element table of the examples above, laid out as AUTOUGH2 prints it
example : Proofs.Whole.SetupRegionA "element" " ELEMENT INDEX P T X\n".toList exDA[0] [exDA[1]] " EEEEEEEEEEEEEEE\n".toList
    1 [['P'], ['T'], ['X']] (some 24) [4] [["AA  1".toList], ["AA  2".toList]] := by decide
example : (" EEEEEEEEEEEEEEE\n".toList :: "        ELEMENT TABLE\n".toList :: "\n".toList :: " ELEMENT INDEX P T X\n".toList :: ["\n".toList]
      = [" EEEEEEEEEEEEEEE\n".toList, "        ELEMENT TABLE\n".toList] ++ "\n".toList :: ([" ELEMENT INDEX P T X\n".toList] ++ "\n".toList :: [])) ∧
    (∀ l ∈ [" EEEEEEEEEEEEEEE\n".toList, "        ELEMENT TABLE\n".toList], isBlank l = false) ∧ isBlank "\n".toList = true ∧
    (∀ l ∈ [" ELEMENT INDEX P T X\n".toList], isBlank l = false) ∧ isBlank exDA[0] = false ∧
    (∀ d ∈ exDA[0] :: [exDA[1]], (Proofs.Whole.rowOfLineA [['P'], ['T'], ['X']].length (some 24) d).isSome = true) := by decide


/-! ### from set-up to reading (TOUGH2 family): the layout `setup_table_TOUGH2` records describes the same region -/

open Proofs.Whole in
/-- **The set-up of a TOUGH2-family table records `header_skiplines` and `skiplines` that describe the SAME printed
    region (regions without repeated headers).**  `setup_table_TOUGH2` is run with the file at the column-header line
    `hdr` of a region `(hdr :: H) ++ flat segs ++ after`: `hdr` parses into `nkeys` key columns and the column names
    (`headerColsT`); no line of `H` is a results line and the first data line `d0` is one (enough `.digit` groups:
    `isResultsLine`); `d0` gives the start of the values and the key positions; every data line has a key; the
    segments are as the set-up loop walks them (`SegsOkT`, decidable): behind a data line either the next data line or
    one blank line and then the next data line, none of them a header line, a separator, the title or empty; behind
    the last data line a separator line, or a blank line followed by a separator / the title / an empty line / the
    end of the file; `parse_table_line` on the longest line succeeds.  Then the set-up returns, the file is left
    exactly behind the region (where `read_table_TOUGH2` will leave it), and the stored table has
    `header_skiplines = len(header)`, `skiplines` = the numbers of lines behind each data line, one zero row per
    stored name, the columns, key positions and column boundaries inferred — so the region is `TableRegionT` for the
    stored table as soon as every data line's key names a stored row and reads one value per column.
    PARTIAL (`hrows`, explicit and decidable): that last condition is assumed, not derived — missing is the proof
    that with pairwise distinct printed indices `rowdict` keeps every data line's key, and that the inferred
    boundaries give `ncols` values; regions with repeated (internal) headers are not covered. -/
theorem setup_table_records_region_TOUGH2_partial (tn : String) (s : Rd) (hdr : Str) (H : List Str) (d0 : Str) (sk0 : List Str)
    (r : List (Str × List Str)) (after : List Str)
    (nkeys : Nat) (c : Str) (cs : List Str) (start : Option Int) (keypos : List Int) (numpos : List (Option Int))
    (hrest : s.pos.rest = (hdr :: H) ++ (flat ((d0, sk0) :: r) ++ after))
    (hhdr : headerColsT (s.fam == Fam.toughplus) hdr = some (nkeys, c :: cs))
    (hH : ∀ l ∈ H, isResultsLine (strip l) (expectedT tn (c :: cs)) = false)
    (hd0 : isResultsLine (strip d0) (expectedT tn (c :: cs)) = true)
    (hstart : startOfValues d0 (c :: cs) = .ok start)
    (hkp : keyPositions (sliceO d0 none start) nkeys = .ok (some keypos)) (hne : keypos ≠ [])
    (hkeys : ∀ sg ∈ (d0, sk0) :: r, (keyFromLine sg.1 keypos).isOk = true)
    (hok : SegsOkT (c :: cs) s.title ((d0, sk0) :: r) after)
    (hnp : parseTableLine (runSt start keypos.getLast! keypos { line := d0, longest := d0 } ((d0, sk0) :: r) after).longest
              start (c :: cs) = .ok numpos)
    (hrows : ∀ sg ∈ (d0, sk0) :: r, (rowOfLineT
        ((sortByIndex (runSt start keypos.getLast! keypos { line := d0, longest := d0 } ((d0, sk0) :: r) after).rowdict).map (·.2.2)).toArray
        keypos (c :: cs).length numpos sg.1).isSome = true) :
    ∃ t s', (setupTableTOUGH2 tn).run s = .ok ((), s') ∧ s'.tables.lookup tn = some t ∧
      (hdr :: H).length = t.headerSkip ∧ ((d0, sk0) :: r).map (·.2.length) = t.skips ∧ t.data.size = t.rows.size ∧
      t.cols = c :: cs ∧ t.keyPos = keypos ∧ t.numpos = numpos ∧
      TableRegionT t (hdr :: H) ((d0, sk0) :: r) ∧
      s'.pos = ⟨s.pos.no + (hdr :: H).length + (flat ((d0, sk0) :: r)).length, after⟩ ∧
      (∀ m, m ≠ tn → s'.tables.lookup m = s.tables.lookup m) ∧
      s' = { s with pos := s'.pos, tables := s'.tables, tablenames := s.tablenames ++ [tn] } := by
  obtain ⟨t, s', hrun, hlook, hh, hsk, hdata, hcols, _, hkpos, hnumpos, hrws, hpos, hother, hnames, hs'⟩ :=
    setupTableTOUGH2_region tn s hdr H d0 sk0 r after nkeys c cs start keypos numpos hrest hhdr hH hd0 hstart hkp hne hkeys hok hnp
  refine ⟨t, s', hrun, hlook, hh, hsk, hdata, hcols, hkpos, hnumpos, ⟨hh, hsk, hdata, ?_⟩, hpos, hother, ?_⟩
  · rw [hrws, hkpos, hcols, hnumpos]; exact hrows
  · rw [hnames] at hs'; exact hs'

-- the hypotheses are satisfiable: the element table of the examples above (header line, blank line, a data line followed
-- by a blank line, a data line) followed by a separator line of 70 `@`
private def exSep : Str := ' ' :: (List.replicate 70 '@' ++ ['\n'])
example : Proofs.Whole.headerColsT false exHdr[0] = some (1, [['P'], ['T'], ['X']]) ∧
    (∀ l ∈ ["\n".toList], isResultsLine (strip l) (Proofs.Whole.expectedT "element" [['P'], ['T'], ['X']]) = false) ∧
    isResultsLine (strip exSegs[0].1) (Proofs.Whole.expectedT "element" [['P'], ['T'], ['X']]) = true ∧
    startOfValues exSegs[0].1 [['P'], ['T'], ['X']] = .ok (some 12) ∧
    keyPositions (sliceO exSegs[0].1 none (some 12)) 1 = .ok (some [1]) ∧
    (∀ sg ∈ exSegs, (keyFromLine sg.1 [1]).isOk = true) ∧
    Proofs.Whole.SegsOkT [['P'], ['T'], ['X']] [] exSegs [exSep] := by decide
example : parseTableLine (Proofs.Whole.runSt (some 12) ([1] : List Int).getLast! [1] { line := exSegs[0].1, longest := exSegs[0].1 } exSegs [exSep]).longest
      (some 12) [['P'], ['T'], ['X']] = .ok ([12, 24, 36, 49].map natPos) ∧
    (∀ sg ∈ exSegs, (Proofs.Whole.rowOfLineT
      ((sortByIndex (Proofs.Whole.runSt (some 12) ([1] : List Int).getLast! [1] { line := exSegs[0].1, longest := exSegs[0].1 } exSegs [exSep]).rowdict).map (·.2.2)).toArray
      [1] [['P'], ['T'], ['X']].length ([12, 24, 36, 49].map natPos) sg.1).isSome = true) := by decide


end Props.C05
