/-
  C15 — IFC-67 routines agree with IAPWS-97 and with themselves on their common range.

  Theorems about the definitions of `PyTough/Gen/Ifc67.lean` (regenerated from /repo/t2thermo.py on
  every run) read over the real numbers.  What is proved here is the *decision logic*: range
  checking, the two region classifiers, and the separated steam fraction.  The numeric clauses
  (agreement of the two formulations within their known difference, the single-potential identity
  of the hand-expanded IFC-67 formulas, `tsat` inverting `sat` through scipy's `fsolve`) are evaluated
  by the oracle on the real code only — see DESIGN.md §5.
-/
import PyTough.Proofs.ThermoRegions

namespace Props.C15
open Model.Thermo Proofs.Thermo Proofs.Ifc67 Gen.Ifc67

/-! ### range checking returns no value exactly outside the stated range
  `tmin` = the double nearest 0.01, `tc1C` = the module's `Tc1 - 273.15`, `sat67 t`, `b23p67 t` = the
  values of `sat(t)`, `b23p(t)`. -/

/-- liquid water: with checking on, `(None, None)` **iff** the state is outside
    `0.01 ≤ t ≤ 350`, `p_sat(t) ≤ p ≤ 100 MPa`, or the routine's internal test `ZP < 0` fires
    (kept visible: `cowatZP` is the quantity under the square root) -/
theorem bounds_cowat (t p : ℝ) : cowat t p true = Ret.nonePair ↔
    ¬(tmin ≤ t ∧ t ≤ 350 ∧ p ≤ 100000000 ∧ sat67 t ≤ p) ∨ cowatZP t p < 0 := by
  rw [cowat_guard]
  by_cases h : tmin ≤ t ∧ t ≤ 350 ∧ p ≤ 100000000 ∧ sat67 t ≤ p
  · rw [if_pos h, cowat_unchecked]; simp [h]
  · rw [if_neg h]; simp [h]

/-- inside the range checking changes nothing; with checking off only `ZP < 0` gives no value -/
theorem bounds_cowat_off (t p : ℝ) :
    (tmin ≤ t ∧ t ≤ 350 ∧ p ≤ 100000000 ∧ sat67 t ≤ p → cowat t p true = cowat t p false) ∧
    (cowat t p false = Ret.nonePair ↔ cowatZP t p < 0) ∧
    (cowat t p false = Ret.nonePair ∨ ∃ d u, cowat t p false = Ret.pair d u) := by
  refine ⟨fun h => ?_, cowat_unchecked t p, cowat_unchecked_shape t p⟩
  rw [cowat_guard, if_pos h]

example : tmin ≤ 300 ∧ (300 : ℝ) ≤ 350 := by unfold tmin; norm_num

/-- steam: with checking on, `(None, None)` **iff** outside the three-piece range
    (`p ≤ p_sat(t)` up to the critical temperature, `p ≤ b23p(t)` up to 590 degC, `p ≤ 100 MPa` above,
    all within `0.01 ≤ t ≤ 800`, `0 ≤ p`); with checking off a value is always returned -/
theorem bounds_supst (t p : ℝ) :
    (supst t p true = Ret.nonePair ↔
      ¬(tmin ≤ t ∧ t ≤ 800 ∧ 0 ≤ p ∧
        ((t ≤ tc1C ∧ p ≤ sat67 t) ∨ (¬ t ≤ tc1C ∧ t ≤ 590 ∧ p ≤ b23p67 t) ∨ (¬ t ≤ tc1C ∧ ¬ t ≤ 590 ∧ p ≤ 100000000)))) ∧
    (∃ d u, supst t p false = Ret.pair d u) := by
  refine ⟨?_, supst_unchecked t p⟩
  rw [supst_guard]
  obtain ⟨d, u, hdu⟩ := supst_unchecked t p
  split_ifs with h
  · rw [hdu]
    constructor
    · intro e; cases e
    · intro hn; exact absurd h hn
  · exact ⟨fun _ => h, fun _ => rfl⟩

/-- saturation pressure: with checking on `None` **iff** outside `0.01 ≤ t ≤ T_c1`; with checking off
    `None` iff outside the routine's own `0.01 ≤ t ≤ 500` -/
theorem bounds_sat (t : ℝ) :
    (sat t true = Ret.none ↔ ¬(tmin ≤ t ∧ t ≤ tc1C)) ∧
    (sat t false = Ret.none ↔ ¬(tmin ≤ t ∧ t ≤ 500)) ∧
    (tmin ≤ t ∧ t ≤ tc1C → ∃ s, sat t true = Ret.num s) := by
  refine ⟨Proofs.Ifc67.bounds_sat t, (sat_unchecked t).1, fun h => ?_⟩
  rw [sat_guard, if_pos h]
  exact (sat_unchecked t).2 ⟨h.1, le_trans h.2 tc1C_le_500⟩

/-- saturation temperature: the guard of `tsat` (the root itself is found by scipy's `fsolve`, which is
    not modelled): with checking on the solver is entered **iff** `sat(0.01) ≤ p ≤ P_c1`; with checking
    off always -/
theorem bounds_tsat (p : ℝ) :
    (tsat_ok p true = true ↔ sat67 tmin ≤ p ∧ p ≤ (Pc1 : ℝ)) ∧ tsat_ok p false = true :=
  Proofs.Ifc67.bounds_tsat p

/-- every call of another routine made by a range test returns a number there (Python would raise
    `TypeError` on `None`): `sat(t)` inside `cowat`/`supst`/`region` is only evaluated for `0.01 ≤ t ≤ T_c1` -/
theorem guards_calls_defined (t : ℝ) (h : tmin ≤ t ∧ t ≤ tc1C) : ∃ s, sat t false = Ret.num s :=
  (sat_unchecked t).2 ⟨h.1, le_trans h.2 tc1C_le_500⟩

/-! ### the separated steam fraction -/

/-- for all enthalpies, all four saturation enthalpies (whatever the solver returned) and both
    one- and two-stage separation, the fraction lies in `[0, 1]` -/
theorem steam_fraction_in_unit (h hl1 hs1 hl2 hs2 : ℝ) (one : Bool) :
    0 ≤ ssf h one hl1 hs1 hl2 hs2 ∧ ssf h one hl1 hs1 hl2 hs2 ≤ 1 := ssf_unit h hl1 hs1 hl2 hs2 one

/-- it never decreases with enthalpy, provided steam is richer in enthalpy than water at the separator
    pressure(s) (`hl1 < hs1`, and for two stages `hl2 < hs2`, `hl1 ≤ hs2`) — the enthalpy ordering itself
    is a numeric fact about the formulation, sampled by the oracle -/
theorem steam_fraction_monotone (h h' hl1 hs1 hl2 hs2 : ℝ) (one : Bool) (hh : h ≤ h')
    (h1 : hl1 < hs1) (h2 : one = false → hl2 < hs2 ∧ hl1 ≤ hs2) :
    ssf h one hl1 hs1 hl2 hs2 ≤ ssf h' one hl1 hs1 hl2 hs2 :=
  ssf_mono h h' hl1 hs1 hl2 hs2 one hh (ssf_coeff_nonneg hl1 hs1 hl2 hs2 one h1 h2)

example : (419000 : ℝ) < 2675000 ∧ ((false = false) → (251000 : ℝ) < 2609000 ∧ (419000 : ℝ) ≤ 2609000) := by norm_num

/-- the same in terms of what the routines return: if at the separator pressure(s) the enthalpy
    `u + p/d` (`enth`) of the steam value exceeds that of the liquid value (and, for two stages, the second-stage
    steam enthalpy is not below the first-stage water enthalpy), the fraction never decreases with `h` -/
theorem steam_fraction_monotone_of_values (h h' p1 p2 dl1 ul1 ds1 us1 dl2 ul2 ds2 us2 : ℝ) (one : Bool) (hh : h ≤ h')
    (o1 : enth dl1 ul1 p1 < enth ds1 us1 p1)
    (o2 : one = false → enth dl2 ul2 p2 < enth ds2 us2 p2 ∧ enth dl1 ul1 p1 ≤ enth ds2 us2 p2) :
    ssf h one (enth dl1 ul1 p1) (enth ds1 us1 p1) (enth dl2 ul2 p2) (enth ds2 us2 p2) ≤
      ssf h' one (enth dl1 ul1 p1) (enth ds1 us1 p1) (enth dl2 ul2 p2) (enth ds2 us2 p2) :=
  steam_fraction_monotone h h' _ _ _ _ one hh o1 o2

/-- `tsat`'s guard is consistent with `sat`'s: its lower limit is the value `sat` returns, with range checking
    on, at `sat`'s own lower temperature limit; so with checking on `tsat` is entered only for
    `sat(0.01) ≤ p ≤ P_c1`, and `sat(0.01)` is never `None` -/
theorem bounds_tsat_sat (p : ℝ) :
    sat tmin true = Ret.num (sat67 tmin) ∧ (tsat_ok p true = true → sat67 tmin ≤ p ∧ p ≤ (Pc1 : ℝ)) := by
  constructor
  · have h1 : tmin ≤ tmin ∧ tmin ≤ tc1C := ⟨le_refl _, by have := tc1C_gt_350; unfold tmin; linarith⟩
    obtain ⟨s, hs⟩ := (sat_unchecked tmin).2 ⟨h1.1, le_trans h1.2 tc1C_le_500⟩
    rw [sat_guard, if_pos h1, hs]
    unfold sat67; rw [hs]; rfl
  · exact (Proofs.Ifc67.bounds_tsat p).1.mp

/-! ### the two region classifiers -/

/-- IFC-67 `region` and IAPWS-97 `region` agree: below 350 degC whenever `p` is not between (or on)
    the two saturation pressures; between the critical temperature and 590 degC whenever `p` is not
    between (or on) the two B23 pressures; always above 590 degC; and both are `None` outside the same
    box `[0.01, 800] × [0, 100 MPa]`. -/
theorem regions_agree_logic (t p : ℝ) :
    (t ≤ 350 → ((p < Proofs.Iapws.satP t ∧ p < sat67 t) ∨ (Proofs.Iapws.satP t < p ∧ sat67 t < p)) →
      Gen.Ifc67.region t p = Gen.Iapws.region t p) ∧
    (tc1C < t → t ≤ 590 → ((p < Proofs.Iapws.b23P t ∧ p < b23p67 t) ∨ (Proofs.Iapws.b23P t < p ∧ b23p67 t < p)) →
      Gen.Ifc67.region t p = Gen.Iapws.region t p) ∧
    (590 < t → Gen.Ifc67.region t p = Gen.Iapws.region t p) ∧
    (¬(tmin ≤ t ∧ t ≤ 800 ∧ 0 ≤ p ∧ p ≤ 100000000) →
      Gen.Ifc67.region t p = Ret.none ∧ Gen.Iapws.region t p = Ret.none) :=
  regions_agree t p

/-- and the **only** states of the box where they differ: below 350 degC `p` between the two saturation
    pressures, between the critical temperature and 590 degC `p` between the two B23 pressures (half-open
    bands as the comparisons are written) -/
theorem regions_differ_exactly (t p : ℝ) (hb : tmin ≤ t ∧ t ≤ 800 ∧ 0 ≤ p ∧ p ≤ 100000000) :
    (t ≤ 350 → (Gen.Ifc67.region t p ≠ Gen.Iapws.region t p ↔
      (Proofs.Iapws.satP t < p ∧ p < sat67 t) ∨ (sat67 t ≤ p ∧ p ≤ Proofs.Iapws.satP t))) ∧
    (tc1C < t → t ≤ 590 → (Gen.Ifc67.region t p ≠ Gen.Iapws.region t p ↔
      (Proofs.Iapws.b23P t < p ∧ p < b23p67 t) ∨ (b23p67 t ≤ p ∧ p ≤ Proofs.Iapws.b23P t))) :=
  regions_differ_iff t p hb

end Props.C15
