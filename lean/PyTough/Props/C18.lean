/-
  C18 — Reverse-engineering a rectangular geometry inverts grid generation.

  Property theorems about `Model.RectGeo` (model of `t2grid.rectgeo`) and `Model.FromGeo`
  (model of `fromgeo`, C04).  What is proved: the three core steps — surface recovery, the
  spacing of a single-block direction, and the direction walk along a line of blocks (unique
  candidate, twice the own distances, which for rectangular columns are the spacings) — and
  the rotation algebra.  What is not proved (stated in MANIFEST level_text): the composition
  `fromgeo (rectgeo T) = T` and the recovery of a general rotation angle through `asin`; the
  driver evaluates the composition inside the model on every explored case instead.
-/
import PyTough.Model.RectGeo
import PyTough.Proofs.RectGeo
import PyTough.Proofs.RectGeoCompose
import PyTough.Proofs.RectGeoComposeCheck
import PyTough.Proofs.RectGeoExample
import PyTough.Proofs.FromGeoExample

namespace Props.C18
open Py Model.FromGeo Model.RectGeo
open Proofs.RectGeo

/-! ### column surfaces -/

/-- `find_surface`'s formula returns the column surface that `block_centre` and `block_volume`
    were computed from, for a surface inside (or at the top of) any underground layer:
    with `zc` the top block's centre elevation, `v` its volume and `lt` any thickness not below
    the block height (the code passes twice the block's own vertical distance, which *is* the
    block height for a truncated block and the layer thickness for a complete one),
    `surfaceFormula zc (v / area) lt = surface`. -/
theorem surface_recovery (g : Geo) (lay : Layer) (col : Column) (hwf : LayersWF g) (hl : lay ∈ g.layers)
    (harea : 0 < col.area) (hb : lay.bottom < col.surface) (ht : col.surface ≤ lay.top)
    (lt : Rat) (hlt : col.surface - lay.bottom ≤ lt) :
    ∃ c v, blockCentre g lay col = some c ∧ blockVolume g lay col = some v ∧
      surfaceFormula c.z (v / col.area) lt = col.surface :=
  surface_inside g lay col hwf hl harea hb ht lt hlt

/-- ... and for a surface above the top layer (the block of the first underground layer is
    extended up to the surface, its centre stays at the layer centre — the second case of the
    formula). `hmid`: the layer centre is its midpoint, as `add_layers` makes it. -/
theorem surface_recovery_above_top (g : Geo) (lay : Layer) (col : Column) (hwf : LayersWF g)
    (hl : g.layers.head? = some lay) (harea : 0 < col.area) (ht : lay.top < col.surface)
    (hmid : lay.centre = (1 / 2 : Rat) * (lay.bottom + lay.top)) :
    ∃ c v, blockCentre g lay col = some c ∧ blockVolume g lay col = some v ∧
      surfaceFormula c.z (v / col.area) (lay.top - lay.bottom) = col.surface :=
  surface_above g lay col hwf hl harea ht hmid

-- the example geometry of C04: column `a` has its surface (-1/2) inside the top layer,
-- column `b` has its surface (1) above it; both are recovered from centre and volume
example : surfaceFormula (-3/4) (2 / 4) (1/2) = -1/2 ∧ surfaceFormula (-1/2) (12 / 6) 1 = 1 := by decide +kernel
example : LayersWF Proofs.FromGeo.Ex.geo ∧ Proofs.FromGeo.Ex.l1 ∈ Proofs.FromGeo.Ex.geo.layers ∧
    0 < Proofs.FromGeo.Ex.colA.area := by decide +kernel

/-- `find_surface` composed with the direction walk: for a column whose blocks form a vertical
    line above the mapped bottom block, the new surface is the two-case formula applied to the
    line's top block (its centre elevation, its volume over the column area) and twice its own
    vertical distance — exactly the quantities `surface_recovery` is about. -/
theorem find_surface_on_line (T : TGrid) (g : Geo) (mp : BlockMap) (maxVol : Rat) (col : Column)
    (bottomLayer : Layer) (gn : Str) (bb : GBlock) (steps : List (GConn × GBlock))
    (hbl : g.layerlist.getLast? = some bottomLayer)
    (hgn : blockName g.convention bottomLayer.name col.name = .ok gn)
    (hmp : mp.lookup gn = some bb.name) (hfb : findB T bb.name = .ok bb)
    (hlen : steps.length ≤ T.blocks.length) (hok : volOk (some maxVol) bb = true)
    (hline : isLine T 3 (some maxVol) none none bb steps = true)
    (top : GBlock) (htop : (lineBlocks bb steps).getLast? = some top) (c : P3) (hc : top.centre = some c)
    (hv : top.volume > 0) :
    columnSurface T g mp maxVol col =
      .ok (some (surfaceFormula c.z (top.volume / col.area)
        (lastOr (lineSizes none bb steps) (top.volume / col.area)))) :=
  columnSurface_line T g mp maxVol col bottomLayer gn bb steps hbl hgn hmp hfb hlen hok hline top htop c hc hv

/-! ### spacings -/

/-- For a direction with a single block, the spacing recovered as the origin block's volume
    divided by its own sizes in the two present directions (the first spacing found along
    directions 1 and 2, the last — bottom layer — along direction 3) is the original one: with
    volume `a * b * c` and own sizes `a`, `b` the result is `c`. -/
theorem missing_direction_spacing (s1 s2 s3 : List Rat) (p1 p2 : Nat) (a b c vol : Rat)
    (h1 : ownSpacing s1 s2 s3 p1 = .ok a) (h2 : ownSpacing s1 s2 s3 p2 = .ok b)
    (ha : a ≠ 0) (hb : b ≠ 0) (hv : vol = a * b * c) :
    missingSpacing s1 s2 s3 [p1, p2] vol = .ok c :=
  missing_spacing s1 s2 s3 p1 p2 a b c vol h1 h2 ha hb hv

-- a 1 x 3 x 2 grid: direction 1 is missing; the origin block is 4 wide in direction 2 and 2 thick
example : missingSpacing [] [4, 5, 6] [1, 2] [2, 3] (3 * 4 * 2) = .ok 3 := by decide +kernel

/-- The candidate next block is unique: standing on a block of a line (`isLine`: its only
    direction-`k` connections are the one it was reached through, the one to the next block, and
    connections to boundary blocks), `next_block_in_direction` returns the next block of the
    line — whatever order the connection set is iterated in. -/
theorem next_block_unique (T : TGrid) (k : Nat) (mv : Option Rat) (last : Option Str) (prev : Option GConn)
    (b : GBlock) (c : GConn) (nb : GBlock) (rest : List (GConn × GBlock))
    (h : isLine T k mv last prev b ((c, nb) :: rest) = true) :
    nextBlock T b.name last k mv = .ok (some (nb, c)) :=
  nextBlock_step T k mv last prev b c nb rest h

/-- Following direction `k` from the first block of a line visits exactly the blocks of the line,
    in order, and returns twice each block's own connection distance (towards the next block;
    for the last block, towards the previous one). -/
theorem direction_track_sizes (T : TGrid) (k : Nat) (mv : Option Rat) (b : GBlock)
    (steps : List (GConn × GBlock)) (hlen : steps.length ≤ T.blocks.length) (hok : volOk mv b = true)
    (hline : isLine T k mv none none b steps = true) :
    track T b k mv = .ok (lineBlocks b steps, lineSizes none b steps) :=
  track_line T k mv b steps hlen hok hline

example : isLine Ex.grid 1 (some (10 ^ 25)) none none Ex.a Ex.steps = true := by decide +kernel
example : track Ex.grid Ex.a 1 (some (10 ^ 25)) = .ok ([Ex.a, Ex.b, Ex.c], [2, 4, 6]) := by decide +kernel
-- direction 3 from `a`: the only connection leads to the boundary block, which is passed over
example : isLine Ex.grid 3 (some (10 ^ 25)) none none Ex.a [] = true ∧
    track Ex.grid Ex.a 3 (some (10 ^ 25)) = .ok ([Ex.a], []) := by decide +kernel

/-- In a grid generated from rectangular columns, a block's own horizontal connection distance
    is half its width: for the column `[x0, x1] x [y0, y1]` (centre at the midpoint) and its edge
    `x = x1` (resp. `y = y1`) the squared distance C04 proves for the connection is `((x1-x0)/2)²`
    (resp. `((y1-y0)/2)²`) — so twice the own distance is the spacing. -/
theorem rectangle_half_width (x0 x1 y0 y1 : Rat) (hx : x0 ≠ x1) (hy : y0 ≠ y1) :
    P2.normSq (P2.sub (lineProjection ⟨(x0 + x1) / 2, (y0 + y1) / 2⟩ ⟨x1, y0⟩ ⟨x1, y1⟩) ⟨(x0 + x1) / 2, (y0 + y1) / 2⟩)
      = ((x1 - x0) / 2) ^ 2 ∧
    P2.normSq (P2.sub (lineProjection ⟨(x0 + x1) / 2, (y0 + y1) / 2⟩ ⟨x0, y1⟩ ⟨x1, y1⟩) ⟨(x0 + x1) / 2, (y0 + y1) / 2⟩)
      = ((y1 - y0) / 2) ^ 2 :=
  ⟨rect_half_width_x x0 x1 y0 y1 hy, rect_half_width_y x0 x1 y0 y1 hx⟩

-- column a of the C04 example: [0,2] x [0,2], centre (1,1), edge x = 2: squared distance (2/2)²
example : P2.normSq (P2.sub (lineProjection ⟨1, 1⟩ ⟨2, 0⟩ ⟨2, 2⟩) ⟨1, 1⟩) = ((2 - 0) / 2 : Rat) ^ 2 := by decide +kernel

/-! ### the composition `rectgeo ∘ fromgeo`, as far as it is proved (`_partial`)

  The property's main clause is `rectgeo (fromgeo G)` = `G` for a rectangular `G`.  The theorems
  below prove it step by step **for every grid on which the walks of `rectgeo` are lines**
  (`AxisLines`, `ColumnRecovers`: conjunctions of the decidable `isLine` with equalities between
  block data of the grid and `block_centre`/`block_volume` of the generating geometry — C04's
  `grid_block_data`).  What is missing for the unconditional statement, exactly:
  (a) that `fromgeo` of a rectangular geometry *has* these lines for all sizes `nx, ny, nz`
      (an induction over the three nested loops of `fromgeo`; instead the driver evaluates
      `isLine` on the three axis walks of every explored grid — 100 % — and the harness checks the
      model's spacings and surfaces against the generating ones exactly on every unrotated case);
  (b) `block_mapping`: the hypothesis `mp.lookup (bottom block name) = origin-column block` of
      `ColumnRecovers`, and that `fromgeo (geo, blockmap)` regenerates the grid (evaluated inside
      the model by the driver on every case: field `F`);
  (c) the rotation angle (`asin`). -/

/-- Spacings, three-dimensional grid: if the walks from the origin block along directions 1 and 2
    and from the topmost block along direction 3 are lines (going down), `block_spacings` returns
    the doubled own distances along them. -/
theorem rectgeo_spacings_partial (T : TGrid) (ob tb : GBlock) (mv : Rat) (sx sy sz : List (GConn × GBlock))
    (h : AxisLines T ob mv sx sy sz tb) (hx : sx ≠ []) (hy : sy ≠ []) (hz : sz ≠ []) :
    blockSpacings T ob mv = .ok (lineSizes none ob sx, lineSizes none ob sy, lineSizes none tb sz) :=
  blockSpacings_3d T ob tb mv sx sy sz h hx hy hz

/-- Spacings, two-dimensional grids: a single block along direction 1 (resp. 2); the missing
    spacing is the one `missing_direction_spacing` characterises. -/
theorem rectgeo_spacings_2d_partial (T : TGrid) (ob tb : GBlock) (mv : Rat) (s sz : List (GConn × GBlock))
    (hs : s ≠ []) (hz : sz ≠ []) (d : Rat) :
    (AxisLines T ob mv [] s sz tb →
      missingSpacing [] (lineSizes none ob s) (lineSizes none tb sz) [2, 3] ob.volume = .ok d →
      blockSpacings T ob mv = .ok ([d], lineSizes none ob s, lineSizes none tb sz)) ∧
    (AxisLines T ob mv s [] sz tb →
      missingSpacing (lineSizes none ob s) [] (lineSizes none tb sz) [1, 3] ob.volume = .ok d →
      blockSpacings T ob mv = .ok (lineSizes none ob s, [d], lineSizes none tb sz)) :=
  ⟨fun h hd => blockSpacings_2d_x T ob tb mv s sz h hs hz d hd,
   fun h hd => blockSpacings_2d_y T ob tb mv s sz h hs hz d hd⟩

/-- ... and those doubled distances are the generating spacings `ws` whenever every block's own
    distance along the line is half its width — which C04 proves for rectangular columns
    (`rectangle_half_width`) and for layers (`vertical_connection_geometry`). -/
theorem line_sizes_are_widths (steps : List (GConn × GBlock)) (prev : Option GConn) (b : GBlock) (ws : List Rat)
    (h : HalfWidths prev b steps ws) : lineSizes prev b steps = ws :=
  lineSizes_of_halfWidths steps prev b ws h

/-- Surfaces: if every reconstructed column corresponds to a generating column whose blocks form
    a vertical line in the grid, with the top block carrying C04's centre and volume
    (`ColumnRecovers`), `find_surface` gives every reconstructed column the generating surface —
    inside a layer, at a layer top, or above the top layer. -/
theorem surfaces_recovered_partial (T : TGrid) (G g1 : Geo) (mp : BlockMap) (mv : Rat) (hwf : LayersWF G)
    (cols1 colsG : List Column) (h : List.Forall₂ (ColumnRecovers T G g1 mp mv) cols1 colsG) :
    findSurfaceCols T g1 mp mv [] cols1 =
      .ok (List.zipWith (fun c1 cG => { c1 with surface := cG.surface }) cols1 colsG) :=
  findSurfaceCols_recovered T G g1 mp mv hwf cols1 colsG h

/-- ... and `snap_columns_to_layers` leaves such a surface alone when the surface block is at
    least `layer_snap` thick. -/
theorem snap_keeps_surface (g : Geo) (minThick : Rat) (nl : Nat) (col : Column) (top : Layer)
    (htop : g.layerlist[g.layerlist.length - nl]? = some top) (hthick : minThick ≤ col.surface - top.bottom) :
    snapColumn g minThick nl col = .ok col :=
  snapColumn_keeps g minThick nl col top htop hthick

/-- Position: after `match_position` the reconstruction's origin block (bottom layer, first
    column) has the centre of the grid's origin block. -/
theorem origin_recovered (g : Geo) (ob : GBlock) (cs : P2) (g2 : Geo) (oc : P3)
    (hoc : ob.centre = some oc) (h : matchPosition g ob cs = .ok g2) :
    ∃ col lay, g2.columns.head? = some col ∧ g2.layerlist.getLast? = some lay ∧
      blockCentre g2 lay col = some oc :=
  matchPosition_places_origin g ob cs g2 oc hoc h

-- the row of the example grid: the axis walk in direction 1 is a line with half widths 1, 2, 3
example : HalfWidths none Ex.a Ex.steps [2, 4, 6] := by
  refine ⟨2, [4, 6], rfl, by decide +kernel, 4, [6], rfl, by decide +kernel, 6, rfl, by decide +kernel⟩

/-! ### the walk hypotheses derived from the structure of a rectangular lattice

  `rectgeo_spacings_partial` assumes that the three axis walks *are* lines (`AxisLines`: a
  recursive predicate about the walk's own state).  The two theorems below derive that from a
  description of the grid as a set: `Row` (distinct registered admissible blocks `b 0 … b n`,
  direction-`k` connections `cn i` joining `b i` and `b (i+1)` in either orientation, no other
  direction-`k` connection touching a block of the row except towards boundary blocks) and `Lattice`
  (the full `(nx+1) x (ny+1) x (nz+1)` box of blocks with its x-, y-, z-connections; every other
  connection at a block of the box leads to a zero/huge-volume block — atmosphere type 0, 1 or 2,
  inactive boundary blocks).  Uniqueness of the next block and `HalfWidths` are consequences.
  Still missing for `rectgeo (fromgeo G)`: (a) that `fromgeo` of a rectangular geometry *is* such a
  lattice (C04's `grid_block_data` / `grid_connection_origin` give the membership facts; the
  injectivity of the generated names and the converse "every announced connection is in the grid"
  have to be assembled), (b) stepped surfaces (the box is then not full: rows only below the
  surface), (c) which top-layer block `nanargmax` picks (hypothesis `htop`). -/

/-- Following direction `k` from the first block of a row of a grid returns the row's blocks in
    order and their widths, when each connection's own distances are half the widths of the two
    blocks it joins — with no assumption on the order of any connection set. -/
theorem row_track_widths (T : TGrid) (k : Nat) (mv : Option Rat) (n : Nat) (b : Nat → GBlock) (cn : Nat → GConn)
    (R : Row T k mv n b cn) (hn : 0 < n) (w : Nat → Rat)
    (hw : ∀ i, i < n → distAt (cn i) (b i).name = w i / 2 ∧ distAt (cn i) (b (i + 1)).name = w (i + 1) / 2) :
    track T (b 0) k mv = .ok ((List.range' 0 (n + 1)).map b, (List.range' 0 (n + 1)).map w) :=
  track_row R hn (by have := R.length_le; omega) w hw

/-- Spacings of a three-dimensional rectangular lattice (at least two blocks in every direction):
    from the origin block `blk 0 0 nz` (first row, first column, bottom layer) `block_spacings`
    returns the widths `wx 0 … wx nx`, `wy 0 … wy ny`, `wz 0 … wz nz` (top layer first), whichever
    top-layer block is the topmost one.  `_partial`: `htop` (the topmost admissible block found by
    `nanargmax` is a top-layer block of the box) is assumed, the box is full (flat surfaces), and
    that `fromgeo G` is a `Lattice` is not proved. -/
theorem rectgeo_spacings_lattice_partial (T : TGrid) (mv : Rat) (nx ny nz : Nat) (blk : Nat → Nat → Nat → GBlock)
    (cx cy cz : Nat → Nat → Nat → GConn) (L : Lattice T mv nx ny nz blk cx cy cz)
    (hx : 0 < nx) (hy : 0 < ny) (hz : 0 < nz)
    (it jt : Nat) (hit : it ≤ nx) (hjt : jt ≤ ny) (htop : topmostBlock T (some mv) = .ok (blk it jt 0))
    (c0 c1 : P3) (hc0 : (blk it jt 0).centre = some c0) (hc1 : (blk it jt nz).centre = some c1) (hdown : c1.z ≤ c0.z)
    (wx wy wz : Nat → Rat)
    (hwx : ∀ i, i < nx → distAt (cx i 0 nz) (blk i 0 nz).name = wx i / 2 ∧
      distAt (cx i 0 nz) (blk (i + 1) 0 nz).name = wx (i + 1) / 2)
    (hwy : ∀ j, j < ny → distAt (cy 0 j nz) (blk 0 j nz).name = wy j / 2 ∧
      distAt (cy 0 j nz) (blk 0 (j + 1) nz).name = wy (j + 1) / 2)
    (hwz : ∀ l, l < nz → distAt (cz it jt l) (blk it jt l).name = wz l / 2 ∧
      distAt (cz it jt l) (blk it jt (l + 1)).name = wz (l + 1) / 2) :
    blockSpacings T (blk 0 0 nz) mv =
      .ok ((List.range' 0 (nx + 1)).map wx, (List.range' 0 (ny + 1)).map wy, (List.range' 0 (nz + 1)).map wz) :=
  blockSpacings_lattice L hx hy hz it jt hit hjt htop c0 c1 hc0 hc1 hdown wx wy wz hwx hwy hwz

/-- Every column of a lattice is a vertical line of the grid, and every grid line along
    directions 1 and 2 is a line: the hypothesis `isLine` of `find_surface_on_line`,
    `direction_track_sizes` and `next_block_unique` holds on all of them. -/
theorem lattice_lines (T : TGrid) (mv : Rat) (nx ny nz : Nat) (blk : Nat → Nat → Nat → GBlock)
    (cx cy cz : Nat → Nat → Nat → GConn) (L : Lattice T mv nx ny nz blk cx cy cz) (i j l : Nat)
    (hi : i ≤ nx) (hj : j ≤ ny) (hl : l ≤ nz) :
    isLine T 1 (some mv) none none (blk 0 j l) (rowSteps (fun i => blk i j l) (fun i => cx i j l) 0 nx) = true ∧
    isLine T 2 (some mv) none none (blk i 0 l) (rowSteps (fun j => blk i j l) (fun j => cy i j l) 0 ny) = true ∧
    isLine T 3 (some mv) none none (blk i j 0) (rowSteps (fun l => blk i j l) (fun l => cz i j l) 0 nz) = true :=
  ⟨(L.rowX j l hj hl).isLine_row, (L.rowY i l hi hl).isLine_row, (L.rowZ i j hi hj).isLine_row⟩

-- a 2 x 2 x 2 lattice (widths 2,4 / 3,5 / 1,2) under an atmosphere block connected to the four
-- top blocks; vertical connections stored lower block first, as `fromgeo` stores them
example : Lattice Ex2.grid (10 ^ 20) 1 1 1 Ex2.blk Ex2.cx Ex2.cy Ex2.cz := Ex2.lattice
example : topmostBlock Ex2.grid (some (10 ^ 20)) = .ok (Ex2.blk 0 0 0) := by decide +kernel
example : blockSpacings Ex2.grid (Ex2.blk 0 0 1) (10 ^ 20) = .ok ([2, 4], [3, 5], [1, 2]) := by
  have h := rectgeo_spacings_lattice_partial Ex2.grid (10 ^ 20) 1 1 1 Ex2.blk Ex2.cx Ex2.cy Ex2.cz Ex2.lattice
    (by omega) (by omega) (by omega) 0 0 (by omega) (by omega) (by decide +kernel)
    ⟨1, 3 / 2, -1 / 2⟩ ⟨1, 3 / 2, -2⟩ (by decide +kernel) (by decide +kernel) (by decide +kernel)
    Ex2.wx Ex2.wy Ex2.wz
    (by intro i hi; have : i = 0 := by omega
        subst this; decide +kernel)
    (by intro j hj; have : j = 0 := by omega
        subst this; decide +kernel)
    (by intro l hl; have : l = 0 := by omega
        subst this; decide +kernel)
  rw [h]; decide +kernel
example : Row Ex2.grid 1 (some (10 ^ 20)) 1 (fun i => Ex2.blk i 0 1) (fun i => Ex2.cx i 0 1) :=
  Ex2.lattice.rowX 0 1 (by omega) (by omega)

/-- `topmost_block` on a lattice that is the whole admissible part of the grid (`Layered`: every
    admissible block is a block of the box, centre elevations strictly decrease with the layer
    index): the block found by `nanargmax` is a top-layer block, whatever the block order. -/
theorem lattice_topmost_block (T : TGrid) (mv : Rat) (nx ny nz : Nat) (blk : Nat → Nat → Nat → GBlock)
    (cx cy cz : Nat → Nat → Nat → GConn) (L : Lattice T mv nx ny nz blk cx cy cz) (zc : Nat → Rat)
    (Y : Layered T mv nx ny nz blk zc) :
    ∃ it jt, it ≤ nx ∧ jt ≤ ny ∧ topmostBlock T (some mv) = .ok (blk it jt 0) :=
  L.topmost Y

/-- Spacings of a three-dimensional rectangular lattice, no hypothesis on the walks or on the
    topmost block: if the admissible blocks of `T` are exactly the box `blk i j l`, joined by
    `cx, cy, cz` with own distances half the widths `wx i`, `wy j`, `wz l`, then `block_spacings`
    from the origin block returns `(wx, wy, wz)`.  (Not `_partial`: every hypothesis is part of the
    description of a rectangular grid.  That `fromgeo G` satisfies it is the open step.) -/
theorem rectgeo_spacings_lattice (T : TGrid) (mv : Rat) (nx ny nz : Nat) (blk : Nat → Nat → Nat → GBlock)
    (cx cy cz : Nat → Nat → Nat → GConn) (L : Lattice T mv nx ny nz blk cx cy cz) (zc : Nat → Rat)
    (Y : Layered T mv nx ny nz blk zc) (hx : 0 < nx) (hy : 0 < ny) (hz : 0 < nz) (wx wy wz : Nat → Rat)
    (hwx : ∀ i, i < nx → distAt (cx i 0 nz) (blk i 0 nz).name = wx i / 2 ∧
      distAt (cx i 0 nz) (blk (i + 1) 0 nz).name = wx (i + 1) / 2)
    (hwy : ∀ j, j < ny → distAt (cy 0 j nz) (blk 0 j nz).name = wy j / 2 ∧
      distAt (cy 0 j nz) (blk 0 (j + 1) nz).name = wy (j + 1) / 2)
    (hwz : ∀ i j l, i ≤ nx → j ≤ ny → l < nz → distAt (cz i j l) (blk i j l).name = wz l / 2 ∧
      distAt (cz i j l) (blk i j (l + 1)).name = wz (l + 1) / 2) :
    blockSpacings T (blk 0 0 nz) mv =
      .ok ((List.range' 0 (nx + 1)).map wx, (List.range' 0 (ny + 1)).map wy, (List.range' 0 (nz + 1)).map wz) :=
  blockSpacings_layered L Y hx hy hz wx wy wz hwx hwy hwz

/-- Two-dimensional lattices (a single block along direction 1, resp. 2): the missing spacing
    `w0` is recovered from the origin block's volume `w0 * (own sizes in the other two directions)`. -/
theorem rectgeo_spacings_lattice_2d (T : TGrid) (mv : Rat) (n nz : Nat) (blk : Nat → Nat → Nat → GBlock)
    (cx cy cz : Nat → Nat → Nat → GConn) (zc : Nat → Rat) (hn : 0 < n) (hz : 0 < nz) (w0 : Rat) (w wz : Nat → Rat)
    (h0 : w 0 ≠ 0) (hz0 : wz nz ≠ 0) :
    (Lattice T mv 0 n nz blk cx cy cz → Layered T mv 0 n nz blk zc →
      (blk 0 0 nz).volume = w0 * w 0 * wz nz →
      (∀ j, j < n → distAt (cy 0 j nz) (blk 0 j nz).name = w j / 2 ∧
        distAt (cy 0 j nz) (blk 0 (j + 1) nz).name = w (j + 1) / 2) →
      (∀ j l, j ≤ n → l < nz → distAt (cz 0 j l) (blk 0 j l).name = wz l / 2 ∧
        distAt (cz 0 j l) (blk 0 j (l + 1)).name = wz (l + 1) / 2) →
      blockSpacings T (blk 0 0 nz) mv = .ok ([w0], (List.range' 0 (n + 1)).map w, (List.range' 0 (nz + 1)).map wz)) ∧
    (Lattice T mv n 0 nz blk cx cy cz → Layered T mv n 0 nz blk zc →
      (blk 0 0 nz).volume = w 0 * w0 * wz nz →
      (∀ i, i < n → distAt (cx i 0 nz) (blk i 0 nz).name = w i / 2 ∧
        distAt (cx i 0 nz) (blk (i + 1) 0 nz).name = w (i + 1) / 2) →
      (∀ i l, i ≤ n → l < nz → distAt (cz i 0 l) (blk i 0 l).name = wz l / 2 ∧
        distAt (cz i 0 l) (blk i 0 (l + 1)).name = wz (l + 1) / 2) →
      blockSpacings T (blk 0 0 nz) mv = .ok ((List.range' 0 (n + 1)).map w, [w0], (List.range' 0 (nz + 1)).map wz)) :=
  ⟨fun L Y hv hwy hwz => blockSpacings_layered_2d_x L Y hn hz w0 w wz hv h0 hz0 hwy hwz,
   fun L Y hv hwx hwz => blockSpacings_layered_2d_y L Y hn hz w0 w wz hv h0 hz0 hwx hwz⟩

/-- Surfaces, flat or stepped: a column given as a `Row` in direction 3 (top block `b 0` … bottom
    block `b n`, any height `n ≥ 1` — each column has its own), whose bottom block is the one the
    block map gives for the reconstructed column and whose top block carries C04's centre and
    volume for layer `lay` of the generating geometry: `find_surface` returns the generating
    column's surface (inside `lay`, at its top, or above the top layer).  The walk hypotheses of
    `surfaces_recovered_partial` (`isLine`, the length bound, the last size) are derived here;
    what stays assumed is the block-map lookup `hmp` (`block_mapping` is not proved). -/
theorem column_surface_on_row_partial (T : TGrid) (mv : Rat) (n : Nat) (b : Nat → GBlock) (cn : Nat → GConn)
    (R : Row T 3 (some mv) n b cn) (hn : 0 < n) (w : Nat → Rat)
    (hw : ∀ l, l < n → distAt (cn l) (b l).name = w l / 2 ∧ distAt (cn l) (b (l + 1)).name = w (l + 1) / 2)
    (g : Geo) (mp : BlockMap) (col : Column) (bottomLayer : Layer) (gn : Str)
    (hbl : g.layerlist.getLast? = some bottomLayer)
    (hgn : blockName g.convention bottomLayer.name col.name = .ok gn)
    (hmp : mp.lookup gn = some (b n).name)
    (G : Geo) (lay : Layer) (colG : Column) (hwf : LayersWF G) (hl : lay ∈ G.layers) (harea : 0 < colG.area)
    (hsame : col.area = colG.area)
    (hcentre : (b 0).centre = blockCentre G lay colG) (hvol : some (b 0).volume = blockVolume G lay colG)
    (hvpos : (b 0).volume > 0)
    (hcase :
      (lay.bottom < colG.surface ∧ colG.surface ≤ lay.top ∧ colG.surface - lay.bottom ≤ w 0) ∨
      (G.layers.head? = some lay ∧ lay.top < colG.surface ∧
        lay.centre = (1 / 2 : Rat) * (lay.bottom + lay.top) ∧ w 0 = lay.top - lay.bottom)) :
    columnSurface T g mp mv col = .ok (some colG.surface) :=
  columnSurface_row_recovered R hn w hw g mp col bottomLayer gn hbl hgn hmp G lay colG hwf hl harea hsame
    hcentre hvol hvpos hcase

example : Layered Ex2.grid (10 ^ 20) 1 1 1 Ex2.blk Ex2.pz := Ex2.layered
example : blockSpacings Ex2.grid (Ex2.blk 0 0 1) (10 ^ 20) = .ok ([2, 4], [3, 5], [1, 2]) := by
  have h := rectgeo_spacings_lattice Ex2.grid (10 ^ 20) 1 1 1 Ex2.blk Ex2.cx Ex2.cy Ex2.cz Ex2.lattice Ex2.pz Ex2.layered
    (by omega) (by omega) (by omega) Ex2.wx Ex2.wy Ex2.wz
    (by intro i hi; have : i = 0 := by omega
        subst this; decide +kernel)
    (by intro j hj; have : j = 0 := by omega
        subst this; decide +kernel)
    (by intro i j l hi hj hl
        have : l = 0 := by omega
        subst this
        have : (i = 0 ∨ i = 1) ∧ (j = 0 ∨ j = 1) := by omega
        rcases this with ⟨rfl | rfl, rfl | rfl⟩ <;> decide +kernel)
  rw [h]; decide +kernel
-- the walk-side hypotheses of `column_surface_on_row_partial` on column (0,0) of the lattice, with the
-- C04 example geometry supplying layer and column names for the block-map key
example : Row Ex2.grid 3 (some (10 ^ 20)) 1 (fun l => Ex2.blk 0 0 l) (fun l => Ex2.cz 0 0 l) :=
  Ex2.lattice.rowZ 0 0 (by omega) (by omega)
example : Proofs.FromGeo.Ex.geo.layerlist.getLast? = some Proofs.FromGeo.Ex.l2 ∧
    blockName Proofs.FromGeo.Ex.geo.convention Proofs.FromGeo.Ex.l2.name Proofs.FromGeo.Ex.colA.name =
      .ok [' ', ' ', 'a', ' ', '2'] ∧
    Ex2.mp.lookup [' ', ' ', 'a', ' ', '2'] = some (Ex2.blk 0 0 1).name ∧
    distAt (Ex2.cz 0 0 0) (Ex2.blk 0 0 0).name = Ex2.wz 0 / 2 ∧ (Ex2.blk 0 0 0).volume > 0 := by decide +kernel
-- a 2-D lattice (1 x 2 x 2: the slice i = 0 of the example): the single block's width 2 along
-- direction 1 is recovered from the origin block's volume 2 * 3 * 2
example : blockSpacings Ex2.grid2 (Ex2.blk 0 0 1) (10 ^ 20) = .ok ([2], [3, 5], [1, 2]) := by
  have h := (rectgeo_spacings_lattice_2d Ex2.grid2 (10 ^ 20) 1 1 Ex2.blk Ex2.cx Ex2.cy Ex2.cz Ex2.pz
    (by omega) (by omega) 2 Ex2.wy Ex2.wz (by decide +kernel) (by decide +kernel)).1 Ex2.lattice2 Ex2.layered2
    (by decide +kernel)
    (by intro j hj; have : j = 0 := by omega
        subst this; decide +kernel)
    (by intro j l hj hl
        have : l = 0 := by omega
        subst this
        have : j = 0 ∨ j = 1 := by omega
        rcases this with rfl | rfl <;> decide +kernel)
  rw [h]; decide +kernel

/-! ### orientation -/

/-- The rotation `match_position` applies is a rotation (`cos² + sin² = 1` for the normalised
    direction vector, from either horizontal direction), and rotating back undoes it:
    `rotate(-θ) ∘ rotate(θ) = id`.  (That the angle found through `asin` *is* the original
    rotation angle is not proved: `partial`.) -/
theorem rotation_inverse (d : P2) (second : Bool) (nrm : Rat)
    (hn : nrm * nrm = d.x * d.x + d.y * d.y) (h0 : nrm ≠ 0) (p : P2) :
    let cs := cosSin d second nrm
    cs.x * cs.x + cs.y * cs.y = 1 ∧ rotP cs.x (-cs.y) (rotP cs.x cs.y p) = p := by
  intro cs
  have h := cosSin_unit d second nrm hn h0
  exact ⟨h, rot_inverse cs.x cs.y h p⟩

example : cosSin ⟨3, 4⟩ false 5 = ⟨3/5, 4/5⟩ ∧ cosSin ⟨0, 7⟩ true 7 = ⟨1, 0⟩ := by decide +kernel

end Props.C18
