/-
  C02 — fixed-column records never spill: each field parses back to what was written.

  Property theorems about `Model/Fixed.lean` (model of fixed_format_file.preprocess_specification /
  parse_string / write_values_to_string / fit_value and of Python's `%` formatting on exact values),
  instantiated on the four format tables regenerated from /repo into `Gen/Specs.lean`.
  Proofs: `Proofs/FixedDigits, FixedRound, FixedFmt, FixedRecord, FixedTables`.

  Reading guide (clause of the property → theorem):
    "keeps every value inside its own columns"            no_silent_spill, written_field_in_own_columns
    "parsing returns, field by field, the value written"  write_then_parse_field + the roundtrip_* theorems
       exactly for names and integers                     roundtrip_name, roundtrip_int
       to the printed digits for reals                    roundtrip_real_e, roundtrip_real_f (+ fmtE_mantissa_normalised, fmtE_nearest)
       nothing for an absent value                        roundtrip_absent
    "never a value displaced from a neighbouring field"   parse_depends_only_on_own_columns
    "loses precision in that one value or fails loudly"   no_silent_spill (Written.reduced), reduced_precision_is_maximal,
                                                          fails_only_when_unrepresentable
    the "fits" lattice sign × exponent width × precision  fmtE_length, fmtF_length, fmtD_length, fmtS_length
    every field of every record kind of the four tables   all_tables_wf   (decide over Gen/Specs.lean, re-checked every run)
    short lines                                            parse_short_line, parse_written_record
-/
import PyTough.Model.Fixed
import PyTough.Gen.Specs
import PyTough.Proofs.FixedRecord
import PyTough.Proofs.FixedTables
import PyTough.Proofs.FixedNear

namespace Props.C02
open Py Model Proofs

/-! ### how wide `%` makes a value: the exact "fits" lattice -/

/-- number of decimal digits of `n` (`decLen 0 = 1`) -/
def decLen (n : Nat) : Nat := (natDigits n).length

theorem decLen_le_iff {n k : Nat} (hk : 0 < k) : decLen n ≤ k ↔ n < 10 ^ k :=
  natDigits_length_le_iff hk

/-- `'%w.pe' % x` for a real `x = ±n/d`: never shorter than `w`, and exactly
    sign + mantissa (`p+1` digits and the point) + `e±` + an exponent of at least two digits,
    where the exponent is the decimal exponent *after* rounding (`fmtEParts`, carry included). -/
theorem fmtE_length (f : FieldSpec) (ht : f.typ = 'e') (r : Rat) :
    ∃ s, fmtVal f (.real r) = .ok s ∧
      s.length = max f.width
        ((if r < 0 then 1 else 0) + (if f.prec.getD 6 = 0 then 1 else f.prec.getD 6 + 2) + 2 +
          max 2 (decLen (fmtEParts (f.prec.getD 6) r.num.natAbs r.den).2.natAbs)) := by
  refine ⟨_, fmtVal_e_real ht r, ?_⟩
  rw [pad_length, List.length_append, fmtEBody_length _ _ _ r.den_pos]
  unfold signChars decLen
  by_cases h : r < 0 <;> simp [h] <;> omega

/-- the printed mantissa of a non-zero value has exactly `p+1` significant digits:
    `10^p ≤ m < 10^(p+1)`, also after the carry `9.9996 → 1.000e+01` -/
theorem fmtE_mantissa_normalised (p n d : Nat) (hn : 0 < n) (hd : 0 < d) :
    10 ^ p ≤ (fmtEParts p n d).1 ∧ (fmtEParts p n d).1 < 10 ^ (p + 1) :=
  fmtEParts_normalised p n d hn hd

/-- `'%w.pf' % x`: sign + integer digits of the rounded value + point and `p` decimals -/
theorem fmtF_length (f : FieldSpec) (ht : f.typ = 'f') (r : Rat) :
    ∃ s, fmtVal f (.real r) = .ok s ∧
      s.length = max f.width
        ((if r < 0 then 1 else 0) +
          decLen (fM (f.prec.getD 6) r.num.natAbs r.den / 10 ^ (f.prec.getD 6)) +
          (if f.prec.getD 6 = 0 then 0 else f.prec.getD 6 + 1)) := by
  refine ⟨_, fmtVal_f_real ht r, ?_⟩
  rw [pad_length, List.length_append, fmtFBody_length]
  unfold signChars decLen
  by_cases h : r < 0 <;> simp [h] <;> omega

/-- `'%wd' % i`: sign + decimal digits; so it fits iff `|i| < 10^(w - sign)` (see `decLen_le_iff`) -/
theorem fmtD_length (f : FieldSpec) (ht : f.typ = 'd') (i : Int) :
    ∃ s, fmtVal f (.int i) = .ok s ∧
      s.length = max f.width ((if i < 0 then 1 else 0) + decLen i.natAbs) := by
  refine ⟨_, fmtVal_d_int ht i, ?_⟩
  rw [pad_length, List.length_append]
  unfold signChars decLen
  by_cases h : i < 0 <;> simp [h]

/-- `'%ws' % name` (`'%-ws'`, `'%w.ks'`): the name is never cut to the width -/
theorem fmtS_length (f : FieldSpec) (ht : f.typ = 's') (nm : Str) :
    ∃ s, fmtVal f (.str nm) = .ok s ∧ s.length = max f.width (strTrunc f.prec nm).length :=
  ⟨_, fmtVal_s_str ht nm, pad_length _ _ _⟩

-- non-vacuity / the cases the property text names
def e10_4 : FieldSpec := { raw := "10.4".toList, width := 10, left := false, prec := some 4, typ := 'e' }
def d5 : FieldSpec := { raw := "5".toList, width := 5, left := false, prec := none, typ := 'd' }
def s5 : FieldSpec := { raw := "5".toList, width := 5, left := false, prec := none, typ := 's' }
example : parseSpec "10.4e".toList = .ok e10_4 := by decide
example : fmtVal e10_4 (.real (-2600)) = .ok "-2.6000e+03".toList := by decide +kernel   -- 11 columns
example : fmtVal e10_4 (.real 2600) = .ok "2.6000e+03".toList := by decide +kernel
example : (fmtEParts 4 999996 100000) = (10000, 1) := by decide +kernel                  -- 9.99996 → 1.0000e+01

/-! ### one field of `write_values_to_string` -/

/-- **No field is ever wider or narrower than its columns**: whatever `write_values_to_string`
    puts in a field has exactly the field's width, and it is one of: blanks (absent value / `x`
    field), the correctly formatted value, or — for a real that does not fit — the same value
    formatted with fewer decimals (`Written.reduced`).  Otherwise the write raises. -/
theorem written_field_exact_width {f : FieldSpec} {v : Val} {s : Str} (h : writeField f v = .ok s) :
    s.length = f.width ∧ Written f v s :=
  writeField_ok h

/-- the reduced precision chosen by the guard is the largest one that fits -/
theorem reduced_precision_is_maximal {f : FieldSpec} {v : Val} {s : Str} (h : fitValue f v = .ok s) :
    (f.typ = 'e' ∨ f.typ = 'f' ∨ f.typ = 'g') ∧ s.length ≤ f.width ∧
    ∃ p q, f.prec = some p ∧ q < p ∧ fmtVal (atPrec f q) v = .ok s ∧
      ∀ q', q < q' → q' < p → ∀ t, fmtVal (atPrec f q') v = .ok t → f.width < t.length :=
  fitValue_ok h

/-- a write raises only if `%` itself rejects the value (wrong type) or the formatted value is
    wider than the field -/
theorem fails_only_when_too_wide {f : FieldSpec} {v : Val} {e : Exc} (h : writeField f v = .error e) :
    fmtVal f v = .error e ∨ ∃ t, fmtVal f v = .ok t ∧ f.width < t.length :=
  writeField_error h

/-- … and in a well-formed `%e` field (all of the tables', see `all_tables_wf`) a real is rejected
    only with `ValueError` and only when it is too wide at every precision down to 0 -/
theorem fails_only_when_unrepresentable {f : FieldSpec} (hwf : FieldWF f) (ht : f.typ = 'e') (r : Rat)
    {e : Exc} (h : writeField f (.real r) = .error e) :
    e = .valueError ∧ ∀ q, q ≤ f.prec.getD 6 → f.width <
      (pad false f.width (signChars (decide (r < 0)) ++ fmtEBody q r.num.natAbs r.den)).length :=
  writeField_e_error hwf ht r h

example : writeField e10_4 (.real (-2600)) = .ok "-2.600e+03".toList := by decide +kernel    -- one decimal fewer
example : writeField e10_4 (.real (mkRat 1 (10 ^ 100))) = .ok "1.000e-100".toList := by decide +kernel
example : writeField d5 (.int 100000) = .error .valueError := by decide +kernel               -- fails loudly
example : writeField s5 (.str "abcdef".toList) = .error .valueError := by decide +kernel

/-! ### whole records -/

/-- **No silent spill.**  For every list of field specifications and every list of values,
    `write_values_to_string` either raises or returns a line that is the concatenation of one
    text per (value, field) pair, each exactly as wide as its field and each `Written` (blank,
    full precision, or reduced precision of that one value).  In particular the line has exactly
    Σ widths characters. -/
theorem no_silent_spill (fs : List FieldSpec) (vals : List Val) :
    (∃ e, writeValues fs vals = .error e) ∨
    (∃ line strs, writeValues fs vals = .ok line ∧ line = strs.flatten ∧
      line.length = widthSum (fs.take vals.length) ∧
      All2 (fun (vf : Val × FieldSpec) s => s.length = vf.2.width ∧ Written vf.2 vf.1 s) (vals.zip fs) strs) := by
  cases h : writeValues fs vals with
  | error e => exact Or.inl ⟨e, rfl⟩
  | ok line =>
    right
    obtain ⟨strs, h1, h2⟩ := (writeValues_ok_iff _ _ _).mp h
    refine ⟨line, strs, rfl, h2, line_length h, ?_⟩
    clear h h2
    generalize vals.zip fs = l at h1
    induction h1 with
    | nil => exact .nil
    | cons hab _ ih => exact .cons (writeField_ok hab) ih

/-- a record with one value per field fills exactly the record's columns -/
theorem full_record_length {fs : List FieldSpec} {vals : List Val} {line : Str}
    (h : writeValues fs vals = .ok line) (hl : vals.length = fs.length) : line.length = widthSum fs := by
  rw [line_length h, hl, List.take_length]

/-- the model's `line_spec` gives the field after `fs₁` the columns `[Σ widths fs₁, + width)` -/
theorem columns_of_field (fs₁ : List FieldSpec) (f : FieldSpec) (fs₂ : List FieldSpec) :
    (lineSpec (fs₁ ++ f :: fs₂))[fs₁.length]? = some ((widthSum fs₁, widthSum fs₁ + f.width), f.typ) := by
  rw [lineSpec_split]
  have : (lineSpec fs₁).length = fs₁.length := lineSpec_go_length _ _
  rw [← this]; simp

/-- the columns of each field of a written line hold exactly that field's text -/
theorem written_field_in_own_columns {fs₁ : List FieldSpec} {f : FieldSpec} {fs₂ : List FieldSpec}
    {vs₁ : List Val} {v : Val} {vs₂ : List Val} {line : Str}
    (h : writeValues (fs₁ ++ f :: fs₂) (vs₁ ++ v :: vs₂) = .ok line) (hl : vs₁.length = fs₁.length) :
    ∃ s, writeField f v = .ok s ∧ s.length = f.width ∧
      slice line (widthSum fs₁) (widthSum fs₁ + f.width) = s :=
  written_field_columns h hl

/-- the value `parse_string` returns for a field depends only on that field's own columns -/
theorem parse_depends_only_on_own_columns {rf : ReadFn} {fs₁ : List FieldSpec} {f : FieldSpec}
    {fs₂ : List FieldSpec} {line : Str} {out : List PVal}
    (h : parseString rf (fs₁ ++ f :: fs₂) line = .ok out) :
    ∃ x, out[fs₁.length]? = some x ∧
      readField rf f.typ (slice line (widthSum fs₁) (widthSum fs₁ + f.width)) = .ok x :=
  parse_field_at h

/-- **Write then parse, field by field**: for any record, any position in it and either
    conversion dictionary, the value `parse_string` returns at that position is the reading of
    the text that `write_values_to_string` produced for *that* value — never of a neighbour's. -/
theorem write_then_parse_field {rf : ReadFn} {fs₁ : List FieldSpec} {f : FieldSpec} {fs₂ : List FieldSpec}
    {vs₁ : List Val} {v : Val} {vs₂ : List Val} {line : Str} {out : List PVal}
    (hw : writeValues (fs₁ ++ f :: fs₂) (vs₁ ++ v :: vs₂) = .ok line) (hl : vs₁.length = fs₁.length)
    (hp : parseString rf (fs₁ ++ f :: fs₂) line = .ok out) :
    ∃ s x, writeField f v = .ok s ∧ out[fs₁.length]? = some x ∧ readField rf f.typ s = .ok x := by
  obtain ⟨s, h1, _, h3⟩ := written_field_columns hw hl
  obtain ⟨x, h4, h5⟩ := parse_field_at hp
  rw [h3] at h5
  exact ⟨s, x, h1, h4, h5⟩

/-- the whole written record parses as the field-wise reading of each field's own text
    (a trailing newline or anything else after the record does not matter) -/
theorem parse_written_record {rf : ReadFn} {fs : List FieldSpec} {vals : List Val} {line : Str}
    (h : writeValues fs vals = .ok line) (hl : vals.length = fs.length) (tail : Str) :
    ∃ strs, line = strs.flatten ∧ All2 (fun (f : FieldSpec) (s : Str) => s.length = f.width) fs strs ∧
      parseString rf fs (line ++ tail) =
        (fs.zip strs).mapM (fun (p : FieldSpec × Str) => readField rf p.1.typ p.2) := by
  obtain ⟨strs, h1, rfl⟩ := (writeValues_ok_iff _ _ _).mp h
  have hw := written_widths _ _ _ h1
  rw [hl, List.take_length] at hw
  exact ⟨strs, rfl, hw, parse_complete hw tail⟩

/-! ### what each kind of value reads back as -/

/-- reals in `%e` fields: "to the printed digits" — the value rounded (half-even, see
    `fmtE_nearest`) to `q+1` significant digits, `q` = the field's precision, or a smaller one when
    the guard had to reduce it -/
theorem roundtrip_real_e (rf : ReadFn) {f : FieldSpec} (ht : f.typ = 'e') (r : Rat) {s : Str}
    (h : writeField f (.real r) = .ok s) :
    ∃ q, q ≤ f.prec.getD 6 ∧ readField rf 'e' s =
      .ok (.flt (.fin (decide (r < 0)) (fmtEParts q r.num.natAbs r.den).1
        ((fmtEParts q r.num.natAbs r.den).2 - q))) :=
  roundtrip_e_real rf ht r h

theorem roundtrip_int_in_real_field (rf : ReadFn) {f : FieldSpec} (ht : f.typ = 'e') (i : Int) {s : Str}
    (h : writeField f (.int i) = .ok s) :
    ∃ q, q ≤ f.prec.getD 6 ∧ readField rf 'e' s =
      .ok (.flt (.fin (decide (i < 0)) (fmtEParts q i.natAbs 1).1 ((fmtEParts q i.natAbs 1).2 - q))) :=
  roundtrip_e_int rf ht i h

/-- reals in `%f` fields: the value rounded to `q` decimals -/
theorem roundtrip_real_f (rf : ReadFn) {f : FieldSpec} (ht : f.typ = 'f') (r : Rat) {s : Str}
    (h : writeField f (.real r) = .ok s) :
    ∃ q, q ≤ f.prec.getD 6 ∧ readField rf 'f' s =
      .ok (.flt (.fin (decide (r < 0)) (fM q r.num.natAbs r.den) (-(q : Int)))) :=
  roundtrip_f_real rf ht r h

/-- the mantissa/exponent pair printed by `%e` is a nearest `p+1`-digit decimal:
    `|n/d − m·10^(e−p)| ≤ ½·10^(e−p)`.  `NearAt n d m t` states this without division:
    `|n − m·d·10^t| ≤ d·10^t/2` for `t ≥ 0` and `|n·10^(−t) − m·d| ≤ d/2` for `t < 0`. -/
theorem fmtE_nearest (p n d : Nat) (hn : 0 < n) (hd : 0 < d) :
    NearAt n d (fmtEParts p n d).1 ((fmtEParts p n d).2 - p) :=
  fmtEParts_near p n d hn hd

example : NearAt 5 2 3 (-1) ↔ (2 * (5 * 10) ≤ 2 * (3 * 2) + 2 ∧ 2 * (3 * 2) ≤ 2 * (5 * 10) + 2) := by
  simp [NearAt, Near]

/-- integers: exactly -/
theorem roundtrip_int (rf : ReadFn) {f : FieldSpec} (ht : f.typ = 'd') (i : Int) {s : Str}
    (h : writeField f (.int i) = .ok s) : readField rf 'd' s = .ok (.int i) :=
  roundtrip_d_int rf ht i h

/-- names: exactly the written text, i.e. the name padded to the field width (right-justified,
    or left-justified for a `-` format); a name of exactly the field width comes back unchanged -/
theorem roundtrip_name (rf : ReadFn) {f : FieldSpec} (ht : f.typ = 's') (nm : Str) {s : Str}
    (h : writeField f (.str nm) = .ok s) (hnl : '\n' ∉ nm) :
    (strTrunc f.prec nm).length ≤ f.width ∧
      readField rf 's' s = .ok (.str (pad f.left f.width (strTrunc f.prec nm))) := by
  obtain ⟨h1, h2, h3⟩ := roundtrip_s_str rf ht nm h
  refine ⟨h2, ?_⟩
  rw [h3, h1, rstripNewline_of_last]
  intro c hc e
  have hmem : c ∈ pad f.left f.width (strTrunc f.prec nm) := List.mem_of_getLast? hc
  have : c = ' ' ∨ c ∈ nm := by
    unfold pad ljust rjust at hmem
    have htr : ∀ c, c ∈ strTrunc f.prec nm → c ∈ nm := by
      intro c hc
      unfold strTrunc at hc
      cases hp : f.prec with
      | none => rw [hp] at hc; exact hc
      | some k => rw [hp] at hc; exact List.mem_of_mem_take hc
    cases hl : f.left <;> rw [hl] at hmem <;> simp at hmem <;> rcases hmem with h | h
    · exact Or.inl h.2
    · exact Or.inr (htr c h)
    · exact Or.inr (htr c h)
    · exact Or.inl h.2
  rcases this with h | h
  · rw [h] at e; exact absurd e (by decide)
  · rw [e] at h; exact hnl h

theorem roundtrip_name_full_width (rf : ReadFn) {f : FieldSpec} (ht : f.typ = 's') (hp : f.prec = none)
    (nm : Str) (hw : nm.length = f.width) (hnl : '\n' ∉ nm) :
    writeField f (.str nm) = .ok nm ∧ readField rf 's' nm = .ok (.str nm) := by
  have hpad : pad f.left f.width nm = nm := by
    unfold pad ljust rjust; cases f.left <;> simp [hw]
  have hf : fmtVal f (.str nm) = .ok nm := by
    rw [fmtVal_s_str ht, hp]; simp only [strTrunc]; rw [hpad]
  have hwf : writeField f (.str nm) = .ok nm := by
    unfold writeField
    rw [if_pos ⟨by simp, by rw [ht]; decide⟩, hf]
    simp only
    rw [if_neg (by omega)]
  refine ⟨hwf, ?_⟩
  have := (roundtrip_name rf ht nm hwf hnl).2
  rw [hp] at this; simp only [strTrunc] at this; rw [hpad] at this; exact this

/-- an absent value (`None`) in any position, and every `x` field, is written as blanks and
    reads back as `None` in every numeric field -/
theorem roundtrip_absent (rf : ReadFn) {f : FieldSpec} {v : Val} (hv : v = .none ∨ f.typ = 'x') :
    writeField f v = .ok (List.replicate f.width ' ') ∧
      (f.typ = 'd' ∨ f.typ = 'e' ∨ f.typ = 'f' ∨ f.typ = 'g' ∨ f.typ = 'x' →
        readField rf f.typ (List.replicate f.width ' ') = .ok .none) :=
  Proofs.roundtrip_absent rf hv

/-! ### lines shorter than the record -/

/-- Parsing a line that stops inside (or at the start of) some field: the complete fields give
    their own values, the cut field is read from what is left of it, and every later field is read
    from the empty string — `None` for numbers and `x`, `""` for names (`read_missing`). -/
theorem parse_short_line {rf : ReadFn} {fs₁ : List FieldSpec} {strs : List Str}
    (hw : All2 (fun (f : FieldSpec) (s : Str) => s.length = f.width) fs₁ strs)
    (f : FieldSpec) (fs₂ : List FieldSpec) (part : Str) (hp : part.length ≤ f.width) :
    parseString rf (fs₁ ++ f :: fs₂) (strs.flatten ++ part) = (do
      let a ← (fs₁.zip strs).mapM (fun (p : FieldSpec × Str) => readField rf p.1.typ p.2)
      let x ← readField rf f.typ part
      let b ← fs₂.mapM (fun g => readField rf g.typ [])
      pure (a ++ x :: b)) :=
  parse_short hw f fs₂ part hp

theorem read_missing (rf : ReadFn) (typ : Char) :
    (typ = 'd' ∨ typ = 'e' ∨ typ = 'f' ∨ typ = 'g' ∨ typ = 'x' → readField rf typ [] = .ok .none) ∧
    (typ = 's' → readField rf typ [] = .ok (.str [])) := by
  constructor
  · intro h; exact read_blank rf typ h 0
  · intro h; subst h; rfl

/-! ### every field of every record kind of the four tables -/

/-- For every record kind of the t2data, extra-precision, t2incon and mulgrid tables as they are
    in /repo now (`Gen/Specs.lean`, regenerated on every run): the specifications parse, the model's
    `preprocess_specification` yields exactly the `line_spec` and `spec_width` the real one
    computed, there is one name per spec, and every field is well formed (positive width; type in
    `s d x e f`; reals carry a precision smaller than the width; only names are left-justified).
    Proved by `decide` over the whole generated table, lifted in `Proofs/FixedTables.lean`. -/
theorem all_tables_wf : ∀ t ∈ Gen.Specs.tables, ∀ sec ∈ t.sections,
    ∃ fs, parseSpecs (sec.specs.map String.toList) = .ok fs ∧
      (lineSpec fs).map (fun sp => ((sp.1.1 : Int), (sp.1.2 : Int), sp.2)) = sec.lineSpec ∧
      sec.names.length = sec.specs.length ∧
      ∀ f ∈ fs, FieldWF f ∧
        (t.specWidth.map (fun kw => (kw.1.toList, kw.2))).lookup f.raw = some (f.width : Int) :=
  tables_wf

example : (Gen.Specs.tables.map (fun t => (t.sections.map (fun s => s.specs.length)).sum)).sum > 300 := by decide

end Props.C02
