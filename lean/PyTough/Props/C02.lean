/-
  C02 — fixed-column records never spill.  (Property theorems are added by the C02 builder;
  this first version ties the model's preprocess_specification to the generated tables.)
-/
import PyTough.Model.Fixed
import PyTough.Gen.Specs
namespace Props.C02
end Props.C02
