/-
  C06 — time-history extraction equals stepping through the listing, and terminates.

  The model of t2listing.history() is Model/ListingHistory.lean, built on the whole-file reader machine; the
  harness runs it against the real call for every explored selection (series compared bit for bit; a real
  call that does not return must be `LErr.diverges` in the model).  The theorems below are about the part of
  history() that differs from stepping: instead of reading every row of every table, it sorts the selected
  rows of a table by line number and reads them in one forward pass (`scanSel`).  They say that this pass
  returns, for every selected entry, the cell that the stepping reader's row reader (`read_table_line`, the same
  function in both) gives for that row's line — for any number of entries, in any order, with repetitions —
  negated for a reversed connection name.
-/
import PyTough.Model.ListingHistory
import PyTough.Proofs.ListingHistory
import PyTough.Proofs.ListingFile

namespace Props.C06
open Py Model Model.Listing Proofs.History

/-! ### one pass over a table returns exactly the selected cells -/

/-- `L = line0 :: rest0` are the lines of the table from its first results line on (where skip_to_table +
    skip_to_results_line leave the file, `line0` already read).  For entries `ts` given in ascending order of
    line index the loop of history() returns entry by entry `cellOf … e` = column `e.col` of
    `read_table_line(L[e.lineindex])`, sign-flipped when `e.reverse`; it raises exactly when one of these cells
    cannot be read (unknown column: KeyError, short line: IndexError), with the same exception. -/
theorem scan_reads_selected_lines (readVals : Str → Except Exc (List FVal)) (colOf : Str → Option Nat)
    (line0 : Str) (rest0 : List Str) (ts : List Sel) (hasc : Ascending 0 ts) :
    (scanSel readVals colOf ts 0 line0 rest0).map (·.1) = ts.mapM (cellOf readVals colOf (line0 :: rest0)) :=
  scanSel_eq readVals colOf (line0 :: rest0) ts 0 line0 rest0 rfl rfl hasc

/-- `tselect.sort()` puts any selection (any order, repeated rows) into ascending order of line index without
    losing or inventing entries; so, with the theorem above, history() returns for an arbitrary selection of one
    table exactly the cells of its entries. -/
theorem history_table_eq_cells (readVals : Str → Except Exc (List FVal)) (colOf : Str → Option Nat)
    (line0 : Str) (rest0 : List Str) (ts : List Sel) (hnn : ∀ e ∈ ts, 0 ≤ e.1) :
    (scanSel readVals colOf (sortSel ts) 0 line0 rest0).map (·.1)
        = (sortSel ts).mapM (cellOf readVals colOf (line0 :: rest0))
      ∧ (sortSel ts).Perm ts :=
  ⟨scan_reads_selected_lines readVals colOf line0 rest0 (sortSel ts) (sortSel_ascending ts 0 hnn), sortSel_perm ts⟩

-- a table of three lines; entries out of order, one line twice, one reversed
private def exRead (l : Str) : Except Exc (List FVal) := .ok [.fin false l.length 0, .fin false (10 * l.length) 0]
private def exCol (c : Str) : Option Nat := if c = ['a'] then some 0 else if c = ['b'] then some 1 else none
example : scanSel exRead exCol (sortSel [(2, ['b'], false, 0), (0, ['a'], true, 1), (2, ['a'], false, 2)]) 0 ['x'] [['y', 'y'], ['z', 'z', 'z']]
    = .ok ([(1, .fin true 1 0), (2, .fin false 3 0), (0, .fin false 30 0)], []) := by decide
example : sortSel [(2, ['b'], false, 0), (0, ['a'], true, 1), (2, ['a'], false, 2)]
    = [(0, ['a'], true, 1), (2, ['a'], false, 2), (2, ['b'], false, 0)] := by decide

/-! ### a connection named in reverse order yields the negated series -/

theorem reversed_key_negated (readVals : Str → Except Exc (List FVal)) (colOf : Str → Option Nat) (line col : Str) :
    pickCell readVals colOf line col true = (pickCell readVals colOf line col false).map negF := by
  unfold pickCell
  cases readVals line with
  | error e => rfl
  | ok vals =>
    cases colOf col with
    | none => rfl
    | some vi =>
      simp only
      cases vals[vi]? <;> rfl

/-! ### afterwards the reader still shows the same current time and tables as before the call -/

/-- For the whole-file model: a history() call that returns (any selection, with or without short output, from any
    current index, on any file) leaves every attribute of the reader as it was — index, time, step, every table —
    except the file position, which every later action sets before it reads.  (history() is a computation that can
    only move the file position and the index, and it restores the index.) -/
theorem history_leaves_reader_unchanged (items : List Item) (short : Bool) (s s' : Rd)
    (r : Option (List (Bool × List FVal))) (h : (history items short).run s = .ok (r, s')) :
    s' = { s with pos := s'.pos } :=
  Proofs.File.history_frame items short s s' r h

/-- in particular index, time, step and tables -/
theorem history_preserves_view (items : List Item) (short : Bool) (s s' : Rd)
    (r : Option (List (Bool × List FVal))) (h : (history items short).run s = .ok (r, s')) :
    s'.index = s.index ∧ s'.time = s.time ∧ s'.step = s.step ∧ s'.tables = s.tables := by
  have := history_leaves_reader_unchanged items short s s' r h
  rw [this]; exact ⟨rfl, rfl, rfl, rfl⟩

end Props.C06
