/-
  C06 — time-history extraction equals stepping through the listing, and terminates.

  The model of t2listing.history() is Model/ListingHistory.lean, built on the whole-file reader machine; the
  harness runs it against the real call for every explored selection (series compared bit for bit; a real
  call that does not return must be `LErr.diverges` in the model).  The theorems below are about the part of
  history() that differs from stepping: instead of reading every row of every table, it sorts the selected
  rows of a table by line number and reads them in one forward pass (`scanSel`).  They say that this pass
  returns, for every selected entry, the cell that the stepping reader's row reader (`read_table_line`, the same
  function in both) gives for that row's line — for any number of entries, in any order, with repetitions —
  negated for a reversed connection name.
-/
import PyTough.Model.ListingHistory
import PyTough.Proofs.ListingHistory
import PyTough.Proofs.ListingFile
import PyTough.Proofs.ListingSeriesStep
import PyTough.Proofs.ListingSeriesTimes
import PyTough.Proofs.ListingSeriesTerm
import PyTough.Proofs.ListingSeries2Aut
import PyTough.Proofs.ListingSeries2Region
import PyTough.Props.C05

namespace Props.C06
open Py Model Model.Listing Proofs.History Proofs.SeriesStep Proofs.SeriesTimes

/-! ### one pass over a table returns exactly the selected cells -/

/-- `L = line0 :: rest0` are the lines of the table from its first results line on (where skip_to_table +
    skip_to_results_line leave the file, `line0` already read).  For entries `ts` given in ascending order of
    line index the loop of history() returns entry by entry `cellOf … e` = column `e.col` of
    `read_table_line(L[e.lineindex])`, sign-flipped when `e.reverse`; it raises exactly when one of these cells
    cannot be read (unknown column: KeyError, short line: IndexError), with the same exception. -/
theorem scan_reads_selected_lines (readVals : Str → Except Exc (List FVal)) (colOf : Str → Option Nat)
    (line0 : Str) (rest0 : List Str) (ts : List Sel) (hasc : Ascending 0 ts) :
    (scanSel readVals colOf ts 0 line0 rest0).map (·.1) = ts.mapM (cellOf readVals colOf (line0 :: rest0)) :=
  scanSel_eq readVals colOf (line0 :: rest0) ts 0 line0 rest0 rfl rfl hasc

/-- `tselect.sort()` puts any selection (any order, repeated rows) into ascending order of line index without
    losing or inventing entries; so, with the theorem above, history() returns for an arbitrary selection of one
    table exactly the cells of its entries. -/
theorem history_table_eq_cells (readVals : Str → Except Exc (List FVal)) (colOf : Str → Option Nat)
    (line0 : Str) (rest0 : List Str) (ts : List Sel) (hnn : ∀ e ∈ ts, 0 ≤ e.1) :
    (scanSel readVals colOf (sortSel ts) 0 line0 rest0).map (·.1)
        = (sortSel ts).mapM (cellOf readVals colOf (line0 :: rest0))
      ∧ (sortSel ts).Perm ts :=
  ⟨scan_reads_selected_lines readVals colOf line0 rest0 (sortSel ts) (sortSel_ascending ts 0 hnn), sortSel_perm ts⟩

-- a table of three lines; entries out of order, one line twice, one reversed
private def exRead (l : Str) : Except Exc (List FVal) := .ok [.fin false l.length 0, .fin false (10 * l.length) 0]
private def exCol (c : Str) : Option Nat := if c = ['a'] then some 0 else if c = ['b'] then some 1 else none
example : scanSel exRead exCol (sortSel [(2, ['b'], false, 0), (0, ['a'], true, 1), (2, ['a'], false, 2)]) 0 ['x'] [['y', 'y'], ['z', 'z', 'z']]
    = .ok ([(1, .fin true 1 0), (2, .fin false 3 0), (0, .fin false 30 0)], []) := by decide
example : sortSel [(2, ['b'], false, 0), (0, ['a'], true, 1), (2, ['a'], false, 2)]
    = [(0, ['a'], true, 1), (2, ['a'], false, 2), (2, ['b'], false, 0)] := by decide

/-! ### … and these cells are the cells STEPPING shows (one table at one result time, TOUGH2-family row reader)

  `L` are the lines of the table from its first results line on, at one result time.  The stepping reader (`index = i` →
  read_tables → `read_table_TOUGH2`, model `readRowsL`) reads as k-th row line the line `rowOffset skips k` of `L` (one line per
  earlier row plus the recorded `skiplines`), and stores `read_table_line(line)` in the row its key addresses, giving table `t'`.
  `rowInPlace t L k r` (decidable, per file and time): the key on the k-th row line addresses row `r` and no later row line
  of the table addresses `r` again.  `steppingCell t' r e` is `t'[r][column of e]`, negated for a reversed name. -/

/-- PARTIAL (TOUGH2-family readers: TOUGH2, TOUGH2_MP, TOUGH+, TOUGHREACT, TOUGH3 — not the AUTOUGH2 row loop; explicit
    decidable hypotheses `rowInPlace`, `data.size = rows.size`).  The value history() appends for a selected entry whose
    line is the k-th row line equals the cell of row `r`, column `e.col`, of the table the stepping reader has built from the
    same lines — same value, same sign rule, KeyError on both sides for an unknown column.
    Not proved: that `row_line[r]` recorded at the first time IS `rowOffset skips k` (set-up's bookkeeping), and that
    skip_to_table + skip_to_results_line land on `L` (`Aligned`; checked on every run by the correspondence). -/
theorem history_cell_eq_stepping_cell_partial (t t' : Table) (L rest' : List Str)
    (hstep : readRowsL t.keyPos t.cols.length t.numpos t.skips L t = .ok (t', rest'))
    (hsz : t.data.size = t.rows.size) (k r : Nat) (hk : k < t.skips.length) (hin : rowInPlace t L k r = true)
    (e : Sel) (he : e.1 = (rowOffset t.skips k : Nat)) :
    cellOf (fun l => readTableLineTOUGH2 l t.cols.length t.numpos) (colIdx t.cols) L e = steppingCell t' r e :=
  cellOf_eq_steppingCell t t' L rest' hstep hsz k r hk hin e he

/-- PARTIAL (same restrictions).  The whole one-pass read of one table at one result time against stepping: for ANY selection
    `ts` of row lines of the table (any number, any order, repeats, reversed names; `row e` = the table row entry `e` stands for),
    history() returns, entry by entry in sorted order, the cells of the stepping reader's table — and raises exactly when one of
    those cells does not exist. -/
theorem history_table_eq_stepping_partial (t t' : Table) (line0 : Str) (rest0 rest' : List Str)
    (hstep : readRowsL t.keyPos t.cols.length t.numpos t.skips (line0 :: rest0) t = .ok (t', rest'))
    (hsz : t.data.size = t.rows.size) (ts : List Sel) (row : Sel → Nat)
    (hsel : ∀ e ∈ ts, ∃ k, k < t.skips.length ∧ e.1 = (rowOffset t.skips k : Nat) ∧ rowInPlace t (line0 :: rest0) k (row e) = true) :
    (scanSel (fun l => readTableLineTOUGH2 l t.cols.length t.numpos) (colIdx t.cols) (sortSel ts) 0 line0 rest0).map (·.1)
      = (sortSel ts).mapM (fun e => steppingCell t' (row e) e) := by
  have h1 := (history_table_eq_cells (fun l => readTableLineTOUGH2 l t.cols.length t.numpos) (colIdx t.cols) line0 rest0 ts
    (by intro e he; obtain ⟨k, _, hk, _⟩ := hsel e he; rw [hk]; exact Int.natCast_nonneg _)).1
  rw [h1]
  apply mapM_congr_mem
  intro e he
  obtain ⟨k, hk, hek, hin⟩ := hsel e ((sortSel_perm ts).mem_iff.mp he)
  exact cellOf_eq_steppingCell t t' _ rest' hstep hsz k (row e) hk hin e hek

-- a table of two rows printed on lines 0 and 2 (a blank line between them: skiplines = [1, 0])
private def exL : List Str := ["  AA 1     1 0.99013E+07 0.00000E+00-0.12409E+03\n".toList, "\n".toList,
  "  BA 1     2 0.94153E+07 0.19209-103-0.66842E+01\n".toList]
private def exT : Table := { mkTable [['P'], ['T'], ['X']] #[["AA 1 ".toList], ["BA 1 ".toList]] 1 false with
  keyPos := [2], numpos := [some 12, some 24, some 36, some 49], skips := [1, 0] }
-- stepping succeeds on it; both row lines are in place; row 1 is printed on line 2
example : (match readRowsL exT.keyPos exT.cols.length exT.numpos exT.skips exL exT with
    | .ok (t', r) => t'.data == #[#[.fin false 99013 2, .fin false 0 (-5), .fin true 12409 (-2)],
                                  #[.fin false 94153 2, .fin false 19209 (-108), .fin true 66842 (-4)]] && r.isEmpty
    | .error _ => false) = true := by decide
example : exT.data.size = exT.rows.size ∧ rowInPlace exT exL 0 0 = true ∧ rowInPlace exT exL 1 1 = true ∧ rowOffset exT.skips 1 = 2 := by decide
-- history() asked for X of row 1 (line 2) and then P of row 0 reads them in line order
example : (scanSel (fun l => readTableLineTOUGH2 l 3 exT.numpos) (colIdx exT.cols) (sortSel [(2, ['X'], false, 0), (0, ['P'], false, 1)]) 0
    (exL.headD []) exL.tail).map (·.1) = .ok [(1, .fin false 99013 2), (0, .fin true 66842 (-4))] := by decide

/-! ### … from the REGION predicate of the table instead of `rowInPlace` (TOUGH2 family)

  `Props.C05.TableRegionT t header segs` (decidable on concrete lines) describes the lines of a table as the layout recorded at
  set-up sees them: `header_skiplines` lines, then for every entry of `skiplines` one printed data line followed by that many lines.
  On such a region the offset `rowOffset t.skips k` at which the scan expects the k-th row line IS the k-th printed data line
  (`Proofs.Series2Region.lineAt_region`), and stepping is known to succeed (`Props.C05.table_read_TOUGH2`), so neither
  `rowInPlace` nor a successful `readRowsL` has to be assumed. -/

open Proofs.Whole Proofs.Series2Region in
/-- PARTIAL (one table at one result time; decidable hypothesis `TableRegionT`; the selected rows are printed once — no later data
    line of the table names the same row; the line index of an entry is `rowOffset t.skips k` for the data line `k` it stands for).
    For a reader whose `read_table_line` is `read_table_line_TOUGH2` (TOUGH2, TOUGH2_MP, TOUGH3, TOUGHREACT, TOUGH+): the stepping
    reader `read_table_TOUGH2`, started at the first line of the region, succeeds and builds table `t'`; for ANY selection `ts` (any
    number, any order, repeats, reversed names) history()'s one-pass read over the lines from the first data line on returns, entry
    by entry in sorted order, the cell of row `row e` (the row NAMED by the key printed on that data line), column `e.col`, of `t'`,
    negated for a reversed name — KeyError on both sides for an unknown column.
    Not proved: that set-up records `row_line[row e] = rowOffset t.skips k` (the loop of setup_table_TOUGH2 counts lines exactly
    as `skiplines` sums them — evaluated per file by the correspondence), and `Aligned`. -/
theorem history_table_eq_stepping_region_partial (fam : Fam) (tn : String) (t : Table) (s : Rd) (header : List Str)
    (segs : List (Str × List Str)) (after : List Str)
    (hfam : (bound fam "read_table_line" == "read_table_line_AUTOUGH2") = false)
    (ht : s.tables.lookup tn = some t)
    (hrest : s.pos.rest = header ++ (flat segs ++ after))
    (hwf : Props.C05.TableRegionT t header segs)
    (ts : List Sel) (row : Sel → Nat)
    (hsel : ∀ e ∈ ts, ∃ (k : Nat) (d : Str) (vals : List FVal), (segs.map (·.1))[k]? = some d ∧ e.1 = (rowOffset t.skips k : Nat) ∧
        rowOfLineT t.rows t.keyPos t.cols.length t.numpos d = some (row e, vals) ∧
        ∀ (k' : Nat) d', k < k' → (segs.map (·.1))[k']? = some d' →
          ∀ v', rowOfLineT t.rows t.keyPos t.cols.length t.numpos d' ≠ some (row e, v')) :
    ∃ s' t', (readTableTOUGH2 tn).run s = .ok ((), s') ∧ s'.tables.lookup tn = some t' ∧
      (scanSel (readTableLineOf fam t) (colIdx t.cols) (sortSel ts) 0 ((flat segs ++ after).headD []) (flat segs ++ after).tail).map (·.1)
        = (sortSel ts).mapM (fun e => steppingCell t' (row e) e) := by
  obtain ⟨s', t', hrun, _, htab, hframe, _, hline, _⟩ := Props.C05.table_read_TOUGH2 tn t s header segs after ht hrest hwf
  refine ⟨s', t', hrun, htab, ?_⟩
  rw [readTableLineOf_T fam t hfam]
  have h1 := Proofs.History.scanSel_eq (fun l => readTableLineTOUGH2 l t.cols.length t.numpos) (colIdx t.cols) (flat segs ++ after)
    (sortSel ts) 0 ((flat segs ++ after).headD []) (flat segs ++ after).tail
    (by rw [← Proofs.History.headD_drop]; rfl) (by rw [← List.drop_one]) (Proofs.History.sortSel_ascending ts 0 (by
      intro e he; obtain ⟨k, _, _, _, hk, _⟩ := hsel e he; rw [hk]; exact Int.natCast_nonneg _))
  refine h1.trans ?_
  apply mapM_congr_mem
  intro e he
  obtain ⟨k, d, vals, hkd, hek, hrow, hlater⟩ := hsel e ((Proofs.History.sortSel_perm ts).mem_iff.mp he)
  obtain ⟨_, _, _, hv, hl⟩ := (rowOfLineT_spec _ _ _ _ _ _ _).mp hrow
  have hat : Proofs.History.lineAt (flat segs ++ after) e.1.toNat = d := by
    rw [hek, Int.toNat_natCast, ← hwf.2.1]; exact lineAt_region segs after k d hkd
  exact cellOf_eq_steppingCell_row _ t.cols t' _ (by rw [hframe]) e (row e) vals (by rw [hat]; exact hv) hl
    (hline k d (row e) vals hkd hrow hlater)

-- the table of C05's example (header line, blank line, a data line followed by a blank line, a data line, the `@@@@@` line)
private def exT2 : Table :=
  { mkTable [['P'], ['T'], ['X']] #[[" AA 1".toList], [" BA 1".toList]] 1 false with
    keyPos := [1], numpos := [some 12, some 24, some 36, some 49], headerSkip := 2, skips := [1, 0] }
private def exHdr : List Str := [" ELEM. INDEX P T X\n".toList, "\n".toList]
private def exSegs : List (Str × List Str) :=
  [("  AA 1     1 0.99013E+07 0.00000E+00-0.12409E+03\n".toList, ["\n".toList]),
   ("  BA 1     2 0.94153E+07 0.19209-103-0.66842E+01\n".toList, [])]
private def exRdT : Rd :=
  { all := exHdr ++ (Proofs.Whole.flat exSegs ++ [" @@@@@@@@@@\n".toList]), isOutputData := false,
    pos := ⟨0, exHdr ++ (Proofs.Whole.flat exSegs ++ [" @@@@@@@@@@\n".toList])⟩, fam := Fam.tough2, tables := [("element", exT2)] }
example : (bound Fam.tough2 "read_table_line" == "read_table_line_AUTOUGH2") = false ∧ exRdT.tables.lookup "element" = some exT2 ∧
    exRdT.pos.rest = exHdr ++ (Proofs.Whole.flat exSegs ++ [" @@@@@@@@@@\n".toList]) ∧ Props.C05.TableRegionT exT2 exHdr exSegs :=
  ⟨by decide, rfl, rfl, by decide⟩
-- the entry (line 2, X) stands for data line k = 1, which names row 1 and is the last data line: the hypothesis on entries holds
example : (exSegs.map (·.1))[1]? = some exSegs[1].1 ∧ ((2 : Int) = (rowOffset exT2.skips 1 : Nat)) ∧
    Proofs.Whole.rowOfLineT exT2.rows exT2.keyPos exT2.cols.length exT2.numpos exSegs[1].1
      = some (1, [.fin false 94153 2, .fin false 19209 (-108), .fin true 66842 (-4)]) := by decide

/-! ### the same for the AUTOUGH2 row loop (terminator-driven: rows are filled in printing order)

  The region of an AUTOUGH2 table is `Proofs.Whole.autRegion A b B b2 Bl D term tail` (title block, blank line, column header,
  blank lines, printed data lines `D`, the terminator line, what follows), well-formed for the set-up table `t` when
  `Props.C05.TableRegionA` holds (decidable on concrete lines).  AUTOUGH2 tables have no `row_line`: the line index history() uses
  for row `j` is `j` itself, counted from the first results line = the first data line. -/

open Proofs.Whole Proofs.Series2Aut in
/-- PARTIAL (one table at one result time; explicit decidable hypothesis `TableRegionA` on the lines of the table; every selected
    line index addresses a printed data line).  For a reader whose `read_table_line` is `read_table_line_AUTOUGH2`: the stepping
    reader (`read_table_AUTOUGH2`, started behind the table's keyword line) succeeds on the region and builds table `t'`; for ANY
    selection `ts` of rows (any number, any order, repeats, reversed names) the one-pass read of history() over the lines from the
    first data line on returns, entry by entry in sorted order, the cell of row `e.1` (= its line index), column `e.col`, of `t'`,
    negated for a reversed name — and raises KeyError exactly when the column does not exist.
    Not proved here: that skip_to_table_AUTOUGH2 brings the file to the column header of this region (`Aligned`; checked on every
    run by the correspondence); `history_scan_starts_at_first_data_line_AUTOUGH2` below covers skip_to_results_line from there. -/
theorem history_table_eq_stepping_AUTOUGH2_partial (fam : Fam) (tn : String) (t : Table) (s : Rd)
    (A : List Str) (b : Str) (B : List Str) (b2 : Str) (Bl D : List Str) (term : Str) (tail : List Str)
    (hfam : (bound fam "read_table_line" == "read_table_line_AUTOUGH2") = true)
    (ht : s.tables.lookup tn = some t)
    (hrest : s.pos.rest = autRegion A b B b2 Bl D term tail)
    (hwf : Props.C05.TableRegionA tn t A b B b2 Bl D term)
    (ts : List Sel) (hsel : ∀ e ∈ ts, 0 ≤ e.1 ∧ e.1 < D.length) :
    ∃ s' t', (readTableAUTOUGH2 tn).run s = .ok ((), s') ∧ s'.tables.lookup tn = some t' ∧
      (scanSel (readTableLineOf fam t) (colIdx t.cols) (sortSel ts) 0 ((D ++ [term]).headD []) ((D ++ [term]).tail ++ tail)).map (·.1)
        = (sortSel ts).mapM (fun e => steppingCell t' e.1.toNat e) := by
  obtain ⟨s', t', hrun, _, htab, hframe, _, hrows, _⟩ := Props.C05.table_read_AUTOUGH2 tn t s A b B b2 Bl D term tail ht hrest hwf
  refine ⟨s', t', hrun, htab, ?_⟩
  rw [readTableLineOf_A fam t hfam]
  exact scan_eq_stepping_A t.cols t' D term tail (t.numpos.headD none) (by rw [hframe]) hrows ts hsel

open Proofs.Series2Aut in
/-- … and `L = D ++ term :: tail` IS where history() starts its pass: from the column header of the region (behind the first blank
    line, where skip_to_table_AUTOUGH2's `skip_to_blank; skip_to_nonblank` leave the file) `skip_to_results_line` stops at the
    first printed data line, when no line of the header block shows the awaited number of floats and the first data line does. -/
theorem history_scan_starts_at_first_data_line_AUTOUGH2 (e : Int) (B : List Str) (b2 : Str) (Bl : List Str) (d : Str) (D' : List Str)
    (term : Str) (tail : List Str) (n : Nat)
    (hhead : ∀ x ∈ B ++ b2 :: Bl, isResultsLine (strip x) e = false) (hd : isResultsLine (strip d) e = true) :
    skipToResultsLineL e (B ++ b2 :: (Bl ++ (((d :: D') ++ [term]) ++ tail))) n 1
      = some (1 + (B.length + 1 + Bl.length), ⟨n + (B.length + 1 + Bl.length), ((d :: D') ++ [term]) ++ tail⟩) :=
  skipToResultsLine_region_A e B b2 Bl d D' term tail n hhead hd

-- an AUTOUGH2 element table of two rows between its two `EEEEE` lines; the reader stands behind the first
private def exAT : Table := { mkTable [['P'], ['T']] #[["A 1".toList], ["B 1".toList]] 1 false with keyPos := [1], numpos := [some 8] }
private def exAD : List Str := [" A 1  1  1.5 2.5\n".toList, " B 1  2  3.5 4.5\n".toList]
private def exARd : Rd :=
  let ls := Proofs.Whole.autRegion [" a title line\n".toList] "\n".toList [" ELEM INDEX P T\n".toList] "\n".toList [] exAD " EEEEE\n".toList ["\n".toList]
  { all := ls, isOutputData := false, pos := ⟨2, ls⟩, fam := Fam.autough2, tables := [("element", exAT)] }
example : (bound Fam.autough2 "read_table_line" == "read_table_line_AUTOUGH2") = true ∧ exARd.tables.lookup "element" = some exAT ∧
    exARd.pos.rest = Proofs.Whole.autRegion [" a title line\n".toList] "\n".toList [" ELEM INDEX P T\n".toList] "\n".toList [] exAD " EEEEE\n".toList ["\n".toList] ∧
    Props.C05.TableRegionA "element" exAT [" a title line\n".toList] "\n".toList [" ELEM INDEX P T\n".toList] "\n".toList [] exAD " EEEEE\n".toList ∧
    (∀ e ∈ [((1 : Int), ['T'], false, 0), (0, ['P'], true, 1), (1, ['P'], false, 2)], 0 ≤ e.1 ∧ e.1 < (exAD.length : Int)) :=
  ⟨by decide, rfl, rfl, by decide, by decide⟩
-- the pass over the data lines: T of row 1, -P of row 0 (reversed name), P of row 1, returned in line order
example : (scanSel (readTableLineOf Fam.autough2 exAT) (colIdx exAT.cols) (sortSel [(1, ['T'], false, 0), (0, ['P'], true, 1), (1, ['P'], false, 2)]) 0
    ((exAD ++ [" EEEEE\n".toList]).headD []) ((exAD ++ [" EEEEE\n".toList]).tail ++ ["\n".toList])).map (·.1)
    = .ok [(1, .fin true 15 (-1)), (2, .fin false 35 (-1)), (0, .fin false 45 (-1))] := by decide +kernel
-- skip_to_results_line (2 floats awaited) from the column header stops at the first data line
example : (∀ x ∈ [" ELEM INDEX P T\n".toList] ++ "\n".toList :: [], isResultsLine (strip x) 2 = false) ∧
    isResultsLine (strip " A 1  1  1.5 2.5\n".toList) 2 = true := by decide

/-! ### over all result times: one value per result time, in time order

  `valuesAt … pb i` is what history() appends at ONE result position `pb` with index `i` — it seeks there and sets the index
  before reading, so it is a function of the position alone; `visitAll f ps 0` visits the positions `ps` in turn with indices
  0, 1, 2, …; `seriesOf k hits` are the values appended for selection item `k`. -/

/-- Whole call, every simulator, any selection, with or without short output: a history() call that returns series has
    visited every result position of the file in turn (`hitss` has one entry per position, in file order = time order), what it
    appended at a position does not depend on the positions before it, and the series it returns for item `k` is the
    concatenation, in that order, of the values appended for `k` at each position (paired with `fulltimes` exactly when its
    length is the number of full result times — the Boolean). -/
theorem history_series_visits_every_time (items : List Item) (short : Bool) (env : Rd) (c c' : Cur) (r : List (Bool × List FVal))
    (h : historyC items short env c = .ok (some r, c')) :
    ∃ tsel hitss, orderedSelection env items = .ok tsel ∧
      visitAll (valuesAt env tsel short (fileTablesOf env) env) (resultPositions env) 0 = .ok hitss ∧
      hitss.length = (resultPositions env).length ∧
      r = (List.range items.length).map fun k =>
        (((hitss.map (seriesOf k)).flatten).length == env.fulltimes.size, (hitss.map (seriesOf k)).flatten) :=
  historyC_series items short env c c' r h

/-- … so when every visited position contributes exactly one value `vs[i]` for item `k` (a row present at every time), the
    series of `k` is `vs`: one value per result time, in time order. -/
theorem series_one_value_per_time (k : Nat) (hitss : List (List (Nat × FVal))) (vs : List FVal)
    (h : hitss.map (seriesOf k) = vs.map (fun v => [v])) :
    (hitss.map (seriesOf k)).flatten = vs ∧ ((hitss.map (seriesOf k)).flatten).length = hitss.length := by
  have := flatten_singletons k hitss vs h
  refine ⟨this, ?_⟩
  rw [this]
  have := congrArg List.length h
  simpa using this.symm

/-- One table at one result position (any simulator): once skip_to_table has brought the file to the table, history() finds the
    first results line with `skip_to_results_line` (`L` = the lines from it on) and what it appends for that table is exactly the
    one-pass read `scanSel` over `L` — the function the theorems above are about — with the stepping reader's own
    `read_table_line` and column index of that table. -/
theorem history_one_table_is_one_scan (tname : String) (ts : List Sel) (env : Rd) (c : Cur) (t : Table) (k n : Nat) (L : List Str)
    (ht : env.tables.lookup tname = some t) (hne : t.cols ≠ [])
    (hs : skipToResultsLineL (expectedOf tname t) c.pos.rest c.pos.no 1 = some (k, ⟨n, L⟩)) :
    (historyTable tname ts env c).map (·.1)
      = match scanSel (readTableLineOf env.fam t) (colIdx t.cols) ts 0 (L.headD []) L.tail with
        | .ok (hits, _) => .ok hits
        | .error e => .error (.py e) :=
  historyTable_eq_scan tname ts env c t k n L ht hne hs

-- an AUTOUGH2-style file with two result times, an element table of two rows; items: T of row 1 (by index), P of row 'A 1' (by name)
private def exR1 : List Str := [" OUTPUT\n".toList, " EEEEE\n".toList, "\n".toList, " A 1  1  1.5 2.5\n".toList, " B 1  2  3.5 4.5\n".toList, " EEEEE\n".toList]
private def exR2 : List Str := [" OUTPUT\n".toList, " EEEEE\n".toList, "\n".toList, " A 1  1  5.5 6.5\n".toList, " B 1  2  7.5 8.5\n".toList, " EEEEE\n".toList]
private def exTA : Table := { mkTable [['P'], ['T']] #[["A 1".toList], ["B 1".toList]] 1 false with keyPos := [1], numpos := [some 8] }
private def exEnv : Rd := {
  all := exR1 ++ exR2
  isOutputData := false
  pos := ⟨0, exR1 ++ exR2⟩
  fam := Fam.autough2
  allpos := #[⟨0, exR1 ++ exR2⟩, ⟨6, exR2⟩]
  fullpos := #[⟨0, exR1 ++ exR2⟩, ⟨6, exR2⟩]
  short := #[false, false]
  fulltimes := #[zero, zero]
  times := #[zero, zero]
  tables := [("element", exTA)] }
private def exItems : List Item := [⟨['e'], .int 1, ['T']⟩, ⟨['e'], .name ["A 1".toList], ['P']⟩]
-- (evaluated by the kernel: the whole call on the concrete file)
example : (match historyC exItems false exEnv ⟨exEnv.pos, 0⟩ with
    | .ok (some r, _) => r == [(true, [.fin false 45 (-1), .fin false 85 (-1)]), (true, [.fin false 15 (-1), .fin false 55 (-1)])]
    | _ => false) = true := by decide +kernel
example : (match orderedSelection exEnv exItems with
    | .ok tsel => (match visitAll (valuesAt exEnv tsel false (fileTablesOf exEnv) exEnv) (resultPositions exEnv) 0 with
        | .ok hitss => hitss == [[(1, .fin false 15 (-1)), (0, .fin false 45 (-1))], [(1, .fin false 55 (-1)), (0, .fin false 85 (-1))]]
        | _ => false)
    | _ => false) = true := by decide +kernel
example : [[(1, FVal.fin false 15 (-1)), (0, .fin false 45 (-1))], [(1, .fin false 55 (-1)), (0, .fin false 85 (-1))]].map (seriesOf 0)
    = [FVal.fin false 45 (-1), .fin false 85 (-1)].map (fun v => [v]) := by decide

example : exEnv.tables.lookup "element" = some exTA := rfl
example : exTA.cols ≠ [] ∧ (skipToResultsLineL (expectedOf "element" exTA) (exR1.drop 2) 2 1).map (fun x => (x.1, x.2.no, x.2.rest))
    = some (2, 3, exR1.drop 3) := by decide +kernel

/-! ### a connection named in reverse order yields the negated series -/

theorem reversed_key_negated (readVals : Str → Except Exc (List FVal)) (colOf : Str → Option Nat) (line col : Str) :
    pickCell readVals colOf line col true = (pickCell readVals colOf line col false).map negF := by
  unfold pickCell
  cases readVals line with
  | error e => rfl
  | ok vals =>
    cases colOf col with
    | none => rfl
    | some vi =>
      simp only
      cases vals[vi]? <;> rfl

/-! ### the call terminates: where the model can fail to

  Every loop of the model is a recursion over the lines still to be read, so the model's history() always
  produces an outcome; "does not terminate" is the explicit outcome `LErr.diverges`, compared on every run with the
  real call under a timeout (and, on files cut at arbitrary places, with the real reader: the model is `diverges`
  exactly where the reader gives no answer).  `diverges` has three sources, all at end of file: -/

/-- `skip_to_nonblank` (`while not self.readline().strip()`) spins exactly when only blank lines are left -/
theorem skip_to_nonblank_spins_iff (rest : List Str) (n : Nat) :
    skipToNonblankL rest n = none ↔ ∀ l ∈ rest, isBlank l = true :=
  Proofs.File.skipToNonblank_spins_iff rest n

/-- a `while not <condition>: line = readline()` loop without an end-of-file test (e.g. `skip_to_results_line`, the
    `'total time'` loop of setup_pos_TOUGH2, skip_table_AUTOUGH2) spins exactly when neither a remaining line nor the
    `''` read at end of file satisfies its condition -/
theorem read_until_spins_iff (stop : Str → Bool) (eofStops : Bool) (rest : List Str) (n : Nat) :
    readUntilL stop eofStops rest n = none ↔ (eofStops = false ∧ stop [] = false ∧ ∀ l ∈ rest, stop l = false) :=
  Proofs.File.readUntil_spins_iff stop eofStops rest n

/-- `skipto` tests for end of file, and whenever a line is left it consumes at least one: so the `while tname !=
    tablename: skipto(...); tname = next_table()` loops of skip_to_table_* — which the model declares divergent only
    when an iteration leaves the file position unchanged — can spin only at end of file -/
theorem skipto_progresses (kws : List Str) (start : Nat) (l : Str) (r : List Str) (n : Nat) :
    (skipToL kws start (l :: r) n).2.no > n :=
  Proofs.File.skipTo_progress kws start l r n

example : skipToNonblankL [[' ', '\n'], ['\n']] 0 = none ∧ (skipToNonblankL [[' ', '\n'], ['x', '\n']] 0).isSome = true := by decide

/-! ### the whole call: it fails to return exactly when the read at ONE result position fails to return -/

/-- converting the selection (`ordered_selection`: table names, row names, reversed names, row_line and short-output indices,
    sorting) never spins, for any reader and any selection -/
theorem ordered_selection_never_spins (s : Rd) (items : List Item) : orderedSelection s items ≠ .error .diverges :=
  Proofs.SeriesTerm.orderedSelection_nodiv s items

/-- Whole call, every simulator, any selection: history() does not return **iff** the selection is non-empty and there is a
    result position `j` such that the reads at all earlier positions returned and the read at position `j` — which depends on
    that position alone (`valuesAt`, it seeks there first) — does not return.  So termination of the call is termination of at
    most `len(_pos)` independent per-position reads; nothing else in the call (the selection, the loop over the positions, the
    bookkeeping of indices) can spin. -/
theorem history_spins_iff_some_position_spins (items : List Item) (short : Bool) (env : Rd) (c : Cur) :
    historyC items short env c = .error .diverges ↔
      ∃ tsel, orderedSelection env items = .ok tsel ∧ tsel.isEmpty = false ∧
        ∃ j pb, (resultPositions env)[j]? = some pb ∧
          valuesAt env tsel short (fileTablesOf env) env pb j = .error .diverges ∧
          ∀ j' pb', j' < j → (resultPositions env)[j']? = some pb' →
            ∃ h, valuesAt env tsel short (fileTablesOf env) env pb' j' = .ok h := by
  rw [historyC_error_iff, visitAll_error_iff_exists]
  constructor
  · intro h
    rcases h with h | h
    · exact absurd h (ordered_selection_never_spins env items)
    · exact h
  · intro h; exact .inr h
where
  visitAll_error_iff_exists : (orderedSelection env items = .error .diverges ∨
      ∃ tsel, orderedSelection env items = .ok tsel ∧ tsel.isEmpty = false ∧
        visitAll (valuesAt env tsel short (fileTablesOf env) env) (resultPositions env) 0 = .error .diverges) =
    (orderedSelection env items = .error .diverges ∨
      ∃ tsel, orderedSelection env items = .ok tsel ∧ tsel.isEmpty = false ∧
        ∃ j pb, (resultPositions env)[j]? = some pb ∧
          valuesAt env tsel short (fileTablesOf env) env pb j = .error .diverges ∧
          ∀ j' pb', j' < j → (resultPositions env)[j']? = some pb' →
            ∃ h, valuesAt env tsel short (fileTablesOf env) env pb' j' = .ok h) := by
    congr 1
    apply propext
    constructor
    · intro ⟨tsel, h1, h2, h3⟩
      obtain ⟨j, pb, a, b, d⟩ := (visitAll_error_iff _ _ 0 _).mp h3
      exact ⟨tsel, h1, h2, j, pb, a, by simpa using b, fun j' pb' x y => by simpa using d j' pb' x y⟩
    · intro ⟨tsel, h1, h2, j, pb, a, b, d⟩
      exact ⟨tsel, h1, h2, (visitAll_error_iff _ _ 0 _).mpr ⟨j, pb, a, by simpa using b, fun j' pb' x y => by simpa using d j' pb' x y⟩⟩

/-- One table at one result position, every simulator, exactly: reading the selected lines of table `tn` does not return
    **iff** the table is known, has a column, and from the file position on no line — nor the `''` read at end of file — shows the
    number of floats `skip_to_results_line` waits for.  (On any file where a results line of the table follows, it returns.) -/
theorem history_table_spins_iff (tn : String) (ts : List Sel) (env : Rd) (c : Cur) :
    historyTable tn ts env c = .error .diverges ↔
      ∃ t, env.tables.lookup tn = some t ∧ t.cols ≠ [] ∧
        isResultsLine [] (Proofs.SeriesTerm.expectedFloats tn t.cols) = false ∧
        ∀ l ∈ c.pos.rest, isResultsLine (strip l) (Proofs.SeriesTerm.expectedFloats tn t.cols) = false :=
  Proofs.SeriesTerm.historyTable_diverges_iff tn ts env c

/-- `skip_to_results_line` spins exactly when neither a remaining line nor the `''` read at end of file is a results line -/
theorem skip_to_results_line_spins_iff (e : Int) (rest : List Str) (n k : Nat) :
    skipToResultsLineL e rest n k = none ↔ (isResultsLine [] e = false ∧ ∀ l ∈ rest, isResultsLine (strip l) e = false) :=
  Proofs.SeriesTerm.skipToResultsLineL_spins_iff e rest n k

-- on the two-time file above the call returns; cut after the keyword line of the second result (no row line left) it does not,
-- and the position that spins is the second one (the first was read)
private def exCut : Rd := { exEnv with all := exR1 ++ exR2.take 3, allpos := #[⟨0, exR1 ++ exR2.take 3⟩, ⟨6, exR2.take 3⟩] }
example : (match historyC exItems false exCut ⟨exCut.pos, 0⟩ with | .error .diverges => true | _ => false) = true := by decide +kernel
example : (match orderedSelection exCut exItems with
    | .ok tsel => (match valuesAt exCut tsel false (fileTablesOf exCut) exCut ⟨⟨6, exR2.take 3⟩, false⟩ 1,
                         valuesAt exCut tsel false (fileTablesOf exCut) exCut ⟨⟨0, exR1 ++ exR2.take 3⟩, false⟩ 0 with
        | .error .diverges, .ok _ => true
        | _, _ => false)
    | _ => false) = true := by decide +kernel
example : skipToResultsLineL 2 [" EEEEE\n".toList, "\n".toList] 0 1 = none := by decide

/-! ### afterwards the reader still shows the same current time and tables as before the call -/

/-- For the whole-file model: a history() call that returns (any selection, with or without short output, from any
    current index, on any file) leaves every attribute of the reader as it was — index, time, step, every table —
    except the file position, which every later action sets before it reads.  (history() is a computation that can
    only move the file position and the index, and it restores the index.) -/
theorem history_leaves_reader_unchanged (items : List Item) (short : Bool) (s s' : Rd)
    (r : Option (List (Bool × List FVal))) (h : (history items short).run s = .ok (r, s')) :
    s' = { s with pos := s'.pos } :=
  Proofs.File.history_frame items short s s' r h

/-- in particular index, time, step and tables -/
theorem history_preserves_view (items : List Item) (short : Bool) (s s' : Rd)
    (r : Option (List (Bool × List FVal))) (h : (history items short).run s = .ok (r, s')) :
    s'.index = s.index ∧ s'.time = s.time ∧ s'.step = s.step ∧ s'.tables = s.tables := by
  have := history_leaves_reader_unchanged items short s s' r h
  rw [this]; exact ⟨rfl, rfl, rfl, rfl⟩

end Props.C06
