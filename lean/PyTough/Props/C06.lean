/-
  C06 — time-history extraction equals stepping through the listing, and terminates.

  The model of t2listing.history() is Model/ListingHistory.lean, built on the whole-file reader machine; the
  harness runs it against the real call for every explored selection (series compared bit for bit; a real
  call that does not return must be `LErr.diverges` in the model).  The theorems below are about the part of
  history() that differs from stepping: instead of reading every row of every table, it sorts the selected
  rows of a table by line number and reads them in one forward pass (`scanSel`).  They say that this pass
  returns, for every selected entry, the cell that the stepping reader's row reader (`read_table_line`, the same
  function in both) gives for that row's line — for any number of entries, in any order, with repetitions —
  negated for a reversed connection name.
-/
import PyTough.Model.ListingHistory
import PyTough.Proofs.ListingHistory
import PyTough.Proofs.ListingFile

namespace Props.C06
open Py Model Model.Listing Proofs.History

/-! ### one pass over a table returns exactly the selected cells -/

/-- `L = line0 :: rest0` are the lines of the table from its first results line on (where skip_to_table +
    skip_to_results_line leave the file, `line0` already read).  For entries `ts` given in ascending order of
    line index the loop of history() returns entry by entry `cellOf … e` = column `e.col` of
    `read_table_line(L[e.lineindex])`, sign-flipped when `e.reverse`; it raises exactly when one of these cells
    cannot be read (unknown column: KeyError, short line: IndexError), with the same exception. -/
theorem scan_reads_selected_lines (readVals : Str → Except Exc (List FVal)) (colOf : Str → Option Nat)
    (line0 : Str) (rest0 : List Str) (ts : List Sel) (hasc : Ascending 0 ts) :
    (scanSel readVals colOf ts 0 line0 rest0).map (·.1) = ts.mapM (cellOf readVals colOf (line0 :: rest0)) :=
  scanSel_eq readVals colOf (line0 :: rest0) ts 0 line0 rest0 rfl rfl hasc

/-- `tselect.sort()` puts any selection (any order, repeated rows) into ascending order of line index without
    losing or inventing entries; so, with the theorem above, history() returns for an arbitrary selection of one
    table exactly the cells of its entries. -/
theorem history_table_eq_cells (readVals : Str → Except Exc (List FVal)) (colOf : Str → Option Nat)
    (line0 : Str) (rest0 : List Str) (ts : List Sel) (hnn : ∀ e ∈ ts, 0 ≤ e.1) :
    (scanSel readVals colOf (sortSel ts) 0 line0 rest0).map (·.1)
        = (sortSel ts).mapM (cellOf readVals colOf (line0 :: rest0))
      ∧ (sortSel ts).Perm ts :=
  ⟨scan_reads_selected_lines readVals colOf line0 rest0 (sortSel ts) (sortSel_ascending ts 0 hnn), sortSel_perm ts⟩

-- a table of three lines; entries out of order, one line twice, one reversed
private def exRead (l : Str) : Except Exc (List FVal) := .ok [.fin false l.length 0, .fin false (10 * l.length) 0]
private def exCol (c : Str) : Option Nat := if c = ['a'] then some 0 else if c = ['b'] then some 1 else none
example : scanSel exRead exCol (sortSel [(2, ['b'], false, 0), (0, ['a'], true, 1), (2, ['a'], false, 2)]) 0 ['x'] [['y', 'y'], ['z', 'z', 'z']]
    = .ok ([(1, .fin true 1 0), (2, .fin false 3 0), (0, .fin false 30 0)], []) := by decide
example : sortSel [(2, ['b'], false, 0), (0, ['a'], true, 1), (2, ['a'], false, 2)]
    = [(0, ['a'], true, 1), (2, ['a'], false, 2), (2, ['b'], false, 0)] := by decide

/-! ### a connection named in reverse order yields the negated series -/

theorem reversed_key_negated (readVals : Str → Except Exc (List FVal)) (colOf : Str → Option Nat) (line col : Str) :
    pickCell readVals colOf line col true = (pickCell readVals colOf line col false).map negF := by
  unfold pickCell
  cases readVals line with
  | error e => rfl
  | ok vals =>
    cases colOf col with
    | none => rfl
    | some vi =>
      simp only
      cases vals[vi]? <;> rfl

/-! ### the call terminates: where the model can fail to

  Every loop of the model is a recursion over the lines still to be read, so the model's history() always
  produces an outcome; "does not terminate" is the explicit outcome `LErr.diverges`, compared on every run with the
  real call under a timeout (and, on files cut at arbitrary places, with the real reader: the model is `diverges`
  exactly where the reader gives no answer).  `diverges` has three sources, all at end of file: -/

/-- `skip_to_nonblank` (`while not self.readline().strip()`) spins exactly when only blank lines are left -/
theorem skip_to_nonblank_spins_iff (rest : List Str) (n : Nat) :
    skipToNonblankL rest n = none ↔ ∀ l ∈ rest, isBlank l = true :=
  Proofs.File.skipToNonblank_spins_iff rest n

/-- a `while not <condition>: line = readline()` loop without an end-of-file test (e.g. `skip_to_results_line`, the
    `'total time'` loop of setup_pos_TOUGH2, skip_table_AUTOUGH2) spins exactly when neither a remaining line nor the
    `''` read at end of file satisfies its condition -/
theorem read_until_spins_iff (stop : Str → Bool) (eofStops : Bool) (rest : List Str) (n : Nat) :
    readUntilL stop eofStops rest n = none ↔ (eofStops = false ∧ stop [] = false ∧ ∀ l ∈ rest, stop l = false) :=
  Proofs.File.readUntil_spins_iff stop eofStops rest n

/-- `skipto` tests for end of file, and whenever a line is left it consumes at least one: so the `while tname !=
    tablename: skipto(...); tname = next_table()` loops of skip_to_table_* — which the model declares divergent only
    when an iteration leaves the file position unchanged — can spin only at end of file -/
theorem skipto_progresses (kws : List Str) (start : Nat) (l : Str) (r : List Str) (n : Nat) :
    (skipToL kws start (l :: r) n).2.no > n :=
  Proofs.File.skipTo_progress kws start l r n

example : skipToNonblankL [[' ', '\n'], ['\n']] 0 = none ∧ (skipToNonblankL [[' ', '\n'], ['x', '\n']] 0).isSome = true := by decide

/-! ### afterwards the reader still shows the same current time and tables as before the call -/

/-- For the whole-file model: a history() call that returns (any selection, with or without short output, from any
    current index, on any file) leaves every attribute of the reader as it was — index, time, step, every table —
    except the file position, which every later action sets before it reads.  (history() is a computation that can
    only move the file position and the index, and it restores the index.) -/
theorem history_leaves_reader_unchanged (items : List Item) (short : Bool) (s s' : Rd)
    (r : Option (List (Bool × List FVal))) (h : (history items short).run s = .ok (r, s')) :
    s' = { s with pos := s'.pos } :=
  Proofs.File.history_frame items short s s' r h

/-- in particular index, time, step and tables -/
theorem history_preserves_view (items : List Item) (short : Bool) (s s' : Rd)
    (r : Option (List (Bool × List FVal))) (h : (history items short).run s = .ok (r, s')) :
    s'.index = s.index ∧ s'.time = s.time ∧ s'.step = s.step ∧ s'.tables = s.tables := by
  have := history_leaves_reader_unchanged items short s s' r h
  rw [this]; exact ⟨rfl, rfl, rfl, rfl⟩

end Props.C06
