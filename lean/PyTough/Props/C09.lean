/-
  C09 — Reordering, renaming and MINC do not change the physics the grid describes.

  Model: `Model/Grid.lean`; the physical reading `blkPhys`, `conPhys`, `PhysEq`: `Model/GridPhys.lean`.
  Blocks and connections are identified by object id, so "the same network" does not depend on
  names, list order or the order in which a connection lists its two blocks.
-/
import PyTough.Proofs.GridPhys
import PyTough.Proofs.GridMincAll
import PyTough.Proofs.GridPhysMore
import PyTough.Proofs.GridPhysMoreMinc
import PyTough.Props.C08
namespace Props.C09
open Py Model Model.Grid Model.Grid.World

/-! ### a connection written with its two blocks swapped -/

/-- what `reorder` does to a connection it finds under the reversed pair of names
    (`block`, `distance` reversed, `dircos` negated, `nad1/nad2` swapped) leaves its physical
    signature unchanged: each block keeps its own distance, the area and permeability direction
    stay, and the gravity cosine still designates the same block as the upper one -/
theorem reversed_connection_same_phys (con : Con) (h : con.b0 ≠ con.b1) :
    conSig (flipCon con) = conSig con :=
  Proofs.Grid.conSig_flipCon con h

-- the signature really looks at the distances per block and at the sign of the cosine:
-- reversing the blocks only (the behaviour before the repair of `reorder`) changes it
example : conSig { b0 := 1, b1 := 0, direction := 3, d0 := 5, d1 := 2, area := 10, dircos := some (-1), nad1 := none, nad2 := none }
        ≠ conSig { b0 := 0, b1 := 1, direction := 3, d0 := 5, d1 := 2, area := 10, dircos := some (-1), nad1 := none, nad2 := none } := by
  decide

/-! ### reorder -/

/-- **reorder_preserves_phys.**  For every list of block names that is a permutation of the grid's
    blocks (or empty) and every list of connection names that is a permutation of the grid's
    connections with any subset written reversed (`pre`), `reorder` leaves the physical network
    unchanged and the grid consistent. -/
theorem reorder_preserves_phys {w : World} (hI : Grid.Inv w) (bs : List Name) (cs : List CName)
    (hpre : pre w (.reorder bs cs) = true) :
    PhysEq w (step w (.reorder bs cs)).w ∧ Grid.Inv (step w (.reorder bs cs)).w := by
  refine ⟨?_, Props.C08.inv_step hI _ hpre⟩
  simp only [step, Proofs.Grid.ofR_w]
  exact Proofs.Grid.reorder_physEq hI bs cs hpre

/-! ### rename -/

/-- **rename_preserves_phys.**  For every name map that keeps the block names distinct. -/
theorem rename_preserves_phys {w : World} (hI : Grid.Inv w) (m : Dict Name Name) (fix : Bool)
    (hpre : pre w (.renameBlocks m fix) = true) :
    PhysEq w (step w (.renameBlocks m fix)).w ∧ Grid.Inv (step w (.renameBlocks m fix)).w := by
  refine ⟨?_, Props.C08.inv_step hI _ hpre⟩
  simp only [step, Proofs.Grid.ofR_w]
  exact Proofs.Grid.rename_physEq hI m fix hpre

/-! ### compositions -/

def isReorderOrRename : Op → Bool
  | .reorder _ _ => true
  | .renameBlocks _ _ => true
  | _ => false

/-- a history of reorder / rename steps, each within its precondition -/
def PreAllRR : World → List Op → Prop
  | _, [] => True
  | w, op :: r => isReorderOrRename op = true ∧ pre w op = true ∧ PreAllRR (step w op).w r

instance instDecPreAllRR : (w : World) → (ops : List Op) → Decidable (PreAllRR w ops)
  | _, [] => isTrue trivial
  | w, op :: r =>
    have := instDecPreAllRR (step w op).w r
    show Decidable (isReorderOrRename op = true ∧ pre w op = true ∧ PreAllRR (step w op).w r) from inferInstance

/-- **compose_preserves_phys.**  Any sequence of reorder and rename steps. -/
theorem compose_preserves_phys {w : World} (hI : Grid.Inv w) (ops : List Op) (h : PreAllRR w ops) :
    PhysEq w (run w ops) ∧ Grid.Inv (run w ops) := by
  induction ops generalizing w with
  | nil => exact ⟨PhysEq.refl w, hI⟩
  | cons op r ih =>
    obtain ⟨hk, hp, hr⟩ := h
    have h1 : PhysEq w (step w op).w ∧ Grid.Inv (step w op).w := by
      cases op with
      | reorder bs cs => exact reorder_preserves_phys hI bs cs hp
      | renameBlocks m fix => exact rename_preserves_phys hI m fix hp
      | _ => simp [isReorderOrRename] at hk
    obtain ⟨h2, h3⟩ := ih h1.2 hr
    exact ⟨h1.1.trans h2, h3⟩

/-! ### MINC -/

/-- **minc_volume_split** (arithmetic): with the fractions normalised by their (non-zero) sum as
    `minc` does, the fracture share `V·f₀` plus the matrix shares `V·f_k` add up to the original `V`. -/
theorem minc_volume_split (V : Rat) (fracs : List Rat) (hne : fracs ≠ []) (hs : sumRat fracs ≠ 0) :
    V * (normFracs fracs).headD 0 + sumRat (((normFracs fracs).drop 1).map (V * ·)) = V := by
  have hne' : normFracs fracs ≠ [] := by
    unfold normFracs; intro h; exact hne (List.map_eq_nil_iff.mp h)
  rw [Proofs.Grid.sumRat_map_mul]
  have h1 := Proofs.Grid.headD_add_sum_drop (normFracs fracs) hne'
  have h2 := Proofs.Grid.sumRat_normFracs fracs hs
  rw [h2] at h1
  grind

/-- **minc_levels / minc_chain.**  The loop of `minc` over the matrix levels of one selected block
    (called with `origVol` = the block's volume before, `vfs` = the normalised fractions of levels
    1, 2, …, `lastblk` = the block itself), when it completes: it appends one new block per level
    to the block list, level `i` with volume `origVol·vfs[i]` and the level's name; existing blocks
    keep volume and name; it appends one connection per level, forming the chain
    block → matrix 1 → matrix 2 → … with area `origVol·a[m-1]` and distances `(d[m-1], d[m])`
    (`mincChain` / `mincCon`); the returned indices are the new blocks' positions; and the grid is
    consistent. -/
theorem minc_levels_spec (args : MincArgs) (blkname : Name) (origVol : Rat) (origRock : Nat) (centre : Option (List Rat))
    (vfs : List Rat) {w : World} (m0 : Nat) {lastblk : Nat} (iblk : Nat) (idx : List Nat) {w' : World} {iblk' : Nat} {idx' : List Nat}
    (hI : Grid.Inv w) (hlast : lastblk ∈ w.blocklist)
    (hok : mincLevels args blkname origVol origRock centre w vfs m0 lastblk iblk idx = .ok (w', iblk', idx')) :
    Grid.Inv w' ∧
    w'.blocklist = w.blocklist ++ List.range' w.blks.length vfs.length ∧
    w'.blks.length = w.blks.length + vfs.length ∧
    (∀ x, x < w.blks.length → (w'.bk x).volume = (w.bk x).volume ∧ (w'.bk x).name = (w.bk x).name) ∧
    (∀ i (hi : i < vfs.length), (w'.bk (w.blks.length + i)).volume = origVol * vfs[i] ∧
        (w'.bk (w.blks.length + i)).name = matrixBlockname blkname (m0 + i + 1)) ∧
    w'.connectionlist = w.connectionlist ++ List.range' w.cons.length vfs.length ∧
    w'.cons = w.cons ++ mincChain args origVol m0 lastblk w.blks.length vfs ∧
    iblk' = iblk + vfs.length ∧ idx' = idx ++ List.range' (iblk + 1) vfs.length :=
  Proofs.Grid.mincLevels_spec args blkname origVol origRock centre vfs m0 iblk idx hI hlast hok

/-- **minc_spec.**  The operation itself: when `minc(volume_fractions, …, blocks)` returns (the
    selected names being distinct names of blocks of the grid — automatically so for the default
    selection "all blocks"), then with `f` = the fractions normalised by their sum:
    the grid is consistent; one index row per selected name is returned; no block is renamed;
    every unselected block and every boundary block (volume ≤ 0 or ≥ `atmos_volume`) keeps its volume;
    and for every selected block `b` with `0 < V < atmos_volume` the row holds the positions of `b` and
    of its new matrix blocks, `b` has volume `V·f₀`, matrix level `k` has `V·f_k`, and the new
    connections form the chain `b → matrix 1 → … → innermost` with area `V·a[k]` and distances
    `(d[k], d[k+1])` (`MincGroup` in Model/GridPhys.lean; `a`, `d` are the scipy numbers, parameters). -/
theorem minc_spec {w : World} (hI : Grid.Inv w) (args : MincArgs) {w' : World} {cols : List (List Nat)}
    (hok : minc w args = .ok (w', cols))
    (hnd : (if args.blocks.isEmpty then w.blocklist.map w.bname else args.blocks).Nodup)
    (hall : ∀ n ∈ (if args.blocks.isEmpty then w.blocklist.map w.bname else args.blocks), (dget w.block n).isSome) :
    let vf := normFracs args.fracs
    let sel := if args.blocks.isEmpty then w.blocklist.map w.bname else args.blocks
    Grid.Inv w' ∧ cols.length = sel.length ∧
    (∀ x, x < w.blks.length → (w'.bk x).name = (w.bk x).name) ∧
    (∀ b ∈ w.blocklist, (w.bname b ∉ sel ∨ ¬ (0 < (w.bk b).volume ∧ (w.bk b).volume < args.atmosVolume)) →
        (w'.bk b).volume = (w.bk b).volume) ∧
    (∀ i (hi : i < sel.length) b, dget w.block sel[i] = some b →
        0 < (w.bk b).volume → (w.bk b).volume < args.atmosVolume →
        ∃ row, cols[i]? = some row ∧ MincGroup args vf w.blks.length w' (w.bk b).volume b row) :=
  Proofs.Grid.minc_spec hI args hok hnd hall

/-- the hypotheses of `minc_spec` hold for the default selection (all blocks) of a consistent grid -/
theorem minc_spec_default_selection {w : World} (hI : Grid.Inv w) :
    (w.blocklist.map w.bname).Nodup ∧ ∀ n ∈ w.blocklist.map w.bname, (dget w.block n).isSome := by
  refine ⟨?_, ?_⟩
  · exact Proofs.Grid.nodup_block_names hI
  · intro n hn
    obtain ⟨b, hb, rfl⟩ := List.mem_map.mp hn
    rw [hI.bd_complete b hb]; rfl

/-- **MINC keeps each original block's total volume**: the fracture block and its matrix blocks add
    up to the volume the block had (fractions normalised by a non-zero sum) -/
theorem minc_keeps_total_volume {args : MincArgs} {fracs : List Rat} {N0 : Nat} {w' : World} {V : Rat} {b : Nat} {row : List Nat}
    (h : MincGroup args (normFracs fracs) N0 w' V b row) (hne : fracs ≠ []) (hs : sumRat fracs ≠ 0) :
    ∃ base, (w'.bk b).volume +
      sumRat ((List.range ((normFracs fracs).drop 1).length).map fun k => (w'.bk (base + k)).volume) = V :=
  h.total hne hs

/-- `minc` as a whole keeps the grid consistent, whatever its arguments (it raises on a duplicate
    matrix block name, leaving a consistent grid behind) -/
theorem minc_keeps_inv {w : World} (hI : Grid.Inv w) (args : MincArgs) : Grid.Inv (step w (.minc args)).w :=
  Props.C08.inv_step hI _ rfl

/-! ### MINC: counts, and what it leaves alone -/

/-- **Block and connection counts.**  Under the hypotheses of `minc_spec`, with `P` the number of
    selected names whose block is processed (`0 < V < atmos_volume`, `Proofs.Grid.mincProcessed`) and
    `L = len(volume_fractions)`: the original blocks and connections keep their places at the front of
    `blocklist` / `connectionlist`, and exactly `P·(L−1)` new block objects and `P·(L−1)` new connection
    objects are appended (one matrix block and one connection per processed block and matrix level);
    unselected and boundary blocks contribute nothing. -/
theorem minc_counts {w : World} (hI : Grid.Inv w) (args : MincArgs) {w' : World} {cols : List (List Nat)}
    (hok : minc w args = .ok (w', cols))
    (hnd : (if args.blocks.isEmpty then w.blocklist.map w.bname else args.blocks).Nodup)
    (hall : ∀ n ∈ (if args.blocks.isEmpty then w.blocklist.map w.bname else args.blocks), (dget w.block n).isSome) :
    let sel := if args.blocks.isEmpty then w.blocklist.map w.bname else args.blocks
    let K := (sel.filter (Proofs.Grid.mincProcessed w args)).length * (args.fracs.length - 1)
    w'.blocklist = w.blocklist ++ List.range' w.blks.length K ∧
    w'.connectionlist = w.connectionlist ++ List.range' w.cons.length K ∧
    w'.blocklist.length = w.blocklist.length + K ∧ w'.connectionlist.length = w.connectionlist.length + K := by
  intro sel K
  obtain ⟨h1, _, h3, _⟩ := Proofs.Grid.minc_frame hI args hok hnd hall
  refine ⟨h1, h3, ?_, ?_⟩
  · rw [h1]; simp only [List.length_append, List.length_range']; rfl
  · rw [h3]; simp only [List.length_append, List.length_range']; rfl

/-- **Inter-block connections and unselected blocks are untouched.**  Under the hypotheses of `minc_spec`:
    (a) every connection object that existed keeps its two blocks, both distances, area, direction and
        gravity cosine (`minc` in /repo does not rescale the fracture–fracture interface areas);
    (b) every connection of the new grid whose second block is an original block — in particular every
        connection between two original (now fracture) blocks — is one of the old connections, unchanged:
        the new connections all end in a newly created matrix block;
    (c) every connection of the new grid that touches an original block which was not processed
        (unselected, or a boundary block) is one of the old connections, unchanged. -/
theorem minc_leaves_other_connections {w : World} (hI : Grid.Inv w) (args : MincArgs) {w' : World} {cols : List (List Nat)}
    (hok : minc w args = .ok (w', cols))
    (hnd : (if args.blocks.isEmpty then w.blocklist.map w.bname else args.blocks).Nodup)
    (hall : ∀ n ∈ (if args.blocks.isEmpty then w.blocklist.map w.bname else args.blocks), (dget w.block n).isSome) :
    let sel := if args.blocks.isEmpty then w.blocklist.map w.bname else args.blocks
    (∀ c, c < w.cons.length → w'.cn c = w.cn c) ∧
    (∀ c ∈ w'.connectionlist, (w'.cn c).b1 < w.blks.length → c ∈ w.connectionlist ∧ w'.cn c = w.cn c) ∧
    (∀ c ∈ w'.connectionlist, ∀ b ∈ w.blocklist, ((w'.cn c).b0 = b ∨ (w'.cn c).b1 = b) →
        (∀ n ∈ sel, Proofs.Grid.mincProcessed w args n = true → dget w.block n ≠ some b) →
        c ∈ w.connectionlist ∧ w'.cn c = w.cn c) := by
  intro sel
  obtain ⟨_, _, h3, ext, he, hlen, hext⟩ := Proofs.Grid.minc_frame hI args hok hnd hall
  have hold : ∀ c, c < w.cons.length → w'.cn c = w.cn c := by
    intro c hc
    simp only [World.cn, he, List.getD_eq_getElem?_getD, List.getElem?_append_left hc]
  have hnew : ∀ c ∈ w'.connectionlist, c ∉ w.connectionlist → w'.cn c ∈ ext := by
    intro c hc hn
    rw [h3] at hc
    rcases List.mem_append.mp hc with h | h
    · exact absurd h hn
    · obtain ⟨hle, hlt⟩ := List.mem_range'_1.mp h
      have hlt' : c - w.cons.length < ext.length := by omega
      have e : w'.cn c = ext[c - w.cons.length] := by
        simp only [World.cn, he, List.getD_eq_getElem?_getD, List.getElem?_append_right hle,
          List.getElem?_eq_getElem hlt', Option.getD_some]
      rw [e]; exact List.getElem_mem hlt'
  refine ⟨hold, ?_, ?_⟩
  · intro c hc hb1
    by_cases hin : c ∈ w.connectionlist
    · exact ⟨hin, hold c (hI.cl_lt c hin)⟩
    · have := (hext _ (hnew c hc hin)).1
      omega
  · intro c hc b hb hends hnp
    by_cases hin : c ∈ w.connectionlist
    · exact ⟨hin, hold c (hI.cl_lt c hin)⟩
    · obtain ⟨m1, m2⟩ := hext _ (hnew c hc hin)
      have hblt := hI.bl_lt b hb
      rcases hends with h | h
      · rcases m2 with m2 | ⟨n, hn, hp, hd⟩
        · omega
        · exact absurd (h ▸ hd) (hnp n hn hp)
      · omega

/-- **The requested fractions, normalised.**  For one processed block (`MincGroup`, as delivered by
    `minc_spec`) and *any* requested fractions `f₀, f₁, …` (they need not sum to 1): the fracture block
    has volume `V·f₀/Σf` and matrix level `k+1` has `V·f_{k+1}/Σf`. -/
theorem minc_group_volumes_normalised {args : MincArgs} {fracs : List Rat} {N0 : Nat} {w' : World} {V : Rat} {b : Nat} {row : List Nat}
    (h : MincGroup args (normFracs fracs) N0 w' V b row) (hne : fracs ≠ []) :
    ∃ base, (w'.bk b).volume = V * (fracs.headD 0 / sumRat fracs) ∧
      ∀ k (hk : k + 1 < fracs.length), (w'.bk (base + k)).volume = V * (fracs[k + 1] / sumRat fracs) := by
  obtain ⟨base, cbase, pos0, p, _, _, _, h4, h5, _⟩ := h
  refine ⟨base, ?_, ?_⟩
  · rw [h4]
    cases fracs with
    | nil => exact absurd rfl hne
    | cons x r => rfl
  · intro k hk
    have hk' : k < ((normFracs fracs).drop 1).length := by simp [normFracs]; omega
    rw [h5 k hk']
    simp [normFracs]

/-! ### embed -/

/-- **embed_conserves_volume.**  Under the hypotheses of `Props.C08.embed_consistent`: when `embed`
    returns a grid, its total volume equals the host grid's total volume before (the sub-grid's
    volume is taken out of the grid's block that carries the name of the connection's first block —
    also when that first block is a standalone object of the same name). -/
theorem embed_conserves_volume {w : World} {sub : Grid} {c x0 x1 : Nat}
    (h1 : Grid.Inv w) (h2 : Grid.Inv (w.withGrid sub))
    (oR : ∀ x ∈ w.rocktypelist, x ∉ sub.rocktypelist) (oB : ∀ x ∈ w.blocklist, x ∉ sub.blocklist)
    (oC : ∀ x ∈ w.connectionlist, x ∉ sub.connectionlist)
    (nR : ∀ x ∈ w.rocktypelist, ∀ y ∈ sub.rocktypelist, w.rname x = w.rname y → ∀ b ∈ w.blocklist, (w.bk b).rock ≠ x)
    (hc : c < w.cons.length) (hc1 : c ∉ w.connectionlist) (hc2 : c ∉ sub.connectionlist)
    (hhost : dget w.block (w.bname (w.cn c).b0) = some x0) (hsb : dget sub.block (w.bname (w.cn c).b1) = some x1)
    {w' : World} (hok : embed w sub c = .ok (w', true)) : totalVolume w' = totalVolume w := by
  obtain ⟨w'', fl, e, _, hv, _⟩ := Proofs.Grid.embed_inv' h1 h2 oR oB oC nR hc hc1 hc2 hhost hsb
  rw [hok] at e
  simp only [Except.ok.injEq, Prod.mk.injEq] at e
  obtain ⟨rfl, rfl⟩ := e
  exact hv rfl


/-! ### explicit permutations and reversal subsets; the names' trip through a data file -/

/-- **Every permutation, every reversal subset.**  `bl` any permutation of the grid's block objects,
    `cl` any permutation of its connection objects, `rev` any subset of them: calling `reorder` with
    the block names in the order `bl` and the connection names in the order `cl`, those in `rev`
    written with their two block names swapped (`Proofs.Grid.reversalNames`), is within `pre`, leaves
    the physical network unchanged and the grid consistent.
    `_partial`: the extra (decidable) hypothesis says that a connection written reversed is not *also*
    present in the grid as a second object under the swapped pair of names.  It cannot be dropped: with
    both `(A,B)` and `(B,A)` registered, "`(A,B)` written reversed" *is* the name of the other connection,
    `reorder` lists that one twice and loses the first (such a name list is outside `pre`; grids built
    from a geometry never hold a pair of blocks connected in both orientations). -/
theorem reorder_any_permutation_any_reversal_partial {w : World} (hI : Grid.Inv w) (bl cl : List Nat) (rev : Nat → Bool)
    (hb : bl.Perm w.blocklist) (hc : cl.Perm w.connectionlist)
    (hanti : ∀ c ∈ cl, rev c = true → dget w.connection ((w.ckey c).2, (w.ckey c).1) = none) :
    let op := Op.reorder (bl.map w.bname) (Proofs.Grid.reversalNames w cl rev)
    pre w op = true ∧ PhysEq w (step w op).w ∧ Grid.Inv (step w op).w := by
  intro op
  have hpre := Proofs.Grid.pre_reorder_of_perm hI bl cl rev hb hc hanti
  exact ⟨hpre, reorder_preserves_phys hI _ _ hpre⟩

/-- **A whole history of such calls.**  A history in which every step is a `reorder` given by an
    explicit permutation and reversal subset of the *current* state (as above) or a `rename_blocks`
    with a map keeping the names distinct: built step by step from these data, it is within
    `PreAllRR`, so by `compose_preserves_phys` the final state describes the same network as the first. -/
theorem history_of_explicit_steps_preserves_phys {w : World} (hI : Grid.Inv w) (ops : List Op)
    (h : PreAllRR w ops) (bl cl : List Nat) (rev : Nat → Bool)
    (hb : bl.Perm (run w ops).blocklist) (hc : cl.Perm (run w ops).connectionlist)
    (hanti : ∀ c ∈ cl, rev c = true →
      dget (run w ops).connection (((run w ops).ckey c).2, ((run w ops).ckey c).1) = none) :
    let last := Op.reorder (bl.map (run w ops).bname) (Proofs.Grid.reversalNames (run w ops) cl rev)
    PreAllRR w (ops ++ [last]) ∧ PhysEq w (run w (ops ++ [last])) ∧ Grid.Inv (run w (ops ++ [last])) := by
  intro last
  have h0 := compose_preserves_phys hI ops h
  have hpre := Proofs.Grid.pre_reorder_of_perm h0.2 bl cl rev hb hc hanti
  have happ : ∀ (w1 : World) (l : List Op), PreAllRR w1 l → pre (run w1 l) last = true → PreAllRR w1 (l ++ [last]) := by
    intro w1 l
    induction l generalizing w1 with
    | nil => intro _ hp; exact ⟨rfl, hp, trivial⟩
    | cons op r ih => intro hl hp; exact ⟨hl.1, hl.2.1, ih _ hl.2.2 hp⟩
  have hall := happ w ops h hpre
  exact ⟨hall, compose_preserves_phys hI _ hall⟩

/-- **The file leg for block names.**  Writing the grid to a data file and reading it back gives every
    block the name `fileName n = fix_blockname (unfix_blockname n)` (C01 `block_name_cycle`), i.e. acts
    on the names as `rename_blocks (fileNameMap w)`.  After any `rename_blocks` step within its
    precondition, whenever the names that come back are still distinct, that trip leaves the physical
    network unchanged and the grid consistent.  (Names only: the rounding of volumes, distances and
    areas to the widths of the ELEME/CONNE fields is C01's subject and is checked here by the oracle.) -/
theorem rename_then_file_names_preserves_phys {w : World} (hI : Grid.Inv w) (m : Dict Name Name) (fix : Bool)
    (hpre : pre w (.renameBlocks m fix) = true) :
    let w1 := (step w (.renameBlocks m fix)).w
    (w1.blocklist.map fun b => Proofs.Grid.fileName (w1.bname b)).Nodup →
    PhysEq w (step w1 (.renameBlocks (Proofs.Grid.fileNameMap w1) false)).w ∧
    Grid.Inv (step w1 (.renameBlocks (Proofs.Grid.fileNameMap w1) false)).w := by
  intro w1 hnd
  obtain ⟨p1, i1⟩ := rename_preserves_phys hI m fix hpre
  obtain ⟨p2, i2⟩ := rename_preserves_phys i1 (Proofs.Grid.fileNameMap w1) false (Proofs.Grid.pre_fileNameMap hnd)
  exact ⟨p1.trans p2, i2⟩

/-- **Names the file format can carry survive the trip.**  If every block name of a consistent grid is
    `Canonical` (five characters, not of the two shapes `d·' '·d` / `non-digit·'0'·d` that `unfix`/`fix`
    rewrite — C13 `name_written_then_read`), then the trip through the file is within the precondition
    of `rename_blocks`, keeps the block list, and every block comes back under the *same* name. -/
theorem canonical_names_survive_file {w : World} (hI : Grid.Inv w)
    (hcan : ∀ b ∈ w.blocklist, Proofs.Incon.Canonical (w.bname b)) :
    let op := Op.renameBlocks (Proofs.Grid.fileNameMap w) false
    pre w op = true ∧ (step w op).w.blocklist = w.blocklist ∧
    (∀ b ∈ w.blocklist, (step w op).w.bname b = w.bname b) ∧ PhysEq w (step w op).w := by
  intro op
  have hnd : (w.blocklist.map fun b => Proofs.Grid.fileName (w.bname b)).Nodup := by
    rw [Proofs.Grid.fileNames_canonical hcan]; exact Proofs.Grid.nodup_block_names hI
  have hpre := Proofs.Grid.pre_fileNameMap hnd
  obtain ⟨f1, f3⟩ := Proofs.Grid.rename_false_names hI _ hpre
  refine ⟨hpre, ?_, ?_, (rename_preserves_phys hI _ false hpre).1⟩
  · simp only [op, step, Proofs.Grid.ofR_w]; exact f1
  · intro b hb
    simp only [op, step, Proofs.Grid.ofR_w]
    rw [f3 b hb, Proofs.Grid.mapName_fileNameMap w hb, Proofs.Grid.fileName_canonical (hcan b hb)]

namespace Examples
open Props.C08.Examples

-- the blocks reversed, the second connection listed with its blocks swapped
def ro : Op := .reorder [C, B, A] [(C, B), (A, B)]
def rn : Op := .renameBlocks [(A, B), (B, A)] true

def ro2 : Op := .reorder [A, B, C] [(A, B), (A, C)]
example : PreAllRR w0 [ro, rn, ro2] := by decide
-- the connection object 1 (B-C) is now stored as C-B, with distances swapped and cosine negated …
example : ((step w0 ro).w.cn 1).b0 = 2 ∧ ((step w0 ro).w.cn 1).d0 = 3 ∧ ((step w0 ro).w.cn 1).dircos = some 1 ∧
    (w0.cn 1).b0 = 1 ∧ (w0.cn 1).d0 = 2 ∧ (w0.cn 1).dircos = some (-1) := by decide
-- … and its physical signature is the same
example : conPhys (step w0 ro).w 1 = conPhys w0 1 := by decide

-- explicit permutation [C, A, B] of the blocks, connections in the order [1, 0] with connection 1 reversed
example : [2, 0, 1].Perm w0.blocklist ∧ [1, 0].Perm w0.connectionlist ∧
    (∀ c ∈ [1, 0], (fun c => c == 1) c = true → dget w0.connection ((w0.ckey c).2, (w0.ckey c).1) = none) ∧
    Proofs.Grid.reversalNames w0 [1, 0] (fun c => c == 1) = [(C, B), (A, B)] := by decide
-- … and after the history [ro, rn] a further explicit step (hypotheses of `history_of_explicit_steps_preserves_phys`)
example : PreAllRR w0 [ro, rn] ∧ [0, 1, 2].Perm (run w0 [ro, rn]).blocklist ∧ [0, 1].Perm (run w0 [ro, rn]).connectionlist ∧
    (∀ c ∈ [0, 1], (fun c => c == 0) c = true →
      dget (run w0 [ro, rn]).connection (((run w0 [ro, rn]).ckey c).2, ((run w0 [ro, rn]).ckey c).1) = none) := by decide
-- the file leg: the names of w0 are canonical; a grid with the names "ab107"/"ab1 7" is not (they collide in the file)
example : ∀ b ∈ w0.blocklist, Proofs.Incon.Canonical (w0.bname b) := by decide
example : pre w0 rn = true ∧
    ((step w0 rn).w.blocklist.map fun b => Proofs.Grid.fileName ((step w0 rn).w.bname b)).Nodup := by decide
example : Proofs.Grid.fileName ['a','b','c','0','7'] = ['a','b','c',' ','7'] ∧
    Proofs.Grid.fileName ['a','b','1',' ','7'] = ['a','b','1','0','7'] := by decide

-- MINC on block B (volume 2) with fractions 1 : 1 : 2 : fracture 1/2, matrix 1/2 and 1, chained B → 1B → 2B
def mi : Op := .minc ⟨[1, 1, 2], [3, 5], [0, 7, 11], [B], 1000⟩
example : let o := step w0 mi
    o.exc = none ∧ o.ret = [[1, 3, 4]] ∧
    (o.w.bk 1).volume = 1/2 ∧ (o.w.bk 3).volume = 1/2 ∧ (o.w.bk 4).volume = 1 ∧
    ((o.w.cn 2).b0, (o.w.cn 2).b1, (o.w.cn 2).area, (o.w.cn 2).d0, (o.w.cn 2).d1) = (1, 3, 6, 0, 7) ∧
    ((o.w.cn 3).b0, (o.w.cn 3).b1, (o.w.cn 3).area, (o.w.cn 3).d0, (o.w.cn 3).d1) = (3, 4, 10, 7, 11) ∧
    checkInv o.w = true := by decide +kernel
example : sumRat [1, 1, 2] ≠ 0 := by decide +kernel

-- hypotheses of `minc_counts` / `minc_leaves_other_connections`: all blocks selected (default), fractions 1 : 1 : 2
-- (sum 4, not 1), atmos_volume 3 so that block C (volume 4) is a boundary block: P = 2 processed blocks, K = 2·2 new
-- blocks and connections; the two old connections A-B, B-C are still objects 0 and 1 with the same data
def miAll : MincArgs := ⟨[1, 1, 2], [3, 5], [0, 7, 11], [], 3⟩
example : (match minc w0 miAll with | .ok _ => true | .error _ => false) = true ∧
    (w0.blocklist.map w0.bname).Nodup ∧ (∀ n ∈ w0.blocklist.map w0.bname, (dget w0.block n).isSome) ∧
    ((w0.blocklist.map w0.bname).filter (Proofs.Grid.mincProcessed w0 miAll)).length = 2 := by decide +kernel
example : let o := step w0 (.minc miAll)
    o.w.blocklist = [0, 1, 2, 3, 4, 5, 6] ∧ o.w.connectionlist = [0, 1, 2, 3, 4, 5] ∧
    o.w.cn 0 = w0.cn 0 ∧ o.w.cn 1 = w0.cn 1 ∧ (o.w.bk 2).volume = 4 ∧
    (o.w.bk 0).volume = 1/4 ∧ (o.w.bk 3).volume = 1/4 ∧ (o.w.bk 4).volume = 1/2 := by decide +kernel

end Examples
end Props.C09
