/-
  C09 — Reordering, renaming and MINC do not change the physics the grid describes.

  Model: `Model/Grid.lean`; the physical reading `blkPhys`, `conPhys`, `PhysEq`: `Model/GridPhys.lean`.
  Blocks and connections are identified by object id, so "the same network" does not depend on
  names, list order or the order in which a connection lists its two blocks.
-/
import PyTough.Proofs.GridPhys
import PyTough.Props.C08
namespace Props.C09
open Py Model Model.Grid Model.Grid.World

/-! ### a connection written with its two blocks swapped -/

/-- what `reorder` does to a connection it finds under the reversed pair of names
    (`block`, `distance` reversed, `dircos` negated, `nad1/nad2` swapped) leaves its physical
    signature unchanged: each block keeps its own distance, the area and permeability direction
    stay, and the gravity cosine still designates the same block as the upper one -/
theorem reversed_connection_same_phys (con : Con) (h : con.b0 ≠ con.b1) :
    conSig (flipCon con) = conSig con :=
  Proofs.Grid.conSig_flipCon con h

-- the signature really looks at the distances per block and at the sign of the cosine:
-- reversing the blocks only (the behaviour before the repair of `reorder`) changes it
example : conSig { b0 := 1, b1 := 0, direction := 3, d0 := 5, d1 := 2, area := 10, dircos := some (-1), nad1 := none, nad2 := none }
        ≠ conSig { b0 := 0, b1 := 1, direction := 3, d0 := 5, d1 := 2, area := 10, dircos := some (-1), nad1 := none, nad2 := none } := by
  decide

/-! ### reorder -/

/-- **reorder_preserves_phys.**  For every list of block names that is a permutation of the grid's
    blocks (or empty) and every list of connection names that is a permutation of the grid's
    connections with any subset written reversed (`pre`), `reorder` leaves the physical network
    unchanged and the grid consistent. -/
theorem reorder_preserves_phys {w : World} (hI : Grid.Inv w) (bs : List Name) (cs : List CName)
    (hpre : pre w (.reorder bs cs) = true) :
    PhysEq w (step w (.reorder bs cs)).w ∧ Grid.Inv (step w (.reorder bs cs)).w := by
  refine ⟨?_, Props.C08.inv_step_core hI _ hpre rfl⟩
  simp only [step, Proofs.Grid.ofR_w]
  exact Proofs.Grid.reorder_physEq hI bs cs hpre

/-! ### rename -/

/-- **rename_preserves_phys.**  For every name map that keeps the block names distinct. -/
theorem rename_preserves_phys {w : World} (hI : Grid.Inv w) (m : Dict Name Name) (fix : Bool)
    (hpre : pre w (.renameBlocks m fix) = true) :
    PhysEq w (step w (.renameBlocks m fix)).w ∧ Grid.Inv (step w (.renameBlocks m fix)).w := by
  refine ⟨?_, Props.C08.inv_step_core hI _ hpre rfl⟩
  simp only [step, Proofs.Grid.ofR_w]
  exact Proofs.Grid.rename_physEq hI m fix hpre

/-! ### compositions -/

def isReorderOrRename : Op → Bool
  | .reorder _ _ => true
  | .renameBlocks _ _ => true
  | _ => false

/-- a history of reorder / rename steps, each within its precondition -/
def PreAllRR : World → List Op → Prop
  | _, [] => True
  | w, op :: r => isReorderOrRename op = true ∧ pre w op = true ∧ PreAllRR (step w op).w r

instance instDecPreAllRR : (w : World) → (ops : List Op) → Decidable (PreAllRR w ops)
  | _, [] => isTrue trivial
  | w, op :: r =>
    have := instDecPreAllRR (step w op).w r
    show Decidable (isReorderOrRename op = true ∧ pre w op = true ∧ PreAllRR (step w op).w r) from inferInstance

/-- **compose_preserves_phys.**  Any sequence of reorder and rename steps. -/
theorem compose_preserves_phys {w : World} (hI : Grid.Inv w) (ops : List Op) (h : PreAllRR w ops) :
    PhysEq w (run w ops) ∧ Grid.Inv (run w ops) := by
  induction ops generalizing w with
  | nil => exact ⟨PhysEq.refl w, hI⟩
  | cons op r ih =>
    obtain ⟨hk, hp, hr⟩ := h
    have h1 : PhysEq w (step w op).w ∧ Grid.Inv (step w op).w := by
      cases op with
      | reorder bs cs => exact reorder_preserves_phys hI bs cs hp
      | renameBlocks m fix => exact rename_preserves_phys hI m fix hp
      | _ => simp [isReorderOrRename] at hk
    obtain ⟨h2, h3⟩ := ih h1.2 hr
    exact ⟨h1.1.trans h2, h3⟩

namespace Examples
open Props.C08.Examples

-- the blocks reversed, the second connection listed with its blocks swapped
def ro : Op := .reorder [C, B, A] [(C, B), (A, B)]
def rn : Op := .renameBlocks [(A, B), (B, A)] true

def ro2 : Op := .reorder [A, B, C] [(A, B), (A, C)]
example : PreAllRR w0 [ro, rn, ro2] := by decide
-- the connection object 1 (B-C) is now stored as C-B, with distances swapped and cosine negated …
example : ((step w0 ro).w.cn 1).b0 = 2 ∧ ((step w0 ro).w.cn 1).d0 = 3 ∧ ((step w0 ro).w.cn 1).dircos = some 1 ∧
    (w0.cn 1).b0 = 1 ∧ (w0.cn 1).d0 = 2 ∧ (w0.cn 1).dircos = some (-1) := by decide
-- … and its physical signature is the same
example : conPhys (step w0 ro).w 1 = conPhys w0 1 := by decide

end Examples
end Props.C09
