/-
  C19 — Transfers between geometries are total, nearest-based, identity on equal grids.

  Property theorems about the model in `Model/Mapping.lean` of
  `mulgrid.block_mapping` (with `column_mapping`, `layer_mapping`, `column_surface_layer`),
  `t2incon.transfer_from` and the `t2data` generator / rock-type transfer.

  Vocabulary (all defined in `Model/Mapping.lean`):
    `blockMapping q s t`   `s.block_mapping(t, True)`: the block mapping and the column mapping,
                           `s` = geometry mapped FROM, `t` = geometry mapped ONTO;
    `q`                    `cKDTree.query`, a parameter; `IsNearest q` = "returns the index of a
                           point at minimal distance";
    `t.blockNameList`      `t.block_name_list` = `t.atmNames ++ t.underNames`;
    `t.underPairs`         the (layer, column) pairs having a block: `col.surface > layer.bottom`;
    `NearestCol s p C`     `C` is a column of `s` whose centre is nearest to the point `p`;
    `NearestLay L z S`     `S` is a layer among `L` whose centre is nearest to the elevation `z`;
    `s.firstBelow C`       the first layer of `s.layerlist[1:]` whose bottom is below `C.surface`;
    `srcOK`, `tgtOK`       GeoInv (decidable): unique names of the convention's lengths, layer
                           bottoms descending, stored `num_layers` consistent and ≥ 1 (source);
                           names unchanged by `fix_blockname` (target);
    `atmOK s t`            NOT (target atmosphere type 0 and source type 1 or 2).
-/
import PyTough.Model.Mapping
import PyTough.Proofs.MappingRefine2
import PyTough.Proofs.MappingMoreNearest
import PyTough.Proofs.MappingMoreIdentity
import PyTough.Proofs.MappingMoreGen

namespace Props.C19
open Py Model.Mapping

/-! ### concrete geometries used to show that hypotheses are satisfiable -/

/-- two columns, the second with its surface one layer down; three layers below the atmosphere layer -/
def exSrc (atm : Nat) : Geo :=
  { conv := .c0, atm := atm, dmplex := false,
    cols := [⟨[' ', ' ', 'a'], 5, 5, 0, 3, 4, 100⟩, ⟨[' ', ' ', 'b'], 15, 5, -10, 2, 4, 100⟩],
    lays := [⟨[' ', '0'], 0, 0⟩, ⟨[' ', '1'], -10, -5⟩, ⟨[' ', '2'], -20, -15⟩, ⟨[' ', '3'], -30, -25⟩] }

/-- four columns, six thinner layers, naming convention 2 -/
def exTgt (atm : Nat) : Geo :=
  { conv := .c2, atm := atm, dmplex := false,
    cols := [⟨[' ', ' ', '1'], 5/2, 5, 0, 6, 4, 50⟩, ⟨[' ', ' ', '2'], 15/2, 5, 0, 6, 4, 50⟩,
             ⟨[' ', ' ', '3'], 25/2, 5, 0, 6, 4, 50⟩, ⟨[' ', ' ', '4'], 35/2, 5, -5, 5, 4, 50⟩],
    lays := [⟨['a', 't'], 0, 0⟩, ⟨[' ', 'a'], -5, -5/2⟩, ⟨[' ', 'b'], -10, -15/2⟩, ⟨[' ', 'c'], -15, -25/2⟩,
             ⟨[' ', 'd'], -20, -35/2⟩, ⟨[' ', 'e'], -25, -45/2⟩, ⟨[' ', 'f'], -30, -55/2⟩] }

/-- the image of block `k` under a computed block mapping (for the examples) -/
def image (r : Except Exc (Dict Str × Dict Str)) (k : Str) : Option Str :=
  match r with
  | .ok (m, _) => (match dget m k with | .ok v => some v | .error _ => none)
  | .error _ => none

/-! ### the nearest-centre search -/

/-- The executable stand-in for `cKDTree.query` used by the driver satisfies the
    specification assumed of the real one. -/
theorem nearestFirst_is_nearest : IsNearest nearestFirst := Proofs.Mapping.nearestFirst_isNearest

/-! ### totality and existence in the source (7 of the 9 atmosphere combinations)

  PARTIAL: the full statement quantifies over all nine combinations of atmosphere type.
  It is false for source type 1 or 2 onto target type 0 (the code raises KeyError: theorems
  `block_mapping_keyerror_*` below; known finding, deliberately not repaired).  The
  hypothesis `atmOK` excludes exactly these two combinations. -/

/-- `block_mapping` returns; every target block name is a key; every underground target
    block is mapped to a block of the source's `block_name_list` (an underground one); every
    atmosphere target block is mapped to an atmosphere block of the source when the source
    has any (type 0 or 1); every target column is mapped to a source column. -/
theorem block_mapping_total_partial (q : List (Rat × Rat) → Rat × Rat → Nat) (hq : IsNearest q) (s t : Geo)
    (hs : srcOK s = true) (ht : tgtOK t = true) (ha : atmOK s t = true) :
    ∃ m cm tnames snames,
      blockMapping q s t = .ok (m, cm) ∧ t.blockNameList = .ok tnames ∧ s.blockNameList = .ok snames ∧
      (∀ d ∈ tnames, ∃ v, dget m d = .ok v) ∧
      (∀ un, t.underNames = .ok un → ∀ d ∈ un, ∃ v, dget m d = .ok v ∧ v ∈ snames ∧
          ∃ sun, s.underNames = .ok sun ∧ v ∈ sun) ∧
      (∀ an, t.atmNames = .ok an → s.atm ≤ 1 → ∀ d ∈ an, ∃ v, dget m d = .ok v ∧ v ∈ snames ∧
          ∃ san, s.atmNames = .ok san ∧ v ∈ san) ∧
      (∀ c ∈ t.cols, ∃ C ∈ s.cols, dget cm c.name = .ok C.name) :=
  Proofs.Mapping.total_partial q hq s t hs ht ha

example : srcOK (exSrc 1) = true ∧ tgtOK (exTgt 1) = true ∧ atmOK (exSrc 1) (exTgt 1) = true := by decide +kernel
example : srcOK (exSrc 0) = true ∧ tgtOK (exTgt 0) = true ∧ atmOK (exSrc 0) (exTgt 0) = true := by decide +kernel
example : srcOK (exSrc 2) = true ∧ tgtOK (exTgt 1) = true ∧ atmOK (exSrc 2) (exTgt 1) = true := by decide +kernel

/-! ### which block: nearest column, nearest layer, moved down below the surface -/

/-- For every underground target block (layer `l`, column `c`): the image is the block of a
    source column `C` with nearest centre and of the layer `L'`, where `S` is a source layer
    (below the atmosphere layer) with nearest centre and `L'` is `S` itself, or the column's
    first layer below ground exactly when `C`'s surface is at or below the bottom of `S`
    (the block (S, C) would be above the surface); that block exists in the source.
    The column mapping returned alongside maps every target column to a nearest column.
    (PARTIAL only through `atmOK`, as above: in the two excluded combinations nothing is returned.) -/
theorem block_mapping_spec_partial (q : List (Rat × Rat) → Rat × Rat → Nat) (hq : IsNearest q) (s t : Geo)
    (hs : srcOK s = true) (ht : tgtOK t = true) (ha : atmOK s t = true) :
    ∃ m cm, blockMapping q s t = .ok (m, cm) ∧
      (∀ c ∈ t.cols, ∃ C, NearestCol s c.centre C ∧ dget cm c.name = .ok C.name) ∧
      ∀ l c, (l, c) ∈ t.underPairs →
        ∃ C S L', NearestCol s c.centre C ∧ NearestLay (s.lays.drop 1) l.centre S ∧
          (if C.surface ≤ S.bottom then s.firstBelow C = some L' else L' = S) ∧
          (L', C) ∈ s.underPairs ∧
          ∃ d v, blockName t.conv l.name c.name = .ok d ∧ blockName s.conv L'.name C.name = .ok v ∧
            dget m d = .ok v :=
  Proofs.Mapping.spec_partial q hq s t hs ht ha

-- the above-surface correction at work: target block (layer ' a', column 3) lies nearest source column
-- 'b', whose surface (-10) is at the bottom of the nearest layer ' 1': the image is '  b 2'
example : image (blockMapping nearestFirst (exSrc 2) (exTgt 2)) [' ', 'a', ' ', ' ', '3'] = some [' ', ' ', 'b', ' ', '2'] := by decide +kernel
example : image (blockMapping nearestFirst (exSrc 2) (exTgt 2)) [' ', 'a', ' ', ' ', '1'] = some [' ', ' ', 'a', ' ', '1'] := by decide +kernel

/-- Atmosphere blocks.  Target type 0 (then the source is type 0 too): the single atmosphere
    block goes to the source's single atmosphere block.  Target type 1: the block over column
    `c` goes to the source's single atmosphere block (source type 0), else to the block of the
    source's atmosphere layer over a nearest column `C` — the source's atmosphere block there
    when the source is type 1. -/
theorem block_mapping_atmosphere_partial (q : List (Rat × Rat) → Rat × Rat → Nat) (hq : IsNearest q) (s t : Geo)
    (hs : srcOK s = true) (ht : tgtOK t = true) (ha : atmOK s t = true) :
    ∃ m cm g0 s0, blockMapping q s t = .ok (m, cm) ∧ t.lays.head? = some g0 ∧ s.lays.head? = some s0 ∧
      (t.atm = 0 → s.atm = 0 ∧ ∃ d v, t.atmNames = .ok [d] ∧ s.atmNames = .ok [v] ∧ dget m d = .ok v) ∧
      (t.atm = 1 → ∀ c ∈ t.cols, ∃ C, NearestCol s c.centre C ∧
          ∃ d v, blockName t.conv g0.name c.name = .ok d ∧
            blockName s.conv s0.name (if s.atm = 0 then atmColName s.conv else C.name) = .ok v ∧
            dget m d = .ok v) :=
  Proofs.Mapping.atmosphere_partial q hq s t hs ht ha

example : image (blockMapping nearestFirst (exSrc 1) (exTgt 1)) ['a', 't', ' ', ' ', '4'] = some [' ', ' ', 'b', ' ', '0'] := by decide +kernel
example : image (blockMapping nearestFirst (exSrc 0) (exTgt 1)) ['a', 't', ' ', ' ', '4'] = some ['A', 'T', 'M', ' ', '0'] := by decide +kernel

/-! ### identity -/

/-- Mapping a geometry (pairwise distinct column centres and layer centres) onto itself is
    the identity on every block name and every column name — for all three atmosphere types
    (no exclusion: equal types are never one of the failing combinations). -/
theorem block_mapping_identity (q : List (Rat × Rat) → Rat × Rat → Nat) (hq : IsNearest q) (g : Geo)
    (hs : srcOK g = true) (ht : tgtOK g = true) (hd : distinctCentres g = true) :
    ∃ m cm names, blockMapping q g g = .ok (m, cm) ∧ g.blockNameList = .ok names ∧
      (∀ d ∈ names, dget m d = .ok d) ∧ (∀ c ∈ g.cols, dget cm c.name = .ok c.name) :=
  Proofs.Mapping.identity q hq g hs ht hd

example : srcOK (exSrc 0) = true ∧ tgtOK (exSrc 0) = true ∧ distinctCentres (exSrc 0) = true := by decide +kernel
example : srcOK (exTgt 1) = true ∧ tgtOK (exTgt 1) = true ∧ distinctCentres (exTgt 1) = true := by decide +kernel

/-! ### the known defect: the two failing combinations -/

/-- witness: one atmosphere block per column in the source, a single one in the target -/
theorem block_mapping_keyerror_src1_tgt0 : blockMapping nearestFirst (exSrc 1) (exTgt 0) = .error .keyError := by
  decide +kernel

/-- witness: no atmosphere blocks in the source, a single one in the target -/
theorem block_mapping_keyerror_src2_tgt0 : blockMapping nearestFirst (exSrc 2) (exTgt 0) = .error .keyError := by
  decide +kernel

/-- In general: for well-formed geometries, a target with a single atmosphere block and a
    source without one ALWAYS make `block_mapping` raise KeyError (provided no target column
    happens to be called like the atmosphere column): the hypothesis `atmOK` of the theorems
    above excludes nothing that works. -/
theorem block_mapping_keyerror_general (q : List (Rat × Rat) → Rat × Rat → Nat) (hq : IsNearest q) (s t : Geo)
    (hs : srcOK s = true) (ht : tgtOK t = true) (h0 : t.atm = 0) (hsa : s.atm ≠ 0)
    (hnc : ∀ c ∈ t.cols, c.name ≠ atmColName t.conv) :
    blockMapping q s t = .error .keyError :=
  Proofs.Mapping.keyError_general q hq s t hs ht h0 hsa hnc

example : srcOK (exSrc 1) = true ∧ tgtOK (exTgt 0) = true ∧ (exTgt 0).atm = 0 ∧ (exSrc 1).atm ≠ 0 ∧
    ∀ c ∈ (exTgt 0).cols, c.name ≠ atmColName (exTgt 0).conv := by decide +kernel

/-! ### transferring initial conditions (`t2incon.transfer_from`)

  `transferFrom q src s t mapping colmapping` is the new contents of the receiving object:
  a dict from block names to states (`IncVal`: variables, porosity, and a tag standing for the
  attributes `copy()` carries along).  `effectiveMaps` are the mappings used: the ones passed in,
  or those of `block_mapping` when either is empty.  The model is functional, so the clause
  "without altering the source" has no counterpart here; it is checked on the real code by the
  oracle on every run (deep comparison of the source before and after). -/

/-- an initial-conditions object over `exSrc`: two variables per block -/
def exInc (atm : Nat) : Incon :=
  match (exSrc atm).blockNameList with
  | .ok names => (enumFrom 0 names).map (fun p => (p.2, ⟨[(p.1 : Rat), 20], none, some p.1⟩))
  | .error _ => []

/-- Every underground target block receives exactly the state of its mapped source block —
    whenever the call returns; any number of variables; mappings passed in or computed. -/
theorem incon_transfer_underground (q : List (Rat × Rat) → Rat × Rat → Nat) (src : Incon) (s t : Geo)
    (mp cmp : Dict Str) (res : Incon) (h : transferFrom q src s t mp cmp = .ok res) :
    ∃ m cm names na, effectiveMaps q s t mp cmp = .ok (m, cm) ∧ t.blockNameList = .ok names ∧
      t.numAtmBlocks = .ok na ∧
      ∀ blk ∈ names.drop na, ∃ sb v, dget m blk = .ok sb ∧ dget src sb = .ok v ∧ dget res blk = .ok v :=
  Proofs.Mapping.incon_underground q src s t mp cmp res h

example : (transferFrom nearestFirst (exInc 1) (exSrc 1) (exTgt 1) [] []).toBool = true := by decide +kernel
-- the block over target column 4 gets the state of the source's atmosphere block over column 'b' (block number 1)
example : (match transferFrom nearestFirst (exInc 1) (exSrc 1) (exTgt 1) [] [] with
    | .ok res => (dget res ['a', 't', ' ', ' ', '4']).toOption.map (·.vars)
    | .error _ => none) = some [1, 20] := by decide +kernel

/-- Target with a single atmosphere block: it receives the first source state (source type 0:
    the source's own atmosphere block), the average over the source's per-column atmosphere
    blocks (type 1), or the default state `[1.013e5, 20]` (source without atmosphere). -/
theorem incon_transfer_atmosphere_single (q : List (Rat × Rat) → Rat × Rat → Nat) (src : Incon) (s t : Geo)
    (mp cmp : Dict Str) (res : Incon) (ht : tgtOK t = true) (h0 : t.atm = 0)
    (h : transferFrom q src s t mp cmp = .ok res) :
    ∃ atmblk, t.atmNames = .ok [atmblk] ∧
      (s.atm = 0 → ∃ v, firstInc src = .ok v ∧ dget res atmblk = .ok v) ∧
      (s.atm = 1 → ∃ v, atmAverage s src = .ok v ∧ dget res atmblk = .ok v) ∧
      (s.atm ≠ 0 → s.atm ≠ 1 → dget res atmblk = .ok defaultAtm) :=
  Proofs.Mapping.incon_atm_single q src s t mp cmp res ht h0 h

/-- what "average" is: with a state of the same length over every source column, the
    componentwise sum divided by the number of columns, as a fresh object (no porosity) -/
theorem incon_average_value (s : Geo) (src : Incon) (first : IncVal) (vss : List (List Rat))
    (hfirst : firstInc src = .ok first) (hcols : mapE (atmColVars s src) s.cols = .ok vss)
    (hlen : ∀ v ∈ vss, v.length = first.vars.length) (hne : s.cols ≠ []) :
    atmAverage s src = .ok ⟨(vss.foldl (List.zipWith (· + ·)) (List.replicate first.vars.length 0)).map
        (· / (s.cols.length : Rat)), none, none⟩ :=
  Proofs.Mapping.atmAverage_eq s src first vss hfirst hcols hlen hne

-- averaging is reachable only with the mappings passed in (block_mapping itself fails for 1 -> 0):
-- the two atmosphere states [0, 20] and [1, 20] of `exInc 1` average to [1/2, 20]
example : atmAverage (exSrc 1) (exInc 1) = .ok ⟨[1/2, 20], none, none⟩ := by decide +kernel

/-- Target with an atmosphere block over each column: the block over column `c` receives the
    first source state (source type 0), the state of the source's atmosphere block over the
    column `c` is mapped to (type 1), or the default state (source without atmosphere). -/
theorem incon_transfer_atmosphere_percolumn (q : List (Rat × Rat) → Rat × Rat → Nat) (src : Incon) (s t : Geo)
    (mp cmp : Dict Str) (res : Incon) (ht : tgtOK t = true) (h1 : t.atm = 1)
    (h : transferFrom q src s t mp cmp = .ok res) :
    ∃ m cm g0, effectiveMaps q s t mp cmp = .ok (m, cm) ∧ t.lay0 = .ok g0 ∧
      ∀ c ∈ t.cols, ∃ blk, blockName t.conv g0.name c.name = .ok blk ∧
        (s.atm = 0 → ∃ v, firstInc src = .ok v ∧ dget res blk = .ok v) ∧
        (s.atm = 1 → ∃ mc s0 old v, dget cm c.name = .ok mc ∧ s.lay0 = .ok s0 ∧
            blockName s.conv s0.name mc = .ok old ∧ dget src old = .ok v ∧ dget res blk = .ok v) ∧
        (s.atm ≠ 0 → s.atm ≠ 1 → dget res blk = .ok defaultAtm) :=
  Proofs.Mapping.incon_atm_percolumn q src s t mp cmp res ht h1 h

/-- The transfer with computed mappings returns and gives every target block a state, when the
    source object has a state for every source block.  PARTIAL through `atmOK` only: for source
    type 1 or 2 onto target type 0 `block_mapping` raises (known finding) and so does this. -/
theorem incon_transfer_total_partial (q : List (Rat × Rat) → Rat × Rat → Nat) (hq : IsNearest q)
    (src : Incon) (s t : Geo)
    (hs : srcOK s = true) (ht : tgtOK t = true) (ha : atmOK s t = true) (hne : src ≠ [])
    (hcover : ∀ snames, s.blockNameList = .ok snames → ∀ n ∈ snames, ∃ v, dget src n = .ok v) :
    ∃ res tnames, transferFrom q src s t [] [] = .ok res ∧ t.blockNameList = .ok tnames ∧
      ∀ d ∈ tnames, ∃ v, dget res d = .ok v :=
  Proofs.Mapping.incon_total_partial q hq src s t hs ht ha hne hcover

/-! ### ... without altering the source

  For this clause the same method is modelled on an object heap (`transferFromH`): a
  `t2blockincon` is an object with a `block` attribute, `copy()` allocates a new object,
  `self[key] = value` sets `value.block = key` (the only mutation the method performs) and files
  the object under `key`.  `h` is the heap before the call (it contains the source's objects),
  `src` the source `t2incon` (names → object ids). -/

/-- Whenever the call returns: every object that existed before the call — in particular every
    `t2blockincon` of the source — is unchanged, and every object held by the receiving
    `t2incon` is a new one (nothing is shared with the source at the level of these objects;
    `copy()` being shallow, the variable lists are shared — not modelled). -/
theorem incon_transfer_source_unaltered (q : List (Rat × Rat) → Rat × Rat → Nat) (h : Heap) (src : InconH)
    (s t : Geo) (mp cmp : Dict Str) (h' : Heap) (self' : InconH)
    (hr : transferFromH q h src s t mp cmp = .ok (h', self')) :
    h.length ≤ h'.length ∧ (∀ i, i < h.length → h'[i]? = h[i]?) ∧ ∀ p ∈ self', h.length ≤ p.2 :=
  Proofs.Mapping.transferFromH_frame q h src s t mp cmp h' self' hr

/-- The heap model and the functional model are the same function: reading the source
    through the heap (`viewD h src`: name ↦ state of its object), the functional model returns
    exactly the states the heap model files (`viewD h' self'`), and one fails exactly when the
    other does, with the same exception.  So the theorems above describe the object left by
    `transferFromH`, and `incon_transfer_source_unaltered` is about the same call. -/
theorem incon_heap_model_agrees (q : List (Rat × Rat) → Rat × Rat → Nat) (h : Heap) (src : InconH)
    (hvalid : ∀ p ∈ src, p.2 < h.length) (s t : Geo) (mp cmp : Dict Str) :
    match transferFrom q (viewD h src) s t mp cmp with
    | .ok res => ∃ h' self', transferFromH q h src s t mp cmp = .ok (h', self') ∧ viewD h' self' = res
    | .error e => transferFromH q h src s t mp cmp = .error e :=
  Proofs.Mapping.transferFromH_refines q h src hvalid s t mp cmp

/-- the heap and the `t2incon` for `exInc` -/
def exHeap (atm : Nat) : Heap := (exInc atm).map (fun p => ⟨p.1, p.2⟩)
def exSrcInc (atm : Nat) : InconH := (enumFrom 0 (exInc atm)).map (fun x => (x.2.1, x.1))

example : (transferFromH nearestFirst (exHeap 1) (exSrcInc 1) (exSrc 1) (exTgt 1) [] []).toBool = true := by
  decide +kernel
example : (∀ p ∈ exSrcInc 1, p.2 < (exHeap 1).length) ∧ viewD (exHeap 1) (exSrcInc 1) = exInc 1 := by decide +kernel

/-! ### transferring a model (`t2data`): rock types -/

/-- every target block gets the rock type of its mapped source block -/
theorem rocktype_transfer_spec (sr m : Dict Str) (tb rs : List Str) (h : transferRocktypes sr m tb = .ok rs) :
    rs.length = tb.length ∧ ∀ p ∈ tb.zip rs, ∃ sb, dget m p.1 = .ok sb ∧ dget sr sb = .ok p.2 :=
  Proofs.Mapping.rocktypes_spec sr m tb rs h

/-- onto an identical geometry (identity block mapping) every assignment is preserved -/
theorem rocktype_transfer_identity (sr m : Dict Str) (tb : List Str) (rock : Str → Str)
    (hid : ∀ b ∈ tb, dget m b = .ok b) (hsr : ∀ b ∈ tb, dget sr b = .ok (rock b)) :
    transferRocktypes sr m tb = .ok (tb.map rock) :=
  Proofs.Mapping.rocktypes_identity sr m tb rock hid hsr

/-! ### transferring a model (`t2data`): generators onto an identical geometry

  `transferGenerators q gens s t sgridVol tgrid incolFlags top bottom mapping colmapping rename preserve`
  is the new `generatorlist`; each item is (index of the source generator it is a `deepcopy` of,
  name, block, gx, rate) — the attributes the method may change.  Inputs of the model that come
  from other parts of the library: the block volumes of the two grids (`sgridVol`, `tgrid`), and
  which target columns lie inside the source (`incolFlags`).
  `genIdentitySetting`: identical geometry, identity block / column mappings, every column
  inside, unique block names.  `genPlaced`: the generator sits where its name says — its name is
  the block name of (its category, the column of its block); a top generator is on the top block
  of its column, a bottom generator in the bottom layer, any other on a block of the grid with
  the same volume in both grids; a table generator has its `rate` list. -/

/-- Every generator is reproduced item for item (same name, block, gx, rate; everything else
    is a `deepcopy`), for generators at top, bottom and interior blocks, with and without
    tables, with and without renaming, with and without preservation of totals. -/
theorem generator_transfer_identity (q : List (Rat × Rat) → Rat × Rat → Nat) (gens : List Gen) (g : Geo)
    (sgridVol : Dict Rat) (tgrid : List (Str × Rat)) (flags : List Bool) (top bottom : List Str)
    (m cm : Dict Str) (rename preserve : Bool)
    (hset : genIdentitySetting g tgrid flags m cm = true)
    (hgens : ∀ sg ∈ gens, genPlaced g sgridVol tgrid top bottom sg = true) :
    transferGenerators q gens g g sgridVol tgrid flags top bottom m cm rename preserve =
      .ok ((enumFrom 0 gens).map (fun p => ⟨p.1, p.2.name, p.2.block, p.2.gx, p.2.rate⟩)) :=
  Proofs.Mapping.generators_identity q gens g sgridVol tgrid flags top bottom m cm rename preserve hset hgens

/-- hence the total generation is unchanged: the list of (gx, rate) is the same list -/
theorem generator_totals_identity (q : List (Rat × Rat) → Rat × Rat → Nat) (gens : List Gen) (g : Geo)
    (sgridVol : Dict Rat) (tgrid : List (Str × Rat)) (flags : List Bool) (top bottom : List Str)
    (m cm : Dict Str) (rename preserve : Bool)
    (hset : genIdentitySetting g tgrid flags m cm = true)
    (hgens : ∀ sg ∈ gens, genPlaced g sgridVol tgrid top bottom sg = true) :
    ∃ outs, transferGenerators q gens g g sgridVol tgrid flags top bottom m cm rename preserve = .ok outs ∧
      outs.map (fun o => (o.gx, o.rate)) = gens.map (fun sg => (sg.gx, sg.rate)) :=
  Proofs.Mapping.generators_totals_identity q gens g sgridVol tgrid flags top bottom m cm rename preserve hset hgens

/-- the blocks of `exSrc 0`, each of volume 1000, and the identity mappings on them -/
def exGrid : List (Str × Rat) :=
  match (exSrc 0).blockNameList with
  | .ok names => names.map (fun n => (n, 1000))
  | .error _ => []
def exIdMap : Dict Str := exGrid.map (fun b => (b.1, b.1))
def exIdCols : Dict Str := (exSrc 0).cols.map (fun c => (c.name, c.name))
/-- a top generator ('99') on the top block of column 'b' with a rate table, a bottom generator
    ('98') under column 'a', an interior one -/
def exGens : List Gen :=
  [⟨[' ', ' ', 'b', '9', '9'], [' ', ' ', 'b', ' ', '2'], ['M', 'A', 'S', 'S'], some 2, some 5, some [1, 2]⟩,
   ⟨[' ', ' ', 'a', '9', '8'], [' ', ' ', 'a', ' ', '3'], ['H', 'E', 'A', 'T'], some 0, some (-3), some []⟩,
   ⟨[' ', ' ', 'a', 'w', 'l'], [' ', ' ', 'a', ' ', '2'], ['M', 'A', 'S', 'S'], none, some 7, none⟩]

example : genIdentitySetting (exSrc 0) exGrid [true, true] exIdMap exIdCols = true ∧
    ∀ sg ∈ exGens, genPlaced (exSrc 0) exGrid exGrid [['9', '9']] [['9', '8']] sg = true := by decide +kernel

/-! ### `layer_mapping`: the nearest centre, and the first of the nearest (round 3)

  No GeoInv here: the layer structures are ARBITRARY (centres and bottoms in any order, any
  thickness); only needed: the source has a layer below its atmosphere layer (else `np.argmin`
  of an empty array raises) and the target's layer names are distinct (they are dict keys). -/

/-- `s.layer_mapping(t)` returns; the atmosphere layer goes to the atmosphere layer; every other
    target layer `l` goes to the source layer `S = s.layerlist[1 + i]` with
    (nearest) `|S.centre − l.centre| ≤ |X.centre − l.centre|` for EVERY source layer `X` below the
    atmosphere layer, and (tie rule of `np.argmin`) strictly `<` for every such `X` before `S`. -/
theorem layer_mapping_nearest_first (s t : Geo) (g0 s0 : Lay) (grest srest : List Lay)
    (hg : t.lays = g0 :: grest) (hs : s.lays = s0 :: srest) (hne : srest ≠ [])
    (hnd : nodupB (t.lays.map (·.name)) = true) :
    ∃ lm, layerMapping s t = .ok lm ∧ dget lm g0.name = .ok s0.name ∧
      ∀ l ∈ grest, ∃ (i : Nat) (S : Lay), srest[i]? = some S ∧ dget lm l.name = .ok S.name ∧
        (∀ X ∈ srest, absQ (S.centre - l.centre) ≤ absQ (X.centre - l.centre)) ∧
        ∀ (j : Nat) (X : Lay), j < i → srest[j]? = some X → absQ (S.centre - l.centre) < absQ (X.centre - l.centre) := by
  obtain ⟨lm, h1, h2, h3⟩ := Proofs.Mapping.layerMapping_first s t g0 s0 grest srest hg hs hne hnd
  refine ⟨lm, h1, h2, fun l hl => ?_⟩
  obtain ⟨i, S, ⟨a, b, c⟩, d⟩ := h3 l hl
  exact ⟨i, S, a, d, b, c⟩

/-- unordered source layers (centres −25, −5, −15, −5) and a target layer (centre −10) exactly
    half way between two of them -/
def exLaySrc : Geo :=
  { conv := .c0, atm := 2, dmplex := false, cols := [],
    lays := [⟨[' ', '0'], 0, 0⟩, ⟨[' ', '3'], -30, -25⟩, ⟨[' ', '1'], -10, -5⟩, ⟨[' ', '2'], -20, -15⟩, ⟨[' ', '4'], -7, -5⟩] }
def exLayTgt : Geo :=
  { conv := .c0, atm := 2, dmplex := false, cols := [],
    lays := [⟨['a', 't'], 0, 0⟩, ⟨[' ', 'x'], -12, -10⟩, ⟨[' ', 'y'], -100, -50⟩] }

example : exLaySrc.lays.drop 1 ≠ [] ∧ nodupB (exLayTgt.lays.map (·.name)) = true := by decide +kernel
-- the tie between ' 1' (index 1) and ' 2' (index 2) goes to the first; ' 4' (same centre as ' 1') loses too
example : layerMapping exLaySrc exLayTgt =
    .ok [(['a', 't'], [' ', '0']), ([' ', 'x'], [' ', '1']), ([' ', 'y'], [' ', '3'])] := by decide +kernel

/-! ### a concrete nearest-neighbour search instead of the parameter `q` (round 3)

  `nearestIdx pts p` (defined in `Proofs/MappingMoreNearest.lean`, namespace `Model.Mapping`):
  one left-to-right pass over the exact squared distances, keeping the best index so far and
  replacing it only by a STRICTLY nearer point; 0 for an empty set.  It is what the scipy-less
  fallback of `column_mapping` (`np.argmin` of the distances) computes, up to the monotone `sqrt`.
  The theorems above hold for every `q` with `IsNearest q`; instantiated here they carry no
  uninterpreted parameter any more. -/

/-- `nearestIdx` meets the specification assumed of `cKDTree.query` -/
theorem nearestIdx_is_nearest : IsNearest nearestIdx := Proofs.Mapping.nearestIdx_isNearest

/-- more precisely: the point it returns is at minimal distance, and every point before it is
    strictly farther (first minimum) -/
theorem nearestIdx_first_minimum (pts : List (Rat × Rat)) (p : Rat × Rat) (hne : pts ≠ []) :
    ∃ y, pts[nearestIdx pts p]? = some y ∧ (∀ x ∈ pts, sqDist y p ≤ sqDist x p) ∧
      ∀ j w, j < nearestIdx pts p → pts[j]? = some w → sqDist y p < sqDist w p :=
  Proofs.Mapping.nearestIdx_first pts p hne

example : nearestIdx [(0, 0), (3, 0), (1, 0), (1, 2)] (2, 0) = 1 := by decide +kernel
example : nearestIdx [(0, 0), (3, 0), (1, 0), (1, 2)] (2, 0) = nearestFirst [(0, 0), (3, 0), (1, 0), (1, 2)] (2, 0) := by
  decide +kernel

/-- `block_mapping_total_partial` at `nearestIdx` (PARTIAL through `atmOK` only) -/
theorem block_mapping_total_nearestIdx_partial (s t : Geo)
    (hs : srcOK s = true) (ht : tgtOK t = true) (ha : atmOK s t = true) :
    ∃ m cm tnames snames,
      blockMapping nearestIdx s t = .ok (m, cm) ∧ t.blockNameList = .ok tnames ∧ s.blockNameList = .ok snames ∧
      (∀ d ∈ tnames, ∃ v, dget m d = .ok v) ∧
      (∀ un, t.underNames = .ok un → ∀ d ∈ un, ∃ v, dget m d = .ok v ∧ v ∈ snames ∧
          ∃ sun, s.underNames = .ok sun ∧ v ∈ sun) ∧
      (∀ an, t.atmNames = .ok an → s.atm ≤ 1 → ∀ d ∈ an, ∃ v, dget m d = .ok v ∧ v ∈ snames ∧
          ∃ san, s.atmNames = .ok san ∧ v ∈ san) ∧
      (∀ c ∈ t.cols, ∃ C ∈ s.cols, dget cm c.name = .ok C.name) :=
  block_mapping_total_partial nearestIdx nearestIdx_is_nearest s t hs ht ha

/-- `block_mapping_spec_partial` at `nearestIdx` (PARTIAL through `atmOK` only) -/
theorem block_mapping_spec_nearestIdx_partial (s t : Geo)
    (hs : srcOK s = true) (ht : tgtOK t = true) (ha : atmOK s t = true) :
    ∃ m cm, blockMapping nearestIdx s t = .ok (m, cm) ∧
      (∀ c ∈ t.cols, ∃ C, NearestCol s c.centre C ∧ dget cm c.name = .ok C.name) ∧
      ∀ l c, (l, c) ∈ t.underPairs →
        ∃ C S L', NearestCol s c.centre C ∧ NearestLay (s.lays.drop 1) l.centre S ∧
          (if C.surface ≤ S.bottom then s.firstBelow C = some L' else L' = S) ∧
          (L', C) ∈ s.underPairs ∧
          ∃ d v, blockName t.conv l.name c.name = .ok d ∧ blockName s.conv L'.name C.name = .ok v ∧
            dget m d = .ok v :=
  block_mapping_spec_partial nearestIdx nearestIdx_is_nearest s t hs ht ha

/-- `block_mapping_atmosphere_partial` at `nearestIdx` (PARTIAL through `atmOK` only) -/
theorem block_mapping_atmosphere_nearestIdx_partial (s t : Geo)
    (hs : srcOK s = true) (ht : tgtOK t = true) (ha : atmOK s t = true) :
    ∃ m cm g0 s0, blockMapping nearestIdx s t = .ok (m, cm) ∧ t.lays.head? = some g0 ∧ s.lays.head? = some s0 ∧
      (t.atm = 0 → s.atm = 0 ∧ ∃ d v, t.atmNames = .ok [d] ∧ s.atmNames = .ok [v] ∧ dget m d = .ok v) ∧
      (t.atm = 1 → ∀ c ∈ t.cols, ∃ C, NearestCol s c.centre C ∧
          ∃ d v, blockName t.conv g0.name c.name = .ok d ∧
            blockName s.conv s0.name (if s.atm = 0 then atmColName s.conv else C.name) = .ok v ∧
            dget m d = .ok v) :=
  block_mapping_atmosphere_partial nearestIdx nearestIdx_is_nearest s t hs ht ha

/-- `incon_transfer_total_partial` at `nearestIdx` (PARTIAL through `atmOK` only) -/
theorem incon_transfer_total_nearestIdx_partial (src : Incon) (s t : Geo)
    (hs : srcOK s = true) (ht : tgtOK t = true) (ha : atmOK s t = true) (hne : src ≠ [])
    (hcover : ∀ snames, s.blockNameList = .ok snames → ∀ n ∈ snames, ∃ v, dget src n = .ok v) :
    ∃ res tnames, transferFrom nearestIdx src s t [] [] = .ok res ∧ t.blockNameList = .ok tnames ∧
      ∀ d ∈ tnames, ∃ v, dget res d = .ok v :=
  incon_transfer_total_partial nearestIdx nearestIdx_is_nearest src s t hs ht ha hne hcover

/-- `block_mapping_identity` at `nearestIdx` -/
theorem block_mapping_identity_nearestIdx (g : Geo)
    (hs : srcOK g = true) (ht : tgtOK g = true) (hd : distinctCentres g = true) :
    ∃ m cm names, blockMapping nearestIdx g g = .ok (m, cm) ∧ g.blockNameList = .ok names ∧
      (∀ d ∈ names, dget m d = .ok d) ∧ (∀ c ∈ g.cols, dget cm c.name = .ok c.name) :=
  block_mapping_identity nearestIdx nearestIdx_is_nearest g hs ht hd

/-- `block_mapping_keyerror_general` at `nearestIdx` -/
theorem block_mapping_keyerror_nearestIdx (s t : Geo)
    (hs : srcOK s = true) (ht : tgtOK t = true) (h0 : t.atm = 0) (hsa : s.atm ≠ 0)
    (hnc : ∀ c ∈ t.cols, c.name ≠ atmColName t.conv) :
    blockMapping nearestIdx s t = .error .keyError :=
  block_mapping_keyerror_general nearestIdx nearestIdx_is_nearest s t hs ht h0 hsa hnc

-- hypotheses: the same examples as for the parametric theorems (`exSrc`, `exTgt`, `exInc`); the
-- instantiated functions compute:
example : image (blockMapping nearestIdx (exSrc 2) (exTgt 2)) [' ', 'a', ' ', ' ', '3'] = some [' ', ' ', 'b', ' ', '2'] := by decide +kernel
example : (transferFrom nearestIdx (exInc 1) (exSrc 1) (exTgt 1) [] []).toBool = true := by decide +kernel
example : exInc 1 ≠ [] ∧ ∀ snames, (exSrc 1).blockNameList = .ok snames → ∀ n ∈ snames, ∃ v, dget (exInc 1) n = .ok v := by
  refine ⟨by decide +kernel, ?_⟩
  intro snames h n hn
  have e : (exSrc 1).blockNameList = .ok ((exInc 1).map (·.1)) := by decide +kernel
  rw [e] at h; cases h
  have : ∀ n ∈ (exInc 1).map (·.1), (dget (exInc 1) n).toBool = true := by decide +kernel
  have := this n hn
  cases hv : dget (exInc 1) n with
  | ok v => exact ⟨v, rfl⟩
  | error e => rw [hv] at this; cases this

/-! ### identity on equal grids, for every atmosphere combination that returns (round 3)

  `block_mapping_identity` maps a geometry onto ITSELF, so source and target atmosphere types
  coincide (3 of the 9 combinations).  Here `s` and `t` are the same grid — same naming convention,
  columns and layers — with independent atmosphere types and block orders: all 7 combinations
  allowed by `atmOK` (the other two raise: `block_mapping_keyerror_general`). -/

/-- Every underground block and every column is mapped to itself.  Atmosphere blocks:
    single onto single is the identity; the target's block over column `c` (target type 1) keeps
    its name when the source is type 1 (its own atmosphere block there) or type 2 (a name the
    source does not have — as the code does), and goes to the source's single atmosphere block
    when the source is type 0.  PARTIAL through `atmOK` only. -/
theorem block_mapping_identity_same_grid_partial (q : List (Rat × Rat) → Rat × Rat → Nat) (hq : IsNearest q)
    (s t : Geo) (hconv : s.conv = t.conv) (hcols : s.cols = t.cols) (hlays : s.lays = t.lays)
    (hs : srcOK s = true) (ht : tgtOK t = true) (ha : atmOK s t = true) (hd : distinctCentres t = true) :
    ∃ m cm un g0, blockMapping q s t = .ok (m, cm) ∧ t.underNames = .ok un ∧ t.lays.head? = some g0 ∧
      (∀ d ∈ un, dget m d = .ok d) ∧ (∀ c ∈ t.cols, dget cm c.name = .ok c.name) ∧
      (t.atm = 0 → s.atm = 0 ∧ ∃ d, t.atmNames = .ok [d] ∧ s.atmNames = .ok [d] ∧ dget m d = .ok d) ∧
      (t.atm = 1 → ∀ c ∈ t.cols, ∃ d, blockName t.conv g0.name c.name = .ok d ∧
          (s.atm ≠ 0 → dget m d = .ok d) ∧
          (s.atm = 0 → ∃ a, s.atmNames = .ok [a] ∧ dget m d = .ok a)) :=
  Proofs.Mapping.blockMapping_sameGrid q hq s t hconv hcols hlays
    (Proofs.Mapping.srcWF_of s hs) (Proofs.Mapping.tgtWF_of t ht) ha hd

/-- the same at the concrete search `nearestIdx` -/
theorem block_mapping_identity_same_grid_nearestIdx_partial
    (s t : Geo) (hconv : s.conv = t.conv) (hcols : s.cols = t.cols) (hlays : s.lays = t.lays)
    (hs : srcOK s = true) (ht : tgtOK t = true) (ha : atmOK s t = true) (hd : distinctCentres t = true) :
    ∃ m cm un g0, blockMapping nearestIdx s t = .ok (m, cm) ∧ t.underNames = .ok un ∧ t.lays.head? = some g0 ∧
      (∀ d ∈ un, dget m d = .ok d) ∧ (∀ c ∈ t.cols, dget cm c.name = .ok c.name) ∧
      (t.atm = 0 → s.atm = 0 ∧ ∃ d, t.atmNames = .ok [d] ∧ s.atmNames = .ok [d] ∧ dget m d = .ok d) ∧
      (t.atm = 1 → ∀ c ∈ t.cols, ∃ d, blockName t.conv g0.name c.name = .ok d ∧
          (s.atm ≠ 0 → dget m d = .ok d) ∧
          (s.atm = 0 → ∃ a, s.atmNames = .ok [a] ∧ dget m d = .ok a)) :=
  block_mapping_identity_same_grid_partial nearestIdx nearestIdx_is_nearest s t hconv hcols hlays hs ht ha hd

-- the hypotheses hold for all 7 admissible (source type, target type) pairs over `exSrc` ...
example : ∀ p ∈ [(0, 0), (0, 1), (0, 2), (1, 1), (1, 2), (2, 1), (2, 2)],
    srcOK (exSrc p.1) = true ∧ tgtOK (exSrc p.2) = true ∧ atmOK (exSrc p.1) (exSrc p.2) = true ∧
    distinctCentres (exSrc p.2) = true := by decide +kernel
-- ... and the two excluded ones raise
example : blockMapping nearestIdx (exSrc 1) (exSrc 0) = .error .keyError ∧
    blockMapping nearestIdx (exSrc 2) (exSrc 0) = .error .keyError := ⟨by decide +kernel, by decide +kernel⟩
-- source type 0, target type 1: the block over column 'b' goes to the single atmosphere block
example : image (blockMapping nearestIdx (exSrc 0) (exSrc 1)) [' ', ' ', 'b', ' ', '0'] = some ['A', 'T', 'M', ' ', '0'] := by decide +kernel
example : image (blockMapping nearestIdx (exSrc 2) (exSrc 1)) [' ', ' ', 'b', ' ', '0'] = some [' ', ' ', 'b', ' ', '0'] := by decide +kernel

/-! ### transferring generators between DIFFERENT geometries (round 3)

  `generator_transfer_identity` covers identical geometries.  Here: any two geometries, any
  mappings (passed in, or computed by `block_mapping` when either is empty: `effectiveMaps`),
  `rename` and `preserve_totals` on or off — whenever `transfer_generators_from` returns.
  The new `generatorlist` is the concatenation `ls.flatten` of one list per source generator, in
  source order; generator number `i` yields `ls[i]` and every item of it records `src = i`, so
  the statement is by POSITION: source lists with repeated generator names are covered. -/

/-- `[b for b in self.grid.blocklist if mapping[b.name] == k]` (name, volume) -/
def mappedBlocks (m : Dict Str) (k : Str) (tgrid : List (Str × Rat)) : List (Str × Rat) :=
  tgrid.filter (fun b => decide (dget m b.1 = .ok k))

/-- `[c for c in incols if colmapping[c.name] == k]` -/
def mappedCols (cm : Dict Str) (k : Str) (incols : List Col) : List Col :=
  incols.filter (fun c => decide (dget cm c.name = .ok k))

/-- the target columns whose centre lies inside the source geometry (`incolFlags`, an input) -/
def insideCols (t : Geo) (flags : List Bool) : List Col := ((t.cols.zip flags).filter (·.2)).map (·.1)

/-- A source generator that is not a column (top/bottom) generator is moved to the MAPPED blocks:
    it is copied once onto every target block whose image under the block mapping is the
    generator's block — exactly those, in grid order (`p.2.block = p.1.1`,
    `mapping[p.2.block] = sg.block`).  Its `gx`/`rate` are scaled by (target block volume) /
    (source block volume), or / (total volume of the mapped blocks) with `preserve_totals`;
    its name is kept, or with `rename` rebuilt from its category and the new block's column. -/
theorem generator_transfer_interior (q : List (Rat × Rat) → Rat × Rat → Nat) (gens : List Gen) (s t : Geo)
    (sgridVol : Dict Rat) (tgrid : List (Str × Rat)) (flags : List Bool) (top bottom : List Str)
    (mp cmp : Dict Str) (rename preserve : Bool) (outs : List GenOut)
    (h : transferGenerators q gens s t sgridVol tgrid flags top bottom mp cmp rename preserve = .ok outs) :
    ∃ (m cm : Dict Str) (ls : List (List GenOut)), effectiveMaps q s t mp cmp = .ok (m, cm) ∧
      outs = ls.flatten ∧ ls.length = gens.length ∧
      ∀ (i : Nat) (sg : Gen), gens[i]? = some sg → (top ++ bottom).contains (layerName s.conv sg.name) = false →
        ∃ l svol, ls[i]? = some l ∧ dget sgridVol sg.block = .ok svol ∧
          l.length = (mappedBlocks m sg.block tgrid).length ∧
          ∀ p ∈ (mappedBlocks m sg.block tgrid).zip l,
            p.2.src = i ∧ p.2.block = p.1.1 ∧ dget m p.2.block = .ok sg.block ∧
            (if preserve then sumQ ((mappedBlocks m sg.block tgrid).map (·.2)) else svol) ≠ 0 ∧
            scaleGen sg (p.1.2 / (if preserve then sumQ ((mappedBlocks m sg.block tgrid).map (·.2)) else svol))
              = .ok (p.2.gx, p.2.rate) ∧
            (rename = false → p.2.name = sg.name) ∧
            (rename = true → ∃ cat, (if t.conv = s.conv then .ok (layerName s.conv sg.name)
                 else pick3 t.conv [' ', '0'] (layerName s.conv sg.name) : Except Exc Str) = .ok cat ∧
               blockName t.conv cat (columnName t.conv p.1.1) = .ok p.2.name) :=
  Proofs.Mapping.generators_interior q gens s t sgridVol tgrid flags top bottom mp cmp rename preserve outs h

/-- A column generator (its category — the layer part of its name — is listed in `top` or
    `bottom`) is moved to the MAPPED columns: one copy for every target column inside the source
    whose image under the column mapping is the column of the generator's block, in column
    order; the copy sits on the block of that column's top layer (`column_surface_layer`) for a
    top generator, of the bottom layer for a bottom generator; `gx`/`rate` are scaled by (target
    column area) / (source column area), or / (total area of the mapped columns) with
    `preserve_totals`; the name is (category, new column). -/
theorem generator_transfer_column (q : List (Rat × Rat) → Rat × Rat → Nat) (gens : List Gen) (s t : Geo)
    (sgridVol : Dict Rat) (tgrid : List (Str × Rat)) (flags : List Bool) (top bottom : List Str)
    (mp cmp : Dict Str) (rename preserve : Bool) (outs : List GenOut)
    (h : transferGenerators q gens s t sgridVol tgrid flags top bottom mp cmp rename preserve = .ok outs) :
    ∃ (m cm : Dict Str) (ls : List (List GenOut)), effectiveMaps q s t mp cmp = .ok (m, cm) ∧
      outs = ls.flatten ∧ ls.length = gens.length ∧
      ∀ (i : Nat) (sg : Gen), gens[i]? = some sg → (top ++ bottom).contains (layerName s.conv sg.name) = true →
        ∃ l area, ls[i]? = some l ∧
          l.length = (mappedCols cm (columnName s.conv sg.block) (insideCols t flags)).length ∧
          (preserve = true → area = sumQ ((mappedCols cm (columnName s.conv sg.block) (insideCols t flags)).map (·.area))) ∧
          (preserve = false → ∃ C, s.findCol (columnName s.conv sg.block) = .ok C ∧ area = C.area) ∧
          ∀ p ∈ (mappedCols cm (columnName s.conv sg.block) (insideCols t flags)).zip l,
            p.2.src = i ∧ p.1 ∈ t.cols ∧ dget cm p.1.name = .ok (columnName s.conv sg.block) ∧
            area ≠ 0 ∧ scaleGen sg (p.1.area / area) = .ok (p.2.gx, p.2.rate) ∧
            (∃ ln, colGenLayer t top (layerName s.conv sg.name) p.1 = .ok ln ∧
                blockName t.conv ln p.1.name = .ok p.2.block) ∧
            (∃ cat, colGenCategory s t (top ++ bottom) (layerName s.conv sg.name) = .ok cat ∧
                blockName t.conv cat p.1.name = .ok p.2.name) :=
  Proofs.Mapping.generators_column q gens s t sgridVol tgrid flags top bottom mp cmp rename preserve outs h

/-- block volumes: 1000 in `exSrc 2`, 125 in `exTgt 2` -/
def exSVol : Dict Rat := match (exSrc 2).blockNameList with | .ok ns => ns.map (fun n => (n, 1000)) | .error _ => []
def exTGrid : List (Str × Rat) := match (exTgt 2).blockNameList with | .ok ns => ns.map (fun n => (n, 125)) | .error _ => []
/-- two interior generators WITH THE SAME NAME (blocks '  a 2', '  b 3') and a top generator on column 'b' -/
def exGens2 : List Gen :=
  [⟨[' ', ' ', 'a', 'w', 'l'], [' ', ' ', 'a', ' ', '2'], ['M', 'A', 'S', 'S'], none, some 8, none⟩,
   ⟨[' ', ' ', 'a', 'w', 'l'], [' ', ' ', 'b', ' ', '3'], ['M', 'A', 'S', 'S'], none, some 8, none⟩,
   ⟨[' ', ' ', 'b', '9', '9'], [' ', ' ', 'b', ' ', '2'], ['H', 'E', 'A', 'T'], none, some 6, none⟩]

-- the call returns (coarse `exSrc 2` onto fine `exTgt 2`, computed mappings, preserve_totals): (src, block, gx) of the
-- new list: each 'awl' generator lands on the four target blocks mapped to its block with a quarter of gx;
-- the top generator on the top blocks of the two target columns mapped to column 'b' with half of gx
example : (match transferGenerators nearestIdx exGens2 (exSrc 2) (exTgt 2) exSVol exTGrid [true, true, true, true]
      [['9', '9']] [['9', '8']] [] [] false true with
    | .ok outs => outs.map (fun o => (o.src, o.block, o.gx))
    | .error _ => []) =
    [(0, [' ', 'c', ' ', ' ', '1'], some 2), (0, [' ', 'c', ' ', ' ', '2'], some 2),
     (0, [' ', 'd', ' ', ' ', '1'], some 2), (0, [' ', 'd', ' ', ' ', '2'], some 2),
     (1, [' ', 'e', ' ', ' ', '3'], some 2), (1, [' ', 'e', ' ', ' ', '4'], some 2),
     (1, [' ', 'f', ' ', ' ', '3'], some 2), (1, [' ', 'f', ' ', ' ', '4'], some 2),
     (2, [' ', 'a', ' ', ' ', '3'], some 3), (2, [' ', 'b', ' ', ' ', '4'], some 3)] := by decide +kernel
-- and with rename, without preserve_totals
example : (transferGenerators nearestIdx exGens2 (exSrc 2) (exTgt 2) exSVol exTGrid [true, true, true, true]
      [['9', '9']] [['9', '8']] [] [] true false).toBool = true := by decide +kernel

end Props.C19
