/-
  C10 — Geometry stays internally consistent under any sequence of edits.

  The geometry model is `Model/Geo.lean` (heap, primitive edits), `Model/GeoOps.lean` (split, subdivide,
  decompose, refine, reduce, check) and the invariant is `Model/GeoInv.lean`:

    geoInv0 g   heap references valid, the five by-name dictionaries agree with the ordered lists, every node
                knows exactly the columns that use it, every column exactly its connections and neighbours, each
                connection's node pair is a side of both its columns, every column is counter-clockwise with
                positive area
    layersOK g  every column's layer count matches its surface
    namesFresh g  block_name_list / block_connection_name_list are what a fresh recomputation gives
    geoInv g    all of the above;      meshValid g   no missing / extra connection, no orphan node

  The same predicates are evaluated by the compiled driver on every state of every explored history and
  compared, clause by clause, with the Python oracle's verdict on the real object (facet `geo_inv`).
-/
import PyTough.Model.GeoInv
import PyTough.Proofs.GeoNames
import PyTough.Proofs.GeoRigid
import PyTough.Proofs.GeoEdits
import PyTough.Proofs.GeoConn
import PyTough.Proofs.GeoConnDel
import PyTough.Proofs.GeoColumn
import PyTough.Proofs.GeoColumnDel
import PyTough.Proofs.GeoRun
import PyTough.Proofs.GeoLayers
import PyTough.Proofs.GeoRename
import PyTough.Proofs.GeoRefineLayers
import PyTough.Proofs.GeoSnap
import PyTough.Proofs.GeoOrphans
namespace Props.C10
open Model.Geo Model.Geo.Geo Py Proofs.Geo

/-! ### the block and connection name lists are fresh after every operation that recomputes them -/

/-- the two `setup_*` calls produce exactly what a (second) recomputation gives -/
theorem setup_names_fresh (g g' : Geo) (h : g.setupNames = .ok g') : g'.namesFresh = true :=
  setupNames_fresh g g' h

theorem split_column_names_fresh (g g' : Geo) (c n : Name) (h : g.splitColumn c n = .ok (g', true)) :
    g'.namesFresh = true := splitColumn_fresh g g' c n h

theorem rename_column_names_fresh (g g' : Geo) (olds news : List Name) (h : g.renameColumn olds news = .ok g') :
    g'.namesFresh = true := renameColumn_fresh g g' olds news h

theorem rename_layer_names_fresh (g g' : Geo) (olds news : List Name) (h : g.renameLayer olds news = .ok g') :
    g'.namesFresh = true := renameLayer_fresh g g' olds news h

theorem copy_layers_from_names_fresh (g g' : Geo) (ls : List Layer) (h : g.copyLayersFrom ls = .ok g') :
    g'.namesFresh = true := copyLayersFrom_fresh g g' ls h

theorem snap_columns_to_layers_names_fresh (g g' : Geo) (t : Rat) (ht : t > 0) (cols : List Nat)
    (h : g.snapColumnsToLayers t cols = .ok g') : g'.namesFresh = true :=
  snapColumnsToLayers_fresh g g' t ht cols h

theorem snap_columns_to_nearest_layers_names_fresh (g g' : Geo) (cols : List Nat)
    (h : g.snapColumnsToNearestLayers cols = .ok g') : g'.namesFresh = true :=
  snapColumnsToNearestLayers_fresh g g' cols h

theorem refine_layers_names_fresh (g g' : Geo) (layers : List Name) (f : Nat)
    (h : g.refineLayers layers f = .ok g') : g'.namesFresh = true := refineLayers_fresh g g' layers f h

theorem decompose_columns_names_fresh (g g' : Geo) (cols : List Nat) (h : g.decomposeColumns cols = .ok g') :
    g'.namesFresh = true := decomposeColumns_fresh g g' cols h

theorem reduce_names_fresh (g g' : Geo) (cols : List Nat) (h : g.reduce cols = .ok g') :
    g'.namesFresh = true := reduce_fresh g g' cols h

/-- `refine`, whenever it refines (every column involved has 3 or 4 sides; otherwise it prints
    'not supported' and returns without recomputing anything) -/
theorem refine_names_fresh (g g' : Geo) (cols : List Nat) (b : Bisect) (edge : List Nat)
    (h : g.refine cols b edge = .ok g')
    (hs : ∀ p, g.refinePlan (if cols.isEmpty then g.columnlist else cols) b edge = .ok p → p.supported = true) :
    g'.namesFresh = true := refine_fresh g g' cols b edge h hs

/-! ### the bare `add_` / `delete_` operations do NOT refresh the name lists

Two unit squares side by side with one layer (`strip2`, built with the model's own operations) satisfy
the whole invariant; deleting a column keeps the structural part `geoInv0` but leaves both name lists
stale; a following `setup_*` call repairs them.  (Evaluated by the kernel on this one geometry: a
witness, not a universal statement.  The real code behaves the same: known finding
`namelists:blocks@delete_column`.) -/

def nm (c : Char) : Name := [' ', ' ', c]

def strip2 : Except Exc Geo := do
  let g : Geo := { convention := 0, atmosType := 2 }
  let g := g.addNode (nm 'a') (0, 0)
  let g := g.addNode (nm 'b') (1, 0)
  let g := g.addNode (nm 'c') (2, 0)
  let g := g.addNode (nm 'd') (0, 1)
  let g := g.addNode (nm 'e') (1, 1)
  let g := g.addNode (nm 'f') (2, 1)
  let g := g.addLayer { name := [' ', '0'], bottom := 0, centre := 0, top := 0 }
  let g := g.addLayer { name := [' ', '1'], bottom := -1, centre := -1/2, top := 0 }
  let g ← g.addColumn (nm 'a') [0, 1, 4, 3] none (some 0) 1
  let g ← g.addColumn (nm 'b') [1, 2, 5, 4] none (some 0) 1
  let g := g.addConnection 0 1
  g.setupNames

theorem strip2_satisfies_invariant : strip2.map (fun g => g.geoInv && g.meshValid) = .ok true := by
  decide +kernel

theorem raw_edits_leave_indices_stale :
    (strip2 >>= fun g => g.deleteColumn (nm 'b')).map (fun g => (g.geoInv0, g.layersOK, g.namesFresh))
      = .ok (true, true, false) ∧
    (strip2 >>= fun g => g.deleteColumn (nm 'b') >>= Geo.setupNames).map Geo.geoInv = .ok true := by
  constructor <;> decide +kernel

/-! ### primitive edits

`add_node`, `delete_node` (of a node no column uses), `add_well`, `delete_well` preserve the whole invariant;
`add_layer` and `delete_layer` preserve its structural part (what they do not refresh is the known finding
above).  `add_connection` / `delete_connection` / `add_column` / `delete_column` preserve the structural part too: all ten
primitive edits are covered. -/

theorem add_node_preserves (g : Geo) (name : Name) (pos : Pt) (h : g.geoInv = true) :
    (g.addNode name pos).geoInv = true := addNode_geoInv g name pos h

theorem delete_node_preserves (g g' : Geo) (name : Name) (hd : g.deleteNode name = .ok g')
    (hunused : ∀ i, g.nodeD.get? name = some i → ∀ c ∈ g.columnlist, i ∉ (g.col c).nodes)
    (h : g.geoInv = true) : g'.geoInv = true := deleteNode_geoInv g g' name hd hunused h

theorem add_well_preserves (g : Geo) (w : Well) (h : g.geoInv = true) : (g.addWell w).geoInv = true :=
  addWell_geoInv g w h

theorem delete_well_preserves (g g' : Geo) (name : Name) (hd : g.deleteWell name = .ok g') (h : g.geoInv = true) :
    g'.geoInv = true := deleteWell_geoInv g g' name hd h

theorem add_layer_preserves_structure (g : Geo) (l : Layer) (h : g.geoInv0 = true) :
    (g.addLayer l).geoInv0 = true := addLayer_geoInv0 g l h

theorem delete_layer_preserves_structure (g g' : Geo) (name : Name) (hd : g.deleteLayer name = .ok g')
    (h : g.geoInv0 = true) : g'.geoInv0 = true := deleteLayer_geoInv0 g g' name hd h

/-- `add_connection` between two different, not yet joined columns of the geometry that share a side
    (`AddConnPre`): registries, both columns' connection sets, both neighbour sets and the connection's node pair
    are all right afterwards (the connection name list is not refreshed: known finding) -/
theorem add_connection_preserves_structure (g : Geo) (c0 c1 : Nat) (pre : AddConnPre g c0 c1)
    (h : g.geoInv0 = true) : (g.addConnection c0 c1).geoInv0 = true := addConnection_geoInv0 g c0 c1 pre h

/-- `delete_connection`: the connection leaves the dictionary, the list and both columns' connection sets, and
    the two columns stop being neighbours exactly when no other connection joins them -/
theorem delete_connection_preserves_structure (g g' : Geo) (names : Name × Name)
    (hd : g.deleteConnection names = .ok g') (h : g.geoInv0 = true) : g'.geoInv0 = true :=
  deleteConnection_geoInv0 g g' names hd h

/-- `add_column(column(name, nodes, centre, surface))` with a new name, nodes of the geometry and a
    non-degenerate polygon, in either orientation (the constructor reverses a clockwise node list: reversing
    negates the shoelace sum): every node of the column learns about it, nothing else changes -/
theorem add_column_preserves_structure (g g' : Geo) (name : Name) (nodes : List Nat) (centre : Option Pt)
    (surface : Option Rat) (nl : Int) (hd : g.addColumn name nodes centre surface nl = .ok g')
    (hfresh : g.columnD.contains name = false) (hnodes : ∀ n ∈ nodes, n ∈ g.nodelist)
    (harea : polygonArea (g.polygon nodes) ≠ 0) (h : g.geoInv0 = true) : g'.geoInv0 = true :=
  addColumn_geoInv0 g g' name nodes centre surface nl hd hfresh hnodes harea h

/-- `delete_column(colname)`, cascade included: the column's connections are deleted one by one (each as in
    `delete_connection`), after which its neighbour set is empty, its nodes forget it, dictionary and list lose it -/
theorem delete_column_preserves_structure (g g' : Geo) (name : Name) (hd : g.deleteColumn name = .ok g')
    (h : g.geoInv0 = true) : g'.geoInv0 = true := deleteColumn_geoInv0 g g' name hd h

-- non-vacuity: delete a column of the strip, then add it back with its nodes listed clockwise
example : (strip2 >>= fun g => g.deleteColumn (nm 'b') >>= fun g =>
    g.addColumn (nm 'c') [4, 5, 2, 1] none (some 0) 1).map (fun g => (g.geoInv0, (g.col 2).nodes)) =
      .ok (true, [1, 2, 5, 4]) := by decide +kernel

-- non-vacuity: on the two-column strip, delete the connection and add it again (in the other direction)
example : (strip2 >>= fun g => g.deleteConnection (nm 'a', nm 'b')).map
    (fun g => (g.geoInv0, g.joined 0 1, g.addConnPreB 1 0)) = .ok (true, false, true) := by
  decide +kernel
example : (strip2 >>= fun g => g.deleteConnection (nm 'a', nm 'b')).map
    (fun g => (g.addConnection 1 0).geoInv0 && (g.addConnection 1 0).meshValid) = .ok true := by decide +kernel

-- non-vacuity: adding an (orphan) node and deleting it again on the two-column strip
example : (strip2 >>= fun g => (g.addNode (nm 'z') (5, 5)).deleteNode (nm 'z')).map Geo.geoInv = .ok true := by
  decide +kernel

/-! ### histories

`Edit` (Model/GeoInv.lean) lists the primitive edits with the arguments a caller gives (objects by name);
`g.editOK e` says, decidably, that the request is sensible on `g` (a node is deleted only when no column uses it;
a new column has a new name, nodes of the geometry and a non-degenerate polygon; a new connection joins two
unconnected columns that share a side); `g.run es` applies a history, checking `editOK` at each step. -/

/-- **After any sequence of primitive edits** — adding and deleting nodes, columns (with the cascade over their
    connections), connections, layers and wells, translating, recomputing the name lists —, each sensible at the
    moment it is applied: the by-name lookups and ordered lists agree, each node knows exactly the columns that use
    it, each column exactly its connections and neighbours, each connection's two nodes are a side of both its
    columns, and every column is counter-clockwise with positive area. -/
theorem edit_histories_preserve_structure (es : List Edit) (g g' : Geo) (hrun : g.run es = .ok g')
    (h : g.geoInv0 = true) : g'.geoInv0 = true := run_geoInv0 es g g' hrun h

/-- …and when the history ends with the two `setup_*` calls, the block and connection name lists are fresh too -/
theorem edit_history_then_setup_names (es : List Edit) (g g' : Geo)
    (hrun : g.run (es ++ [Edit.setupNames]) = .ok g') (h : g.geoInv0 = true) :
    g'.geoInv0 = true ∧ g'.namesFresh = true := run_then_setup_fresh es g g' hrun h

-- non-vacuity: a seven-step history on the two-column strip that is accepted at every step
example : (strip2 >>= fun g => g.run
    [.deleteConnection (nm 'a') (nm 'b'), .addNode (nm 'z') (3, 1/2), .addColumn (nm 'c') [nm 'c', nm 'z', nm 'f'] none (some 0) 1,
     .addConnection (nm 'b') (nm 'a'), .addConnection (nm 'b') (nm 'c'), .translate 1 2 3 false, .deleteColumn (nm 'a'),
     .setupNames]).map (fun g => (g.geoInv0, g.namesFresh, g.columnlist.length, g.connlist.length)) = .ok (true, true, 2, 1) := by
  decide +kernel

/-! ### renaming, copying layers: the whole invariant -/

/-- `rename_column(old, new)` to a name that no other column has: the column dictionary is re-keyed in place, the
    connection dictionary is rebuilt under the new names (its keys stay distinct), the name lists are recomputed -/
theorem rename_column_preserves (g g' : Geo) (old new : Name) (hd : g.renameColumn [old] [new] = .ok g')
    (hnew : g.columnD.contains new = false ∨ new = old) (h : g.geoInv = true) : g'.geoInv = true :=
  renameColumn_geoInv g g' old new hd hnew h

theorem rename_layer_preserves (g g' : Geo) (old new : Name) (hd : g.renameLayer [old] [new] = .ok g')
    (hnew : g.layerD.contains new = false ∨ new = old) (h : g.geoInv = true) : g'.geoInv = true :=
  renameLayer_geoInv g g' old new hd hnew h

/-- `copy_layers_from(geo)` needs only the structural invariant and RESTORES the rest: every column's layer count is
    recomputed from its surface and the name lists from scratch (so it also repairs what a bare `add_layer` /
    `delete_layer` left stale) -/
theorem copy_layers_from_establishes_invariant (g g' : Geo) (layers : List Layer)
    (hc : g.copyLayersFrom layers = .ok g') (h : g.geoInv0 = true) : g'.geoInv = true :=
  copyLayersFrom_geoInv g g' layers hc h

/-- `refine_layers(layers, factor)` likewise needs only the structural invariant and re-establishes layer counts and
    name lists — PARTIAL: under `NoAtmNameClash`, i.e. provided the atmosphere layer's old name, which is put back
    after all layers have been renamed in sequence, is not one of the freshly generated names.  Without that
    hypothesis the statement is false, in the model (witness below) and in the code (known finding
    `registry:dup-name@refine_layers:atm-name-clash`, e.g. the shipped g4.dat whose atmosphere layer is ' 1'). -/
theorem refine_layers_establishes_invariant_partial (g g' : Geo) (layers : List Name) (f : Nat)
    (hr : g.refineLayers layers f = .ok g')
    (hno : ∀ g1 atm, g.refineLayersStack layers f = .ok (g1, atm) → NoAtmNameClash g1 atm)
    (h : g.geoInv0 = true) : g'.geoInv = true := refineLayers_geoInv g g' layers f hr hno h

-- the hypothesis is met on the strip (atmosphere layer ' 0') …
example : (strip2 >>= fun g => g.refineLayers [] 2).map (fun g => (g.geoInv, g.layerlist.length)) = .ok (true, 3) := by
  decide +kernel
-- … and its negation is a real failure: rename the atmosphere layer to ' 1' first
example : (strip2 >>= fun g => g.renameLayer [[' ', '0']] [[' ', '9']] >>= fun g =>
    g.renameLayer [[' ', '1']] [[' ', '0']] >>= fun g => g.renameLayer [[' ', '9']] [[' ', '1']] >>= fun g =>
    g.refineLayers [] 2).map (fun g => (g.registriesOK, g.layerlist.map fun l => (g.lay l).name)) =
    .ok (false, [[' ', '1'], [' ', '1'], [' ', '2']]) := by decide +kernel

example : (strip2 >>= fun g => g.renameColumn [nm 'a'] [nm 'q'] >>= fun g =>
    g.renameLayer [[' ', '1']] [[' ', '7']] >>= fun g =>
    g.copyLayersFrom [{ name := [' ', '0'], bottom := 0, centre := 0, top := 0 },
                      { name := [' ', '1'], bottom := -2, centre := -1, top := 0 },
                      { name := [' ', '2'], bottom := -3, centre := -5/2, top := -2 }]).map
      (fun g => (g.geoInv, g.connD.map (·.1), g.blockNames.length)) =
    .ok (true, [(nm 'q', nm 'b')], 4) := by decide +kernel

/-! ### snapping surfaces, `identify_neighbours` -/

/-- `snap_columns_to_layers` / `snap_columns_to_nearest_layers` change nothing but the surfaces and layer counts of
    the selected columns: the structural invariant is kept (and the name lists are fresh afterwards, see above).
    That the layer count still matches the snapped surface is NOT proved (it needs the layer stack to be ordered). -/
theorem snap_columns_to_layers_preserves_structure (g g' : Geo) (t : Rat) (cols : List Nat)
    (hs : g.snapColumnsToLayers t cols = .ok g') (h : g.geoInv0 = true) : g'.geoInv0 = true :=
  snapColumnsToLayers_struct g g' t cols hs h

theorem snap_columns_to_nearest_layers_preserves_structure (g g' : Geo) (cols : List Nat)
    (hs : g.snapColumnsToNearestLayers cols = .ok g') (h : g.geoInv0 = true) : g'.geoInv0 = true :=
  snapColumnsToNearestLayers_struct g g' cols hs h

/-- in a consistent geometry `identify_neighbours()` is the identity: `add_connection` / `delete_connection` keep
    the neighbour sets exact, there is nothing left for it to add -/
theorem identify_neighbours_identity (g : Geo) (h : g.geoInv0 = true) : g.identifyNeighbours = g :=
  identifyNeighbours_eq g h

/-- `delete_orphans()`: every node with an empty column set is used by no column (that is the invariant), so they
    are deleted one by one as in `delete_node`: the whole invariant is kept -/
theorem delete_orphans_preserves (g g' : Geo) (hd : g.deleteOrphans = .ok g') (h : g.geoInv = true) :
    g'.geoInv = true := deleteOrphans_geoInv g g' hd h

/-! ### translating and rotating preserve the whole invariant -/

/-- `translate(shift, wells)`: every clause of the invariant survives (positions, centres, surfaces and
    layer elevations all move together; areas and orientation by translation invariance of the shoelace sum) -/
theorem translate_preserves (g : Geo) (dx dy dz : Rat) (wells : Bool) (h : g.geoInv = true) :
    (g.translate dx dy dz wells).geoInv = true ∧ (g.translate dx dy dz wells).meshValid = g.meshValid :=
  ⟨translate_geoInv g dx dy dz wells h, translate_meshValid g dx dy dz wells⟩

/-- `rotate(angle, centre, wells)` for any angle (given by its cosine and sine, `cs² + sn² = 1`) about
    any centre, or about the grid centre when none is given: orientation is preserved because the
    shoelace sum is multiplied by `cs² + sn² = 1 > 0` -/
theorem rotate_preserves (g g' : Geo) (cs sn : Rat) (centre : Option Pt) (wells : Bool)
    (hrot : g.rotate cs sn centre wells = .ok g') (hunit : cs * cs + sn * sn = 1) (h : g.geoInv = true) :
    g'.geoInv = true := rotate_geoInv g g' cs sn centre wells hrot hunit h

-- non-vacuity: a 3-4-5 rotation of the two-column strip
example : (strip2 >>= fun g => g.rotate (3/5) (4/5) none false).map Geo.geoInv = .ok true := by decide +kernel
example : ((3 : Rat)/5) * (3/5) + (4/5) * (4/5) = 1 := by decide +kernel

end Props.C10
