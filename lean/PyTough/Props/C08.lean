/-
  C08 — TOUGH2 grid stays internally consistent under any sequence of edits.

  Model: `Model/Grid.lean` (`World`, `Op`, `step`, `run`); invariant and preconditions:
  `Model/GridInv.lean` (`Inv`, `pre`, `finding`).  Proofs: `Proofs/Grid*.lean`.
-/
import PyTough.Proofs.GridSpec
import PyTough.Proofs.GridEmbed
import PyTough.Proofs.GridCheck
namespace Props.C08
open Py Model Model.Grid Model.Grid.World

/-! ### the property's clauses, in its own words -/

/-- "the grid's by-name lookups and ordered lists describe the same set of objects with unique
    names, every connection joins two blocks that are in the grid and is found under the pair of
    their current names, each block's record of its connections is exactly the set of connections
    that mention it, and every block's rock type is one registered in the grid" -/
structure Consistent (w : World) : Prop where
  rock_same_objects : ∀ r, r ∈ w.rocktypelist ↔ ∃ n, dget w.rocktype n = some r
  rock_key_is_name : ∀ n r, dget w.rocktype n = some r → w.rname r = n
  rock_names_unique : ∀ r ∈ w.rocktypelist, ∀ r' ∈ w.rocktypelist, w.rname r = w.rname r' → r = r'
  rock_listed_once : w.rocktypelist.Nodup
  block_same_objects : ∀ b, b ∈ w.blocklist ↔ ∃ n, dget w.block n = some b
  block_key_is_name : ∀ n b, dget w.block n = some b → w.bname b = n
  block_names_unique : ∀ b ∈ w.blocklist, ∀ b' ∈ w.blocklist, w.bname b = w.bname b' → b = b'
  block_listed_once : w.blocklist.Nodup
  con_same_objects : ∀ c, c ∈ w.connectionlist ↔ ∃ k, dget w.connection k = some c
  con_listed_once : w.connectionlist.Nodup
  con_joins_grid_blocks : ∀ c ∈ w.connectionlist, (w.cn c).b0 ∈ w.blocklist ∧ (w.cn c).b1 ∈ w.blocklist
  con_under_current_names : ∀ c ∈ w.connectionlist,
    dget w.connection (w.bname (w.cn c).b0, w.bname (w.cn c).b1) = some c
  con_key_is_current_names : ∀ k c, dget w.connection k = some c →
    k = (w.bname (w.cn c).b0, w.bname (w.cn c).b1)
  block_connection_record : ∀ b ∈ w.blocklist, ∀ k, k ∈ (w.bk b).conn ↔
    ∃ c ∈ w.connectionlist, (w.bname (w.cn c).b0, w.bname (w.cn c).b1) = k ∧ ((w.cn c).b0 = b ∨ (w.cn c).b1 = b)
  rock_registered : ∀ b ∈ w.blocklist, (w.bk b).rock ∈ w.rocktypelist

theorem consistent_of_inv {w : World} (h : Grid.Inv w) : Consistent w where
  rock_same_objects r := ⟨fun hr => ⟨_, h.rd_complete r hr⟩, fun ⟨n, hn⟩ => (h.rd_sound n r hn).1⟩
  rock_key_is_name n r hn := (h.rd_sound n r hn).2
  rock_names_unique _ hr _ hr' e := h.rockInv.name_inj hr hr' e
  rock_listed_once := h.rl_nodup
  block_same_objects b := ⟨fun hb => ⟨_, h.bd_complete b hb⟩, fun ⟨n, hn⟩ => (h.bd_sound n b hn).1⟩
  block_key_is_name n b hn := (h.bd_sound n b hn).2
  block_names_unique _ hb _ hb' e := h.blockInv.name_inj hb hb' e
  block_listed_once := h.bl_nodup
  con_same_objects c := ⟨fun hc => ⟨_, h.cd_complete c hc⟩, fun ⟨k, hk⟩ => (h.cd_sound k c hk).1⟩
  con_listed_once := h.cl_nodup
  con_joins_grid_blocks c hc := ⟨(h.c_ends c hc).1, (h.c_ends c hc).2.1⟩
  con_under_current_names c hc := h.cd_complete c hc
  con_key_is_current_names k c hk := ((h.cd_sound k c hk).2).symm
  block_connection_record := h.conn_iff
  rock_registered := h.b_rock

/-- the executable check that the driver evaluates on every explored state (reply field `I=`,
    compared by the harness with the identity reading of the property on the real grid) is
    exactly the invariant -/
theorem checkInv_iff (w : World) : checkInv w = true ↔ Grid.Inv w := Proofs.Grid.checkInv_iff w

/-! ### the invariant is inductive -/

theorem inv_empty : Grid.Inv World.empty := Proofs.Grid.inv_empty

/-- **inv_step.**  Every operation of the edit alphabet (`Model.Grid.Op`: add/delete block,
    connection, rock type; rename_rocktype; clean/sort_rocktypes; demote_block; reorder;
    rename_blocks; minc; grid addition; embed; re-adding objects) applied within its precondition
    `pre` (Model/GridInv.lean: no argument misuse, none of the known findings F1–F3) leaves the
    invariant true — whether the call returns or raises. -/
theorem inv_step {w : World} (hI : Grid.Inv w) (op : Op) (hpre : pre w op = true) : Grid.Inv (step w op).w :=
  Proofs.Grid.inv_step hI op hpre

/-- every operation of a history is applied within its precondition -/
def PreAll : World → List Op → Prop
  | _, [] => True
  | w, op :: r => pre w op = true ∧ PreAll (step w op).w r

instance instDecPreAll : (w : World) → (ops : List Op) → Decidable (PreAll w ops)
  | _, [] => isTrue trivial
  | w, op :: r =>
    have := instDecPreAll (step w op).w r
    show Decidable (pre w op = true ∧ PreAll (step w op).w r) from inferInstance

/-- **inv_run**: by induction over any operation list — every reachable state is consistent. -/
theorem inv_run {w : World} (hI : Grid.Inv w) (ops : List Op) (h : PreAll w ops) : Grid.Inv (run w ops) := by
  induction ops generalizing w with
  | nil => exact hI
  | cons op r ih => exact ih (inv_step hI op h.1) h.2

/-- **inv_fromgeo.**  A grid built from scratch by constructor-and-add calls — one `add_rocktype`,
    `add_block`, `add_connection` per object, which is what `fromgeo` does and how the harness brings
    the model to the state the real `fromgeo` produced (every such call is checked to be within `pre`
    on every run) — is consistent. -/
theorem inv_fromgeo (s : GridSpec) (h : PreAll World.empty (specOps s)) : Consistent (run World.empty (specOps s)) :=
  consistent_of_inv (inv_run inv_empty _ h)

example : PreAll World.empty (specOps ⟨[(['d'], 1)], [(['A'], ['d'], 1, none), (['B'], ['d'], 2, none)],
    [(0, 1, ⟨3, 1, 1, 1, some (-1), none, none⟩)]⟩) := by decide

/-- the property: after any sequence of (valid) edits from the empty grid, the grid is consistent -/
theorem consistent_after_any_history (ops : List Op) (h : PreAll World.empty ops) :
    Consistent (run World.empty ops) :=
  consistent_of_inv (inv_run inv_empty ops h)

example : PreAll World.empty [.addRocktype ['r'] 1, .addBlock ['A'] ['r'] 1 none, .addBlock ['B'] ['r'] 1 none,
    .addConnection ['A'] ['B'] ⟨1, 1, 1, 1, none, none, none⟩, .deleteBlock ['A'], .readdBlock ['A'], .cleanRocktypes] := by decide
-- a history with a grid addition and an embedding (second grids built from recipes)
example : PreAll World.empty [.addRocktype ['r'] 1, .addBlock ['A'] ['r'] 8 none,
    .addGrid ⟨[(['s'], 2)], [(['B'], ['s'], 1, none), (['C'], ['s'], 1, none)], [(0, 1, ⟨1, 1, 1, 1, none, none, none⟩)]⟩ true,
    .embed ⟨[(['t'], 3)], [(['D'], ['t'], 1, none)], []⟩ ['A'] ['D'] ⟨1, 1, 1, 1, none, none, none⟩] := by decide +kernel

/-! ### renaming with a one-to-one map loses no block -/

/-- **rename_loses_no_block.**  Let `m1` be the map `rename_blocks` really applies (the argument,
    after `fix_block_mapping` when requested).  If the renamed names of the grid's blocks are still
    distinct — `m1` is one-to-one on the current names and hits no unrenamed block; swaps and
    cycles included — then the call returns normally, the block list is the same objects in the
    same order, their names are the images, the lookup has exactly the new names, each reaching
    its block, and every connection is found under the pair of new names. -/
theorem rename_loses_no_block {w : World} (hI : Grid.Inv w) (m m1 : Dict Name Name) (fix : Bool)
    (hm : effectiveMap m fix = some m1)
    (hnd : (w.blocklist.map fun b => mapName m1 (w.bname b)).Nodup) :
    let o := step w (.renameBlocks m fix)
    o.exc = none ∧ o.w.blocklist = w.blocklist ∧
    o.w.blocklist.map o.w.bname = w.blocklist.map (fun b => mapName m1 (w.bname b)) ∧
    (∀ n b, dget o.w.block n = some b ↔ b ∈ w.blocklist ∧ mapName m1 (w.bname b) = n) ∧
    (∀ k c, dget o.w.connection k = some c ↔ c ∈ w.connectionlist ∧ Proofs.Grid.mapKey m1 (w.ckey c) = k) := by
  intro o
  have ho : o = { w := rebuildConnection (rebuildBlock (renameLoop m1 w w.blocklist)) } := Proofs.Grid.renameBlocks_eq hm
  obtain ⟨f1, _, f3, f4, f5, _⟩ := Proofs.Grid.renameWorld_facts hI m1 hnd
  rw [ho]
  refine ⟨rfl, f1, ?_, f4, f5⟩
  show (rebuildConnection (rebuildBlock (renameLoop m1 w w.blocklist))).blocklist.map _ = _
  rw [f1]
  exact List.map_congr_left f3

/-- and the invariant holds afterwards (instance of `inv_step_core`) -/
theorem rename_keeps_inv {w : World} (hI : Grid.Inv w) (m : Dict Name Name) (fix : Bool)
    (hpre : pre w (.renameBlocks m fix) = true) : Grid.Inv (step w (.renameBlocks m fix)).w :=
  inv_step hI _ hpre

namespace Examples
def A : Name := ['A','A',' ',' ','1']
def B : Name := ['B','B',' ',' ','1']
def C : Name := ['C','C',' ',' ','1']
def r1 : Name := ['r','1',' ',' ',' ']
def r2 : Name := ['r','2',' ',' ',' ']
def pay : ConPay := ⟨1, 2, 3, 4, some (-1), none, none⟩
/-- rock type `r1`, blocks `A B C`, connections `A-B`, `B-C` -/
def base : List Op :=
  [.addRocktype r1 1, .addBlock A r1 1 none, .addBlock B r1 2 none, .addBlock C r1 4 none,
   .addConnection A B pay, .addConnection B C pay]
def w0 : World := run World.empty base

example : PreAll World.empty base := by decide
example : checkInv w0 = true := by decide

-- a swap and a 3-cycle satisfy the hypotheses of `rename_loses_no_block` and `pre`
example : pre w0 (.renameBlocks [(A, B), (B, A)] true) = true := by decide
example : pre w0 (.renameBlocks [(A, B), (B, C), (C, A)] false) = true := by decide
example : let o := step w0 (.renameBlocks [(A, B), (B, A)] true)
    o.w.blocklist.map o.w.bname = [B, A, C] ∧ dget o.w.block A = some 1 ∧ dget o.w.block B = some 0 ∧
    dget o.w.connection (B, A) = some 0 ∧ dget o.w.connection (A, C) = some 1 := by decide
example : let o := step w0 (.renameBlocks [(A, B), (B, C), (C, A)] false)
    o.w.blocklist.map o.w.bname = [B, C, A] ∧ dget o.w.block A = some 2 ∧ dget o.w.block B = some 0 ∧
    dget o.w.block C = some 1 := by decide
-- a map that collides with an unrenamed block is outside `pre` (and really loses a block)
example : pre w0 (.renameBlocks [(A, B)] true) = false := by decide
example : dget (step w0 (.renameBlocks [(A, B)] true)).w.block A = none ∧
    (step w0 (.renameBlocks [(A, B)] true)).w.blocklist.map (step w0 (.renameBlocks [(A, B)] true)).w.bname = [B, B, C] := by decide

/-! ### the three known findings: the current code really leaves the invariant false
    (replayed on the real code by the harness corpus: F1-…, F2-…, F3-…) -/

/-- F1: `add_block` over a name that has connections -/
theorem F1_add_block_replaces_connected_block :
    finding w0 (.addBlock A r1 8 none) = some .f1 ∧ pre w0 (.addBlock A r1 8 none) = false ∧
    ¬ Grid.Inv (step w0 (.addBlock A r1 8 none)).w := by
  refine ⟨by decide, by decide, ?_⟩
  intro h
  have := (h.c_ends 0 (by decide)).1
  revert this; decide

/-- F2: `add_rocktype` over a name that blocks use -/
theorem F2_rocktype_replaced_while_in_use :
    finding w0 (.addRocktype r1 2) = some .f2 ∧ pre w0 (.addRocktype r1 2) = false ∧
    ¬ Grid.Inv (step w0 (.addRocktype r1 2)).w := by
  refine ⟨by decide, by decide, ?_⟩
  intro h
  have := h.b_rock 0 (by decide)
  revert this; decide

/-- … which becomes visible by name at the next `rename_rocktype`: the block's rock type name is
    then not a key of `grid.rocktype` -/
example : let w := run w0 [.addRocktype r1 2, .renameRocktype r1 r2]
    w.rname (w.bk 0).rock = r1 ∧ dget w.rocktype r1 = none := by decide

/-- F3: `delete_rocktype` of a rock type that blocks use -/
theorem F3_delete_rocktype_in_use :
    finding w0 (.deleteRocktype r1) = some .f3 ∧ pre w0 (.deleteRocktype r1) = false ∧
    ¬ Grid.Inv (step w0 (.deleteRocktype r1)).w := by
  refine ⟨by decide, by decide, ?_⟩
  intro h
  have := h.b_rock 0 (by decide)
  revert this; decide

end Examples

/-! ### adding and embedding grids

`grid + other` and `grid.embed(sub, connection)` take a second grid object.  `inv_step` covers the
operations `.addGrid` / `.embed`, whose second grid is built from a recipe with the public API in the
same heap.  The two theorems below are about the methods themselves (`World.addGrids`,
`World.embed`) for *any* two grids that live in one heap. -/

/-- **Grid addition.**  If both operands are consistent, share no object and no block name (a common
    block name is known finding F1 / argument misuse), and every rock type of the first operand whose
    name also occurs in the second is used by no block of the first (else: known finding F2), then
    `g1 + g2` returns a consistent grid whose blocks and connections are exactly those of the operands;
    no object is modified. -/
theorem grid_addition_consistent {w : World} {g1 g2 : Grid}
    (h1 : Grid.Inv (w.withGrid g1)) (h2 : Grid.Inv (w.withGrid g2))
    (oR : ∀ x ∈ g1.rocktypelist, x ∉ g2.rocktypelist) (oB : ∀ x ∈ g1.blocklist, x ∉ g2.blocklist)
    (oC : ∀ x ∈ g1.connectionlist, x ∉ g2.connectionlist)
    (nB : ∀ x ∈ g1.blocklist, ∀ y ∈ g2.blocklist, w.bname x ≠ w.bname y)
    (nR : ∀ x ∈ g1.rocktypelist, ∀ y ∈ g2.rocktypelist, w.rname x = w.rname y → ∀ b ∈ g1.blocklist, (w.bk b).rock ≠ x) :
    ∃ w', addGrids w g1 g2 = .ok w' ∧ Consistent w' ∧ w'.rocks = w.rocks ∧ w'.blks = w.blks ∧ w'.cons = w.cons ∧
      (∀ y, y ∈ w'.blocklist ↔ y ∈ g1.blocklist ∨ y ∈ g2.blocklist) ∧
      (∀ y, y ∈ w'.connectionlist ↔ y ∈ g1.connectionlist ∨ y ∈ g2.connectionlist) := by
  obtain ⟨w', e, hI, a, b, c, d, _, f⟩ := Proofs.Grid.addGrids_inv h1 h2 oR oB oC nB nR
  exact ⟨w', e, consistent_of_inv hI, a, b, c, d, f⟩

/-- **Embedding.**  Host = the current grid, `sub` a second consistent grid in the same heap (no
    common object; a host rock type whose name occurs in `sub` is unused, else F2), `c` a new
    connection object whose two blocks carry the names of a host block and of a block of `sub`
    (the grids' own objects, or equal-named standalone ones: `embed` re-points the connection by name).  `embed` does not raise; whether it returns a grid or `None`
    (sub-grid too big or a common block name: nothing changes), the grid is consistent. -/
theorem embed_consistent {w : World} {sub : Grid} {c x0 x1 : Nat}
    (h1 : Grid.Inv w) (h2 : Grid.Inv (w.withGrid sub))
    (oR : ∀ x ∈ w.rocktypelist, x ∉ sub.rocktypelist) (oB : ∀ x ∈ w.blocklist, x ∉ sub.blocklist)
    (oC : ∀ x ∈ w.connectionlist, x ∉ sub.connectionlist)
    (nR : ∀ x ∈ w.rocktypelist, ∀ y ∈ sub.rocktypelist, w.rname x = w.rname y → ∀ b ∈ w.blocklist, (w.bk b).rock ≠ x)
    (hc : c < w.cons.length) (hc1 : c ∉ w.connectionlist) (hc2 : c ∉ sub.connectionlist)
    (hhost : dget w.block (w.bname (w.cn c).b0) = some x0) (hsb : dget sub.block (w.bname (w.cn c).b1) = some x1) :
    ∃ w' fl, embed w sub c = .ok (w', fl) ∧ Consistent w' ∧ (fl = false → w' = w) := by
  obtain ⟨w', fl, e, hI, _, hf⟩ := Proofs.Grid.embed_inv' h1 h2 oR oB oC nR hc hc1 hc2 hhost hsb
  exact ⟨w', fl, e, consistent_of_inv hI, hf⟩

/-! ### the grid refines "finite map name ↦ block, with an order" -/

/-- `block[n]` is the unique listed block named `n`, and `block_index(n)` is its position
    (`None` exactly when no listed block has that name; it never raises) -/
theorem block_index_correct {w : World} (hI : Grid.Inv w) (nm : Name) :
    match blockIndex w nm with
    | .ok (some i) => ∃ b, w.blocklist[i]? = some b ∧ w.bname b = nm ∧ dget w.block nm = some b
    | .ok none => ∀ b ∈ w.blocklist, w.bname b ≠ nm
    | .error _ => False := by
  unfold blockIndex
  cases hd : dget w.block nm with
  | none =>
    intro b hb e
    have := hI.bd_complete b hb
    rw [e, hd] at this; cases this
  | some b =>
    have hb := hI.bd_sound _ _ hd
    obtain ⟨i, hi⟩ := Proofs.Grid.indexOf?_of_mem hb.1
    simp only [hi]
    exact ⟨b, Proofs.Grid.indexOf?_some hi, hb.2, rfl⟩

theorem connection_index_correct {w : World} (hI : Grid.Inv w) (k : CName) :
    match connectionIndex w k with
    | .ok (some i) => ∃ c, w.connectionlist[i]? = some c ∧ w.ckey c = k
    | .ok none => ∀ c ∈ w.connectionlist, w.ckey c ≠ k
    | .error _ => False := by
  unfold connectionIndex
  cases hd : dget w.connection k with
  | none =>
    intro c hc e
    have := hI.cd_complete c hc
    rw [e, hd] at this; cases this
  | some c =>
    have hc := hI.cd_sound _ _ hd
    obtain ⟨i, hi⟩ := Proofs.Grid.indexOf?_of_mem hc.1
    simp only [hi]
    exact ⟨c, Proofs.Grid.indexOf?_some hi, hc.2⟩

end Props.C08
