/-
  C08 — TOUGH2 grid stays internally consistent under any sequence of edits.

  Model: `Model/Grid.lean` (`World`, `Op`, `step`, `run`); invariant and preconditions:
  `Model/GridInv.lean` (`Inv`, `pre`, `finding`).  Proofs: `Proofs/Grid*.lean`.
-/
import PyTough.Proofs.GridSpec
import PyTough.Proofs.GridEmbed
import PyTough.Proofs.GridCheck
import PyTough.Proofs.GridInvMoreDelete
namespace Props.C08
open Py Model Model.Grid Model.Grid.World

/-! ### the property's clauses, in its own words -/

/-- "the grid's by-name lookups and ordered lists describe the same set of objects with unique
    names, every connection joins two blocks that are in the grid and is found under the pair of
    their current names, each block's record of its connections is exactly the set of connections
    that mention it, and every block's rock type is one registered in the grid" -/
structure Consistent (w : World) : Prop where
  rock_same_objects : ∀ r, r ∈ w.rocktypelist ↔ ∃ n, dget w.rocktype n = some r
  rock_key_is_name : ∀ n r, dget w.rocktype n = some r → w.rname r = n
  rock_names_unique : ∀ r ∈ w.rocktypelist, ∀ r' ∈ w.rocktypelist, w.rname r = w.rname r' → r = r'
  rock_listed_once : w.rocktypelist.Nodup
  block_same_objects : ∀ b, b ∈ w.blocklist ↔ ∃ n, dget w.block n = some b
  block_key_is_name : ∀ n b, dget w.block n = some b → w.bname b = n
  block_names_unique : ∀ b ∈ w.blocklist, ∀ b' ∈ w.blocklist, w.bname b = w.bname b' → b = b'
  block_listed_once : w.blocklist.Nodup
  con_same_objects : ∀ c, c ∈ w.connectionlist ↔ ∃ k, dget w.connection k = some c
  con_listed_once : w.connectionlist.Nodup
  con_joins_grid_blocks : ∀ c ∈ w.connectionlist, (w.cn c).b0 ∈ w.blocklist ∧ (w.cn c).b1 ∈ w.blocklist
  con_under_current_names : ∀ c ∈ w.connectionlist,
    dget w.connection (w.bname (w.cn c).b0, w.bname (w.cn c).b1) = some c
  con_key_is_current_names : ∀ k c, dget w.connection k = some c →
    k = (w.bname (w.cn c).b0, w.bname (w.cn c).b1)
  block_connection_record : ∀ b ∈ w.blocklist, ∀ k, k ∈ (w.bk b).conn ↔
    ∃ c ∈ w.connectionlist, (w.bname (w.cn c).b0, w.bname (w.cn c).b1) = k ∧ ((w.cn c).b0 = b ∨ (w.cn c).b1 = b)
  rock_registered : ∀ b ∈ w.blocklist, (w.bk b).rock ∈ w.rocktypelist

theorem consistent_of_inv {w : World} (h : Grid.Inv w) : Consistent w where
  rock_same_objects r := ⟨fun hr => ⟨_, h.rd_complete r hr⟩, fun ⟨n, hn⟩ => (h.rd_sound n r hn).1⟩
  rock_key_is_name n r hn := (h.rd_sound n r hn).2
  rock_names_unique _ hr _ hr' e := h.rockInv.name_inj hr hr' e
  rock_listed_once := h.rl_nodup
  block_same_objects b := ⟨fun hb => ⟨_, h.bd_complete b hb⟩, fun ⟨n, hn⟩ => (h.bd_sound n b hn).1⟩
  block_key_is_name n b hn := (h.bd_sound n b hn).2
  block_names_unique _ hb _ hb' e := h.blockInv.name_inj hb hb' e
  block_listed_once := h.bl_nodup
  con_same_objects c := ⟨fun hc => ⟨_, h.cd_complete c hc⟩, fun ⟨k, hk⟩ => (h.cd_sound k c hk).1⟩
  con_listed_once := h.cl_nodup
  con_joins_grid_blocks c hc := ⟨(h.c_ends c hc).1, (h.c_ends c hc).2.1⟩
  con_under_current_names c hc := h.cd_complete c hc
  con_key_is_current_names k c hk := ((h.cd_sound k c hk).2).symm
  block_connection_record := h.conn_iff
  rock_registered := h.b_rock

/-- the executable check that the driver evaluates on every explored state (reply field `I=`,
    compared by the harness with the identity reading of the property on the real grid) is
    exactly the invariant -/
theorem checkInv_iff (w : World) : checkInv w = true ↔ Grid.Inv w := Proofs.Grid.checkInv_iff w

/-! ### the invariant is inductive -/

theorem inv_empty : Grid.Inv World.empty := Proofs.Grid.inv_empty

/-- **inv_step.**  Every operation of the edit alphabet (`Model.Grid.Op`: add/delete block,
    connection, rock type; rename_rocktype; clean/sort_rocktypes; demote_block; reorder;
    rename_blocks; minc; grid addition; embed; re-adding objects) applied within its precondition
    `pre` (Model/GridInv.lean: no argument misuse, none of the known findings F1–F3) leaves the
    invariant true — whether the call returns or raises. -/
theorem inv_step {w : World} (hI : Grid.Inv w) (op : Op) (hpre : pre w op = true) : Grid.Inv (step w op).w :=
  Proofs.Grid.inv_step hI op hpre

/-- every operation of a history is applied within its precondition -/
def PreAll : World → List Op → Prop
  | _, [] => True
  | w, op :: r => pre w op = true ∧ PreAll (step w op).w r

instance instDecPreAll : (w : World) → (ops : List Op) → Decidable (PreAll w ops)
  | _, [] => isTrue trivial
  | w, op :: r =>
    have := instDecPreAll (step w op).w r
    show Decidable (pre w op = true ∧ PreAll (step w op).w r) from inferInstance

/-- **inv_run**: by induction over any operation list — every reachable state is consistent. -/
theorem inv_run {w : World} (hI : Grid.Inv w) (ops : List Op) (h : PreAll w ops) : Grid.Inv (run w ops) := by
  induction ops generalizing w with
  | nil => exact hI
  | cons op r ih => exact ih (inv_step hI op h.1) h.2

/-- **inv_fromgeo.**  A grid built from scratch by constructor-and-add calls — one `add_rocktype`,
    `add_block`, `add_connection` per object, which is what `fromgeo` does and how the harness brings
    the model to the state the real `fromgeo` produced (every such call is checked to be within `pre`
    on every run) — is consistent. -/
theorem inv_fromgeo (s : GridSpec) (h : PreAll World.empty (specOps s)) : Consistent (run World.empty (specOps s)) :=
  consistent_of_inv (inv_run inv_empty _ h)

example : PreAll World.empty (specOps ⟨[(['d'], 1)], [(['A'], ['d'], 1, none), (['B'], ['d'], 2, none)],
    [(0, 1, ⟨3, 1, 1, 1, some (-1), none, none⟩)]⟩) := by decide

/-- the property: after any sequence of (valid) edits from the empty grid, the grid is consistent -/
theorem consistent_after_any_history (ops : List Op) (h : PreAll World.empty ops) :
    Consistent (run World.empty ops) :=
  consistent_of_inv (inv_run inv_empty ops h)

example : PreAll World.empty [.addRocktype ['r'] 1, .addBlock ['A'] ['r'] 1 none, .addBlock ['B'] ['r'] 1 none,
    .addConnection ['A'] ['B'] ⟨1, 1, 1, 1, none, none, none⟩, .deleteBlock ['A'], .readdBlock ['A'], .cleanRocktypes] := by decide
-- a history with a grid addition and an embedding (second grids built from recipes)
example : PreAll World.empty [.addRocktype ['r'] 1, .addBlock ['A'] ['r'] 8 none,
    .addGrid ⟨[(['s'], 2)], [(['B'], ['s'], 1, none), (['C'], ['s'], 1, none)], [(0, 1, ⟨1, 1, 1, 1, none, none, none⟩)]⟩ true,
    .embed ⟨[(['t'], 3)], [(['D'], ['t'], 1, none)], []⟩ ['A'] ['D'] ⟨1, 1, 1, 1, none, none, none⟩] := by decide +kernel

/-! ### renaming with a one-to-one map loses no block -/

/-- **rename_loses_no_block.**  Let `m1` be the map `rename_blocks` really applies (the argument,
    after `fix_block_mapping` when requested).  If the renamed names of the grid's blocks are still
    distinct — `m1` is one-to-one on the current names and hits no unrenamed block; swaps and
    cycles included — then the call returns normally, the block list is the same objects in the
    same order, their names are the images, the lookup has exactly the new names, each reaching
    its block, and every connection is found under the pair of new names. -/
theorem rename_loses_no_block {w : World} (hI : Grid.Inv w) (m m1 : Dict Name Name) (fix : Bool)
    (hm : effectiveMap m fix = some m1)
    (hnd : (w.blocklist.map fun b => mapName m1 (w.bname b)).Nodup) :
    let o := step w (.renameBlocks m fix)
    o.exc = none ∧ o.w.blocklist = w.blocklist ∧
    o.w.blocklist.map o.w.bname = w.blocklist.map (fun b => mapName m1 (w.bname b)) ∧
    (∀ n b, dget o.w.block n = some b ↔ b ∈ w.blocklist ∧ mapName m1 (w.bname b) = n) ∧
    (∀ k c, dget o.w.connection k = some c ↔ c ∈ w.connectionlist ∧ Proofs.Grid.mapKey m1 (w.ckey c) = k) := by
  intro o
  have ho : o = { w := rebuildConnection (rebuildBlock (renameLoop m1 w w.blocklist)) } := Proofs.Grid.renameBlocks_eq hm
  obtain ⟨f1, _, f3, f4, f5, _⟩ := Proofs.Grid.renameWorld_facts hI m1 hnd
  rw [ho]
  refine ⟨rfl, f1, ?_, f4, f5⟩
  show (rebuildConnection (rebuildBlock (renameLoop m1 w w.blocklist))).blocklist.map _ = _
  rw [f1]
  exact List.map_congr_left f3

/-- and the invariant holds afterwards (instance of `inv_step_core`) -/
theorem rename_keeps_inv {w : World} (hI : Grid.Inv w) (m : Dict Name Name) (fix : Bool)
    (hpre : pre w (.renameBlocks m fix) = true) : Grid.Inv (step w (.renameBlocks m fix)).w :=
  inv_step hI _ hpre

namespace Examples
def A : Name := ['A','A',' ',' ','1']
def B : Name := ['B','B',' ',' ','1']
def C : Name := ['C','C',' ',' ','1']
def r1 : Name := ['r','1',' ',' ',' ']
def r2 : Name := ['r','2',' ',' ',' ']
def pay : ConPay := ⟨1, 2, 3, 4, some (-1), none, none⟩
/-- rock type `r1`, blocks `A B C`, connections `A-B`, `B-C` -/
def base : List Op :=
  [.addRocktype r1 1, .addBlock A r1 1 none, .addBlock B r1 2 none, .addBlock C r1 4 none,
   .addConnection A B pay, .addConnection B C pay]
def w0 : World := run World.empty base

example : PreAll World.empty base := by decide
example : checkInv w0 = true := by decide

-- a swap and a 3-cycle satisfy the hypotheses of `rename_loses_no_block` and `pre`
example : pre w0 (.renameBlocks [(A, B), (B, A)] true) = true := by decide
example : pre w0 (.renameBlocks [(A, B), (B, C), (C, A)] false) = true := by decide
example : let o := step w0 (.renameBlocks [(A, B), (B, A)] true)
    o.w.blocklist.map o.w.bname = [B, A, C] ∧ dget o.w.block A = some 1 ∧ dget o.w.block B = some 0 ∧
    dget o.w.connection (B, A) = some 0 ∧ dget o.w.connection (A, C) = some 1 := by decide
example : let o := step w0 (.renameBlocks [(A, B), (B, C), (C, A)] false)
    o.w.blocklist.map o.w.bname = [B, C, A] ∧ dget o.w.block A = some 2 ∧ dget o.w.block B = some 0 ∧
    dget o.w.block C = some 1 := by decide
-- a map that collides with an unrenamed block is outside `pre` (and really loses a block)
example : pre w0 (.renameBlocks [(A, B)] true) = false := by decide
example : dget (step w0 (.renameBlocks [(A, B)] true)).w.block A = none ∧
    (step w0 (.renameBlocks [(A, B)] true)).w.blocklist.map (step w0 (.renameBlocks [(A, B)] true)).w.bname = [B, B, C] := by decide

/-! ### the three known findings: the current code really leaves the invariant false
    (replayed on the real code by the harness corpus: F1-…, F2-…, F3-…) -/

/-- F1: `add_block` over a name that has connections -/
theorem F1_add_block_replaces_connected_block :
    finding w0 (.addBlock A r1 8 none) = some .f1 ∧ pre w0 (.addBlock A r1 8 none) = false ∧
    ¬ Grid.Inv (step w0 (.addBlock A r1 8 none)).w := by
  refine ⟨by decide, by decide, ?_⟩
  intro h
  have := (h.c_ends 0 (by decide)).1
  revert this; decide

/-- F2: `add_rocktype` over a name that blocks use -/
theorem F2_rocktype_replaced_while_in_use :
    finding w0 (.addRocktype r1 2) = some .f2 ∧ pre w0 (.addRocktype r1 2) = false ∧
    ¬ Grid.Inv (step w0 (.addRocktype r1 2)).w := by
  refine ⟨by decide, by decide, ?_⟩
  intro h
  have := h.b_rock 0 (by decide)
  revert this; decide

/-- … which becomes visible by name at the next `rename_rocktype`: the block's rock type name is
    then not a key of `grid.rocktype` -/
example : let w := run w0 [.addRocktype r1 2, .renameRocktype r1 r2]
    w.rname (w.bk 0).rock = r1 ∧ dget w.rocktype r1 = none := by decide

/-- F3: `delete_rocktype` of a rock type that blocks use -/
theorem F3_delete_rocktype_in_use :
    finding w0 (.deleteRocktype r1) = some .f3 ∧ pre w0 (.deleteRocktype r1) = false ∧
    ¬ Grid.Inv (step w0 (.deleteRocktype r1)).w := by
  refine ⟨by decide, by decide, ?_⟩
  intro h
  have := h.b_rock 0 (by decide)
  revert this; decide

end Examples

/-! ### adding and embedding grids

`grid + other` and `grid.embed(sub, connection)` take a second grid object.  `inv_step` covers the
operations `.addGrid` / `.embed`, whose second grid is built from a recipe with the public API in the
same heap.  The two theorems below are about the methods themselves (`World.addGrids`,
`World.embed`) for *any* two grids that live in one heap. -/

/-- **Grid addition.**  If both operands are consistent, share no object and no block name (a common
    block name is known finding F1 / argument misuse), and every rock type of the first operand whose
    name also occurs in the second is used by no block of the first (else: known finding F2), then
    `g1 + g2` returns a consistent grid whose blocks and connections are exactly those of the operands;
    no object is modified. -/
theorem grid_addition_consistent {w : World} {g1 g2 : Grid}
    (h1 : Grid.Inv (w.withGrid g1)) (h2 : Grid.Inv (w.withGrid g2))
    (oR : ∀ x ∈ g1.rocktypelist, x ∉ g2.rocktypelist) (oB : ∀ x ∈ g1.blocklist, x ∉ g2.blocklist)
    (oC : ∀ x ∈ g1.connectionlist, x ∉ g2.connectionlist)
    (nB : ∀ x ∈ g1.blocklist, ∀ y ∈ g2.blocklist, w.bname x ≠ w.bname y)
    (nR : ∀ x ∈ g1.rocktypelist, ∀ y ∈ g2.rocktypelist, w.rname x = w.rname y → ∀ b ∈ g1.blocklist, (w.bk b).rock ≠ x) :
    ∃ w', addGrids w g1 g2 = .ok w' ∧ Consistent w' ∧ w'.rocks = w.rocks ∧ w'.blks = w.blks ∧ w'.cons = w.cons ∧
      (∀ y, y ∈ w'.blocklist ↔ y ∈ g1.blocklist ∨ y ∈ g2.blocklist) ∧
      (∀ y, y ∈ w'.connectionlist ↔ y ∈ g1.connectionlist ∨ y ∈ g2.connectionlist) := by
  obtain ⟨w', e, hI, a, b, c, d, _, f⟩ := Proofs.Grid.addGrids_inv h1 h2 oR oB oC nB nR
  exact ⟨w', e, consistent_of_inv hI, a, b, c, d, f⟩

/-- **Embedding.**  Host = the current grid, `sub` a second consistent grid in the same heap (no
    common object; a host rock type whose name occurs in `sub` is unused, else F2), `c` a new
    connection object whose two blocks carry the names of a host block and of a block of `sub`
    (the grids' own objects, or equal-named standalone ones: `embed` re-points the connection by name).  `embed` does not raise; whether it returns a grid or `None`
    (sub-grid too big or a common block name: nothing changes), the grid is consistent. -/
theorem embed_consistent {w : World} {sub : Grid} {c x0 x1 : Nat}
    (h1 : Grid.Inv w) (h2 : Grid.Inv (w.withGrid sub))
    (oR : ∀ x ∈ w.rocktypelist, x ∉ sub.rocktypelist) (oB : ∀ x ∈ w.blocklist, x ∉ sub.blocklist)
    (oC : ∀ x ∈ w.connectionlist, x ∉ sub.connectionlist)
    (nR : ∀ x ∈ w.rocktypelist, ∀ y ∈ sub.rocktypelist, w.rname x = w.rname y → ∀ b ∈ w.blocklist, (w.bk b).rock ≠ x)
    (hc : c < w.cons.length) (hc1 : c ∉ w.connectionlist) (hc2 : c ∉ sub.connectionlist)
    (hhost : dget w.block (w.bname (w.cn c).b0) = some x0) (hsb : dget sub.block (w.bname (w.cn c).b1) = some x1) :
    ∃ w' fl, embed w sub c = .ok (w', fl) ∧ Consistent w' ∧ (fl = false → w' = w) := by
  obtain ⟨w', fl, e, hI, _, hf⟩ := Proofs.Grid.embed_inv' h1 h2 oR oB oC nR hc hc1 hc2 hhost hsb
  exact ⟨w', fl, e, consistent_of_inv hI, hf⟩

/-! ### the grid refines "finite map name ↦ block, with an order" -/

/-- `block[n]` is the unique listed block named `n`, and `block_index(n)` is its position
    (`None` exactly when no listed block has that name; it never raises) -/
theorem block_index_correct {w : World} (hI : Grid.Inv w) (nm : Name) :
    match blockIndex w nm with
    | .ok (some i) => ∃ b, w.blocklist[i]? = some b ∧ w.bname b = nm ∧ dget w.block nm = some b
    | .ok none => ∀ b ∈ w.blocklist, w.bname b ≠ nm
    | .error _ => False := by
  unfold blockIndex
  cases hd : dget w.block nm with
  | none =>
    intro b hb e
    have := hI.bd_complete b hb
    rw [e, hd] at this; cases this
  | some b =>
    have hb := hI.bd_sound _ _ hd
    obtain ⟨i, hi⟩ := Proofs.Grid.indexOf?_of_mem hb.1
    simp only [hi]
    exact ⟨b, Proofs.Grid.indexOf?_some hi, hb.2, rfl⟩

theorem connection_index_correct {w : World} (hI : Grid.Inv w) (k : CName) :
    match connectionIndex w k with
    | .ok (some i) => ∃ c, w.connectionlist[i]? = some c ∧ w.ckey c = k
    | .ok none => ∀ c ∈ w.connectionlist, w.ckey c ≠ k
    | .error _ => False := by
  unfold connectionIndex
  cases hd : dget w.connection k with
  | none =>
    intro c hc e
    have := hI.cd_complete c hc
    rw [e, hd] at this; cases this
  | some c =>
    have hc := hI.cd_sound _ _ hd
    obtain ⟨i, hi⟩ := Proofs.Grid.indexOf?_of_mem hc.1
    simp only [hi]
    exact ⟨c, Proofs.Grid.indexOf?_some hi, hc.2⟩

/-! ### which operations need a precondition at all (round 3)

`pre` (Model/GridInv.lean) is `true` for eight operations; for the others it excludes argument
misuse and the known findings F1–F3.  Below: the eight are total; `reorder`'s precondition is
weakened to what the code does not guard itself (`preTotal`); what is left is listed in `needsPre`. -/

/-- the operations that keep the grid consistent for ANY argument: `rename_rocktype` (raises on an
    unknown or clashing name, nothing changed), `clean_rocktypes`, `sort_rocktypes`, `delete_block`
    and `delete_connection` (unknown name: no-op), `demote_block` (unknown name: TypeError after
    the earlier names were moved), `minc` (any parameters, any block selection; raises part-way on
    a name clash), `add_block` of a block that is already the grid's -/
def unconditional : Op → Bool
  | .renameRocktype _ _ | .cleanRocktypes | .sortRocktypes | .deleteBlock _ | .demoteBlock _
  | .deleteConnection _ _ | .minc _ | .againBlock _ => true
  | _ => false

/-- **Total step** for the eight unconditional operations: no hypothesis on the arguments. -/
theorem inv_step_unconditional {w : World} (hI : Grid.Inv w) (op : Op) (h : unconditional op = true) :
    Grid.Inv (step w op).w := by
  apply inv_step hI op
  cases op <;> first | rfl | cases h

example : unconditional (.deleteBlock ['Z']) = true ∧ unconditional (.minc ⟨[1, 3], [1], [1, 1], [], 100⟩) = true := by decide

/-- any history made of those operations only, from any consistent grid, needs no precondition -/
theorem consistent_after_unconditional_edits {w : World} (hI : Grid.Inv w) (ops : List Op)
    (h : ∀ op ∈ ops, unconditional op = true) : Consistent (run w ops) := by
  suffices Grid.Inv (run w ops) from consistent_of_inv this
  induction ops generalizing w with
  | nil => exact hI
  | cons op r ih =>
    exact ih (inv_step_unconditional hI op (h op (List.mem_cons_self ..))) (fun o ho => h o (List.mem_cons_of_mem _ ho))

example : (∀ op ∈ [Op.deleteBlock Examples.B, .deleteConnection Examples.A Examples.C, .demoteBlock [Examples.A, ['?']],
      .renameRocktype Examples.r1 Examples.r1, .cleanRocktypes], unconditional op = true) ∧
    Grid.Inv Examples.w0 := ⟨by decide, (checkInv_iff _).mp (by decide)⟩

/-- `pre`, with the clause for `reorder` reduced to what the code does not guard itself: a block
    name that is not in the grid raises KeyError before anything is touched, a connection pair that
    is in the grid in neither orientation raises (connections reversed so far stay reversed,
    consistently; the lists are not reassigned).  What remains excluded for `reorder` is a list of
    *known* names that is not a permutation (a repeated or omitted name: the code silently
    reassigns the list). -/
def preTotal (w : World) : Op → Bool
  | .reorder bs cs =>
    (bs.isEmpty || (lookupAll w.block bs).isNone || (bs.map (dget w.block)).isPerm (w.blocklist.map some)) &&
    (cs.isEmpty || cs.any (fun k => (resolveCon w k).isNone) || (cs.map (resolveCon w)).isPerm (w.connectionlist.map some))
  | op => pre w op

/-- the operations whose `preTotal` is not constantly true, i.e. that still need a precondition:
    * `addRocktype`, `readdRocktype` — F2 (name registered and in use);
    * `deleteRocktype` — F3 (in use);
    * `addBlock`, `readdBlock`, `addBlockFresh` — F1 (name has connections), and the block's rock
      type must be a registered object (the code does not check: the block is added with a foreign
      rock type, clause `rock_registered` false);
    * `addConnection`, `readdConnection` — both blocks must be the grid's objects and different (the
      code does not check: `con_joins_grid_blocks` false);
    * `reorder` — all names known but not a permutation;
    * `renameBlocks` — the map is not one-to-one on the current names (excluded by the property text);
    * `addGrid`, `embed`, `embedStandalone` — second grid well formed, no common block name (F1),
      no common rock-type name in use (F2), host/sub blocks exist. -/
def needsPre (op : Op) : Bool := !unconditional op

theorem preTotal_of_unconditional (w : World) (op : Op) (h : needsPre op = false) : preTotal w op = true := by
  cases op <;> first | rfl | cases h

/-- `preTotal` is weaker than `pre` -/
theorem preTotal_of_pre {w : World} {op : Op} (h : pre w op = true) : preTotal w op = true := by
  cases op with
  | reorder bs cs =>
    simp only [pre, Bool.and_eq_true, Bool.or_eq_true] at h
    simp only [preTotal, Bool.and_eq_true, Bool.or_eq_true]
    exact ⟨h.1.elim (fun a => Or.inl (Or.inl a)) Or.inr, h.2.elim (fun a => Or.inl (Or.inl a)) Or.inr⟩
  | _ => exact h

/-- **inv_step, total in the guarded arguments.** -/
theorem inv_step_total {w : World} (hI : Grid.Inv w) (op : Op) (hpre : preTotal w op = true) :
    Grid.Inv (step w op).w := by
  cases op with
  | reorder bs cs =>
    simp only [preTotal, Bool.and_eq_true, Bool.or_eq_true, List.isPerm_iff, Option.isNone_iff_eq_none,
      List.any_eq_true] at hpre
    simp only [step, Proofs.Grid.ofR_w]
    refine Proofs.Grid.reorder_inv_total hI bs cs ?_ ?_
    · rcases hpre.1 with (a | a) | a
      · exact Or.inl a
      · exact Or.inr (Or.inl a)
      · exact Or.inr (Or.inr a)
    · rcases hpre.2 with (a | a) | a
      · exact Or.inl a
      · exact Or.inr (Or.inl a)
      · exact Or.inr (Or.inr a)
  | _ => exact inv_step hI _ hpre

-- `reorder` with an unknown block name, and with an unknown connection pair after a reversal:
-- outside `pre`, inside `preTotal`
example : pre Examples.w0 (.reorder [Examples.A, ['?']] []) = false ∧
    preTotal Examples.w0 (.reorder [Examples.A, ['?']] []) = true := by decide
example : pre Examples.w0 (.reorder [] [(Examples.B, Examples.A), (Examples.A, Examples.C)]) = false ∧
    preTotal Examples.w0 (.reorder [] [(Examples.B, Examples.A), (Examples.A, Examples.C)]) = true := by decide

/-- the error branches of `reorder`, explicitly: (a) an unknown block name raises KeyError and the
    grid is untouched; (b) block names fine, an unknown connection pair: raises, the connection list
    is the old one, the state is consistent -/
theorem reorder_unknown_name_raises {w : World} (bs : List Name) (cs : List CName) :
    (bs.isEmpty = false → lookupAll w.block bs = none →
      step w (.reorder bs cs) = { w := w, exc := some .keyError }) ∧
    (Grid.Inv w → (bs.isEmpty = true ∨ (bs.map (dget w.block)).Perm (w.blocklist.map some)) →
      (∃ k ∈ cs, resolveCon w k = none) →
      (step w (.reorder bs cs)).exc = some .generic ∧ Grid.Inv (step w (.reorder bs cs)).w ∧
      (step w (.reorder bs cs)).w.connectionlist = w.connectionlist) := by
  constructor
  · intro he hl
    simp only [step, Proofs.Grid.reorder_unknown_block bs cs he hl]
    rfl
  · intro hI hb hc
    obtain ⟨w', h1, h2, h3, _⟩ := Proofs.Grid.reorder_unresolved_raises hI bs cs hb hc
    simp only [step, h1]
    exact ⟨rfl, h2, h3⟩

example : Examples.A :: [['?']] ≠ [] ∧ lookupAll Examples.w0.block [Examples.A, ['?']] = none ∧
    resolveCon Examples.w0 (Examples.A, Examples.C) = none := by decide

/-- every operation of a history that needs a precondition is applied within `preTotal` -/
def PreAllTotal : World → List Op → Prop
  | _, [] => True
  | w, op :: r => (needsPre op = true → preTotal w op = true) ∧ PreAllTotal (step w op).w r

instance instDecPreAllTotal : (w : World) → (ops : List Op) → Decidable (PreAllTotal w ops)
  | _, [] => isTrue trivial
  | w, op :: r =>
    have := instDecPreAllTotal (step w op).w r
    show Decidable ((needsPre op = true → preTotal w op = true) ∧ PreAllTotal (step w op).w r) from inferInstance

/-- **inv_run, total**: every state reachable that way satisfies the invariant -/
theorem inv_run_total {w : World} (hI : Grid.Inv w) (ops : List Op) (h : PreAllTotal w ops) : Grid.Inv (run w ops) := by
  induction ops generalizing w with
  | nil => exact hI
  | cons op r ih =>
    refine ih (inv_step_total hI op ?_) h.2
    cases hn : needsPre op with
    | true => exact h.1 hn
    | false => exact preTotal_of_unconditional w op hn

/-- **the property, with a precondition only where one is needed**: after any history from the
    empty grid in which the operations of `needsPre` are applied within `preTotal` — every other
    operation with arbitrary arguments — the grid is consistent. -/
theorem consistent_after_any_history_total (ops : List Op) (h : PreAllTotal World.empty ops) :
    Consistent (run World.empty ops) :=
  consistent_of_inv (inv_run_total inv_empty ops h)

/-- it covers every history the earlier theorem covers -/
theorem preAllTotal_of_preAll {w : World} {ops : List Op} (h : PreAll w ops) : PreAllTotal w ops := by
  induction ops generalizing w with
  | nil => trivial
  | cons op r ih => exact ⟨fun _ => preTotal_of_pre h.1, ih h.2⟩

-- a history with calls on unknown names (delete, demote, reorder, rename_rocktype) that raise or do nothing
example : PreAllTotal World.empty (Examples.base ++ [.deleteBlock ['?'], .demoteBlock [Examples.A, ['?']],
    .reorder [['?']] [], .reorder [] [(Examples.B, Examples.A), (['?'], Examples.A)], .renameRocktype ['?'] Examples.r1,
    .deleteConnection Examples.C Examples.A]) ∧
    ¬ PreAll World.empty (Examples.base ++ [.reorder [['?']] []]) := by decide

/-! ### a block's connection record, by names; deleting a block -/

/-- **"each block's record of its connections is exactly the set of connections that mention
    it"**, in the form a user can evaluate on the public attributes: in every reachable state, for
    every block `b` of the grid, `k ∈ b.connection_name` iff `k` is a key of `grid.connection` and
    `b.name` is one of the two names in `k`. -/
theorem connection_record_by_name (ops : List Op) (h : PreAllTotal World.empty ops) :
    let w := run World.empty ops
    ∀ b ∈ w.blocklist, ∀ k : CName,
      k ∈ (w.bk b).conn ↔ (∃ c, dget w.connection k = some c) ∧ (k.1 = w.bname b ∨ k.2 = w.bname b) := by
  intro w b hb k
  have hI : Grid.Inv w := inv_run_total inv_empty ops h
  exact Proofs.Grid.conn_iff_by_name hI hb k

example : (Examples.w0.bk 1).conn = [(Examples.A, Examples.B), (Examples.B, Examples.C)] := by decide

/-- **Deleting a block deletes exactly its connections.**  On a consistent grid,
    `delete_block(nm)` of a block `b` in the grid returns normally and
    * the block list is the old one without `b`, the lookup loses exactly the key `nm`;
    * the connection list is the old one, in order, without the connections that have `b` as an
      end; the connection lookup loses exactly the keys in `b`'s record;
    * every block's record loses exactly those keys; names, rock types, volumes, centres of all
      block objects, all connection objects and the rock types are untouched;
    * the grid is consistent.
    (`nm` not in the grid: nothing happens.) -/
theorem delete_block_deletes_exactly_its_connections {w : World} (hI : Grid.Inv w) (nm : Name) :
    let o := step w (.deleteBlock nm)
    o.exc = none ∧ Consistent o.w ∧
    match dget w.block nm with
    | none => o.w = w
    | some b =>
      o.w.blocklist = w.blocklist.erase b ∧
      (∀ n, dget o.w.block n = if nm = n then none else dget w.block n) ∧
      o.w.connectionlist = w.connectionlist.filter (fun c => (w.cn c).b0 != b && (w.cn c).b1 != b) ∧
      (∀ k, dget o.w.connection k = if k ∈ (w.bk b).conn then none else dget w.connection k) ∧
      (∀ x ∈ w.blocklist, ∀ k, k ∈ (o.w.bk x).conn ↔ k ∈ (w.bk x).conn ∧ k ∉ (w.bk b).conn) ∧
      (∀ x, (o.w.bk x).name = (w.bk x).name ∧ (o.w.bk x).rock = (w.bk x).rock ∧
            (o.w.bk x).volume = (w.bk x).volume ∧ (o.w.bk x).centre = (w.bk x).centre) ∧
      o.w.cons = w.cons ∧ o.w.rocks = w.rocks ∧ o.w.rocktypelist = w.rocktypelist ∧ o.w.rocktype = w.rocktype := by
  intro o
  cases hd : dget w.block nm with
  | none =>
    have ho : o = { w := w } := by
      show step w (.deleteBlock nm) = _
      simp only [step, World.deleteBlock, hd]; rfl
    rw [ho]
    exact ⟨rfl, consistent_of_inv hI, rfl⟩
  | some b =>
    obtain ⟨w', h, hI', a1, a2, a3, a4, a5, a6, a7, a8, a9, a10⟩ := Proofs.Grid.deleteBlock_exact hI hd
    have ho : o = { w := w' } := by
      show step w (.deleteBlock nm) = _
      simp only [step, h]; rfl
    rw [ho]
    exact ⟨rfl, consistent_of_inv hI', a5, a6, a8, a9, a10, a7, a1, a2, a3, a4⟩

example : let o := step Examples.w0 (.deleteBlock Examples.B)
    o.w.blocklist = [0, 2] ∧ o.w.connectionlist = [] ∧ (o.w.bk 0).conn = [] ∧ (o.w.bk 2).conn = [] := by decide

end Props.C08
