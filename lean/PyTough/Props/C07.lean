/-
  C07 — what a listing shows at a given time does not depend on how you navigated there.

  The theorems are about the navigation machine of Model/ListingNav.lean (first / last / next / prev, the
  index, time and step setters, history), for *every* reader `N : Nav V E` — in particular for the
  whole-file model `Model.Listing.fileNav` that the harness drives against the real t2listing on every run.
  `view` is any observation of the reader state (index, time, step, all tables).
-/
import PyTough.Model.ListingNav
import PyTough.Proofs.ListingNav
import PyTough.Proofs.ListingSeriesNavFrame
import PyTough.Proofs.ListingSeriesCovers
import PyTough.Proofs.ListingSeries2Nav

namespace Props.C07
open Py Model.Nav Proofs.Nav

variable {V E W T : Type}

/-! ### after any sequence of actions the reader shows what a fresh reader at that index shows -/

/-- Hypotheses: `LoadSetsIndex` (re-reading result `j` leaves the index at `j`) and `Covers` (what re-reading
    result `j` shows does not depend on what was shown before: every cell is overwritten).  Conclusion: for
    every finite sequence of successful actions, started from an opened reader `v0` (`__init__` ends with
    `first()`, so `v0` is itself the result of a load), the final state `s` shows exactly what `v0` shows when it
    is positioned directly at `s`'s index — and that positioning succeeds. -/
theorem nav_view_eq_fresh (N : Nav V E) (view : V → W) (hcov : Covers N view) (hl : LoadSetsIndex N)
    (lt : T → T → Bool) (dist : T → T → T) (times : List T) (steps : List Int)
    (u v0 s : V) (hopen : first N u = .ok v0)
    (ops : List (Op T)) (hrun : run N lt dist times steps ops v0 = .ok s) :
    ∃ f, setIndex N (N.idx s) v0 = .ok f ∧ view f = view s ∧ N.idx f = N.idx s :=
  loaded_eq_fresh N view hcov hl s v0 (run_loaded N lt dist times steps ops v0 s (setIndex_loaded hopen) hrun)

/-- the reported index always lies in `0 ≤ index < n` -/
theorem index_in_range (N : Nav V E) (hl : LoadSetsIndex N)
    (lt : T → T → Bool) (dist : T → T → T) (times : List T) (steps : List Int)
    (u v0 s : V) (hopen : first N u = .ok v0)
    (ops : List (Op T)) (hrun : run N lt dist times steps ops v0 = .ok s) :
    0 ≤ N.idx s ∧ N.idx s < N.n := by
  obtain ⟨j, w, hj, hw⟩ := run_loaded N lt dist times steps ops v0 s (setIndex_loaded hopen) hrun
  rw [hl _ _ _ hw]; omega

-- a reader for the examples: the state is (index, a cell); re-reading result j shows the cell 10·j
def exNav : Nav (Int × Nat) Unit := { n := 3, idx := (·.1), load := fun j _ => .ok (j, 10 * j), indexError := () }
example : LoadSetsIndex exNav := by intro j v v' h; cases h; rfl
example : Covers exNav (fun v => v) := by intro j v v'; rfl
example : run exNav (fun (a b : Int) => decide (a < b)) distInt [0, 5, 9] [1, 2, 3]
    [.last, .prev, .time 6, .next, .next, .index (-3), .step 2] (0, 0) = .ok (1, 10) := by decide

/-- without `Covers` the statement is false: a reader whose result 1 leaves the cell untouched shows, at index 1,
    whatever it showed before (the role of the hypothesis; rows missing at a result time do this to the real reader) -/
def staleNav : Nav (Int × Nat) Unit :=
  { n := 3, idx := (·.1), load := fun j v => .ok (j, if j = 1 then v.2 else 100 * (j + 1)), indexError := () }
theorem stale_cells_witness :
    let lt := fun (a b : Int) => decide (a < b)
    ∃ v0 s f, first staleNav (0, 0) = .ok v0 ∧
      run staleNav lt distInt [] [] [.index 2, .index 1] v0 = .ok s ∧
      setIndex staleNav (staleNav.idx s) v0 = .ok f ∧ f ≠ s :=
  ⟨(0, 100), (1, 300), (1, 100), by decide, by decide, by decide, by decide⟩

/-! ### the whole-file reader: `LoadSetsIndex` is a theorem, and `load` looks at the previous state only through the tables

  `Model.Listing.fileNav rd` is the navigation instance of the whole-file model (set_index = seek to `_fullpos[j]`, set
  `_index`, read_tables — every simulator family).  For it the hypothesis `LoadSetsIndex` of the theorems above is proved, so
  the bounds theorems hold for every listing file without any per-file check; of `Covers` what remains per file is only
  whether re-reading overwrites every CELL of every table. -/

open Model.Listing in
/-- For every file and every simulator: first/last/next/prev/index=i all go through `set_index`, and `set_index j` leaves
    `_index = j` — read_tables and every method below it (read_header, read_table_*, skip_table_*, next_table_*, …) never
    assign `_index`. -/
theorem file_load_sets_index (rd : Rd) : LoadSetsIndex (fileNav rd) :=
  Proofs.SeriesNav.fileNav_loadSetsIndex rd

open Model.Listing in
/-- For every file: what `set_index j` leaves does not depend on the file position, the index, the time or the step the
    reader showed before (it seeks and sets the index first; read_header overwrites time and step before anything reads
    them).  So `Covers` can only fail through table cells that are not overwritten (`stale_cells_witness`) — that part
    genuinely depends on the file (rows missing at a result time) and stays a per-file check. -/
theorem file_load_ignores_cursor_time_step (rd : Rd) (j : Nat) (s : Rd) (p : Pos) (i : Int) (t : FVal) (st : Step) :
    (fileNav rd).load j { s with pos := p, index := i, time := t, step := st } = (fileNav rd).load j s := by
  have h1 := Proofs.SeriesNav.load_ignores_time_step rd j { s with pos := p, index := i } t st
  have h2 := Proofs.SeriesNav.load_ignores_pos_index rd j s p i
  exact h1.trans h2

open Model.Listing in
/-- For every file, with NO per-file hypothesis: after any sequence of successful actions on an opened reader the reported
    index lies in `0 ≤ index < n`. -/
theorem file_index_in_range (rd : Rd)
    (lt : T → T → Bool) (dist : T → T → T) (times : List T) (steps : List Int)
    (u v0 s : Rd) (hopen : first (fileNav rd) u = .ok v0)
    (ops : List (Op T)) (hrun : run (fileNav rd) lt dist times steps ops v0 = .ok s) :
    0 ≤ s.index ∧ s.index < rd.fulltimes.size :=
  index_in_range (fileNav rd) (file_load_sets_index rd) lt dist times steps u v0 s hopen ops hrun

/-! `Covers` as defined above quantifies over ALL states, which no real file satisfies (two arbitrary states need not belong
    to the same file); the theorems below ask it only of states satisfying an invariant `P` that re-reading preserves.
    `CoversOn P N view`: for `j < n` and `P`-states `v v'`, `(load j v).map view = (load j v').map view`;
    `PreservedBy P N`: a successful `load j` (`j < n`) from a `P`-state gives a `P`-state. -/

open Proofs.NavOn in
/-- `nav_view_eq_fresh` for every reader, under hypotheses a real file can satisfy: `P` holds before `first()`, is preserved by
    every successful re-read, and on `P`-states re-reading shows the same whatever was shown before. -/
theorem nav_view_eq_fresh_on (P : V → Prop) (N : Nav V E) (view : V → W) (hp : PreservedBy P N)
    (hcov : CoversOn P N view) (hl : LoadSetsIndex N)
    (lt : T → T → Bool) (dist : T → T → T) (times : List T) (steps : List Int)
    (u v0 s : V) (hu : P u) (hopen : first N u = .ok v0)
    (ops : List (Op T)) (hrun : run N lt dist times steps ops v0 = .ok s) :
    ∃ f, setIndex N (N.idx s) v0 = .ok f ∧ view f = view s ∧ N.idx f = N.idx s :=
  Proofs.NavOn.nav_view_eq_fresh_on P N view hp hcov hl lt dist times steps u v0 s hu hopen ops hrun

open Model.Listing Proofs.NavOn in
/-- The whole-file reader (every simulator family; `LoadSetsIndex` is proved, not assumed): for any invariant `P` of reader
    states preserved by re-reading and on which re-reading covers, after any sequence of successful actions the reader shows —
    index, time, step, every table cell (`fileView`) — what the opened reader shows positioned directly at that index. -/
theorem file_nav_view_eq_fresh_on (rd : Rd) (P : Rd → Prop) (hp : PreservedBy P (fileNav rd))
    (hcov : CoversOn P (fileNav rd) fileView)
    (lt : T → T → Bool) (dist : T → T → T) (times : List T) (steps : List Int)
    (u v0 s : Rd) (hu : P u) (hopen : first (fileNav rd) u = .ok v0)
    (ops : List (Op T)) (hrun : run (fileNav rd) lt dist times steps ops v0 = .ok s) :
    ∃ f, setIndex (fileNav rd) s.index v0 = .ok f ∧ fileView f = fileView s ∧ f.index = s.index :=
  Proofs.NavOn.nav_view_eq_fresh_on P (fileNav rd) fileView hp hcov (file_load_sets_index rd) lt dist times steps u v0 s hu hopen ops hrun

open Model.Listing Proofs.NavOn in
/-- … with `P` = membership in a finite set `S` of reader states (the orbit of the reader under re-reading): both hypotheses
    are then ONE decidable per-file check `orbitOk` — re-reading any result from a state of `S` lands in `S` and shows the same
    from every state of `S`.  What stays per file is exactly this check (it fails when rows are missing at a result time:
    `stale_cells_witness`). -/
theorem file_nav_view_eq_fresh_orbit (rd : Rd) (S : List Rd) (hS : orbitOk (fileNav rd) fileView S = true)
    (lt : T → T → Bool) (dist : T → T → T) (times : List T) (steps : List Int)
    (u v0 s : Rd) (hu : u ∈ S) (hopen : first (fileNav rd) u = .ok v0)
    (ops : List (Op T)) (hrun : run (fileNav rd) lt dist times steps ops v0 = .ok s) :
    ∃ f, setIndex (fileNav rd) s.index v0 = .ok f ∧ fileView f = fileView s ∧ f.index = s.index :=
  file_nav_view_eq_fresh_on rd (· ∈ S) (orbitOk_spec _ _ S hS).1 (orbitOk_spec _ _ S hS).2 lt dist times steps u v0 s hu hopen ops hrun

-- a two-result AUTOUGH2-style file (title, header line, column header, two rows, closing keyword) and its element table
section fileExample
open Model.Listing
private def exRes (a b c d : String) : List Str := ["title\n".toList, " OUTPUT AFTER 1 TIME STEPS 0.5 SECONDS\n".toList, "x\n".toList,
  "hdr\n".toList, "\n".toList, " ELEM INDEX P T\n".toList, "\n".toList, (" A 1  1  " ++ a ++ " " ++ b ++ "\n").toList,
  (" B 1  2  " ++ c ++ " " ++ d ++ "\n").toList, " EEEEE\n".toList, "\n".toList, "zzz\n".toList]
private def exR1 := exRes "1.5" "2.5" "3.5" "4.5"
private def exR2 := exRes "5.5" "6.5" "7.5" "8.5"
private def exTab : Table := { mkTable [['P'], ['T']] #[["A 1".toList], ["B 1".toList]] 1 false with keyPos := [1], numpos := [some 8] }
private def exRd : Rd := {
  all := exR1 ++ exR2
  isOutputData := false
  pos := ⟨0, exR1 ++ exR2⟩
  fam := Fam.autough2
  allpos := #[⟨0, exR1 ++ exR2⟩, ⟨12, exR2⟩]
  fullpos := #[⟨0, exR1 ++ exR2⟩, ⟨12, exR2⟩]
  short := #[false, false]
  fulltimes := #[zero, zero]
  times := #[zero, zero]
  tables := [("element", exTab)] }
-- (evaluated by the kernel) the reader opens, a sequence of actions runs, and ends at index 1 showing the second result's cells
example : (match first (fileNav exRd) exRd with
  | .ok v0 => (match run (fileNav exRd) (fun (a b : Int) => decide (a < b)) distInt [0, 5] [1, 2] [.last, .prev, .next, .next, .index (-1)] v0 with
     | .ok s => s.index == 1 && (s.tables.map (fun nt => nt.2.data)) == [#[#[.fin false 55 (-1), .fin false 65 (-1)], #[.fin false 75 (-1), .fin false 85 (-1)]]]
     | .error _ => false)
  | .error _ => false) = true := by decide +kernel
-- the hypotheses of file_nav_view_eq_fresh_orbit / _on discharged on this file: S = the reader as given and as left by
-- re-reading result 0 and result 1; `orbitOk` evaluated by the kernel gives PreservedBy and CoversOn for P = (· ∈ S)
private def exAt (j : Nat) : Rd := match (fileNav exRd).load j exRd with | .ok v => v | .error _ => exRd
private theorem exOrbit : Proofs.NavOn.orbitOk (fileNav exRd) Proofs.NavOn.fileView [exRd, exAt 0, exAt 1] = true := by decide +kernel
example : Proofs.NavOn.PreservedBy (· ∈ [exRd, exAt 0, exAt 1]) (fileNav exRd) ∧
    Proofs.NavOn.CoversOn (· ∈ [exRd, exAt 0, exAt 1]) (fileNav exRd) Proofs.NavOn.fileView ∧ exRd ∈ [exRd, exAt 0, exAt 1] :=
  ⟨(Proofs.NavOn.orbitOk_spec _ _ _ exOrbit).1, (Proofs.NavOn.orbitOk_spec _ _ _ exOrbit).2, List.mem_cons_self⟩
end fileExample

/-! ### next and prev report whether they moved and never move past either end -/

theorem next_bounds (N : Nav V E) (hl : LoadSetsIndex N) (v s : V) (b : Bool)
    (hv : 0 ≤ N.idx v ∧ N.idx v < N.n) (h : next N v = .ok (b, s)) :
    (b = true ↔ N.idx v < (N.n : Int) - 1) ∧
    (b = true → N.idx s = N.idx v + 1) ∧ (b = false → s = v) ∧ N.idx s < N.n := by
  unfold next at h
  split at h
  · rename_i hlt
    cases hx : setIndex N (N.idx v + 1) v with
    | error e => rw [hx] at h; cases h
    | ok a =>
      rw [hx] at h; injection h with h; injection h with h1 h2; subst h1; subst h2
      have := setIndex_idx hl hx
      have e : N.idx a = N.idx v + 1 := by rw [this]; split <;> omega
      refine ⟨by simp [hlt], fun _ => e, by simp, by omega⟩
  · rename_i hge
    injection h with h; injection h with h1 h2; subst h1; subst h2
    exact ⟨by simp [hge], by simp, fun _ => rfl, hv.2⟩

theorem prev_bounds (N : Nav V E) (hl : LoadSetsIndex N) (v s : V) (b : Bool)
    (hv : 0 ≤ N.idx v ∧ N.idx v < N.n) (h : prev N v = .ok (b, s)) :
    (b = true ↔ N.idx v > 0) ∧
    (b = true → N.idx s = N.idx v - 1) ∧ (b = false → s = v) ∧ 0 ≤ N.idx s := by
  unfold prev at h
  split at h
  · rename_i hgt
    cases hx : setIndex N (N.idx v - 1) v with
    | error e => rw [hx] at h; cases h
    | ok a =>
      rw [hx] at h; injection h with h; injection h with h1 h2; subst h1; subst h2
      have := setIndex_idx hl hx
      have e : N.idx a = N.idx v - 1 := by rw [this]; split <;> omega
      refine ⟨by simp [hgt], fun _ => e, by simp, by omega⟩
  · rename_i hle
    injection h with h; injection h with h1 h2; subst h1; subst h2
    exact ⟨by simp [hle], by simp, fun _ => rfl, hv.1⟩

example : next exNav (2, 20) = .ok (false, (2, 20)) ∧ next exNav (1, 10) = .ok (true, (2, 20)) ∧
    prev exNav (0, 0) = .ok (false, (0, 0)) := by decide

/-! ### a negative index counts from the end; an index outside `-n ≤ i < n` is an IndexError and changes nothing -/

theorem negative_index_normalised (N : Nav V E) (hl : LoadSetsIndex N) (k : Nat) (v s : V)
    (hk : 1 ≤ k ∧ k ≤ N.n) (h : setIndex N (-(k : Int)) v = .ok s) : N.idx s = (N.n : Int) - k := by
  rw [setIndex_idx hl h]; split <;> omega

theorem index_out_of_range (N : Nav V E) (i : Int) (v : V) (h : i < -(N.n : Int) ∨ i ≥ N.n) :
    setIndex N i v = .error N.indexError := by
  unfold setIndex; simp only; rw [if_pos h]

example : setIndex exNav (-1) (0, 0) = .ok (2, 20) ∧ setIndex exNav 3 (0, 0) = .error () ∧ setIndex exNav (-4) (0, 0) = .error () := by decide

/-! ### setting a time or a step selects a result nearest to it -/

/-- `listing.time = t` over exact numbers: for result times in non-decreasing order the index reached holds a time
    at minimal distance from `t` (the first such index when `t` lies within the range; the clamps below the first
    and above the last time are nearest too). -/
theorem set_time_nearest (N : Nav V E) (hl : LoadSetsIndex N) (times : List Rat) (t : Rat) (v s : V)
    (hn : times.length = N.n)
    (hsorted : times.Pairwise (fun a b => decide (b < a) = false))
    (h : setNearest N (fun a b => decide (a < b)) distRat times t v = .ok s) :
    ∃ tj, times[(N.idx s).toNat]? = some tj ∧ 0 ≤ N.idx s ∧
      ∀ (k : Nat) (tk : Rat), times[k]? = some tk → ¬ (distRat tk t < distRat tj t) := by
  unfold setNearest at h
  split at h
  · rename_i i hi
    obtain ⟨tj, h1, h2, h3, h4⟩ := nearestIndex_spec _ _ nearestOrder_rat times t i hsorted hi
    have hidx := setIndex_idx hl h
    rw [hn] at h1 h2 h3
    refine ⟨tj, by rw [hidx]; exact h1, by rw [hidx]; split <;> omega, ?_⟩
    intro k tk hk
    have := h4 k tk hk
    simpa using this
  · cases h

theorem set_step_nearest (N : Nav V E) (hl : LoadSetsIndex N) (steps : List Int) (x : Int) (v s : V)
    (hn : steps.length = N.n)
    (hsorted : steps.Pairwise (fun a b => decide (b < a) = false))
    (h : setNearest N (fun a b => decide (a < b)) distInt steps x v = .ok s) :
    ∃ sj, steps[(N.idx s).toNat]? = some sj ∧ 0 ≤ N.idx s ∧
      ∀ (k : Nat) (sk : Int), steps[k]? = some sk → ¬ (distInt sk x < distInt sj x) := by
  unfold setNearest at h
  split at h
  · rename_i i hi
    obtain ⟨sj, h1, h2, h3, h4⟩ := nearestIndex_spec _ _ nearestOrder_int steps x i hsorted hi
    have hidx := setIndex_idx hl h
    rw [hn] at h1 h2 h3
    refine ⟨sj, by rw [hidx]; exact h1, by rw [hidx]; split <;> omega, ?_⟩
    intro k sk hk
    have := h4 k sk hk
    simpa using this
  · cases h

example : setNearest exNav (fun (a b : Int) => decide (a < b)) distInt [10, 20, 40] 29 (0, 0) = .ok (1, 10) ∧
    setNearest exNav (fun (a b : Int) => decide (a < b)) distInt [10, 20, 40] 30 (0, 0) = .ok (1, 10) ∧   -- a tie: the first
    setNearest exNav (fun (a b : Int) => decide (a < b)) distInt [10, 20, 40] 31 (0, 0) = .ok (2, 20) ∧
    setNearest exNav (fun (a b : Int) => decide (a < b)) distInt [10, 20, 40] 5 (0, 0) = .ok (0, 0) ∧
    setNearest exNav (fun (a b : Int) => decide (a < b)) distInt [10, 20, 40] 99 (0, 0) = .ok (2, 20) := by decide

/-! ### every action is `index = k` for the index `k` the action computes

  `Proofs.Series2Nav.ActionIndex lt dist times steps n i op k` — "from current index `i`, with `n` results, action `op` computes
  index `k`" — is, action by action:  first: `k = 0`;  last: `k + 1 = n`;  next: `i + 1 < n ∧ k = i + 1`;  prev: `0 < i ∧ k = i - 1`;
  index = j: `0 ≤ j ∧ k = j` or `j < 0 ∧ k = j + n`;  time = t / step = x: `NearestSel … times t k` / `NearestSel … steps x k`,
  where `NearestSel lt dist vals t k` says: `t < vals[0] ∧ k = 0`, or else `vals[len-1] < t ∧ k = len - 1`, or else `k` is the FIRST
  index at minimal distance (`∀ j, ¬ dist vals[j] t < dist vals[k] t` and `∀ j < k, dist vals[k] t < dist vals[j] t`). -/

open Model.Listing Proofs.Series2Nav Proofs.NavOn in
/-- The whole-file reader, every simulator family, exact times (ℚ) and steps (ℤ), from any state showing an index in range: a
    successful first / last / next / prev / index = j / time = t / step = x either
    * is `next` at the last index or `prev` at the first: it reports False and the reader is unchanged, or
    * is a returning `history`: the reader is unchanged, or
    * reports True and leaves EXACTLY the reader state that `index = k` leaves from the same state (so in particular the same
      view: index, time, step, every table cell), with `s.index = k`, for the `k < n` the action computes (`ActionIndex`, spelled
      out above): k = 0, n-1, i+1, i-1, j (or j+n), the nearest-selection index. -/
theorem file_action_is_set_index (rd : Rd) (times : List Rat) (steps : List Int)
    (hnt : times.length = rd.fulltimes.size) (hns : steps.length = rd.fulltimes.size)
    (op : Op Rat) (v s : Rd) (b : Bool) (hv : 0 ≤ v.index ∧ v.index < rd.fulltimes.size)
    (h : apply (fileNav rd) (fun a b => decide (a < b)) distRat times steps op v = .ok (b, s)) :
    (b = false ∧ s = v ∧ ((op = .next ∧ v.index = (rd.fulltimes.size : Int) - 1) ∨ (op = .prev ∧ v.index = 0))) ∨
    (b = true ∧ s = v ∧ op = .history) ∨
    (b = true ∧ ∃ k : Nat, k < rd.fulltimes.size ∧
      ActionIndex (fun a b => decide (a < b)) distRat times steps rd.fulltimes.size v.index op k ∧
      setIndex (fileNav rd) (k : Int) v = .ok s ∧ s.index = k ∧
      (setIndex (fileNav rd) (k : Int) v).map fileView = .ok (fileView s)) := by
  rcases action_is_set_index (fileNav rd) _ distRat nearestOrder_rat.sw times steps hnt hns op v s b hv h with h1 | h1 | ⟨hb, k, hk, hc, hs, hl⟩
  · exact .inl h1
  · exact .inr (.inl h1)
  · exact .inr (.inr ⟨hb, k, hk, hc, hs, file_load_sets_index rd _ _ _ hl, by rw [hs]; rfl⟩)

open Model.Listing Proofs.Series2Nav in
/-- `next()` at the last index and `prev()` at the first return False and change nothing — for every file, from every state
    (no hypothesis on the file; nothing is read). -/
theorem file_next_prev_at_ends (rd : Rd) (v : Rd) :
    (v.index ≥ (rd.fulltimes.size : Int) - 1 → next (fileNav rd) v = .ok (false, v)) ∧
    (v.index ≤ 0 → prev (fileNav rd) v = .ok (false, v)) :=
  ⟨next_at_last (fileNav rd) v, prev_at_first (fileNav rd) v⟩

section actionExample
open Model.Listing
-- on the two-result file above, from the reader positioned at index 1: `time = 2` (nearer to 0 than to 5) succeeds, reports True and
-- shows index 0; `next` reports False and leaves the state; the hypotheses of file_action_is_set_index hold
example : ([0, 5] : List Rat).length = exRd.fulltimes.size ∧ ([1, 2] : List Int).length = exRd.fulltimes.size ∧
    0 ≤ (exAt 1).index ∧ (exAt 1).index < exRd.fulltimes.size := by decide +kernel
example : (match apply (fileNav exRd) (fun (a b : Rat) => decide (a < b)) distRat [0, 5] [1, 2] (.time 2) (exAt 1) with
    | .ok (b, s) => b && s.index == 0
    | .error _ => false) = true := by decide +kernel
example : apply (fileNav exRd) (fun (a b : Rat) => decide (a < b)) distRat [0, 5] [1, 2] .next (exAt 1) = .ok (false, exAt 1) := by decide +kernel
example : (exAt 1).index ≥ (exRd.fulltimes.size : Int) - 1 ∧ (exAt 0).index ≤ 0 := by decide +kernel
end actionExample

/-! ### a history() call that returns leaves index and tables as they were -/

theorem history_preserves_view (N : Nav V E) (lt : T → T → Bool) (dist : T → T → T) (times : List T) (steps : List Int) (v : V) :
    apply N lt dist times steps .history v = .ok (true, v) := rfl

end Props.C07
