/-
  C03 — MULgraph geometry file write/read round trip preserves the geometry.
  Property theorems about `Model.GeoFile.read` / `Model.GeoFile.write`.
-/
import PyTough.Model.GeoFile
namespace Props.C03
end Props.C03
