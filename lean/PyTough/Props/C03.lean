/-
  C03 — MULgraph geometry file write/read round trip preserves the geometry.

  Property theorems about `Model/GeoFile.lean` (model of mulgrid.write / mulgrid.read and all their
  section routines, over the record layer `Model/Fixed.lean` and the format table regenerated from
  /repo into `Gen/Specs.lean`).  Proofs: `Proofs/GeoFile*.lean`.

  Reading guide (clause of the property → theorem):
    "writing any geometry and reading it back gives …"            geo_roundtrip  (read (write g) = canonGeo g)
    "the same header options (naming convention, atmosphere type
      and sizes, units, permeability angle, block ordering)"      header_preserved
    "the same nodes … in the same order, coordinates equal to the
      two decimals the format carries"                            nodes_preserved
    "columns (node order, optional specified centre)"             columns_preserved
    "connections"                                                 connections_preserved
    "layers"                                                      layers_preserved  (needs LayerCentresKept: KNOWN FINDING,
                                                                  see layer_centre_zero_lost / second_file_differs)
    "non-default surface elevations"                              surfaces_preserved
    "well tracks"                                                 wells_preserved
    "the derived block and connection name lists are identical"   names_lists_preserved (when rounding moves no surface across a
                                                                  layer boundary), surface_crossing_characterised (exactly when
                                                                  it can), names_lists_preserved_clear,
                                                                  surface_on_boundary_changes_names (witness)
    "writing the re-read geometry reproduces the first file
      byte for byte"                                              geo_write_fixpoint_partial
    "for a geometry in feet the file holds feet and the re-read
      geometry is again in metres"                                feet_roundtrip
    "right-justified … names (… only right-justified names are
      safe in files)"                                             rjust_names_safe, left_justified_name_changes
    every table taken from the *current* /repo tree               tables_are_current  (evaluated on every build)

  `WF g` (decidable, `Model/GeoFile.lean`) is the property's own quantifier — header options in range,
  right-justified names of the convention's length without line breaks, distinct names, column nodes and
  connection columns that exist, every number within the ten-column limit at full precision — plus three
  clauses the proof forces and the real code confirms: at least one layer (`mulgrid().write(f); mulgrid(f)`
  raises IndexError in identify_layer_tops), every well has a track point (a well without one is not
  written at all) and a name of at most five characters, and no column whose *rounded* polygon is
  clockwise (a sliver thinner than the file's resolution; the reader would reverse its nodes).
-/
import PyTough.Model.GeoFile
import PyTough.Proofs.GeoFileFixpoint2
import PyTough.Proofs.GeoFileNames
import PyTough.Proofs.GeoFileSizes
import PyTough.Proofs.GeoFileClear

namespace Props.C03
open Py Model Model.GeoFile

/-- `g'` is what writing `g` to a file and reading that file gives -/
def Reread (g g' : Geo) : Prop := ∃ t, write g = .ok t ∧ GeoFile.read t = .ok g'

/-- exact rationals / small names for the examples -/
def r (n : Int) (d : Nat := 1) : Flt := .q (mkRat n d)
def n3 (a : Char) : Str := [' ', ' ', a]

/-- **Tie to the current /repo tree.**  Every table the model takes from the source is regenerated on
    each run (`Gen/Specs.lean`: `mulgrid_format_specification`, i.e. the field names — hence the
    instance-dictionary keys the header is read into and written from — and field specs;
    `Gen/Conventions.lean`: name lengths, atmosphere column names, `block_name` parts;
    `Gen/GeoTables.lean`: unit scales, block orders, the keyword dispatch of `read`, the order and
    keyword lines of the section writers) and is, by evaluation, the table the theorems below are
    proved for.  A change of any of them in /repo makes this theorem (and the proofs that compute
    through the tables) fail to check. -/
theorem tables_are_current :
    specs = .ok SP ∧
    Gen.Conventions.colnameLength = [3, 2, 3, 3] ∧ Gen.Conventions.layernameLength = [2, 3, 2, 2] ∧
    Gen.Conventions.atmosphereColumnName = [['A', 'T', 'M'], [' ', '0'], [' ', ' ', '0'], ['A', 'T', 'M']] ∧
    ([0, 1, 2, 3].map blockParts = Gen.Conventions.blockParts) ∧
    Gen.GeoTables.unitScale = [([], 1, 1), (feet, 381, 1250)] ∧
    Gen.GeoTables.blockOrders = [(0, layerColumnName), (1, dmplexName)] ∧
    Gen.GeoTables.blockOrderInts = [(layerColumnName, 0), (dmplexName, 1)] ∧
    Gen.GeoTables.readKeywords.map (fun p => (String.ofList p.1, p.2)) =
      [("VERTI", "read_nodes"), ("GRID", "read_columns"), ("CONNE", "read_connections"), ("LAYER", "read_layers"),
       ("SURFA", "read_surface"), ("SURF", "read_surface"), ("WELLS", "read_wells")] ∧
    Gen.GeoTables.writeKeywords.map (fun p => (p.1, String.ofList p.2)) =
      [("write_header", ""), ("write_nodes", "VERTICES"), ("write_columns", "GRID"), ("write_connections", "CONNECTIONS"),
       ("write_layers", "LAYERS"), ("write_surface", "SURFA"), ("write_wells", "WELLS")] := by
  refine ⟨Proofs.GeoFile.specs_eq, ?_⟩
  decide

/-! ### the round trip -/

/-- **Write then read.**  Every well-formed geometry can be written, and reading the text gives
    exactly `canonGeo g`: every number replaced by the decimal its field carries (in file units,
    multiplied back by the unit scale), unspecified centres recomputed from the rounded nodes, a
    layer centre written as `0.00` replaced by the reader's default, everything else — names,
    orders, flags — unchanged. -/
theorem geo_roundtrip (g : Geo) (hwf : WF g = true) : Reread g (canonGeo g) :=
  Proofs.GeoFile.roundtrip hwf

theorem reread_unique {g g₁ g₂ : Geo} (h₁ : Reread g g₁) (h₂ : Reread g g₂) : g₁ = g₂ := by
  obtain ⟨t₁, hw₁, hr₁⟩ := h₁
  obtain ⟨t₂, hw₂, hr₂⟩ := h₂
  rw [hw₁] at hw₂
  cases hw₂
  rw [hr₁] at hr₂
  cases hr₂
  rfl

theorem reread_eq {g g' : Geo} (hwf : WF g = true) (h : Reread g g') : g' = canonGeo g :=
  reread_unique h (geo_roundtrip g hwf)

/-- header options: naming convention, atmosphere type, unit type, block ordering are unchanged;
    atmosphere volume and connection distance are the three significant digits of their `10.2e`
    fields, the permeability angle the two decimals of its `10.2f` field -/
theorem header_preserved (g g' : Geo) (hwf : WF g = true) (h : Reread g g') :
    g'.hdr.type = g.hdr.type ∧ g'.hdr.convention = g.hdr.convention ∧ g'.hdr.atmosType = g.hdr.atmosType ∧
    g'.hdr.unitType = g.hdr.unitType ∧ g'.hdr.blockOrder = g.hdr.blockOrder ∧
    g'.hdr.atmosVolume = roundE 2 g.hdr.atmosVolume ∧ g'.hdr.atmosConnection = roundE 2 g.hdr.atmosConnection ∧
    g'.hdr.permAngle = roundF 2 g.hdr.permAngle ∧ g'.hdr.cntype = g.hdr.cntype := by
  rw [reread_eq hwf h]
  obtain ⟨L, LL, s, w⟩ := Proofs.GeoFile.wfp_of hwf
  refine ⟨rfl, rfl, rfl, rfl, ?_, rfl, rfl, rfl, rfl⟩
  exact w.hdr.bo.symm

/-- the same nodes in the same order; each coordinate is `x / scale` rounded half-even to two
    decimals, times the scale -/
theorem nodes_preserved (g g' : Geo) (hwf : WF g = true) (h : Reread g g') :
    g'.nodes = g.nodes.map fun n =>
      { n with x := canonC 2 (scaleOf g) n.x, y := canonC 2 (scaleOf g) n.y } := by
  rw [reread_eq hwf h]; rfl

/-- the same columns in the same order, each with the same nodes in the same order and the same
    `centre_specified` flag; a specified centre comes back as its two decimals -/
theorem columns_preserved (g g' : Geo) (hwf : WF g = true) (h : Reread g g') :
    g'.columns.map (fun c => (c.name, c.nodes, c.centreSpecified)) =
      g.columns.map (fun c => (c.name, c.nodes, c.centreSpecified)) ∧
    g'.columns.map (fun c => if c.centreSpecified != 0 then some c.centre else none) =
      g.columns.map (fun c => if c.centreSpecified != 0 then
        some (match c.centre with
          | .at x y => Centre.at (canonC 2 (scaleOf g) x) (canonC 2 (scaleOf g) y)
          | o => o) else none) := by
  rw [reread_eq hwf h]
  unfold canonGeo
  simp only [List.map_map]
  constructor
  · apply List.map_congr_left; intro c _; rfl
  · apply List.map_congr_left
    intro c _
    simp only [Function.comp, canonColumn]
    by_cases hc : (c.centreSpecified != 0) = true
    · simp only [hc, if_true]
      rfl
    · simp only [hc, Bool.false_eq_true, if_false]

/-- the same connections in the same order -/
theorem connections_preserved (g g' : Geo) (hwf : WF g = true) (h : Reread g g') :
    g'.connections = g.connections := by
  rw [reread_eq hwf h]; rfl

/-- the same layers in the same order, bottoms at two decimals (always); centres at two decimals
    when `LayerCentresKept g` -/
theorem layers_preserved (g g' : Geo) (hwf : WF g = true) (h : Reread g g') :
    g'.layers.map (fun l => (l.name, l.bottom)) =
      g.layers.map (fun l => (l.name, canonC 2 (scaleOf g) l.bottom)) ∧
    (LayerCentresKept g = true →
      g'.layers.map (·.centre) = g.layers.map (fun l => canonC 2 (scaleOf g) l.centre)) := by
  rw [reread_eq hwf h]
  have hl : (canonGeo g).layers = canonLayers (scaleOf g) g.layers := rfl
  rw [hl]
  refine ⟨Proofs.GeoFile.canonLayers_name_bottom _ _, fun hk => ?_⟩
  exact Proofs.GeoFile.canonLayers_centre_kept _ _ hk

/-- exactly the columns that had a non-default surface have one after the trip, and it is the
    elevation at two decimals -/
theorem surfaces_preserved (g g' : Geo) (hwf : WF g = true) (h : Reread g g') :
    g'.columns.map (fun c => (c.name, c.defaultSurface, if c.defaultSurface then none else c.surface)) =
      g.columns.map (fun c => (c.name, c.defaultSurface,
        if c.defaultSurface then none else c.surface.map (canonC 2 (scaleOf g)))) := by
  rw [reread_eq hwf h]
  unfold canonGeo
  simp only [List.map_map]
  apply List.map_congr_left
  intro c _
  simp only [Function.comp, canonColumn]
  by_cases hd : c.defaultSurface = true
  · simp only [hd, if_true]
  · simp only [hd, Bool.false_eq_true, if_false]

/-- the same wells in the same order; each name comes back right-justified in its five columns
    (so a 5-character name — the format's own — is unchanged, a shorter one gains leading blanks:
    `'W1'` ↦ `'   W1'`), each track point in order with every coordinate `x / scale` rounded half-even
    to **one** decimal (`10.1f`), times the scale -/
theorem wells_preserved (g g' : Geo) (hwf : WF g = true) (h : Reread g g') :
    g'.wells = g.wells.map fun w => { name := rjust w.name 5, pos := w.pos.map fun p =>
      (canonC 1 (scaleOf g) p.1, canonC 1 (scaleOf g) p.2.1, canonC 1 (scaleOf g) p.2.2) } := by
  rw [reread_eq hwf h]; rfl

/-- in particular wells with 5-character names keep their names -/
theorem well_names_preserved (g g' : Geo) (hwf : WF g = true) (h : Reread g g')
    (h5 : ∀ w ∈ g.wells, w.name.length = 5) : g'.wells.map (·.name) = g.wells.map (·.name) := by
  rw [wells_preserved g g' hwf h, List.map_map]
  apply List.map_congr_left
  intro w hw
  simp only [Function.comp, rjust, h5 w hw, Nat.sub_self, List.replicate_zero, List.nil_append]

/-! ### derived name lists -/

/-- **Name lists.**  `block_name_list` and `block_connection_name_list` of the re-read geometry are
    those of the original (same names, same order, same orientation of each pair), provided
    rounding to two decimals moves no column surface across a layer bottom or top
    (`StableSurfaces g`: every comparison `surface > bottom`, `surface <= top` that
    `setup_block_name_index` / `setup_block_connection_name_index` make has the same outcome before
    and after). -/
theorem names_lists_preserved (g g' : Geo) (hwf : WF g = true) (hst : StableSurfaces g = true) (h : Reread g g') :
    blockNameList g' = blockNameList g ∧ blockConnectionNameList g' = blockConnectionNameList g := by
  rw [reread_eq hwf h]
  exact Proofs.GeoFile.names_preserved hwf hst

/-- **When can rounding move a surface across a layer boundary?**  For a geometry whose stored layer
    tops and default surfaces are what `identify_layer_tops` / `set_default_surface` make them
    (`Consistent g`), `StableSurfaces g` holds **exactly** when no column surface lies strictly
    above a layer bottom and is yet written as the same two decimals (`SurfaceClear g`) — because
    the trip through the file is monotone (`Proofs.GeoFile.canonC_mono`), order can only be lost by
    two different values becoming equal. -/
theorem surface_crossing_characterised (g : Geo) (hwf : WF g = true) (hc : Consistent g = true) :
    StableSurfaces g = SurfaceClear g :=
  Proofs.GeoFile.stableSurfaces_iff hwf hc

/-- the name lists are identical whenever no surface rounds onto a layer bottom it lies above -/
theorem names_lists_preserved_clear (g g' : Geo) (hwf : WF g = true) (hc : Consistent g = true)
    (hcl : SurfaceClear g = true) (h : Reread g g') :
    blockNameList g' = blockNameList g ∧ blockConnectionNameList g' = blockConnectionNameList g :=
  names_lists_preserved g g' hwf (by rw [surface_crossing_characterised g hwf hc]; exact hcl) h

/-- one column whose surface, 0.004, lies just above the bottom 0.0 of the first layer: a block
    4 mm thick.  The file carries 0.00 for both, so the re-read geometry has no such block. -/
def gCross : Geo :=
  { nodes := [⟨n3 'a', r 0, r 0⟩, ⟨n3 'b', r 10, r 0⟩, ⟨n3 'c', r 0, r 15⟩, ⟨n3 'd', r 10, r 15⟩],
    columns := [⟨n3 'a', [n3 'a', n3 'b', n3 'd', n3 'c'], 0, .at (r 5) (r 75 10), some (r 4 1000), false, 2⟩],
    layers := [⟨[' ', '0'], r 10, r 10, r 10⟩, ⟨[' ', '1'], r 0, r 5, r 10⟩, ⟨[' ', '2'], r (-10), r (-5), r 0⟩] }

/-- **…and otherwise they are not** (witness; the same geometry is in the harness corpus and run on
    the real code): `gCross` is well-formed and consistent, its surface rounds onto the layer bottom
    it lies above, and the block name list loses the block `'  a 1'` in the round trip. -/
theorem surface_on_boundary_changes_names :
    WF gCross = true ∧ Consistent gCross = true ∧ SurfaceClear gCross = false ∧
    blockNameList gCross = .ok [['A','T','M',' ','0'], [' ',' ','a',' ','1'], [' ',' ','a',' ','2']] ∧
    blockNameList (canonGeo gCross) = .ok [['A','T','M',' ','0'], [' ',' ','a',' ','2']] := by
  decide +kernel

/-! ### second generation -/

/-- **Write, read, write.**  Writing the re-read geometry reproduces the first file byte for byte.
    `_partial`: the hypothesis `LayerCentresKept g` is necessary — without it the statement is false,
    see `second_file_differs` (KNOWN FINDING layer-centre-zero-recomputed).  Nothing else is assumed:
    every `10.2f` / `10.1f` / `10.2e` field reprints identically because rounding is idempotent. -/
theorem geo_write_fixpoint_partial (g : Geo) (hwf : WF g = true) (hk : LayerCentresKept g = true) :
    ∃ t g', write g = .ok t ∧ GeoFile.read t = .ok g' ∧ write g' = .ok t := by
  obtain ⟨t, hw, hr⟩ := geo_roundtrip g hwf
  obtain ⟨L, LL, s, w⟩ := Proofs.GeoFile.wfp_of hwf
  have hs := Proofs.GeoFile.sizesStable_of_fits g w.hdr.vol w.hdr.conn
  exact ⟨t, canonGeo g, hw, hr, by rw [Proofs.GeoFile.write_canon w hk hs, hw]⟩

/-- further generations change nothing: the re-read geometry is written to the same text and read
    back as itself -/
theorem later_generations (g g' : Geo) (hwf : WF g = true) (hk : LayerCentresKept g = true) (h : Reread g g') :
    Reread g' g' := by
  obtain ⟨t, g'', hw, hr, hw2⟩ := geo_write_fixpoint_partial g hwf hk
  have e : g'' = g' := reread_unique ⟨t, hw, hr⟩ h
  subst e
  exact ⟨t, hw2, hr⟩

/-- a number that already has `p` decimals (resp. `p+1` significant digits) is printed as itself:
    sign and digits of the rounded value are those of the value -/
theorem rounding_idempotent (p : Nat) (hp : 0 < p) (x : Flt) :
    roundF p (roundF p x) = roundF p x ∧
    (roundE p x).isNeg = x.isNeg ∧ fmtEParts p (roundE p x).absNum (roundE p x).den = fmtEParts p x.absNum x.den :=
  ⟨Proofs.GeoFile.roundF_idem p hp x, Proofs.GeoFile.roundE_parts p x⟩

/-! ### feet -/

/-- **FEET.**  For a geometry with unit type `'FEET '` the header says so, every node line of the
    file holds `'%10.2f' % (x / 0.3048)` — feet — and the re-read position is that decimal times
    0.3048 — metres again. -/
theorem feet_roundtrip (g : Geo) (hwf : WF g = true) (hu : g.hdr.unitType = feet) :
    ∃ t g', write g = .ok t ∧ GeoFile.read t = .ok g' ∧ g'.hdr.unitType = feet ∧
      (∀ n ∈ g.nodes, ∃ fx fy,
        fmtVal (fF 2) (n.x.div (mkRat 381 1250)).toVal = .ok fx ∧
        fmtVal (fF 2) (n.y.div (mkRat 381 1250)).toVal = .ok fy ∧
        (ljust n.name 3 ++ fx ++ fy ++ ['\n']) ∈ pyLines t) ∧
      g'.nodes = g.nodes.map fun n =>
        { n with x := (roundF 2 (n.x.div (mkRat 381 1250))).mul (mkRat 381 1250),
                 y := (roundF 2 (n.y.div (mkRat 381 1250))).mul (mkRat 381 1250) } := by
  obtain ⟨L, LL, s, w⟩ := Proofs.GeoFile.wfp_of hwf
  have hs : s = mkRat 381 1250 := by
    have := w.sc
    rw [hu] at this
    cases this
    rfl
  subst hs
  obtain ⟨t, hw, hl⟩ := Proofs.GeoFile.pyLines_write w
  obtain ⟨t', hw', hr⟩ := geo_roundtrip g hwf
  rw [hw] at hw'
  cases hw'
  refine ⟨t, canonGeo g, hw, hr, hu, ?_, ?_⟩
  · intro n hn
    have hok := w.nodes n hn
    refine ⟨Proofs.GeoFile.textF 10 2 (n.x.div (mkRat 381 1250)), Proofs.GeoFile.textF 10 2 (n.y.div (mkRat 381 1250)),
      Proofs.GeoFile.fmtVal_f_flt (f := fF 2) rfl _, Proofs.GeoFile.fmtVal_f_flt (f := fF 2) rfl _, ?_⟩
    rw [hl]
    unfold Proofs.GeoFile.fileLines Proofs.GeoFile.bodyLines
    simp only [List.mem_cons, List.mem_append]
    right; right; left
    unfold Proofs.GeoFile.nodeLines
    refine List.mem_map.mpr ⟨n, hn, ?_⟩
    simp [Proofs.GeoFile.recText, Proofs.GeoFile.nodeItems, Proofs.GeoFile.nameItem, Proofs.GeoFile.coordItem]
  · unfold canonGeo
    rw [w.sOf]
    rfl

/-! ### names -/

/-- **Right-justified names are safe.**  A name of the convention's length `L ≤ 3` that is blanks
    followed by a core neither starting nor ending in whitespace is written (`ljust(3)`, `'%3s'`)
    into exactly its three columns and comes back (`strip().rjust(L)`) as itself. -/
theorem rjust_names_safe (L : Nat) (hL : L ≤ 3) (n : Str) (h : nameOK L n = true) :
    ∃ t, writeField (fS 3) (.str (ljust n 3)) = .ok t ∧ t.length = 3 ∧
      readField .default 's' t = .ok (.str t) ∧ fixName t L = n := by
  have hs := Proofs.GeoFile.nameShape_of_ok h
  have hf := Proofs.GeoFile.fieldRT_name hL hs
  exact ⟨ljust n 3, hf.w, hf.len, hf.r .default, Proofs.GeoFile.fixName_ljust hL hs⟩

/-- the documentation's warning: a left-justified name does not survive (here `'a  '` in
    convention 0 comes back as `'  a'`) -/
theorem left_justified_name_changes :
    nameOK 3 ['a', ' ', ' '] = false ∧ fixName (ljust ['a', ' ', ' '] 3) 3 = [' ', ' ', 'a'] := by decide

/-! ### the known finding: a layer centre written as 0.00 -/


/-- one column, top at 1.006 (written 1.01), first layer down to −1.0 with centre 0.003 (written 0.00) -/
def gCentre : Geo :=
  { nodes := [⟨n3 'a', r 0, r 0⟩, ⟨n3 'b', r 10, r 0⟩, ⟨n3 'c', r 0, r 15⟩, ⟨n3 'd', r 10, r 15⟩],
    columns := [⟨n3 'a', [n3 'a', n3 'b', n3 'd', n3 'c'], 0, .at (r 5) (r 75 10), some (r 1006 1000), true, 2⟩],
    layers := [⟨[' ', '0'], r 1006 1000, r 1006 1000, r 1006 1000⟩, ⟨[' ', '1'], r (-1), r 3 1000, r 1006 1000⟩,
               ⟨[' ', '2'], r (-4), r (-25) 10, r (-1)⟩] }

/-- **The layers clause fails without `LayerCentresKept`** (model witness of KNOWN FINDING
    layer-centre-zero-recomputed; the same geometry is in the harness corpus and is replayed on the
    real code): `gCentre` is well-formed, its first layer's centre 0.003 is written as `0.00`, and
    the re-read centre is the default 0.005 — not the 0.00 the file carries. -/
theorem layer_centre_zero_lost :
    WF gCentre = true ∧ LayerCentresKept gCentre = false ∧
    (canonGeo gCentre).layers.map (·.centre) ≠ gCentre.layers.map (fun l => canonC 2 1 l.centre) := by
  decide +kernel

/-- the same with a centre of −0.002 (written `-0.00`): here also the second-generation file
    differs from the first (`0.00` instead of `-0.00`), so `geo_write_fixpoint` needs the hypothesis -/
def gCentre2 : Geo :=
  { gCentre with
    columns := [⟨n3 'a', [n3 'a', n3 'b', n3 'd', n3 'c'], 0, .at (r 5) (r 75 10), some (r 1), true, 2⟩],
    layers := [⟨[' ', '0'], r 1, r 1, r 1⟩, ⟨[' ', '1'], r (-1004) 1000, r (-2) 1000, r 1⟩,
               ⟨[' ', '2'], r (-4), r (-25) 10, r (-1004) 1000⟩] }

theorem second_file_differs :
    WF gCentre2 = true ∧ LayerCentresKept gCentre2 = false ∧
    ((write gCentre2).bind GeoFile.read).bind write ≠ write gCentre2 := by
  decide +kernel

/-! ### the hypotheses are satisfiable (non-vacuity) -/

/-- 2 × 1 columns in feet, atmosphere type 1, block order given, one specified centre, one
    non-default surface, one well with two track points -/
def gExample : Geo :=
  { hdr := { unitType := feet, atmosType := 1, permAngle := r 30, blockOrderInt := some 0, blockOrder := some 0 },
    nodes := [⟨n3 'a', r 0, r 0⟩, ⟨n3 'b', r 100, r 0⟩, ⟨n3 'c', r 2005 10, r 0⟩,
              ⟨n3 'd', r 0, r 150⟩, ⟨n3 'e', r 100, r 150⟩, ⟨n3 'f', r 2005 10, r 150⟩],
    columns := [⟨n3 'a', [n3 'a', n3 'b', n3 'e', n3 'd'], 0, .at (r 50) (r 75), some (r 0), true, 2⟩,
                ⟨n3 'b', [n3 'b', n3 'c', n3 'f', n3 'e'], 1, .at (r 150) (r 7512 100), some (r (-31) 10), false, 1⟩],
    connections := [(n3 'a', n3 'b')],
    layers := [⟨[' ', '0'], r 0, r 0, r 0⟩, ⟨[' ', '1'], r (-10), r (-5), r 0⟩, ⟨[' ', '2'], r (-30), r (-20), r (-10)⟩],
    wells := [⟨['W', '1'], [(r 10, r 20, r 0), (r 10, r 21, r (-255) 10)]⟩] }

example : WF gExample = true ∧ LayerCentresKept gExample = true ∧ SizesStable gExample = true ∧
    StableSurfaces gExample = true ∧ Consistent gExample = true ∧ SurfaceClear gExample = true ∧
    gExample.hdr.unitType = feet := by decide +kernel
-- (test) the name lists of the example are not trivial: 2 atmosphere + 4 underground blocks, 6 connections
example : (blockNameList gExample).map List.length = .ok 6 ∧ (blockConnectionNameList gExample).map List.length = .ok 6 := by
  decide +kernel
-- (test, not proof) the theorems' conclusion evaluated on the example
example : (write gExample).bind GeoFile.read = .ok (canonGeo gExample) := by decide +kernel
example : nameOK 3 [' ', 'a', 'b'] = true ∧ nameOK 2 [' ', '7'] = true := by decide
example : 0 < 2 := by decide

end Props.C03
