/-
  C14 — IAPWS-97 water properties are thermodynamically consistent over their range.

  The theorems are about the definitions of `PyTough/Gen/Iapws.lean`, which are regenerated from
  /repo/IAPWS97.py on every run (harness/translate/thermo.py), read over the real numbers
  (`Proofs/ThermoReal.lean`: literals are the exact rationals of the doubles).  The same
  definitions over `Float` are what the compiled driver runs against CPython, bit for bit.
-/
import PyTough.Proofs.ThermoIapws

namespace Props.C14
open Model.Thermo Proofs.Thermo Proofs.Iapws Gen.Iapws

/-! ### the multiplication chains of `power_array` compute powers -/

/-- Every one of the ten chains (`pc1 tc1 tc2 pc2 tsc2 tc3 dc3 ticv tscv dscv`) is well formed:
    each entry's operands are already defined, its target is new, inside the array, and equals the
    sum of the operand exponents (so positive and negative slots never alias).
    `decide` over the whole generated tables. -/
theorem power_chains_wf : ∀ c ∈ allChains, chainWF c = true := Proofs.Iapws.power_chains_wf

/-- hence, for every well-formed chain and every non-zero `v`, `power_array v chain` holds `v ^ k`
    at every defined index `k` (0, 1, −1 and the chain targets) -/
theorem power_array_eq_zpow (comb : List (Int × List Int)) (hwf : chainWF comb = true) (v : ℝ) (hv : v ≠ 0) :
    ∀ k ∈ chainDefined comb, PArr.get (powerArray v comb) k = v ^ k :=
  powerArray_eq_zpow comb hwf v hv

example : chainWF tc1 = true ∧ (-41 : Int) ∈ chainDefined tc1 := by decide

/-- Every index that a sum of `cowat`, `supst`, `super`, `visc` reads with a non-zero integer
    multiplier is a *defined* entry of its power array (otherwise the array's initial `0.0` would
    silently enter the sum).  The read sets `allReads` are computed by the translator from the
    subscript expressions of the source; `decide` over all of them. -/
theorem indices_defined : ∀ r ∈ allReads, readsDefined r.1 r.2 = true := by decide

example : allReads.length = 15 := by decide

/-! ### density and internal energy derive from a single potential -/

/-- **Region 1 (liquid water, `cowat`).**  With `γ₁(π, τ) = Σ nᵢ (7.1 − π)^Iᵢ (τ − 1.222)^Jᵢ` over
    the generated tables (`gamma1`), the value returned at every state `0 ≤ t ≤ 350`, `p ≤ 100 MPa`
    is `(p* / (R T γ_π), R T (τ γ_τ − π γ_π))` where `γ_π`, `γ_τ` are the two partial derivatives of
    that one function at `π = p / p*`, `τ = T* / T`. -/
theorem single_potential_r1 (t p : ℝ) (ht0 : 0 ≤ t) (ht : t ≤ 350) (hp : p ≤ 100000000) :
    ∃ gπ gτ : ℝ,
      HasDerivAt (fun π' => gamma1 π' (tau1 t)) gπ (pi1 p) ∧
      HasDerivAt (fun τ' => gamma1 (pi1 p) τ') gτ (tau1 t) ∧
      cowat t p = Ret.pair (pstar1 / (rconst * (t + tc_k) * gπ))
        (rconst * (t + tc_k) * (tau1 t * gτ - pi1 p * gπ)) :=
  Proofs.Iapws.single_potential_r1 t p ht0 ht hp

example : (0 : ℝ) ≤ 300 ∧ (300 : ℝ) ≤ 350 ∧ (3000000 : ℝ) ≤ 100000000 := by norm_num

/-- **Region 2 (steam, `supst`).**  `γ₂(π, τ) = ln π + Σ n⁰ᵢ τ^J⁰ᵢ + Σ nᵢ π^Iᵢ (τ − 0.5)^Jᵢ`
    (`gamma2`); every state `0 ≤ t ≤ 800`, `0 < p ≤ 100 MPa`. -/
theorem single_potential_r2 (t p : ℝ) (ht0 : 0 ≤ t) (ht : t ≤ 800) (hp0 : 0 < p) (hp : p ≤ 100000000) :
    ∃ gπ gτ : ℝ,
      HasDerivAt (fun π' => gamma2 π' (tau2 t)) gπ (pi2 p) ∧
      HasDerivAt (fun τ' => gamma2 (pi2 p) τ') gτ (tau2 t) ∧
      supst t p = Ret.pair (pstar2 / (rconst * (t + tc_k) * gπ))
        (rconst * (t + tc_k) * (tau2 t * gτ - pi2 p * gπ)) :=
  Proofs.Iapws.single_potential_r2 t p ht0 ht hp0 hp

/-- **Region 3 (supercritical, `super`).**  `φ(δ, τ) = n₁ ln δ + Σ nᵢ δ^Iᵢ τ^Jᵢ` (`phi3`, Helmholtz);
    the routine returns `(ρ R T δ φ_δ, R T τ φ_τ)` at every density `d ≠ 0` and `t ≥ 0`. -/
theorem single_potential_r3 (d t : ℝ) (hd : d ≠ 0) (ht0 : 0 ≤ t) :
    ∃ φδ φτ : ℝ,
      HasDerivAt (fun δ' => phi3 δ' (tau3 t)) φδ (delta3 d) ∧
      HasDerivAt (fun τ' => phi3 (delta3 d) τ') φτ (tau3 t) ∧
      super_ d t = Ret.pair (d * (rconst * (t + tc_k)) * delta3 d * φδ) (rconst * (t + tc_k) * tau3 t * φτ) :=
  Proofs.Iapws.single_potential_r3 d t hd ht0

/-! ### the region classifier names the region whose equation is valid -/

/-- `region t p = 1` exactly on the validity domain of the region-1 equation inside the box:
    `0.01 ≤ t ≤ 350` and `p_sat(t) < p ≤ 100 MPa` (`tmin` is the double nearest 0.01,
    `satP t` the value of `sat t`). -/
theorem region_classifier_one (t p : ℝ) : region t p = Ret.int 1 ↔
    tmin ≤ t ∧ t ≤ 350 ∧ 0 ≤ p ∧ p ≤ 100000000 ∧ satP t < p := region_one t p

/-- `region t p = 3` exactly for `350 < t ≤ 590` above the B23 line -/
theorem region_classifier_three (t p : ℝ) : region t p = Ret.int 3 ↔
    350 < t ∧ t ≤ 590 ∧ 0 ≤ p ∧ p ≤ 100000000 ∧ b23P t < p := region_three t p

/-- `region t p = 2` exactly on the rest of the box `[0.01, 800] × [0, 100 MPa]` -/
theorem region_classifier_two (t p : ℝ) : region t p = Ret.int 2 ↔
    tmin ≤ t ∧ t ≤ 800 ∧ 0 ≤ p ∧ p ≤ 100000000 ∧
      ((t ≤ 350 ∧ p ≤ satP t) ∨ (350 < t ∧ t ≤ 590 ∧ p ≤ b23P t) ∨ 590 < t) := region_two t p

/-- `None` exactly outside the box, and nothing else is ever returned -/
theorem region_classifier_none (t p : ℝ) : region t p = Ret.none ↔
    ¬(tmin ≤ t ∧ t ≤ 800 ∧ 0 ≤ p ∧ p ≤ 100000000) := region_none t p

theorem region_classifier_total (t p : ℝ) :
    region t p = Ret.int 1 ∨ region t p = Ret.int 2 ∨ region t p = Ret.int 3 ∨ region t p = Ret.none :=
  region_range t p

/-- where the classifier answers 1 (resp. 2), the routine of that region accepts the state (its
    guard holds), and the call `sat(t)` made by the classifier itself returned a number -/
theorem region_equation_valid (t p : ℝ) :
    (region t p = Ret.int 1 → (∃ d u, cowat t p = Ret.pair d u) ∧ ∃ s, sat t = Ret.num s) ∧
    (region t p = Ret.int 2 → ∃ d u, supst t p = Ret.pair d u) := by
  constructor
  · intro h
    obtain ⟨a, b, _, d, _⟩ := (region_one t p).mp h
    have : (0 : ℝ) ≤ tmin := by unfold tmin; norm_num
    exact ⟨cowat_defined t p b d, sat_defined t (by linarith) b⟩
  · intro h
    obtain ⟨_, b, _, d, _⟩ := (region_two t p).mp h
    exact supst_defined t p (by linarith) d

end Props.C14
