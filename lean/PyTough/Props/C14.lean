/-
  C14 — IAPWS-97 water properties are thermodynamically consistent over their range.

  The theorems are about the definitions of `PyTough/Gen/Iapws.lean`, which are regenerated from
  /repo/IAPWS97.py on every run (harness/translate/thermo.py), read over the real numbers
  (`Proofs/ThermoReal.lean`: literals are the exact rationals of the doubles).  The same
  definitions over `Float` are what the compiled driver runs against CPython, bit for bit.
-/
import PyTough.Proofs.ThermoIapws
import PyTough.Proofs.ThermoSat
import PyTough.Proofs.ThermoSatExamples
import PyTough.Proofs.ThermoSatOn
import PyTough.Proofs.ThermoMono
import PyTough.Proofs.IapwsMonoR1BoxA
import PyTough.Proofs.IapwsMonoR1BoxB
import PyTough.Proofs.IapwsMonoR1BoxC
import PyTough.Proofs.IapwsMonoR1Slabs
import PyTough.Proofs.IapwsMonoSatBounds
import PyTough.Proofs.IapwsMonoR1Kappa
import PyTough.Proofs.ThermoVisc

namespace Props.C14
open Model.Thermo Proofs.Thermo Proofs.Iapws Gen.Iapws

/-! ### the multiplication chains of `power_array` compute powers -/

/-- Every one of the ten chains (`pc1 tc1 tc2 pc2 tsc2 tc3 dc3 ticv tscv dscv`) is well formed:
    each entry's operands are already defined, its target is new, inside the array, and equals the
    sum of the operand exponents (so positive and negative slots never alias).
    `decide` over the whole generated tables. -/
theorem power_chains_wf : ∀ c ∈ allChains, chainWF c = true := Proofs.Iapws.power_chains_wf

/-- hence, for every well-formed chain and every non-zero `v`, `power_array v chain` holds `v ^ k`
    at every defined index `k` (0, 1, −1 and the chain targets) -/
theorem power_array_eq_zpow (comb : List (Int × List Int)) (hwf : chainWF comb = true) (v : ℝ) (hv : v ≠ 0) :
    ∀ k ∈ chainDefined comb, PArr.get (powerArray v comb) k = v ^ k :=
  powerArray_eq_zpow comb hwf v hv

example : chainWF tc1 = true ∧ (-41 : Int) ∈ chainDefined tc1 := by decide

/-- Every index that a sum of `cowat`, `supst`, `super`, `visc` reads with a non-zero integer
    multiplier is a *defined* entry of its power array (otherwise the array's initial `0.0` would
    silently enter the sum).  The read sets `allReads` are computed by the translator from the
    subscript expressions of the source; `decide` over all of them. -/
theorem indices_defined : ∀ r ∈ allReads, readsDefined r.1 r.2 = true := by decide

example : allReads.length = 15 := by decide

/-! ### density and internal energy derive from a single potential -/

/-- **Region 1 (liquid water, `cowat`).**  With `γ₁(π, τ) = Σ nᵢ (7.1 − π)^Iᵢ (τ − 1.222)^Jᵢ` over
    the generated tables (`gamma1`), the value returned at every state `0 ≤ t ≤ 350`, `p ≤ 100 MPa`
    is `(p* / (R T γ_π), R T (τ γ_τ − π γ_π))` where `γ_π`, `γ_τ` are the two partial derivatives of
    that one function at `π = p / p*`, `τ = T* / T`. -/
theorem single_potential_r1 (t p : ℝ) (ht0 : 0 ≤ t) (ht : t ≤ 350) (hp : p ≤ 100000000) :
    ∃ gπ gτ : ℝ,
      HasDerivAt (fun π' => gamma1 π' (tau1 t)) gπ (pi1 p) ∧
      HasDerivAt (fun τ' => gamma1 (pi1 p) τ') gτ (tau1 t) ∧
      cowat t p = Ret.pair (pstar1 / (rconst * (t + tc_k) * gπ))
        (rconst * (t + tc_k) * (tau1 t * gτ - pi1 p * gπ)) :=
  Proofs.Iapws.single_potential_r1 t p ht0 ht hp

example : (0 : ℝ) ≤ 300 ∧ (300 : ℝ) ≤ 350 ∧ (3000000 : ℝ) ≤ 100000000 := by norm_num
example : ∃ gπ gτ : ℝ, cowat (300 : ℝ) 3000000 = Ret.pair (pstar1 / (rconst * (300 + tc_k) * gπ))
    (rconst * (300 + tc_k) * (tau1 300 * gτ - pi1 3000000 * gπ)) := by
  obtain ⟨a, b, _, _, h⟩ := single_potential_r1 300 3000000 (by norm_num) (by norm_num) (by norm_num)
  exact ⟨a, b, h⟩

/-- **Region 2 (steam, `supst`).**  `γ₂(π, τ) = ln π + Σ n⁰ᵢ τ^J⁰ᵢ + Σ nᵢ π^Iᵢ (τ − 0.5)^Jᵢ`
    (`gamma2`); every state `0 ≤ t ≤ 800`, `0 < p ≤ 100 MPa`. -/
theorem single_potential_r2 (t p : ℝ) (ht0 : 0 ≤ t) (ht : t ≤ 800) (hp0 : 0 < p) (hp : p ≤ 100000000) :
    ∃ gπ gτ : ℝ,
      HasDerivAt (fun π' => gamma2 π' (tau2 t)) gπ (pi2 p) ∧
      HasDerivAt (fun τ' => gamma2 (pi2 p) τ') gτ (tau2 t) ∧
      supst t p = Ret.pair (pstar2 / (rconst * (t + tc_k) * gπ))
        (rconst * (t + tc_k) * (tau2 t * gτ - pi2 p * gπ)) :=
  Proofs.Iapws.single_potential_r2 t p ht0 ht hp0 hp

example : (0 : ℝ) ≤ 450 ∧ (450 : ℝ) ≤ 800 ∧ (0 : ℝ) < 30000000 ∧ (30000000 : ℝ) ≤ 100000000 := by norm_num

/-- **Region 3 (supercritical, `super`).**  `φ(δ, τ) = n₁ ln δ + Σ nᵢ δ^Iᵢ τ^Jᵢ` (`phi3`, Helmholtz);
    the routine returns `(ρ R T δ φ_δ, R T τ φ_τ)` at every density `d ≠ 0` and `t ≥ 0`. -/
theorem single_potential_r3 (d t : ℝ) (hd : d ≠ 0) (ht0 : 0 ≤ t) :
    ∃ φδ φτ : ℝ,
      HasDerivAt (fun δ' => phi3 δ' (tau3 t)) φδ (delta3 d) ∧
      HasDerivAt (fun τ' => phi3 (delta3 d) τ') φτ (tau3 t) ∧
      super_ d t = Ret.pair (d * (rconst * (t + tc_k)) * delta3 d * φδ) (rconst * (t + tc_k) * tau3 t * φτ) :=
  Proofs.Iapws.single_potential_r3 d t hd ht0

example : (500 : ℝ) ≠ 0 ∧ (0 : ℝ) ≤ 400 := by norm_num

/-! ### density rises with pressure at fixed temperature -/

/-- **Region 2, on six boxes from the ideal-gas limit up to 10 MPa**: at fixed `t`, `supst` returns a positive density
    that strictly increases with pressure.  `ρ = p* / (R T γ_π)`, `γ_π = 1/π + γʳ_π`; on each box the ideal-gas term varies
    faster than the residual sum can (`resM2 · P² < 1`, `resM1 · P < 1`, termwise bounds over the generated table evaluated
    by `norm_num`).  `_partial`: region 2 between these boxes and the saturation / B23 line, and regions 1 and 3, are
    not proved (sampled by the oracle). -/
theorem density_monotone_r2_partial (t p1 p2 : ℝ) (ht : t ≤ 800) (h1 : 0 < p1) (h12 : p1 < p2)
    (hbox : (350 ≤ t ∧ p2 ≤ 10000000) ∨ (300 ≤ t ∧ p2 ≤ 5000000) ∨ (250 ≤ t ∧ p2 ≤ 3000000) ∨
            (200 ≤ t ∧ p2 ≤ 1500000) ∨ (100 ≤ t ∧ p2 ≤ 100000) ∨ (0 ≤ t ∧ p2 ≤ 600)) :
    ∃ d1 u1 d2 u2, supst t p1 = Ret.pair d1 u1 ∧ supst t p2 = Ret.pair d2 u2 ∧ 0 < d1 ∧ d1 < d2 := by
  rcases hbox with ⟨a, b⟩ | ⟨a, b⟩ | ⟨a, b⟩ | ⟨a, b⟩ | ⟨a, b⟩ | ⟨a, b⟩
  · exact density_mono_box0 t p1 p2 a ht h1 h12 b
  · exact density_mono_box1 t p1 p2 a ht h1 h12 b
  · exact density_mono_box2 t p1 p2 a ht h1 h12 b
  · exact density_mono_box3 t p1 p2 a ht h1 h12 b
  · exact density_mono_box4 t p1 p2 a ht h1 h12 b
  · exact density_mono_box5 t p1 p2 a ht h1 h12 b

example : (400 : ℝ) ≤ 800 ∧ (0 : ℝ) < 100000 ∧ (100000 : ℝ) < 8000000 ∧ ((350 : ℝ) ≤ 400 ∧ (8000000 : ℝ) ≤ 10000000) := by norm_num

/-- **Region 1 (liquid water, `cowat`), on sixteen boxes**: at fixed `t`, for pressures `p1 < p2 ≤ 100 MPa` of the box, `cowat` returns a
    positive density that strictly increases with pressure.  Covered: every pressure `0 … 100 MPa` for `0 ≤ t ≤ 230` degC; for the five slabs
    230–235–240–243–246–250 degC every pressure from a limit (2.0, 2.5, 3.0, 3.0, 3.3 MPa) that lies below the saturation pressure
    everywhere on the slab (proved: `Proofs/IapwsMonoSatBounds.lean`, used in `density_monotone_region1_partial`) up to 100 MPa, so liquid
    water is covered up to 250 degC; and for each 10-degree slab from 250 to 350 degC the pressures from the stated lower limit (14.5 MPa at 250–260 … 50 MPa at
    340–350) up to 100 MPa.
    `ρ = p* / (R T γ_π)`, `γ_π = −Σ nᵢ Iᵢ (7.1 − π)^(Iᵢ−1) (τ − 1.222)^Jᵢ`; on each box every term of `γ_π` and of its difference quotient
    in `π` is bounded at the corner chosen by the signs of `nᵢ`, `Jᵢ` (both bases are positive), and the two sums of corner values over the
    generated 34-row table are negative (`norm_num`), i.e. `γ_π > 0`, `γ_ππ < 0`; pressure intervals of one slab are chained
    (`Proofs/IapwsMonoR1*.lean`).
    `_partial`: above 250 degC the strip between the saturation pressure (4.0 MPa at 250 … 16.5 MPa at 350 degC) and the stated lower
    limit is not proved — there the terms `I = 29 … 32` cancel to many digits and termwise bounds fail even on tiny boxes (sampled by the
    oracle); region 3 is not proved. -/
theorem density_monotone_r1_partial (t p1 p2 : ℝ) (h12 : p1 < p2) (hp2 : p2 ≤ 100000000)
    (hbox : (0 ≤ t ∧ t ≤ 230 ∧ 0 ≤ p1) ∨
            (230 ≤ t ∧ t ≤ 235 ∧ 2000000 ≤ p1) ∨ (235 ≤ t ∧ t ≤ 240 ∧ 2500000 ≤ p1) ∨ (240 ≤ t ∧ t ≤ 243 ∧ 3000000 ≤ p1) ∨
            (243 ≤ t ∧ t ≤ 246 ∧ 3000000 ≤ p1) ∨ (246 ≤ t ∧ t ≤ 250 ∧ 3300000 ≤ p1) ∨ (250 ≤ t ∧ t ≤ 260 ∧ 14500000 ≤ p1) ∨
            (260 ≤ t ∧ t ≤ 270 ∧ 19000000 ≤ p1) ∨ (270 ≤ t ∧ t ≤ 280 ∧ 23500000 ≤ p1) ∨ (280 ≤ t ∧ t ≤ 290 ∧ 28000000 ≤ p1) ∨
            (290 ≤ t ∧ t ≤ 300 ∧ 32000000 ≤ p1) ∨ (300 ≤ t ∧ t ≤ 310 ∧ 36000000 ≤ p1) ∨ (310 ≤ t ∧ t ≤ 320 ∧ 40000000 ≤ p1) ∨
            (320 ≤ t ∧ t ≤ 330 ∧ 43500000 ≤ p1) ∨ (330 ≤ t ∧ t ≤ 340 ∧ 46500000 ≤ p1) ∨ (340 ≤ t ∧ t ≤ 350 ∧ 50000000 ≤ p1)) :
    ∃ d1 u1 d2 u2, cowat t p1 = Ret.pair d1 u1 ∧ cowat t p2 = Ret.pair d2 u2 ∧ 0 < d1 ∧ d1 < d2 := by
  rcases hbox with ⟨a, b, c⟩ | ⟨a, b, c⟩ | ⟨a, b, c⟩ | ⟨a, b, c⟩ | ⟨a, b, c⟩ | ⟨a, b, c⟩ | ⟨a, b, c⟩ | ⟨a, b, c⟩ | ⟨a, b, c⟩ |
    ⟨a, b, c⟩ | ⟨a, b, c⟩ | ⟨a, b, c⟩ | ⟨a, b, c⟩ | ⟨a, b, c⟩ | ⟨a, b, c⟩ | ⟨a, b, c⟩
  · by_cases h : t ≤ 225
    · exact cowat_mono_box0 t p1 p2 a h c h12 hp2
    · exact cowat_mono_box1 t p1 p2 (by linarith) b c h12 hp2
  · exact cowat_mono_slab230 t p1 p2 a b c h12 hp2
  · exact cowat_mono_slab235 t p1 p2 a b c h12 hp2
  · exact cowat_mono_slab240 t p1 p2 a b c h12 hp2
  · exact cowat_mono_slab243 t p1 p2 a b c h12 hp2
  · exact cowat_mono_slab246 t p1 p2 a b c h12 hp2
  · exact cowat_mono_box4 t p1 p2 a b c h12 hp2
  · exact cowat_mono_box5 t p1 p2 a b c h12 hp2
  · exact cowat_mono_box6 t p1 p2 a b c h12 hp2
  · exact cowat_mono_box7 t p1 p2 a b c h12 hp2
  · exact cowat_mono_box8 t p1 p2 a b c h12 hp2
  · exact cowat_mono_box9 t p1 p2 a b c h12 hp2
  · exact cowat_mono_box10 t p1 p2 a b c h12 hp2
  · exact cowat_mono_box11 t p1 p2 a b c h12 hp2
  · exact cowat_mono_box12 t p1 p2 a b c h12 hp2
  · exact cowat_mono_box13 t p1 p2 a b c h12 hp2

example : (101325 : ℝ) < 50000000 ∧ (50000000 : ℝ) ≤ 100000000 ∧ ((0 : ℝ) ≤ 100 ∧ (100 : ℝ) ≤ 230 ∧ (0 : ℝ) ≤ 101325) := by norm_num
example : (3800000 : ℝ) < 4000000 ∧ (4000000 : ℝ) ≤ 100000000 ∧ ((246 : ℝ) ≤ 248 ∧ (248 : ℝ) ≤ 250 ∧ (3300000 : ℝ) ≤ 3800000) := by norm_num
example : (60000000 : ℝ) < 90000000 ∧ (90000000 : ℝ) ≤ 100000000 ∧ ((340 : ℝ) ≤ 345 ∧ (345 : ℝ) ≤ 350 ∧ (50000000 : ℝ) ≤ 60000000) := by norm_num

/-- **All of region 1 up to 250 degC**: whenever the classifier puts both states `(t, p1)`, `(t, p2)`, `p1 < p2`, in region 1 and
    `t ≤ 250`, the density `cowat` returns is positive and strictly larger at the higher pressure — no box hypothesis (between 230 and
    250 degC the saturation pressure is enclosed from below on each slab: `sat t ≥` 2.0, 2.5, 3.0, 3.0, 3.3 MPa, so `p1 > sat t` puts the
    state in the slab's box).  `_partial`: only `t ≤ 250` (for hotter liquid see the boxes of `density_monotone_r1_partial`). -/
theorem density_monotone_region1_partial (t p1 p2 : ℝ) (ht : t ≤ 250) (h12 : p1 < p2)
    (hr1 : region t p1 = Ret.int 1) (hr2 : region t p2 = Ret.int 1) :
    ∃ d1 u1 d2 u2, cowat t p1 = Ret.pair d1 u1 ∧ cowat t p2 = Ret.pair d2 u2 ∧ 0 < d1 ∧ d1 < d2 := by
  obtain ⟨a, _, c, _, e⟩ := (region_one t p1).mp hr1
  obtain ⟨_, _, _, d, _⟩ := (region_one t p2).mp hr2
  have : (0 : ℝ) ≤ tmin := by unfold tmin; norm_num
  have es : satP t = satK t := rfl
  rw [es] at e
  apply density_monotone_r1_partial t p1 p2 h12 d
  by_cases h230 : t ≤ 230
  · exact Or.inl ⟨by linarith, h230, c⟩
  have g230 : 230 ≤ t := le_of_lt (not_le.mp h230)
  by_cases h235 : t ≤ 235
  · exact Or.inr (Or.inl ⟨g230, h235, by linarith [(satK_Q230 t g230 h235).1]⟩)
  have g235 : 235 ≤ t := le_of_lt (not_le.mp h235)
  by_cases h240 : t ≤ 240
  · exact Or.inr (Or.inr (Or.inl ⟨g235, h240, by linarith [(satK_Q235 t g235 h240).1]⟩))
  have g240 : 240 ≤ t := le_of_lt (not_le.mp h240)
  by_cases h243 : t ≤ 243
  · exact Or.inr (Or.inr (Or.inr (Or.inl ⟨g240, h243, by linarith [(satK_Q240 t g240 h243).1]⟩)))
  have g243 : 243 ≤ t := le_of_lt (not_le.mp h243)
  by_cases h246 : t ≤ 246
  · exact Or.inr (Or.inr (Or.inr (Or.inr (Or.inl ⟨g243, h246, by linarith [(satK_Q243 t g243 h246).1]⟩))))
  have g246 : 246 ≤ t := le_of_lt (not_le.mp h246)
  exact Or.inr (Or.inr (Or.inr (Or.inr (Or.inr (Or.inl ⟨g246, ht, by linarith [(satK_Q246 t g246 ht).1]⟩)))))

/-- non-vacuity: the classifier does put `(100 degC, 0.2 MPa)`, `(100 degC, 0.3 MPa)` and `(248 degC, 5 MPa)`, `(248 degC, 6 MPa)` in
    region 1 (`sat 100 ≤ 107 kPa`, `sat 248 ≤ 4.31 MPa` by the same enclosures), so the theorem applies to them -/
example : region (100 : ℝ) 200000 = Ret.int 1 ∧ region (100 : ℝ) 300000 = Ret.int 1 := by
  have h := (satK_Q99 100 (by norm_num) (by norm_num)).2
  have e : satP (100 : ℝ) = satK 100 := rfl
  constructor <;> rw [region_one, e] <;> refine ⟨by unfold tmin; norm_num, by norm_num, by norm_num, by norm_num, by linarith⟩
example : ∃ d1 u1 d2 u2, cowat (248 : ℝ) 5000000 = Ret.pair d1 u1 ∧ cowat (248 : ℝ) 6000000 = Ret.pair d2 u2 ∧ 0 < d1 ∧ d1 < d2 := by
  have h := (satK_Q246 248 (by norm_num) (by norm_num)).2
  have e : satP (248 : ℝ) = satK 248 := rfl
  apply density_monotone_region1_partial 248 5000000 6000000 (by norm_num) (by norm_num) <;> rw [region_one, e] <;>
    refine ⟨by unfold tmin; norm_num, by norm_num, by norm_num, by norm_num, by linarith⟩

/-- **Isothermal compressibility of liquid water is positive, in the conventional form** `κ_T = (1/ρ)(∂ρ/∂p)_T = −(1/v)(∂v/∂p)_T > 0`:
    `rho1 t p' = p* / (R T γ_π(t, p'))` is the density `cowat` returns at every `p' ≤ 100 MPa` (first conjunct); at every state of the
    fourteen boxes below it is positive and differentiable in `p` with `(1/ρ) ∂ρ/∂p > 0` (`γ_ππ ≤` the same termwise corner sum `< 0`).
    Boxes: every pressure `0 … 100 MPa` for `0 ≤ t ≤ 230` degC; 230–240 from 4 MPa, 240–250 from 9.5 MPa, then the ten 10-degree slabs of
    `density_monotone_r1_partial` (single boxes only — the chained pressure intervals between 230 and 250 degC are not repeated here).
    At `p = 100 MPa` exactly the derivative is that of the formula, of which `cowat` realises the left half-neighbourhood.
    `_partial`: same uncovered strip near saturation above 230 degC as stated; regions 2 and 3 not done in this form. -/
theorem compressibility_pos_r1_partial (t p : ℝ) (hp2 : p ≤ 100000000)
    (hbox : (0 ≤ t ∧ t ≤ 230 ∧ 0 ≤ p) ∨
            (230 ≤ t ∧ t ≤ 240 ∧ 4000000 ≤ p) ∨ (240 ≤ t ∧ t ≤ 250 ∧ 9500000 ≤ p) ∨ (250 ≤ t ∧ t ≤ 260 ∧ 14500000 ≤ p) ∨
            (260 ≤ t ∧ t ≤ 270 ∧ 19000000 ≤ p) ∨ (270 ≤ t ∧ t ≤ 280 ∧ 23500000 ≤ p) ∨ (280 ≤ t ∧ t ≤ 290 ∧ 28000000 ≤ p) ∨
            (290 ≤ t ∧ t ≤ 300 ∧ 32000000 ≤ p) ∨ (300 ≤ t ∧ t ≤ 310 ∧ 36000000 ≤ p) ∨ (310 ≤ t ∧ t ≤ 320 ∧ 40000000 ≤ p) ∨
            (320 ≤ t ∧ t ≤ 330 ∧ 43500000 ≤ p) ∨ (330 ≤ t ∧ t ≤ 340 ∧ 46500000 ≤ p) ∨ (340 ≤ t ∧ t ≤ 350 ∧ 50000000 ≤ p)) :
    (∀ p' : ℝ, p' ≤ 100000000 → ∃ u, cowat t p' = Ret.pair (rho1 t p') u) ∧ 0 < rho1 t p ∧
    ∃ ρ', HasDerivAt (fun p' => rho1 t p') ρ' p ∧ 0 < 1 / rho1 t p * ρ' := by
  have key : 0 ≤ t ∧ t ≤ 350 ∧ (0 < rho1 t p ∧ ∃ ρ', HasDerivAt (fun p' => rho1 t p') ρ' p ∧ 0 < ρ') := by
    rcases hbox with ⟨a, b, c⟩ | ⟨a, b, c⟩ | ⟨a, b, c⟩ | ⟨a, b, c⟩ | ⟨a, b, c⟩ | ⟨a, b, c⟩ | ⟨a, b, c⟩ | ⟨a, b, c⟩ | ⟨a, b, c⟩ |
      ⟨a, b, c⟩ | ⟨a, b, c⟩ | ⟨a, b, c⟩ | ⟨a, b, c⟩
    · refine ⟨a, by linarith, ?_⟩
      by_cases h : t ≤ 225
      · exact kappa_box0 t p a h c hp2
      · exact kappa_box1 t p (by linarith) b c hp2
    · exact ⟨by linarith, by linarith, kappa_box2 t p a b c hp2⟩
    · exact ⟨by linarith, by linarith, kappa_box3 t p a b c hp2⟩
    · exact ⟨by linarith, by linarith, kappa_box4 t p a b c hp2⟩
    · exact ⟨by linarith, by linarith, kappa_box5 t p a b c hp2⟩
    · exact ⟨by linarith, by linarith, kappa_box6 t p a b c hp2⟩
    · exact ⟨by linarith, by linarith, kappa_box7 t p a b c hp2⟩
    · exact ⟨by linarith, by linarith, kappa_box8 t p a b c hp2⟩
    · exact ⟨by linarith, by linarith, kappa_box9 t p a b c hp2⟩
    · exact ⟨by linarith, by linarith, kappa_box10 t p a b c hp2⟩
    · exact ⟨by linarith, by linarith, kappa_box11 t p a b c hp2⟩
    · exact ⟨by linarith, by linarith, kappa_box12 t p a b c hp2⟩
    · exact ⟨by linarith, by linarith, kappa_box13 t p a b c hp2⟩
  obtain ⟨ht0, ht, hpos, ρ', hd, hρ⟩ := key
  exact ⟨fun p' hp' => cowat_rho1 t p' ht0 ht hp', hpos, ρ', hd, mul_pos (one_div_pos.mpr hpos) hρ⟩

example : (20000000 : ℝ) ≤ 100000000 ∧ ((0 : ℝ) ≤ 150 ∧ (150 : ℝ) ≤ 230 ∧ (0 : ℝ) ≤ 20000000) := by norm_num

/-! ### the region classifier names the region whose equation is valid -/

/-- `region t p = 1` exactly on the validity domain of the region-1 equation inside the box:
    `0.01 ≤ t ≤ 350` and `p_sat(t) < p ≤ 100 MPa` (`tmin` is the double nearest 0.01,
    `satP t` the value of `sat t`). -/
theorem region_classifier_one (t p : ℝ) : region t p = Ret.int 1 ↔
    tmin ≤ t ∧ t ≤ 350 ∧ 0 ≤ p ∧ p ≤ 100000000 ∧ satP t < p := region_one t p

/-- `region t p = 3` exactly for `350 < t ≤ 590` above the B23 line -/
theorem region_classifier_three (t p : ℝ) : region t p = Ret.int 3 ↔
    350 < t ∧ t ≤ 590 ∧ 0 ≤ p ∧ p ≤ 100000000 ∧ b23P t < p := region_three t p

/-- `region t p = 2` exactly on the rest of the box `[0.01, 800] × [0, 100 MPa]` -/
theorem region_classifier_two (t p : ℝ) : region t p = Ret.int 2 ↔
    tmin ≤ t ∧ t ≤ 800 ∧ 0 ≤ p ∧ p ≤ 100000000 ∧
      ((t ≤ 350 ∧ p ≤ satP t) ∨ (350 < t ∧ t ≤ 590 ∧ p ≤ b23P t) ∨ 590 < t) := region_two t p

/-- `None` exactly outside the box, and nothing else is ever returned -/
theorem region_classifier_none (t p : ℝ) : region t p = Ret.none ↔
    ¬(tmin ≤ t ∧ t ≤ 800 ∧ 0 ≤ p ∧ p ≤ 100000000) := region_none t p

theorem region_classifier_total (t p : ℝ) :
    region t p = Ret.int 1 ∨ region t p = Ret.int 2 ∨ region t p = Ret.int 3 ∨ region t p = Ret.none :=
  region_range t p

/-- where the classifier answers 1 (resp. 2), the routine of that region accepts the state (its
    guard holds), and the call `sat(t)` made by the classifier itself returned a number -/
theorem region_equation_valid (t p : ℝ) :
    (region t p = Ret.int 1 → (∃ d u, cowat t p = Ret.pair d u) ∧ ∃ s, sat t = Ret.num s) ∧
    (region t p = Ret.int 2 → ∃ d u, supst t p = Ret.pair d u) := by
  constructor
  · intro h
    obtain ⟨a, b, _, d, _⟩ := (region_one t p).mp h
    have : (0 : ℝ) ≤ tmin := by unfold tmin; norm_num
    exact ⟨cowat_defined t p b d, sat_defined t (by linarith) b⟩
  · intro h
    obtain ⟨_, b, _, d, _⟩ := (region_two t p).mp h
    exact supst_defined t p (by linarith) d

/-! ### saturation pressure and saturation temperature

  `satPoly β ϑ` is the implicit saturation equation of the formulation
  (`β²ϑ² + n₁β²ϑ + n₂β² + n₃βϑ² + n₄βϑ + n₅β + n₆ϑ² + n₇ϑ + n₈` over the generated coefficients) in
  `β = (p/p*)^¼`, `ϑ = T + n₉/(T − n₁₀)` (`thetaOf`). -/

/-- `sat` solves the implicit equation: inside its range it returns `p* β⁴` where `β` (`satBeta`, the
    root `2C / (−B + √(B² − 4AC))` the code takes) satisfies `satPoly β ϑ(T) = 0` — whenever the
    discriminant is non-negative and the denominator non-zero (otherwise Python raises). -/
theorem sat_root (t : ℝ) (h0 : 0 ≤ t) (h1 : t ≤ tcritical)
    (hΔ : 0 ≤ satDisc (thetaOf (t + tc_k))) (hD : satDen (thetaOf (t + tc_k)) ≠ 0) :
    sat t = Ret.num (pstar4 * (satBeta (thetaOf (t + tc_k)) * satBeta (thetaOf (t + tc_k)))
      * (satBeta (thetaOf (t + tc_k)) * satBeta (thetaOf (t + tc_k)))) ∧
    satPoly (satBeta (thetaOf (t + tc_k))) (thetaOf (t + tc_k)) = 0 :=
  ⟨sat_eq t h0 h1, satPoly_satBeta _ hΔ hD⟩

/-- `tsat` solves the same implicit equation: inside its range (`pmin` = the double nearest 611.213)
    it returns `T − 273.15` where, with `β = (p/p*)^¼`, the `ϑ` it computes (`tsTheta`) satisfies
    `satPoly β ϑ = 0`, and `T` satisfies `T² − (n₁₀ + ϑ) T + n₉ + n₁₀ ϑ = 0`, i.e. `ϑ = T + n₉/(T − n₁₀)`. -/
theorem tsat_root (p : ℝ) (h0 : pmin ≤ p) (h1 : p ≤ pcritical)
    (hΔ : 0 ≤ tsDisc (Real.sqrt (Real.sqrt (p / pstar4)) * Real.sqrt (Real.sqrt (p / pstar4))) (Real.sqrt (Real.sqrt (p / pstar4))))
    (hD : tsDen (Real.sqrt (Real.sqrt (p / pstar4)) * Real.sqrt (Real.sqrt (p / pstar4))) (Real.sqrt (Real.sqrt (p / pstar4))) ≠ 0)
    :
    let β := Real.sqrt (Real.sqrt (p / pstar4))
    let ϑ := tsTheta (β * β) β
    tsat p = Ret.num (tsT ϑ - tc_k) ∧ β * β * (β * β) = p / pstar4 ∧ satPoly β ϑ = 0 ∧
      tsT ϑ * tsT ϑ - (nr4_9 + ϑ) * tsT ϑ + (nr4_8 + nr4_9 * ϑ) = 0 ∧
      (tsT ϑ - nr4_9 ≠ 0 → ϑ = thetaOf (tsT ϑ)) := by
  intro β ϑ
  have hp0 : 0 ≤ p / pstar4 := by
    have : (0 : ℝ) ≤ pmin := by unfold pmin; norm_num
    exact div_nonneg (by linarith) (le_of_lt pstar4_pos)
  have hb2 : β * β = Real.sqrt (p / pstar4) := Real.mul_self_sqrt (Real.sqrt_nonneg _)
  refine ⟨?_, ?_, satPoly_tsTheta β hΔ hD, tsT_root ϑ (tsDisc2_nonneg ϑ), fun h => thetaOf_of_root _ _ h (tsT_root ϑ (tsDisc2_nonneg ϑ))⟩
  · have := tsat_eq p h0 h1
    rw [this]; show Ret.num (tsT (tsTheta (Real.sqrt (p / pstar4)) β) - tc_k) = Ret.num (tsT (tsTheta (β * β) β) - tc_k)
    rw [hb2]
  · rw [hb2]; exact Real.mul_self_sqrt hp0

/-- **`tsat (sat t) = t` exactly (over the reals)** for every `t` of `sat`'s range `0 ≤ t ≤ tcritical`
    at which `tsat`'s range test accepts the saturation pressure (hypothesis `hg`), on the branch of
    the two quadratics that the routines take (`hΔ hD hβ hbr hne`: discriminant ≥ 0, denominator ≠ 0,
    `β ≥ 0`, `2Eϑ + F ≥ 0`, `Eϑ + F ≠ 0`).  `_partial`: the branch conditions are numeric facts about
    the coefficients on the interval (evaluated on every explored `t` by the harness, never violated);
    `hg` is *false* within 1.2e-9 K of the critical temperature — see `sat_tsat_critical_end_witness`
    and the known finding `sat-tsat-inverse:critical-end`. -/
theorem sat_tsat_inverse_partial (t : ℝ) (h0 : 0 ≤ t) (h1 : t ≤ tcritical)
    (hΔ : 0 ≤ satDisc (thetaOf (t + tc_k))) (hD : satDen (thetaOf (t + tc_k)) ≠ 0)
    (hβ : 0 ≤ satBeta (thetaOf (t + tc_k)))
    (hbr : 0 ≤ 2 * tsE (satBeta (thetaOf (t + tc_k)) * satBeta (thetaOf (t + tc_k))) (satBeta (thetaOf (t + tc_k))) * thetaOf (t + tc_k)
      + tsF (satBeta (thetaOf (t + tc_k)) * satBeta (thetaOf (t + tc_k))) (satBeta (thetaOf (t + tc_k))))
    (hne : tsE (satBeta (thetaOf (t + tc_k)) * satBeta (thetaOf (t + tc_k))) (satBeta (thetaOf (t + tc_k))) * thetaOf (t + tc_k)
      + tsF (satBeta (thetaOf (t + tc_k)) * satBeta (thetaOf (t + tc_k))) (satBeta (thetaOf (t + tc_k))) ≠ 0)
    (hg : pmin ≤ (sat t).toK ∧ (sat t).toK ≤ pcritical) :
    tsat (sat t).toK = Ret.num t :=
  sat_tsat_inverse t h0 h1 hΔ hD hβ hbr hne hg

/-- **`sat (tsat p) = p` exactly (over the reals)** for every `p` of `tsat`'s range
    `611.213 ≤ p ≤ pcritical` whose saturation temperature `sat`'s range test accepts (`hg`), on the
    branches the routines take (`tsat`: `hΔ hD`; `sat`: `2Aβ + B ≤ 0`, `Aβ + B ≠ 0`).  `_partial` for
    the same reason as above. -/
theorem tsat_sat_inverse_partial (p : ℝ) (h0 : pmin ≤ p) (h1 : p ≤ pcritical)
    (hΔ : 0 ≤ tsDisc (Real.sqrt (Real.sqrt (p / pstar4)) * Real.sqrt (Real.sqrt (p / pstar4))) (Real.sqrt (Real.sqrt (p / pstar4))))
    (hD : tsDen (Real.sqrt (Real.sqrt (p / pstar4)) * Real.sqrt (Real.sqrt (p / pstar4))) (Real.sqrt (Real.sqrt (p / pstar4))) ≠ 0)
    (hbr : 2 * satA (tsTheta (Real.sqrt (Real.sqrt (p / pstar4)) * Real.sqrt (Real.sqrt (p / pstar4))) (Real.sqrt (Real.sqrt (p / pstar4))))
        * Real.sqrt (Real.sqrt (p / pstar4))
      + satB (tsTheta (Real.sqrt (Real.sqrt (p / pstar4)) * Real.sqrt (Real.sqrt (p / pstar4))) (Real.sqrt (Real.sqrt (p / pstar4)))) ≤ 0)
    (hne : satA (tsTheta (Real.sqrt (Real.sqrt (p / pstar4)) * Real.sqrt (Real.sqrt (p / pstar4))) (Real.sqrt (Real.sqrt (p / pstar4))))
        * Real.sqrt (Real.sqrt (p / pstar4))
      + satB (tsTheta (Real.sqrt (Real.sqrt (p / pstar4)) * Real.sqrt (Real.sqrt (p / pstar4))) (Real.sqrt (Real.sqrt (p / pstar4)))) ≠ 0)
    (hg : 0 ≤ (tsat p).toK ∧ (tsat p).toK ≤ tcritical) :
    sat (tsat p).toK = Ret.num p :=
  tsat_sat_inverse p h0 h1 hΔ hD hbr hne hg

/-- outside `[611.213 Pa, pcritical]` `tsat` returns `None` — so the inverse fails wherever `sat t`
    leaves that interval (which it does at the critical end: `sat(373.946) = 22064000.00032 > pcritical`,
    exhibited bit for bit by the driver corpus, facet `critical_end_witness`) -/
theorem tsat_outside_range (p : ℝ) (h : ¬(pmin ≤ p ∧ p ≤ pcritical)) : tsat p = Ret.none := tsat_none p h

/-- **`tsat (sat t) = t` for every `t` with 0.01 ≤ t ≤ 373.9 degC — no further hypothesis.**  The range tests of both
    routines and all branch conditions are *proved* on this interval, by an 85-piece cover of 273.16 K .. 647.05 K with
    interval enclosures of `ϑ, A, B, C, Δ, √Δ, β` whose numbers are checked by `norm_num`
    (`Proofs/ThermoSatPiece.lean`, `ThermoSatCover1..4.lean`).  What is left to `_partial` is only 373.9 .. 373.946 degC,
    the last 0.046 K, at whose end the statement is false (`sat_tsat_critical_end`). -/
theorem sat_tsat_inverse_on (t : ℝ) (h0 : 1 / 100 ≤ t) (h1 : t ≤ 3739 / 10) : tsat (sat t).toK = Ret.num t :=
  Proofs.Iapws.sat_tsat_inverse_on t h0 h1

/-- **`sat (tsat p) = p` for every pressure 613 Pa ≤ p ≤ 22.039 MPa — no further hypothesis** (`sat` is continuous on
    0.01 .. 373.9 degC, so by the intermediate value theorem every such `p` is a saturation pressure `sat t`; then
    `sat_tsat_inverse_on`; the two ends `sat 0.01 ≤ 613`, `sat 373.9 ≥ 22 039 000` come from the same enclosures) -/
theorem tsat_sat_inverse_on (p : ℝ) (h0 : 613 ≤ p) (h1 : p ≤ 22039000) : sat (tsat p).toK = Ret.num p :=
  Proofs.Iapws.tsat_sat_inverse_range p h0 h1

example : (1 / 100 : ℝ) ≤ 100 ∧ (100 : ℝ) ≤ 3739 / 10 ∧ (613 : ℝ) ≤ 101325 ∧ (101325 : ℝ) ≤ 22039000 := by norm_num

/-- non-vacuity: at `T = 500 K` and at `p = 1 MPa` all hypotheses of the four theorems above hold
    together (`exT_all`, `exP_all`: the square roots are enclosed between rationals), so they yield -/
example : tsat (sat ((500 : ℝ) - tc_k)).toK = Ret.num (500 - tc_k) := by
  obtain ⟨h0, h1, hΔ, hD, hβ, hbr, hne, hg1, hg2⟩ := exT_all
  exact sat_tsat_inverse_partial _ h0 h1 hΔ hD hβ hbr hne ⟨hg1, hg2⟩

example : sat (tsat (pstar4 : ℝ)).toK = Ret.num pstar4 := by
  obtain ⟨h0, h1, hΔ, hD, hbr, hne, hg1, hg2⟩ := exP_all
  exact tsat_sat_inverse_partial _ h0 h1 hΔ hD hbr hne ⟨hg1, hg2⟩

example : satPoly (satBeta (thetaOf ((500 : ℝ) - tc_k + tc_k))) (thetaOf ((500 : ℝ) - tc_k + tc_k)) = 0 := by
  obtain ⟨h0, h1, hΔ, hD, _⟩ := exT_all
  exact (sat_root _ h0 h1 hΔ hD).2

example : satPoly (Real.sqrt (Real.sqrt ((pstar4 : ℝ) / pstar4)))
    (tsTheta (Real.sqrt (Real.sqrt ((pstar4 : ℝ) / pstar4)) * Real.sqrt (Real.sqrt ((pstar4 : ℝ) / pstar4)))
      (Real.sqrt (Real.sqrt ((pstar4 : ℝ) / pstar4)))) = 0 := by
  obtain ⟨h0, h1, hΔ, hD, _⟩ := exP_all
  exact (tsat_root _ h0 h1 hΔ hD).2.2.1

/-- **The negative result at the critical end** (the known finding `sat-tsat-inverse:critical-end`),
    proved in exact real arithmetic on the code's own constants, not just observed in doubles:
    `sat tcritical > pcritical` (by 3.2e-4 Pa), hence `tsat (sat tcritical)` is `None` — the full-strength
    statement "`tsat (sat t) = t` on the closed interval" is *false* for this code, which is why
    `sat_tsat_inverse_partial` carries `hg`. -/
theorem sat_tsat_critical_end :
    (pcritical : ℝ) < (sat (tcritical : ℝ)).toK ∧ tsat (sat (tcritical : ℝ)).toK = Ret.none :=
  ⟨sat_critical_exceeds, tsat_sat_critical_none⟩

/-! ### viscosity is positive -/

/-- for **every** density and every temperature `t ≥ 0` degC the viscosity routine returns a positive
    number (`exp > 0`, `√τ > 0`, and the cubic `Σ h⁰ᵢ (T_c/T)ⁱ > 0` because `T_c/T ≤ 2.6`) -/
theorem visc_pos (d t : ℝ) (ht0 : 0 ≤ t) : ∃ μ, visc d t = Ret.num μ ∧ 0 < μ := Proofs.Iapws.visc_pos d t ht0

/-! ### the two forms of the region 2/3 boundary -/

/-- over the full 350..590 degC boundary `b23t (b23p t)` exceeds `t` by at most 1e-9 K -/
theorem b23_near_inverse (t : ℝ) (h0 : 350 ≤ t) (h1 : t ≤ 590) :
    ∃ p t', b23p t = Ret.num p ∧ b23t p = Ret.num t' ∧ 0 ≤ t' - t ∧ t' - t ≤ 1 / 1000000000 :=
  Proofs.Iapws.b23_near_inverse t h0 h1

/-- and `b23p (b23t p)` differs from `p` by at most 1e-4 Pa (1e-11 relative) over `16.5 … 100 MPa`,
    which contains the whole boundary `b23p 350 = 16.529 MPa … b23p 590 = 100 MPa` -/
theorem b23_near_inverse_p (p : ℝ) (h0 : 16500000 ≤ p) (h1 : p ≤ 100000000) :
    ∃ t p', b23t p = Ret.num t ∧ b23p t = Ret.num p' ∧ |p' - p| ≤ 1 / 10000 :=
  Proofs.Iapws.b23_near_inverse_p p h0 h1

end Props.C14
