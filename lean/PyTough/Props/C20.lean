/-
  C20 — Flavour conversion and Waiwera export keep the model, drop only what they say.
-/
import PyTough.Proofs.ConvertSpec
namespace Props.C20
open Py Model.Convert Gen.ConvertTables Proofs.Convert

/-! ## AUTOUGH2 → TOUGH2

  `convertToTough2 mp d = (d', none)` says: `convert_to_TOUGH2(MP = mp)` ran on the object `d`
  without raising and left `d'`.  (It can only raise on a LINEQ dict without a usable `type`.) -/

/-- The converted model declares itself TOUGH2 and holds no simulator name, no linear-solver
    data, no short-output data and no EOS name. -/
theorem to_tough2_declares_tough2 (mp : Bool) (d d' : T2) (h : convertToTough2 mp d = (d', none)) :
    d'.type = TOUGH2 ∧ d'.simulator = [] ∧ d'.lineq = [] ∧ d'.short = {} ∧ d'.multi.has kEos = false := by
  obtain ⟨st, _, rfl⟩ := convertToTough2_ok h
  exact ⟨rfl, rfl, rfl, rfl, multiA2T_no_eos _⟩

/-- It never raises when LINEQ is absent or has a numeric type. -/
theorem to_tough2_succeeds (mp : Bool) (d : T2)
    (h : d.lineq = [] ∨ ∃ i, Dict.get? d.lineq kType = some (.int i)) :
    ∃ d', convertToTough2 mp d = (d', none) := by
  rw [convertToTough2_eq]
  have : ∃ st, solverTypeOfLineq d.lineq = .ok st := by
    unfold solverTypeOfLineq
    rcases h with h | ⟨i, h⟩
    · simp [h]
    · split
      · exact ⟨_, rfl⟩
      · rw [h]; exact ⟨_, rfl⟩
  obtain ⟨st, hst⟩ := this
  rw [hst]
  exact ⟨_, rfl⟩

/-- No simulator, linear-solver or short-output section: none of the three keywords is among the
    sections whose data is present, nor in the section list once `update_sections` has run (that
    list is what `write` then prints); SIMUL and LINEQ are gone from `_sections` at once when no
    keyword was listed twice. -/
theorem to_tough2_no_autough2_sections (mp : Bool) (d d' : T2) (h : convertToTough2 mp d = (d', none)) :
    (∀ k ∈ [SIMUL, LINEQ, SHORT], k ∉ presentSections d' ∧ k ∉ (updateSections d').sections) ∧
    (d.sections.Nodup → SIMUL ∉ d'.sections ∧ LINEQ ∉ d'.sections) := by
  obtain ⟨st, _, rfl⟩ := convertToTough2_ok h
  · refine ⟨?_, ?_⟩
    · intro k hk
      rw [mem_updateSections, mem_presentSections]
      have : dataPresent (tough2Of mp st d) k = false := by
        simp only [List.mem_cons, List.mem_nil_iff, or_false] at hk
        rcases hk with rfl | rfl | rfl
        · rw [dataPresent_SIMUL]; rfl
        · rw [dataPresent_LINEQ]; rfl
        · rw [dataPresent_SHORT]; rfl
      simp [this]
    · intro hn
      show SIMUL ∉ (d.sections.erase SIMUL).erase LINEQ ∧ LINEQ ∉ (d.sections.erase SIMUL).erase LINEQ
      have h1 : (d.sections.erase SIMUL).Nodup := hn.erase _
      refine ⟨?_, ?_⟩
      · intro hm
        have := List.mem_of_mem_erase hm
        exact (List.Nodup.mem_erase_iff hn).mp this |>.1 rfl
      · intro hm
        exact (List.Nodup.mem_erase_iff h1).mp hm |>.1 rfl

/-- Every section other than SIMUL and LINEQ keeps its place in `_sections`. -/
theorem to_tough2_other_sections (mp : Bool) (d d' : T2) (h : convertToTough2 mp d = (d', none)) :
    d'.sections = (d.sections.erase SIMUL).erase LINEQ := by
  obtain ⟨st, _, rfl⟩ := convertToTough2_ok h
  rfl

/-- Generators: when the listed objects are distinct, the list afterwards consists of exactly
    the generators that are not to be deleted, in their order, each unchanged except that a
    convertible type is replaced as tabled; every type left is one TOUGH2 has. -/
theorem to_tough2_generators (mp : Bool) (d d' : T2) (h : convertToTough2 mp d = (d', none))
    (hid : (d.gens.map (·.id)).Nodup) :
    d'.gens = (d.gens.filter (fun g => !toDelete g)).map convGen ∧
    (∀ g ∈ d'.gens, isTough2Type g.type = true) ∧
    (∀ g, (convGen g).id = g.id ∧ (convGen g).block = g.block ∧ (convGen g).name = g.name ∧
          (convGen g).payload = g.payload ∧
          (convGen g).type = ((convert.lookup g.type).getD g.type)) := by
  obtain ⟨st, _, rfl⟩ := convertToTough2_ok h
  · have hg : (tough2Of mp st d).gens = (d.gens.filter (fun g => !toDelete g)).map convGen := by
      have := convertGenerators_gens d hid
      exact this
    refine ⟨hg, ?_, ?_⟩
    · intro g hm
      rw [hg] at hm
      obtain ⟨g0, hg0, rfl⟩ := List.mem_map.mp hm
      have hk := (List.mem_filter.mp hg0).2
      unfold convGen
      cases hl : convert.lookup g0.type with
      | none =>
        simp only [toDelete, hl, Option.isNone_none, Bool.true_and, Bool.not_not] at hk
        exact hk
      | some t =>
        simp only
        apply convert_targets_tough2 (g0.type, t)
        exact mem_of_lookup _ _ _ hl
    · intro g
      refine ⟨convGen_id g, convGen_block g, convGen_name g, convGen_payload g, ?_⟩
      unfold convGen
      cases convert.lookup g.type <;> rfl

end Props.C20
