/-
  C20 — Flavour conversion and Waiwera export keep the model, drop only what they say.

  Property theorems about `Model/Convert.lean` (model of t2data.convert_to_TOUGH2 / convert_to_AUTOUGH2 /
  the `type` setter / section bookkeeping / add_,delete_generator) and `Model/Waiwera.lean` (model of the
  EOS, rock-cell, boundary-set and source parts of t2data.json).  Proofs are in Proofs/Convert*.lean.

  Clause of the property                                   theorem(s)
  ------------------------------------------------------   ---------------------------------------------
  declares itself TOUGH2, nothing AUTOUGH2-specific         to_tough2_declares_tough2, to_tough2_no_autough2_sections,
    (simulator, LINEQ, SHORT sections, EOS name)              to_tough2_other_sections, to_tough2_succeeds
  no generator of a type TOUGH2 lacks; convertible          to_tough2_generators, to_tough2_lookup,
    converted, the rest deleted from list and lookup          to_tough2_list_lookup_consistent
  grid, rock types (apart from the conductivity             to_tough2_keeps_grid_and_history, to_tough2_rocks,
    rescaling), remaining generators, history unchanged       params_a2t_rocks
  (MOP option digits 0..9 in every position, MP on/off)     to_tough2_mop + mop_a2t_matches_code, to_autough2_mop + mop_t2a_matches_code
  the reverse conversion is the mirror image                to_autough2_declares_autough2, to_autough2_sections, to_autough2_keeps_model,
                                                              to_autough2_short, to_autough2_succeeds, to_autough2_requests_kept_partial (*)
  type property triggers conversion                         type_setter_dispatch
  the converted model survives a file round trip            converted_sections_ordered, section_ops_keep_order,
                                                              to_tough2_history_roundtrip_partial (*); bytes: oracle on the real write()/read()
  every non-boundary block in exactly one rock cell list    rock_cells_partition, rock_cells_own_type_exists, boundary_blocks_complement,
                                                              boundary_faces_partition
  every source has the cell index of its block;             sources_spec, source_cell_is_block_index
    one source per non-group generator
  EOS from the EOS entry or the simulator string            eos_explicit, eos_from_multi, eos_from_simulator, eos_detected_from_simulator

  (*) partial: the two GOFT clauses are false on the real code (known findings
  `goft-generator-request-lost-on-roundtrip`, `goft-block-request-dropped-to-autough2`); the proved
  statements carry the excluded class as a decidable hypothesis and `goft_generator_request_lost`,
  `goft_block_request_dropped` prove the failure on a concrete witness.
-/
import PyTough.Proofs.ConvertSpec
import PyTough.Proofs.ConvertWaiwera
import PyTough.Proofs.ConvertOrder
import PyTough.Proofs.ConvertGeneral
import PyTough.Proofs.ConvertShort
namespace Props.C20
open Py Model.Convert Gen.ConvertTables Proofs.Convert

/-! ## AUTOUGH2 → TOUGH2

  `convertToTough2 mp d = (d', none)` says: `convert_to_TOUGH2(MP = mp)` ran on the object `d`
  without raising and left `d'`.  (It can only raise on a LINEQ dict without a usable `type`.) -/

/-- The converted model declares itself TOUGH2 and holds no simulator name, no linear-solver
    data, no short-output data and no EOS name. -/
theorem to_tough2_declares_tough2 (mp : Bool) (d d' : T2) (h : convertToTough2 mp d = (d', none)) :
    d'.type = TOUGH2 ∧ d'.simulator = [] ∧ d'.lineq = [] ∧ d'.short = {} ∧ d'.multi.has kEos = false := by
  obtain ⟨st, _, rfl⟩ := convertToTough2_ok h
  exact ⟨rfl, rfl, rfl, rfl, multiA2T_no_eos _⟩

/-- It never raises when LINEQ is absent or has a numeric type. -/
theorem to_tough2_succeeds (mp : Bool) (d : T2)
    (h : d.lineq = [] ∨ ∃ i, Dict.get? d.lineq kType = some (.int i)) :
    ∃ d', convertToTough2 mp d = (d', none) := by
  rw [convertToTough2_eq]
  have : ∃ st, solverTypeOfLineq d.lineq = .ok st := by
    unfold solverTypeOfLineq
    rcases h with h | ⟨i, h⟩
    · simp [h]
    · split
      · exact ⟨_, rfl⟩
      · rw [h]; exact ⟨_, rfl⟩
  obtain ⟨st, hst⟩ := this
  rw [hst]
  exact ⟨_, rfl⟩

/-- No simulator, linear-solver or short-output section: none of the three keywords is among the
    sections whose data is present, nor in the section list once `update_sections` has run (that
    list is what `write` then prints); SIMUL and LINEQ are gone from `_sections` at once when no
    keyword was listed twice. -/
theorem to_tough2_no_autough2_sections (mp : Bool) (d d' : T2) (h : convertToTough2 mp d = (d', none)) :
    (∀ k ∈ [SIMUL, LINEQ, SHORT], k ∉ presentSections d' ∧ k ∉ (updateSections d').sections) ∧
    (d.sections.Nodup → SIMUL ∉ d'.sections ∧ LINEQ ∉ d'.sections) := by
  obtain ⟨st, _, rfl⟩ := convertToTough2_ok h
  · refine ⟨?_, ?_⟩
    · intro k hk
      rw [mem_updateSections, mem_presentSections]
      have : dataPresent (tough2Of mp st d) k = false := by
        simp only [List.mem_cons, List.mem_nil_iff, or_false] at hk
        rcases hk with rfl | rfl | rfl
        · rw [dataPresent_SIMUL]; rfl
        · rw [dataPresent_LINEQ]; rfl
        · rw [dataPresent_SHORT]; rfl
      simp [this]
    · intro hn
      show SIMUL ∉ (d.sections.erase SIMUL).erase LINEQ ∧ LINEQ ∉ (d.sections.erase SIMUL).erase LINEQ
      have h1 : (d.sections.erase SIMUL).Nodup := hn.erase _
      refine ⟨?_, ?_⟩
      · intro hm
        have := List.mem_of_mem_erase hm
        exact (List.Nodup.mem_erase_iff hn).mp this |>.1 rfl
      · intro hm
        exact (List.Nodup.mem_erase_iff h1).mp hm |>.1 rfl

/-- Every section other than SIMUL and LINEQ keeps its place in `_sections`. -/
theorem to_tough2_other_sections (mp : Bool) (d d' : T2) (h : convertToTough2 mp d = (d', none)) :
    d'.sections = (d.sections.erase SIMUL).erase LINEQ := by
  obtain ⟨st, _, rfl⟩ := convertToTough2_ok h
  rfl

/-- Generators, for *any* generator list (an object may be listed more than once; `SameObj` only says that
    entries with one identity are one record): the list afterwards consists of exactly the generators that are
    not to be deleted, in their order, each unchanged except that a convertible type is replaced as tabled;
    every type left is one TOUGH2 has. -/
theorem to_tough2_generators (mp : Bool) (d d' : T2) (h : convertToTough2 mp d = (d', none))
    (hid : SameObj d.gens) :
    d'.gens = (d.gens.filter (fun g => !toDelete g)).map convGen ∧
    (∀ g ∈ d'.gens, isTough2Type g.type = true) ∧
    (∀ g, (convGen g).id = g.id ∧ (convGen g).block = g.block ∧ (convGen g).name = g.name ∧
          (convGen g).payload = g.payload ∧
          (convGen g).type = ((convert.lookup g.type).getD g.type)) := by
  obtain ⟨st, _, rfl⟩ := convertToTough2_ok h
  · have hg : (tough2Of mp st d).gens = (d.gens.filter (fun g => !toDelete g)).map convGen := convGensList_eq d.gens hid
    refine ⟨hg, ?_, ?_⟩
    · intro g hm
      rw [hg] at hm
      obtain ⟨g0, hg0, rfl⟩ := List.mem_map.mp hm
      have hk := (List.mem_filter.mp hg0).2
      unfold convGen
      cases hl : convert.lookup g0.type with
      | none =>
        simp only [toDelete, hl, Option.isNone_none, Bool.true_and, Bool.not_not] at hk
        exact hk
      | some t =>
        simp only
        apply convert_targets_tough2 (g0.type, t)
        exact mem_of_lookup _ _ _ hl
    · intro g
      refine ⟨convGen_id g, convGen_block g, convGen_name g, convGen_payload g, ?_⟩
      unfold convGen
      cases convert.lookup g.type <;> rfl

/-- distinct objects are a special case -/
theorem distinct_objects_same_obj (gens : List Gener) (h : (gens.map (·.id)).Nodup) : SameObj gens :=
  sameObj_of_nodup gens h

/-- The lookup after conversion, with nothing assumed about what its entries point to (its keys are
    distinct because it is a dict): an entry disappears exactly when it is the entry *of* a deleted
    generator — stored under that generator's (block, name) and pointing to that very object.  So an
    unsupported generator leaves the lookup as well as the list; when two generators share a (block, name)
    the entry belongs to the one added last (`lookup_last_wins`), and deleting the other leaves it alone. -/
theorem to_tough2_lookup (mp : Bool) (d d' : T2) (h : convertToTough2 mp d = (d', none))
    (hk : (d.gendict.map (·.1)).Nodup) (e : (Str × Str) × Nat) :
    (e ∈ d'.gendict ↔
      e ∈ d.gendict ∧ ∀ g ∈ d.gens, toDelete g = true → ¬ (e.1 = (g.block, g.name) ∧ e.2 = g.id)) ∧
    (d'.gendict.map (·.1)).Nodup := by
  obtain ⟨st, _, rfl⟩ := convertToTough2_ok h
  exact ⟨convDict_mem d.gens d.gendict hk e, convDict_nodup_keys d.gens d.gendict hk⟩

/-- `self.generator[(block, name)] = gen` in `add_generator`: keys stay distinct, and after adding
    generators one by one the entry of a (block, name) points to the last one added under it. -/
theorem lookup_last_one_wins (gs : List Gener) (d : T2) (k : Str × Str) (hk : (d.gendict.map (·.1)).Nodup) :
    ((gs.foldl addGenerator d).gendict.lookup k =
      match gs.reverse.find? (fun g => (g.block, g.name) == k) with
      | some g => some g.id
      | none => d.gendict.lookup k) ∧
    ((gs.foldl addGenerator d).gendict.map (·.1)).Nodup := by
  refine ⟨lookup_last_wins gs d k, ?_⟩
  induction gs generalizing d with
  | nil => exact hk
  | cons g r ih => exact ih (addGenerator d g) (addGenerator_nodup_keys d g hk)

/-- List and lookup stay consistent: if every lookup entry pointed to a listed generator with that block
    and name, it still does, and no entry points to a deleted generator. -/
theorem to_tough2_list_lookup_consistent (mp : Bool) (d d' : T2) (h : convertToTough2 mp d = (d', none))
    (hid : SameObj d.gens) (hk : (d.gendict.map (·.1)).Nodup)
    (hin : ∀ e ∈ d.gendict, ∃ g ∈ d.gens, g.id = e.2 ∧ (g.block, g.name) = e.1) :
    ∀ e ∈ d'.gendict, ∃ g ∈ d'.gens, g.id = e.2 ∧ (g.block, g.name) = e.1 := by
  intro e he
  have hgens := (to_tough2_generators mp d d' h hid).1
  have hl := ((to_tough2_lookup mp d d' h hk e).1).mp he
  obtain ⟨g, hg, hge, hgk⟩ := hin e hl.1
  have hnd : toDelete g = false := by
    cases hd : toDelete g with
    | false => rfl
    | true => exact absurd ⟨hgk.symm, hge.symm⟩ (hl.2 g hg hd)
  refine ⟨convGen g, ?_, ?_, ?_⟩
  · rw [hgens]
    exact List.mem_map.mpr ⟨g, List.mem_filter.mpr ⟨hg, by simp [hnd]⟩, rfl⟩
  · rw [convGen_id]; exact hge
  · rw [convGen_block, convGen_name]; exact hgk

/-- Grid, the other sections' data and SOLVR data are untouched; the history lists are the former
    short-output lists (where SHORT had such a list; otherwise they stay as they were). -/
theorem to_tough2_keeps_grid_and_history (mp : Bool) (d d' : T2) (h : convertToTough2 mp d = (d', none)) :
    d'.blocks = d.blocks ∧ d'.other = d.other ∧ d'.solver = d.solver ∧
    d'.histBlock = d.short.block.getD d.histBlock ∧
    d'.histCon = d.short.con.getD d.histCon ∧
    d'.histGen = d.short.gen.getD d.histGen := by
  obtain ⟨st, _, rfl⟩ := convertToTough2_ok h
  exact ⟨rfl, rfl, rfl, rfl, rfl, rfl⟩

/-- Rock types: names, porosities and everything else stay; conductivities are multiplied by
    (1 − porosity) exactly when MOP(10) = 2, and are otherwise unchanged.  (Called through
    `convert_to_TOUGH2` the MOP(23) rule can never fire, because the simulator string has
    already been cleared; `params_a2t_rocks` below covers the parameter converter on its own.) -/
theorem to_tough2_rocks (mp : Bool) (d d' : T2) (h : convertToTough2 mp d = (d', none)) :
    d'.rocks = (if optAt d.option 10 = 2 then scaleRocks d.rocks else d.rocks) ∧
    d'.rocks.map (·.name) = d.rocks.map (·.name) ∧
    d'.rocks.map (·.porosity) = d.rocks.map (·.porosity) ∧
    d'.rocks.map (·.payload) = d.rocks.map (·.payload) ∧
    (scaleRocks d.rocks).map (·.conductivity) = d.rocks.map (fun r => r.conductivity * (1 - r.porosity)) := by
  obtain ⟨st, _, rfl⟩ := convertToTough2_ok h
  have hs := scaleRocks_fields d.rocks
  by_cases h10 : optAt d.option 10 = 2
  · have : (tough2Of mp st d).rocks = scaleRocks d.rocks := by
      simp [tough2Of, h10, Nat.repeat]
    rw [this, if_pos h10]
    exact ⟨rfl, hs.1, hs.2.1, hs.2.2.1, hs.2.2.2⟩
  · have : (tough2Of mp st d).rocks = d.rocks := by
      simp [tough2Of, h10, Nat.repeat]
    rw [this, if_neg h10]
    exact ⟨rfl, rfl, rfl, rfl, hs.2.2.2⟩

/-- The parameter converter called on its own (the simulator string still set): the number of
    rescalings is `condCount` — MOP(10)=2, plus MOP(23)=1 for AUTOUGH2 (not AUTOUGH2.2) / MULKOM. -/
theorem params_a2t_rocks (mp : Bool) (d d' : T2) (h : convParamsA2T mp d = (d', none)) :
    d'.rocks = Nat.repeat scaleRocks (condCount d.simulator (optAt d.option 10) (optAt d.option 23)) d.rocks := by
  unfold convParamsA2T at h
  simp only at h
  split at h
  · cases h
  · cases h; rfl

/-- MOP digits: position by position, as `specA2T` says, for every option vector.  MOP(21)
    becomes 4 or 5 according to the LINEQ type (0 under MP). -/
theorem to_tough2_mop (mp : Bool) (d d' : T2) (h : convertToTough2 mp d = (d', none)) :
    ∃ st, solverTypeOfLineq d.lineq = .ok st ∧
      ∀ i, d'.option[i]? = (d.option[i]?).map (specA2T mp st i) := by
  obtain ⟨st, hst, rfl⟩ := convertToTough2_ok h
  exact ⟨st, hst, fun i => mopA2T_pointwise mp st d.option i⟩

/-- ... and `specA2T` is what the real converter does to every digit 0..9 at every position, MP off
    and on (`tblMopA2T*` are evaluated on /repo's current code by the translator on every run). -/
theorem mop_a2t_matches_code :
    (List.range 25).all (fun i => (List.range 10).all fun x =>
      specA2T false 4 i x == (((tblMopA2T.getD i []).getD x 99 : Nat) : Int) &&
      specA2T true 4 i x == (((tblMopA2TMP.getD i []).getD x 99 : Nat) : Int)) = true :=
  mop_table_a2t

/-! ### the file round trip of the history requests

  Full statement (not provable, and false on the real code — known finding
  `goft-generator-request-lost-on-roundtrip`): *every* history list of the converted model is read
  back unchanged from the lines written for it.  Proved: this holds for FOFT and COFT, and for GOFT
  when the short output had no generator list (so `history_generator` holds no `t2generator`). -/
theorem to_tough2_history_roundtrip_partial (mp : Bool) (d d' : T2) (cons : List (Str × Str))
    (h : convertToTough2 mp d = (d', none))
    (hb : allGridBlocks d.blocks (d.short.block.getD d.histBlock) = true)
    (hc : allGridCons cons (d.short.con.getD d.histCon) = true)
    (hg : allGridBlocks d.blocks (d.short.gen.getD d.histGen) = true)   -- excludes t2generator items
    (hne : d.blocks ≠ []) :
    (∃ ls, writeNames d'.histBlock = some ls ∧ readNames d'.blocks ls = d'.histBlock) ∧
    (∃ ls, writeCons d'.histCon = some ls ∧ readCons d'.blocks cons ls = d'.histCon) ∧
    (∃ ls, writeNames d'.histGen = some ls ∧ readNames d'.blocks ls = d'.histGen) := by
  obtain ⟨e1, _, _, e2, e3, e4⟩ := to_tough2_keeps_grid_and_history mp d d' h
  rw [e1, e2, e3, e4]
  exact ⟨readNames_writeNames_blocks _ _ (allGridBlocks_spec _ _ hb), readCons_writeCons _ _ _ hne (allGridCons_spec _ _ hc),
         readNames_writeNames_blocks _ _ (allGridBlocks_spec _ _ hg)⟩

/-- the excluded class is where the real code fails: a model whose short output lists a generator -/
def witnessA : T2 :=
  { simulator := "AUTOUGH2.2EW".toList, sections := [SIMUL, ROCKS, PARAM, ELEME, CONNE, GENER, SHORT],
    blocks := ["  a 1".toList, "  b 1".toList],
    gens := [{ id := 1, block := "  a 1".toList, name := "wel 1".toList, type := "MASS".toList, payload := 0 }],
    gendict := [(("  a 1".toList, "wel 1".toList), 1)],
    short := { gen := some [.gen 1 "  a 1".toList "wel 1".toList] } }

theorem goft_generator_request_lost :
    let d' := (convertToTough2 false witnessA).1
    d'.histGen = [.gen 1 "  a 1".toList "wel 1".toList] ∧
    writeNames d'.histGen = some ["wel 1".toList] ∧          -- the generator's name is written under GOFT
    readNames d'.blocks ["wel 1".toList] = [] := by decide   -- and is not a block: the request is gone

/-! ## TOUGH2 → AUTOUGH2 (the mirror image) -/

/-- The converted model declares itself AUTOUGH2: the simulator string is the given name padded
    to 10 columns followed by the EOS, there is a LINEQ type from the table, MULTI (if present)
    names the EOS, and no SOLVR data or history list is left. -/
theorem to_autough2_declares_autough2 (mp : Bool) (sim eos : Str) (d d' : T2)
    (h : convertToAutough2 mp sim eos d = (d', none)) :
    d'.type = AUTOUGH2 ∧ d'.simulator = ljust sim 10 ++ eos ∧ d'.solver = [] ∧
    d'.histBlock = [] ∧ d'.histCon = [] ∧ d'.histGen = [] ∧
    (∃ ty, Dict.get? d'.lineq kType = some (.int ty) ∧ ty ∈ lineqTypes) ∧
    (d.multi ≠ [] → Dict.get? d'.multi kEos = some (.str eos)) ∧ (d.multi = [] → d'.multi = []) := by
  obtain ⟨ty, hty, rfl⟩ := convertToAutough2_ok h
  refine ⟨?_, rfl, rfl, rfl, rfl, rfl, ⟨ty, newLineq_type ty, lineqTypeOf_mem _ _ hty⟩, multiT2A_eos eos d.multi, ?_⟩
  · show (if (ljust sim 10 ++ eos).isEmpty then TOUGH2 else AUTOUGH2) = AUTOUGH2
    rw [ljust_append_ne_nil]; rfl
  · intro hm
    show multiNumInc (multiSetEos eos d.multi) = []
    rw [hm]; rfl

/-- It raises only when the SOLVR type is not an integer. -/
theorem to_autough2_succeeds (mp : Bool) (sim eos : Str) (d : T2)
    (h : mp = true ∨ Dict.get? d.solver kType = none ∨ ∃ i, Dict.get? d.solver kType = some (.int i)) :
    ∃ d', convertToAutough2 mp sim eos d = (d', none) := by
  rw [convertToAutough2_eq]
  have : ∃ ty, lineqTypeOf (solverTypeT2A mp d.solver d.option) = .ok ty := by
    unfold solverTypeT2A
    rcases h with h | h | ⟨i, h⟩
    · rw [h]; exact ⟨_, rfl⟩
    · cases mp
      · rw [h]; exact ⟨_, rfl⟩
      · exact ⟨_, rfl⟩
    · cases mp
      · rw [h]; exact ⟨_, rfl⟩
      · exact ⟨_, rfl⟩
  obtain ⟨ty, hty⟩ := this
  rw [hty]
  exact ⟨_, rfl⟩

/-- Sections: SIMUL and LINEQ are listed (SIMUL first when it was not listed before); no SOLVR,
    FOFT, COFT or GOFT data is present, so `write` prints none of them. -/
theorem to_autough2_sections (mp : Bool) (sim eos : Str) (d d' : T2)
    (h : convertToAutough2 mp sim eos d = (d', none)) :
    SIMUL ∈ d'.sections ∧ LINEQ ∈ d'.sections ∧
    (SIMUL ∉ d.sections → d'.sections = insertSectionL (SIMUL :: d.sections) LINEQ) ∧
    (∀ k ∈ [SOLVR, FOFT, COFT, GOFT], k ∉ presentSections d' ∧ k ∉ (updateSections d').sections) ∧
    (∀ k ∈ [SIMUL, LINEQ], k ∈ presentSections d' ∧ k ∈ (updateSections d').sections) := by
  obtain ⟨ty, hty, rfl⟩ := convertToAutough2_ok h
  refine ⟨?_, ?_, ?_, ?_, ?_⟩
  · show SIMUL ∈ insertSectionL (insertSectionL d.sections SIMUL) LINEQ
    rw [mem_insertSectionL, mem_insertSectionL]; exact Or.inr (Or.inl rfl)
  · show LINEQ ∈ insertSectionL (insertSectionL d.sections SIMUL) LINEQ
    rw [mem_insertSectionL]; exact Or.inl rfl
  · intro hs
    show insertSectionL (insertSectionL d.sections SIMUL) LINEQ = _
    rw [insert_SIMUL _ hs]
  · intro k hk
    rw [mem_updateSections, mem_presentSections]
    have : dataPresent (autough2Of mp sim eos ty d) k = false := by
      simp only [List.mem_cons, List.mem_nil_iff, or_false] at hk
      rcases hk with rfl | rfl | rfl | rfl
      · rw [dataPresent_SOLVR]; rfl
      · rw [dataPresent_FOFT]; rfl
      · rw [dataPresent_COFT]; rfl
      · rw [dataPresent_GOFT]; rfl
    simp [this]
  · intro k hk
    rw [mem_updateSections, mem_presentSections]
    have : k ∈ sections ∧ dataPresent (autough2Of mp sim eos ty d) k = true := by
      simp only [List.mem_cons, List.mem_nil_iff, or_false] at hk
      rcases hk with rfl | rfl
      · refine ⟨by decide, ?_⟩
        rw [dataPresent_SIMUL]
        show (!(ljust sim 10 ++ eos).isEmpty) = true
        rw [ljust_append_ne_nil]; rfl
      · refine ⟨by decide, ?_⟩
        rw [dataPresent_LINEQ]
        show (!(newLineq ty).isEmpty) = true
        simp [newLineq, lineqKeys]
    exact ⟨this, this⟩

/-- Grid, rock types, generators and their lookup are untouched. -/
theorem to_autough2_keeps_model (mp : Bool) (sim eos : Str) (d d' : T2)
    (h : convertToAutough2 mp sim eos d = (d', none)) :
    d'.blocks = d.blocks ∧ d'.rocks = d.rocks ∧ d'.gens = d.gens ∧ d'.gendict = d.gendict ∧ d'.other = d.other := by
  obtain ⟨ty, _, rfl⟩ := convertToAutough2_ok h
  exact ⟨rfl, rfl, rfl, rfl, rfl⟩

/-- MOP digits, position by position (`specT2A`), and the table evaluated on the real code. -/
theorem to_autough2_mop (mp : Bool) (sim eos : Str) (d d' : T2)
    (h : convertToAutough2 mp sim eos d = (d', none)) :
    ∀ i, d'.option[i]? = (d.option[i]?).map (specT2A mp i) := by
  obtain ⟨ty, _, rfl⟩ := convertToAutough2_ok h
  exact fun i => mopT2A_pointwise mp d.option i

theorem mop_t2a_matches_code :
    (List.range 25).all (fun i => (List.range 10).all fun x =>
      specT2A false i x == (((tblMopT2A.getD i []).getD x 99 : Nat) : Int) &&
      specT2A true i x == (((tblMopT2AMP.getD i []).getD x 99 : Nat) : Int)) = true :=
  mop_table_t2a

/-- The history requests become the short output: block objects of FOFT, connection objects of
    COFT and generator objects of GOFT are kept in their order (a list with no such item gives no
    key); bare names are dropped, as documented. -/
theorem to_autough2_short (mp : Bool) (sim eos : Str) (d d' : T2)
    (h : convertToAutough2 mp sim eos d = (d', none)) :
    d'.short.freq = none ∧
    d'.short.block = keepNonEmpty (d.histBlock.filter Item.isBlk) ∧
    d'.short.con = keepNonEmpty (d.histCon.filter Item.isCon) ∧
    d'.short.gen = keepNonEmpty (d.histGen.filter Item.isGen) := by
  obtain ⟨ty, _, rfl⟩ := convertToAutough2_ok h
  exact ⟨rfl, rfl, rfl, rfl⟩

/-- Full statement (not provable; false on the real code — known finding
    `goft-block-request-dropped-to-autough2`): every history request that refers to an object is
    still requested in the short output.  Proved: for FOFT and COFT always; for GOFT only vacuously,
    i.e. when `history_generator` is empty. -/
theorem to_autough2_requests_kept_partial (mp : Bool) (sim eos : Str) (d d' : T2)
    (h : convertToAutough2 mp sim eos d = (d', none)) (hg : d.histGen = []) :
    (∀ it ∈ d.histBlock, it.isBlk = true → ∃ l, d'.short.block = some l ∧ it ∈ l) ∧
    (∀ it ∈ d.histCon, it.isCon = true → ∃ l, d'.short.con = some l ∧ it ∈ l) ∧
    (∀ it ∈ d.histGen, ∃ l, d'.short.gen = some l ∧ it ∈ l) := by
  obtain ⟨hf, hb, hc, _⟩ := to_autough2_short mp sim eos d d' h
  refine ⟨?_, ?_, ?_⟩
  · intro it hi hk
    have hm : it ∈ d.histBlock.filter Item.isBlk := List.mem_filter.mpr ⟨hi, hk⟩
    refine ⟨_, ?_, hm⟩
    rw [hb]; unfold keepNonEmpty
    cases hl : d.histBlock.filter Item.isBlk with
    | nil => rw [hl] at hm; cases hm
    | cons _ _ => rfl
  · intro it hi hk
    have hm : it ∈ d.histCon.filter Item.isCon := List.mem_filter.mpr ⟨hi, hk⟩
    refine ⟨_, ?_, hm⟩
    rw [hc]; unfold keepNonEmpty
    cases hl : d.histCon.filter Item.isCon with
    | nil => rw [hl] at hm; cases hm
    | cons _ _ => rfl
  · intro it hi
    rw [hg] at hi; cases hi

/-- **The SHORT section of the converted model survives being written and read back** (the mirror of
    `to_tough2_history_roundtrip_partial`): heading line, the ELEME / CONNE / GENER sub-sections that are present,
    every item resolved against the grid and the generator lookup.  Hypotheses (all decidable): the block
    objects of FOFT are blocks of the grid, the connection objects of COFT connections of the grid, and the
    generator objects of GOFT are what the lookup holds under their (block, name); names are five characters,
    not blank, and not `ELEME` / `CONNE` / `GENER`.  What comes back is the short output itself, with the
    `frequency` key present and `None` (the reader always sets it). -/
theorem to_autough2_short_roundtrip (mp : Bool) (sim eos : Str) (d d' : T2) (cons : List (Str × Str))
    (h : convertToAutough2 mp sim eos d = (d', none))
    (hb : goodBlocks d.blocks (d.histBlock.filter Item.isBlk) = true)
    (hc : goodCons cons (d.histCon.filter Item.isCon) = true)
    (hg : goodGens d.gendict (d.histGen.filter Item.isGen) = true) :
    ∃ hd body, writeShort d'.short = some (hd, body) ∧
      readShort d'.blocks cons d'.gendict hd body = .ok { d'.short with freq := some .none } := by
  obtain ⟨hf, hsb, hsc, hsg⟩ := to_autough2_short mp sim eos d d' h
  obtain ⟨e1, _, _, e2, _⟩ := to_autough2_keeps_model mp sim eos d d' h
  have key : ∀ (good : List Item → Bool) (l : List Item), good l = true → ∀ l', keepNonEmpty l = some l' → good l' = true := by
    intro good l hl l' hk
    unfold keepNonEmpty at hk
    split at hk
    · cases hk
    · cases hk; exact hl
  have := short_lines_roundtrip d'.blocks cons d'.gendict d'.short (by rw [hf]; rfl)
    (fun l hl => by rw [e1]; exact key _ _ hb l (hsb ▸ hl))
    (fun l hl => key _ _ hc l (hsc ▸ hl))
    (fun l hl => by rw [e2]; exact key _ _ hg l (hsg ▸ hl))
  rw [hf] at this
  exact this

/-- and for any short output (frequency 0..99 in its two columns): the general statement -/
theorem short_section_roundtrip (blocks : List Str) (cons : List (Str × Str)) (dict : GDict) (so : Short)
    (hf : goodFreq so.freq = true)
    (hb : ∀ l, so.block = some l → goodBlocks blocks l = true)
    (hc : ∀ l, so.con = some l → goodCons cons l = true)
    (hg : ∀ l, so.gen = some l → goodGens dict l = true) :
    ∃ hd body, writeShort so = some (hd, body) ∧
      readShort blocks cons dict hd body = .ok { so with freq := some (canonFreq so.freq) } :=
  short_lines_roundtrip blocks cons dict so hf hb hc hg

/-- the excluded class is where the real code fails: a GOFT request as `read` stores it -/
def witnessT : T2 :=
  { sections := [ROCKS, PARAM, ELEME, CONNE, GENER, GOFT], blocks := ["  a 1".toList],
    gens := [{ id := 1, block := "  a 1".toList, name := "wel 1".toList, type := "MASS".toList, payload := 0 }],
    gendict := [(("  a 1".toList, "wel 1".toList), 1)],
    histGen := [.blk "  a 1".toList] }

theorem goft_block_request_dropped :
    (convertToAutough2 false defaultSimulator defaultEos witnessT).1.short.gen = none ∧
    (convertToAutough2 false defaultSimulator defaultEos witnessT).1.histGen = [] := by decide

/-! ## the `type` property -/

/-- Setting `type` converts exactly when the flavour differs (with the default arguments), leaves
    the object alone when it does not, and rejects any other string. -/
theorem type_setter_dispatch (v : Str) (d : T2) :
    setType v d =
      if v = AUTOUGH2 ∨ v = TOUGH2 then
        (if d.type = v then (d, none)
         else if v = TOUGH2 then convertToTough2 false d
         else convertToAutough2 false defaultSimulator defaultEos d)
      else (d, some .generic) := by
  unfold setType
  rw [type_names_table]
  have hne : AUTOUGH2 ≠ TOUGH2 := by decide
  by_cases h1 : v = AUTOUGH2
  · subst h1
    simp only [List.contains_cons, beq_self_eq_true, Bool.true_or, if_true, true_or]
    by_cases ht : d.type = AUTOUGH2
    · simp [ht]
    · have : d.type = TOUGH2 := by
        unfold T2.type at ht ⊢
        split <;> simp_all
      simp [this, hne, Ne.symm hne]
  · by_cases h2 : v = TOUGH2
    · subst h2
      have hc : [AUTOUGH2, TOUGH2].contains TOUGH2 = true := by decide
      simp only [hc, if_true, or_true]
      by_cases ht : d.type = TOUGH2
      · simp [ht]
      · have : d.type = AUTOUGH2 := by
          unfold T2.type at ht ⊢
          split <;> simp_all
        simp [this, hne]
    · have hc : [AUTOUGH2, TOUGH2].contains v = false := by simp [h1, h2]
      simp [h1, h2]


/-! ## the section list stays readable

  `Ordered secs`: the keywords of `secs` are keywords of `t2data_sections`, in its relative order,
  none twice — what `read` leaves in `_sections` for a file PyTOUGH itself wrote, and what `read`
  needs (ROCKS before ELEME before CONNE before GENER, SHORT, FOFT, COFT, GOFT). -/

/-- `insert_section`, `delete_section` and `update_sections` keep a section list in standard order. -/
theorem section_ops_keep_order (d : T2) (s : Str) (ho : Ordered d.sections) :
    (s ∈ sections → Ordered (insertSection d s).sections) ∧ Ordered (deleteSection d s).sections ∧
    Ordered (updateSections d).sections :=
  ⟨fun hs => ordered_insert _ _ ho hs, ordered_erase _ _ ho,
   ordered_updateSectionsL _ _ (fun k hk => (mem_presentSections d k).mp hk |>.1) ho⟩

/-- After either conversion the section list is still in standard order, and so is the list `write`
    prints (after `update_sections`), which holds each present section exactly once: the converted
    model is written as a file whose sections `read` meets in the order it needs. -/
theorem converted_sections_ordered (d d' : T2) (ho : Ordered d.sections)
    (h : (∃ mp, convertToTough2 mp d = (d', none)) ∨ (∃ mp sim eos, convertToAutough2 mp sim eos d = (d', none))) :
    Ordered d'.sections ∧ Ordered (updateSections d').sections ∧ (updateSections d').sections.Nodup ∧
    ∀ k, k ∈ (updateSections d').sections ↔ k ∈ sections ∧ dataPresent d' k = true := by
  have hd' : Ordered d'.sections := by
    rcases h with ⟨mp, h⟩ | ⟨mp, sim, eos, h⟩
    · obtain ⟨st, _, rfl⟩ := convertToTough2_ok h
      exact ordered_erase _ _ (ordered_erase _ _ ho)
    · obtain ⟨ty, _, rfl⟩ := convertToAutough2_ok h
      exact ordered_insert _ _ (ordered_insert _ _ ho (by decide)) (by decide)
  have hu := ordered_updateSectionsL (presentSections d') d'.sections (fun k hk => (mem_presentSections d' k).mp hk |>.1) hd'
  exact ⟨hd', hu, ordered_nodup _ hu, mem_updateSections d'⟩

/-! ## add_generator / delete_generator, insert_section / delete_section -/

/-- `add_generator` appends the generator and makes the lookup entry of its (block, name) point to it. -/
theorem add_generator_spec (d : T2) (g : Gener) :
    (addGenerator d g).gens = d.gens ++ [g] ∧
    (addGenerator d g).gendict.lookup (g.block, g.name) = some g.id ∧
    (∀ k, k ≠ (g.block, g.name) → (addGenerator d g).gendict.lookup k = d.gendict.lookup k) := by
  refine ⟨rfl, ?_, ?_⟩
  · show (gdSet d.gendict (g.block, g.name) g.id).lookup (g.block, g.name) = some g.id
    generalize d.gendict = dc
    induction dc with
    | nil => simp [gdSet]
    | cons x r ih =>
      obtain ⟨a, b⟩ := x
      unfold gdSet
      by_cases h : a = (g.block, g.name)
      · subst h; simp
      · have h1 : (a == (g.block, g.name)) = false := by simpa using h
        have h2 : ((g.block, g.name) == a) = false := by simpa using (fun h' : (g.block, g.name) = a => h h'.symm)
        simp only [h1, Bool.false_eq_true, if_false, List.lookup_cons, h2]
        exact ih
  · intro k hk
    show (gdSet d.gendict (g.block, g.name) g.id).lookup k = d.gendict.lookup k
    generalize d.gendict = dc
    induction dc with
    | nil =>
      have : (k == (g.block, g.name)) = false := by simpa using hk
      simp [gdSet, List.lookup_cons, this]
    | cons x r ih =>
      obtain ⟨a, b⟩ := x
      unfold gdSet
      by_cases ha : a = (g.block, g.name)
      · subst ha
        have : (k == (g.block, g.name)) = false := by simpa using hk
        simp [List.lookup_cons, this]
      · have h1 : (a == (g.block, g.name)) = false := by simpa using ha
        simp only [h1, Bool.false_eq_true, if_false, List.lookup_cons]
        cases (k == a) <;> simp [ih]

/-- `delete_generator` removes the lookup entry and the generator it points to — or raises and
    changes nothing (KeyError for an unknown key, ValueError when the object is not listed). -/
theorem delete_generator_spec (d : T2) (key : Str × Str) :
    (∀ d', deleteGenerator d key = (d', none) →
        ∃ gid i, d.gendict.lookup key = some gid ∧ d.gens.findIdx? (·.id == gid) = some i ∧
          d'.gens = d.gens.eraseIdx i ∧ d'.gendict = d.gendict.filter (·.1 != key) ∧ d'.gendict.lookup key = none) ∧
    (∀ d' e, deleteGenerator d key = (d', some e) → d' = d) := by
  unfold deleteGenerator
  refine ⟨?_, ?_⟩
  · intro d' h
    cases hl : d.gendict.lookup key with
    | none => rw [hl] at h; cases h
    | some gid =>
      rw [hl] at h
      simp only at h
      cases hi : d.gens.findIdx? (·.id == gid) with
      | none => rw [hi] at h; cases h
      | some i =>
        rw [hi] at h
        cases h
        refine ⟨gid, i, rfl, hi, rfl, rfl, ?_⟩
        show (d.gendict.filter (·.1 != key)).lookup key = none
        generalize d.gendict = dc
        induction dc with
        | nil => rfl
        | cons e r ih =>
          obtain ⟨k, v⟩ := e
          by_cases hk : k = key
          · subst hk; simpa using ih
          · have : (key == k) = false := by simpa using (fun h : key = k => hk h.symm)
            simpa [List.filter_cons, hk, List.lookup_cons, this] using ih
  · intro d' e h
    cases hl : d.gendict.lookup key with
    | none => rw [hl] at h; cases h; rfl
    | some gid =>
      rw [hl] at h
      simp only at h
      cases hi : d.gens.findIdx? (·.id == gid) with
      | none => rw [hi] at h; cases h; rfl
      | some i => rw [hi] at h; cases h

/-- `insert_section` lists the keyword (once: nothing happens when it is listed already) and keeps
    every other keyword; `delete_section` removes one occurrence and nothing else. -/
theorem insert_delete_section_spec (d : T2) (s k : Str) :
    (k ∈ (insertSection d s).sections ↔ k = s ∨ k ∈ d.sections) ∧
    (s ∈ d.sections → (insertSection d s).sections = d.sections) ∧
    ((insertSection d s).sections.count s = max 1 (d.sections.count s)) ∧
    ((deleteSection d s).sections.count k = d.sections.count k - if s = k then 1 else 0) := by
  refine ⟨mem_insertSectionL _ _ _, ?_, ?_, ?_⟩
  · intro h
    show insertSectionL d.sections s = d.sections
    unfold insertSectionL
    have : d.sections.contains s = true := by simpa using h
    rw [this]; rfl
  · show (insertSectionL d.sections s).count s = _
    unfold insertSectionL
    by_cases h : s ∈ d.sections
    · have hc : d.sections.contains s = true := by simpa using h
      rw [hc]
      simp only [if_true]
      have := List.count_pos_iff.mpr h
      omega
    · have hc : d.sections.contains s = false := by simpa using h
      rw [hc]
      simp only [Bool.false_eq_true, if_false, listInsert]
      have h0 : d.sections.count s = 0 := List.count_eq_zero.mpr h
      have h1 : (d.sections.take (sectionInsertionIndex d.sections s)).count s = 0 :=
        List.count_eq_zero.mpr (fun hm => h (List.mem_of_mem_take hm))
      have h2 : (d.sections.drop (sectionInsertionIndex d.sections s)).count s = 0 :=
        List.count_eq_zero.mpr (fun hm => h (List.mem_of_mem_drop hm))
      simp [List.count_append, h0, h1, h2]
  · show (d.sections.erase s).count k = _
    rw [List.count_erase]
    by_cases h : s = k <;> simp [h]

/-! ## Waiwera export -/

section Waiwera
open Model.Waiwera Proofs.Waiwera

/-- Rock cells: when `rocks_json` returns, block number `i` of the geometry (cell `i − nAtm`)
    occurs exactly once in the cell list of its own rock type if `0 < volume < atmos_volume`, and in
    no other list; a boundary block (zero or huge volume) occurs in none.  There is one list per
    rock type. -/
theorem rock_cells_partition (rockNames geoNames : List Str) (nAtm : Nat) (blocks : List WBlock) (atmos : Rat)
    (cells : List (List Int)) (h : rockCells rockNames geoNames nAtm blocks atmos = .ok cells)
    (hn : geoNames.Nodup) (i : Nat) (hi : i < geoNames.length) (b : WBlock)
    (hb : findBlock blocks geoNames[i] = some b) (r : Nat) :
    cells.length = rockNames.length ∧
    (cells.getD r []).count ((i : Int) - nAtm) =
      if interior atmos b = true ∧ lastIdx rockNames b.rock = some r then 1 else 0 :=
  rock_cells_count rockNames geoNames nAtm blocks atmos cells h hn i hi b hb r

/-- ... and a non-boundary block always has such a list: `rocks_json` cannot return without having
    found the block's rock type among the rock types. -/
theorem rock_cells_own_type_exists (rockNames geoNames : List Str) (nAtm : Nat) (blocks : List WBlock) (atmos : Rat)
    (cells : List (List Int)) (h : rockCells rockNames geoNames nAtm blocks atmos = .ok cells)
    (n : Str) (hm : n ∈ geoNames) :
    ∃ b, findBlock blocks n = some b ∧ (interior atmos b = true → ∃ r, lastIdx rockNames b.rock = some r) := by
  unfold rockCells at h
  generalize (rockNames.map fun _ => ([] : List Int)) = init at h
  have key : ∀ (todo : List Str) (cs res : List (List Int)),
      rockCellsLoop rockNames geoNames nAtm blocks atmos todo cs = .ok res → n ∈ todo →
      ∃ b, findBlock blocks n = some b ∧ (interior atmos b = true → ∃ r, lastIdx rockNames b.rock = some r) := by
    intro todo
    induction todo with
    | nil => intro _ _ _ hm; cases hm
    | cons m rest ih =>
      intro cs res hl hm
      unfold rockCellsLoop at hl
      cases hb : findBlock blocks m with
      | none => rw [hb] at hl; cases hl
      | some b =>
        rw [hb] at hl
        simp only at hl
        cases hi : lastIdx geoNames b.name with
        | none => rw [hi] at hl; cases hl
        | some i =>
          rw [hi] at hl
          simp only at hl
          by_cases hint : interior atmos b = true
          · rw [if_pos hint] at hl
            cases hr : lastIdx rockNames b.rock with
            | none => rw [hr] at hl; cases hl
            | some r0 =>
              rw [hr] at hl
              rcases List.mem_cons.mp hm with rfl | hm'
              · exact ⟨b, hb, fun _ => ⟨r0, hr⟩⟩
              · exact ih _ _ hl hm'
          · rw [if_neg hint] at hl
            rcases List.mem_cons.mp hm with rfl | hm'
            · exact ⟨b, hb, fun hc => absurd hc hint⟩
            · exact ih _ _ hl hm'
  exact key geoNames init cells h hm

/-- the boundary blocks `boundaries_json` looks at are exactly the blocks left out of the rock cells -/
theorem boundary_blocks_complement (blocks : List WBlock) (atmos : Rat) (b : WBlock) (hb : b ∈ blocks) :
    b.name ∈ boundaryBlocks blocks atmos ∨ interior atmos b = true := by
  by_cases h : interior atmos b = true
  · exact Or.inr h
  · left
    unfold boundaryBlocks
    exact List.mem_map.mpr ⟨b, List.mem_filter.mpr ⟨hb, by simpa using h⟩, rfl⟩

/-- Boundary faces: when the faces loops of `boundaries_json` return, the boundary entries are — in the order
    of `grid.blocklist` — exactly the boundary blocks (volume ≤ 0 or ≥ `atmos_volume`) that have at least
    one non-boundary neighbour, each with the cell indices of its non-boundary neighbours, one per connection
    (`nbCells`, characterised by the last clause); a boundary block without such a neighbour yields no entry
    (the d9f6fbf repair), and a non-boundary block never does. -/
theorem boundary_faces_partition (geoNames : List Str) (nAtm : Nat) (blocks : List WBlock) (atmos : Rat)
    (conns : List (Str × Str)) (faces : List (Str × List Int))
    (h : boundaryFaces geoNames nAtm blocks atmos conns = .ok faces) :
    faces = blocks.filterMap (bdyEntry geoNames nAtm blocks atmos conns) ∧
    (∀ b ∈ blocks, interior atmos b = false → nbCells geoNames nAtm blocks atmos conns b.name ≠ [] →
        (b.name, nbCells geoNames nAtm blocks atmos conns b.name) ∈ faces) ∧
    (∀ e ∈ faces, ∃ b ∈ blocks, interior atmos b = false ∧ e = (b.name, nbCells geoNames nAtm blocks atmos conns b.name) ∧
        e.2 ≠ []) ∧
    (∀ b x, x ∈ nbCells geoNames nAtm blocks atmos conns b ↔
      ∃ c ∈ conns, (c.1 = b ∨ c.2 = b) ∧ ∃ w i, findBlock blocks (otherEnd c b) = some w ∧ interior atmos w = true ∧
        lastIdx geoNames (otherEnd c b) = some i ∧ x = (i : Int) - nAtm) := by
  have hf : faces = blocks.filterMap (bdyEntry geoNames nAtm blocks atmos conns) := boundaryFacesLoop_eq _ _ _ _ _ _ _ h
  refine ⟨hf, ?_, ?_, fun b x => mem_nbCells geoNames nAtm blocks atmos conns b x⟩
  · intro b hb hi hne
    rw [hf, List.mem_filterMap]
    refine ⟨b, hb, ?_⟩
    have hi' : ¬ interior atmos b = true := by simp [hi]
    rw [bdyEntry_boundary _ _ _ _ _ _ hi']
    have : (nbCells geoNames nAtm blocks atmos conns b.name).isEmpty = false := by
      cases hh : nbCells geoNames nAtm blocks atmos conns b.name with
      | nil => exact absurd hh hne
      | cons _ _ => rfl
    simp [this]
  · intro e he
    rw [hf, List.mem_filterMap] at he
    obtain ⟨b, hb, hbe⟩ := he
    by_cases hi : interior atmos b = true
    · rw [bdyEntry_interior _ _ _ _ _ _ hi] at hbe; cases hbe
    · rw [bdyEntry_boundary _ _ _ _ _ _ hi] at hbe
      have hi' : interior atmos b = false := by simpa using hi
      by_cases hem : (nbCells geoNames nAtm blocks atmos conns b.name).isEmpty = true
      · rw [if_pos hem] at hbe; cases hbe
      · rw [if_neg hem] at hbe
        cases hbe
        refine ⟨b, hb, hi', rfl, ?_⟩
        intro h0
        simp only at h0
        rw [h0] at hem
        exact hem rfl

/-- Sources: when `generators_json` returns, `source` has exactly one entry per generator whose
    type is not the group type (TMAK), in order, and the entry's `cell` is `cellOf` of the
    generator's block; no generator has an unsupported type. -/
theorem sources_spec (geoNames : List Str) (nAtm : Nat) (gens : List Gener) (dictSize : Nat) (ss : List Source)
    (h : sources geoNames nAtm gens dictSize = .ok ss) :
    ss.map (·.cell) = (gens.filter (fun g => g.type != groupType)).map (fun g => cellOf geoNames nAtm g.block) ∧
    ss.length = (gens.filter (fun g => g.type != groupType)).length ∧
    ∀ g ∈ gens, unsupportedGenTypes.contains g.type = false := by
  unfold sources at h
  have h1 := sourcesLoop_cells _ _ _ _ _ _ _ h
  simp only [List.map_nil, List.nil_append] at h1
  refine ⟨h1, ?_, sourcesLoop_supported _ _ _ _ _ _ _ h⟩
  have := congrArg List.length h1
  simpa using this

/-- `cellOf` is the cell index of the block: position in the geometry's block list minus the
    number of atmosphere blocks; `None` for an atmosphere block or a block the geometry lacks. -/
theorem source_cell_is_block_index (geoNames : List Str) (nAtm : Nat) (hn : geoNames.Nodup) :
    (∀ i (hi : i < geoNames.length), cellOf geoNames nAtm geoNames[i] = if i < nAtm then none else some ((i : Int) - nAtm)) ∧
    (∀ b, b ∉ geoNames → cellOf geoNames nAtm b = none) := by
  refine ⟨?_, ?_⟩
  · intro i hi
    unfold cellOf
    rw [lastIdx_getElem geoNames hn i hi]
    simp only
    by_cases h : i < nAtm
    · have : (i : Int) - nAtm < 0 := by omega
      simp [h, this]
    · have : ¬ (i : Int) - nAtm < 0 := by omega
      simp [h, this]
  · intro b hb
    unfold cellOf
    rw [(lastIdx_none geoNames b).mpr hb]

/-- EOS given explicitly by a supported name. -/
theorem eos_explicit (s w : Str) (multi : Dict) (sim : Str) (n : Nat) (hs : s ≠ [])
    (h : supportedEos.lookup s = some w) (hw : w = ['w'] → 2 ≤ n) :
    eosJson (.name s) multi sim n = .ok { name := w, tracer := tracerEos.contains s } := by
  unfold eosJson aut2EosName
  have : s.isEmpty = false := by cases s <;> simp_all
  simp only [this, Bool.false_eq_true, if_false, h]
  split
  · rename_i hc; exact absurd (hw hc.1) (by omega)
  · rfl

/-- EOS given by the MULTI entry: it wins over whatever the simulator string says. -/
theorem eos_from_multi (s w : Str) (multi : Dict) (sim : Str) (n : Nat)
    (hm : Dict.get? multi kEos = some (.str s)) (hs : strip s ≠ [])
    (h : supportedEos.lookup (strip s) = some w) (hw : w = ['w'] → 2 ≤ n) :
    eosJson .none multi sim n = .ok { name := w, tracer := tracerEos.contains (strip s) } := by
  have hne : multi.isEmpty = false := by
    cases multi with
    | nil => simp [Dict.get?] at hm
    | cons _ _ => rfl
  have hsne : s.isEmpty = false := by
    cases s with
    | nil => exact absurd rfl hs
    | cons _ _ => rfl
  have hfm : eosFromMulti multi = strip s := by
    unfold eosFromMulti
    simp [hne, hm, hsne]
  have hst : (strip s).isEmpty = false := by
    cases hh : strip s with
    | nil => exact absurd hh hs
    | cons _ _ => rfl
  unfold eosJson aut2EosName
  simp only [hfm, hst, Bool.false_and, Bool.false_eq_true, if_false, h]
  split
  · rename_i hc; exact absurd (hw hc.1) (by omega)
  · rfl

/-- EOS given only by the simulator string (no usable MULTI entry): the name picked is a supported
    key that ends the simulator string, and every supported key that ends the simulator string is
    a suffix of it — i.e. it is the longest supported suffix (`AUTOUGH2.2EW` gives EW, not W). -/
theorem eos_from_simulator (multi : Dict) (sim : Str) (hm : eosFromMulti multi = []) (hs : sim ≠ []) :
    aut2EosName .none multi sim = eosFromSimulator sim ∧
    (∀ k ∈ supportedEos, k.1 <:+ sim → k.1 <:+ eosFromSimulator sim) ∧
    (eosFromSimulator sim = [] ∨ ∃ e ∈ supportedEos, eosFromSimulator sim = e.1 ∧ e.1 <:+ sim) := by
  have hsim : sim.isEmpty = false := by cases sim <;> simp_all
  refine ⟨?_, ?_, ?_⟩
  · unfold aut2EosName
    simp [hm, hsim]
  · intro k hk hks
    exact key_suffix_foldl sim supportedEos [] supportedEos_laterLonger k hk hks
  · exact foldl_is_key_or_acc sim supportedEos []

/-- hence a simulator string that ends in a supported EOS name is recognised -/
theorem eos_detected_from_simulator (multi : Dict) (sim : Str) (n : Nat) (hm : eosFromMulti multi = [])
    (k : Str × Str) (hk : k ∈ supportedEos) (hks : k.1 <:+ sim) (hn : 2 ≤ n) :
    ∃ o, eosJson .none multi sim n = .ok o ∧ ∃ e ∈ supportedEos, o.name = e.2 ∧ k.1 <:+ e.1 ∧ e.1 <:+ sim := by
  have hkne : k.1 ≠ [] := by
    have : ∀ e ∈ supportedEos, e.1 ≠ [] := by decide
    exact this k hk
  have hs : sim ≠ [] := by
    intro h0
    rw [h0] at hks
    exact hkne (List.suffix_nil.mp hks)
  obtain ⟨h1, h2, h3⟩ := eos_from_simulator multi sim hm hs
  have hsuf := h2 k hk hks
  rcases h3 with h0 | ⟨e, he, hee, hes⟩
  · rw [h0] at hsuf
    exact absurd (List.suffix_nil.mp hsuf) hkne
  · have hl : supportedEos.lookup e.1 = some e.2 := by
      have : ∀ e ∈ supportedEos, supportedEos.lookup e.1 = some e.2 := by decide
      exact this e he
    have hene : (e.1).isEmpty = false := by
      have : ∀ e ∈ supportedEos, (e.1).isEmpty = false := by decide
      exact this e he
    refine ⟨{ name := e.2, tracer := tracerEos.contains e.1 }, ?_, e, he, rfl, by rw [← hee]; exact hsuf, hes⟩
    unfold eosJson
    rw [h1, hee]
    simp only [hene, Bool.false_eq_true, if_false, hl]
    split
    · rename_i hc; exact absurd hc.2 (by omega)
    · rfl

end Waiwera

/-! ## the hypotheses are satisfiable: concrete models (these are tests of non-vacuity, not proofs of the property) -/

section Examples
open Model.Waiwera Proofs.Waiwera

/-- an AUTOUGH2 model: supported, convertible and unsupported generators, a duplicated (block, name),
    MOP(10) = 2, LINEQ type 3, short output with blocks and connections -/
def sampleA : T2 :=
  { filename := "model.dat".toList, simulator := "AUTOUGH2.2EW".toList,
    sections := [SIMUL, ROCKS, PARAM, LINEQ, MULTI, ELEME, CONNE, GENER, SHORT],
    multi := [("num_components".toList, .int 1), (kEos, .str "EW".toList)],
    lineq := [(kType, .int 3)],
    option := [0,0,0,0,0,0,0,0,0,0,2,0,2,0,3,0,0,0,0,0,0,0,7,1,1],
    rocks := [{ name := "rock0".toList, porosity := 1/4, conductivity := 5/2, payload := 900 }],
    blocks := ["  a 1".toList, "  b 1".toList],
    gens := [{ id := 1, block := "  a 1".toList, name := "wel 1".toList, type := "MASS".toList, payload := 11 },
             { id := 2, block := "  b 1".toList, name := "wel 2".toList, type := "DELG".toList, payload := 12 },
             { id := 3, block := "  b 1".toList, name := "inj 1".toList, type := "CO2 ".toList, payload := 13 },
             { id := 4, block := "  a 1".toList, name := "wel 1".toList, type := "RECH".toList, payload := 14 }],
    gendict := [(("  a 1".toList, "wel 1".toList), 4), (("  b 1".toList, "wel 2".toList), 2), (("  b 1".toList, "inj 1".toList), 3)],
    short := { freq := some (.int 2), block := some [.blk "  a 1".toList], con := some [.con "  a 1".toList "  b 1".toList] } }

def sampleA' : T2 := (convertToTough2 false sampleA).1

example : convertToTough2 false sampleA = (sampleA', none) := by decide +kernel
example : sampleA.lineq = [] ∨ ∃ i, Dict.get? sampleA.lineq kType = some (.int i) := Or.inr ⟨3, by decide⟩
example : sampleA.sections.Nodup := by decide
example : (sampleA.gens.map (·.id)).Nodup := by decide
-- the same object listed twice satisfies SameObj too
example : SameObj (sampleA.gens ++ sampleA.gens.take 2) := by unfold SameObj; decide
example : (sampleA.gendict.map (·.1)).Nodup := by decide
example : ∀ e ∈ sampleA.gendict, ∃ g ∈ sampleA.gens, g.id = e.2 ∧ (g.block, g.name) = e.1 := by decide
-- what comes out: MASS kept, CO2 converted, DELG and RECH gone from list and lookup, conductivity 5/2 · 3/4
example : sampleA'.gens.map (·.type) = ["MASS".toList, "COM2".toList] ∧ sampleA'.gendict.map (·.2) = [3] ∧
    sampleA'.rocks.map (·.conductivity) = [15/8] ∧ sampleA'.sections = [ROCKS, PARAM, MULTI, ELEME, CONNE, GENER, SHORT] ∧
    sampleA'.option = [0,0,0,0,0,0,0,0,0,0,0,0,0,0,3,0,0,0,0,0,0,5,0,0,0] ∧
    (updateSections sampleA').sections = [ROCKS, PARAM, MULTI, ELEME, CONNE, GENER, FOFT, COFT] := by decide +kernel
-- hypotheses of the round-trip theorem
example : allGridBlocks sampleA.blocks (sampleA.short.block.getD sampleA.histBlock) = true ∧
    allGridCons [("  a 1".toList, "  b 1".toList)] (sampleA.short.con.getD sampleA.histCon) = true ∧
    allGridBlocks sampleA.blocks (sampleA.short.gen.getD sampleA.histGen) = true ∧ sampleA.blocks ≠ [] := by decide
/-- a TOUGH2 model as read from a file: SOLVR type 3, history lists with objects and a bare name -/
def sampleT : T2 :=
  { filename := "model".toList, sections := [ROCKS, PARAM, SOLVR, ELEME, CONNE, GENER, FOFT, COFT],
    solver := [(kType, .int 3), ("z_precond".toList, .str "Z1".toList)],
    multi := [("num_components".toList, .int 1)],
    option := [0,0,0,0,0,0,0,0,0,0,0,0,2,0,0,0,0,0,0,0,0,5,3,0,1],
    rocks := [{ name := "rock0".toList, porosity := 1/4, conductivity := 5/2, payload := 900 }],
    blocks := ["  a 1".toList, "  b 1".toList],
    gens := [{ id := 1, block := "  a 1".toList, name := "wel 1".toList, type := "COM2".toList, payload := 11 }],
    gendict := [(("  a 1".toList, "wel 1".toList), 1)],
    histBlock := [.blk "  a 1".toList, .str "zzz 9".toList], histCon := [.con "  a 1".toList "  b 1".toList] }

def sampleT' : T2 := (convertToAutough2 false defaultSimulator defaultEos sampleT).1

example : convertToAutough2 false defaultSimulator defaultEos sampleT = (sampleT', none) := by decide +kernel
example : Dict.get? sampleT.solver kType = some (.int 3) := by decide
example : sampleT.histGen = [] ∧ SIMUL ∉ sampleT.sections ∧ sampleT.multi ≠ [] := by decide
example : sampleT'.simulator = "AUTOUGH2.2EW".toList ∧ sampleT'.filename = "model.dat".toList ∧
    sampleT'.sections = [SIMUL, ROCKS, PARAM, LINEQ, SOLVR, ELEME, CONNE, GENER, FOFT, COFT] ∧
    (updateSections sampleT').sections = [SIMUL, ROCKS, PARAM, LINEQ, MULTI, ELEME, CONNE, GENER, SHORT] ∧
    sampleT'.short.block = some [.blk "  a 1".toList] ∧ Dict.get? sampleT'.lineq kType = some (.int 2) ∧
    sampleT'.option = [0,0,0,0,0,0,0,0,0,0,0,0,0,0,0,0,0,0,0,0,0,0,0,0,0] := by decide
-- both samples list their sections in standard order
example : Ordered sampleA.sections ∧ Ordered sampleT.sections ∧ SHORT ∈ sections := by
  unfold Ordered; decide
-- add / delete a generator on the sample
example : (deleteGenerator sampleA ("  b 1".toList, "wel 2".toList)).2 = none ∧
    (deleteGenerator sampleA ("  b 1".toList, "nope ".toList)).2 = some .keyError ∧
    ((addGenerator sampleA { id := 9, block := "  a 1".toList, name := "wel 1".toList, type := "HEAT".toList, payload := 1 }).gendict.map (·.2))
      = [9, 2, 3] := by decide +kernel
-- hypotheses of the SHORT round trip on the converted TOUGH2 sample, and a full short output with frequency 7
example : goodBlocks sampleT.blocks (sampleT.histBlock.filter Item.isBlk) = true ∧
    goodCons [("  a 1".toList, "  b 1".toList)] (sampleT.histCon.filter Item.isCon) = true ∧
    goodGens sampleT.gendict (sampleT.histGen.filter Item.isGen) = true := by decide
example : writeShort { freq := some (.int 7), block := some [.blk "  a 1".toList], gen := some [.gen 1 "  a 1".toList "wel 1".toList] }
      = some ("SHORT 7".toList, ["ELEME".toList, "  a 1".toList, "GENER".toList, "  a 1wel 1".toList, []]) ∧
    readShort ["  a 1".toList] [] [(("  a 1".toList, "wel 1".toList), 1)] "SHORT 7".toList
        ["ELEME".toList, "  a 1".toList, "zzz 9".toList, "GENER".toList, "  a 1wel 1".toList, []]
      = .ok { freq := some (.int 7), block := some [.blk "  a 1".toList], gen := some [.gen 1 "  a 1".toList "wel 1".toList] } := by
  decide +kernel
-- the type setter on both samples
example : (setType TOUGH2 sampleA).1 = sampleA' ∧ (setType AUTOUGH2 sampleT).1 = sampleT' ∧
    setType TOUGH2 sampleT = (sampleT, none) ∧ (setType "TOUGH3".toList sampleA).2 = some .generic := by decide +kernel

/-- a 2 × 1 × 2 geometry with one atmosphere block: block 3 has zero volume, block 4 a huge one -/
def sampleGeo : List Str := ["ATM 0".toList, "  a 1".toList, "  b 1".toList, "  a 2".toList, "  b 2".toList]
def sampleBlocks : List WBlock :=
  [{ name := "ATM 0".toList, rock := "rock0".toList, volume := 10000000000000000000000000 },
   { name := "  a 1".toList, rock := "rock0".toList, volume := 250 },
   { name := "  b 1".toList, rock := "rock1".toList, volume := 250 },
   { name := "  a 2".toList, rock := "rock1".toList, volume := 0 },
   { name := "  b 2".toList, rock := "rock0".toList, volume := 1000000000000000000000000000000 }]

example : rockCells ["rock0".toList, "rock1".toList] sampleGeo 1 sampleBlocks 10000000000000000000000000
    = .ok [[0], [1]] := by decide +kernel
example : sampleGeo.Nodup ∧ findBlock sampleBlocks sampleGeo[2] = some sampleBlocks[2] := by decide
example : boundaryBlocks sampleBlocks 10000000000000000000000000 = ["ATM 0".toList, "  a 2".toList, "  b 2".toList] := by
  decide +kernel
-- boundary faces of the sample: the atmosphere block faces cells 0 and 1; '  a 2' (volume 0) faces cell 0;
-- '  b 2' (huge volume) faces cell 1; a boundary block that only touches boundary blocks would yield nothing
example : boundaryFaces sampleGeo 1 sampleBlocks 10000000000000000000000000
    [("ATM 0".toList, "  a 1".toList), ("ATM 0".toList, "  b 1".toList), ("  a 1".toList, "  b 1".toList),
     ("  a 1".toList, "  a 2".toList), ("  b 1".toList, "  b 2".toList), ("  a 2".toList, "  b 2".toList)]
    = .ok [("ATM 0".toList, [0, 1]), ("  a 2".toList, [0]), ("  b 2".toList, [1])] := by decide +kernel
example : sources sampleGeo 1
    [{ id := 1, block := "  b 1".toList, name := "wel 1".toList, type := "MASS".toList, payload := 0 },
     { id := 2, block := "ATM 0".toList, name := "wel 1".toList, type := "DELG".toList, payload := 0 },
     { id := 3, block := "  b 1".toList, name := "".toList, type := "TMAK".toList, payload := 0 },
     { id := 4, block := "zzz 9".toList, name := "wel 1".toList, type := "RECH".toList, payload := 0 }] 4
    = .ok [{ name := "wel 1".toList, cell := some 1 }, { name := "wel 1_1".toList, cell := none },
           { name := "wel 1_2".toList, cell := none }] := by decide
example : eosJson .none [] "AUTOUGH2.2EW".toList 2 = .ok { name := "we".toList, tracer := false } ∧
    eosJson .none [("num_components".toList, .int 1)] "MULKOMEWAV".toList 2 = .ok { name := "wae".toList, tracer := false } ∧
    eosJson .none [(kEos, .str " EWC".toList)] "AUTOUGH2.2EW".toList 3 = .ok { name := "wce".toList, tracer := false } ∧
    eosJson (.idx 4) [] [] 0 = .ok { name := "wae".toList, tracer := false } ∧
    eosJson (.name "EWT".toList) [] [] 0 = .ok { name := "we".toList, tracer := true } ∧
    eosJson .none [] "AUTOUGH2.2".toList 2 = .error .generic ∧
    eosJson (.name "W".toList) [] [] 1 = .error .indexError := by decide
example : eosFromMulti [("num_components".toList, .int 1)] = [] ∧ ("EW".toList, "we".toList) ∈ supportedEos ∧
    "EW".toList <:+ "AUTOUGH2.2EW".toList := ⟨by decide, by decide, ⟨"AUTOUGH2.2".toList, by decide⟩⟩

end Examples

end Props.C20
