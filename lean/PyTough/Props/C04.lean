/-
  C04 — Geometry-to-TOUGH2-grid conversion is geometrically exact and index-consistent.

  Property theorems about `Model.FromGeo.fromgeo` (model of `t2grid.fromgeo` and the `mulgrid`
  / `geometry` helpers it calls).  Arithmetic is exact (ℚ); a quantity under a square root is
  a `Surd ⟨coef, rad⟩ = coef * sqrt rad`, so distances and areas are stated through their
  squares.  Hypotheses are decidable predicates of the model (`Fresh`, `LayersWF`, `Nodup` of
  the mapped names) and are evaluated by the driver on every explored case.
-/
import PyTough.Model.FromGeo
import PyTough.Proofs.FromGeoNames
import PyTough.Proofs.FromGeoArith
import PyTough.Proofs.FromGeoConn
import PyTough.Proofs.FromGeoTotal
import PyTough.Proofs.FromGeoConnNodup
import PyTough.Proofs.FromGeoExample

namespace Props.C04
open Py Model.FromGeo
open Proofs.FromGeo

/-! ### exactly the announced blocks and connections, in the same order and orientation -/

/-- The block list of the grid built from `g` with block map `m` is the geometry's own
    `block_name_list` (mapped), element by element, for every geometry, convention, atmosphere
    type and block order — provided the cached list is up to date and the mapped names are
    distinct (an injective map on distinct names). -/
theorem fromgeo_blocks_eq_namelist (g : Geo) (m : BlockMap) (T : Grid) (hfresh : Fresh g)
    (hinj : (g.blockNames.map (applyMap m)).Nodup) (h : fromgeo g m = .ok T) :
    T.blocks.map (·.name) = g.blockNames.map (applyMap m) :=
  Proofs.FromGeo.fromgeo_blocks g m T hfresh hinj h

/-- The two independent loops — `setup_block_connection_name_index` and `add_connections` —
    enumerate the same sequence of ordered pairs: whenever `fromgeo` returns, the name-list
    loop returns too and the connection list of the grid is that list, mapped, in the same order
    and orientation.  No distinctness of the announced pairs has to be assumed: it follows from
    the distinct block names, the layer stack (`LayersWF`) and the geometry's connection registry
    (`ConnsWF`: one entry per ordered column pair, joining two different columns). -/
theorem fromgeo_connections_eq_namelist (g : Geo) (m : BlockMap) (T : Grid) (hfresh : Fresh g)
    (hinj : (g.blockNames.map (applyMap m)).Nodup) (hwf : LayersWF g) (hcw : ConnsWF g)
    (h : fromgeo g m = .ok T) :
    ∃ L, blockConnectionNameList g = .ok L ∧ T.conns.map TConn.names = L.map (mapPair m) := by
  obtain ⟨L, hL, himp⟩ := Proofs.FromGeo.fromgeo_conns g m T hfresh hinj h
  exact ⟨L, hL, himp (Proofs.FromGeo.connNames_nodup g m hfresh hinj hwf hcw L hL)⟩

/-- The grid `fromgeo` builds is consistent in the sense of C08 (clauses of `Model.Grid.Inv`
    restated on this model): block names are unique (list and dictionary describe the same
    blocks), connection keys are unique, every connection joins two different registered blocks,
    and a block's `connection_name` record is exactly the set of keys of the connections that
    mention it. -/
theorem fromgeo_consistent (g : Geo) (m : BlockMap) (T : Grid) (hfresh : Fresh g)
    (hinj : (g.blockNames.map (applyMap m)).Nodup) (hwf : LayersWF g) (hcw : ConnsWF g)
    (h : fromgeo g m = .ok T) :
    (T.blocks.map (·.name)).Nodup ∧ (T.conns.map TConn.names).Nodup ∧
    (∀ c ∈ T.conns, (∃ b, findBlock T.blocks c.b0 = .ok b) ∧ (∃ b, findBlock T.blocks c.b1 = .ok b) ∧ c.b0 ≠ c.b1) ∧
    (∀ b k, k ∈ connRecord T.conns b ↔ ∃ c ∈ T.conns, c.names = k ∧ (c.b0 = b ∨ c.b1 = b)) := by
  have hb := fromgeo_blocks_eq_namelist g m T hfresh hinj h
  obtain ⟨L, hL, hc⟩ := fromgeo_connections_eq_namelist g m T hfresh hinj hwf hcw h
  have hLnd := Proofs.FromGeo.connNames_nodup g m hfresh hinj hwf hcw L hL
  have hends := Proofs.FromGeo.connNamesFrom_ends g m hfresh hinj hwf hcw g.layers true g.layer0 [] L rfl (by simp) hL
  refine ⟨by rw [hb]; exact hinj, by rw [hc]; exact hLnd, ?_, ?_⟩
  · intro c hcm
    have : c.names ∈ L.map (mapPair m) := by rw [← hc]; exact List.mem_map.2 ⟨c, hcm, rfl⟩
    rw [List.mem_map] at this
    obtain ⟨p, hp, hpe⟩ := this
    obtain ⟨m1, m2, hne⟩ := hends p hp
    simp only [mapPair, TConn.names, Prod.mk.injEq] at hpe
    refine ⟨?_, ?_, by rw [← hpe.1, ← hpe.2]; exact hne⟩
    · exact Proofs.FromGeo.findBlock_of_mem_names (by rw [hb, ← hpe.1]; exact List.mem_map.2 ⟨p.1, m1, rfl⟩)
    · exact Proofs.FromGeo.findBlock_of_mem_names (by rw [hb, ← hpe.2]; exact List.mem_map.2 ⟨p.2, m2, rfl⟩)
  · intro b k
    simp only [connRecord, List.mem_map, List.mem_filter, Bool.or_eq_true, decide_eq_true_eq]
    constructor
    · rintro ⟨c, ⟨hc1, hc2⟩, rfl⟩; exact ⟨c, hc1, rfl, hc2⟩
    · rintro ⟨c, hc1, rfl, hc2⟩; exact ⟨c, ⟨hc1, hc2⟩, rfl⟩

example : Fresh Ex.geo ∧ (Ex.geo.blockNames.map (applyMap Ex.bmap)).Nodup ∧ LayersWF Ex.geo ∧ ConnsWF Ex.geo := by decide +kernel
example : Ex.grid.blocks.map (·.name) =
    [['A','T','M',' ','0'], ['#','0','0','0','1'], [' ',' ','b',' ','1'], [' ',' ','a',' ','2'], [' ',' ','b',' ','2']] := by
  decide +kernel
example : (Ex.grid.conns.map TConn.names).length = 6 ∧
    (Ex.grid.conns.map TConn.names).head? = some (['#','0','0','0','1'], ['A','T','M',' ','0']) := by decide +kernel


/-! ### the conversion never fails on a valid geometry; where its blocks and connections come from

  These three theorems discharge, for the grid `T` that `fromgeo` returns, the hypotheses that the
  connection theorems below state about a block list `bs` and a pair of layers:
  take `bs := T.blocks`. -/

/-- On every well-formed geometry (fresh name cache, distinct mapped names, every block name
    parsing back to its layer and column, chained layer tops with distinct layer names,
    atmosphere type 0, 1 or 2) `fromgeo` returns a grid: no `KeyError`, `IndexError` or
    `TypeError` can escape. -/
theorem fromgeo_succeeds (g : Geo) (m : BlockMap) (hfresh : Fresh g)
    (hinj : (g.blockNames.map (applyMap m)).Nodup) (hparse : parseOk g = true) (hwf : LayersWF g)
    (hatm : g.atmType ≤ 2) : ∃ T, fromgeo g m = .ok T :=
  Proofs.FromGeo.fromgeo_ok g m hfresh hinj hparse hwf hatm

/-- The block the grid holds for layer `lay` and column `col` (a column whose surface is above the
    layer bottom): it carries the mapped announced name, the volume `block_volume(lay, col)` and
    the centre `block_centre(lay, col)`. -/
theorem grid_block_data (g : Geo) (m : BlockMap) (T : Grid) (hfresh : Fresh g)
    (hinj : (g.blockNames.map (applyMap m)).Nodup) (hparse : parseOk g = true) (h : fromgeo g m = .ok T)
    (lay : Layer) (hl : lay ∈ g.layers) (col : Column) (hc : col ∈ layerCols g lay) (nm : Str)
    (hnm : blockName g.convention lay.name col.name = .ok nm) :
    findBlock T.blocks (applyMap m nm) =
      .ok ⟨applyMap m nm, blockVolume g lay col, blockCentre g lay col, false⟩ := by
  unfold fromgeo at h
  split at h
  · cases h
  · rename_i bs hb
    split at h
    · cases h
    · cases h
      exact Proofs.FromGeo.addBlocks_data g m bs hfresh hinj hparse hb lay hl col hc nm hnm

/-- Every connection of the grid was built by the vertical loop body (`vertConn`) for a column of
    a layer, or by the horizontal loop body (`horizConn`) for a geometry connection of a layer,
    applied to the grid's own block list; `above` is the layer just above `lay` in `layerlist`. -/
theorem grid_connection_origin (g : Geo) (m : BlockMap) (T : Grid) (h : fromgeo g m = .ok T) :
    ∀ c ∈ T.conns, ∃ pre above lay post, g.layerlist = pre ++ above :: lay :: post ∧
      ((∃ col ∈ layerCols g lay, vertConn g m T.blocks (decide (pre = [])) above lay col = .ok (some c)) ∨
       (∃ k ∈ layerConns g (layerCols g lay), horizConn g m T.blocks lay k = .ok c)) :=
  Proofs.FromGeo.fromgeo_conn_origin g m T h

/-- Adjacent layers of a well-formed stack: the lower one starts where the upper one ends, has
    positive thickness, is an underground layer and is not named like the atmosphere layer. -/
theorem layer_stack_adjacent (g : Geo) (hwf : LayersWF g) (pre : List Layer) (above lay : Layer)
    (post : List Layer) (hll : g.layerlist = pre ++ above :: lay :: post) :
    lay.top = above.bottom ∧ lay.bottom < lay.top ∧ lay ∈ g.layers ∧ lay.name ≠ g.layer0.name := by
  obtain ⟨a, b, c⟩ := Proofs.FromGeo.chain_adjacent g.layers g.layer0 hwf.2.1 pre above lay post
    (by simpa [Geo.layerlist] using hll)
  exact ⟨a, b, c, Proofs.FromGeo.layer_name_ne0 g lay hwf c⟩

example : ∃ T, fromgeo Ex.geo Ex.bmap = .ok T :=
  fromgeo_succeeds Ex.geo Ex.bmap (by decide +kernel) (by decide +kernel) (by decide +kernel) (by decide +kernel) (by decide +kernel)
-- the hypotheses of `grid_block_data` on the example: the truncated block (layer 1, column a), renamed by the map
example : Ex.l1 ∈ Ex.geo.layers ∧ Ex.colA ∈ layerCols Ex.geo Ex.l1 ∧
    blockName Ex.geo.convention Ex.l1.name Ex.colA.name = .ok [' ',' ','a',' ','1'] ∧
    findBlock Ex.grid.blocks ['#','0','0','0','1'] =
      .ok ⟨['#','0','0','0','1'], some 2, some ⟨1, 1, -3/4⟩, false⟩ := by decide +kernel
-- the layer stack of the example: l2 lies directly below l1
example : Ex.geo.layerlist = [Ex.l0] ++ Ex.l1 :: Ex.l2 :: [] := by decide +kernel

/-! ### volumes -/

/-- Each block volume is column area times the height from the layer bottom to the block top:
    the column surface in the column's top block (`blockTop`), the layer top otherwise. -/
theorem block_volume_formula (g : Geo) (lay : Layer) (col : Column) (hwf : LayersWF g)
    (hl : lay ∈ g.layers) (hb : lay.bottom < col.surface) :
    blockVolume g lay col = some (col.area * (blockTop g lay col - lay.bottom)) :=
  Proofs.FromGeo.block_volume_any g lay col hwf hl hb

/-- The volumes of a column's blocks add up to area times depth from the surface to the bottom
    of the lowest layer — for a surface inside any layer, at a layer boundary, or above the top
    layer; a column whose surface is not above that bottom has no block. -/
theorem column_volume_telescopes (g : Geo) (col : Column) (hwf : LayersWF g) (hne : g.layers ≠ []) :
    columnVolume g col =
      if lowestBottom g < col.surface then col.area * (col.surface - lowestBottom g) else 0 := by
  by_cases hs : lowestBottom g < col.surface
  · simp only [hs, if_true]; exact Proofs.FromGeo.columnVolume_eq g col hwf hne hs
  · simp only [hs, if_false]; exact (Proofs.FromGeo.columnVolume_zero g col hwf (not_lt.1 hs)).2

/-- Total rock volume (all announced underground blocks, layer by layer) is the sum over the
    columns of area times depth to the surface. -/
theorem total_volume (g : Geo) (hwf : LayersWF g) (hne : g.layers ≠ []) :
    totalVolume g = (g.columns.map (fun c =>
      if lowestBottom g < c.surface then c.area * (c.surface - lowestBottom g) else 0)).sum := by
  rw [Proofs.FromGeo.totalVolume_eq_columns]
  congr 1
  apply List.map_congr_left
  intro c _
  exact column_volume_telescopes g c hwf hne

example : LayersWF Ex.geo ∧ Ex.geo.layers ≠ [] := by decide +kernel
-- truncated block: area 4 x (surface -1/2 - bottom -1); block above the top layer: 6 x (1 - -1)
example : blockVolume Ex.geo Ex.l1 Ex.colA = some 2 ∧ blockVolume Ex.geo Ex.l1 Ex.colB = some 12 := by decide +kernel
example : totalVolume Ex.geo = 4 * (-1/2 - -3) + 6 * (1 - -3) := by decide +kernel

/-- A column's area is the absolute value of the shoelace sum of its nodes (the shift by the
    first vertex in `polygon_area` is immaterial). -/
theorem polygon_area_is_shoelace (name : Str) (nodes : List P2) (c : P2) (s : Rat) :
    (mkColumn name nodes c s).area = |shoelace nodes| :=
  Proofs.FromGeo.mkColumn_area name nodes c s

example : Ex.colB.area = 6 := by decide +kernel

/-! ### vertical connections -/

/-- Interior vertical connection (`lay` not the first layer, surface above its top): the area is
    the column area and the two distances add up to the separation of the block centres — the
    upper block's centre elevation minus the layer centre, which is the lower block's centre
    elevation.  `hadj`, `hpos` are the layer-stack invariants `lay.top = above.bottom`, `lay.bottom < lay.top`. -/
theorem vertical_connection_geometry (g : Geo) (m : BlockMap) (bs : List Block) (first : Bool)
    (above lay : Layer) (col : Column) (c : TConn)
    (h : vertConn g m bs first above lay col = .ok (some c))
    (hc : ¬ (first = true ∨ col.surface ≤ lay.top)) (hadj : lay.top = above.bottom)
    (hpos : lay.bottom < lay.top) (hn : lay.name ≠ g.layer0.name) :
    c.area = .exact col.area ∧
    blockCentre g lay col = some ⟨col.centre.x, col.centre.y, lay.centre⟩ ∧
    ∃ lower upper zu, findBlock bs c.b0 = .ok lower ∧ findBlock bs c.b1 = .ok upper ∧
      centreZ upper = .ok zu ∧ c.d0.rad = 1 ∧ c.d1.rad = 1 ∧
      c.d0.coef + c.d1.coef = zu - lay.centre := by
  obtain ⟨lower, upper, zu, h0, h1, hz, hd0, hd1⟩ :=
    Proofs.FromGeo.vertConn_interior g m bs first above lay col c h hc
  refine ⟨(Proofs.FromGeo.vertConn_common g m bs first above lay col c h).2.1, ?_,
    lower, upper, zu, h0, h1, hz, by rw [hd0]; rfl, by rw [hd1]; rfl, ?_⟩
  · have h2 : lay.top < col.surface := by
      have := not_or.1 hc; exact not_le.1 this.2
    have h3 : ¬ col.surface ≤ lay.top := not_le.2 h2
    have h4 : ¬ col.surface ≤ lay.bottom := by
      intro h5
      exact absurd (lt_of_lt_of_le h2 h5) (not_lt.2 (le_of_lt hpos))
    simp [blockCentre, hn, h3, h4]
  · rw [hd0, hd1, hadj]; simp only [Surd.exact]; ring

/-- Connection to the atmosphere (first layer, or surface not above the layer top): the column
    area, the distance from the block centre to the ground surface, and the geometry's
    atmosphere connection distance. -/
theorem vertical_connection_atmosphere (g : Geo) (m : BlockMap) (bs : List Block) (first : Bool)
    (above lay : Layer) (col : Column) (c : TConn)
    (h : vertConn g m bs first above lay col = .ok (some c))
    (hc : first = true ∨ col.surface ≤ lay.top) :
    c.area = .exact col.area ∧
    ∃ blk cz, findBlock bs c.b0 = .ok blk ∧ centreZ blk = .ok cz ∧
      c.d0 = .exact (col.surface - cz) ∧ c.d1 = .exact g.atmConn :=
  ⟨(Proofs.FromGeo.vertConn_common g m bs first above lay col c h).2.1,
   Proofs.FromGeo.vertConn_atmosphere g m bs first above lay col c h hc⟩


/-! ### composed statements about the grid `fromgeo` returns -/

/-- Every underground block of the grid: its volume is column area times the height from the
    layer bottom to the block top (column surface in the top block, layer top otherwise). -/
theorem grid_block_volume (g : Geo) (m : BlockMap) (T : Grid) (hfresh : Fresh g)
    (hinj : (g.blockNames.map (applyMap m)).Nodup) (hparse : parseOk g = true) (hwf : LayersWF g)
    (h : fromgeo g m = .ok T) (lay : Layer) (hl : lay ∈ g.layers) (col : Column)
    (hc : col ∈ layerCols g lay) (nm : Str) (hnm : blockName g.convention lay.name col.name = .ok nm) :
    ∃ b, findBlock T.blocks (applyMap m nm) = .ok b ∧ b.atm = false ∧
      b.volume = some (col.area * (blockTop g lay col - lay.bottom)) :=
  ⟨_, grid_block_data g m T hfresh hinj hparse h lay hl col hc nm hnm, rfl,
   block_volume_formula g lay col hwf hl (Proofs.FromGeo.layerCols_sub g lay col hc).2⟩

/-- Every interior vertical connection of the grid (column `col`, layer `lay` below layer `above`,
    surface above the top of `lay`): it joins the grid's block of (`lay`, `col`) — lower, centre at
    the layer centre — to the grid's block of (`above`, `col`) — upper, centre `block_centre(above,
    col)` —, in that order, and its two distances add up to the difference of the two centre
    elevations. -/
theorem grid_vertical_distances_add_up (g : Geo) (m : BlockMap) (T : Grid) (hfresh : Fresh g)
    (hinj : (g.blockNames.map (applyMap m)).Nodup) (hparse : parseOk g = true) (hwf : LayersWF g)
    (h : fromgeo g m = .ok T) (pre : List Layer) (above lay : Layer) (post : List Layer)
    (hll : g.layerlist = pre ++ above :: lay :: post) (hpre : pre ≠ []) (col : Column)
    (hc : col ∈ layerCols g lay) (htop : lay.top < col.surface) (c : TConn)
    (hv : vertConn g m T.blocks (decide (pre = [])) above lay col = .ok (some c)) :
    ∃ lower upper cu, findBlock T.blocks c.b0 = .ok lower ∧ findBlock T.blocks c.b1 = .ok upper ∧
      lower.centre = some ⟨col.centre.x, col.centre.y, lay.centre⟩ ∧
      upper.centre = some cu ∧ blockCentre g above col = some cu ∧
      c.d0.rad = 1 ∧ c.d1.rad = 1 ∧ c.d0.coef + c.d1.coef = cu.z - lay.centre := by
  obtain ⟨hadj, hpos, hlay, hn0⟩ := layer_stack_adjacent g hwf pre above lay post hll
  have hcond : ¬ (decide (pre = []) = true ∨ col.surface ≤ lay.top) := by
    intro hh
    rcases hh with hh | hh
    · exact hpre (by simpa using hh)
    · exact absurd htop (not_lt.2 hh)
  obtain ⟨_, hcentre, lower, upper, zu, h0, h1, hz, hr0, hr1, hsum⟩ :=
    vertical_connection_geometry g m T.blocks _ above lay col c hv hcond hadj hpos hn0
  have hcm := (Proofs.FromGeo.layerCols_sub g lay col hc).1
  -- the lower block
  obtain ⟨nm, hnm, _, _⟩ := Proofs.FromGeo.parseOk_spec g hparse lay hlay col hcm
  have hd := grid_block_data g m T hfresh hinj hparse h lay hlay col hc nm hnm
  have hb0 := Proofs.FromGeo.vertConn_lower_name g m T.blocks _ above lay col c nm hv hnm
  rw [hb0, hd] at h0
  -- the upper block
  have habove : above ∈ g.layers := by
    cases pre with
    | nil => exact absurd rfl hpre
    | cons p pre' =>
      simp only [Geo.layerlist, List.cons_append, List.cons.injEq] at hll
      rw [hll.2]; simp
  have hca : col ∈ layerCols g above :=
    Proofs.FromGeo.mem_layerCols g above col hcm (by rw [← hadj]; exact htop)
  obtain ⟨nm2, hnm2, _, _⟩ := Proofs.FromGeo.parseOk_spec g hparse above habove col hcm
  have hd2 := grid_block_data g m T hfresh hinj hparse h above habove col hca nm2 hnm2
  have hb1 := Proofs.FromGeo.vertConn_upper_name g m T.blocks _ above lay col c nm2 hv hcond hnm2
  rw [hb1, hd2] at h1
  have e0 : lower = ⟨applyMap m nm, blockVolume g lay col, blockCentre g lay col, false⟩ := (Except.ok.inj h0).symm
  have e1 : upper = ⟨applyMap m nm2, blockVolume g above col, blockCentre g above col, false⟩ := (Except.ok.inj h1).symm
  have hzu : ∃ cu, upper.centre = some cu ∧ cu.z = zu := by
    unfold centreZ at hz
    split at hz
    · rename_i cu hcu; exact ⟨cu, hcu, Except.ok.inj hz⟩
    · cases hz
  obtain ⟨cu, hcu, hcuz⟩ := hzu
  refine ⟨lower, upper, cu, by rw [hb0, hd, e0], by rw [hb1, hd2, e1], by rw [e0]; exact hcentre, hcu,
    by rw [← hcu, e1], hr0, hr1, by rw [hcuz]; exact hsum⟩

-- hypotheses of `grid_vertical_distances_add_up` on the example: column b (surface 1) in layer 2 below layer 1
example : Ex.colB ∈ layerCols Ex.geo Ex.l2 ∧ Ex.l2.top < Ex.colB.surface ∧
    (match vertConn Ex.geo Ex.bmap Ex.grid.blocks (decide ([Ex.l0] = [])) Ex.l1 Ex.l2 Ex.colB with
     | .ok (some c) => c.names == ([' ',' ','b',' ','2'], [' ',' ','b',' ','1']) && c.d0.coef + c.d1.coef == -1/2 - -2
     | _ => false) = true := by decide +kernel

/-! ### gravity cosines -/

/-- `tilt_vector` of an untilted geometry (`gdcx`, `gdcy` each `None` or 0) is straight down. -/
theorem untilted_tilt_vector (gx gy : Option Rat) (hx : gx = none ∨ gx = some 0)
    (hy : gy = none ∨ gy = some 0) : tiltVector? gx gy = some ⟨0, 0, -1⟩ :=
  Proofs.FromGeo.tilt_untilted gx gy hx hy

example : tiltVector? none (some 0) = some ⟨0, 0, -1⟩ ∧ tiltVector? (some 1) (some 0) = some ⟨1, 0, 0⟩ := by decide +kernel

/-- Every vertical connection is emitted (lower block, upper block) with permeability
    direction 3 and, in an untilted geometry, gravity cosine -1. -/
theorem gravity_cosine_vertical (g : Geo) (m : BlockMap) (bs : List Block) (first : Bool)
    (above lay : Layer) (col : Column) (c : TConn)
    (h : vertConn g m bs first above lay col = .ok (some c))
    (gx gy : Option Rat) (hx : gx = none ∨ gx = some 0) (hy : gy = none ∨ gy = some 0)
    (ht : tiltVector? gx gy = some g.tilt) :
    c.dirn = 3 ∧ c.dircos = ⟨-1, 1⟩ := by
  have hc := Proofs.FromGeo.vertConn_common g m bs first above lay col c h
  rw [untilted_tilt_vector gx gy hx hy] at ht
  have : g.tilt = ⟨0, 0, -1⟩ := (Option.some.inj ht).symm
  exact ⟨hc.1, by rw [hc.2.2, this]; rfl⟩

/-- A horizontal connection's cosine is that of the centre-to-centre line against gravity:
    in an untilted geometry `-Δz / ‖Δ‖` (coefficient `-Δz`, radicand `1/‖Δ‖²`), hence zero
    exactly when the two block centres are at equal elevation. -/
theorem gravity_cosine_horizontal (g : Geo) (m : BlockMap) (bs : List Block) (lay : Layer)
    (k : Conn) (c : TConn) (h : horizConn g m bs lay k = .ok c) (ht : g.tilt = ⟨0, 0, -1⟩) :
    ∃ b0 b1 c0 c1, findBlock bs c.b0 = .ok b0 ∧ findBlock bs c.b1 = .ok b1 ∧
      b0.centre = some c0 ∧ b1.centre = some c1 ∧
      c.dircos.coef = -(c1.z - c0.z) ∧ c.dircos.rad = 1 / P3.normSq (P3.sub c1 c0) ∧
      (c.dircos.coef = 0 ↔ c0.z = c1.z) := by
  obtain ⟨b0, b1, c0, c1, s0, s1, h0, h1, e0, e1, _, _, _, _, _, _, hd⟩ :=
    Proofs.FromGeo.horizConn_facts g m bs lay k c h
  refine ⟨b0, b1, c0, c1, h0, h1, e0, e1, ?_, by rw [hd], ?_⟩
  · rw [hd, ht]; simp only [P3.dot, P3.sub]; ring
  · rw [hd, ht]; simp only [P3.dot, P3.sub]
    constructor
    · intro hz; linarith
    · intro hz; rw [hz]; ring

/-- ... and non-zero beside a truncated surface block: a block cut by its column's surface has
    its centre below the layer centre (for a layer whose centre is its midpoint). -/
theorem gravity_cosine_truncated (g : Geo) (lay : Layer) (cola colb : Column)
    (hn : lay.name ≠ g.layer0.name) (hmid : lay.centre = (1 / 2 : Rat) * (lay.bottom + lay.top))
    (ha : lay.bottom < cola.surface ∧ cola.surface < lay.top) (hb : lay.top ≤ colb.surface) :
    ∃ ca cb, blockCentre g lay cola = some ca ∧ blockCentre g lay colb = some cb ∧ ca.z < cb.z := by
  have hb1 : lay.bottom < colb.surface := lt_of_lt_of_le (lt_trans ha.1 ha.2) hb
  refine ⟨⟨cola.centre.x, cola.centre.y, (1 / 2 : Rat) * (lay.bottom + cola.surface)⟩,
          ⟨colb.centre.x, colb.centre.y, (1 / 2 : Rat) * (lay.bottom + lay.top)⟩, ?_, ?_, ?_⟩
  · simp [blockCentre, hn, ha.1, le_of_lt ha.2]
  · unfold blockCentre
    simp only [hn, if_false, hb1, true_and]
    by_cases he : colb.surface ≤ lay.top
    · have : colb.surface = lay.top := le_antisymm he hb
      simp [this]
    · simp [he, not_le.2 hb1, hmid]
  · show (1 / 2 : Rat) * (lay.bottom + cola.surface) < (1 / 2 : Rat) * (lay.bottom + lay.top)
    linarith [ha.2]

-- the example: layer 1 (centre at its midpoint), column a truncated, column b a full block
example : Ex.l1.name ≠ Ex.geo.layer0.name ∧ Ex.l1.centre = (1 / 2 : Rat) * (Ex.l1.bottom + Ex.l1.top) ∧
    (Ex.l1.bottom < Ex.colA.surface ∧ Ex.colA.surface < Ex.l1.top) ∧ Ex.l1.top ≤ Ex.colB.surface := by decide +kernel

/-! ### horizontal connections -/

/-- Area is the shared-edge length times the lower of the two block heights
    (`coef = min`, `rad = ‖n0 - n1‖²`); each distance is the length of the offset from the column
    centre to its projection on the edge line (`coef = 1`, `rad = ‖p - c‖²`), and that offset is
    perpendicular to the edge. -/
theorem horizontal_connection_geometry (g : Geo) (m : BlockMap) (bs : List Block) (lay : Layer)
    (k : Conn) (c : TConn) (h : horizConn g m bs lay k = .ok c) (hedge : k.n0 ≠ k.n1) :
    ∃ s0 s1, blockSurface g lay k.col0 = some s0 ∧ blockSurface g lay k.col1 = some s1 ∧
      c.area = ⟨min (s0 - lay.bottom) (s1 - lay.bottom), P2.normSq (P2.sub k.n0 k.n1)⟩ ∧
      c.d0 = ⟨1, P2.normSq (P2.sub (lineProjection k.col0.centre k.n0 k.n1) k.col0.centre)⟩ ∧
      c.d1 = ⟨1, P2.normSq (P2.sub (lineProjection k.col1.centre k.n0 k.n1) k.col1.centre)⟩ ∧
      P2.dot (P2.sub k.col0.centre (lineProjection k.col0.centre k.n0 k.n1)) (P2.sub k.n1 k.n0) = 0 ∧
      P2.dot (P2.sub k.col1.centre (lineProjection k.col1.centre k.n0 k.n1)) (P2.sub k.n1 k.n0) = 0 := by
  obtain ⟨_, _, _, _, s0, s1, _, _, _, _, hs0, hs1, _, ha, hd0, hd1, _⟩ :=
    Proofs.FromGeo.horizConn_facts g m bs lay k c h
  exact ⟨s0, s1, hs0, hs1, ha, hd0, hd1,
    Proofs.FromGeo.lineProjection_perp _ _ _ hedge, Proofs.FromGeo.lineProjection_perp _ _ _ hedge⟩

/-- The permeability direction of a horizontal connection is the index of the larger component
    (in absolute value) of the centre-to-centre vector rotated by the permeability angle — 1 on a
    tie, as `np.argmax` returns the first maximum. -/
theorem direction_by_permeability_angle (g : Geo) (m : BlockMap) (bs : List Block) (lay : Layer)
    (k : Conn) (c : TConn) (h : horizConn g m bs lay k = .ok c) :
    ∃ b0 b1 c0 c1, findBlock bs c.b0 = .ok b0 ∧ findBlock bs c.b1 = .ok b1 ∧
      b0.centre = some c0 ∧ b1.centre = some c1 ∧
      (let dx := c1.x - c0.x
       let dy := c1.y - c0.y
       let u := absRat (g.rot.x * dx + g.rot.y * dy)
       let v := absRat (-g.rot.y * dx + g.rot.x * dy)
       (c.dirn = 2 ↔ u < v) ∧ (c.dirn = 1 ↔ ¬ u < v)) := by
  obtain ⟨b0, b1, c0, c1, _, _, h0, h1, e0, e1, _, _, hd, _, _, _, _⟩ :=
    Proofs.FromGeo.horizConn_facts g m bs lay k c h
  refine ⟨b0, b1, c0, c1, h0, h1, e0, e1, ?_⟩
  simp only [hd, permDirection, P3.sub]
  simp

/-- The perpendicular offset is the shortest: no point of the edge line is closer to the column
    centre than the projection; and its squared length is the classical
    `cross(e, c - n0)² / ‖e‖²`. -/
theorem perpendicular_is_shortest (a l0 l1 : P2) (hedge : l0 ≠ l1) :
    (∀ t : Rat, P2.normSq (P2.sub (lineProjection a l0 l1) a) ≤
        P2.normSq (P2.sub a (P2.add l0 (P2.smul t (P2.sub l1 l0))))) ∧
    P2.normSq (P2.sub (lineProjection a l0 l1) a) =
      (cross (P2.sub l1 l0) (P2.sub a l0)) ^ 2 / P2.normSq (P2.sub l1 l0) :=
  ⟨Proofs.FromGeo.perp_shortest a l0 l1 hedge, Proofs.FromGeo.perp_dist_cross a l0 l1 hedge⟩

-- a point at distance 3 from the line y = 0: no point of the line is closer
example : lineProjection ⟨2, 3⟩ ⟨0, 0⟩ ⟨5, 0⟩ = ⟨2, 0⟩ ∧
    P2.normSq (P2.sub (lineProjection ⟨2, 3⟩ ⟨0, 0⟩ ⟨5, 0⟩) ⟨2, 3⟩) = 9 := by decide +kernel

-- the horizontal connection of the example: edge length 2, lower height 1/2 (the truncated block),
-- distances 1 and 3/2, centres at -3/4 and -1/2 so the cosine is not zero
example : ∃ c ∈ Ex.grid.conns, c.names = (['#','0','0','0','1'], [' ',' ','b',' ','1']) ∧
    c.area = ⟨1/2, 4⟩ ∧ c.d0 = ⟨1, 1⟩ ∧ c.d1 = ⟨1, 9/4⟩ ∧ c.dircos.coef = -(1/4) ∧ c.dirn = 1 := by decide +kernel
example : ∃ c ∈ Ex.grid.conns, c.names = ([' ',' ','a',' ','2'], ['#','0','0','0','1']) ∧
    c.dirn = 3 ∧ c.dircos = ⟨-1, 1⟩ ∧ c.d0.coef + c.d1.coef = -3/4 - -2 := by decide +kernel

end Props.C04
