/-
  C12 — Point and line location in a geometry agree with exhaustive search.

  Property theorems about `Model.Locate` (model of geometry.in_polygon / in_rectangle /
  rectangles_intersect / sub_rectangles / bounds_of_points, class quadtree, and
  mulgrid.column_containing_point / layer_containing_elevation / block_name_containing_point /
  block_contains_point).  Columns are indices into `columnlist`, layers indices into `layerlist`
  (0 = atmosphere layer), a block is (layer, column); arithmetic is exact (`Rat`).

  Clause of the property                                   theorem(s)
  ------------------------------------------------------   -----------------------------------------
  the reported column really contains the point             found_column_contains (every search aid)
  a point outside every column yields nothing               outside_gives_none (every search aid)
  same result whichever aid: none / guess / bounds /         methods_agree, plain_agrees_with_exhaustive
    column subset containing the answer
  ... / quadtree                                            quadtree_agrees_or_none_partial, quadtree_search_complete_partial,
                                                            quadtree_search_complete_rectangular, quadtree_agrees_with_plain_rectangular
  containment and the bounding-box pre-filter               in_polygon_in_bounding_rectangle (crossing parity)
  quadtree structure                                        quadtree_partition, quadtree_leaf_contains_point,
                                                            quadtree_leaf_exists
  block reported for a 3-D point                            block_at_point_*, block_reported_is_in_found_column,
                                                            reported_block_contains_point, containing_block_is_reported

  NOT PROVED (stated here, checked only by the correspondence facets and the exact oracle):
  * quadtree completeness in the plane — that `qtree.search` *finds* the containing column for every
    geometry of the listed classes.  It is false in general (two islands: `search_wave` only walks through
    neighbours whose bounding boxes meet the leaf rectangle).  Proved instead: "agrees or returns None"
    unconditionally, and "finds it" whenever the column is reachable in the neighbour graph that
    `search_wave` explores (a breadth-first-search completeness theorem); the planar step is proved for
    rectangular lattices (`quadtree_search_complete_rectangular`) and left out for other geometries.
  * `column_track` (Model/Track.lean) — proved: every entry/exit point is on the line and on (or, for the
    line's own end points, inside) its column; sorted by entry distance; no column twice; the crossing of
    an edge does not depend on the edge's direction (so exit and entry through a shared edge coincide);
    lengths non-negative and summing to at most the line's length under the decidable `Ordered`; a column
    crossed at exactly two points more than the clip tolerance apart is listed; duplicate merging only
    within 1e-3 × longest side; the crossings, and under `RevHyp` the whole track, of the reversed line.
    NOT proved: that the columns crossed form a chain of neighbours covering the line inside the domain
    (a planar tessellation fact: needed for "consecutive segments abut" and "lengths add up to the length
    inside the domain" without hypotheses), the correctness of the Cohen–Sutherland bounding-box test
    (a hypothesis of `track_lists_crossed_column_partial`, evaluated per case), non-convex columns crossed
    more than twice.  These remain with the correspondence facet `track` and the exact clipping oracle.
-/
import PyTough.Model.Locate
import PyTough.Proofs.Locate
import PyTough.Proofs.LocateWave
import PyTough.Proofs.LocateMore
import PyTough.Model.Track
import PyTough.Proofs.LocateTrack4

namespace Props.C12
open Model.Locate Proofs.Locate Model.Track Proofs.Track

/-! ### The column reported really contains the point — whichever search aid is used -/

/-- For every geometry, point and combination of search aids (column subset, starting guess,
    bounding rectangle or polygon, quadtree): a returned column passes `contains_point`. -/
theorem found_column_contains (g : Geo) (pos : Pt) (a : Aids) (c : Nat)
    (h : columnContainingPoint g pos a = some c) : g.containsPoint c pos = true :=
  columnContainingPoint_sound h

/-- A point outside every column yields `None`, whichever aids are given. -/
theorem outside_gives_none (g : Geo) (pos : Pt) (a : Aids)
    (h : ∀ c, g.containsPoint c pos = false) : columnContainingPoint g pos a = none := by
  cases hc : columnContainingPoint g pos a with
  | none => rfl
  | some c => have := found_column_contains g pos a c hc; rw [h c] at this; cases this

/-! ### Crossing parity: containment implies "in the bounding rectangle" -/

/-- If `in_polygon(pos, polygon)` is 1 then `in_rectangle(pos, bounds_of_points(polygon))`:
    unconditional for every polygon (the number of edges spanning any ordinate is even).  Hence the
    `near_point` pre-filter of the plain search loses nothing, and the unfiltered calls
    (`guess.contains_point`, `search_wave`, `block_contains_point`) cannot claim a far-away point. -/
theorem in_polygon_in_bounding_rectangle (pos : Pt) (poly : Poly) (h : inPolygon pos poly = 1) :
    inRectangle pos (boundsOfPoints poly) = true :=
  inPolygon_inBounds pos poly h

/-- the same for a column: `contains_point ⇒ near_point` -/
theorem contains_point_implies_near_point (g : Geo) (c : Nat) (pos : Pt)
    (h : g.containsPoint c pos = true) : g.nearPoint c pos = true :=
  containsPoint_near h

/-! ### All search aids agree with plain and with exhaustive search -/

/-- If at most one column contains the point (`UniqueAt`) and `c` does, then the search returns `c`
    with any starting guess (right, neighbouring or far away), any bounding rectangle/polygon that
    holds the point, and any column subset that holds `c` — and with none of them. -/
theorem methods_agree (g : Geo) (pos : Pt) (c : Nat) (a : Aids)
    (hu : UniqueAt g pos) (hc : g.containsPoint c pos = true)
    (hq : a.qtree = none) (hb : inBounds pos a.bounds = true) (hcols : c ∈ searchCols g a) :
    columnContainingPoint g pos a = some c := by
  unfold columnContainingPoint
  rw [hb, hq]
  exact guessSearch_complete hu hcols hc

/-- the default column list always holds the answer -/
theorem all_columns_hold_answer (g : Geo) (pos : Pt) (c : Nat) (a : Aids) (ha : a.columns = none)
    (hc : g.containsPoint c pos = true) : c ∈ searchCols g a :=
  mem_searchCols_default ha (containsPoint_lt hc)

/-- plain search is exhaustive search -/
theorem plain_agrees_with_exhaustive (g : Geo) (pos : Pt) (hu : UniqueAt g pos) :
    columnContainingPoint g pos {} = exhaustiveSearch g pos := by
  cases he : exhaustiveSearch g pos with
  | some c =>
    have hc := exhaustive_some he
    exact methods_agree g pos c {} hu hc rfl rfl (all_columns_hold_answer g pos c {} rfl hc)
  | none => exact outside_gives_none g pos {} (exhaustive_none he)

/-- With a quadtree (and any other aids) the result is the same column or `None`: never another
    column.  (`_partial`: completeness of the quadtree search is not proved — it does not hold for
    every domain; see the header.) -/
theorem quadtree_agrees_or_none_partial (g : Geo) (pos : Pt) (c : Nat) (a : Aids)
    (hu : UniqueAt g pos) (hc : g.containsPoint c pos = true) :
    columnContainingPoint g pos a = some c ∨ columnContainingPoint g pos a = none := by
  cases h : columnContainingPoint g pos a with
  | none => exact Or.inr rfl
  | some c' => rw [hu c' c (found_column_contains g pos a c' h) hc]; exact Or.inl rfl

/-! ### The quadtree -/

/-- Every node of the quadtree built by `quadtree.__init__` satisfies `NodeOK`: a node with at most
    one element is a leaf; each child is non-empty, sits in one of the four sub-rectangles, and holds
    only parent elements whose centres are in the child's rectangle; an element whose centre is in
    the node's rectangle goes to exactly one child (it occurs in the children's lists as often as in
    the parent's). -/
theorem quadtree_partition (g : Geo) (fuel : Nat) (bounds : Rect) (elements : List Nat) (t : QTree)
    (h : buildQ g fuel bounds elements = some t) : QAll (NodeOK g) t :=
  buildQ_all fuel bounds elements t h

/-- the root keeps the given bounds and elements -/
theorem quadtree_root (g : Geo) (fuel : Nat) (bounds : Rect) (elements : List Nat) (t : QTree)
    (h : buildQ g fuel bounds elements = some t) : t.bounds = bounds ∧ t.elements = elements :=
  buildQ_root fuel bounds elements t h

/-- the four sub-rectangles cover the rectangle and lie inside it -/
theorem sub_rectangles_cover (p : Pt) (r : Rect) (h : inRectangle p r = true) :
    ∃ k, k < 4 ∧ firstRect p (subRectangles r) = some k := subRect_cover p r h

theorem sub_rectangles_inside (q : Pt) (r s : Rect) (hs : s ∈ subRectangles r)
    (h : inRectangle q s = true) : inRectangle q r = true := subRect_inside q r s hs h

/-- `leaf(pos)` is a node whose bounds contain `pos` … -/
theorem quadtree_leaf_contains_point (p : Pt) (t l : QTree) (h : t.leaf p = some l) :
    inRectangle p l.bounds = true := leaf_bounds p t l h

/-- … it exists exactly when `pos` is in the root's bounds. -/
theorem quadtree_leaf_exists (p : Pt) (t : QTree) :
    (∃ l, t.leaf p = some l) ↔ inRectangle p t.bounds = true := by
  constructor
  · intro ⟨l, hl⟩
    cases hb : inRectangle p t.bounds with
    | true => rfl
    | false => rw [leaf_none p t hb] at hl; cases hl
  · exact leaf_some p t

/-- **Completeness of the quadtree search relative to the neighbour graph** (`_partial`: the hypothesis
    `Reachable` is about the column graph, not about the plane).  If the containing column can be
    reached from an element of the point's leaf by steps to neighbours that are elements of the tree
    and whose bounding boxes meet the leaf rectangle (`AvoidReach … []`, the relation `search_wave`
    explores), then the search with a quadtree — and any guess, column subset, and bounds holding the
    point — returns that column, i.e. agrees with plain search.  What is *not* proved is the planar
    fact that such a chain exists whenever the straight segment from a leaf element's centre to the
    point stays inside the domain; `islands` below shows it can fail otherwise.  The harness evaluates
    `Reachable` on every explored point (evidence: `hypotheses_met`). -/
theorem quadtree_search_complete_partial (g : Geo) (pos : Pt) (c : Nat) (a : Aids) (q : QT) (l : QTree)
    (hu : UniqueAt g pos) (hc : g.containsPoint c pos = true)
    (hq : a.qtree = some q) (hb : inBounds pos a.bounds = true)
    (hl : q.root.leaf pos = some l)
    (hr : ∃ e ∈ l.elements, AvoidReach g q.all l.bounds c [] e) :
    columnContainingPoint g pos a = some c := by
  unfold columnContainingPoint
  rw [hb, hq]
  exact guessSearch_complete_qtree hu hc hl hr

/-- **Completeness of the quadtree search on rectangular lattices** (no reachability hypothesis).
    `Lattice g nx ny xs ys`: the columns' bounding boxes are the cells of a full `nx × ny` lattice with
    grid lines `xs 0 ≤ … ≤ xs nx`, `ys 0 ≤ … ≤ ys ny` (column `i + nx·j` is cell `(i, j)`), each centre is
    in its cell, and cells sharing a side are neighbours — what `mulgrid().rectangular(...)` builds.  With
    the quadtree that `column_quadtree()` builds over all columns, in any bounds covering the lattice, the
    search with the quadtree — and any guess, column subset, and bounds holding the point — returns the
    column that contains the point.  The planar step proved here: from any element of the point's leaf,
    walking along its row and then along the target's column only visits cells whose bounding boxes meet
    the leaf rectangle, so `search_wave` gets there. -/
theorem quadtree_search_complete_rectangular (g : Geo) (nx ny : Nat) (xs ys : Nat → Rat) (L : Lattice g nx ny xs ys)
    (bounds : Rect) (hcov : Covers bounds nx ny xs ys) (pos : Pt) (c : Nat) (a : Aids) (q : QT)
    (hu : UniqueAt g pos) (hc : g.containsPoint c pos = true)
    (hq : a.qtree = some q) (hbuilt : columnQuadtree g bounds (List.range g.ncols) = some q)
    (hb : inBounds pos a.bounds = true) :
    columnContainingPoint g pos a = some c := by
  obtain ⟨l, hl, hne, hr⟩ := lattice_leaf_reach L hbuilt hcov hc
  obtain ⟨e, he⟩ := List.exists_mem_of_ne_nil _ hne
  exact quadtree_search_complete_partial g pos c a q l hu hc hq hb hl ⟨e, he, hr e he⟩

/-- **Axis-aligned rectangular columns form a `Lattice`**: if column `i + nx·j` has all its nodes in the cell
    `[xs i, xs (i+1)] × [ys j, ys (j+1)]` and the cell's bottom-left and top-right corners among them (a
    rectangle, nodes in any order or orientation), its `bounding_box` is that cell — so the `bbox` clause of
    `Lattice` is derived from the polygons rather than assumed. -/
theorem rectangular_columns_form_lattice (g : Geo) (nx ny : Nat) (xs ys : Nat → Rat)
    (hn : g.ncols = nx * ny) (hx : ∀ i, i < nx → xs i ≤ xs (i + 1)) (hy : ∀ j, j < ny → ys j ≤ ys (j + 1))
    (hpoly : ∀ i j, i < nx → j < ny →
      (xs i, ys j) ∈ g.poly (i + nx * j) ∧ (xs (i + 1), ys (j + 1)) ∈ g.poly (i + nx * j) ∧
      ∀ q ∈ g.poly (i + nx * j), inRectangle q ((xs i, ys j), (xs (i + 1), ys (j + 1))) = true)
    (hcentre : ∀ k, k < g.ncols → inRectangle (g.centre k) (g.bbox k) = true)
    (hE : ∀ i j, i + 1 < nx → j < ny →
      (i + 1 + nx * j) ∈ g.nbrs (i + nx * j) ∧ (i + nx * j) ∈ g.nbrs (i + 1 + nx * j))
    (hN : ∀ i j, i < nx → j + 1 < ny →
      (i + nx * (j + 1)) ∈ g.nbrs (i + nx * j) ∧ (i + nx * j) ∈ g.nbrs (i + nx * (j + 1))) :
    Lattice g nx ny xs ys :=
  { ncols := hn, monoX := hx, monoY := hy, centre := hcentre, nbrE := hE, nbrN := hN,
    bbox := fun i j hi hj => by
      obtain ⟨h1, h2, h3⟩ := hpoly i j hi hj
      exact bounds_of_rectangle (R := ((xs i, ys j), (xs (i + 1), ys (j + 1)))) h3 h1 h2 }

/-- hence on a rectangular lattice the search with the quadtree (and any guess) **agrees with plain
    search at every point**, inside or outside the grid -/
theorem quadtree_agrees_with_plain_rectangular (g : Geo) (nx ny : Nat) (xs ys : Nat → Rat) (L : Lattice g nx ny xs ys)
    (bounds : Rect) (hcov : Covers bounds nx ny xs ys) (pos : Pt) (q : QT) (guess : Option Nat)
    (hu : UniqueAt g pos) (hbuilt : columnQuadtree g bounds (List.range g.ncols) = some q) :
    columnContainingPoint g pos { qtree := some q, guess := guess } = columnContainingPoint g pos {} := by
  rw [plain_agrees_with_exhaustive g pos hu]
  cases he : exhaustiveSearch g pos with
  | some c =>
    exact quadtree_search_complete_rectangular g nx ny xs ys L bounds hcov pos c _ q hu (exhaustive_some he) rfl hbuilt rfl
  | none => exact outside_gives_none g pos _ (exhaustive_none he)

/-- `search_wave` in the model is given `len(all_elements) + len(elements) + 1` units of fuel; giving
    it any more changes nothing, i.e. the model's loop always ends because the `todo` list empties
    or the column is found — as the Python `while` loop does — never because the fuel ran out. -/
theorem search_wave_fuel_suffices (g : Geo) (all : List Nat) (leaf : QTree) (p : Pt) (extra : Nat) :
    searchWaveLoop g all leaf.bounds p (searchFuel all leaf.elements + extra) leaf.elements [] = searchWave g all leaf p :=
  searchWave_fuel_enough g all leaf p extra

/-! ### The block reported for a 3-D point -/

/-- A reported block (layer `li`, column `ci`): `ci` is the column found for the horizontal
    position (so it contains it), the block exists (`surface > bottom`), and either the elevation
    is in the layer (`bottom ≤ z ≤ top`) or it lies between ground level and a raised surface and
    the layer is the top one. -/
theorem block_at_point_spec (g : Geo) (p : Pt) (z : Rat) (qt : Option QT) (li ci : Nat)
    (h : blockContainingPoint g p z qt = .ok (some (li, ci))) :
    columnContainingPoint g p { qtree := qt } = some ci ∧
    ∃ col lay l0, g.cols[ci]? = some col ∧ g.layers[li]? = some lay ∧ g.layers[0]? = some l0 ∧ 1 ≤ li ∧
      col.surface > lay.bottom ∧
      ((l0.bottom < z ∧ z ≤ col.surface ∧ li = 1) ∨ (lay.bottom ≤ z ∧ z ≤ lay.top)) :=
  block_reported_spec h

theorem block_reported_is_in_found_column (g : Geo) (p : Pt) (z : Rat) (qt : Option QT) (li ci : Nat)
    (h : blockContainingPoint g p z qt = .ok (some (li, ci))) : g.containsPoint ci p = true :=
  found_column_contains g p _ ci (block_reported_spec h).1

/-- With stacked layers, at or below ground level: the block of the found column and of the layer
    with `bottom < z < top` is reported (when the column reaches into that layer). -/
theorem block_at_point_in_layer (g : Geo) (p : Pt) (z : Rat) (qt : Option QT) (li ci : Nat)
    (col : Column) (lay l0 : Layer)
    (hcol : columnContainingPoint g p { qtree := qt } = some ci)
    (hc : g.cols[ci]? = some col) (h0 : g.layers[0]? = some l0) (hl : g.layers[li]? = some lay) (hli : 1 ≤ li)
    (hst : Stacked (g.layers.drop 1)) (hground : z ≤ l0.bottom)
    (hb : lay.bottom < z) (ht : z < lay.top) (hs : col.surface > lay.bottom) :
    blockContainingPoint g p z qt = .ok (some (li, ci)) :=
  block_in_layer hcol hc h0 hl hli hst hground hb ht hs

/-- Between ground level and a raised surface: the top layer's block. -/
theorem block_at_point_raised_surface (g : Geo) (p : Pt) (z : Rat) (qt : Option QT) (ci : Nat)
    (col : Column) (l0 l1 : Layer)
    (hcol : columnContainingPoint g p { qtree := qt } = some ci)
    (hc : g.cols[ci]? = some col) (h0 : g.layers[0]? = some l0) (h1 : g.layers[1]? = some l1)
    (hz : l0.bottom < z) (hzs : z ≤ col.surface) (hs : col.surface > l1.bottom) :
    blockContainingPoint g p z qt = .ok (some (1, ci)) :=
  block_raised_surface hcol hc h0 h1 hz hzs hs

/-- `None` when no column contains the position … -/
theorem block_at_point_none_outside (g : Geo) (p : Pt) (z : Rat) (qt : Option QT)
    (h : columnContainingPoint g p { qtree := qt } = none) : blockContainingPoint g p z qt = .ok none :=
  block_none_of_no_column h

/-- … and when the elevation is in no layer and not under a raised surface (above the surface and
    ground level, or below the bottom layer). -/
theorem block_at_point_none_above_or_below (g : Geo) (p : Pt) (z : Rat) (qt : Option QT) (ci : Nat)
    (col : Column) (l0 : Layer)
    (hcol : columnContainingPoint g p { qtree := qt } = some ci)
    (hc : g.cols[ci]? = some col) (h0 : g.layers[0]? = some l0)
    (hz : ¬ (l0.bottom < z ∧ z ≤ col.surface))
    (hno : ∀ l ∈ g.layers.drop 1, l.containsElevation z = false) :
    blockContainingPoint g p z qt = .ok none :=
  block_none_of_no_layer hcol hc h0 hz hno

/-- At or below ground level the reported block contains the point in the sense of
    `block_contains_point`.  (`_partial`: between ground level and a raised surface the real
    `block_contains_point` answers False for the block that is — correctly — reported; the
    hypothesis `z ≤ ground` excludes exactly that region.  Reported to the lead; counted by the
    harness on every run.) -/
theorem reported_block_contains_point_partial (g : Geo) (p : Pt) (z : Rat) (qt : Option QT) (li ci : Nat) (l0 : Layer)
    (h : blockContainingPoint g p z qt = .ok (some (li, ci))) (h0 : g.layers[0]? = some l0)
    (hground : z ≤ l0.bottom) : blockContainsPoint g li ci p z = true :=
  reported_block_contains h h0 hground

/-- Uniqueness: with `UniqueAt` and stacked layers, any block below the atmosphere layer that
    contains the point (in the sense of `block_contains_point`, elevation strictly inside the layer,
    at or below ground level) *is* the block reported by plain search; so no other block does. -/
theorem containing_block_is_the_reported_one (g : Geo) (p : Pt) (z : Rat) (li ci : Nat) (lay l0 : Layer)
    (hu : UniqueAt g p) (hst : Stacked (g.layers.drop 1))
    (h : blockContainsPoint g li ci p z = true) (hli : 1 ≤ li)
    (hl : g.layers[li]? = some lay) (h0 : g.layers[0]? = some l0)
    (hb : lay.bottom < z) (ht : z < lay.top) (hground : z ≤ l0.bottom) :
    blockContainingPoint g p z none = .ok (some (li, ci)) :=
  containing_block_is_reported hu hst h hli hl h0 hb ht hground

/-! ### Non-vacuity: a concrete geometry on which every hypothesis above is met -/

/-- two unit squares side by side, the second with its surface raised to 1/2; ground level 0,
    layers [-1,0] and [-3,-1] -/
def demo : Geo :=
  { cols := [ { poly := [(0, 0), (0, 1), (1, 1), (1, 0)], centre := (1/2, 1/2), surface := 0, nbrs := [1] },
              { poly := [(1, 0), (1, 1), (2, 1), (2, 0)], centre := (3/2, 1/2), surface := 1/2, nbrs := [0] } ],
    layers := [ ⟨0, 0⟩, ⟨-1, 0⟩, ⟨-3, -1⟩ ] }

def demoQT : Option QT := columnQuadtree demo ((0, 0), (2, 1)) [0, 1]

-- found_column_contains / methods_agree: plain, wrong guess, rectangle, subset, quadtree all give column 1
example : columnContainingPoint demo (3/2, 1/4) {} = some 1 := by decide +kernel
example : columnContainingPoint demo (3/2, 1/4) { guess := some 0 } = some 1 := by decide +kernel
example : columnContainingPoint demo (3/2, 1/4) { bounds := some [(0, 0), (2, 1)], columns := some [1] } = some 1 := by decide +kernel
example : columnContainingPoint demo (3/2, 1/4) { qtree := demoQT } = some 1 := by decide +kernel
example : demo.containsPoint 1 (3/2, 1/4) = true ∧ demo.containsPoint 0 (3/2, 1/4) = false := by decide +kernel
-- outside_gives_none: a point level with the vertices, left of the grid
example : columnContainingPoint demo (-5, 0) { guess := some 0 } = none := by decide +kernel
-- crossing parity on a polygon with a nearly horizontal edge (the repaired defect)
example : inPolygon (-50, 0) [(0, 0), (100, 1/1000000000), (100, 100), (0, 100)] = 0 := by decide +kernel
example : inPolygon (50, 50) [(0, 0), (100, 1/1000000000), (100, 100), (0, 100)] = 1 := by decide +kernel
-- quadtree: two elements, two children, the leaf of a point
example : (buildQ demo quadFuel ((0, 0), (2, 1)) [0, 1]).map (fun t => t.child.map QTree.elements) = some [[0], [1]] := by
  decide +kernel
example : (demoQT.map fun q => (q.root.leaf (3/2, 1/4)).map QTree.elements) = some (some [1]) := by decide +kernel
-- quadtree_search_complete_partial: its hypotheses are met on `demo` with the tree the constructor builds
-- (written out here; the leaf of the point holds column 1 itself)
def demoTree : QTree :=
  .node ((0, 0), (2, 1)) [0, 1] [.node ((0, 0), (1, 1/2)) [0] [], .node ((1, 0), (2, 1/2)) [1] []]
example : ∃ l, demoTree.leaf (3/2, 1/4) = some l ∧ ∃ e ∈ l.elements, AvoidReach demo [0, 1] l.bounds 1 [] e := by
  have h1 : inRectangle ((3/2 : Rat), (1/4 : Rat)) ((0, 0), (2, 1)) = true := by decide +kernel
  have h2 : inRectangle ((3/2 : Rat), (1/4 : Rat)) ((0, 0), (1, 1/2)) = false := by decide +kernel
  have h3 : inRectangle ((3/2 : Rat), (1/4 : Rat)) ((1, 0), (2, 1/2)) = true := by decide +kernel
  refine ⟨.node ((1, 0), (2, 1/2)) [1] [], ?_, 1, by simp [QTree.elements], AvoidReach.base (by simp)⟩
  simp only [demoTree, QTree.leaf, leafList, h1, h2, h3, if_true, Bool.false_eq_true, if_false]
example : columnContainingPoint demo (3/2, 1/4) { qtree := some ⟨demoTree, [0, 1]⟩, guess := some 0 } = some 1 := by decide +kernel
example : (demoQT.map fun q => q.root.child.map fun c => (c.bounds, c.elements)) =
    some [(((0, 0), (1, 1/2)), [0]), (((1, 0), (2, 1/2)), [1])] := by decide +kernel
-- why quadtree completeness is not a theorem: two islands (the column between them deleted); the leaf of
-- a point of the right island holds only the left column, which has no neighbours: plain search finds
-- column 1, the quadtree search returns None.  (The real code does the same: corpus case in the harness.)
def islands : Geo :=
  { cols := [ { poly := [(1, 0), (1, 1), (0, 1), (0, 0)], centre := (1/2, 1/2), surface := 0, nbrs := [] },
              { poly := [(3, 0), (3, 1), (5/4, 1), (5/4, 0)], centre := (17/8, 1/2), surface := 0, nbrs := [] } ],
    layers := [ ⟨0, 0⟩, ⟨-1, 0⟩ ] }
example : columnContainingPoint islands (21/16, 1/4) {} = some 1 ∧
          columnContainingPoint islands (21/16, 1/4) { qtree := columnQuadtree islands ((0, 0), (3, 1)) [0, 1] } = none := by
  decide +kernel
-- quadtree_search_complete_rectangular: a 2 × 2 lattice with unequal spacing (grid lines x = 0, 1, 3; y = 0, 2, 3),
-- quadtree over a larger rectangle; the hypotheses hold and the search finds cell (1, 1) from a far guess
def grid22 : Geo :=
  { cols := [ { poly := [(0, 0), (0, 2), (1, 2), (1, 0)], centre := (1/2, 1), surface := 0, nbrs := [1, 2] },
              { poly := [(1, 0), (1, 2), (3, 2), (3, 0)], centre := (2, 1), surface := 0, nbrs := [0, 3] },
              { poly := [(0, 2), (0, 3), (1, 3), (1, 2)], centre := (1/2, 5/2), surface := 0, nbrs := [0, 3] },
              { poly := [(1, 2), (1, 3), (3, 3), (3, 2)], centre := (2, 5/2), surface := 0, nbrs := [1, 2] } ],
    layers := [ ⟨0, 0⟩, ⟨-1, 0⟩ ] }
def gridX : Nat → Rat := fun i => if i = 0 then 0 else if i = 1 then 1 else 3
def gridY : Nat → Rat := fun j => if j = 0 then 0 else if j = 1 then 2 else 3
example : Lattice grid22 2 2 gridX gridY := by
  have hb : ∀ i, i < 2 → ∀ j, j < 2 → grid22.bbox (i + 2 * j) = ((gridX i, gridY j), (gridX (i + 1), gridY (j + 1))) := by
    decide +kernel
  have he : ∀ i, i < 1 → ∀ j, j < 2 →
      (i + 1 + 2 * j) ∈ grid22.nbrs (i + 2 * j) ∧ (i + 2 * j) ∈ grid22.nbrs (i + 1 + 2 * j) := by decide +kernel
  have hn : ∀ i, i < 2 → ∀ j, j < 1 →
      (i + 2 * (j + 1)) ∈ grid22.nbrs (i + 2 * j) ∧ (i + 2 * j) ∈ grid22.nbrs (i + 2 * (j + 1)) := by decide +kernel
  exact { ncols := by decide, monoX := by decide +kernel, monoY := by decide +kernel,
          bbox := fun i j hi hj => hb i hi j hj, centre := by decide +kernel,
          nbrE := fun i j hi hj => he i (by omega) j hj, nbrN := fun i j hi hj => hn i hi j (by omega) }
-- rectangular_columns_form_lattice: the polygon hypothesis holds on `grid22`
example : ∀ i, i < 2 → ∀ j, j < 2 →
    (gridX i, gridY j) ∈ grid22.poly (i + 2 * j) ∧ (gridX (i + 1), gridY (j + 1)) ∈ grid22.poly (i + 2 * j) ∧
    ∀ q ∈ grid22.poly (i + 2 * j), inRectangle q ((gridX i, gridY j), (gridX (i + 1), gridY (j + 1))) = true := by
  decide +kernel
example : Covers ((-1, -1), (4, 4)) 2 2 gridX gridY := by unfold Covers; decide +kernel
example : ∃ q, columnQuadtree grid22 ((-1, -1), (4, 4)) (List.range grid22.ncols) = some q ∧
    grid22.containsPoint 3 (5/2, 9/4) = true ∧
    columnContainingPoint grid22 (5/2, 9/4) { qtree := some q, guess := some 0 } = some 3 := by
  decide +kernel
-- blocks: in a layer, under the raised surface, above everything, below everything
example : blockContainingPoint demo (3/2, 1/4) (-2) none = .ok (some (2, 1)) := by decide +kernel
example : blockContainingPoint demo (3/2, 1/4) (1/4) none = .ok (some (1, 1)) := by decide +kernel
example : blockContainingPoint demo (3/2, 1/4) 1 none = .ok none := by decide +kernel
example : blockContainingPoint demo (1/2, 1/4) (-4) none = .ok none := by decide +kernel
example : Stacked (demo.layers.drop 1) := by
  show (-1 : Rat) ≤ 0 ∧ (-1 : Rat) ≤ -1 ∧ (-3 : Rat) ≤ -1
  decide +kernel
example : blockContainsPoint demo 2 1 (3/2, 1/4) (-2) = true ∧ blockContainsPoint demo 1 1 (3/2, 1/4) (-2) = false := by decide +kernel
-- the region excluded by `reported_block_contains_point_partial`: reported, yet `block_contains_point` is False
example : blockContainingPoint demo (3/2, 1/4) (1/4) none = .ok (some (1, 1)) ∧
          blockContainsPoint demo 1 1 (3/2, 1/4) (1/4) = false := by decide +kernel

/-! ### `column_track` -/

/-- **Entry and exit points lie on the line**: each point of each entry is `line[0] + s·(line[1] − line[0])`
    with the recorded parameter `s` in `[−1e-9, 1 + 1e-9]` (the code's own acceptance band; `s = 0` and
    `s = 1` exactly for the line's end points). -/
theorem track_points_on_line (g : Geo) (a b : Pt) (segs : List Seg) (h : columnTrack g a b = .ok segs) :
    ∀ s ∈ segs, s.pin = lerp a b s.sin ∧ InUnitTol s.sin ∧ s.pout = lerp a b s.sout ∧ InUnitTol s.sout := by
  intro s hs
  obtain ⟨_, hin, hout⟩ := track_segs_ok h s hs
  have z : InUnitTol 0 := by unfold InUnitTol lpiTol; constructor <;> decide +kernel
  have o : InUnitTol 1 := by unfold InUnitTol lpiTol; constructor <;> decide +kernel
  have la : a = lerp a b 0 := by simp [lerp]
  have lb : b = lerp a b 1 := by simp [lerp]
  refine ⟨?_, ?_, ?_, ?_⟩
  · rcases hin with ⟨h1, h2, _⟩ | ⟨_, _, h3⟩
    · rw [h1, h2]; exact la
    · exact h3
  · rcases hin with ⟨_, h2, _⟩ | ⟨_, h2, _⟩
    · rw [h2]; exact z
    · exact h2
  · rcases hout with ⟨h1, h2, _⟩ | ⟨_, _, h3⟩
    · rw [h1, h2]; exact lb
    · exact h3
  · rcases hout with ⟨_, h2, _⟩ | ⟨_, h2, _⟩
    · rw [h2]; exact o
    · exact h2

/-- **… and on their column**: the column is a column of the geometry; the entry point is the line's
    start point lying inside the column, or a point of an edge of the column (`OnBoundary`); likewise
    the exit point with the line's end point. -/
theorem track_points_on_column (g : Geo) (a b : Pt) (segs : List Seg) (h : columnTrack g a b = .ok segs) :
    ∀ s ∈ segs, s.col < g.ncols ∧
      ((s.pin = a ∧ g.containsPoint s.col a = true) ∨ OnBoundary (g.poly s.col) s.pin) ∧
      ((s.pout = b ∧ g.containsPoint s.col b = true) ∨ OnBoundary (g.poly s.col) s.pout) := by
  intro s hs
  obtain ⟨hc, hin, hout⟩ := track_segs_ok h s hs
  refine ⟨hc, ?_, ?_⟩
  · rcases hin with ⟨h1, _, h3⟩ | ⟨h1, _, _⟩
    · exact Or.inl ⟨h1, h3⟩
    · exact Or.inr h1
  · rcases hout with ⟨h1, _, h3⟩ | ⟨h1, _, _⟩
    · exact Or.inl ⟨h1, h3⟩
    · exact Or.inr h1

/-- **Ordered along the line**: sorted by the distance `|sin|·‖line‖` of the entry point from the line start. -/
theorem track_sorted_by_distance (g : Geo) (a b : Pt) (segs : List Seg) (h : columnTrack g a b = .ok segs) :
    segs.Pairwise fun s s' => s.tin ≤ s'.tin := track_sorted h

/-- no column is listed twice -/
theorem track_no_column_twice (g : Geo) (a b : Pt) (segs : List Seg) (h : columnTrack g a b = .ok segs) :
    (segs.map (·.col)).Nodup := track_columns_nodup h

/-- **Abutting at a shared edge**: the crossing of the line with an edge (point and parameter) is the
    same whichever way round the edge is listed — so the exit point of one column through an edge and
    the entry point of its neighbour through the same edge are the same point.  (That consecutive
    entries of the track *are* such neighbours is the planar fact that is not proved.) -/
theorem track_abut_at_shared_edge (a b p q : Pt) : edgeCross a b (q, p) = edgeCross a b (p, q) :=
  edgeCross_reverse_edge a b p q

/-- **Lengths** (`_partial`: under the decidable `Ordered 0`, "entries run forwards without overlap",
    evaluated on every explored line): each length `(sout − sin)·‖line‖` is non-negative and they add up
    to at most the length of the line. -/
theorem track_lengths_partial (segs : List Seg) (h : Ordered 0 segs) :
    (segs.map fun s => s.sout - s.sin).sum ≤ 1 ∧ ∀ s ∈ segs, 0 ≤ s.sout - s.sin := by
  have := lengths_sum_le segs 0 h
  exact ⟨by linarith [this.1], this.2⟩

/-- **A crossed column is listed** (`_partial`): a column that passes the bounding-box test and that the
    line crosses at exactly two points (what a convex column and a line through none of its vertices
    give), with parameters inside the line and more than 1e-3 × (longest side) apart, is in the track —
    when the line does not lie within a single column.  All hypotheses are decidable
    (`crossedLongB`, `notInOneB`) and evaluated on every explored line. -/
theorem track_lists_crossed_column_partial (g : Geo) (a b : Pt) (segs : List Seg) (ci : Nat)
    (h : columnTrack g a b = .ok segs) (hci : ci < g.ncols)
    (hnb : notInOneB g a b = true)
    (hlir : lineIntersectsRectangle (g.bbox ci) a b = some true) (hc : crossedLongB g a b ci = true) :
    ∃ s ∈ segs, s.col = ci :=
  crossed_column_listed h hci (notInOneB_sound hnb) hlir (crossedLongB_sound hc)

/-- **The repaired merging rule**: every crossing of the line with a polygon is reported by
    `line_polygon_intersections` or lies within 1e-3 × (longest side) of a reported one, measured along
    the line — independently of how far from the line start it is. -/
theorem track_merges_only_close_crossings (poly : Poly) (a b : Pt) (pts : List Cross)
    (hS : 0 < maxSideSq poly) (h : linePolygonIntersectionsT poly a b = .ok pts) :
    (∀ c ∈ pts, c ∈ crossings poly a b) ∧
    ∀ c ∈ crossings poly a b, ∃ c' ∈ pts,
      (c.t.abs - c'.t.abs) * (c.t.abs - c'.t.abs) * distSq a b * 1000000 ≤ maxSideSq poly :=
  ⟨lpiT_subset h, every_crossing_represented hS h⟩

/-- **Direction independence of the crossings**: the reversed line meets a polygon in the same points, in
    the same order, at parameters `1 − t`. -/
theorem track_crossings_direction_independent (poly : Poly) (a b : Pt) :
    crossings poly b a = (crossings poly a b).map Cross.rev := crossings_reverse poly a b

/-- **Direction independence of the track** (`_partial`, under the decidable `revHypB`: the line is not
    within one column, each end point is in at most one column, the bounding-box test gives the same
    answer both ways, and every column that passes it is not crossed, crossed once inside the line, or
    crossed twice more than the clip tolerance apart): the track of the reversed line has exactly the
    same entries with entry and exit exchanged. -/
theorem track_reverse_partial (g : Geo) (a b : Pt) (T T' : List Seg) (hyp : revHypB g a b = true)
    (h : columnTrack g a b = .ok T) (h' : columnTrack g b a = .ok T') :
    ∀ s, s ∈ T ↔ flipSeg s ∈ T' := track_reverse (revHypB_sound hyp) h h'

-- non-vacuity: a line from inside column 0 to inside column 1 of `demo`, the same line reversed, and a line
-- crossing both columns from outside
example : columnTrack demo (1/4, 1/2) (7/4, 1/2) =
    .ok [⟨0, (1/4, 1/2), (1, 1/2), 0, 1/2⟩, ⟨1, (1, 1/2), (7/4, 1/2), 1/2, 1⟩] :=
  columnTrack_of_sorted (st := ⟨some 0, some 1, [⟨0, (1/4, 1/2), (1, 1/2), 0, 1/2⟩, ⟨1, (1, 1/2), (7/4, 1/2), 1/2, 1⟩]⟩)
    (by decide +kernel) (by decide +kernel) (by decide +kernel)
-- the reversed line: the loop (before the final sort) collects the same two entries, flipped
example : trackLoop demo (7/4, 1/2) (1/4, 1/2) (List.range demo.ncols) {} =
    .ok ⟨some 1, some 0, [flipSeg ⟨0, (1/4, 1/2), (1, 1/2), 0, 1/2⟩, flipSeg ⟨1, (1, 1/2), (7/4, 1/2), 1/2, 1⟩]⟩ := by
  decide +kernel
example : revHypB demo (1/4, 1/2) (7/4, 1/2) = true := by decide +kernel
example : revHypB demo (-1, 1/4) (3, 3/4) = true ∧ notInOneB demo (-1, 1/4) (3, 3/4) = true ∧
    crossedLongB demo (-1, 1/4) (3, 3/4) 0 = true ∧
    lineIntersectsRectangle (demo.bbox 0) (-1, 1/4) (3, 3/4) = some true := by decide +kernel
example : columnTrack demo (-1, 1/4) (3, 3/4) =
      .ok [⟨0, (0, 3/8), (1, 1/2), 1/4, 1/2⟩, ⟨1, (1, 1/2), (2, 5/8), 1/2, 3/4⟩] ∧
    orderedB 0 [⟨0, (0, 3/8), (1, 1/2), 1/4, 1/2⟩, ⟨1, (1, 1/2), (2, 5/8), 1/2, 3/4⟩] = true :=
  ⟨columnTrack_of_sorted (st := ⟨none, none, [⟨0, (0, 3/8), (1, 1/2), 1/4, 1/2⟩, ⟨1, (1, 1/2), (2, 5/8), 1/2, 3/4⟩]⟩)
    (by decide +kernel) (by decide +kernel) (by decide +kernel), by decide +kernel⟩
example : (crossings [(0, 0), (0, 1), (1, 1), (1, 0)] (-1, 1/4) (3, 3/4)).map (·.pt) = [(0, 3/8), (1, 1/2)] := by decide +kernel

end Props.C12
