/-
  C13 — initial-conditions file write/read round trip preserves every block's state.

  Property theorems about `Model/Incon.lean` (model of t2incon.read / write / add_incon, t2blockincon)
  over `Model/Fixed.lean` (records) and `Model/Names.lean` (fix/unfix/valid_blockname), instantiated
  on the `t2incon` format table regenerated from /repo (`Gen/Specs.lean`).
  Proofs: `Proofs/InconNames, InconLines, InconFile, InconRoundtrip`.

  Reading guide (clause of the property → theorem):
    "writing … and reading it back gives the same blocks in the same order,
     each with the same primary variables (to 13 decimals), porosity, optional permeability triple,
     optional sequence numbers, the same simulator flavour and, when not reset, the same restart
     timing"                                   incon_roundtrip_partial  (+ corollaries blocks_in_order, flavour_preserved,
                                               timing_iff_not_reset, variables_to_13_decimals, integers_exact)
    "1..12 primary variables (1..3 lines)"     incon_roundtrip_partial (any count ≥ 1) and num_variables_needed
    "block names survive the naming quirk in both directions"   name_written_then_read, name_read_then_written
    "writing it again reproduces the file byte for byte"        incon_write_fixpoint_partial (whole file), rewrite_real_stable_partial
                                               (per value), fmtE_reprint_stable; witnesses of the two excluded classes:
                                               excluded_reduced_precision_carry, excluded_header_double_rounding
-/
import PyTough.Model.Incon
import PyTough.Gen.Specs
import PyTough.Proofs.InconRoundtrip
import PyTough.Proofs.InconRewrite
import PyTough.Proofs.InconFixpoint
import PyTough.Proofs.InconMore1
import PyTough.Proofs.InconMore2
import PyTough.Proofs.InconMore3

namespace Props.C13
open Py Model Model.Incon Model.Names Proofs Proofs.Incon

/-! ### the record layouts of the current /repo tree -/

def specOf (name : String) : List FieldSpec :=
  match Gen.Specs.t2incon.find name with
  | none => []
  | some sec => match parseSpecs (sec.specs.map String.toList) with | .ok fs => fs | .error _ => []

/-- `t2incon_format_specification` as regenerated from /repo on this run -/
def theSpecs : Specs :=
  { headerShort := specOf "header_short", headerLong := specOf "header_long", incon1 := specOf "incon1",
    incon1Tr := specOf "incon1_toughreact", incon2 := specOf "incon2", timing := specOf "timing",
    timingTr := specOf "timing_toughreact" }

def fieldAt (fs : List FieldSpec) (k : Nat) : FieldSpec :=
  fs.getD k { raw := [], width := 0, left := false, prec := none, typ := '?' }

def theLayout : Layout :=
  let f := fieldAt theSpecs.incon1Tr
  { name := f 0, nseq := f 1, nadd := f 2, por := f 3, k1 := f 4, k2 := f 5, k3 := f 6, v := fieldAt theSpecs.incon2 0 }

def timingLayout (fs : List FieldSpec) : TLayout :=
  { kcyc := fieldAt fs 0, iter := fieldAt fs 1, nm := fieldAt fs 2, tstart := fieldAt fs 3, sumtim := fieldAt fs 4 }

/-- the table has the shape the reader relies on: `incon1` is the first four fields of
    `incon1_toughreact` (name `5s`, two integers, porosity, three permeabilities as reals), a value
    line is four equal real fields, both timing records are three integers and two reals
    (`decide` over the generated table: re-checked on every run) -/
theorem layout_ok : LayoutOK theSpecs theLayout :=
  ⟨by decide +kernel, by decide +kernel, by decide +kernel, by decide +kernel, by decide +kernel, by decide +kernel,
   by decide +kernel, by decide +kernel, by decide +kernel, by decide +kernel, by decide +kernel, by decide +kernel,
   by decide +kernel⟩

theorem timing_ok : TimingOK theSpecs.timing (timingLayout theSpecs.timing) :=
  ⟨by decide +kernel, by decide +kernel, by decide +kernel, by decide +kernel, by decide +kernel, by decide +kernel⟩

theorem timing_toughreact_ok : TimingOK theSpecs.timingTr (timingLayout theSpecs.timingTr) :=
  ⟨by decide +kernel, by decide +kernel, by decide +kernel, by decide +kernel, by decide +kernel, by decide +kernel⟩

/-- what `read` returns for a file `write` produced (definition in `Proofs/InconRoundtrip.lean`):
    the same simulator, the blocks in order with every value replaced by the reading of its own
    written text, the permeabilities iff the flavour is TOUGHREACT, the timing iff it was written -/
def canon (rf : ReadFn) (x : Incon Val) (reset : Bool) : Incon PVal :=
  canonIncon rf theLayout (timingLayout theSpecs.timing) (timingLayout theSpecs.timingTr) x reset

/-! ### write, then read -/

/-- **Round trip** (`_partial`: the classes excluded by `InconWF` are listed below, each with a
    witness further down showing that the model — and, replayed by the harness, the real code —
    really fails there).

    For every set of initial conditions with `InconWF x nvars`: any number of blocks ≥ 0 with
    pairwise distinct five-character names; ≥ 1 real primary variables per block, the same number
    `n` in every block, `num_variables = n` passed to `read`, or nothing passed and `n ≤ 4`;
    porosity a real or absent; `nseq/nadd` integers or absent; permeability triples of reals on any
    subset of the blocks; timing absent, or with integer/absent counters and real times; for
    `reset` on or off, either conversion dictionary, `check_blocknames` on or off: if `write`
    succeeds (every value fits its columns, possibly at reduced precision) then a fresh
    `t2incon(file, num_variables)` returns exactly `canon x reset`.

    Excluded (hypotheses of `InconWF` that the proof forced):
    * E1 `BlockWF.valid`: names rejected by `valid_blockname` — all of naming convention 3
      (known finding `conv3-name-rejected-on-read`; witness `excluded_conv3`);
    * E2 `InconWF.flavour`: simulator TOUGHREACT with no block carrying permeabilities
      (known finding `toughreact-flavour-lost-without-permeability`; witness `excluded_toughreact_bare`);
    * E3 `BlockWF.canonical`: names that `fix ∘ unfix` changes (`abc07`, `ab1 7`; witnesses after
      `name_written_then_read`), and `BlockWF.noplus`: a name starting with `+++` ends the block loop;
    * E4 `NvarsOK`: more than four variables without `num_variables`, or unequal counts
      (`num_variables_needed` says what the reader does instead). -/
theorem incon_roundtrip_partial (rf : ReadFn) (x : Incon Val) (nvars : Option Nat) (check reset : Bool)
    (hwf : InconWF x nvars) {file : List Str} (hw : write theSpecs x reset = .ok file) :
    read rf theSpecs TOUGH2 nvars check file = .ok (canon rf x reset) :=
  read_write rf layout_ok timing_ok timing_toughreact_ok x nvars check reset hwf hw

/-- the same blocks in the same order -/
theorem blocks_in_order (rf : ReadFn) (x : Incon Val) (reset : Bool) :
    (canon rf x reset).blocks.map (·.block) = x.blocks.map (·.block) := by
  simp [canon, canonIncon, canonBlock, Function.comp_def]

/-- the same simulator flavour -/
theorem flavour_preserved (rf : ReadFn) (x : Incon Val) (reset : Bool) :
    (canon rf x reset).simulator = x.simulator := rfl

/-- restart timing comes back exactly when it was set and `reset` is off -/
theorem timing_iff_not_reset (rf : ReadFn) (x : Incon Val) (reset : Bool) :
    ((canon rf x reset).timing.isSome = true ↔ (x.timing.isSome = true ∧ reset = false)) := by
  unfold canon canonIncon timingWritten
  cases x.timing <;> cases reset <;> simp

/-- every primary variable comes back as its printed digits: the value rounded (half-even, see
    `Props.C02.fmtE_nearest`) to `q+1` significant digits with `q = 13` decimals, or fewer when the
    width guard of C02 had to reduce the precision so that the value fits its 20 columns -/
theorem variables_to_13_decimals (rf : ReadFn) (r : Rat) {s : Str}
    (h : writeField theLayout.v (.real r) = .ok s) :
    ∃ q, q ≤ 13 ∧ reparse rf theLayout.v (.real r) =
      .flt (.fin (decide (r < 0)) (fmtEParts q r.num.natAbs r.den).1 ((fmtEParts q r.num.natAbs r.den).2 - q)) := by
  have ht : theLayout.v.typ = 'e' := layout_ok.v_e
  have hp : theLayout.v.prec.getD 6 = 13 := by decide +kernel
  obtain ⟨q, hq, hr⟩ := roundtrip_e_real rf ht r h
  refine ⟨q, by omega, ?_⟩
  unfold reparse
  rw [h]; simp only; rw [ht, hr]

/-- porosities and permeabilities likewise to 9 decimals (`15.9e`) -/
theorem porosity_to_9_decimals (rf : ReadFn) (r : Rat) {s : Str}
    (h : writeField theLayout.por (.real r) = .ok s) :
    ∃ q, q ≤ 9 ∧ reparse rf theLayout.por (.real r) =
      .flt (.fin (decide (r < 0)) (fmtEParts q r.num.natAbs r.den).1 ((fmtEParts q r.num.natAbs r.den).2 - q)) := by
  have ht : theLayout.por.typ = 'e' := layout_ok.por_e
  have hp : theLayout.por.prec.getD 6 = 9 := by decide +kernel
  obtain ⟨q, hq, hr⟩ := roundtrip_e_real rf ht r h
  refine ⟨q, by omega, ?_⟩
  unfold reparse
  rw [h]; simp only; rw [ht, hr]

/-- sequence numbers (and the timing counters) come back exactly; an absent one stays absent -/
theorem integers_exact (rf : ReadFn) {f : FieldSpec} (ht : f.typ = 'd') :
    (∀ (i : Int) (s : Str), writeField f (.int i) = .ok s → reparse rf f (.int i) = .int i) ∧
    reparse rf f .none = .none := by
  constructor
  · intro i s h
    unfold reparse
    rw [h]; simp only; rw [ht, roundtrip_d_int rf ht i h]
  · exact (readable_none rf (numeric_of_d ht)).2

/-! ### `num_variables` -/

/-- Without `num_variables` the reader takes exactly one line of variables per block (so files with
    more than four variables per block need the argument — the hypothesis `NvarsOK` above). -/
theorem num_variables_needed (rf : ReadFn) (S : Specs) (fuel : Nat) (l : Str) (rest : List Str) (acc : List PVal) :
    readVals rf S none (fuel + 1) (l :: rest) acc =
      (match parseString rf S.incon2 l with
       | .ok vals => .ok (acc ++ popNones vals, rest)
       | .error e => .error e) := by
  unfold readVals
  simp only [readline, bind, Except.bind, pure, Except.pure]
  cases parseString rf S.incon2 l <;> rfl

/-! ### block names and the (A3, I2) quirk -/

/-- memory → file → memory: a canonical name is written by `unfix_blockname` and read back by
    `fix_blockname` unchanged.  `Canonical` excludes exactly two shapes, both replayed below: the
    *file* form "digit, blank, digit" and a zero-padded number after a non-digit (`abc07`). -/
theorem name_written_then_read (n : Str) (h : Canonical n) : fixBlockname (unfixBlockname n) = .ok n :=
  fix_unfix_canonical n h

/-- file → memory → file: a name as the simulator prints it is re-written identically -/
theorem name_read_then_written (m : Str) (hlen : m.length = 5) (h : unfixBlockname m = m) :
    ∃ n, fixBlockname m = .ok n ∧ unfixBlockname n = m ∧ n.length = 5 :=
  unfix_fix_fileform m hlen h

/-- whatever `fix_blockname` (hence `mulgrid.block_name`) returns satisfies the first half of `Canonical` -/
theorem fixed_names_have_no_blank (m : Str) (hlen : m.length = 5) :
    ∃ a b c d e, fixBlockname m = .ok [a, b, c, d, e] ∧ ¬ (isDigit c = true ∧ isDigit e = true ∧ d = ' ') :=
  fix_result_no_blank m hlen

example : Canonical "ab107".toList ∧ Canonical "  a 1".toList ∧ Canonical " a100".toList ∧ Canonical "ATM 0".toList := by decide
example : fixBlockname (unfixBlockname "abc07".toList) = .ok "abc 7".toList := by decide   -- excluded shape 2
example : fixBlockname (unfixBlockname "ab1 7".toList) = .ok "ab107".toList := by decide   -- excluded shape 1

/-! ### non-vacuity: a concrete object meets `InconWF`, is written, and read back -/

def exBlock : Block Val :=
  { block := "ab107".toList, vars := [.real (-2600), .real (mkRat 1 (10 ^ 100))], porosity := .real (mkRat 1 10),
    permeability := none, nseq := .none, nadd := .int 3 }
def exIncon : Incon Val := { simulator := TOUGH2, blocks := [exBlock], timing := none }

example : InconWF exIncon none := by
  refine ⟨?_, by decide, Or.inl rfl, by intro t h; cases h⟩
  intro b hb
  simp only [exIncon, List.mem_singleton] at hb
  subst hb
  refine ⟨⟨by decide, by decide, by decide +kernel, by decide, by decide, ?_, Or.inr ⟨_, rfl⟩, Or.inl rfl,
    Or.inr ⟨_, rfl⟩, by intro k h; cases h⟩, by unfold NvarsOK; decide⟩
  intro x hx
  simp only [exBlock, List.mem_cons, List.not_mem_nil, or_false] at hx
  rcases hx with rfl | rfl <;> exact ⟨_, rfl⟩

example : write theSpecs exIncon false = .ok
    ["INCON\n".toList, "ab1 7         31.000000000e-01\n".toList,
     "-2.6000000000000e+031.0000000000000e-100\n".toList, "\n".toList, "\n".toList] := by decide +kernel

example : (read .fortran theSpecs TOUGH2 none true
    ["INCON\n".toList, "ab1 7         31.000000000e-01\n".toList,
     "-2.6000000000000e+031.0000000000000e-100\n".toList, "\n".toList, "\n".toList]).map (fun x => x.blocks.map (·.block))
    = .ok ["ab107".toList] := by decide +kernel

/-! ### the excluded classes are really excluded (witnesses on the model; the harness replays them on /repo) -/

def exConv3 : Incon Val := { exIncon with blocks := [{ exBlock with block := "aakbb".toList }] }

/-- E1: a convention-3 name is written, but reading the file back raises (`Exception('Invalid block name')`) -/
theorem excluded_conv3 :
    (write theSpecs exConv3 false).toOption.isSome = true ∧
    (write theSpecs exConv3 false >>= read .fortran theSpecs TOUGH2 none true) = .error .generic := by
  constructor <;> decide +kernel

def exBare : Incon Val := { exIncon with simulator := TOUGHREACT }

/-- E2: a TOUGHREACT object without permeabilities comes back as TOUGH2 -/
theorem excluded_toughreact_bare :
    (write theSpecs exBare false >>= read .fortran theSpecs TOUGH2 none true).map (·.simulator) = .ok TOUGH2 := by
  decide +kernel

/-! ### writing it again -/

/-- **The second write of a value reproduces the first** (`_partial`: only for values whose first
    write kept the field's own precision; the excluded class is witnessed below).
    For a real `r` in a `%e` field: if `'%w.pe' % r` fits the field, then the decimal that
    `parse_string` returns for it (`reparse`, handed back to the writer as an exact decimal
    — assumption A-float) is written with exactly the same text.  With `fmtE_reprint_stable` below
    this is the per-value content of "byte for byte": every record of the second generation is made
    of the same field texts. -/
theorem rewrite_real_stable_partial (rf : ReadFn) {f : FieldSpec} (ht : f.typ = 'e') (r : Rat) {s : Str}
    (hfull : fmtVal f (.real r) = .ok s) (hfit : s.length ≤ f.width) :
    writeField f (.real r) = .ok s ∧ writeField f (pvalToVal (reparse rf f (.real r))) = .ok s :=
  rewrite_real_stable rf ht r hfull hfit

/-- formatting a decimal that already has exactly `p+1` significant digits returns it unchanged
    (`decNum m t / decDen t` is the decimal `m·10^t` as a fraction), and the result does not depend
    on how the fraction is written -/
theorem fmtE_reprint_stable (p m : Nat) (t : Int) (hlo : 10 ^ p ≤ m) (hhi : m < 10 ^ (p + 1)) :
    fmtEParts p (decNum m t) (decDen t) = (m, t + p) ∧
    ∀ c, 0 < c → fmtEParts p (decNum m t * c) (decDen t * c) = (m, t + p) := by
  have h := fmtEParts_decimal p m t hlo hhi
  exact ⟨h, fun c hc => by rw [fmtEParts_scale p _ _ c (decDen_pos t) hc, h]⟩

/-- the double `-9.99999999999995e-100` (exact value) -/
def exCarry : Rat := mkRat (-4925250774549285) 4925250774549309901534880012517951725634967408808180833493536675530715221437151326426783281860614455100828498788352

/-- Excluded class 1 (known finding `rewrite-differs-same-values`): a negative value just below a
    power of ten with a three-digit exponent does not fit `20.13e`; the width guard writes it with 12
    decimals, the rounding carries to `-1.000000000000e-99`, and the re-read value `-1e-99` *does*
    fit with 13 decimals: same number, different bytes. -/
theorem excluded_reduced_precision_carry :
    writeField theLayout.v (.real exCarry) = .ok " -1.000000000000e-99".toList ∧
    writeField theLayout.v (pvalToVal (reparse .fortran theLayout.v (.real exCarry))) = .ok "-1.0000000000000e-99".toList := by
  constructor <;> decide +kernel

/-- the double `1.2345644999` (exact value) -/
def exSumtim : Rat := mkRat 5559984221714483 4503599627370496

/-- Excluded class 2 (known finding `rewrite-differs-header`): the long header prints `sumtim` in
    `12.6e` from the in-memory value, the next generation from the value re-read from the `15.9e`
    timing record: rounding to 9 and then to 6 decimals is not rounding to 6 decimals.  (Here the
    re-read value is taken as the double Python holds, `pvalToDouble`: the 9-decimal text
    `1.234564500` is a tie for 6 decimals, and the nearest double lies above it.) -/
theorem excluded_header_double_rounding :
    writeField (fieldAt theSpecs.headerLong 3) (.real exSumtim) = .ok "1.234564e+00".toList ∧
    writeField (fieldAt theSpecs.headerLong 3)
      (pvalToDouble (reparse .fortran (timingLayout theSpecs.timing).sumtim (.real exSumtim))) = .ok "1.234565e+00".toList := by
  constructor <;> decide +kernel

theorem header_ok : HeaderOK theSpecs (fieldAt theSpecs.headerLong 0) (fieldAt theSpecs.headerLong 1)
    (fieldAt theSpecs.headerLong 2) (fieldAt theSpecs.headerLong 3) := ⟨by decide +kernel⟩

/-- no value needed reduced precision, and the long header's time is printed identically for the
    in-memory and the re-read `sumtim` (definition `AllFull` in `Proofs/InconFixpoint.lean`) -/
def NoPrecisionLost (rf : ReadFn) (x : Incon Val) (reset : Bool) : Prop :=
  AllFull rf theLayout (timingLayout theSpecs.timing) (timingLayout theSpecs.timingTr)
    (fieldAt theSpecs.headerLong 3) x reset

/-- **Writing it again reproduces the file** (`_partial`).  For every well-formed `x` (as in
    `incon_roundtrip_partial`) with `NoPrecisionLost`: the file `write` produced is read back as some
    `y`, and writing `y` (its values handed back as the exact decimals read: assumption A-float)
    with the same `reset` yields the very same lines.
    Excluded, with witnesses: values that the width guard wrote with reduced precision
    (`excluded_reduced_precision_carry`) and a header time that rounds differently from the 9-decimal
    value (`excluded_header_double_rounding`) — the two known findings of the byte-for-byte clause. -/
theorem incon_write_fixpoint_partial (rf : ReadFn) (x : Incon Val) (nvars : Option Nat) (check reset : Bool)
    (hwf : InconWF x nvars) (hfull : NoPrecisionLost rf x reset) {file : List Str}
    (hw : write theSpecs x reset = .ok file) :
    ∃ y, read rf theSpecs TOUGH2 nvars check file = .ok y ∧
      write theSpecs (y.mapVals pvalToVal) reset = .ok file :=
  ⟨canon rf x reset, incon_roundtrip_partial rf x nvars check reset hwf hw,
    write_back rf layout_ok timing_ok timing_toughreact_ok header_ok x nvars reset hwf hfull hw⟩

-- non-vacuity: the example object loses no precision
example : NoPrecisionLost .fortran exIncon false := by
  refine ⟨?_, by intro t h; cases h⟩
  intro b hb
  simp only [exIncon, List.mem_singleton] at hb
  subst hb
  refine ⟨?_, ?_, by intro k h; cases h⟩
  · intro x hx
    simp only [exBlock, List.mem_cons, List.not_mem_nil, or_false] at hx
    rcases hx with rfl | rfl
    · intro r hr; cases hr
      exact ⟨"-2.6000000000000e+03".toList, by decide +kernel, by decide +kernel⟩
    · intro r hr; cases hr
      exact ⟨"1.0000000000000e-100".toList, by decide +kernel, by decide +kernel⟩
  · intro r hr; cases hr
    exact ⟨"1.000000000e-01".toList, by decide +kernel, by decide +kernel⟩

/-! ### `NoPrecisionLost` as a condition on the VALUES -/

/-- value class of a `20.13e` field (primary variables): the text `'%20.13e' % r` has at most 20
    characters — every non-negative `r` whose printed exponent has at most three digits (every
    non-negative double), every negative `r` whose printed exponent has two digits
    (`printedExp 13 r`: the exponent `'%.13e' % r` prints, a function of the value) -/
def Fits20_13 (r : Rat) : Prop :=
  (0 ≤ r ∧ (printedExp 13 r).natAbs < 1000) ∨ (r < 0 ∧ (printedExp 13 r).natAbs < 100)

/-- value class of a `15.9e` field (porosity, permeabilities, `tstart`, `sumtim`): non-negative with
    a two-digit printed exponent -/
def Fits15_9 (r : Rat) : Prop := 0 ≤ r ∧ (printedExp 9 r).natAbs < 100

instance (r : Rat) : Decidable (Fits20_13 r) := by unfold Fits20_13; exact inferInstance
instance (r : Rat) : Decidable (Fits15_9 r) := by unfold Fits15_9; exact inferInstance

/-- the real fields of the block record and of both timing records are `15.9e`, a value field is
    `20.13e` (`decide` over the regenerated table) -/
theorem real_field_shapes :
    (theLayout.v.prec.getD 6 = 13 ∧ theLayout.v.width = 13 + 7) ∧
    ∀ f ∈ [theLayout.por, theLayout.k1, theLayout.k2, theLayout.k3,
            (timingLayout theSpecs.timing).tstart, (timingLayout theSpecs.timing).sumtim,
            (timingLayout theSpecs.timingTr).tstart, (timingLayout theSpecs.timingTr).sumtim],
      f.typ = 'e' ∧ f.prec.getD 6 = 9 ∧ f.width = 9 + 6 := by
  constructor <;> decide +kernel

/-- **Exact class, primary variables**: a variable is written with all 13 decimals iff it is in `Fits20_13` -/
theorem variable_full_precision_iff (v : Val) :
    FullPrec theLayout.v v ↔ ∀ r, v = .real r → Fits20_13 r :=
  fullPrec_p7_iff layout_ok.v_e real_field_shapes.1.1 (by decide) real_field_shapes.1.2 v

/-- **Exact class, 15.9e fields**: written with all 9 decimals iff in `Fits15_9` -/
theorem field15_full_precision_iff {f : FieldSpec}
    (hf : f ∈ [theLayout.por, theLayout.k1, theLayout.k2, theLayout.k3,
            (timingLayout theSpecs.timing).tstart, (timingLayout theSpecs.timing).sumtim,
            (timingLayout theSpecs.timingTr).tstart, (timingLayout theSpecs.timingTr).sumtim]) (v : Val) :
    FullPrec f v ↔ ∀ r, v = .real r → Fits15_9 r :=
  have h := real_field_shapes.2 f hf
  fullPrec_p6_iff h.1 h.2.1 (by decide) h.2.2 v

/-- **A sufficient condition purely on the magnitude**: `r = 0` or `10⁻⁹⁹ ≤ |r| < 10⁹⁹` (any sign), or
    `r ≥ 0` and (`r = 0` or `10⁻⁹⁹⁹ ≤ r < 10⁹⁹⁹`) — the latter contains every non-negative double -/
theorem fits20_13_of_magnitude (r : Rat) (h : InDecades 99 99 r ∨ (0 ≤ r ∧ InDecades 999 999 r)) : Fits20_13 r := by
  unfold Fits20_13
  rcases h with h | ⟨h0, h⟩
  · have := printedExp_natAbs_lt 13 99 99 2 r h (by decide) (by decide)
    by_cases hr : r < 0
    · exact Or.inr ⟨hr, this⟩
    · exact Or.inl ⟨Rat.not_lt.mp hr, by omega⟩
  · exact Or.inl ⟨h0, printedExp_natAbs_lt 13 999 999 3 r h (by decide) (by decide)⟩

theorem fits15_9_of_magnitude (r : Rat) (h0 : 0 ≤ r) (h : InDecades 99 99 r) : Fits15_9 r :=
  ⟨h0, printedExp_natAbs_lt 9 99 99 2 r h (by decide) (by decide)⟩

/-- every real of `x` that is written lies in the value class of its field -/
structure ValuesFit (x : Incon Val) (reset : Bool) : Prop where
  vars : ∀ b ∈ x.blocks, ∀ v ∈ b.vars, ∀ r, v = .real r → Fits20_13 r
  por : ∀ b ∈ x.blocks, ∀ r, b.porosity = .real r → Fits15_9 r
  perm : ∀ b ∈ x.blocks, ∀ k, b.permeability = some k →
    (∀ r, k.1 = .real r → Fits15_9 r) ∧ (∀ r, k.2.1 = .real r → Fits15_9 r) ∧ (∀ r, k.2.2 = .real r → Fits15_9 r)
  timing : ∀ t, x.timing = some t → reset = false →
    (∀ r, t.tstart = .real r → Fits15_9 r) ∧ (∀ r, t.sumtim = .real r → Fits15_9 r)

/-- when the long header is written, its `12.6e` time is the same text for the in-memory `sumtim`
    and for the value re-read from the `15.9e` timing record (fails only through double rounding:
    `excluded_header_double_rounding`) -/
def HeaderStable (rf : ReadFn) (x : Incon Val) (reset : Bool) : Prop :=
  ∀ t, x.timing = some t → reset = false → ∀ s,
    writeField (fieldAt theSpecs.headerLong 3) t.sumtim = .ok s →
    writeField (fieldAt theSpecs.headerLong 3)
      (back rf (if x.simulator = TOUGHREACT then timingLayout theSpecs.timingTr else timingLayout theSpecs.timing).sumtim
        t.sumtim) = .ok s

theorem timing_fields_15_9 (x : Incon Val) :
    (if x.simulator = TOUGHREACT then timingLayout theSpecs.timingTr else timingLayout theSpecs.timing).tstart ∈
      [theLayout.por, theLayout.k1, theLayout.k2, theLayout.k3,
        (timingLayout theSpecs.timing).tstart, (timingLayout theSpecs.timing).sumtim,
        (timingLayout theSpecs.timingTr).tstart, (timingLayout theSpecs.timingTr).sumtim] ∧
    (if x.simulator = TOUGHREACT then timingLayout theSpecs.timingTr else timingLayout theSpecs.timing).sumtim ∈
      [theLayout.por, theLayout.k1, theLayout.k2, theLayout.k3,
        (timingLayout theSpecs.timing).tstart, (timingLayout theSpecs.timing).sumtim,
        (timingLayout theSpecs.timingTr).tstart, (timingLayout theSpecs.timingTr).sumtim] := by
  split <;> simp

/-- **`NoPrecisionLost` characterised**: it holds exactly when every written real lies in the value
    class of its field (`ValuesFit`, a condition on the values, not on the written text) and the
    header time is stable -/
theorem no_precision_lost_iff (rf : ReadFn) (x : Incon Val) (reset : Bool) :
    NoPrecisionLost rf x reset ↔ (ValuesFit x reset ∧ HeaderStable rf x reset) := by
  have hpor := fun v => field15_full_precision_iff (f := theLayout.por) (by simp) v
  have hk1 := fun v => field15_full_precision_iff (f := theLayout.k1) (by simp) v
  have hk2 := fun v => field15_full_precision_iff (f := theLayout.k2) (by simp) v
  have hk3 := fun v => field15_full_precision_iff (f := theLayout.k3) (by simp) v
  have hts := fun v => field15_full_precision_iff (timing_fields_15_9 x).1 v
  have hst := fun v => field15_full_precision_iff (timing_fields_15_9 x).2 v
  constructor
  · intro h
    refine ⟨⟨?_, ?_, ?_, ?_⟩, ?_⟩
    · intro b hb v hv; exact (variable_full_precision_iff v).mp ((h.blocks b hb).vars v hv)
    · intro b hb; exact (hpor _).mp (h.blocks b hb).por
    · intro b hb k hk
      obtain ⟨a1, a2, a3⟩ := (h.blocks b hb).perm k hk
      exact ⟨(hk1 _).mp a1, (hk2 _).mp a2, (hk3 _).mp a3⟩
    · intro t ht hr
      obtain ⟨a1, a2, _⟩ := h.timing t ht hr
      exact ⟨(hts _).mp a1, (hst _).mp a2⟩
    · intro t ht hr; exact (h.timing t ht hr).2.2
  · intro ⟨hv, hh⟩
    refine ⟨?_, ?_⟩
    · intro b hb
      refine ⟨?_, (hpor _).mpr (hv.por b hb), ?_⟩
      · intro v hvm; exact (variable_full_precision_iff v).mpr (hv.vars b hb v hvm)
      · intro k hk
        obtain ⟨a1, a2, a3⟩ := hv.perm b hb k hk
        exact ⟨(hk1 _).mpr a1, (hk2 _).mpr a2, (hk3 _).mpr a3⟩
    · intro t ht hr
      obtain ⟨a1, a2⟩ := hv.timing t ht hr
      exact ⟨(hts _).mpr a1, (hst _).mpr a2, hh t ht hr⟩

/-- **Writing it again reproduces the file, hypothesis on the values** (`_partial`: `InconWF` as in
    `incon_roundtrip_partial`; the reals outside `ValuesFit` are the class witnessed by
    `excluded_reduced_precision_carry`; `HeaderStable` fails only as in `excluded_header_double_rounding`). -/
theorem incon_write_fixpoint_values_partial (rf : ReadFn) (x : Incon Val) (nvars : Option Nat) (check reset : Bool)
    (hwf : InconWF x nvars) (hv : ValuesFit x reset) (hh : HeaderStable rf x reset) {file : List Str}
    (hw : write theSpecs x reset = .ok file) :
    ∃ y, read rf theSpecs TOUGH2 nvars check file = .ok y ∧
      write theSpecs (y.mapVals pvalToVal) reset = .ok file :=
  incon_write_fixpoint_partial rf x nvars check reset hwf ((no_precision_lost_iff rf x reset).mpr ⟨hv, hh⟩) hw

/-- without restart timing in the file (no timing, or `reset`) the header is the short one and only
    the value classes remain -/
theorem incon_write_fixpoint_untimed_partial (rf : ReadFn) (x : Incon Val) (nvars : Option Nat) (check reset : Bool)
    (hwf : InconWF x nvars) (hv : ValuesFit x reset) (hnt : x.timing = none ∨ reset = true) {file : List Str}
    (hw : write theSpecs x reset = .ok file) :
    ∃ y, read rf theSpecs TOUGH2 nvars check file = .ok y ∧
      write theSpecs (y.mapVals pvalToVal) reset = .ok file :=
  incon_write_fixpoint_values_partial rf x nvars check reset hwf hv
    (by intro t ht hr; rcases hnt with h | h
        · rw [h] at ht; cases ht
        · rw [h] at hr; cases hr) hw

-- non-vacuity: the example object (a negative variable, one with a 3-digit exponent) is in the value classes
example : ValuesFit exIncon false ∧ (exIncon.timing = none ∨ false = true) := by
  refine ⟨⟨?_, ?_, ?_, ?_⟩, Or.inl rfl⟩
  · intro b hb v hv r hr
    simp only [exIncon, List.mem_singleton] at hb
    subst hb
    simp only [exBlock, List.mem_cons, List.not_mem_nil, or_false] at hv
    rcases hv with rfl | rfl <;> cases hr <;> decide +kernel
  · intro b hb r hr
    simp only [exIncon, List.mem_singleton] at hb
    subst hb
    cases hr
    decide +kernel
  · intro b hb k hk
    simp only [exIncon, List.mem_singleton] at hb
    subst hb
    cases hk
  · intro t ht; cases ht
example : InDecades 99 99 (-2600) ∧ (0 ≤ mkRat 1 (10 ^ 100) ∧ InDecades 999 999 (mkRat 1 (10 ^ 100))) ∧
    ¬ Fits20_13 exCarry := by decide +kernel

/-- an object with restart timing whose header time is stable -/
def exTimed : Incon Val :=
  { exIncon with timing := some { kcyc := .int 12, iter := .int 3, nm := .none, tstart := .real 0,
                                  sumtim := .real (mkRat 31557600 1) } }
example : HeaderStable .fortran exTimed false := by
  intro t ht _ s hs
  cases ht
  have h1 : writeField (fieldAt theSpecs.headerLong 3) (Val.real (mkRat 31557600 1)) = .ok "3.155760e+07".toList := by
    decide +kernel
  rw [h1] at hs
  cases hs
  decide +kernel

/-! ### the text of the file: universal newlines -/

theorem header_types : HeaderTypes theSpecs (fieldAt theSpecs.headerLong 0) (fieldAt theSpecs.headerLong 1)
    (fieldAt theSpecs.headerLong 2) (fieldAt theSpecs.headerLong 3) :=
  ⟨by decide +kernel, by decide +kernel, by decide +kernel, by decide +kernel, by decide +kernel⟩

/-- **Every written line is clean**: for a well-formed `x`, each line `write` emits is some text
    without `'\n'` or `'\r'` followed by exactly one `'\n'` (numbers print as digits, sign, `.`, `e`,
    blanks; a name accepted by `valid_blockname` consists of characters of the three generated
    tables, none of which is a line end) — so the lines can be recovered from the text. -/
theorem written_lines_clean (x : Incon Val) (nvars : Option Nat) (reset : Bool)
    (hwf : InconWF x nvars) {file : List Str} (hw : write theSpecs x reset = .ok file) :
    ∀ l ∈ file, CleanLine l :=
  write_clean layout_ok timing_ok timing_toughreact_ok header_ok header_types x nvars reset hwf hw

/-- **Line ends do not matter** (`_partial` only through `InconWF`, as `incon_roundtrip_partial`).
    The text of the written file (`file.flatten`) is split by text-mode reading (`splitLines`:
    `"\r\n"` and `'\r'` are translated to `'\n'`, then the text is cut after each `'\n'`) into
    exactly the lines `write` produced, and so is the same text with every `'\n'` replaced by
    `"\r\n"` (`crlf`, a file that went through a DOS tool) or by `'\r'` (`crOnly`); hence `read` of
    any of the three texts returns `canon x reset`. -/
theorem read_any_line_ends_partial (rf : ReadFn) (x : Incon Val) (nvars : Option Nat) (check reset : Bool)
    (hwf : InconWF x nvars) {file : List Str} (hw : write theSpecs x reset = .ok file) :
    splitLines file.flatten = file ∧
    read rf theSpecs TOUGH2 nvars check (splitLines file.flatten) = .ok (canon rf x reset) ∧
    read rf theSpecs TOUGH2 nvars check (splitLines (crlf file.flatten)) = .ok (canon rf x reset) ∧
    read rf theSpecs TOUGH2 nvars check (splitLines (crOnly file.flatten)) = .ok (canon rf x reset) := by
  obtain ⟨h1, h2, h3⟩ := splitLines_clean file (written_lines_clean x nvars reset hwf hw)
  have h := incon_roundtrip_partial rf x nvars check reset hwf hw
  rw [h1, h2, h3]
  exact ⟨rfl, h, h, h⟩

/-- the second generation too: the object read from the CRLF text is written as the original lines -/
theorem write_fixpoint_any_line_ends_partial (rf : ReadFn) (x : Incon Val) (nvars : Option Nat) (check reset : Bool)
    (hwf : InconWF x nvars) (hv : ValuesFit x reset) (hh : HeaderStable rf x reset) {file : List Str}
    (hw : write theSpecs x reset = .ok file) :
    ∃ y, read rf theSpecs TOUGH2 nvars check (splitLines (crlf file.flatten)) = .ok y ∧
      write theSpecs (y.mapVals pvalToVal) reset = .ok file := by
  obtain ⟨y, h1, h2⟩ := incon_write_fixpoint_values_partial rf x nvars check reset hwf hv hh hw
  rw [(splitLines_clean file (written_lines_clean x nvars reset hwf hw)).2.1]
  exact ⟨y, h1, h2⟩

-- the example file (written from `exIncon`, which satisfies `InconWF`) has clean lines
example : ∀ l ∈ ["INCON\n".toList, "ab1 7         31.000000000e-01\n".toList,
     "-2.6000000000000e+031.0000000000000e-100\n".toList, "\n".toList, "\n".toList], CleanLine l := by
  intro l hl
  simp only [List.mem_cons, List.not_mem_nil, or_false] at hl
  rcases hl with rfl | rfl | rfl | rfl | rfl
  · exact ⟨"INCON".toList, by decide, by decide⟩
  · exact ⟨"ab1 7         31.000000000e-01".toList, by decide, by decide⟩
  · exact ⟨"-2.6000000000000e+031.0000000000000e-100".toList, by decide, by decide⟩
  · exact ⟨[], by decide, by decide⟩
  · exact ⟨[], by decide, by decide⟩
example : crlf "a\n\nb\n".toList = "a\r\n\r\nb\r\n".toList ∧ crOnly "a\n\nb\n".toList = "a\r\rb\r".toList := by decide

/-! ### well-formedness: what is redundant, what is not -/

/-- `BlockWF.name5` is not an independent hypothesis: a `Canonical` name has five characters -/
theorem canonical_name_has_5 (n : Str) (h : Canonical n) : n.length = 5 := by
  match n, h with
  | [_, _, _, _, _], _ => rfl

/-- `BlockWF` from its independent parts (no length hypothesis) -/
theorem blockWF_of_canonical (b : Block Val) (hc : Canonical b.block)
    (hv : validBlockname (unfixBlockname b.block) = .ok true)
    (hplus : (unfixBlockname b.block).take 3 ≠ ['+', '+', '+'])
    (hne : b.vars ≠ []) (hreal : ∀ x ∈ b.vars, IsReal x) (hpor : IsRealOrNone b.porosity)
    (hseq : IsIntOrNone b.nseq) (hadd : IsIntOrNone b.nadd)
    (hperm : ∀ k, b.permeability = some k → IsReal k.1 ∧ IsReal k.2.1 ∧ IsReal k.2.2) : BlockWF b :=
  ⟨canonical_name_has_5 _ hc, hc, hv, hplus, hne, hreal, hpor, hseq, hadd, hperm⟩

def exPlus : Incon Val := { exIncon with blocks := [{ exBlock with block := "+++ 1".toList }] }

/-- `BlockWF.noplus` is NOT redundant: `+++ 1` is canonical and accepted by `valid_blockname`
    (`'+'` is in the table of first characters), it is written, but the reader takes its record for
    the `+++` marker that ends the block list: the block is lost -/
theorem excluded_plus_name :
    Canonical "+++ 1".toList ∧ validBlockname (unfixBlockname "+++ 1".toList) = .ok true ∧
    (write theSpecs exPlus false).toOption.isSome = true ∧
    (write theSpecs exPlus false >>= read .fortran theSpecs TOUGH2 none true).map (fun y => y.blocks.length) ≠ .ok 1 := by
  refine ⟨by decide, by decide +kernel, by decide +kernel, by decide +kernel⟩

example : BlockWF exBlock :=
  blockWF_of_canonical exBlock (by decide) (by decide +kernel) (by decide) (by decide)
    (by intro x hx; simp only [exBlock, List.mem_cons, List.not_mem_nil, or_false] at hx
        rcases hx with rfl | rfl <;> exact ⟨_, rfl⟩)
    (Or.inr ⟨_, rfl⟩) (Or.inl rfl) (Or.inr ⟨_, rfl⟩) (by intro k h; cases h)

/-
  The core theorems work on the list of lines (`write` returns them, `read` takes them);
  `read_any_line_ends_partial` shows that the text of the file splits back into exactly these lines
  (`splitLines`, universal newlines) for `\n`, `\r\n` and `\r` line ends.  That `splitLines` is what
  Python's text mode does is part of the model tied by the correspondence.  On the real code the second generation is
  compared byte for byte with the first by the oracle and with the model (through an exact model
  of `float()` rounding, `pvalToDouble`) by the correspondence facet `incon_rewrite` on every run.
-/

end Props.C13
