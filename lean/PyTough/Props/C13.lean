/-
  C13 — initial-conditions file write/read round trip (property theorems are added below as they are proved).
-/
import PyTough.Model.Incon
import PyTough.Gen.Specs
namespace Props.C13
end Props.C13
