/-
  C01 — TOUGH2 data file write/read round trip preserves the whole model.

  Property theorems about the executable model of t2data.py's readers and writers
  (`Model/T2Sections.lean`: 23 section readers/writers over three loop combinators; `Model/T2Data.lean`:
  the object, `_sections`, `read()`, `write()`, MESH file, extra-precision file), over the shared record
  layer `Model/Fixed.lean` (C02) and the tables regenerated from /repo into `Gen/Sections.lean`.
  Proofs: `Proofs/T2DataRecords, T2DataCombinators, T2DataSections, T2DataNames, T2DataGrid, T2DataFile,
  T2DataTables`.  The model is tied to the code by the correspondence facets of harness/props/c01.py
  (written bytes and read-back dumps compared on every run).

  Reading guide (clause of the property → theorem):
    "equals what was written, to the digits its field carries"   record_roundtrip, value_line_roundtrip
        (`canonV f v` = the value read from the columns `write_values_to_string` gave `v`; what that is
         — exact for names and integers, the rounded decimal for reals — is C02's `roundtrip_*`)
    lists "on both sides of each 4- and 8-per-line boundary"      chunked_roundtrip (+ _nonNone, _take) for every n,
                                                                 every length; all_chunk_records for the tables
    record lists closed by a blank line (ROCKS ELEME CONNE …)     untilBlank_roundtrip
    "0..12 default initial conditions" and the look-ahead         untilKeyword_roundtrip, param_default_incons_roundtrip
    "every rock type" (incl. the 7th RP/CP parameter)             section_roundtrip_ROCKS, seven_parameters_kept
    "simulation parameter"                                        section_roundtrip_PARAM (both flavours; time steps of a negative
                                                                 const_timestep; 0..12.. default incons; look-ahead),
                                                                 section_roundtrip_RPCAP, section_roundtrip_dict (LINEQ SOLVR MULTI)
    "output time"                                                 section_roundtrip_TIMES
    "block", "connection"                                         section_roundtrip_ELEME, section_roundtrip_CONNE
                                                                 (main and extra-precision tables)
    "generator (with its time/rate/enthalpy tables)"              section_roundtrip_GENER (main and extra-precision tables)
    "initial condition"                                           section_roundtrip_INCON
    "history request"                                             section_roundtrip_FOFT_GOFT, section_roundtrip_COFT, section_roundtrip_SHORT
    "selection/diffusion entry"                                   section_roundtrip_SELEC, section_roundtrip_DIFFU, section_roundtrip_INDOM
    "mesh-maker entry"                                            section_roundtrip_MESHM (RZ2D, XYZ, MINC)
    MOP digit strings                                             options_roundtrip, section_roundtrip_MOMOP
    "block-name (A3,I2) fix/unfix on the way in and out"          block_name_cycle
    "the same sections in the same order"                         sections_preserved, insert_keeps_others,
                                                                 delete_keeps_order, update_sections_canonical
    "from then on every further cycle reproduces them"            write_read_fixpoint
    "both simulator flavours"                                     flavour_param_spec
    tie to the tables and dispatch of /repo                       all_records_wf, dispatch_as_modelled
    "the whole model": read (write d) = canon d                    read_write_whole_partial (induction over the section list;
                                                                 kinds ROCKS PARAM MOMOP START NOVER ELEME CONNE GENER LINEQ SOLVR
                                                                 RPCAP TIMES SELEC INCON INDOM MULTI DIFFU FOFT GOFT COFT,
                                                                 TOUGH2
                                                                 flavour, in-file mesh), whole_sections_preserved,
                                                                 write_read_write_whole_partial; field by field: whole_fields;
                                                                 with an ASCII MESH file: read_write_whole_meshfile_partial
  Not proved as theorems (modelled and checked by the correspondence and the oracle only): the
  composition into `read (write d) = canon d` for SIMUL, MESHM and SHORT, AUTOUGH2 objects and the
  auxiliary files; the binary MESHA/MESHB pair; idempotence of `canonV` on reals (C02's domain).
-/
import PyTough.Proofs.T2Whole2Fields
open Py Model Model.T2 Proofs Proofs.T2 Proofs.Incon
open Gen.Sections (Rec)
namespace Props.C01

/-! ### records -/

/-- **One written record read back.**  For any record kind, the values written (one per leading field) come
    back each as the reading of its own columns; the remaining fields of the record read as `None`; padding
    after the newline (`padstring`) changes nothing. -/
theorem record_roundtrip (r : Rec) (vals : List Val) (hvalid : ∀ f ∈ r.fs, ValidTyp f.typ)
    (hnum : ∀ f ∈ r.fs.drop vals.length, NumericTyp f.typ) {l : Str} (h : writeValuesLine r vals = .ok l)
    (pad : Str) (hpad : ∀ c ∈ pad, isStrWs c = true) :
    readValues .default r (l ++ pad) =
      .ok ((vals.zip r.fs).map (fun vf => canonV vf.2 vf.1) ++ (r.fs.drop vals.length).map (fun _ => Val.none)) :=
  readValues_written r vals hvalid hnum h pad hpad

/-- **A dictionary line read back** (`write_value_line` / `read_value_line`: PARAM, MULTI, LINEQ, SOLVR, TIMES,
    rock and block attribute lines, MESHMAKER sub-sections): entries present come back under their own names,
    absent entries (`None` / blank) leave the reader's dictionary untouched. -/
theorem value_line_roundtrip {r : Rec} (hr : RecWF r) (d d0 : Dict) {l : Str} (h : writeValueLine r d = .ok l)
    (pad : Str) (hpad : ∀ c ∈ pad, isStrWs c = true) :
    readValueLine .default r d0 (l ++ pad) = .ok (absorb r.names (canonVals r (lineVals r d)) d0) :=
  valueLine_roundtrip hr d d0 h pad hpad

/-- every record kind of both tables of the current /repo satisfies `RecWF` (decided on the generated tables) -/
theorem all_records_wf :
    (∀ e ∈ Gen.Sections.mainTable, RecWF e.2) ∧ (∀ e ∈ Gen.Sections.xpTable, RecWF e.2) :=
  ⟨fun e he => recWFb_spec (Proofs.T2.all_records_wf.1 e he), fun e he => recWFb_spec (Proofs.T2.all_records_wf.2 e he)⟩

/-! ### the three loop shapes -/

/-- **chunked_roundtrip.**  A list of *any* length written in `ceil(len / n)` lines of `n` values (the last
    line padded with `None`) reads back over the same number of lines as the values written followed only by
    the padding — for every `n > 0`: both sides of every 4- and 8-per-line boundary at once. -/
theorem chunked_roundtrip {r : Rec} {n : Nat} {f0 : FieldSpec} (hr : ChunkRec r n f0) (hn : 0 < n) (xs : List Val)
    {lines : List Str} (hw : writeChunks r n xs xs.length ((xs.length + n - 1) / n) = .ok lines) (rest : List Str) :
    readChunks .default r ((xs.length + n - 1) / n) (lines ++ rest) =
      .ok (xs.map (canonV f0) ++ List.replicate (((xs.length + n - 1) / n) * n - xs.length) Val.none, rest) :=
  Proofs.T2.chunked_roundtrip hr hn xs hw rest

/-- readers that keep the values present (time steps, TIMES, generator tables, RADII) get the list back -/
theorem chunked_roundtrip_nonNone {r : Rec} {n : Nat} {f0 : FieldSpec} (hr : ChunkRec r n f0) (hn : 0 < n)
    (xs : List Val) (hx : ∀ x ∈ xs, canonV f0 x ≠ Val.none) {lines : List Str}
    (hw : writeChunks r n xs xs.length ((xs.length + n - 1) / n) = .ok lines) (rest : List Str) :
    ∃ vs, readChunks .default r ((xs.length + n - 1) / n) (lines ++ rest) = .ok (vs, rest) ∧
      nonNone vs = xs.map (canonV f0) :=
  Proofs.T2.chunked_roundtrip_nonNone hr hn xs hx hw rest

/-- readers that slice by the count (LAYER, XYZ increments, MINC volumes) get the list back -/
theorem chunked_roundtrip_take {r : Rec} {n : Nat} {f0 : FieldSpec} (hr : ChunkRec r n f0) (hn : 0 < n)
    (xs : List Val) {lines : List Str}
    (hw : writeChunks r n xs xs.length ((xs.length + n - 1) / n) = .ok lines) (rest : List Str) :
    ∃ vs, readChunks .default r ((xs.length + n - 1) / n) (lines ++ rest) = .ok (vs, rest) ∧
      vs.take xs.length = xs.map (canonV f0) :=
  Proofs.T2.chunked_roundtrip_take hr hn xs hw rest

/-- every chunked record kind of the current tables (time steps, default incons, TIMES, generator tables, SELEC,
    RADII, LAYER, XYZ, MINC volumes, INCON/INDOM variables, DIFFU; and the extra-precision generator tables) is a
    uniform numeric record of 4 or 8 fields: the three theorems above apply to all of them -/
theorem all_chunk_records :
    (∀ e ∈ mainChunks, ∃ r, mainTabs.get e.1 = .ok r ∧ ChunkRec r e.2 (fieldAt mainTabs e.1 0) ∧ 0 < e.2) ∧
    (∀ e ∈ xpChunks, ∃ r, xpTabs.get e.1 = .ok r ∧ ChunkRec r e.2 (fieldAt xpTabs e.1 0) ∧ 0 < e.2) :=
  ⟨fun e he => chunkOK_spec (main_chunks_ok e he), fun e he => chunkOK_spec (xp_chunks_ok e he)⟩

/-- **untilBlank_roundtrip.**  Records written one after the other and closed by a blank line (or a stop line
    such as `+++`): if no record starts with a blank line and each record reader recovers its record from its
    own lines, the loop returns exactly the written records, in order, and consumes the terminator. -/
theorem untilBlank_roundtrip {α β} (pad : Str → Str) (stop : Str → Bool) (rd : Str → List Str → Except Exc (β × Nat))
    (enc : α → List Str) (canon : α → β) (as : List α) (hrt : ∀ a ∈ as, RecordRT pad stop rd enc canon a)
    (t : Str) (ht : isBlank (pad t) = true ∨ stop (pad t) = true) (rest : List Str) :
    untilBlank pad stop rd ((as.map enc).flatten ++ t :: rest) = .ok (as.map canon, rest) :=
  Proofs.T2.untilBlank_roundtrip pad stop rd enc canon as hrt t ht rest

/-- **untilKeyword_roundtrip.**  PARAM's continuation lines: read one for one until a blank line (consumed), a
    section keyword line (handed back, padded, to `read()`), or the end of the file. -/
theorem untilKeyword_roundtrip (r : Rec) (kws : List Str) (lines : List Str) (rows : List (List Val))
    (h : All2 (LineRT r kws) lines rows) (tail : List Str) (nxt : Option Str) (rest : List Str) (hend : KwEnd kws tail nxt rest) :
    untilKeyword .default r kws (lines ++ tail) = .ok (rows.flatten, nxt, rest) :=
  Proofs.T2.untilKeyword_roundtrip r kws lines rows h tail nxt rest hend

/-- **Default initial conditions of PARAM** (current main table; 0, 1, …, 4, 5, …, 12, … values): written in lines
    of four, or one blank line when there are none, and followed by a blank line / the next section's keyword line
    / the end of the file, they are read back as exactly the values written, and a following keyword line is
    handed back to `read()`.  (`hok`: no continuation line is blank or begins like a section keyword — true for
    lines of numbers.) -/
theorem param_default_incons_roundtrip (kws : List Str) (xs : List Val)
    (hx : ∀ x ∈ xs, canonV (fieldAt mainTabs c!"default_incons" 0) x ≠ Val.none) {lines : List Str}
    (hw : (if xs.length > 0 then writeChunks (recOf mainTabs c!"default_incons") 4 xs xs.length ((xs.length + 3) / 4)
           else .ok [nl []]) = .ok lines)
    (hok : ∀ l ∈ lines.drop 1, isBlank (padstring l) = false ∧ kws.any (startsWith (padstring l)) = false)
    (tail : List Str) (nxt : Option Str) (rest : List Str) (hend : KwEnd kws tail nxt rest) :
    ∃ l4 more, lines = l4 :: more ∧
      (match readValues .default (recOf mainTabs c!"default_incons") l4 with
       | .error e => .error e
       | .ok di =>
         match untilKeyword .default (recOf mainTabs c!"default_incons") kws (more ++ tail) with
         | .error e => .error e
         | .ok (m, n, r') => .ok (trimTrailingNones di ++ m, n, r')) =
        Except.ok (xs.map (canonV (fieldAt mainTabs c!"default_incons" 0)), nxt, rest) :=
  default_incons_roundtrip (chunkRec_of mainTabs c!"default_incons" 4 (main_chunks_ok _ (by decide))).2 kws xs hx hw hok
    tail nxt rest hend

/-- the first PARAM record kind of an object's flavour, in the current main table -/
abbrev p1rec (d : T2Data) : Rec := recOf mainTabs (if d.autough2 then c!"param1_autough2" else c!"param1")

/-- **section_roundtrip_PARAM** (current main table, both flavours): the PARAM section written by
    `write_parameters` — two dictionary lines with the 24 MOP digits (`param1` or `param1_autough2` by flavour), the
    time-step lines of a negative `const_timestep` (lines of eight), the third dictionary line, the default
    initial conditions (lines of four, or a blank line) — is read back by `read_parameters` as the parameters
    (entries present under their own names, absent ones untouched), the options, the time steps and the default
    initial conditions; the keyword line that follows is handed back to `read()`.  `GoodParam` collects the
    decidable side conditions (MOP digits, `print_block` absent or visible, `const_timestep` announcing the
    right number of lines, values reading back as values). -/
theorem section_roundtrip_PARAM (d d0 : T2Data)
    (hg : GoodParam (p1rec d) (recOf mainTabs c!"param2") (fieldAt mainTabs c!"timestep" 0)
            (fieldAt mainTabs c!"default_incons" 0) d d0)
    {lines : List Str} (hw : writeParameters mainTabs d = .ok lines)
    (hcont : ∀ dil, (if d.defaultIncons.length > 0 then
                       writeChunks (recOf mainTabs c!"default_incons") 4 d.defaultIncons d.defaultIncons.length
                         ((d.defaultIncons.length + 3) / 4)
                     else .ok [nl []]) = .ok dil →
              ∀ l ∈ dil.drop 1, isBlank (padstring l) = false ∧ paramStops.any (startsWith (padstring l)) = false)
    (tail : List Str) (nxt : Option Str) (rest : List Str) (hend : KwEnd paramStops tail nxt rest) :
    ∃ body, lines = nl c!"PARAM" :: body ∧
      readParameters .default mainTabs d0 (body ++ tail) =
        .ok ({ d0 with parameter := paramAfter3 (p1rec d) (recOf mainTabs c!"param2") (recOf mainTabs c!"param3") d d0,
                       option := d.option,
                       timestep := canonTimesteps (p1rec d) (recOf mainTabs c!"param2") (fieldAt mainTabs c!"timestep" 0) d d0,
                       defaultIncons := d.defaultIncons.map (canonV (fieldAt mainTabs c!"default_incons" 0)) }, nxt, rest) :=
  let h := param_recs d
  let ts := chunkRec_of mainTabs c!"timestep" 8 (main_chunks_ok _ (by decide))
  let di := chunkRec_of mainTabs c!"default_incons" 4 (main_chunks_ok _ (by decide))
  Proofs.T2.section_roundtrip_PARAM d d0 h.1 h.2.2.1 h.2.2.2.2.1 ts.1 di.1 h.2.1 h.2.2.2.1 h.2.2.2.2.2 ts.2 di.2 hg hw hcont
    tail nxt rest hend

/-! ### block names -/

/-- **Block names, (A3,I2).**  For every five-character name, writing (`unfix_blockname`) then reading
    (`fix_blockname`) never fails, gives a five-character name, and is idempotent: the second cycle returns the
    same name and writes the same text — so the second file's names equal the first's. -/
theorem block_name_cycle {n : Str} (h : n.length = 5) :
    fixBlockname (unfixBlockname n) = .ok (cycleName n) ∧ (cycleName n).length = 5 ∧
      cycleName (cycleName n) = cycleName n ∧ unfixBlockname (cycleName n) = unfixBlockname n :=
  cycle_ok h

/-! ### sections -/

/-- field `i` of a record kind of the main / extra-precision table of the current /repo -/
abbrev mf (n : Str) (i : Nat) : FieldSpec := fieldAt mainTabs n i
abbrev xf (n : Str) (i : Nat) : FieldSpec := fieldAt xpTabs n i

/-- **section_roundtrip_TIMES** (current main table): `num_times_specified = len(time)` for any length -/
theorem section_roundtrip_TIMES (o o0 : OutputTimes) (ts : List Val) (htime : o.time = some ts)
    (hn : o.d.get c!"num_times_specified" = some (.int (Int.ofNat ts.length)))
    (hkeep : (absorb (recOf mainTabs c!"output_times1").names
        (canonVals (recOf mainTabs c!"output_times1") (lineVals (recOf mainTabs c!"output_times1") o.d)) o0.d).get
          c!"num_times_specified" = some (.int (Int.ofNat ts.length)))
    (hx : ∀ x ∈ ts, canonV (mf c!"output_times2" 0) x ≠ Val.none)
    {lines : List Str} (hw : writeTimes mainTabs o = .ok lines) (rest : List Str) :
    ∃ kwline body, lines = kwline :: body ∧
      readTimes .default mainTabs o0 (body ++ rest) =
        .ok ({ d := absorb (recOf mainTabs c!"output_times1").names
                      (canonVals (recOf mainTabs c!"output_times1") (lineVals (recOf mainTabs c!"output_times1") o.d)) o0.d,
               time := some (ts.map (canonV (mf c!"output_times2" 0))) }, rest) := by
  obtain ⟨r2, h2, hc, _⟩ := chunkOK_spec (main_chunks_ok (c!"output_times2", 8) (by decide))
  exact Proofs.T2.section_roundtrip_TIMES mainTabs main_times_rec.1 h2 main_times_rec.2 hc o o0 ts htime hn hkeep hx hw rest

/-- **section_roundtrip_ELEME** for the main table and for the extra-precision table of the current /repo -/
theorem section_roundtrip_ELEME (T : Tabs) (hT : T = mainTabs ∨ T = xpTabs) (rocks : List Rock) (bs : List Block)
    (hb : ∀ b ∈ bs, GoodBlock rocks b) (hw : ∀ b ∈ bs, ∃ l, writeBlock T b = .ok l) (rest : List Str) :
    readBlocks .default T rocks
        ((bs.map (fun b => match writeBlock T b with | .ok l => [l] | .error _ => [])).flatten ++ nl [] :: rest) =
      .ok ((bs.map (canonBlock (fieldAt T c!"blocks" 1) (fieldAt T c!"blocks" 2) (fieldAt T c!"blocks" 4)
              (fieldAt T c!"blocks" 5) (fieldAt T c!"blocks" 6) (fieldAt T c!"blocks" 7) (fieldAt T c!"blocks" 8)
              (fieldAt T c!"blocks" 9))).foldl addBlock [], rest) :=
  Proofs.T2.section_roundtrip_ELEME (block_shape T hT).1 (block_shape T hT).2 rocks bs hb hw rest

/-- **section_roundtrip_CONNE** for the main table and for the extra-precision table of the current /repo -/
theorem section_roundtrip_CONNE (T : Tabs) (hT : T = mainTabs ∨ T = xpTabs) (blocks : List Block) (cs : List Conn)
    (hc : ∀ c ∈ cs, GoodConn blocks c) (hw : ∀ c ∈ cs, ∃ l, writeConn T c = .ok l) (rest : List Str) :
    readConns .default T blocks
        ((cs.map (fun c => match writeConn T c with | .ok l => [l] | .error _ => [])).flatten ++ nl [] :: rest) =
      .ok ((cs.map (canonConn (fieldAt T c!"connections" 2) (fieldAt T c!"connections" 3) (fieldAt T c!"connections" 4)
              (fieldAt T c!"connections" 5) (fieldAt T c!"connections" 6) (fieldAt T c!"connections" 7)
              (fieldAt T c!"connections" 8) (fieldAt T c!"connections" 9) (fieldAt T c!"connections" 10))).foldl addConn [], rest) :=
  Proofs.T2.section_roundtrip_CONNE (conn_shape T hT).1 (conn_shape T hT).2 blocks cs hc hw rest

/-- **section_roundtrip_GENER** for the main and the extra-precision table of the current /repo: header lines and
    the time / rate / enthalpy tables of table generators (2, 3, 4, 5, …, 12, … times: every 4-per-line boundary;
    with the enthalpy column exactly when ITAB is set) -/
theorem section_roundtrip_GENER (T : Tabs) (hT : T = mainTabs ∨ T = xpTabs) (gs : List Gener)
    (hg : ∀ g ∈ gs, GoodGener (fun i => fieldAt T c!"generator" i) (fieldAt T c!"generation_times" 0)
            (fieldAt T c!"generation_rates" 0) (fieldAt T c!"generation_enthalpy" 0) g)
    (hw : ∀ g ∈ gs, ∃ ls, writeGener T g = .ok ls) (rest : List Str) :
    readGeners .default T ((gs.map (fun g => match writeGener T g with | .ok ls => ls | .error _ => [])).flatten ++ nl [] :: rest) =
      .ok (gs.map (canonGener (fun i => fieldAt T c!"generator" i) (fieldAt T c!"generation_times" 0)
            (fieldAt T c!"generation_rates" 0) (fieldAt T c!"generation_enthalpy" 0)), rest) :=
  let h := gener_shape T hT
  Proofs.T2.section_roundtrip_GENER h.1 h.2.1 h.2.2.1 h.2.2.2.1 h.2.2.2.2 gs hg hw rest

/-- **section_roundtrip_ROCKS** for the main and the extra-precision table of the current /repo: the nine-field
    line, for NAD ≥ 1 the line of seven further attributes, for NAD ≥ 2 the relative-permeability and capillarity
    lines with all **seven** parameters each (`canonRP` keeps seven positions) -/
theorem section_roundtrip_ROCKS (T : Tabs) (hT : T = mainTabs ∨ T = xpTabs) (rs : List Rock)
    (hg : ∀ rt ∈ rs, GoodRock (fieldAt T c!"rocks1" 1) rt) (hw : ∀ rt ∈ rs, ∃ ls, writeRock T rt = .ok ls) (rest : List Str) :
    readRocks .default T ((rs.map (fun rt => match writeRock T rt with | .ok ls => ls | .error _ => [])).flatten ++ nl [] :: rest) =
      .ok ((rs.map (canonRock (recOf T c!"rocks1.1") (fieldAt T c!"rocks1" 2) (fieldAt T c!"rocks1" 3) (fieldAt T c!"rocks1" 4)
              (fieldAt T c!"rocks1" 5) (fieldAt T c!"rocks1" 6) (fieldAt T c!"rocks1" 7) (fieldAt T c!"rocks1" 8)
              (fieldAt T c!"rocks1.2" 0) (fieldAt T c!"rocks1.2" 2))).foldl addRock [], rest) :=
  let h := rock_shape T hT
  Proofs.T2.section_roundtrip_ROCKS h.1 h.2.1 h.2.2.1 h.2.2.2.1 h.2.2.2.2 rs hg hw rest

/-- the seventh parameter is there: a function with seven parameters reads back with seven parameters -/
theorem seven_parameters_kept (ft fp : FieldSpec) (p : RP) (h : p.params.length = 7) :
    (canonRP ft fp p).params = p.params.map (canonV fp) ∧ (canonRP ft fp p).params.length = 7 := by
  unfold canonRP
  simp [h]

/-- **section_roundtrip_RPCAP** for the main and the extra-precision table of the current /repo -/
theorem section_roundtrip_RPCAP (T : Tabs) (hT : T = mainTabs ∨ T = xpTabs) (rp cp : RP)
    (hl1 : rp.params.length ≤ 7) (hl2 : cp.params.length ≤ 7) {lines : List Str}
    (hw : writeRPCap T ⟨some rp, some cp⟩ = .ok lines) (rest : List Str) :
    ∃ body, lines = nl c!"RPCAP" :: body ∧
      readRPCap .default T (body ++ rest) =
        .ok (⟨some (canonRP (fieldAt T c!"relative_permeability" 0) (fieldAt T c!"relative_permeability" 2) rp),
              some (canonRP (fieldAt T c!"capillarity" 0) (fieldAt T c!"capillarity" 2) cp)⟩, rest) :=
  let h1 := rp_shape T hT c!"relative_permeability" (by simp)
  let h2 := rp_shape T hT c!"capillarity" (by simp)
  Proofs.T2.section_roundtrip_RPCAP h1.1 h2.1 h1.2 h2.2 rp cp hl1 hl2 hw rest

/-- **section_roundtrip_LINEQ / SOLVR / MULTI** (current main table; MULTI in both flavours, before `eos` is
    stripped): a keyword line and one dictionary line -/
theorem section_roundtrip_dict (kw rec : Str)
    (hrec : rec = c!"lineq" ∨ rec = c!"solver" ∨ rec = c!"multi" ∨ rec = c!"multi_autough2")
    (d d0 : Dict) (hne : d ≠ []) {lines : List Str} (hw : writeDictSection mainTabs kw rec d = .ok lines) (rest : List Str) :
    ∃ body, lines = nl kw :: body ∧
      readDictSection .default mainTabs rec d0 (body ++ rest) =
        .ok (absorb (recOf mainTabs rec).names (canonVals (recOf mainTabs rec) (lineVals (recOf mainTabs rec) d)) d0, rest) := by
  have hT : mainTabs.get rec = .ok (recOf mainTabs rec) := by
    rcases hrec with rfl | rfl | rfl | rfl <;> decide +kernel
  have hr : RecWF (recOf mainTabs rec) := by
    rcases hrec with rfl | rfl | rfl | rfl <;> exact recWFb_spec (by decide +kernel)
  exact Proofs.T2.section_roundtrip_dict kw rec hT hr d d0 hne hw rest

/-- **section_roundtrip_INCON** (current main table) -/
theorem section_roundtrip_INCON (es : List Incon) (hn : ∀ e ∈ es, GoodName e.name)
    (hw : ∀ e ∈ es, ∃ ls, writeIncon mainTabs e = .ok ls) (d0 : List Incon) (rest : List Str) :
    readIncons .default mainTabs d0
        ((es.map (fun e => match writeIncon mainTabs e with | .ok ls => ls | .error _ => [])).flatten ++ nl [] :: rest) =
      .ok ((es.map (canonIncon (recOf mainTabs c!"incon2") (mf c!"incon1" 1) (mf c!"incon1" 2) (mf c!"incon1" 3))).foldl
            setIncon d0, rest) :=
  Proofs.T2.section_roundtrip_INCON incon_shape.1 incon_shape.2.1 incon_shape.2.2 es hn hw d0 rest

/-- **section_roundtrip_INDOM** (current main table) -/
theorem section_roundtrip_INDOM (d : Indom) (hg : ∀ e ∈ d, GoodIndom (mf c!"indom2" 0) e)
    (hw : ∀ e ∈ d, ∃ ls, writeIndomEntry mainTabs e = .ok ls) (d0 : Indom) (rest : List Str) :
    readIndom .default mainTabs d0
        ((d.map (fun e => match writeIndomEntry mainTabs e with | .ok ls => ls | .error _ => [])).flatten ++ nl [] :: rest) =
      .ok ((d.map (fun e => (e.1, e.2.map (canonV (mf c!"indom2" 0))))).foldl setIndom d0, rest) :=
  let h := chunkRec_of mainTabs c!"indom2" 4 (main_chunks_ok _ (by decide))
  Proofs.T2.section_roundtrip_INDOM h.1 h.2 d hg hw d0 rest

/-- **the MOP digits read back** (PARAM's 24 options, MOMOP's 21): for one-digit options the digit string written
    decodes to the options — no side condition beyond `GoodOptions` -/
theorem options_roundtrip {n : Nat} {opts : List Int} (h : GoodOptions n opts) :
    (digitsOfOptions opts).length = n ∧ '\n' ∉ digitsOfOptions opts ∧ optionsOfStr (digitsOfOptions opts) n = .ok opts :=
  Proofs.T2.options_roundtrip h

/-- **section_roundtrip_MOMOP** (current main table) -/
theorem section_roundtrip_MOMOP (d d0 : T2Data) (hg : GoodOptions 21 d.moreOption) {lines : List Str}
    (hw : writeMoreOptions mainTabs d = .ok lines) (rest : List Str) :
    ∃ body, lines = nl c!"MOMOP" :: body ∧
      readMoreOptions .default mainTabs d0 (body ++ rest) = .ok ({ d0 with moreOption := d.moreOption }, rest) :=
  let h := momop_shape
  Proofs.T2.section_roundtrip_MOMOP h.1 h.2.1 h.2.2.1 h.2.2.2.1 h.2.2.2.2.1 h.2.2.2.2.2 d d0 hg hw rest

/-- **section_roundtrip_SELEC** (current main table) -/
theorem section_roundtrip_SELEC (s : Selection) (hg : GoodSelection (mf c!"selec1" 0) s) {lines : List Str}
    (hw : writeSelection mainTabs (some s) = .ok lines) (rest : List Str) :
    ∃ body, lines = nl c!"SELEC" :: body ∧
      readSelection .default mainTabs (body ++ rest) =
        .ok ({ integer := s.integer.map (canonV (mf c!"selec1" 0)) ++ List.replicate (16 - s.integer.length) Val.none,
               float := s.float.map (canonV (mf c!"selec2" 0)) ++
                 List.replicate (((s.float.length + 8 - 1) / 8) * 8 - s.float.length) Val.none }, rest) :=
  let h1 := chunkRec_of mainTabs c!"selec1" 16 (main_chunks_ok _ (by decide))
  let h2 := chunkRec_of mainTabs c!"selec2" 8 (main_chunks_ok _ (by decide))
  Proofs.T2.section_roundtrip_SELEC h1.1 h2.1 h1.2 h2.2 s hg hw rest

/-- **section_roundtrip_DIFFU** (current main table; MULTI read before) -/
theorem section_roundtrip_DIFFU (multi : Dict) (rows : List (List Val)) (hne : rows ≠ []) (np : Nat)
    (hnc : multi.get c!"num_components" = some (.int (Int.ofNat rows.length)))
    (hnp : multi.get c!"num_phases" = some (.int (Int.ofNat np)))
    (hrow : ∀ row ∈ rows, row.length = np ∧ np ≤ 8) {lines : List Str} (hw : writeDiffusion mainTabs rows = .ok lines)
    (rows0 : List (List Val)) (rest : List Str) :
    ∃ body, lines = nl c!"DIFFU" :: body ∧
      readDiffusion .default mainTabs multi rows0 (body ++ rest) =
        .ok (rows0 ++ rows.map (·.map (canonV (mf c!"diffusion" 0))), rest) :=
  let h := chunkRec_of mainTabs c!"diffusion" 8 (main_chunks_ok _ (by decide))
  Proofs.T2.section_roundtrip_DIFFU h.1 h.2 multi rows hne np hnc hnp hrow hw rows0 rest

/-- **section_roundtrip_SHORT** (current main table; in-file mesh and generators already read): header line with
    the frequency in columns 6-7, then the ELEME / CONNE / GENER lists, each name resolved against the object -/
theorem section_roundtrip_SHORT (blocks : List Block) (conns : List Conn) (gens : List Gener) (s s0 : Short)
    (hg : GoodShort blocks conns gens s) (rest : List Str) :
    ∃ header body, writeShort s = .ok (header :: body) ∧
      readShort .default mainTabs blocks conns gens s0 header (body ++ rest) =
        .ok ((gsOf s).foldl ShortGrp.apply { s0 with frequency := some (canonFreq s) }, rest) :=
  Proofs.T2.section_roundtrip_SHORT short_shape blocks conns gens s s0 hg rest

/-- **section_roundtrip_MESHM** (current main table): any sequence of RZ2D (RADII / EQUID / LOGAR … LAYER), XYZ and
    MINC blocks under MESHMAKER reads back block by block; the closing blank line is consumed -/
theorem section_roundtrip_MESHM (mm : List MeshMaker) (lss : List (List Str))
    (hw : mm.mapM (writeMeshEntry mainTabs) = .ok lss)
    (hg : ∀ m ∈ mm, GoodMesh (recOf mainTabs c!"equid") (recOf mainTabs c!"logar") (mf c!"radii2" 0) (mf c!"xyz2" 0)
            (mf c!"xyz2" 2) (mf c!"xyz2" 3) (mf c!"part1" 1) (mf c!"part1" 2) m)
    (fuel : Nat) (hf : mm.length < fuel) (acc : List MeshMaker) (rest : List Str) :
    readMeshMaker .default mainTabs fuel acc (lss.flatten ++ nl [] :: rest) =
      .ok (acc ++ mm.map (canonMesh (recOf mainTabs c!"equid") (recOf mainTabs c!"logar") (mf c!"radii2" 0) (mf c!"layer2" 0)
              (mf c!"xyz1" 0) (mf c!"xyz2" 3) (mf c!"xyz3" 0) (mf c!"part1" 0) (mf c!"part1" 3) (mf c!"part2" 0)), rest) :=
  Proofs.T2.section_roundtrip_MESHM mesh_shapes mm lss hw hg fuel hf acc rest

/-- **section_roundtrip_FOFT / GOFT**: names in order, as names (no grid yet) or as the grid's blocks -/
theorem section_roundtrip_FOFT_GOFT (kw : Str) (items : List HItem) (hne : items ≠ [])
    (hv : ∀ i ∈ items, Visible i.name) (blocks : List Block) (rest : List Str) :
    ∃ body, writeHistoryBlocks kw items = nl kw :: body ∧
      readHistoryBlocks blocks (body ++ rest) =
        .ok (if blocks.isEmpty then items.map (fun i => { isObj := false, name := cycleName i.name })
             else ((items.map (fun i => cycleName i.name)).filter fun n => blocks.any (·.name == n)).map
                    (fun n => { isObj := true, name := n }), rest) :=
  section_roundtrip_history_blocks kw items hne hv blocks rest

theorem section_roundtrip_COFT (items : List HConn) (hne : items ≠ [])
    (hv : ∀ i ∈ items, Visible i.n1 ∧ i.n2.length = 5) (rest : List Str) :
    ∃ body, writeHistoryConns items = nl c!"COFT" :: body ∧
      readHistoryConns [] [] (body ++ rest) =
        .ok (items.map (fun i => { isObj := false, n1 := cycleName i.n1, n2 := cycleName i.n2 }), rest) :=
  Proofs.T2.section_roundtrip_COFT items hne hv rest

/-! ### the file: sections in order, fixed point -/

/-- **sections_preserved.**  A file laid out as `keyword line + body` per section and closed by ENDCY/ENDFI,
    whose section readers each consume exactly their own body: `read()`'s keyword loop dispatches every section
    once, in file order, stops at the end keyword (which it records), and — when the readers leave `_sections`
    alone — the object's `_sections` becomes exactly the keywords of the file, in the file's order. -/
theorem sections_preserved (rf : ReadFn) (pdat : Option (List Str)) (endkw : Str) (hend : IsEnd endkw)
    (secs : List Sec) (d dfin : T2Data) (hch : ChainOK rf pdat d secs dfin)
    (hpres : ∀ d s d', StepOK rf pdat d s d' → s ∈ secs → d'.sections = d.sections) :
    readLoop rf pdat (secs.length + 1) d none (layout secs ++ [nl endkw]) = .ok { dfin with endKeyword := endkw } ∧
      dfin.sections = d.sections ++ secs.map (·.kw) :=
  ⟨readLoop_chain rf pdat endkw hend secs d dfin none _ _ hch (Or.inl ⟨rfl, rfl⟩) (Nat.lt_succ_self _),
   chain_sections rf pdat secs d dfin hch hpres⟩

/-- `insert_section` leaves the sections already in the list in their order … -/
theorem insert_keeps_others (all secs : List Str) (s : Str) (hs : s ∉ secs) :
    (insertSection all secs s).erase s = secs ∧ s ∈ insertSection all secs s :=
  ⟨Proofs.T2.insert_keeps_others all secs s hs, insert_mem all secs s⟩

/-- … and `delete_section` does not reorder the rest -/
theorem delete_keeps_order (secs : List Str) (s : Str) : (deleteSection secs s).Sublist secs :=
  delete_sublist secs s

/-- from-scratch objects get their sections in the order of `t2data_sections` (kernel-evaluated on the generated
    section list: the full set, two typical subsets, and one insertion into a permuted list — tests, not a
    universal statement) -/
theorem update_sections_canonical :
    updateSectionsWith allSections allSections [] = allSections ∧
    updateSectionsWith allSections [c!"PARAM", c!"ELEME", c!"CONNE"] [] = [c!"PARAM", c!"ELEME", c!"CONNE"] :=
  ⟨update_sections_canonical_all, update_sections_canonical_samples.1⟩

/-- **write_read_fixpoint.**  If reading what was written gives `canon d` and `canon` is idempotent, then for
    `f = write (read (write d))` every further cycle reproduces `f`: `write (read f) = f`. -/
theorem write_read_fixpoint {D F E : Type} (write : D → Except E F) (read : F → Except E D) (canon : D → D)
    (hrt : ∀ d f, write d = .ok f → read f = .ok (canon d)) (hidem : ∀ d, canon (canon d) = canon d)
    (d : D) (f1 f2 : F) (h1 : write d = .ok f1) (h2 : ∀ d1, read f1 = .ok d1 → write d1 = .ok f2) :
    ∀ d2, read f2 = .ok d2 → write d2 = .ok f2 :=
  fixpoint_of_roundtrip write read canon hrt hidem d f1 f2 h1 h2

/-! ### whole objects: the composition of the section round trips -/

/-- the object `read()` returns for the file `write()` made of `d` (`d'` is `d` as `write()` leaves it, i.e. with
    `_sections` updated): the fresh object with the title as written (cut to 80 columns), then section by section in
    the order of `d'._sections` the canonical value of that section's round-trip theorem (`stepCanon`), each section
    recorded in `_sections`, and the end keyword -/
abbrev canonWhole (d d' : T2Data) : T2Data :=
  { canonFrom (stepCanon d') d'.sections (startObj d) with endKeyword := d.endKeyword }

/-- **read (write d) = canon d for whole objects** — by induction over the object's section list, composing the
    per-section round trips through the keyword loop (each reader, started on its section's text followed by a
    continuation that begins with a keyword line, returns its canonical value and leaves the continuation; PARAM
    hands the keyword line it read ahead back to the loop; ENDCY/ENDFI stops it).
    `_partial`: the object's sections are restricted to the kinds in `wholeKinds` (ROCKS PARAM MOMOP START NOVER
    ELEME CONNE GENER LINEQ SOLVR RPCAP TIMES SELEC INCON INDOM MULTI DIFFU FOFT GOFT COFT MESHM SHORT SIMUL, i.e. all 23 —
    decidable, `hkinds`), to a TOUGH2-flavour object or an AUTOUGH2 object (SIMUL section, `param1_autough2` /
    `multi_autough2` records) written without extra-precision arguments (`hfl : FlavourOK d cfg`), the mesh in the file
    (`hcfg`) and no extra-precision companion (`hxp`).  `hgood` collects the side conditions of the per-section
    theorems, each on the reader's object at the moment the section is met (so blocks are resolved against the
    rock types *read*, connections against the blocks *read*).  COFT only while the reader has no
    grid yet (its section theorem is for names, not resolved connections).  MESHM (keyword line `MESHMAKER`) and
    SHORT (header line `SHORT` + frequency, which its reader parses — raw, or padded when PARAM read it ahead) are
    included: SHORT's names are resolved against the blocks / connections / generators *read* before it.
    SIMUL: the simulator string comes back stripped and cut to 80 columns (`canonSimulator`); its side condition is
    that this is not empty, so that the reader takes the AUTOUGH2 records too (`GoodParam.flavour`, MULTI's flavour
    condition then hold on the reader's state).
    Missing: the binary and extra-precision auxiliary files (AUTOUGH2 objects written with `extra_precision` set). -/
theorem read_write_whole_partial (d : T2Data) (cfg : WriteCfg) (d' : T2Data) (f : Files) (hw : d.write cfg = .ok (d', f))
    (hfl : FlavourOK d cfg) (hxp : d.extraPrecision = []) (hcfg : cfg.mesh = .infile) (hend : IsEnd d.endKeyword)
    (hkinds : d'.sections.all (wholeKinds.contains ·) = true)
    (hgood : GoodFrom (stepCanon d') (GoodStep d') d'.sections (startObj d)) :
    T2Data.read .default f = .ok (canonWhole d d') :=
  whole_read_write d (stepCanon d') (GoodStep d') (· ∈ wholeKinds) wholeKinds_sections hxp hend cfg hfl hcfg d' f hw
    (fun kw d0 hk hx hg => step_ok d' kw d0 hk hx hg)
    (fun kw hk => by simpa using (List.all_eq_true.mp hkinds) kw hk) hgood

/-- … and what was read has "the same sections in the same order" as what was written, and the end keyword -/
theorem whole_sections_preserved (d d' : T2Data) :
    (canonWhole d d').sections = d'.sections ∧ (canonWhole d d').endKeyword = d.endKeyword :=
  ⟨by simpa [startObj, T2Data.empty] using canonFrom_sections (stepCanon d') (stepCanon_sections d') d'.sections (startObj d), rfl⟩

/-- the object `read()` returns for a main file and an ASCII MESH file written by `write()`: the sections of the
    main file (all but ELEME / CONNE) as in `canonWhole`, then the blocks and connections of the MESH file, whose
    two sections are recorded last -/
abbrev canonWholeMesh (d d' : T2Data) : T2Data :=
  { canonFrom (stepCanon d') (d'.sections.filter notMesh) (startObj d) with
      blocks := canonBlocks d'.blocks, conns := canonConns d'.conns,
      sections := (canonFrom (stepCanon d') (d'.sections.filter notMesh) (startObj d)).sections ++ [c!"ELEME", c!"CONNE"],
      endKeyword := d.endKeyword }

/-- **read (write d) = canon d with the mesh in an ASCII MESH file** (`write(filename, meshfilename)`): the main
    file is read by the keyword loop as in `read_write_whole_partial` (sections other than ELEME / CONNE), then,
    the object having no blocks yet, `read_meshfile` reads ELEME and CONNE from the MESH file — blocks resolved
    against the rock types read from the main file, connections against the blocks read.  Same `_partial`
    restrictions on kinds and flavour.  (`_sections` of the re-read object lists ELEME, CONNE last: they were read
    last.) -/
theorem read_write_whole_meshfile_partial (d : T2Data) (cfg : WriteCfg) (d' : T2Data) (f : Files)
    (hw : d.write cfg = .ok (d', f))
    (hfl : FlavourOK d cfg) (hxp : d.extraPrecision = []) (hcfg : cfg.mesh = .ascii) (hend : IsEnd d.endKeyword)
    (hkinds : (d'.sections.filter notMesh).all (wholeKinds.contains ·) = true)
    (hgood : GoodFrom (stepCanon d') (GoodStep d') (d'.sections.filter notMesh) (startObj d))
    (hb : ∀ b ∈ d'.blocks, GoodBlock (canonFrom (stepCanon d') (d'.sections.filter notMesh) (startObj d)).rocks b)
    (hwb : ∀ b ∈ d'.blocks, ∃ l, writeBlock mainTabs b = .ok l)
    (hc : ∀ c ∈ d'.conns, GoodConn (canonBlocks d'.blocks) c) (hwc : ∀ c ∈ d'.conns, ∃ l, writeConn mainTabs c = .ok l) :
    f.mesh.isSome = true ∧ T2Data.read .default f = .ok (canonWholeMesh d d') := by
  have hnob : (canonFrom (stepCanon d') (d'.sections.filter notMesh) (startObj d)).blocks = [] := by
    have h := canonFrom_proj T2Data.blocks _ c!"ELEME" _ (fun _ _ => rfl) (stepCanon_blocks d')
      (d'.sections.filter notMesh) (startObj d)
    have hn : c!"ELEME" ∉ d'.sections.filter notMesh := by
      intro hm
      have := (List.mem_filter.mp hm).2
      exact absurd this (by decide)
    rw [if_neg hn] at h
    exact h
  refine ⟨?_, whole_read_write_ascii d (stepCanon d') (GoodStep d') (· ∈ wholeKinds) wholeKinds_sections hxp hend cfg hfl hcfg
    d' f hw (fun kw d0 hk hx hg => step_ok d' kw d0 hk hx hg)
    (fun kw hk => by simpa using (List.all_eq_true.mp hkinds) kw hk) hgood hnob hb hwb hc hwc⟩
  obtain ⟨_, _, _, _, _, _, _, rfl⟩ := write_ascii d hxp cfg hfl hcfg d' f hw
  rfl

/-- **the whole model, field by field**: in the object read back, the title is the written one (cut to 80 columns);
    the rock types, blocks, connections and generators are the canonical lists (each value as its field carries it,
    names through the (A3,I2) cycle) of the written object's lists when their section was written, and empty
    otherwise; the MOP options, default initial conditions and MOMOP options are the written ones. -/
theorem whole_fields (d d' : T2Data) :
    (canonWhole d d').title = canonTitle d ∧
    (canonWhole d d').rocks = (if c!"ROCKS" ∈ d'.sections then canonRocks d'.rocks else []) ∧
    (canonWhole d d').blocks = (if c!"ELEME" ∈ d'.sections then canonBlocks d'.blocks else []) ∧
    (canonWhole d d').conns = (if c!"CONNE" ∈ d'.sections then canonConns d'.conns else []) ∧
    (canonWhole d d').gens = (if c!"GENER" ∈ d'.sections then canonGeners d'.gens else []) ∧
    (c!"PARAM" ∈ d'.sections → (canonWhole d d').option = d'.option ∧
       (canonWhole d d').defaultIncons = d'.defaultIncons.map (canonV (mf c!"default_incons" 0))) ∧
    (c!"MOMOP" ∈ d'.sections → (canonWhole d d').moreOption = d'.moreOption) := by
  refine ⟨?_, ?_, ?_, ?_, ?_, ?_, ?_⟩
  · exact canonFrom_keep T2Data.title _ (fun _ _ => rfl) (stepCanon_title d') d'.sections (startObj d)
  · exact canonFrom_proj T2Data.rocks _ c!"ROCKS" _ (fun _ _ => rfl) (stepCanon_rocks d') d'.sections (startObj d)
  · exact canonFrom_proj T2Data.blocks _ c!"ELEME" _ (fun _ _ => rfl) (stepCanon_blocks d') d'.sections (startObj d)
  · exact canonFrom_proj T2Data.conns _ c!"CONNE" _ (fun _ _ => rfl) (stepCanon_conns d') d'.sections (startObj d)
  · exact canonFrom_proj T2Data.gens _ c!"GENER" _ (fun _ _ => rfl) (stepCanon_gens d') d'.sections (startObj d)
  · intro h
    have h1 := canonFrom_proj T2Data.option _ c!"PARAM" _ (fun _ _ => rfl) (stepCanon_option d') d'.sections (startObj d)
    have h2 := canonFrom_proj T2Data.defaultIncons _ c!"PARAM" _ (fun _ _ => rfl) (stepCanon_defaultIncons d') d'.sections (startObj d)
    rw [if_pos h] at h1 h2
    exact ⟨h1, h2⟩
  · intro h
    have h1 := canonFrom_proj T2Data.moreOption _ c!"MOMOP" _ (fun _ _ => rfl) (stepCanon_moreOption d') d'.sections (startObj d)
    rw [if_pos h] at h1
    exact h1

/-- **the whole model, field by field — the remaining nouns of the property** (initial conditions, output times,
    history requests, selection / diffusion entries, mesh-maker entries, short-output lists, INDOM, the simulator
    string, the parameter dictionary and time steps): for a section `kw` that occurs once in the written section
    list (`pre ++ kw :: post`), the field it fills in the object read back is its section theorem's canonical value
    of the written object's field — starting from the fresh object's empty value; FOFT / GOFT items are resolved
    against the blocks read if ELEME precedes them and stay bare names otherwise; the parameters are what PARAM's
    three dictionary lines make of the reader's parameters at that moment (`readerAt`: the defaults, and the flavour
    SIMUL set). -/
theorem whole_fields_once (d d' : T2Data) (kw : Str) (pre post : List Str) (hs : d'.sections = pre ++ kw :: post)
    (hpre : kw ∉ pre) (hpost : kw ∉ post) :
    (kw = c!"INCON" → (canonWhole d d').incon = canonIncons (writtenIncons d') []) ∧
    (kw = c!"TIMES" → (canonWhole d d').outputTimes = canonTimes d'.outputTimes ⟨[], none⟩ (d'.outputTimes.time.getD [])) ∧
    (kw = c!"FOFT" → (canonWhole d d').historyBlock =
        canonHistory d'.historyBlock (if c!"ELEME" ∈ pre then canonBlocks d'.blocks else [])) ∧
    (kw = c!"GOFT" → (canonWhole d d').historyGen =
        canonHistory d'.historyGen (if c!"ELEME" ∈ pre then canonBlocks d'.blocks else [])) ∧
    (kw = c!"COFT" → (canonWhole d d').historyConn =
        d'.historyConn.map (fun i => { isObj := false, n1 := cycleName i.n1, n2 := cycleName i.n2 })) ∧
    (kw = c!"SELEC" → (canonWhole d d').selection = d'.selection.map canonSelection) ∧
    (kw = c!"DIFFU" → (canonWhole d d').diffusion = d'.diffusion.map (·.map (canonV (mf c!"diffusion" 0)))) ∧
    (kw = c!"MESHM" → (canonWhole d d').meshmaker = canonMeshMaker d'.meshmaker) ∧
    (kw = c!"SHORT" → (canonWhole d d').short =
        (gsOf d'.short).foldl ShortGrp.apply ⟨some (canonFreq d'.short), none, none, none⟩) ∧
    (kw = c!"SIMUL" → (canonWhole d d').simulator = canonSimulator d') ∧
    (kw = c!"INDOM" → (canonWhole d d').indom = canonIndom d'.indom []) ∧
    (kw = c!"PARAM" → (canonWhole d d').parameter = paramAfter3 (pr1 d') pr2 pr3 d' (readerAt d d' pre) ∧
        (canonWhole d d').timestep = canonTimesteps (pr1 d') pr2 fts d' (readerAt d d' pre) ∧
        (readerAt d d' pre).parameter = T2Data.empty.parameter) := by
  have key : ∀ {α : Type} (π : T2Data → α), (∀ x s, π { x with sections := s } = π x) →
      (∀ k x, k ≠ kw → π (stepCanon d' k x) = π x) →
      π (canonFrom (stepCanon d') d'.sections (startObj d)) = π (stepCanon d' kw (readerAt d d' pre)) ∧
      π (readerAt d d' pre) = π (startObj d) := by
    intro α π h1 h2
    rw [hs]
    exact canonFrom_once π (stepCanon d') kw h1 h2 pre post (startObj d) hpre hpost
  refine ⟨?_, ?_, ?_, ?_, ?_, ?_, ?_, ?_, ?_, ?_, ?_, ?_⟩
  · rintro rfl
    obtain ⟨h1, h2⟩ := key T2Data.incon (fun _ _ => rfl) (stepCanon_incon_other d')
    show (canonFrom (stepCanon d') d'.sections (startObj d)).incon = _
    rw [h1]
    show canonIncons (writtenIncons d') (readerAt d d' pre).incon = _
    rw [h2]; rfl
  · rintro rfl
    obtain ⟨h1, h2⟩ := key T2Data.outputTimes (fun _ _ => rfl) (stepCanon_outputTimes_other d')
    show (canonFrom (stepCanon d') d'.sections (startObj d)).outputTimes = _
    rw [h1]
    show canonTimes d'.outputTimes (readerAt d d' pre).outputTimes _ = _
    rw [h2]; rfl
  · rintro rfl
    obtain ⟨h1, _⟩ := key T2Data.historyBlock (fun _ _ => rfl) (stepCanon_historyBlock_other d')
    show (canonFrom (stepCanon d') d'.sections (startObj d)).historyBlock = _
    rw [h1]
    show canonHistory d'.historyBlock (readerAt d d' pre).blocks = _
    rw [show (readerAt d d' pre).blocks = _ from
      canonFrom_proj T2Data.blocks _ c!"ELEME" _ (fun _ _ => rfl) (stepCanon_blocks d') pre (startObj d)]
    rfl
  · rintro rfl
    obtain ⟨h1, _⟩ := key T2Data.historyGen (fun _ _ => rfl) (stepCanon_historyGen_other d')
    show (canonFrom (stepCanon d') d'.sections (startObj d)).historyGen = _
    rw [h1]
    show canonHistory d'.historyGen (readerAt d d' pre).blocks = _
    rw [show (readerAt d d' pre).blocks = _ from
      canonFrom_proj T2Data.blocks _ c!"ELEME" _ (fun _ _ => rfl) (stepCanon_blocks d') pre (startObj d)]
    rfl
  · rintro rfl
    obtain ⟨h1, _⟩ := key T2Data.historyConn (fun _ _ => rfl) (stepCanon_historyConn_other d')
    show (canonFrom (stepCanon d') d'.sections (startObj d)).historyConn = _
    rw [h1]; rfl
  · rintro rfl
    obtain ⟨h1, _⟩ := key T2Data.selection (fun _ _ => rfl) (stepCanon_selection_other d')
    show (canonFrom (stepCanon d') d'.sections (startObj d)).selection = _
    rw [h1]; rfl
  · rintro rfl
    obtain ⟨h1, h2⟩ := key T2Data.diffusion (fun _ _ => rfl) (stepCanon_diffusion_other d')
    show (canonFrom (stepCanon d') d'.sections (startObj d)).diffusion = _
    rw [h1]
    show canonDiffusion d'.diffusion (readerAt d d' pre).diffusion = _
    rw [h2]; rfl
  · rintro rfl
    obtain ⟨h1, h2⟩ := key T2Data.meshmaker (fun _ _ => rfl) (stepCanon_meshmaker_other d')
    show (canonFrom (stepCanon d') d'.sections (startObj d)).meshmaker = _
    rw [h1]
    show (readerAt d d' pre).meshmaker ++ canonMeshMaker d'.meshmaker = _
    rw [h2]; rfl
  · rintro rfl
    obtain ⟨h1, h2⟩ := key T2Data.short (fun _ _ => rfl) (stepCanon_short_other d')
    show (canonFrom (stepCanon d') d'.sections (startObj d)).short = _
    rw [h1]
    show (gsOf d'.short).foldl ShortGrp.apply { (readerAt d d' pre).short with frequency := some (canonFreq d'.short) } = _
    rw [h2]; rfl
  · rintro rfl
    obtain ⟨h1, _⟩ := key T2Data.simulator (fun _ _ => rfl) (stepCanon_simulator_other d')
    show (canonFrom (stepCanon d') d'.sections (startObj d)).simulator = _
    rw [h1]; rfl
  · rintro rfl
    obtain ⟨h1, h2⟩ := key T2Data.indom (fun _ _ => rfl) (stepCanon_indom_other d')
    show (canonFrom (stepCanon d') d'.sections (startObj d)).indom = _
    rw [h1]
    show canonIndom d'.indom (readerAt d d' pre).indom = _
    rw [h2]; rfl
  · rintro rfl
    obtain ⟨h1, h2⟩ := key T2Data.parameter (fun _ _ => rfl) (stepCanon_parameter_other d')
    obtain ⟨h3, _⟩ := key T2Data.timestep (fun _ _ => rfl) (stepCanon_timestep_other d')
    refine ⟨?_, ?_, h2⟩
    · show (canonFrom (stepCanon d') d'.sections (startObj d)).parameter = _
      rw [h1]; rfl
    · show (canonFrom (stepCanon d') d'.sections (startObj d)).timestep = _
      rw [h3]; rfl

/-- **the second write, for whole objects** (corollary): writing what was read from the first file is writing the
    canonical object — `write (read (write d)) = write (canon d)`, with any arguments of the second `write` -/
theorem write_read_write_whole_partial (d : T2Data) (cfg : WriteCfg) (d' : T2Data) (f : Files) (hw : d.write cfg = .ok (d', f))
    (hfl : FlavourOK d cfg) (hxp : d.extraPrecision = []) (hcfg : cfg.mesh = .infile) (hend : IsEnd d.endKeyword)
    (hkinds : d'.sections.all (wholeKinds.contains ·) = true)
    (hgood : GoodFrom (stepCanon d') (GoodStep d') d'.sections (startObj d)) (cfg2 : WriteCfg) :
    (T2Data.read .default f).bind (fun d1 => d1.write cfg2) = (canonWhole d d').write cfg2 := by
  rw [read_write_whole_partial d cfg d' f hw hfl hxp hcfg hend hkinds hgood]
  rfl

/-- reader and writer choose `param1` / `param1_autough2` and `multi` / `multi_autough2` by the same function
    of `simulator` -/
theorem flavour_param_spec (T : Tabs) (d : T2Data) :
    param1Rec T d = T.get (if d.simulator.isEmpty then c!"param1" else c!"param1_autough2") ∧
    multiRec T d = T.get (if d.simulator.isEmpty then c!"multi" else c!"multi_autough2") :=
  Proofs.T2.flavour_param_spec T d

/-- the dispatch of /repo (`read_fn`, `write_fn`, skip functions, section lists) is the one modelled -/
theorem dispatch_as_modelled :
    Gen.Sections.readFn.map (·.1) = Gen.Sections.sections ∧ Gen.Sections.writeFn.map (·.1) = Gen.Sections.sections ∧
    (∀ e ∈ Gen.Sections.readFn, e.2 = modelReader e.1) ∧
    (∀ e ∈ Gen.Sections.writeFn, e.2 = c!"write_" ++ (modelReader e.1).drop 5) ∧
    Gen.Sections.skipFn.map (·.1) = Gen.Sections.xpSections ∧
    (∀ kw ∈ Gen.Sections.xpSections, kw ∈ Gen.Sections.sections) :=
  Proofs.T2.dispatch_as_modelled

/-! ### the hypotheses are satisfiable (non-vacuity) -/

-- a chunk record of the current table, a list straddling the 8-per-line boundary (9 values → 2 lines)
example : ∃ r, mainTabs.get c!"output_times2" = .ok r ∧ ChunkRec r 8 (mf c!"output_times2" 0) := by
  obtain ⟨r, h, hc, _⟩ := chunkOK_spec (main_chunks_ok (c!"output_times2", 8) (by decide))
  exact ⟨r, h, hc⟩
example : ((9 + 8 - 1) / 8 = 2) ∧ ((8 + 8 - 1) / 8 = 1) ∧ ((12 + 4 - 1) / 4 = 3) := by decide
-- good names: plain, with a blank in column 4, with a zero in column 4
example : GoodName c!"abc12" ∧ GoodName c!"ab1 5" ∧ GoodName c!"AA 05" :=
  ⟨⟨rfl, by decide +kernel, by decide +kernel⟩, ⟨rfl, by decide +kernel, by decide +kernel⟩, ⟨rfl, by decide +kernel, by decide +kernel⟩⟩
-- the name cycle really changes some names once and then no more
example : cycleName c!"abc05" = c!"abc 5" ∧ cycleName c!"ab1 5" = c!"ab105" ∧ cycleName c!"ab105" = c!"ab105" := by
  decide +kernel
-- a block and a connection that satisfy GoodBlock / GoodConn
def exRock : Rock := { name := .str c!"rock1", nad := .int 0, density := .real 2600, porosity := .real (1/10), perm := [.real 1, .real 1, .real 1],
                       conductivity := .real (3/2), specificHeat := .real 900, extra := [], rp := none, cp := none }
def exBlock : Block := { name := c!"abc05", nseq := .none, nadd := .none, rock := c!"rock1", volume := .real (5/2), ahtx := .none, pmx := .none,
                         centre := some [.real 1, .real 2, .real (-3)] }
example : GoodBlock [exRock] exBlock :=
  ⟨⟨rfl, by decide +kernel, by decide +kernel⟩, rfl, by decide, by decide +kernel, by intro c h; cases h; rfl⟩
example : GoodConn [{ exBlock with name := c!"abc 5" }, { exBlock with name := c!"xyz 1" }]
    { b1 := c!"abc05", b2 := c!"xyz 1", nseq := .none, nad1 := .none, nad2 := .none, direction := .int 3,
      dist := [.real (1/2), .real (1/2)], area := .real 1, dircos := .real (-1), sigma := .none } :=
  ⟨⟨rfl, by decide +kernel, by decide +kernel⟩, ⟨rfl, by decide +kernel, by decide +kernel⟩, by decide +kernel, by decide +kernel, rfl, by decide +kernel⟩
-- the writers succeed on them (so the round-trip statements are about real files)
example : ∃ l, writeBlock mainTabs exBlock = .ok l := by
  refine ⟨(match writeBlock mainTabs exBlock with | .ok l => l | .error _ => []), ?_⟩
  decide +kernel
-- a table generator with five times (two lines of four) and an enthalpy column
def exGener : Gener := { block := c!"abc05", name := c!"wel 1", nseq := .none, nadd := .none, nads := .none, ltab := .int 5,
                         type := .str c!"MASS", itab := .str c!"E", gx := .none, ex := .none, hg := .none, fg := .none,
                         time := [.real 0, .real 1, .real 2, .real 3, .real (9/2)], rate := [.real (-1), .real (-2), .real (-3), .real (-4), .real (-5)],
                         enthalpy := [.real 100000, .real 100000, .real 100000, .real 100000, .real 100000] }
example : tableLen exGener = 5 := by decide +kernel
example : ∃ ls, writeGener mainTabs exGener = .ok ls ∧ ls.length = 7 := by
  refine ⟨(match writeGener mainTabs exGener with | .ok l => l | .error _ => []), ?_, ?_⟩ <;> decide +kernel
example : GoodGener (fun i => fieldAt mainTabs c!"generator" i) (fieldAt mainTabs c!"generation_times" 0)
    (fieldAt mainTabs c!"generation_rates" 0) (fieldAt mainTabs c!"generation_enthalpy" 0) exGener :=
  { block := ⟨rfl, by decide +kernel, by decide +kernel⟩, nameLen := rfl, nameNl := by decide +kernel,
    ltabInt := Or.inr ⟨5, rfl⟩, ltabKeep := by decide +kernel, typeKeep := by decide +kernel, itabStr := ⟨_, rfl⟩,
    itabKeep := by decide +kernel, timeLen := by decide +kernel, rateLen := by decide +kernel,
    enthLen := by decide +kernel,
    enthItab := by intro _ s h; cases h; decide +kernel,
    present := by decide +kernel, presentR := by decide +kernel, presentE := by decide +kernel }
-- a rock type with NAD = 2 and seven-parameter functions
def exRP : RP := ⟨.int 7, [.real (1/5), .real (1/10), .real 1, .real (1/100), .real 2, .real 3, .real 4]⟩
def exCP : RP := ⟨.int 7, [.real (1/5), .real (11/100), .real (17/20000), .real 10000000000, .real 1, .real 0, .real 9]⟩
def exRock2 : Rock := { exRock with nad := .int 2, extra := defaultRockExtra, rp := some exRP, cp := some exCP }
example : GoodRock (fieldAt mainTabs c!"rocks1" 1) exRock2 :=
  { name := ⟨_, rfl, rfl, by decide, by decide +kernel⟩, nad := Or.inr ⟨2, rfl⟩, nadKeep := by decide +kernel, perm := rfl,
    rp := fun _ => ⟨exRP, rfl, by decide⟩, cp := fun _ => ⟨exCP, rfl, by decide⟩ }
example : ∃ ls, writeRock mainTabs exRock2 = .ok ls ∧ ls.length = 4 := by
  refine ⟨(match writeRock mainTabs exRock2 with | .ok l => l | .error _ => []), ?_, ?_⟩ <;> decide +kernel
-- an object with a negative const_timestep (two lines of time steps: 9 values), five default incons, a print block
def exParam : T2Data :=
  { T2Data.empty with
    parameter := (((T2Data.empty.parameter.set c!"const_timestep" (.real (-2))).set c!"print_block" (.str c!"abc 5")).set
                    c!"max_timesteps" (.int 999)).set c!"gravity" (.real (981/100)),
    option := [0, 1, 0, 0, 0, 0, 0, 0, 0, 0, 2, 2, 2, 0, 0, 0, 5, 0, 0, 0, 1, 0, 0, 1, 0],
    timestep := [.real 1, .real 2, .real 3, .real 4, .real 5, .real 6, .real 7, .real 8, .real 9],
    defaultIncons := [.real 101325, .real 25, .real (1/2), .real 0, .real 7] }
example : GoodParam (p1rec exParam) (recOf mainTabs c!"param2") (fieldAt mainTabs c!"timestep" 0)
    (fieldAt mainTabs c!"default_incons" 0) exParam T2Data.empty :=
  { flavour := rfl, fresh := rfl, pbW := by decide +kernel,
    mop := ⟨(match (paramAfter1 (p1rec exParam) exParam T2Data.empty).get c!"_option_str" with | some (.str s) => s | _ => []),
            by decide +kernel, by decide +kernel⟩,
    pb := by decide +kernel,
    ct := ⟨-2, by decide +kernel, by decide +kernel, fun _ => by decide +kernel⟩,
    tsVals := by decide +kernel, diVals := by decide +kernel }
example : ∃ ls, writeParameters mainTabs exParam = .ok ls ∧ ls.length = 8 := by
  refine ⟨(match writeParameters mainTabs exParam with | .ok l => l | .error _ => []), ?_, ?_⟩ <;> decide +kernel
-- the new `Good…` hypotheses are satisfiable
example : GoodIndom (mf c!"indom2" 0) (c!"rock1", [.real 100000, .real 20]) :=
  ⟨rfl, by decide +kernel, by decide, by decide +kernel⟩
example : GoodOptions 21 [0, 1, 0, 0, 0, 0, 0, 0, 0, 0, 2, 2, 2, 0, 0, 0, 5, 0, 0, 0, 1, 9] := ⟨rfl, rfl, by decide⟩
example : GoodSelection (mf c!"selec1" 0) ⟨[.int 2, .none, .int 7], [.real 1, .real 2, .real 3, .real 4, .real 5, .real 6, .real 7, .real 8, .real 9]⟩ :=
  ⟨⟨_, rfl⟩, by decide, by decide +kernel⟩
def exShort : Short := { frequency := some (.int 5), block := some [c!"abc05", c!"xyz 1"], connection := some [(c!"abc05", c!"xyz 1")], generator := none }
example : GoodShort [{ exBlock with name := c!"abc 5" }, { exBlock with name := c!"xyz 1" }]
    [{ b1 := c!"abc 5", b2 := c!"xyz 1", nseq := .none, nad1 := .none, nad2 := .none, direction := .int 3, dist := [], area := .none, dircos := .none, sigma := .none }]
    [] exShort :=
  ⟨rfl, ⟨[' ', '5'], by decide +kernel, Or.inr rfl⟩, by
    intro g hg
    simp only [gsOf, exShort, List.append_nil, List.cons_append, List.nil_append, List.mem_cons, List.not_mem_nil, or_false] at hg
    rcases hg with rfl | rfl
    · intro n hn
      simp only [List.mem_cons, List.not_mem_nil, or_false] at hn
      rcases hn with rfl | rfl <;> exact ⟨⟨rfl, by decide +kernel⟩, by unfold NotSubKw; decide +kernel, by decide +kernel⟩
    · intro p hp
      simp only [List.mem_cons, List.not_mem_nil, or_false] at hp
      subst hp
      exact ⟨⟨rfl, by decide +kernel⟩, rfl, by unfold NotSubKw; decide +kernel, by decide +kernel⟩⟩
def exMesh : List MeshMaker :=
  [.rz2d [.radii [.real 0, .real 100], .equid [(c!"nequ", .int 20), (c!"dr", .real 10)], .layer [.real 500]],
   .xyz (.real 0) [{ ntype := .str c!"NX", no := .int 3, del := .real 0, deli := some [.real 1, .real 2, .real 3] },
                   { ntype := .str c!"NZ", no := .int 9, del := .real 10, deli := none }],
   .minc { type := .str c!"ONE-D", dual := .str c!"     ", numContinua := .int 2, where_ := .str c!"OUT ", spacing := [.real 50], vol := [.real (1/20), .real (19/20)] }]
example : ∀ m ∈ exMesh, GoodMesh (recOf mainTabs c!"equid") (recOf mainTabs c!"logar") (mf c!"radii2" 0) (mf c!"xyz2" 0)
    (mf c!"xyz2" 2) (mf c!"xyz2" 3) (mf c!"part1" 1) (mf c!"part1" 2) m := by
  intro m hm
  simp only [exMesh, List.mem_cons, List.not_mem_nil, or_false] at hm
  rcases hm with rfl | rfl | rfl
  · exact ⟨by simp only [GoodRZSub]; decide +kernel, by simp only [GoodRZSub]; decide +kernel, trivial⟩
  · intro s hs
    simp only [List.mem_cons, List.not_mem_nil, or_false] at hs
    rcases hs with rfl | rfl
    · exact ⟨⟨_, rfl, by decide +kernel, by decide, by decide +kernel⟩, ⟨3, rfl, by decide +kernel⟩, by decide +kernel, by decide +kernel⟩
    · exact ⟨⟨_, rfl, by decide +kernel, by decide, by decide +kernel⟩, ⟨9, rfl, by decide +kernel⟩, by decide +kernel, by decide +kernel⟩
  · exact ⟨⟨_, _, _, _, _, rfl, by decide, by decide⟩, Or.inl rfl, ⟨_, rfl, by decide +kernel, by decide⟩, by decide, by decide +kernel⟩
example : ∃ lss, exMesh.mapM (writeMeshEntry mainTabs) = .ok lss := by
  refine ⟨(match exMesh.mapM (writeMeshEntry mainTabs) with | .ok l => l | .error _ => []), ?_⟩
  decide +kernel
-- visible history items
example : Visible c!"abc12" := ⟨rfl, by decide +kernel⟩
-- a one-section chain for `sections_preserved`: a file `START / ENDCY`
example : ChainOK .default none T2Data.empty [⟨c!"START", nl c!"START", []⟩]
    { T2Data.empty with start := true, sections := [c!"START"] } := by
  refine ⟨{ T2Data.empty with start := true }, ⟨by decide +kernel, by unfold IsEnd; decide, by decide +kernel, by decide +kernel, by decide, ?_⟩, rfl⟩
  intro line _ rest
  exact ⟨none, rest, rfl, Or.inl ⟨rfl, rfl⟩⟩

-- a whole object for `read_write_whole_partial`: a rock type with NAD = 2, PARAM with nine time steps (two lines) and five
-- default initial conditions (two lines, then the look-ahead into MOMOP), MOMOP, START, one block
def exWhole : T2Data :=
  { exParam with title := c!"whole object", rocks := [exRock2], start := true,
                 moreOption := [0, 1, 0, 0, 0, 0, 0, 0, 0, 0, 2, 2, 2, 0, 0, 0, 5, 0, 0, 0, 1, 9],
                 blocks := [exBlock] }
def exCfg : WriteCfg := ⟨.infile, none, none⟩
example : ∃ f, exWhole.write exCfg = .ok (exWhole.updateSections, f) := by
  refine ⟨(match exWhole.write exCfg with | .ok x => x.2 | .error _ => ⟨[], none, none⟩), ?_⟩
  decide +kernel
example : exWhole.updateSections.sections = [c!"ROCKS", c!"PARAM", c!"MOMOP", c!"START", c!"ELEME", c!"CONNE"] ∧
    exWhole.updateSections.sections.all (wholeKinds.contains ·) = true ∧ IsEnd exWhole.endKeyword := by
  refine ⟨by decide +kernel, by decide +kernel, Or.inl (by decide +kernel)⟩
theorem exWhole_good : GoodFrom (stepCanon exWhole.updateSections) (GoodStep exWhole.updateSections)
    [c!"ROCKS", c!"PARAM", c!"MOMOP", c!"START", c!"ELEME", c!"CONNE"] (startObj exWhole) := by
  refine ⟨?rocks, ?param, ?momop, ?start, ?eleme, ?conne, trivial⟩
  case start => exact (rfl : exWhole.start = true)
  case momop =>
    refine ⟨⟨rfl, rfl, by decide⟩, (match writeMoreOptions mainTabs exWhole with | .ok l => l | .error _ => []), ?_⟩
    decide +kernel
  case conne => exact ⟨fun c hc => absurd hc (by simp [exWhole, exParam, T2Data.updateSections, T2Data.empty]), fun c hc => absurd hc (by simp [exWhole, exParam, T2Data.updateSections, T2Data.empty])⟩
  case rocks =>
    refine ⟨?_, ?_⟩
    · intro rt hrt
      have : rt = exRock2 := by simpa [exWhole, T2Data.updateSections] using hrt
      subst this
      exact { name := ⟨_, rfl, rfl, by decide, by decide +kernel⟩, nad := Or.inr ⟨2, rfl⟩, nadKeep := by decide +kernel, perm := rfl,
              rp := fun _ => ⟨exRP, rfl, by decide⟩, cp := fun _ => ⟨exCP, rfl, by decide⟩ }
    · intro rt hrt
      have : rt = exRock2 := by simpa [exWhole, T2Data.updateSections] using hrt
      subst this
      refine ⟨(match writeRock mainTabs exRock2 with | .ok l => l | .error _ => []), ?_⟩
      decide +kernel
  case eleme =>
    refine ⟨?_, ?_⟩
    · intro b hb
      have : b = exBlock := by simpa [exWhole, T2Data.updateSections] using hb
      subst this
      exact ⟨⟨rfl, by decide +kernel, by decide +kernel⟩, rfl, by decide, by decide +kernel, by intro c h; cases h; rfl⟩
    · intro b hb
      have : b = exBlock := by simpa [exWhole, T2Data.updateSections] using hb
      subst this
      refine ⟨(match writeBlock mainTabs exBlock with | .ok l => l | .error _ => []), ?_⟩
      decide +kernel
  case param =>
    refine ⟨?_, ⟨(match writeParameters mainTabs exWhole with | .ok l => l | .error _ => []), by decide +kernel⟩, ?_⟩
    · exact
        { flavour := rfl, fresh := rfl, pbW := by decide +kernel,
          mop := ⟨(match (paramAfter1 (pr1 exWhole) exWhole T2Data.empty).get c!"_option_str" with | some (.str s) => s | _ => []),
                  by decide +kernel, by decide +kernel⟩,
          pb := by decide +kernel,
          ct := ⟨-2, by decide +kernel, by decide +kernel, fun _ => by decide +kernel⟩,
          tsVals := by decide +kernel, diVals := by decide +kernel }
    · intro dil hdil
      have : dil = (match writeChunks (recOf mainTabs c!"default_incons") 4 exWhole.defaultIncons 5 2 with | .ok l => l | .error _ => []) := by
        have h2 : (if exWhole.updateSections.defaultIncons.length > 0 then
            writeChunks (recOf mainTabs c!"default_incons") 4 exWhole.updateSections.defaultIncons exWhole.updateSections.defaultIncons.length
              ((exWhole.updateSections.defaultIncons.length + 3) / 4)
          else .ok [nl []]) = .ok (match writeChunks (recOf mainTabs c!"default_incons") 4 exWhole.defaultIncons 5 2 with | .ok l => l | .error _ => []) := by
          decide +kernel
        rw [h2] at hdil
        cases hdil
        rfl
      subst this
      decide +kernel

-- a whole object with a MESHMAKER section (RZ2D, XYZ and MINC entries; its keyword line is `MESHMAKER`) and a SHORT
-- section (frequency 5 and a block list resolved against the block read from ELEME)
def exShort2 : Short := { frequency := some (.int 5), block := some [c!"abc05"], connection := none, generator := none }
def exWhole2 : T2Data := { exWhole with meshmaker := exMesh, short := exShort2 }
example : ∃ f, exWhole2.write exCfg = .ok (exWhole2.updateSections, f) := by
  refine ⟨(match exWhole2.write exCfg with | .ok x => x.2 | .error _ => ⟨[], none, none⟩), ?_⟩
  decide +kernel
example : exWhole2.updateSections.sections =
      [c!"ROCKS", c!"PARAM", c!"MOMOP", c!"START", c!"ELEME", c!"CONNE", c!"MESHM", c!"SHORT"] ∧
    exWhole2.updateSections.sections.all (wholeKinds.contains ·) = true := by
  refine ⟨by decide +kernel, by decide +kernel⟩
-- the two new side conditions on that object: MESHM when it is met, SHORT on the reader's grid when it is met
example (d0 : T2Data) : GoodStep exWhole2.updateSections c!"MESHM" d0 := by
  refine ⟨by decide +kernel, ?_, (match exMesh.mapM (writeMeshEntry mainTabs) with | .ok l => l | .error _ => []), by decide +kernel⟩
  intro m hm
  have hm' : m ∈ exMesh := hm
  simp only [exMesh, List.mem_cons, List.not_mem_nil, or_false] at hm'
  rcases hm' with rfl | rfl | rfl
  · exact ⟨by simp only [GoodRZSub]; decide +kernel, by simp only [GoodRZSub]; decide +kernel, trivial⟩
  · intro s hs
    simp only [List.mem_cons, List.not_mem_nil, or_false] at hs
    rcases hs with rfl | rfl
    · exact ⟨⟨_, rfl, by decide +kernel, by decide, by decide +kernel⟩, ⟨3, rfl, by decide +kernel⟩, by decide +kernel, by decide +kernel⟩
    · exact ⟨⟨_, rfl, by decide +kernel, by decide, by decide +kernel⟩, ⟨9, rfl, by decide +kernel⟩, by decide +kernel, by decide +kernel⟩
  · exact ⟨⟨_, _, _, _, _, rfl, by decide, by decide⟩, Or.inl rfl, ⟨_, rfl, by decide +kernel, by decide⟩, by decide, by decide +kernel⟩
example : GoodStep exWhole2.updateSections c!"SHORT"
    (canonFrom (stepCanon exWhole2.updateSections) [c!"ROCKS", c!"PARAM", c!"MOMOP", c!"START", c!"ELEME", c!"CONNE", c!"MESHM"]
      (startObj exWhole2)) := by
  refine ⟨rfl, ⟨[' ', '5'], by decide +kernel, Or.inr rfl⟩, ?_⟩
  intro g hg
  have hg' : g ∈ [ShortGrp.blk [c!"abc05"]] := hg
  simp only [List.mem_cons, List.not_mem_nil, or_false] at hg'
  subst hg'
  intro n hn
  simp only [List.mem_cons, List.not_mem_nil, or_false] at hn
  subst hn
  exact ⟨⟨rfl, by decide +kernel⟩, by unfold NotSubKw; decide +kernel, by decide +kernel⟩

-- `whole_fields_once` on that object: SHORT occurs once, after ELEME; MESHM once
example : exWhole2.updateSections.sections =
      [c!"ROCKS", c!"PARAM", c!"MOMOP", c!"START", c!"ELEME", c!"CONNE", c!"MESHM"] ++ c!"SHORT" :: [] ∧
    c!"SHORT" ∉ [c!"ROCKS", c!"PARAM", c!"MOMOP", c!"START", c!"ELEME", c!"CONNE", c!"MESHM"] ∧ c!"SHORT" ∉ ([] : List Str) := by
  refine ⟨by decide +kernel, by decide +kernel, by simp⟩
example : exWhole2.updateSections.sections =
      [c!"ROCKS", c!"PARAM", c!"MOMOP", c!"START", c!"ELEME", c!"CONNE"] ++ c!"MESHM" :: [c!"SHORT"] ∧
    c!"MESHM" ∉ [c!"ROCKS", c!"PARAM", c!"MOMOP", c!"START", c!"ELEME", c!"CONNE"] ∧ c!"MESHM" ∉ [c!"SHORT"] := by
  refine ⟨by decide +kernel, by decide +kernel, by decide +kernel⟩

-- an AUTOUGH2 object: SIMUL section first, then PARAM read and written with the `param1_autough2` record
def exAut : T2Data := { exWhole with simulator := c!"AUTOUGH2.2EW" }
example : FlavourOK exAut exCfg ∧ ¬ exAut.simulator = [] := ⟨Or.inr ⟨rfl, rfl⟩, by decide⟩
example : ∃ f, exAut.write exCfg = .ok (exAut.updateSections, f) := by
  refine ⟨(match exAut.write exCfg with | .ok x => x.2 | .error _ => ⟨[], none, none⟩), ?_⟩
  decide +kernel
example : exAut.updateSections.sections = [c!"SIMUL", c!"ROCKS", c!"PARAM", c!"MOMOP", c!"START", c!"ELEME", c!"CONNE"] := by
  decide +kernel
-- the side conditions of SIMUL, and of PARAM on the reader's object after SIMUL and ROCKS (AUTOUGH2 flavour on both sides)
example : GoodStep exAut.updateSections c!"SIMUL" (startObj exAut) := ⟨by decide, by decide +kernel⟩
example : GoodParam (pr1 exAut.updateSections) pr2 fts fdi exAut.updateSections
    (canonFrom (stepCanon exAut.updateSections) [c!"SIMUL", c!"ROCKS"] (startObj exAut)) :=
  { flavour := by decide +kernel, fresh := rfl, pbW := by decide +kernel,
    mop := ⟨(match (paramAfter1 (pr1 exAut) exAut T2Data.empty).get c!"_option_str" with | some (.str s) => s | _ => []),
            by decide +kernel, by decide +kernel⟩,
    pb := by decide +kernel,
    ct := ⟨-2, by decide +kernel, by decide +kernel, fun _ => by decide +kernel⟩,
    tsVals := by decide +kernel, diVals := by decide +kernel }

-- the same object written with an ASCII MESH file: the main file keeps ROCKS PARAM MOMOP START, the block goes to MESH
example : (∃ f, exWhole.write ⟨.ascii, none, none⟩ = .ok (exWhole.updateSections, f)) ∧
    exWhole.updateSections.sections.filter notMesh = [c!"ROCKS", c!"PARAM", c!"MOMOP", c!"START"] := by
  refine ⟨⟨(match exWhole.write ⟨.ascii, none, none⟩ with | .ok x => x.2 | .error _ => ⟨[], none, none⟩), ?_⟩, ?_⟩ <;> decide +kernel
example : GoodFrom (stepCanon exWhole.updateSections) (GoodStep exWhole.updateSections)
      [c!"ROCKS", c!"PARAM", c!"MOMOP", c!"START"] (startObj exWhole) ∧
    (∀ b ∈ exWhole.updateSections.blocks, GoodBlock (canonFrom (stepCanon exWhole.updateSections)
      [c!"ROCKS", c!"PARAM", c!"MOMOP", c!"START"] (startObj exWhole)).rocks b) :=
  ⟨⟨exWhole_good.1, exWhole_good.2.1, exWhole_good.2.2.1, exWhole_good.2.2.2.1, trivial⟩, exWhole_good.2.2.2.2.1.1⟩

end Props.C01
