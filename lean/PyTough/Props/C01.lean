/-
  C01 — TOUGH2 data file write/read round trip (property theorems).
  (under construction: the theorems are added as the proofs in Proofs/T2Data*.lean land)
-/
import PyTough.Model.T2Data
open Model Model.T2
namespace Props.C01
end Props.C01
