/-
  C16 — Fortran-written numbers are read with Fortran's meaning, and never raise.
  Property theorems about `Model.fortranFloat` / `Model.fortranInt`
  (model of fixed_format_file.fortran_float / fortran_int).
-/
import PyTough.Model.Fortran
import PyTough.Proofs.StrLemmas
import PyTough.Proofs.FortranReals

namespace Props.C16
open Py Model

/-! ### No text whatsoever makes the readers raise -/

/-- For **every** string, `fortran_float` returns normally (a value, nan, or the
    blank value): no `ValueError`, and in particular no `IndexError` from `s[0]`. -/
theorem fortran_float_total (s : Str) : ∃ o, fortranFloat s = .ok o :=
  Proofs.fortranFloat_total s

theorem fortran_int_total (s : Str) : ∃ o, fortranInt s = .ok o :=
  Proofs.fortranInt_total s

/-! ### anything Python's own conversion accepts gives the same result -/

theorem float_agrees_with_python (s : Str) (v : FVal) (h : pyFloat s = .ok v) :
    fortranFloat s = .ok (.val v) := by
  unfold fortranFloat; rw [h]

theorem int_agrees_with_python (s : Str) (v : Int) (h : pyInt s = .ok v) :
    fortranInt s = .ok (.val (some v)) := by
  unfold fortranInt; rw [h]

/-! ### a blank field yields the caller's blank value -/

theorem blank_gives_blank_value_float (s : Str) (h : ∀ c ∈ s, isStrWs c = true) :
    fortranFloat s = .ok .blank :=
  Proofs.fortranFloat_blank s h

theorem blank_gives_blank_value_int (s : Str) (h : ∀ c ∈ s, isStrWs c = true) :
    fortranInt s = .ok .blank :=
  Proofs.fortranInt_blank s h

example : fortranFloat [] = .ok .blank := by decide
example : fortranFloat "   \n".toList = .ok .blank := by decide
example : fortranInt " \t ".toList = .ok .blank := by decide

/-! ### text containing a character that cannot occur in a number -/

/-- If `s` contains any character that is neither whitespace nor in the number
    alphabet (`0-9 + - . _`, `e d` and the letters of `inf`/`infinity`/`nan`, any
    case), `fortran_float` returns not-a-number. -/
theorem bad_character_gives_nan (s : Str) (c : Char) (hc : c ∈ s)
    (hws : isStrWs c = false) (hbad : Proofs.floatAlpha c = false) :
    fortranFloat s = .ok (.val .nan) :=
  Proofs.fortranFloat_bad s c hc hws hbad

/-- For integers the alphabet is `0-9 + - _`; anything else gives `None`. -/
theorem bad_character_gives_none (s : Str) (c : Char) (hc : c ∈ s)
    (hws : isStrWs c = false) (hbad : Proofs.intAlpha c = false) :
    fortranInt s = .ok (.val none) :=
  Proofs.fortranInt_bad s c hc hws hbad

-- the asterisks Fortran prints on overflow
example : isStrWs '*' = false ∧ Proofs.floatAlpha '*' = false ∧ Proofs.intAlpha '*' = false := by decide
example : fortranFloat "**********".toList = .ok (.val .nan) := by decide
example : fortranInt "*****".toList = .ok (.val none) := by decide

/-! ### every way Fortran prints a real is read with Fortran's meaning -/

/-- `FReal` (in `Proofs/FortranReals.lean`) describes a printed real: sign (none, `+`
    or `-`), integer digits, optional point and fraction digits (not both digit
    runs empty), and an exponent that is absent, or has a letter `E e D d` with
    sign `+`/`-`/none and ≥ 1 digits, or has **no letter** but an explicit sign.
    `s` is any text whose non-blank characters are that rendering: arbitrary
    leading, trailing and embedded blanks (so a blank instead of `+` in the
    exponent is included).  The reader returns exactly the decimal printed. -/
theorem reads_fortran_reals (r : Proofs.FReal) (hr : r.WF) (s : Str)
    (hs : s.filter (· != ' ') = r.render) :
    fortranFloat s = .ok (.val r.value) :=
  Proofs.fortranFloat_reads r hr s hs

-- the cascade levels singled out in the property text
example : fortranFloat "1.0+100".toList = .ok (.val (.fin false 10 99)) := by decide
example : fortranFloat "-1.0-100".toList = .ok (.val (.fin true 10 (-101))) := by decide
example : fortranFloat "-1.0+100".toList = .ok (.val (.fin true 10 99)) := by decide
example : fortranFloat " 0.1234D-05".toList = .ok (.val (.fin false 1234 (-9))) := by decide
example : fortranFloat "  .5E 02 ".toList = .ok (.val (.fin false 5 1)) := by decide

/-- integers: optional sign, digits, arbitrary blank padding and embedded blanks -/
theorem reads_fortran_ints (neg plus : Bool) (ds : Str) (hd : ds ≠ []) (hdig : ∀ c ∈ ds, isDigit c = true)
    (s : Str) (hs : s.filter (· != ' ') = Proofs.renderInt neg plus ds) :
    fortranInt s = .ok (.val (some (if neg then -(digitsVal ds : Int) else digitsVal ds))) :=
  Proofs.fortranInt_reads neg plus ds hd hdig s hs

example : fortranInt "  - 1 2 ".toList = .ok (.val (some (-12))) := by decide

end Props.C16
