/-
  C17 — Block, column, layer and node names are unique, well-formed and invertible.

  Property theorems about `Model/Names.lean` (the model of the naming code of mulgrids.py; the
  convention tables come from `Gen/Conventions.lean`, regenerated from the source on every run).
  Proofs are in `Proofs/Names*.lean`.

  Vocabulary (defined in `Proofs/NamesGen.lean`, `Proofs/NamesDigits.lean`, `Proofs/NamesFix.lean`):
    AlphabetOK chars spaces   the alphabet is duplicate-free (what `uniqstring` returns), has no blank and no
                              digit (letters, for instance), is non-empty, and has ≥ 2 characters if spaces = False
    capB n L                  n + n² + … + n^L
    columnCapacity conv n sp  largest column/node number with a name: capB n 3 (spaces) or n³ − 1 (no spaces)
                              for conventions 0 and 3, 99 for convention 1, 999 for convention 2
    layerCapacity conv n sp   99 for convention 0; capB n L / n^L − 1 with L = 3 (convention 1) or 2 (2 and 3)
    NameChar chars c          c is in the alphabet, a blank, or a decimal digit
    simForm name              the name as a simulator holding it as (A3, I2) prints it
-/
import PyTough.Proofs.NamesRect

namespace Props.C17
open Py Model.Names Proofs.Names

/-! ## `int_to_chars`: an injective numeration with exact lengths -/

/-- In both modes (`spaces=True`: bijective base-`n` numeration; `False`: positional numerals
    padded with `chars[0]` to `length`) distinct integers give distinct strings. -/
theorem int_to_chars_injective {chars : Str} {spaces : Bool} (h : AlphabetOK chars spaces) (length i j : Nat) (s : Str)
    (hi : intToChars i [] chars spaces length = .ok s) (hj : intToChars j [] chars spaces length = .ok s) : i = j := by
  rw [intToChars_ok h] at hi hj
  cases hi
  have e : alphaName chars spaces false length i = alphaName chars spaces false length j := by
    unfold alphaName; rw [Except.ok.inj hj]
  rw [← decodeA_alphaName h false length i, e, decodeA_alphaName h false length j]

/-- `spaces=True`: the string for `i` has at most `K` characters exactly when `i ≤ n + n² + … + n^K`. -/
theorem int_to_chars_length_spaces {chars : Str} (h : AlphabetOK chars true) (length i K : Nat) :
    ∃ s, intToChars i [] chars true length = .ok s ∧ (s.length ≤ K ↔ i ≤ capB chars.length K) ∧ ∀ c ∈ s, c ∈ chars := by
  refine ⟨_, intToChars_ok h i length, ?_, ?_⟩
  · simp only [padS, Bool.true_eq_false, and_false, if_false]
    exact lenB h.pos K i
  · exact mem_padS h length i

/-- `spaces=False`: the string has exactly `length` characters when `i < n^length`, and more otherwise. -/
theorem int_to_chars_length_padded {chars : Str} (h : AlphabetOK chars false) (length i : Nat) (hL : 0 < length) :
    ∃ s, intToChars i [] chars false length = .ok s ∧ (i < chars.length ^ length → s.length = length) ∧
      (chars.length ^ length ≤ i → length < s.length) ∧ ∀ c ∈ s, c ∈ chars := by
  refine ⟨_, intToChars_ok h i length, ?_, ?_, mem_padS h length i⟩
  all_goals
    have h2 : 2 ≤ chars.length := by simpa using h.size
    have := lenP h2 length i
    have hne : length ≠ 0 := by omega
    simp only [padS, hne, ne_eq, not_false_eq_true, and_self, if_true, List.length_append, List.length_replicate]
    intro hk; omega

example : AlphabetOK Gen.Conventions.defaultChars true := ⟨by decide, by decide, by decide⟩
example : AlphabetOK Gen.Conventions.defaultChars false := ⟨by decide, by decide, by decide⟩
example : AlphabetOK ['a', 'b'] false := ⟨by decide, by decide, by decide⟩
example : intToChars 18278 [] Gen.Conventions.defaultChars true 0 = .ok ['z', 'z', 'z'] := by decide
example : intToChars 5 [] ['a', 'b'] false 4 = .ok ['a', 'b', 'a', 'b'] := by decide
example : capB 26 3 = 18278 := by decide

/-! ## `column_/node_/layer_name_from_number`: a name of the convention's length, or the naming error -/

/-- Under every convention: a number up to the capacity gives a name of exactly the convention's
    length made of alphabet characters, blanks or digits; any larger number raises
    `NamingConventionError` — never a truncated or over-long name.  Left or right justified. -/
theorem column_name_from_number_total {conv : Nat} (hconv : conv < 4) {chars : Str} {spaces : Bool}
    (h : AlphabetOK chars spaces) (left : Bool) (k : Nat) :
    (k ≤ columnCapacity conv chars.length spaces →
      ∃ name, columnNameFromNumber conv k left chars spaces = .ok name ∧ name.length = colnameLength conv ∧
        ∀ c ∈ name, NameChar chars c) ∧
    (columnCapacity conv chars.length spaces < k → columnNameFromNumber conv k left chars spaces = .error .naming) :=
  ⟨(genSpec_column h conv (colnameLength_pos hconv) left).ok k, (genSpec_column h conv (colnameLength_pos hconv) left).err k⟩

theorem node_name_from_number_total {conv : Nat} (hconv : conv < 4) {chars : Str} {spaces : Bool}
    (h : AlphabetOK chars spaces) (left : Bool) (k : Nat) :
    (k ≤ columnCapacity conv chars.length spaces →
      ∃ name, nodeNameFromNumber conv k left chars spaces = .ok name ∧ name.length = colnameLength conv ∧
        ∀ c ∈ name, NameChar chars c) ∧
    (columnCapacity conv chars.length spaces < k → nodeNameFromNumber conv k left chars spaces = .error .naming) :=
  column_name_from_number_total hconv h left k

theorem layer_name_from_number_total {conv : Nat} (hconv : conv < 4) {chars : Str} {spaces : Bool}
    (h : AlphabetOK chars spaces) (left : Bool) (k : Nat) :
    (k ≤ layerCapacity conv chars.length spaces →
      ∃ name, layerNameFromNumber conv k left chars spaces = .ok name ∧ name.length = layernameLength conv ∧
        ∀ c ∈ name, NameChar chars c) ∧
    (layerCapacity conv chars.length spaces < k → layerNameFromNumber conv k left chars spaces = .error .naming) :=
  ⟨(genSpec_layer h conv (layernameLength_pos hconv) left).ok k, (genSpec_layer h conv (layernameLength_pos hconv) left).err k⟩

/-- distinct numbers give distinct names -/
theorem column_name_from_number_injective {conv : Nat} (hconv : conv < 4) {chars : Str} {spaces : Bool}
    (h : AlphabetOK chars spaces) (left : Bool) (k1 k2 : Nat) (name : Str)
    (h1 : columnNameFromNumber conv k1 left chars spaces = .ok name)
    (h2 : columnNameFromNumber conv k2 left chars spaces = .ok name) : k1 = k2 :=
  (genSpec_column h conv (colnameLength_pos hconv) left).inj h1 h2

theorem node_name_from_number_injective {conv : Nat} (hconv : conv < 4) {chars : Str} {spaces : Bool}
    (h : AlphabetOK chars spaces) (left : Bool) (k1 k2 : Nat) (name : Str)
    (h1 : nodeNameFromNumber conv k1 left chars spaces = .ok name)
    (h2 : nodeNameFromNumber conv k2 left chars spaces = .ok name) : k1 = k2 :=
  column_name_from_number_injective hconv h left k1 k2 name h1 h2

theorem layer_name_from_number_injective {conv : Nat} (hconv : conv < 4) {chars : Str} {spaces : Bool}
    (h : AlphabetOK chars spaces) (left : Bool) (k1 k2 : Nat) (name : Str)
    (h1 : layerNameFromNumber conv k1 left chars spaces = .ok name)
    (h2 : layerNameFromNumber conv k2 left chars spaces = .ok name) : k1 = k2 :=
  (genSpec_layer h conv (layernameLength_pos hconv) left).inj h1 h2

-- the capacity limits named in the property: 99 layers, 99 / 999 columns, 26 + 26² + 26³ letter names
example : columnCapacity 0 26 true = 18278 ∧ columnCapacity 3 26 true = 18278 ∧ columnCapacity 0 26 false = 17575 := by decide
example : columnCapacity 1 26 true = 99 ∧ columnCapacity 2 26 true = 999 := by decide
example : layerCapacity 0 26 true = 99 ∧ layerCapacity 1 26 true = 18278 ∧ layerCapacity 2 26 true = 702 ∧
    layerCapacity 3 26 false = 675 := by decide
example : columnNameFromNumber 0 18278 false Gen.Conventions.defaultChars true = .ok ['z', 'z', 'z'] := by decide
example : columnNameFromNumber 0 18279 false Gen.Conventions.defaultChars true = .error .naming := by decide
example : columnNameFromNumber 1 99 false Gen.Conventions.defaultChars true = .ok ['9', '9'] ∧
    columnNameFromNumber 1 100 false Gen.Conventions.defaultChars true = .error .naming := by decide
example : layerNameFromNumber 0 100 true Gen.Conventions.defaultChars true = .error .naming := by decide

/-! ## `new_dict_key`, `new_node_name`, `new_column_name`: a fresh name, or the naming error -/

/-- The search loop terminates (within `len(d) + 1` steps) and returns a key that is not in `d`,
    the justified `int_to_chars` of the returned index, having skipped only used keys. -/
theorem new_dict_key_fresh {chars : Str} {spaces : Bool} (h : AlphabetOK chars spaces) (d : List Str)
    (istart : Nat) (left : Bool) (length : Nat) :
    ∃ name i s, newDictKey d istart left length chars spaces = .ok (name, i) ∧ name ∉ d ∧
      istart < i ∧ i ≤ istart + d.length + 1 ∧
      intToChars i [] chars spaces length = .ok s ∧ name = just left s length := by
  obtain ⟨j, h1, h2, h3, h4, _⟩ := newDictKey_spec h d istart left length
  exact ⟨_, j, _, h1, h4, h2, h3, intToChars_ok h j length, rfl⟩

/-- `new_node_name` / `new_column_name` return an unused name of the convention's length, or raise
    the naming error — and that only when every name from `istart + 1` up to the capacity is taken. -/
theorem new_node_name_fresh {conv : Nat} {chars : Str} {spaces : Bool} (h : AlphabetOK chars spaces)
    (d : List Str) (istart : Nat) (left : Bool) :
    (∃ name i, newNodeName conv d istart left chars spaces = .ok (name, i) ∧ name ∉ d ∧
        name.length = colnameLength conv ∧ istart < i) ∨
    (newNodeName conv d istart left chars spaces = .error .naming ∧
      ∀ m, istart < m → m ≤ capA chars.length spaces (colnameLength conv) →
        ∃ s, intToChars m [] chars spaces (colnameLength conv) = .ok s ∧ just left s (colnameLength conv) ∈ d) := by
  obtain ⟨j, h1, h2, h3, h4, h5⟩ := newDictKey_spec h d istart left (colnameLength conv)
  have hlen := alphaName_length h left (colnameLength conv) j
  unfold newNodeName
  rw [h1]
  by_cases hj : j ≤ capA chars.length spaces (colnameLength conv)
  · left
    have := hlen.1 hj
    exact ⟨_, j, by simp [this], h4, this, h2⟩
  · right
    have := hlen.2 (by omega)
    refine ⟨by simp [this], fun m hm1 hm2 => ⟨_, intToChars_ok h m _, h5 m hm1 (by omega)⟩⟩

example : newColumnName 0 [[' ', ' ', 'a'], [' ', ' ', 'b']] 0 false Gen.Conventions.defaultChars true =
    .ok ([' ', ' ', 'c'], 3) := by decide

/-! ## `add_layers`: layer names avoid the surface layer name -/

/-- For `m` layer thicknesses: the result is the surface layer followed by `m` generated names, all
    distinct (so none equals the surface layer name `' 0'` / `'atm'` / `'at'`), each of the
    convention's length; or the naming error.  There is always room for `capacity − 1` layers (one
    number may be skipped because its name is the surface layer's); more than `capacity` raises. -/
theorem add_layers_names {conv : Nat} (hconv : conv < 4) (m : Nat) (left : Bool) {chars : Str} {spaces : Bool}
    (h : AlphabetOK (uniqstring chars) spaces) :
    ((∃ names, addLayers conv m left chars spaces = .ok (surfaceLayerName conv :: names) ∧
        names.length = m ∧ (surfaceLayerName conv :: names).Nodup ∧
        ∀ x ∈ names, x.length = layernameLength conv ∧ ∀ c ∈ x, NameChar (uniqstring chars) c) ∨
      addLayers conv m left chars spaces = .error .naming) ∧
    (m + 1 ≤ layerCapacity conv (uniqstring chars).length spaces → ∃ names, addLayers conv m left chars spaces = .ok names) ∧
    (layerCapacity conv (uniqstring chars).length spaces < m → addLayers conv m left chars spaces = .error .naming) := by
  obtain ⟨h1, h2, h3⟩ := addLayers_spec hconv m left h
  refine ⟨?_, h2, h3⟩
  rcases h1 with ⟨names, a, b, c, d⟩ | h1
  · exact Or.inl ⟨names, a, b, c, fun x hx => ⟨(d x hx).1, (d x hx).2.1⟩⟩
  · exact Or.inr h1

/-- what `uniqstring` returns from letters is an alphabet -/
theorem uniqstring_alphabet {chars : Str} {spaces : Bool} (hclean : ∀ c ∈ chars, c ≠ ' ' ∧ isDigit c = false)
    (hsize : if spaces = true then 1 ≤ (uniqstring chars).length else 2 ≤ (uniqstring chars).length) :
    AlphabetOK (uniqstring chars) spaces := alphabetOK_uniqstring hclean hsize

-- convention 2 with the lower-case alphabet: number 46 would be 'at', the surface layer; it is skipped
example : (addLayers 2 46 false Gen.Conventions.defaultChars true).map (fun l => (l.take 1, l.drop 45)) =
    .ok ([['a', 't']], [['a', 's'], ['a', 'u']]) := by decide
example : addLayers 0 100 false Gen.Conventions.defaultChars true = .error .naming := by decide

/-! ## `block_name` is invertible -/

/-- a column name the library generates (or the atmosphere column name of the convention) -/
def IsColumnName (conv : Nat) (chars : Str) (spaces : Bool) (col : Str) : Prop :=
  (∃ k left, columnNameFromNumber conv k left chars spaces = .ok col) ∨ col = atmosphereColumnName conv

/-- a layer name the library generates (or the surface layer name of the convention) -/
def IsLayerName (conv : Nat) (chars : Str) (spaces : Bool) (lay : Str) : Prop :=
  (∃ k left, layerNameFromNumber conv k left chars spaces = .ok lay) ∨ lay = surfaceLayerName conv

/-- Under every convention the block name built from a layer and a column name has five
    characters, and its column part and layer part are exactly the column and the layer
    (`fix_blockname` never fires on generated names). -/
theorem block_name_invertible {conv : Nat} (hconv : conv < 4) {chars : Str} {spaces : Bool}
    (h : AlphabetOK chars spaces) {lay col : Str} (hl : IsLayerName conv chars spaces lay)
    (hc : IsColumnName conv chars spaces col) :
    ∃ b, blockName conv lay col = .ok b ∧ b.length = 5 ∧ columnName conv b = some col ∧ layerName conv b = some lay := by
  have hls : LaySafe conv lay := by
    rcases hl with ⟨k, left, hk⟩ | rfl
    · exact layer_safe hconv h hk
    · exact surfaceLayerName_safe hconv
  have hcs : ColSafe conv col := by
    rcases hc with ⟨k, left, hk⟩ | rfl
    · exact column_safe hconv h hk
    · exact atmosphereColumnName_safe hconv
  exact ⟨_, blockName_inv hconv hls hcs⟩

/-- hence different (layer, column) pairs have different block names -/
theorem block_name_injective {conv : Nat} (hconv : conv < 4) {chars : Str} {spaces : Bool}
    (h : AlphabetOK chars spaces) {lay col lay' col' b : Str}
    (hl : IsLayerName conv chars spaces lay) (hc : IsColumnName conv chars spaces col)
    (hl' : IsLayerName conv chars spaces lay') (hc' : IsColumnName conv chars spaces col')
    (h1 : blockName conv lay col = .ok b) (h2 : blockName conv lay' col' = .ok b) : lay = lay' ∧ col = col' := by
  obtain ⟨b1, e1, _, c1, l1⟩ := block_name_invertible hconv h hl hc
  obtain ⟨b2, e2, _, c2, l2⟩ := block_name_invertible hconv h hl' hc'
  rw [h1] at e1; rw [h2] at e2
  cases e1; cases e2
  exact ⟨by simpa using l1.symm.trans l2, by simpa using c1.symm.trans c2⟩

example : blockName 0 [' ', '7'] [' ', 'a', 'b'] = .ok [' ', 'a', 'b', ' ', '7'] := by decide
example : blockName 2 ['a', 't'] [' ', ' ', '0'] = .ok ['a', 't', ' ', ' ', '0'] := by decide
-- outside the generated names the inverse fails: the digit-blank-digit quirk
example : blockName 0 [' ', '5'] ['a', 'b', '1'] = .ok ['a', 'b', '1', '0', '5'] := by decide

/-- **Any** geometry (not only rectangular ones) whose layer and column names are distinct names
    of the generators — whatever its surface and for the 3 atmosphere types: `setup_block_name_index`
    yields a duplicate-free list of five-character block names whose parts are the layer and the
    column (or atmosphere column) they were built from. -/
theorem block_name_list_distinct {conv : Nat} (hconv : conv < 4) (atmos : Nat) {chars : Str} {spaces : Bool}
    (h : AlphabetOK chars spaces) {top : Str} {below cols : List Str} (present : Nat → Nat → Bool)
    (hl : ∀ l ∈ top :: below, IsLayerName conv chars spaces l) (hc : ∀ c ∈ cols, IsColumnName conv chars spaces c)
    (hln : (top :: below).Nodup) (hcn : cols.Nodup) :
    ∃ (blocks : List Str) (pairs : List (Str × Str)), blockNameList conv atmos (top :: below) cols present = .ok blocks ∧ blocks.Nodup ∧
      blocks = pairs.map (fun p : Str × Str => rawBlockName conv p.1 p.2) ∧
      ∀ p ∈ pairs, p.1 ∈ top :: below ∧ (p.2 ∈ cols ∨ p.2 = atmosphereColumnName conv) ∧
        (rawBlockName conv p.1 p.2).length = 5 ∧
        columnName conv (rawBlockName conv p.1 p.2) = some p.2 ∧ layerName conv (rawBlockName conv p.1 p.2) = some p.1 := by
  have hls : ∀ l ∈ top :: below, LaySafe conv l := by
    intro l hl'
    rcases hl l hl' with ⟨k, left, hk⟩ | rfl
    · exact layer_safe hconv h hk
    · exact surfaceLayerName_safe hconv
  have hcs : ∀ c ∈ cols, ColSafe conv c := by
    intro c hc'
    rcases hc c hc' with ⟨k, left, hk⟩ | rfl
    · exact column_safe hconv h hk
    · exact atmosphereColumnName_safe hconv
  obtain ⟨b1, b2, b3⟩ := blockNameList_spec hconv atmos present hls hcs hln hcn
  refine ⟨_, _, b1, b2, rfl, ?_⟩
  intro p hp
  obtain ⟨p1, p2, p3, p4⟩ := b3 p hp
  have := blockName_inv hconv p3 p4
  exact ⟨p1, p2, this.2.1, this.2.2.1, this.2.2.2⟩

/-! ## every rectangular geometry has distinct, well-formed names -/

/-- Node, column and layer names of `rectangular(…)` (any block counts, the 4 conventions, left or
    right justified, `case` None / lower / upper, spaces allowed or not) are duplicate-free, of the
    convention's length, as many as requested. -/
theorem rectangular_names_distinct {conv : Nat} (hconv : conv < 4) (nx ny nz atmos : Nat) (left : Bool)
    (case : Option Bool) {chars : Str} {spaces : Bool} (present : Nat → Nat → Bool)
    (h : AlphabetOK (uniqstring (applyCase case chars)) spaces) (r : RectNames)
    (hr : rectangular nx ny nz conv atmos left case chars spaces present = .ok r) :
    r.nodes.length = (nx + 1) * (ny + 1) ∧ r.cols.length = nx * ny ∧ r.layers.length = nz + 1 ∧
    r.nodes.Nodup ∧ r.cols.Nodup ∧ r.layers.Nodup ∧
    (∀ x ∈ r.nodes, x.length = colnameLength conv) ∧ (∀ x ∈ r.cols, x.length = colnameLength conv) ∧
    (∀ x ∈ r.layers, x.length = layernameLength conv) := by
  have s := (rectangular_spec hconv nx ny nz atmos left case present h).1 r hr
  exact ⟨s.nNodes, s.nCols, s.nLayers, s.nodesNodup, s.colsNodup, s.layersNodup, s.nodeLen, s.colLen, s.layerLen⟩

/-- `block_name_list` of every rectangular geometry — the 3 atmosphere types, and **any surface**
    (`present l c` says whether column `c` reaches into layer `l`) — has no duplicates; every entry
    has five characters and its column / layer parts are the column (or the atmosphere column) and
    the layer it was built from. -/
theorem rectangular_block_names_distinct {conv : Nat} (hconv : conv < 4) (nx ny nz atmos : Nat) (left : Bool)
    (case : Option Bool) {chars : Str} {spaces : Bool} (present : Nat → Nat → Bool)
    (h : AlphabetOK (uniqstring (applyCase case chars)) spaces) (r : RectNames)
    (hr : rectangular nx ny nz conv atmos left case chars spaces present = .ok r) :
    r.blocks.Nodup ∧
    ∃ pairs : List (Str × Str), r.blocks = pairs.map (fun p => rawBlockName conv p.1 p.2) ∧
      ∀ p ∈ pairs, p.1 ∈ r.layers ∧ (p.2 ∈ r.cols ∨ p.2 = atmosphereColumnName conv) ∧
        (rawBlockName conv p.1 p.2).length = 5 ∧
        columnName conv (rawBlockName conv p.1 p.2) = some p.2 ∧ layerName conv (rawBlockName conv p.1 p.2) = some p.1 := by
  have s := (rectangular_spec hconv nx ny nz atmos left case present h).1 r hr
  exact ⟨s.blocksNodup, s.blocks⟩

/-- `rectangular` fails only with `NamingConventionError`, and exactly when a name space is
    exhausted: it succeeds when the `(nx+1)(ny+1)` nodes and `nz + 1` layer numbers are within
    capacity, and a geometry that is returned is within the column and layer capacities. -/
theorem rectangular_error_is_naming {conv : Nat} (hconv : conv < 4) (nx ny nz atmos : Nat) (left : Bool)
    (case : Option Bool) {chars : Str} {spaces : Bool} (present : Nat → Nat → Bool)
    (h : AlphabetOK (uniqstring (applyCase case chars)) spaces) :
    (∀ e, rectangular nx ny nz conv atmos left case chars spaces present = .error e → e = .naming) ∧
    ((nx + 1) * (ny + 1) ≤ columnCapacity conv (uniqstring (applyCase case chars)).length spaces →
      nz + 1 ≤ layerCapacity conv (uniqstring (applyCase case chars)).length spaces →
      ∃ r, rectangular nx ny nz conv atmos left case chars spaces present = .ok r) ∧
    (∀ r, rectangular nx ny nz conv atmos left case chars spaces present = .ok r →
      (nx + 1) * (ny + 1) ≤ columnCapacity conv (uniqstring (applyCase case chars)).length spaces ∧
      nz ≤ layerCapacity conv (uniqstring (applyCase case chars)).length spaces) := by
  obtain ⟨s1, s2, s3⟩ := rectangular_spec hconv nx ny nz atmos left case present h
  exact ⟨s2, s3, fun r hr => ⟨(s1 r hr).withinCols, (s1 r hr).withinLayers⟩⟩

/-- letters stay letters under `case`, so the hypothesis is met by any alphabetic `chars` -/
theorem rectangular_alphabet (case : Option Bool) {chars : Str} {spaces : Bool}
    (hclean : ∀ c ∈ chars, c ≠ ' ' ∧ isDigit c = false)
    (hsize : if spaces = true then 1 ≤ (uniqstring (applyCase case chars)).length
             else 2 ≤ (uniqstring (applyCase case chars)).length) :
    AlphabetOK (uniqstring (applyCase case chars)) spaces :=
  alphabetOK_uniqstring (applyCase_clean case hclean) hsize

example : (rectangular 2 1 2 0 0 false (some false) Gen.Conventions.defaultChars true).map (·.blocks) =
    .ok [['A','T','M',' ','0'], [' ',' ','A',' ','1'], [' ',' ','B',' ','1'], [' ',' ','A',' ','2'], [' ',' ','B',' ','2']] := by
  decide
example : AlphabetOK (uniqstring (applyCase (some false) Gen.Conventions.defaultChars)) true :=
  rectangular_alphabet _ (by decide) (by decide)
example : rectangular 49 1 1 1 0 false none Gen.Conventions.defaultChars true = .error .naming := by decide

/-! ## the blank-in-fourth-column quirk: `fix_blockname`, `unfix_blockname` -/

/-- Repairing is idempotent — for **all** five-character names (in particular over letters, digits and blanks). -/
theorem fix_idempotent (n : Str) (hn : n.length = 5) :
    ∃ m, fixBlockname n = .ok m ∧ fixBlockname m = .ok m ∧ m.length = 5 := by
  obtain ⟨a, b, c, d, e, rfl⟩ := len5 hn
  exact fix_idem5 a b c d e

/-- Un-repairing returns exactly the name as the simulator prints it. -/
theorem unfix_is_simulator_form (n : Str) (hn : n.length = 5) : unfixBlockname n = simForm n := by
  obtain ⟨a, b, c, d, e, rfl⟩ := len5 hn
  exact unfix_simForm5 a b c d e

/-- One write (`unfix`) then read (`fix`) cycle of any name reaches a form that further cycles leave unchanged. -/
theorem name_cycle_stabilises (n : Str) (hn : n.length = 5) :
    ∃ c1, fixBlockname (unfixBlockname n) = .ok c1 ∧ c1.length = 5 ∧ fixBlockname (unfixBlockname c1) = .ok c1 := by
  obtain ⟨a, b, c, d, e, rfl⟩ := len5 hn
  obtain ⟨c1, h1, h2, h3, _⟩ := cycle5 a b c d e
  exact ⟨c1, h1, h2, h3⟩

/-- … and the written text itself is already stable: writing what was read back gives the same text. -/
theorem unfix_cycle_stabilises (n : Str) (hn : n.length = 5) :
    ∃ c1, fixBlockname (unfixBlockname n) = .ok c1 ∧ unfixBlockname c1 = unfixBlockname n := by
  obtain ⟨a, b, c, d, e, rfl⟩ := len5 hn
  obtain ⟨c1, h1, _, _, h4⟩ := cycle5 a b c d e
  exact ⟨c1, h1, h4⟩

example : fixBlockname "ab1 5".toList = .ok "ab105".toList := by decide
example : unfixBlockname "ab105".toList = "ab1 5".toList ∧ simForm "ab105".toList = "ab1 5".toList := by decide
example : unfixBlockname "abc05".toList = "abc 5".toList ∧ fixBlockname "abc 5".toList = .ok "abc 5".toList := by decide
example : unfixBlockname "  a12".toList = "  a12".toList := by decide

end Props.C17
