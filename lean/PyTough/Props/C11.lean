/-
  C11 — Refining or decomposing columns conserves area and volume and tiles the domain.

  Property theorems about the subdivision code of `/repo/mulgrids.py`:
  the tables are `Gen/RefineTables.lean` (regenerated from the source on every run, so every
  `decide` below is re-run against what the code says now); the decision function, the vertex
  resolution and `subdivide/triangulate/decompose/split` are `Model/Refine.lean`; the
  whole-geometry operations are `Model/GeoOps.lean`.

  Reading guide.  A parent column has `nn` nodes, `corner 0 … corner (nn-1)`, counter-clockwise.
  `sides` is the ascending list of its refined sides (side `i` joins corner `i` and corner
  `(i+1) % nn`), exactly the list `refined_sides` that `refine` builds.  A valuation `ρ : Val`
  gives every corner an arbitrary position and the centre node an arbitrary position; mid-side
  nodes sit at `0.5 * (a + b)` as `create_mid_node` puts them.  `area2 ρ p` is twice the signed
  shoelace area of the sub-column `p`.
-/
import PyTough.Model.Refine
import PyTough.Proofs.Refine
import PyTough.Proofs.RefineLayers
import PyTough.Proofs.RefineTriangle
namespace Props.C11
open Model.Geo Model.Refine Gen.RefineTables Proofs.Refine

/-! ### the model of `transition_type` IS the function in the source (whole finite domain) -/

/-- the hand-written `transitionType` returns, on every (nn, sides) of the domain, what the nested
    Python function `transition_type` of the current source returns (tabulated by the translator) -/
theorem transition_type_matches_source :
    ∀ e ∈ transitionTypeTable, transitionType e.1.1 e.1.2 = e.2 := by decide

/-- …and the tabulated domain is every ascending side list of 3- and 4-sided columns -/
theorem transition_table_covers_domain :
    ∀ nn ∈ [3, 4], ∀ s ∈ sublists (List.range nn), (nn, s) ∈ transitionTypeTable.map (·.1) := by decide

theorem centre_condition_matches_source :
    ∀ e ∈ centreNodeTable, needsCentre e.1.1 e.1.2.1 e.1.2.2 = e.2 := by decide

/-! ### every non-empty set of refined sides has a table entry -/

/-- `transition_type` yields a key that is present in `transition_column[nn]`: for a 3- or 4-sided
    column with at least one refined side, `refine` never hits the `print('Error …')` branch nor a
    `KeyError`. -/
theorem transition_type_total (nn : Nat) (hnn : nn = 3 ∨ nn = 4) (sides : List Nat)
    (hs : sides.Sublist (List.range nn)) (hne : sides ≠ []) :
    ∃ subs, subdivision nn sides = some subs := by
  have key : ∀ nn ∈ [3, 4], ∀ s ∈ sublists (List.range nn), s ≠ [] → (subdivision nn s).isSome = true := by
    decide
  have := key nn (by rcases hnn with rfl | rfl <;> simp) sides (mem_sublists.mpr hs) hne
  exact Option.isSome_iff_exists.mp this

/-- the empty set of refined sides is the one case without an entry (the code then fails on
    unpacking `None`): characterised, not hidden -/
theorem transition_type_empty (nn : Nat) (hnn : nn = 3 ∨ nn = 4) : subdivision nn [] = none := by
  rcases hnn with rfl | rfl <;> decide

/-- the returned triple means what its name says: the table entry, rotated by `istart`, refines
    exactly the sides in `sides` (a mid-side node is used only on a refined side, so the
    `sidenodes[...]` lookup cannot fail), uses only corners of the parent, and refers to the centre
    node only when `refine` creates one -/
theorem subdivision_uses_existing_nodes (nn : Nat) (hnn : nn = 3 ∨ nn = 4) (sides : List Nat)
    (hs : sides.Sublist (List.range nn)) (hne : sides ≠ []) (subs : List Poly)
    (h : subdivision nn sides = some subs) :
    vertsAvailable nn sides (subdivisionCentre nn sides) subs = true := by
  have key : ∀ nn ∈ [3, 4], ∀ s ∈ sublists (List.range nn), s ≠ [] →
      (match subdivision nn s with
       | some subs => vertsAvailable nn s (subdivisionCentre nn s) subs
       | none => false) = true := by decide
  have := key nn (by rcases hnn with rfl | rfl <;> simp) sides (mem_sublists.mpr hs) hne
  rw [h] at this
  exact this

/-! ### the sub-columns tile the parent: boundary identity -/

/-- For every table entry reachable from `transition_type` and every rotation: the directed edges
    of the listed sub-columns, after cancelling each interior edge against its reverse, are
    exactly the parent's boundary in which precisely the refined sides are split at their
    mid-side node.  (`decide` over the whole generated table: 7 + 15 side sets.) -/
theorem subdivision_boundary_identity (nn : Nat) (hnn : nn = 3 ∨ nn = 4) (sides : List Nat)
    (hs : sides.Sublist (List.range nn)) (hne : sides ≠ []) (subs : List Poly)
    (h : subdivision nn sides = some subs) :
    boundaryOK nn sides subs = true := by
  have key : ∀ nn ∈ [3, 4], ∀ s ∈ sublists (List.range nn), s ≠ [] →
      (match subdivision nn s with
       | some subs => boundaryOK nn s subs
       | none => false) = true := by decide
  have := key nn (by rcases hnn with rfl | rfl <;> simp) sides (mem_sublists.mpr hs) hne
  rw [h] at this
  exact this

/-! ### area is additive over any family satisfying the boundary identity -/

/-- For ALL corner positions and ANY position of the centre node (`ρ` is arbitrary): if the
    sub-columns' edges cancel to the refined boundary, their signed areas add up to the parent's. -/
theorem area_additive_over_chain (ρ : Val) (nn : Nat) (sides : List Nat) (subs : List Poly)
    (h : boundaryOK nn sides subs = true) :
    sumRat (subs.map (area2 ρ)) = area2 ρ (parentPoly nn) := by
  rw [sum_area2_of_boundary ρ subs _ h, esum_refBoundary_parent]

/-- `refine` conserves the area of every column it replaces, for all coordinates -/
theorem refine_column_conserves_area (ρ : Val) (nn : Nat) (hnn : nn = 3 ∨ nn = 4) (sides : List Nat)
    (hs : sides.Sublist (List.range nn)) (hne : sides ≠ []) (subs : List Poly)
    (h : subdivision nn sides = some subs) :
    sumRat (subs.map (area2 ρ)) = area2 ρ (parentPoly nn) :=
  area_additive_over_chain ρ nn sides subs (subdivision_boundary_identity nn hnn sides hs hne subs h)

-- non-vacuity: a quadrilateral with two adjacent refined sides (the case with a centre node)
example : subdivision 4 [0, 3] = some
    [[.corner 3, .mid 0 3, .centre], [.mid 0 3, .corner 0, .mid 0 1, .centre], [.mid 0 1, .corner 1, .centre],
     [.corner 1, .corner 2, .centre], [.corner 3, .centre, .corner 2]] := by decide
example : [0, 3].Sublist (List.range 4) := by decide

/-! ### `decompose_column`, `triangulate_column`, `split_column` -/

/-- each special case of `decompose_column`, for every starting node, tiles the parent (no side is
    split; the centre node may be anywhere) -/
theorem decompose_cases_boundary_identity :
    ∀ c ∈ decomposeCases, ∀ i0 ∈ List.range c.nn,
      boundaryOK c.nn [] (subdivide c.nn i0 c.polys) = true ∧
      vertsAvailable c.nn [] true (subdivide c.nn i0 c.polys) = true := by decide

theorem decompose_cases_conserve_area (ρ : Val) (c : DecompCase) (hc : c ∈ decomposeCases) (i0 : Nat)
    (hi : i0 < c.nn) :
    sumRat ((subdivide c.nn i0 c.polys).map (area2 ρ)) = area2 ρ (parentPoly c.nn) :=
  area_additive_over_chain ρ c.nn [] _
    (decompose_cases_boundary_identity c hc i0 (List.mem_range.mpr hi)).1

/-- `triangulate_column` about a centre node placed anywhere, for a column with ANY number of sides -/
theorem triangulate_conserves_area (ρ : Val) (n : Nat) :
    sumRat ((triangulate n).map (area2 ρ)) = area2 ρ (parentPoly n) :=
  triangulate_area ρ n

/-- `decompose_column`, whichever branch fires (special case or triangulation), for any list of
    straight nodes: the new columns' signed areas add up to the old column's -/
theorem decompose_conserves_area (ρ : Val) (nn : Nat) (straight : List Nat)
    (hst : ∀ s ∈ straight, s < nn) (polys : List Poly)
    (h : decompose nn straight = some (.ok polys)) :
    sumRat (polys.map (area2 ρ)) = area2 ρ (parentPoly nn) := by
  unfold decompose at h
  split at h
  · cases h
  · rename_i h4
    have hpos : 0 < nn := by omega
    have hfirst : straight.getD 0 0 < nn := by
      cases straight with
      | nil => simpa using hpos
      | cons a t => simpa using hst a (by simp)
    split at h
    · simp only at h
      split at h
      · cases h; exact triangulate_area ρ nn
      · split at h
        · cases h; exact triangulate_area ρ nn
        · rename_i c hc
          have hmem := List.mem_of_find?_eq_some hc
          have hc' := (List.mem_filter.mp hmem)
          have hnn : c.nn = nn := by simpa using (of_decide_eq_true hc'.2).1
          split at h
          · cases h
            have := decompose_cases_conserve_area ρ c hc'.1 (straight.getD 0 0) (by rw [hnn]; exact hfirst)
            rwa [hnn] at this
          · split at h
            · cases h
            · rename_i s hs
              cases h
              have hsm : s ∈ straight := by
                have := List.mem_of_mem_head? hs
                exact (List.mem_filter.mp this).1
              have := decompose_cases_conserve_area ρ c hc'.1 s (by rw [hnn]; exact hst s hsm)
              rwa [hnn] at this
    · cases h; exact triangulate_area ρ nn

/-- `split_column` at any of the four nodes: the shortened old column and the new triangle tile the
    quadrilateral -/
theorem split_column_boundary_identity :
    ∀ i0 ∈ List.range 4, boundaryOK 4 [] [splitOld i0, splitNewPoly i0] = true := by decide

theorem split_column_conserves_area (ρ : Val) (i0 : Nat) (hi : i0 < 4) :
    area2 ρ (splitOld i0) + area2 ρ (splitNewPoly i0) = area2 ρ (parentPoly 4) := by
  have := area_additive_over_chain ρ 4 [] _ (split_column_boundary_identity i0 (List.mem_range.mpr hi))
  simp only [List.map_cons, List.map_nil, sumRat_cons, sumRat_nil] at this
  rw [← this]; grind

/-! ### the sub-columns of a refined triangle are positive fractions of it -/

/-- For a TRIANGULAR parent and every non-empty set of refined sides: each sub-column `refine` creates is a fixed
    positive fraction `c` of the parent (1/2, 1/4 or 3/4), for ALL corner coordinates — so every sub-column of a
    counter-clockwise triangle is counter-clockwise with positive area, none overlaps another (their areas add up
    to the parent's, `refine_column_conserves_area`).  Certificate: barycentric coordinates of the vertices, checked
    over the whole generated table by `decide`.  (For quadrilateral parents the fractions depend on the shape and on
    the centre node; positivity there needs convexity and is NOT proved — oracle only.) -/
theorem triangle_subcolumns_positive (sides : List Nat) (hs : sides.Sublist (List.range 3)) (hne : sides ≠ [])
    (subs : List Poly) (h : subdivision 3 sides = some subs) (p : Poly) (hp : p ∈ subs) :
    ∃ c : Rat, 0 < c ∧ ∀ ρ : Val, area2 ρ p = c * area2 ρ (parentPoly 3) :=
  triangle_subcolumns_fraction sides hs hne subs h p hp

example : triFraction [.corner 0, .mid 0 1, .mid 1 2, .corner 2] = some (3/4) := by decide +kernel

/-! ### `refine_layers` -/

/-- each refined layer is replaced by `factor` layers whose thicknesses add up to its own -/
theorem refine_layers_piece_sum (t : Rat) (factor : Nat) (hf : factor ≠ 0) :
    sumRat (List.replicate factor (t / factor)) = t := refined_piece_sum t factor hf

/-- the thickness list `refine_layers` hands to `add_layers` (selected layers split into `factor` equal parts,
    the others kept) has the same total as the old stack, for every selection and every factor ≥ 1: the
    bottom of the lowest layer, hence every column's rock thickness, does not move -/
theorem refine_layers_conserves_thickness (ts : List (Rat × Bool)) (factor : Nat) (hf : factor ≠ 0) :
    sumRat (Geo.refinedThicknesses ts factor) = sumRat (ts.map (·.1)) := refinedThicknesses_sum ts factor hf

example : Geo.refinedThicknesses [(2, true), (5, false), (3, true)] 3 = [2/3, 2/3, 2/3, 5, 1, 1, 1] := by
  decide +kernel

end Props.C11
