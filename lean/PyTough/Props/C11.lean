/-
  C11 — Refining or decomposing columns conserves area and volume and tiles the domain.

  Property theorems about the subdivision code of `/repo/mulgrids.py`:
  the tables are `Gen/RefineTables.lean` (regenerated from the source on every run, so every
  `decide` below is re-run against what the code says now); the decision function, the vertex
  resolution and `subdivide/triangulate/decompose/split` are `Model/Refine.lean`; the
  whole-geometry operations are `Model/GeoOps.lean`.

  Reading guide.  A parent column has `nn` nodes, `corner 0 … corner (nn-1)`, counter-clockwise.
  `sides` is the ascending list of its refined sides (side `i` joins corner `i` and corner
  `(i+1) % nn`), exactly the list `refined_sides` that `refine` builds.  A valuation `ρ : Val`
  gives every corner an arbitrary position and the centre node an arbitrary position; mid-side
  nodes sit at `0.5 * (a + b)` as `create_mid_node` puts them.  `area2 ρ p` is twice the signed
  shoelace area of the sub-column `p`.
-/
import PyTough.Model.Refine
import PyTough.Proofs.Refine
import PyTough.Proofs.RefineLayers
import PyTough.Proofs.RefineTriangle
import PyTough.Proofs.RefineMoreConform
namespace Props.C11
open Model.Geo Model.Refine Gen.RefineTables Proofs.Refine Proofs.RefineMore

/-! ### the model of `transition_type` IS the function in the source (whole finite domain) -/

/-- the hand-written `transitionType` returns, on every (nn, sides) of the domain, what the nested
    Python function `transition_type` of the current source returns (tabulated by the translator) -/
theorem transition_type_matches_source :
    ∀ e ∈ transitionTypeTable, transitionType e.1.1 e.1.2 = e.2 := by decide

/-- …and the tabulated domain is every ascending side list of 3- and 4-sided columns -/
theorem transition_table_covers_domain :
    ∀ nn ∈ [3, 4], ∀ s ∈ sublists (List.range nn), (nn, s) ∈ transitionTypeTable.map (·.1) := by decide

theorem centre_condition_matches_source :
    ∀ e ∈ centreNodeTable, needsCentre e.1.1 e.1.2.1 e.1.2.2 = e.2 := by decide

/-! ### every non-empty set of refined sides has a table entry -/

/-- `transition_type` yields a key that is present in `transition_column[nn]`: for a 3- or 4-sided
    column with at least one refined side, `refine` never hits the `print('Error …')` branch nor a
    `KeyError`. -/
theorem transition_type_total (nn : Nat) (hnn : nn = 3 ∨ nn = 4) (sides : List Nat)
    (hs : sides.Sublist (List.range nn)) (hne : sides ≠ []) :
    ∃ subs, subdivision nn sides = some subs := by
  have key : ∀ nn ∈ [3, 4], ∀ s ∈ sublists (List.range nn), s ≠ [] → (subdivision nn s).isSome = true := by
    decide
  have := key nn (by rcases hnn with rfl | rfl <;> simp) sides (mem_sublists.mpr hs) hne
  exact Option.isSome_iff_exists.mp this

/-- the empty set of refined sides is the one case without an entry (the code then fails on
    unpacking `None`): characterised, not hidden -/
theorem transition_type_empty (nn : Nat) (hnn : nn = 3 ∨ nn = 4) : subdivision nn [] = none := by
  rcases hnn with rfl | rfl <;> decide

/-- the returned triple means what its name says: the table entry, rotated by `istart`, refines
    exactly the sides in `sides` (a mid-side node is used only on a refined side, so the
    `sidenodes[...]` lookup cannot fail), uses only corners of the parent, and refers to the centre
    node only when `refine` creates one -/
theorem subdivision_uses_existing_nodes (nn : Nat) (hnn : nn = 3 ∨ nn = 4) (sides : List Nat)
    (hs : sides.Sublist (List.range nn)) (hne : sides ≠ []) (subs : List Poly)
    (h : subdivision nn sides = some subs) :
    vertsAvailable nn sides (subdivisionCentre nn sides) subs = true := by
  have key : ∀ nn ∈ [3, 4], ∀ s ∈ sublists (List.range nn), s ≠ [] →
      (match subdivision nn s with
       | some subs => vertsAvailable nn s (subdivisionCentre nn s) subs
       | none => false) = true := by decide
  have := key nn (by rcases hnn with rfl | rfl <;> simp) sides (mem_sublists.mpr hs) hne
  rw [h] at this
  exact this

/-! ### the sub-columns tile the parent: boundary identity -/

/-- For every table entry reachable from `transition_type` and every rotation: the directed edges
    of the listed sub-columns, after cancelling each interior edge against its reverse, are
    exactly the parent's boundary in which precisely the refined sides are split at their
    mid-side node.  (`decide` over the whole generated table: 7 + 15 side sets.) -/
theorem subdivision_boundary_identity (nn : Nat) (hnn : nn = 3 ∨ nn = 4) (sides : List Nat)
    (hs : sides.Sublist (List.range nn)) (hne : sides ≠ []) (subs : List Poly)
    (h : subdivision nn sides = some subs) :
    boundaryOK nn sides subs = true := by
  have key : ∀ nn ∈ [3, 4], ∀ s ∈ sublists (List.range nn), s ≠ [] →
      (match subdivision nn s with
       | some subs => boundaryOK nn s subs
       | none => false) = true := by decide
  have := key nn (by rcases hnn with rfl | rfl <;> simp) sides (mem_sublists.mpr hs) hne
  rw [h] at this
  exact this

/-! ### conformity: the sub-columns fit together edge to edge (no overlap along an edge, no gap, no hanging node)

  `polyEdges subs` is the list of all directed edges `(a, b)` of all sub-columns (each sub-column
  traversed in its stored, counter-clockwise node order); `refBoundary nn sides` the directed
  boundary of the parent with exactly the refined sides split at their mid-side node. -/

/-- For every set of refined sides of a 3- or 4-sided column (every `transition_column` entry, every
    rotation), the sub-columns `refine` builds are CONFORMING:
    1. no directed edge is used twice (two sub-columns never lie on the same side of an edge);
    2. no sub-column runs along an edge and back;
    3. every directed edge of a sub-column is EITHER an edge of the refined parent boundary, and then
       no sub-column has the opposite edge, OR an interior edge, and then the opposite edge belongs
       to a sub-column (pairwise cancellation in the interior);
    4. every edge of the refined parent boundary belongs to a sub-column (nothing of the boundary
       is left out, every refined side appears as its two halves);
    5. no refined side is used unsplit, in either direction, by a sub-column — the mid-side node
       (shared with the neighbouring column) never hangs inside a sub-column edge.
    (`decide +kernel` over the whole generated table.) -/
theorem subdivision_conforming (nn : Nat) (hnn : nn = 3 ∨ nn = 4) (sides : List Nat)
    (hs : sides.Sublist (List.range nn)) (hne : sides ≠ []) (subs : List Poly)
    (h : subdivision nn sides = some subs) :
    (polyEdges subs).Nodup ∧
    (∀ p ∈ subs, ∀ e ∈ cyc p, (e.2, e.1) ∉ cyc p) ∧
    (∀ e ∈ polyEdges subs,
        (e ∈ refBoundary nn sides ∧ (e.2, e.1) ∉ polyEdges subs) ∨
        (e ∉ refBoundary nn sides ∧ (e.2, e.1) ∈ polyEdges subs)) ∧
    (∀ e ∈ refBoundary nn sides, e ∈ polyEdges subs) ∧
    (∀ i ∈ sides, (Vert.corner i, Vert.corner ((i + 1) % nn)) ∉ polyEdges subs ∧
                  (Vert.corner ((i + 1) % nn), Vert.corner i) ∉ polyEdges subs) :=
  (transition_table_conform nn (by rcases hnn with rfl | rfl <;> simp) sides (mem_sublists.mpr hs) hne subs
    (by rw [h]; simp)).1

/-- the same as ONE multiset identity on directed edges: the edges of all sub-columns are a
    rearrangement of the refined parent boundary, a list `I` of interior edges, and the reverses of `I` -/
theorem subdivision_edge_multiset (nn : Nat) (hnn : nn = 3 ∨ nn = 4) (sides : List Nat)
    (hs : sides.Sublist (List.range nn)) (hne : sides ≠ []) (subs : List Poly)
    (h : subdivision nn sides = some subs) :
    ∃ I : List Edge, (polyEdges subs).Perm (refBoundary nn sides ++ I ++ I.map fun e => (e.2, e.1)) :=
  ⟨pairedHalf (polyEdges subs), List.isPerm_iff.mp
    (transition_table_conform nn (by rcases hnn with rfl | rfl <;> simp) sides (mem_sublists.mpr hs) hne subs
      (by rw [h]; simp)).2⟩

/-- sub-columns meet along FULL edges: an edge `(a, b)` of a sub-column `p` that is not part of the
    refined parent boundary is the edge `(b, a)` of exactly one sub-column `q`, and `q ≠ p`.  Both
    have the same two end nodes, so no node of one lies inside an edge of the other. -/
theorem subcolumns_share_full_edges (nn : Nat) (hnn : nn = 3 ∨ nn = 4) (sides : List Nat)
    (hs : sides.Sublist (List.range nn)) (hne : sides ≠ []) (subs : List Poly)
    (h : subdivision nn sides = some subs) (p : Poly) (hp : p ∈ subs) (e : Edge) (he : e ∈ cyc p)
    (hb : e ∉ refBoundary nn sides) :
    ∃ q ∈ subs, q ≠ p ∧ (e.2, e.1) ∈ cyc q ∧ ∀ q' ∈ subs, (e.2, e.1) ∈ cyc q' → q' = q :=
  conform_shared_edge (subdivision_conforming nn hnn sides hs hne subs h) p hp e he hb

/-- every edge of the refined parent boundary (each half of a refined side, each unrefined side)
    belongs to exactly one sub-column, and no sub-column has it reversed -/
theorem boundary_edge_in_exactly_one_subcolumn (nn : Nat) (hnn : nn = 3 ∨ nn = 4) (sides : List Nat)
    (hs : sides.Sublist (List.range nn)) (hne : sides ≠ []) (subs : List Poly)
    (h : subdivision nn sides = some subs) (e : Edge) (he : e ∈ refBoundary nn sides) :
    (∃ p ∈ subs, e ∈ cyc p ∧ ∀ p' ∈ subs, e ∈ cyc p' → p' = p) ∧ ∀ q ∈ subs, (e.2, e.1) ∉ cyc q :=
  conform_boundary_edge (subdivision_conforming nn hnn sides hs hne subs h) e he

-- non-vacuity: in the quadrilateral with sides 0 and 3 refined, the interior edge (mid 0 3 → centre) of
-- the first sub-column is the edge (centre → mid 0 3) of the second
example : ((Vert.mid 0 3, Vert.centre) : Edge) ∈ cyc [Vert.corner 3, .mid 0 3, .centre] ∧
    (Vert.mid 0 3, Vert.centre) ∉ refBoundary 4 [0, 3] ∧
    (Vert.centre, Vert.mid 0 3) ∈ cyc [Vert.mid 0 3, .corner 0, .mid 0 1, .centre] := by decide
example : ((Vert.corner 3, Vert.mid 0 3) : Edge) ∈ refBoundary 4 [0, 3] := by decide

/-! ### area is additive over any family satisfying the boundary identity -/

/-- For ALL corner positions and ANY position of the centre node (`ρ` is arbitrary): if the
    sub-columns' edges cancel to the refined boundary, their signed areas add up to the parent's. -/
theorem area_additive_over_chain (ρ : Val) (nn : Nat) (sides : List Nat) (subs : List Poly)
    (h : boundaryOK nn sides subs = true) :
    sumRat (subs.map (area2 ρ)) = area2 ρ (parentPoly nn) := by
  rw [sum_area2_of_boundary ρ subs _ h, esum_refBoundary_parent]

/-- `refine` conserves the area of every column it replaces, for all coordinates -/
theorem refine_column_conserves_area (ρ : Val) (nn : Nat) (hnn : nn = 3 ∨ nn = 4) (sides : List Nat)
    (hs : sides.Sublist (List.range nn)) (hne : sides ≠ []) (subs : List Poly)
    (h : subdivision nn sides = some subs) :
    sumRat (subs.map (area2 ρ)) = area2 ρ (parentPoly nn) :=
  area_additive_over_chain ρ nn sides subs (subdivision_boundary_identity nn hnn sides hs hne subs h)

-- non-vacuity: a quadrilateral with two adjacent refined sides (the case with a centre node)
example : subdivision 4 [0, 3] = some
    [[.corner 3, .mid 0 3, .centre], [.mid 0 3, .corner 0, .mid 0 1, .centre], [.mid 0 1, .corner 1, .centre],
     [.corner 1, .corner 2, .centre], [.corner 3, .centre, .corner 2]] := by decide
example : [0, 3].Sublist (List.range 4) := by decide

/-! ### `decompose_column`, `triangulate_column`, `split_column` -/

/-- each special case of `decompose_column`, for every starting node, tiles the parent (no side is
    split; the centre node may be anywhere) -/
theorem decompose_cases_boundary_identity :
    ∀ c ∈ decomposeCases, ∀ i0 ∈ List.range c.nn,
      boundaryOK c.nn [] (subdivide c.nn i0 c.polys) = true ∧
      vertsAvailable c.nn [] true (subdivide c.nn i0 c.polys) = true := by decide

theorem decompose_cases_conserve_area (ρ : Val) (c : DecompCase) (hc : c ∈ decomposeCases) (i0 : Nat)
    (hi : i0 < c.nn) :
    sumRat ((subdivide c.nn i0 c.polys).map (area2 ρ)) = area2 ρ (parentPoly c.nn) :=
  area_additive_over_chain ρ c.nn [] _
    (decompose_cases_boundary_identity c hc i0 (List.mem_range.mpr hi)).1

/-- `triangulate_column` about a centre node placed anywhere, for a column with ANY number of sides -/
theorem triangulate_conserves_area (ρ : Val) (n : Nat) :
    sumRat ((triangulate n).map (area2 ρ)) = area2 ρ (parentPoly n) :=
  triangulate_area ρ n

/-- `decompose_column`, whichever branch fires (special case or triangulation), for any list of
    straight nodes: the new columns' signed areas add up to the old column's -/
theorem decompose_conserves_area (ρ : Val) (nn : Nat) (straight : List Nat)
    (hst : ∀ s ∈ straight, s < nn) (polys : List Poly)
    (h : decompose nn straight = some (.ok polys)) :
    sumRat (polys.map (area2 ρ)) = area2 ρ (parentPoly nn) := by
  unfold decompose at h
  split at h
  · cases h
  · rename_i h4
    have hpos : 0 < nn := by omega
    have hfirst : straight.getD 0 0 < nn := by
      cases straight with
      | nil => simpa using hpos
      | cons a t => simpa using hst a (by simp)
    split at h
    · simp only at h
      split at h
      · cases h; exact triangulate_area ρ nn
      · split at h
        · cases h; exact triangulate_area ρ nn
        · rename_i c hc
          have hmem := List.mem_of_find?_eq_some hc
          have hc' := (List.mem_filter.mp hmem)
          have hnn : c.nn = nn := by simpa using (of_decide_eq_true hc'.2).1
          split at h
          · cases h
            have := decompose_cases_conserve_area ρ c hc'.1 (straight.getD 0 0) (by rw [hnn]; exact hfirst)
            rwa [hnn] at this
          · split at h
            · cases h
            · rename_i s hs
              cases h
              have hsm : s ∈ straight := by
                have := List.mem_of_mem_head? hs
                exact (List.mem_filter.mp this).1
              have := decompose_cases_conserve_area ρ c hc'.1 s (by rw [hnn]; exact hst s hsm)
              rwa [hnn] at this
    · cases h; exact triangulate_area ρ nn

/-- `split_column` at any of the four nodes: the shortened old column and the new triangle tile the
    quadrilateral -/
theorem split_column_boundary_identity :
    ∀ i0 ∈ List.range 4, boundaryOK 4 [] [splitOld i0, splitNewPoly i0] = true := by decide

theorem split_column_conserves_area (ρ : Val) (i0 : Nat) (hi : i0 < 4) :
    area2 ρ (splitOld i0) + area2 ρ (splitNewPoly i0) = area2 ρ (parentPoly 4) := by
  have := area_additive_over_chain ρ 4 [] _ (split_column_boundary_identity i0 (List.mem_range.mpr hi))
  simp only [List.map_cons, List.map_nil, sumRat_cons, sumRat_nil] at this
  rw [← this]; grind

/-- the special cases of `decompose_column` (every start node) and `split_column` (every chosen
    node) are conforming in the same sense (clauses 1-4 of `subdivision_conforming`; no side is
    refined), and their edges satisfy the multiset identity -/
theorem decompose_cases_conforming (c : DecompCase) (hc : c ∈ decomposeCases) (i0 : Nat) (hi : i0 < c.nn) :
    let subs := subdivide c.nn i0 c.polys
    (polyEdges subs).Nodup ∧
    (∀ p ∈ subs, ∀ e ∈ cyc p, (e.2, e.1) ∉ cyc p) ∧
    (∀ e ∈ polyEdges subs,
        (e ∈ refBoundary c.nn [] ∧ (e.2, e.1) ∉ polyEdges subs) ∨
        (e ∉ refBoundary c.nn [] ∧ (e.2, e.1) ∈ polyEdges subs)) ∧
    (∀ e ∈ refBoundary c.nn [], e ∈ polyEdges subs) ∧
    ∃ I : List Edge, (polyEdges subs).Perm (refBoundary c.nn [] ++ I ++ I.map fun e => (e.2, e.1)) := by
  have k := decompose_table_conform c hc i0 (List.mem_range.mpr hi)
  obtain ⟨h1, h2, h3, h4, _⟩ := k.1
  exact ⟨h1, h2, h3, h4, _, List.isPerm_iff.mp k.2⟩

/-- the pieces `decompose_column` cuts a 5…8-sided column into (special cases) meet along full edges -/
theorem decompose_subcolumns_share_full_edges (c : DecompCase) (hc : c ∈ decomposeCases) (i0 : Nat)
    (hi : i0 < c.nn) (p : Poly) (hp : p ∈ subdivide c.nn i0 c.polys) (e : Edge) (he : e ∈ cyc p)
    (hb : e ∉ refBoundary c.nn []) :
    ∃ q ∈ subdivide c.nn i0 c.polys, q ≠ p ∧ (e.2, e.1) ∈ cyc q ∧
      ∀ q' ∈ subdivide c.nn i0 c.polys, (e.2, e.1) ∈ cyc q' → q' = q :=
  conform_shared_edge (decompose_table_conform c hc i0 (List.mem_range.mpr hi)).1 p hp e he hb

theorem split_column_conforming (i0 : Nat) (hi : i0 < 4) :
    let subs := [splitOld i0, splitNewPoly i0]
    (polyEdges subs).Nodup ∧
    (∀ e ∈ polyEdges subs,
        (e ∈ refBoundary 4 [] ∧ (e.2, e.1) ∉ polyEdges subs) ∨
        (e ∉ refBoundary 4 [] ∧ (e.2, e.1) ∈ polyEdges subs)) ∧
    (∀ e ∈ refBoundary 4 [], e ∈ polyEdges subs) ∧
    ∃ I : List Edge, (polyEdges subs).Perm (refBoundary 4 [] ++ I ++ I.map fun e => (e.2, e.1)) := by
  have k := split_table_conform i0 (List.mem_range.mpr hi)
  obtain ⟨h1, _, h3, h4, _⟩ := k.1
  exact ⟨h1, h3, h4, _, List.isPerm_iff.mp k.2⟩

-- non-vacuity: there are special cases, e.g. two for hexagons; the hexagon cut into two quadrilaterals shares the diagonal 3-0
example : (decomposeCases.filter fun c => c.nn = 6).length = 2 := by decide
example : ((Vert.corner 3, Vert.corner 0) : Edge) ∈ cyc [Vert.corner 0, .corner 1, .corner 2, .corner 3] ∧
    (Vert.corner 3, Vert.corner 0) ∉ refBoundary 6 [] := by decide

/-! ### the sub-columns of a refined triangle are positive fractions of it -/

/-- For a TRIANGULAR parent and every non-empty set of refined sides: each sub-column `refine` creates is a fixed
    positive fraction `c` of the parent (1/2, 1/4 or 3/4), for ALL corner coordinates — so every sub-column of a
    counter-clockwise triangle is counter-clockwise with positive area, none overlaps another (their areas add up
    to the parent's, `refine_column_conserves_area`).  Certificate: barycentric coordinates of the vertices, checked
    over the whole generated table by `decide`.  (For quadrilateral parents the fractions depend on the shape and on
    the centre node; positivity there needs convexity and is NOT proved — oracle only.) -/
theorem triangle_subcolumns_positive (sides : List Nat) (hs : sides.Sublist (List.range 3)) (hne : sides ≠ [])
    (subs : List Poly) (h : subdivision 3 sides = some subs) (p : Poly) (hp : p ∈ subs) :
    ∃ c : Rat, 0 < c ∧ ∀ ρ : Val, area2 ρ p = c * area2 ρ (parentPoly 3) :=
  triangle_subcolumns_fraction sides hs hne subs h p hp

example : triFraction [.corner 0, .mid 0 1, .mid 1 2, .corner 2] = some (3/4) := by decide +kernel

/-! ### `refine_layers` -/

/-- each refined layer is replaced by `factor` layers whose thicknesses add up to its own -/
theorem refine_layers_piece_sum (t : Rat) (factor : Nat) (hf : factor ≠ 0) :
    sumRat (List.replicate factor (t / factor)) = t := refined_piece_sum t factor hf

/-- the thickness list `refine_layers` hands to `add_layers` (selected layers split into `factor` equal parts,
    the others kept) has the same total as the old stack, for every selection and every factor ≥ 1: the
    bottom of the lowest layer, hence every column's rock thickness, does not move -/
theorem refine_layers_conserves_thickness (ts : List (Rat × Bool)) (factor : Nat) (hf : factor ≠ 0) :
    sumRat (Geo.refinedThicknesses ts factor) = sumRat (ts.map (·.1)) := refinedThicknesses_sum ts factor hf

example : Geo.refinedThicknesses [(2, true), (5, false), (3, true)] 3 = [2/3, 2/3, 2/3, 5, 1, 1, 1] := by
  decide +kernel

end Props.C11
