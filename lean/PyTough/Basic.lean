def hello := "world"
