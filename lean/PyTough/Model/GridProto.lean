/-
  Line protocol of the grid drivers (`drv_c08`, `drv_c09`): one request line carries a whole
  edit history, the reply carries the canonical dump of the public state after each operation.
  Not part of the model: parsing and printing only.

  tokens: names `x<hex>`, integers decimal, rationals `num/den`, `N` for `None`,
          lists are length-prefixed.
-/
import PyTough.Model.Grid
import PyTough.Model.GridInv
namespace Model.Grid.Proto
open Py Model.Grid

abbrev P := StateT (List String) (Except String)

def tok : P String := do
  match (← get) with
  | [] => throw "eof"
  | t :: r => set r; pure t

def pNat : P Nat := do
  let t ← tok
  match t.toNat? with
  | some n => pure n
  | none => throw s!"nat {t}"

def pInt : P Int := do
  let t ← tok
  match t.toInt? with
  | some n => pure n
  | none => throw s!"int {t}"

def pName : P Name := do
  let t ← tok
  match t.toList with
  | 'x' :: h => pure (ofHexAux h)
  | _ => throw s!"name {t}"

def ratOf (t : String) : Option Rat :=
  match t.splitOn "/" with
  | [a, b] => match a.toInt?, b.toNat? with
    | some n, some d => some (mkRat n d)
    | _, _ => none
  | _ => none

def pRat : P Rat := do
  let t ← tok
  match ratOf t with
  | some q => pure q
  | none => throw s!"rat {t}"

def pOpt {α} (p : P α) : P (Option α) := do
  match (← get) with
  | "N" :: r => set r; pure none
  | _ => some <$> p

def pList {α} (p : P α) : P (List α) := do
  let n ← pNat
  (List.range n).mapM fun _ => p

def pPay : P ConPay := do
  let dir ← pInt; let d0 ← pRat; let d1 ← pRat; let area ← pRat
  let dc ← pOpt pRat; let n1 ← pOpt pInt; let n2 ← pOpt pInt
  pure ⟨dir, d0, d1, area, dc, n1, n2⟩

def pCentre : P (Option (List Rat)) := pOpt (pList pRat)

def pSpec : P GridSpec := do
  let rocks ← pList (do let n ← pName; let t ← pNat; pure (n, t))
  let blocks ← pList (do let n ← pName; let r ← pName; let v ← pRat; let c ← pCentre; pure (n, r, v, c))
  let cons ← pList (do let i ← pNat; let j ← pNat; let p ← pPay; pure (i, j, p))
  pure ⟨rocks, blocks, cons⟩

def pOp : P Op := do
  let k ← tok
  match k with
  | "ar" => do let n ← pName; let t ← pNat; pure (.addRocktype n t)
  | "dr" => .deleteRocktype <$> pName
  | "rr" => do let a ← pName; let b ← pName; pure (.renameRocktype a b)
  | "cr" => pure .cleanRocktypes
  | "sr" => pure .sortRocktypes
  | "ab" => do let n ← pName; let r ← pName; let v ← pRat; let c ← pCentre; pure (.addBlock n r v c)
  | "db" => .deleteBlock <$> pName
  | "dm" => .demoteBlock <$> pList pName
  | "ac" => do let a ← pName; let b ← pName; let p ← pPay; pure (.addConnection a b p)
  | "dc" => do let a ← pName; let b ← pName; pure (.deleteConnection a b)
  | "ro" => do
    let bs ← pList pName
    let cs ← pList (do let a ← pName; let b ← pName; pure (a, b))
    pure (.reorder bs cs)
  | "rb" => do
    let m ← pList (do let a ← pName; let b ← pName; pure (a, b))
    let f ← pNat
    pure (.renameBlocks m (f != 0))
  | "mi" => do
    let fr ← pList pRat; let a ← pList pRat; let d ← pList pRat; let bl ← pList pName; let av ← pRat
    pure (.minc ⟨fr, a, d, bl, av⟩)
  | "ag" => do let s ← pSpec; let l ← pNat; pure (.addGrid s (l != 0))
  | "em" => do let s ← pSpec; let h ← pName; let b ← pName; let p ← pPay; pure (.embed s h b p)
  | "es" => do let s ← pSpec; let h ← pName; let b ← pName; let p ← pPay; let v ← pRat; pure (.embedStandalone s h b p v)
  | "af" => do let n ← pName; let r ← pName; let v ← pRat; let c ← pCentre; pure (.addBlockFresh n r v c)
  | "xb" => .readdBlock <$> pName
  | "xr" => .readdRocktype <$> pName
  | "xc" => do let a ← pName; let b ← pName; pure (.readdConnection a b)
  | "gb" => .againBlock <$> pName
  | _ => throw s!"op {k}"

/-! ### canonical dump -/

def hx (n : Name) : String := toHex n
def showRat (q : Rat) : String := s!"{q.num}~{q.den}"
def showOpt {α} (f : α → String) : Option α → String
  | none => "N"
  | some a => f a
def showIdx : Option Nat → String
  | none => "-1"
  | some i => toString i
def sortStr (l : List String) : List String := l.mergeSort (fun a b => !(b < a))
def ckeyStr (k : CName) : String := hx k.1 ++ "." ++ hx k.2

def dumpWorld (w : World) : String :=
  let rl := w.rocktypelist.map fun r => s!"{hx (w.rname r)}:{(w.rk r).tag}"
  let rd := sortStr (w.rocktype.map fun p => s!"{hx p.1}:{showIdx (indexOf? w.rocktypelist p.2)}")
  let bl := w.blocklist.map fun b =>
    let blk := w.bk b
    let centre := showOpt (fun l => "_".intercalate (l.map showRat)) blk.centre
    let conn := "+".intercalate (sortStr (blk.conn.map ckeyStr))
    s!"{hx blk.name}/{hx (w.rname blk.rock)}/{showIdx (indexOf? w.rocktypelist blk.rock)}/{showRat blk.volume}/{centre}/{conn}"
  let bd := sortStr (w.block.map fun p => s!"{hx p.1}:{showIdx (indexOf? w.blocklist p.2)}")
  let cl := w.connectionlist.map fun c =>
    let con := w.cn c
    s!"{ckeyStr (w.ckey c)}/{showIdx (indexOf? w.blocklist con.b0)}/{showIdx (indexOf? w.blocklist con.b1)}/{con.direction}/{showRat con.d0}/{showRat con.d1}/{showRat con.area}/{showOpt showRat con.dircos}/{showOpt toString con.nad1}/{showOpt toString con.nad2}"
  let cd := sortStr (w.connection.map fun p => s!"{ckeyStr p.1}:{showIdx (indexOf? w.connectionlist p.2)}")
  let j := fun (l : List String) => ",".intercalate l
  s!"RL={j rl};RD={j rd};BL={j bl};BD={j bd};CL={j cl};CD={j cd}"

def dumpOut (pre : String) (o : Out) : String :=
  let e := match o.exc with | none => "-" | some e => e.toString
  let x := ".".intercalate (o.ret.map fun row => ",".intercalate (row.map toString))
  s!"E={e};F={if o.flag then 1 else 0};X={x};P={pre};I={if checkInv o.w then 1 else 0};{dumpWorld o.w}"

/-- `(d|q op)*` : run the history from the given state; `d` = dump after this operation.
    `fuel` bounds the number of operations (the caller passes the number of tokens). -/
def runSeq : Nat → World → List String → List String → Except String (List String)
  | _, _, [], acc => .ok acc.reverse
  | 0, _, _, _ => .error "fuel"
  | fuel + 1, w, flag :: rest, acc =>
    match pOp.run rest with
    | .error e => .error e
    | .ok (op, rest') =>
      let pre := preClass w op
      let o := step w op
      if flag == "d" then runSeq fuel o.w rest' (dumpOut pre o :: acc) else runSeq fuel o.w rest' acc

/-- request handler shared by `drv_c08` and `drv_c09` -/
def handle : List String → String
  | "seq" :: toks =>
    match runSeq toks.length World.empty toks [] with
    | .ok ds => "ok " ++ "|".intercalate ds
    | .error e => "bad " ++ e
  | _ => "bad-op"

end Model.Grid.Proto
