/-
  The C10 invariant on the geometry model, clause by clause, as executable Boolean predicates
  (the driver evaluates them on every state it reaches; the harness compares the verdicts with the
  Python oracle's, clause by clause).

    regOK        the by-name lookups and ordered lists agree (five kinds)
    heapOK       every reference in a list / dict / set points at an allocated object
    nodeColsOK   each node knows exactly the columns that use it
    colConsOK    each column knows exactly its connections
    nbrsOK       each column knows exactly its neighbours (the other ends of its connections)
    conNodesOK   each connection's two nodes are a side of both of its columns
    orientOK     every column is counter-clockwise with positive area
    layersOK     every column's layer count matches its surface
    namesFresh   the block and connection name lists are what a fresh recomputation gives
    meshValid    no missing or extra connections, no orphan nodes (promised only by some operations)
-/
import PyTough.Model.GeoOps
namespace Model.Geo
open Py

namespace Geo

/-- a registry: ordered list of object ids, dict from names to ids, `name` of each object -/
def regOK {κ : Type} [DecidableEq κ] (list : List Nat) (dict : Dict κ) (name : Nat → κ) : Bool :=
  list.Nodup && (list.map name).Nodup && (dict.map (·.1)).Nodup &&
  list.all (fun i => dict.get? (name i) == some i) &&
  dict.all (fun p => list.contains p.2 && name p.2 == p.1)

def conKey (g : Geo) (k : Nat) : Name × Name := ((g.col (g.con k).c0).name, (g.col (g.con k).c1).name)

def registriesOK (g : Geo) : Bool :=
  regOK g.nodelist g.nodeD (fun i => (g.node i).name) &&
  regOK g.columnlist g.columnD (fun i => (g.col i).name) &&
  regOK g.layerlist g.layerD (fun i => (g.lay i).name) &&
  regOK g.welllist g.wellD (fun i => (g.well i).name) &&
  regOK g.connlist g.connD g.conKey

def heapOK (g : Geo) : Bool :=
  g.nodelist.all (· < g.N.size) && g.columnlist.all (· < g.C.size) && g.connlist.all (· < g.K.size) &&
  g.layerlist.all (· < g.L.size) && g.welllist.all (· < g.W.size)

def nodeColsOK (g : Geo) : Bool :=
  g.columnlist.all (fun c => (g.col c).nodes.all fun n => g.nodelist.contains n) &&
  g.nodelist.all (fun n =>
    (g.node n).cols.all (fun c => g.columnlist.contains c && (g.col c).nodes.contains n) &&
    g.columnlist.all (fun c => !(g.col c).nodes.contains n || (g.node n).cols.contains c))

def colConsOK (g : Geo) : Bool :=
  g.connlist.all (fun k => g.columnlist.contains (g.con k).c0 && g.columnlist.contains (g.con k).c1) &&
  g.columnlist.all (fun c =>
    (g.col c).cons.all (fun k => g.connlist.contains k && ((g.con k).c0 = c || (g.con k).c1 = c)) &&
    g.connlist.all (fun k => !((g.con k).c0 = c || (g.con k).c1 = c) || (g.col c).cons.contains k))

/-- `d` is at the other end of some connection of `c` -/
def joined (g : Geo) (c d : Nat) : Bool :=
  g.connlist.any fun k => ((g.con k).c0 = c && (g.con k).c1 = d) || ((g.con k).c0 = d && (g.con k).c1 = c)

def nbrsOK (g : Geo) : Bool :=
  g.columnlist.all fun c =>
    (g.col c).nbrs.all (fun d => g.joined c d) &&
    g.columnlist.all (fun d => !g.joined c d || (g.col c).nbrs.contains d)

/-- `(a, b)` is a side of the column with nodes `l`, in either direction -/
def isSide (l : List Nat) (a b : Nat) : Bool := (cyc l).any fun e => (e.1 = a && e.2 = b) || (e.1 = b && e.2 = a)

def conNodesOK (g : Geo) : Bool :=
  g.connlist.all fun k =>
    match (g.con k).nodes with
    | none => false
    | some (a, b) => a != b && isSide (g.col (g.con k).c0).nodes a b && isSide (g.col (g.con k).c1).nodes a b

def orientOK (g : Geo) : Bool :=
  g.columnlist.all fun c => decide (0 < shoelace2 (g.polygon (g.col c).nodes)) && decide (0 < (g.col c).area)

/-- the number of layers below a column's surface (`None` surface: the default, every sub-surface layer) -/
def expectedNumLayers (g : Geo) (c : Nat) : Int :=
  match (g.col c).surface with
  | none => if g.layerlist.isEmpty then 0 else (g.layerlist.length : Int) - 1
  | some s => ((g.layerlist.drop 1).filter fun l => decide ((g.lay l).bottom < s)).length

def layersOK (g : Geo) : Bool := g.columnlist.all fun c => (g.col c).numLayers = g.expectedNumLayers c

def blocksFresh (g : Geo) : Bool := g.computeBlockNames == .ok g.blockNames
def connsFresh (g : Geo) : Bool := g.computeConnNames == .ok g.connNames
def namesFresh (g : Geo) : Bool := g.blocksFresh && g.connsFresh

/-- columns sharing a side (consecutive node pair) -/
def shareSide (g : Geo) (c d : Nat) : Bool :=
  (cyc (g.col c).nodes).any fun e => isSide (g.col d).nodes e.1 e.2

def noMissing (g : Geo) : Bool :=
  g.columnlist.all fun c => g.columnlist.all fun d => c = d || !g.shareSide c d || g.joined c d
def noExtra (g : Geo) : Bool := g.connlist.all fun k => g.shareSide (g.con k).c0 (g.con k).c1
def noOrphans (g : Geo) : Bool := g.nodelist.all fun n => g.columnlist.any fun c => (g.col c).nodes.contains n
def meshValid (g : Geo) : Bool := g.noMissing && g.noExtra && g.noOrphans

/-- the structural part of the invariant: everything the bare `add_` / `delete_` operations maintain -/
def geoInv0 (g : Geo) : Bool :=
  g.heapOK && g.registriesOK && g.nodeColsOK && g.colConsOK && g.nbrsOK && g.conNodesOK && g.orientOK

/-- the full invariant of C10 -/
def geoInv (g : Geo) : Bool := g.geoInv0 && g.layersOK && g.namesFresh

end Geo
end Model.Geo
