/-
  The C10 invariant on the geometry model, clause by clause, as executable Boolean predicates
  (the driver evaluates them on every state it reaches; the harness compares the verdicts with the
  Python oracle's, clause by clause).

    regOK        the by-name lookups and ordered lists agree (five kinds)
    heapOK       every reference in a list / dict / set points at an allocated object
    nodeColsOK   each node knows exactly the columns that use it
    colConsOK    each column knows exactly its connections
    nbrsOK       each column knows exactly its neighbours (the other ends of its connections)
    conNodesOK   each connection's two nodes are a side of both of its columns
    orientOK     every column is counter-clockwise with positive area
    layersOK     every column's layer count matches its surface
    namesFresh   the block and connection name lists are what a fresh recomputation gives
    meshValid    no missing or extra connections, no orphan nodes (promised only by some operations)
-/
import PyTough.Model.GeoOps
namespace Model.Geo
open Py

namespace Geo

/-- a registry: ordered list of object ids, dict from names to ids, `name` of each object -/
def regOK {κ : Type} [DecidableEq κ] (list : List Nat) (dict : Dict κ) (name : Nat → κ) : Bool :=
  list.Nodup && (list.map name).Nodup && (dict.map (·.1)).Nodup &&
  list.all (fun i => dict.get? (name i) == some i) &&
  dict.all (fun p => list.contains p.2 && name p.2 == p.1)

def conKey (g : Geo) (k : Nat) : Name × Name := ((g.col (g.con k).c0).name, (g.col (g.con k).c1).name)

def registriesOK (g : Geo) : Bool :=
  regOK g.nodelist g.nodeD (fun i => (g.node i).name) &&
  regOK g.columnlist g.columnD (fun i => (g.col i).name) &&
  regOK g.layerlist g.layerD (fun i => (g.lay i).name) &&
  regOK g.welllist g.wellD (fun i => (g.well i).name) &&
  regOK g.connlist g.connD g.conKey

def heapOK (g : Geo) : Bool :=
  g.nodelist.all (· < g.N.size) && g.columnlist.all (· < g.C.size) && g.connlist.all (· < g.K.size) &&
  g.layerlist.all (· < g.L.size) && g.welllist.all (· < g.W.size)

def nodeColsOK (g : Geo) : Bool :=
  g.columnlist.all (fun c => (g.col c).nodes.all fun n => g.nodelist.contains n) &&
  g.nodelist.all (fun n =>
    (g.node n).cols.all (fun c => g.columnlist.contains c && (g.col c).nodes.contains n) &&
    g.columnlist.all (fun c => !(g.col c).nodes.contains n || (g.node n).cols.contains c))

def colConsOK (g : Geo) : Bool :=
  g.connlist.all (fun k => g.columnlist.contains (g.con k).c0 && g.columnlist.contains (g.con k).c1) &&
  g.columnlist.all (fun c =>
    (g.col c).cons.all (fun k => g.connlist.contains k && ((g.con k).c0 = c || (g.con k).c1 = c)) &&
    g.connlist.all (fun k => !((g.con k).c0 = c || (g.con k).c1 = c) || (g.col c).cons.contains k))

/-- `d` is at the other end of some connection of `c` -/
def joined (g : Geo) (c d : Nat) : Bool :=
  g.connlist.any fun k => ((g.con k).c0 = c && (g.con k).c1 = d) || ((g.con k).c0 = d && (g.con k).c1 = c)

def nbrsOK (g : Geo) : Bool :=
  g.columnlist.all fun c =>
    (g.col c).nbrs.all (fun d => g.joined c d) &&
    g.columnlist.all (fun d => !g.joined c d || (g.col c).nbrs.contains d)

/-- `(a, b)` is a side of the column with nodes `l`, in either direction -/
def isSide (l : List Nat) (a b : Nat) : Bool := (cyc l).any fun e => (e.1 = a && e.2 = b) || (e.1 = b && e.2 = a)

def conNodesOK (g : Geo) : Bool :=
  g.connlist.all fun k =>
    match (g.con k).nodes with
    | none => false
    | some (a, b) => a != b && isSide (g.col (g.con k).c0).nodes a b && isSide (g.col (g.con k).c1).nodes a b

def orientOK (g : Geo) : Bool :=
  g.columnlist.all fun c => decide (0 < shoelace2 (g.polygon (g.col c).nodes)) && decide (0 < (g.col c).area)

/-- the number of layers below a column's surface (`None` surface: the default, every sub-surface layer) -/
def expectedNumLayers (g : Geo) (c : Nat) : Int :=
  match (g.col c).surface with
  | none => if g.layerlist.isEmpty then 0 else (g.layerlist.length : Int) - 1
  | some s => ((g.layerlist.drop 1).filter fun l => decide ((g.lay l).bottom < s)).length

def layersOK (g : Geo) : Bool := g.columnlist.all fun c => (g.col c).numLayers = g.expectedNumLayers c

def blocksFresh (g : Geo) : Bool := g.computeBlockNames == .ok g.blockNames
def connsFresh (g : Geo) : Bool := g.computeConnNames == .ok g.connNames
def namesFresh (g : Geo) : Bool := g.blocksFresh && g.connsFresh

/-- columns sharing a side (consecutive node pair) -/
def shareSide (g : Geo) (c d : Nat) : Bool :=
  (cyc (g.col c).nodes).any fun e => isSide (g.col d).nodes e.1 e.2

def noMissing (g : Geo) : Bool :=
  g.columnlist.all fun c => g.columnlist.all fun d => c = d || !g.shareSide c d || g.joined c d
def noExtra (g : Geo) : Bool := g.connlist.all fun k => g.shareSide (g.con k).c0 (g.con k).c1
def noOrphans (g : Geo) : Bool := g.nodelist.all fun n => g.columnlist.any fun c => (g.col c).nodes.contains n
def meshValid (g : Geo) : Bool := g.noMissing && g.noExtra && g.noOrphans

/-- the structural part of the invariant: everything the bare `add_` / `delete_` operations maintain -/
def geoInv0 (g : Geo) : Bool :=
  g.heapOK && g.registriesOK && g.nodeColsOK && g.colConsOK && g.nbrsOK && g.conNodesOK && g.orientOK

/-- the full invariant of C10 -/
def geoInv (g : Geo) : Bool := g.geoInv0 && g.layersOK && g.namesFresh

/-! ### sensible requests and edit histories -/

/-- `add_connection(connection([col0, col1]))` is a sensible edit: two different columns of the geometry, not yet
    joined, sharing a side which `connection_nodes` finds -/
def addConnPreB (g : Geo) (c0 c1 : Nat) : Bool :=
  g.columnlist.contains c0 && g.columnlist.contains c1 && c0 != c1 && !g.joined c0 c1 &&
    (match g.connectionNodes c0 c1 with
     | some (a, b) => a != b && isSide (g.col c0).nodes a b && isSide (g.col c1).nodes a b
     | none => false)

end Geo

/-- the primitive edits of a geometry, arguments as a caller gives them (objects by name) -/
inductive Edit where
  | addNode (name : Name) (pos : Pt)
  | deleteNode (name : Name)
  | addColumn (name : Name) (nodes : List Name) (centre : Option Pt) (surface : Option Rat) (numLayers : Int)
  | deleteColumn (name : Name)
  | addConnection (col0 col1 : Name)
  | deleteConnection (col0 col1 : Name)
  | addLayer (l : Layer)
  | deleteLayer (name : Name)
  | addWell (w : Well)
  | deleteWell (name : Name)
  | translate (dx dy dz : Rat) (wells : Bool)
  | setupNames

namespace Geo

def lookup (d : Dict Name) (n : Name) : Except Exc Nat :=
  match d.get? n with
  | some i => .ok i
  | none => .error .keyError

/-- one edit -/
def edit (g : Geo) : Edit → Except Exc Geo
  | .addNode name pos => .ok (g.addNode name pos)
  | .deleteNode name => g.deleteNode name
  | .addColumn name nodes centre surface nl =>
    match nodes.mapM (lookup g.nodeD) with
    | .ok ids => g.addColumn name ids centre surface nl
    | .error e => .error e
  | .deleteColumn name => g.deleteColumn name
  | .addConnection a b =>
    match g.columnD.get? a, g.columnD.get? b with
    | some c0, some c1 => .ok (g.addConnection c0 c1)
    | _, _ => .error .keyError
  | .deleteConnection a b => g.deleteConnection (a, b)
  | .addLayer l => .ok (g.addLayer l)
  | .deleteLayer name => g.deleteLayer name
  | .addWell w => .ok (g.addWell w)
  | .deleteWell name => g.deleteWell name
  | .translate dx dy dz w => .ok (g.translate dx dy dz w)
  | .setupNames => g.setupNames

/-- when an edit is a sensible request on the geometry `g`: a node is only deleted when no column uses it; a new
    column has a new name, nodes of the geometry and a non-degenerate polygon; a new connection joins two
    unconnected columns that share a side (or repeats an existing key, which `add_connection` ignores) -/
def editOK (g : Geo) : Edit → Bool
  | .deleteNode name =>
    match g.nodeD.get? name with
    | some i => g.columnlist.all fun c => !(g.col c).nodes.contains i
    | none => true
  | .addColumn name nodes _ _ _ =>
    !g.columnD.contains name &&
      (match nodes.mapM (lookup g.nodeD) with
       | .ok ids => ids.all (fun n => g.nodelist.contains n) && decide (polygonArea (g.polygon ids) ≠ 0)
       | .error _ => true)
  | .addConnection a b =>
    match g.columnD.get? a, g.columnD.get? b with
    | some c0, some c1 => g.addConnPreB c0 c1 || g.connD.contains ((g.col c0).name, (g.col c1).name)
    | _, _ => true
  | _ => true

/-- a history of edits, each one sensible at the moment it is applied -/
def run (g : Geo) : List Edit → Except Exc Geo
  | [] => .ok g
  | e :: es => if g.editOK e then (g.edit e) >>= fun g' => g'.run es else .error .generic

end Geo
end Model.Geo
