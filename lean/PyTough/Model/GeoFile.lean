/-
  Model of the MULgraph geometry file reader and writer of `mulgrids.py` (C03):

    mulgrid.read / read_header / read_nodes / read_columns / read_connections /
            read_layers / read_surface / read_wells
    mulgrid.write / write_header / write_nodes / ... / write_wells
    set_unit_type (unit_scale), set_secondary_variables (name lengths, atmosphere column),
    column.__init__ (centroid, orientation flip), identify_layer_tops, set_default_surface,
    set_column_num_layers, setup_block_name_index, setup_block_connection_name_index,
    block_name, fix_blockname

  over the record layer of `Model/Fixed.lean` and the format table regenerated into
  `Gen/Specs.lean` (field names *and* field specs are taken from the generated table, so the
  header is read into / written from the instance dictionary by the names /repo uses now).

  Numbers: a Python float is an exact rational or the float `-0.0` (`Flt`); the text <-> value
  steps are exact (`'%10.2f' % x` rounds the exact value half-even; `float(text)` is the decimal
  written).  Binary rounding of `float()`, of `x * 0.3048` and `x / 0.3048` is outside the model
  (A-float).  Text is the file content after Python's universal-newline translation.
  Mathlib-free: executed by `Drv/C03.lean`.
-/
import PyTough.Model.Fixed
import PyTough.Gen.Specs
import PyTough.Gen.Conventions
import PyTough.Gen.GeoTables

namespace Model.GeoFile
open Py Model

/-! ### numbers -/

/-- a finite Python float: its exact value, or the float `-0.0` -/
inductive Flt where
  | q (r : Rat)
  | negZero
  deriving DecidableEq, Repr, Inhabited

namespace Flt
def toRat : Flt → Rat
  | q r => r
  | negZero => 0
def toVal : Flt → Val
  | q r => .real r
  | negZero => .negZero
/-- `bool(x)` -/
def truthy (x : Flt) : Bool := x.toRat != 0
/-- `x * s` for a positive factor `s` (the sign of a zero is kept) -/
def mul (x : Flt) (s : Rat) : Flt :=
  match x with
  | q r => q (r * s)
  | negZero => negZero
/-- `x / s` for a positive divisor `s` -/
def div (x : Flt) (s : Rat) : Flt :=
  match x with
  | q r => q (r / s)
  | negZero => negZero
/-- `x + y` (IEEE signed zeros: only `-0.0 + -0.0` is `-0.0`) -/
def add : Flt → Flt → Flt
  | negZero, negZero => negZero
  | a, b => q (a.toRat + b.toRat)
end Flt

/-- `m * 10^e` as a rational -/
def scale10 (m : Int) (e : Int) : Rat :=
  if e ≥ 0 then ((m * (10 ^ e.toNat : Nat) : Int) : Rat) else mkRat m (10 ^ (-e).toNat)

/-- the float denoted by a parsed decimal (`none`: inf / nan, outside the model) -/
def ofFVal : FVal → Option Flt
  | .fin neg m e =>
    if m = 0 then some (if neg then .negZero else .q 0)
    else some (.q (scale10 (if neg then -(m : Int) else (m : Int)) e))
  | _ => none

/-! ### the geometry as the file sees it -/

/-- the header attributes (`self.__dict__` restricted to what the header can name) -/
structure Header where
  type : Str := ['G', 'E', 'N', 'E', 'R']
  convention : Int := 0                       -- `_convention`
  atmosType : Int := 0                        -- `_atmosphere_type`
  atmosVolume : Flt := .q (10 ^ 25)
  atmosConnection : Flt := .q (mkRat 1 1000000)
  unitType : Str := []                        -- `_unit_type`
  gdcx : Option Flt := none
  gdcy : Option Flt := none
  cntype : Option Int := none
  permAngle : Flt := .q 0
  blockOrderInt : Option Int := none          -- `_block_order_int`
  blockOrder : Option Nat := none             -- `_block_order`: 0 'layer_column', 1 'dmplex'
  extra : List (String × Val) := []           -- other instance-dictionary entries set by a header read
  deriving DecidableEq, Repr

structure GNode where
  name : Str
  x : Flt
  y : Flt
  deriving DecidableEq, Repr

inductive Centre where
  | none                     -- `None` (column without nodes and without a given centre)
  | nan                      -- centroid of a polygon of zero area (numpy gives nan)
  | at (x y : Flt)
  deriving DecidableEq, Repr

structure GColumn where
  name : Str
  nodes : List Str           -- names of `col.node`, in order
  centreSpecified : Int      -- `col.centre_specified` (0 or 1)
  centre : Centre
  surface : Option Flt
  defaultSurface : Bool
  numLayers : Int
  deriving DecidableEq, Repr

structure GLayer where
  name : Str
  bottom : Flt
  centre : Flt
  top : Flt
  deriving DecidableEq, Repr

structure GWell where
  name : Str
  pos : List (Flt × Flt × Flt)
  deriving DecidableEq, Repr

structure Geo where
  hdr : Header := {}
  nodes : List GNode := []
  columns : List GColumn := []
  connections : List (Str × Str) := []
  layers : List GLayer := []
  wells : List GWell := []
  deriving DecidableEq, Repr

/-! ### secondary variables -/

/-- Python list indexing `lst[i]` on a list of length `n` (negative indices wrap) -/
def pyIdx (n : Nat) (i : Int) : Except Exc Nat :=
  if 0 ≤ i ∧ i < n then .ok i.toNat
  else if -(n : Int) ≤ i ∧ i < 0 then .ok (i + n).toNat
  else .error .indexError

/-- `[3, 2, 3, 3][self.convention]` — the list literal is taken from /repo (`Gen/Conventions.lean`) -/
def colnameLength (conv : Int) : Except Exc Nat := do
  let i ← pyIdx Gen.Conventions.colnameLength.length conv
  pure (Gen.Conventions.colnameLength.getD i 0)

/-- `[2, 3, 2, 2][self.convention]` -/
def layernameLength (conv : Int) : Except Exc Nat := do
  let i ← pyIdx Gen.Conventions.layernameLength.length conv
  pure (Gen.Conventions.layernameLength.getD i 0)

/-- `['ATM', ' 0', '  0', 'ATM'][self.convention]` -/
def atmosColumnName (conv : Int) : Except Exc Str := do
  let i ← pyIdx Gen.Conventions.atmosphereColumnName.length conv
  pure (Gen.Conventions.atmosphereColumnName.getD i [])

def feet : Str := ['F', 'E', 'E', 'T', ' ']

/-- `{'': 1.0, 'FEET ': 0.3048}[unit_type]` — the dictionary literal is taken from /repo
    (`Gen/GeoTables.lean`; each scale is the exact decimal written) -/
def unitScale (u : Str) : Except Exc Rat :=
  match Gen.GeoTables.unitScale.find? (·.1 = u) with
  | some (_, n, d) => .ok (mkRat n d)
  | none => .error .keyError

/-- `set_secondary_variables()`: the table look-ups that can raise -/
def checkSecondary (h : Header) : Except Exc Unit := do
  if h.atmosType = 0 then let _ ← atmosColumnName h.convention
  let _ ← colnameLength h.convention
  let _ ← layernameLength h.convention
  pure ()

/-! ### the format table -/

structure Specs where
  headerNames : List String
  header : List FieldSpec
  node : List FieldSpec
  column : List FieldSpec
  columnNode : List FieldSpec
  connection : List FieldSpec
  layer : List FieldSpec
  surface : List FieldSpec
  well : List FieldSpec
  deriving DecidableEq, Repr

def sectionOf (s : String) : Except Exc (List String × List FieldSpec) :=
  match Gen.Specs.mulgrid.find s with
  | none => .error .keyError
  | some sec => do
    let fs ← parseSpecs (sec.specs.map String.toList)
    pure (sec.names, fs)

/-- `mulgrid_format_specification`, preprocessed -/
def specs : Except Exc Specs := do
  let h ← sectionOf "header"
  let n ← sectionOf "node"
  let c ← sectionOf "column"
  let cn ← sectionOf "column_node"
  let k ← sectionOf "connection"
  let l ← sectionOf "layer"
  let s ← sectionOf "surface"
  let w ← sectionOf "well"
  pure { headerNames := h.1, header := h.2, node := n.2, column := c.2, columnNode := cn.2,
         connection := k.2, layer := l.2, surface := s.2, well := w.2 }

/-! ### header dictionary -/

def optFlt : Option Flt → Val
  | none => .none
  | some x => x.toVal
def optInt : Option Int → Val
  | none => .none
  | some i => .int i

/-- `variable[name] if name in variable else None` on the instance dictionary -/
def Header.get (h : Header) (name : String) : Val :=
  if name = "type" then .str h.type
  else if name = "_convention" then .int h.convention
  else if name = "_atmosphere_type" then .int h.atmosType
  else if name = "atmosphere_volume" then h.atmosVolume.toVal
  else if name = "atmosphere_connection" then h.atmosConnection.toVal
  else if name = "_unit_type" then .str h.unitType
  else if name = "gdcx" then optFlt h.gdcx
  else if name = "gdcy" then optFlt h.gdcy
  else if name = "cntype" then optInt h.cntype
  else if name = "permeability_angle" then h.permAngle.toVal
  else if name = "_block_order_int" then optInt h.blockOrderInt
  else match h.extra.lookup name with
    | some v => v
    | none => .none

def pvalToVal : PVal → Except Exc Val
  | .none => .ok .none
  | .int i => .ok (.int i)
  | .str s => .ok (.str s)
  | .flt v => match ofFVal v with
    | some x => .ok x.toVal
    | none => .error .generic          -- inf / nan: outside the model

def setExtra (h : Header) (name : String) (v : PVal) : Except Exc Header := do
  let w ← pvalToVal v
  pure { h with extra := (name, w) :: h.extra.filter (·.1 != name) }

/-- `variable[name] = val` on the instance dictionary -/
def Header.set (h : Header) (name : String) (v : PVal) : Except Exc Header :=
  match v with
  | .none => .ok h
  | .str s =>
    if name = "type" then .ok { h with type := s }
    else if name = "_unit_type" then .ok { h with unitType := s }
    else setExtra h name v
  | .int i =>
    if name = "_convention" then .ok { h with convention := i }
    else if name = "_atmosphere_type" then .ok { h with atmosType := i }
    else if name = "cntype" then .ok { h with cntype := some i }
    else if name = "_block_order_int" then .ok { h with blockOrderInt := some i }
    else setExtra h name v
  | .flt f =>
    match ofFVal f with
    | none => .error .generic          -- inf / nan: outside the model
    | some x =>
      if name = "atmosphere_volume" then .ok { h with atmosVolume := x }
      else if name = "atmosphere_connection" then .ok { h with atmosConnection := x }
      else if name = "gdcx" then .ok { h with gdcx := some x }
      else if name = "gdcy" then .ok { h with gdcy := some x }
      else if name = "permeability_angle" then .ok { h with permAngle := x }
      else setExtra h name v

/-- `read_value_line(self.__dict__, 'header')`: null values are ignored; `zip` truncates -/
def setAll : Header → List (String × PVal) → Except Exc Header
  | h, [] => .ok h
  | h, (n, v) :: r => do
    let h' ← h.set n v
    setAll h' r

def layerColumnName : Str := ['l', 'a', 'y', 'e', 'r', '_', 'c', 'o', 'l', 'u', 'm', 'n']
def dmplexName : Str := ['d', 'm', 'p', 'l', 'e', 'x']

/-- `mulgrid.read_header` applied to the header line -/
def readHeader (sp : Specs) (h0 : Header) (line : Str) : Except Exc Header := do
  let vals ← parseString .default sp.header line
  let h ← setAll h0 (sp.headerNames.zip vals)
  checkSecondary h                         -- self.convention = self._convention
  checkSecondary h                         -- self.atmosphere_type = self._atmosphere_type
  let h := if (strip h.unitType).isEmpty then { h with unitType := [] } else h
  let _ ← unitScale h.unitType             -- self.unit_type = self._unit_type
  match h.blockOrderInt with
  | none => pure h
  | some i =>
    -- block_orders = {0: 'layer_column', 1: 'dmplex'} (from /repo); `blockOrder` holds 0 / 1 for these two names
    match Gen.GeoTables.blockOrders.lookup i with
    | some nm =>
      if nm = layerColumnName then pure { h with blockOrder := some 0 }
      else if nm = dmplexName then pure { h with blockOrder := some 1 }
      else pure { h with blockOrder := some 2 }     -- a name the rest of the code does not know
    | none => .error .generic              -- raise Exception('Unrecognised mulgrid block order')

/-! ### lines -/

/-- the lines `readline()` returns one after the other (each keeps its `'\n'`) -/
def pyLines : Str → List Str
  | [] => []
  | c :: r =>
    if c = '\n' then ['\n'] :: pyLines r
    else match pyLines r with
      | [] => [[c]]
      | l :: ls => (c :: l) :: ls

/-- `geo.readline()` : `''` at end of file -/
def readline : List Str → Str × List Str
  | [] => ([], [])
  | l :: ls => (l, ls)

def isBlank (s : Str) : Bool := (strip s).isEmpty

/-- `padstring(s)` -/
def padstring (s : Str) : Str := ljust s 80

/-! ### geometry arithmetic used by `column.__init__` -/

def lookupNode (ns : List GNode) (name : Str) : Option GNode := ns.find? (·.name = name)
def lookupColumn (cs : List GColumn) (name : Str) : Option GColumn := cs.find? (·.name = name)

/-- Σ over the cyclic edges of `p1 × p2` (twice the signed area), after the shift by the first
    vertex that `polygon_area` / `polygon_centroid` apply -/
def shifted : List (Rat × Rat) → List (Rat × Rat)
  | [] => []
  | p :: r => (p :: r).map fun a => (a.1 - p.1, a.2 - p.2)

def cyclicPairs : List (Rat × Rat) → List ((Rat × Rat) × (Rat × Rat))
  | [] => []
  | p :: r => (p :: r).zip (r ++ [p])

def cross (a b : Rat × Rat) : Rat := a.1 * b.2 - b.1 * a.2

/-- `polygon_area(polygon)` -/
def polygonArea (ps : List (Rat × Rat)) : Rat :=
  (1 / 2 : Rat) * ((cyclicPairs (shifted ps)).foldl (fun acc e => acc + cross e.1 e.2) 0)

/-- `polygon_centroid(polygon)` (`none`: division by a zero area, numpy gives nan) -/
def polygonCentroid (ps : List (Rat × Rat)) : Option (Rat × Rat) :=
  match ps with
  | [] => none
  | p0 :: _ =>
    let sp := shifted ps
    let n := ps.length
    if n < 3 then
      let sx := sp.foldl (fun a p => a + p.1) 0
      let sy := sp.foldl (fun a p => a + p.2) 0
      some (sx / n + p0.1, sy / n + p0.2)
    else
      let es := cyclicPairs sp
      let area2 := es.foldl (fun acc e => acc + cross e.1 e.2) 0
      let cx := es.foldl (fun acc e => acc + (e.1.1 + e.2.1) * cross e.1 e.2) 0
      let cy := es.foldl (fun acc e => acc + (e.1.2 + e.2.2) * cross e.1 e.2) 0
      let area := (1 / 2 : Rat) * area2
      if area = 0 then none
      else some (cx / (6 * area) + p0.1, cy / (6 * area) + p0.2)

/-- `column(name, nodes, centre)`: centroid when no centre is given, node order reversed when the
    polygon is clockwise -/
def mkColumn (name : Str) (nodes : List GNode) (centre : Option (Flt × Flt)) : GColumn :=
  let poly := nodes.map fun n => (n.x.toRat, n.y.toRat)
  let (cs, c) : Int × Centre := match centre with
    | some (x, y) => (1, .at x y)
    | none =>
      (0, if nodes.isEmpty then .none
          else match polygonCentroid poly with
            | some (x, y) => .at (.q x) (.q y)
            | none => .nan)
  let names := nodes.map (·.name)
  { name := name, nodes := if polygonArea poly < 0 then names.reverse else names,
    centreSpecified := cs, centre := c, surface := none, defaultSurface := true, numLayers := 0 }

/-! ### reading the sections -/

def fltOf : PVal → Except Exc Flt
  | .flt v => match ofFVal v with
    | some x => .ok x
    | none => .error .generic            -- inf / nan: outside the model
  | _ => .error .typeError                -- None * float, np.array([None, ...]) * float

def strOf : PVal → Except Exc Str
  | .str s => .ok s
  | _ => .error .typeError

/-- `name.strip().rjust(n)` -/
def fixName (s : Str) (n : Nat) : Str := rjust (strip s) n

/-- `add_node` -/
def addNode (g : Geo) (n : GNode) : Geo :=
  if (lookupNode g.nodes n.name).isSome then g else { g with nodes := g.nodes ++ [n] }

def addColumn (g : Geo) (c : GColumn) : Geo :=
  if (lookupColumn g.columns c.name).isSome then g else { g with columns := g.columns ++ [c] }

def addConnection (g : Geo) (k : Str × Str) : Geo :=
  if g.connections.contains k then g else { g with connections := g.connections ++ [k] }

/-- the `while line.strip(): <body>; line = geo.readline()` loop shared by the section readers whose
    body handles exactly one line -/
def sectionLoop (step : Geo → Str → Except Exc Geo) : Geo → Str → List Str → Except Exc (Geo × List Str)
  | g, line, [] =>
    if isBlank line then .ok (g, [])
    else match step g line with
      | .error e => .error e
      | .ok g' => .ok (g', [])            -- readline() gives '' at end of file: the loop stops
  | g, line, l :: ls =>
    if isBlank line then .ok (g, l :: ls)
    else match step g line with
      | .error e => .error e
      | .ok g' => sectionLoop step g' l ls

/-- body of the loop of `read_nodes` -/
def nodeStep (sp : Specs) (L : Nat) (s : Rat) (g : Geo) (line : Str) : Except Exc Geo := do
  let vals ← parseString .default sp.node line
  match vals with
  | [name, x, y] =>
    let name ← strOf name
    let x ← fltOf x
    let y ← fltOf y
    pure (addNode g { name := fixName name L, x := x.mul s, y := y.mul s })
  | _ => .error .valueError             -- unpacking a list of the wrong length

/-- the `for each in range(nnodes)` loop of `read_columns` -/
def readColumnNodes (sp : Specs) (L : Nat) (g : Geo) : Nat → List Str → Except Exc (List GNode × List Str)
  | 0, ls => .ok ([], ls)
  | k + 1, ls => do
    let (line, ls') := readline ls
    let vals ← parseString .default sp.columnNode line
    match vals with
    | [name] =>
      let name ← strOf name
      match lookupNode g.nodes (fixName name L) with
      | none => .error .keyError
      | some nd =>
        let (rest, ls'') ← readColumnNodes sp L g k ls'
        pure (nd :: rest, ls'')
    | _ => .error .valueError

def intOf : PVal → Except Exc Int
  | .int i => .ok i
  | _ => .error .typeError

/-- truthiness of a parsed integer field (`None` and `0` are false) -/
def truthyInt : PVal → Bool
  | .int i => i != 0
  | _ => false

def readColumnsLoop (sp : Specs) (L : Nat) (s : Rat) : Nat → Geo → Str → List Str → Except Exc (Geo × List Str)
  | 0, _, _, _ => .error .generic         -- out of fuel (never with fuel > number of lines)
  | fuel + 1, g, line, ls =>
    if isBlank line then .ok (g, ls)
    else do
      let vals ← parseString .default sp.column line
      match vals with
      | [name, cspec, nn, cx, cy] =>
        let name ← strOf name
        let centre ← (if truthyInt cspec then do
            let x ← fltOf cx
            let y ← fltOf cy
            pure (some (x.mul s, y.mul s))
          else pure none : Except Exc (Option (Flt × Flt)))
        let nn ← intOf nn                 -- range(None) raises TypeError
        let (nodes, ls') ← readColumnNodes sp L g nn.toNat ls
        let g' := addColumn g (mkColumn (fixName name L) nodes centre)
        let (line', ls'') := readline ls'
        readColumnsLoop sp L s fuel g' line' ls''
      | _ => .error .valueError

def connectionStep (sp : Specs) (L : Nat) (g : Geo) (line : Str) : Except Exc Geo := do
  let vals ← parseString .default sp.connection line
  let names ← vals.mapM strOf
  let names := names.map (fixName · L)
  -- cols = [self.column[name] for name in names]
  if names.any (fun n => (lookupColumn g.columns n).isNone) then .error .keyError
  else match names with
    | [a, b] => pure (addConnection g (a, b))
    | _ => .error .indexError           -- connection(cols) with fewer than two columns

def lookupLayer (ls : List GLayer) (name : Str) : Option GLayer := ls.find? (·.name = name)

def layerStep (sp : Specs) (L : Nat) (s : Rat) (g : Geo) (line : Str) : Except Exc Geo := do
  let vals ← parseString .default sp.layer line
  match vals with
  | [name, bottom, centre] =>
    let name ← strOf name
    let name := fixName name L
    let b ← fltOf bottom
    let b := b.mul s
    -- a centre of inf / nan is outside the model
    match centre with
    | .flt v => if (ofFVal v).isNone then .error .generic else pure ()
    | _ => pure ()
    if (lookupLayer g.layers name).isSome then pure g        -- add_layer: name already present
    else
      -- `if centre:` — None and 0.0 take the default branch
      let specified : Option Flt := match centre with
        | .flt v => (match ofFVal v with | some c => if c.truthy then some c else none | none => none)
        | _ => none
      let c : Flt := match specified with
        | some c => c.mul s
        | none =>
          match g.layers.getLast? with
          | some above => (b.add above.bottom).mul (1 / 2)     -- nlayers > 1
          | none => b
      pure { g with layers := g.layers ++ [{ name := name, bottom := b, centre := c, top := .q 0 }] }
  | _ => .error .valueError

/-- `identify_layer_tops` -/
def layerTops : Flt → List GLayer → List GLayer
  | _, [] => []
  | top, l :: r => { l with top := top } :: layerTops l.bottom r

/-- `identify_layer_tops(); set_default_surface()` -/
def finishLayers (g : Geo) : Except Exc Geo :=
  match g.layers with
  | [] => .error .indexError             -- self.layerlist[0]
  | l0 :: _ =>
    let layers := layerTops l0.bottom g.layers
    let nl : Int := layers.length
    .ok { g with layers := layers,
                 columns := g.columns.map fun c =>
                   { c with surface := some l0.bottom, defaultSurface := true, numLayers := nl - 1 } }

/-- `set_column_num_layers` -/
def columnNumLayers (layers : List GLayer) (surface : Flt) : Int :=
  ((layers.drop 1).filter fun l => decide (l.bottom.toRat < surface.toRat)).length

def setSurface (g : Geo) (name : Str) (z : Flt) : Geo :=
  { g with columns := g.columns.map fun c =>
      if c.name = name then { c with surface := some z, defaultSurface := false, numLayers := columnNumLayers g.layers z }
      else c }

def surfaceStep (sp : Specs) (L : Nat) (s : Rat) (g : Geo) (line : Str) : Except Exc Geo := do
  let vals ← parseString .default sp.surface line
  match vals with
  | [name, z] =>
    let name ← strOf name
    let name := fixName name L
    let z ← fltOf z
    if (lookupColumn g.columns name).isNone then .error .keyError
    else pure (setSurface g name (z.mul s))
  | _ => .error .valueError

def addWellPos (ws : List GWell) (name : Str) (p : Flt × Flt × Flt) : List GWell :=
  if ws.any (·.name = name) then ws.map fun w => if w.name = name then { w with pos := w.pos ++ [p] } else w
  else ws ++ [{ name := name, pos := [p] }]

def wellStep (sp : Specs) (s : Rat) (g : Geo) (line : Str) : Except Exc Geo := do
  let vals ← parseString .default sp.well line
  match vals with
  | [name, x, y, z] =>
    let name ← strOf name
    let x ← fltOf x
    let y ← fltOf y
    let z ← fltOf z
    pure { g with wells := addWellPos g.wells name (x.mul s, y.mul s, z.mul s) }
  | _ => .error .valueError

inductive Keyword where
  | verti | grid | conne | layer | surfa | wells
  deriving DecidableEq, Repr

/-- `read_fn[line[0:5].rstrip()]` — the dispatch dictionary is taken from /repo (`Gen/GeoTables.lean`) -/
def keywordOf (k : Str) : Option Keyword :=
  match Gen.GeoTables.readKeywords.lookup k with
  | some "read_nodes" => some .verti
  | some "read_columns" => some .grid
  | some "read_connections" => some .conne
  | some "read_layers" => some .layer
  | some "read_surface" => some .surfa
  | some "read_wells" => some .wells
  | _ => none

/-- one section: the reader pads its first line (`padstring(geo.readline())`) -/
def readSection (sp : Specs) (kw : Keyword) (g : Geo) (ls : List Str) : Except Exc (Geo × List Str) := do
  let cl ← colnameLength g.hdr.convention
  let ll ← layernameLength g.hdr.convention
  let s ← unitScale g.hdr.unitType
  let (l0, rest) := readline ls
  let first := padstring l0
  match kw with
  | .verti => sectionLoop (nodeStep sp cl s) g first rest
  | .grid => readColumnsLoop sp cl s (rest.length + 2) g first rest
  | .conne => sectionLoop (connectionStep sp cl) g first rest      -- identify_neighbours: nothing the file shows
  | .layer => do
    let (g', rest') ← sectionLoop (layerStep sp ll s) g first rest
    let g'' ← finishLayers g'
    pure (g'', rest')
  | .surfa => sectionLoop (surfaceStep sp cl s) g first rest
  | .wells => sectionLoop (wellStep sp s) g first rest

/-- the `while more:` loop of `read` -/
def readSections (sp : Specs) : Nat → Geo → List Str → Except Exc Geo
  | 0, _, _ => .error .generic            -- out of fuel (never with fuel > number of lines)
  | fuel + 1, g, ls =>
    let (l, rest) := readline ls
    let line := strip l
    if line.isEmpty then .ok g
    else match keywordOf (rstrip (slice line 0 5)) with
      | none => .error .keyError
      | some kw => do
        let (g', rest') ← readSection sp kw g rest
        readSections sp fuel g' rest'

/-- `mulgrid.read` on an object whose header attributes are `h0` (after `empty()`) -/
def readInto (h0 : Header) (text : Str) : Except Exc Geo := do
  let sp ← specs
  let lines := pyLines text
  let (l0, rest) := readline lines
  let h ← readHeader sp h0 l0
  let g : Geo := { hdr := h }
  if h.type = ['G', 'E', 'N', 'E', 'R'] then readSections sp (rest.length + 1) g rest
  else .ok g                              -- print('Grid type ... not supported.')

/-- `mulgrid(filename)` with default constructor arguments -/
def read (text : Str) : Except Exc Geo := readInto {} text

/-! ### writing

  `geo.write(...)` calls in order: every function below returns the list of lines written
  (each with its `'\n'`); the file is their concatenation. -/

def lineOf (fs : List FieldSpec) (vals : List Val) : Except Exc Str := do
  let s ← writeValues fs vals
  pure (s ++ ['\n'])

def kwLine (s : Str) : Str := s ++ ['\n']

/-- the keyword line a section writer starts with (`geo.write('VERTICES\n')` …), taken from /repo -/
def kwOf (writer : String) : Str := (Gen.GeoTables.writeKeywords.lookup writer).getD []
def kwVertices : Str := kwOf "write_nodes"
def kwGrid : Str := kwOf "write_columns"
def kwConnections : Str := kwOf "write_connections"
def kwLayers : Str := kwOf "write_layers"
def kwSurfa : Str := kwOf "write_surface"
def kwWells : Str := kwOf "write_wells"

def writeHeader (sp : Specs) (h : Header) : Except Exc Str :=
  lineOf sp.header (sp.headerNames.map h.get)

def nodeLine (sp : Specs) (s : Rat) (n : GNode) : Except Exc Str :=
  lineOf sp.node [.str (ljust n.name 3), (n.x.div s).toVal, (n.y.div s).toVal]

def writeNodes (sp : Specs) (s : Rat) (ns : List GNode) : Except Exc (List Str) := do
  let ls ← ns.mapM (nodeLine sp s)
  pure (kwLine kwVertices :: ls ++ [['\n']])

def columnLines (sp : Specs) (s : Rat) (c : GColumn) : Except Exc (List Str) := do
  let centre ← (if c.centreSpecified != 0 then
      match c.centre with
      | .at x y => pure [(x.div s).toVal, (y.div s).toVal]
      | .none => .error .typeError        -- None / float
      | .nan => .error .generic           -- nan: outside the model
    else pure [.none, .none] : Except Exc (List Val))
  let l ← lineOf sp.column ([.str (ljust c.name 3), .int c.centreSpecified, .int c.nodes.length] ++ centre)
  let nl ← c.nodes.mapM fun n => lineOf sp.columnNode [.str (ljust n 3)]
  pure (l :: nl)

def writeColumns (sp : Specs) (s : Rat) (cs : List GColumn) : Except Exc (List Str) := do
  let ls ← cs.mapM (columnLines sp s)
  pure (kwLine kwGrid :: ls.flatten ++ [['\n']])

def connectionLine (sp : Specs) (k : Str × Str) : Except Exc Str :=
  lineOf sp.connection [.str (ljust k.1 3), .str (ljust k.2 3)]

def writeConnections (sp : Specs) (ks : List (Str × Str)) : Except Exc (List Str) := do
  let ls ← ks.mapM (connectionLine sp)
  pure (kwLine kwConnections :: ls ++ [['\n']])

def layerLine (sp : Specs) (s : Rat) (l : GLayer) : Except Exc Str :=
  lineOf sp.layer [.str (ljust l.name 3), (l.bottom.div s).toVal, (l.centre.div s).toVal]

def writeLayers (sp : Specs) (s : Rat) (ls : List GLayer) : Except Exc (List Str) := do
  let out ← ls.mapM (layerLine sp s)
  pure (kwLine kwLayers :: out ++ [['\n']])

def surfaceLine (sp : Specs) (s : Rat) (c : GColumn) : Except Exc Str :=
  match c.surface with
  | some z => lineOf sp.surface [.str (ljust c.name 3), (z.div s).toVal]
  | none => .error .typeError

def writeSurface (sp : Specs) (s : Rat) (cs : List GColumn) : Except Exc (List Str) := do
  let out ← (cs.filter fun c => !c.defaultSurface).mapM (surfaceLine sp s)
  pure (kwLine kwSurfa :: out ++ [['\n']])

def wellLine (sp : Specs) (s : Rat) (name : Str) (p : Flt × Flt × Flt) : Except Exc Str :=
  lineOf sp.well [.str name, (p.1.div s).toVal, (p.2.1.div s).toVal, (p.2.2.div s).toVal]

def wellLines (sp : Specs) (s : Rat) (w : GWell) : Except Exc (List Str) := w.pos.mapM (wellLine sp s w.name)

def writeWells (sp : Specs) (s : Rat) (ws : List GWell) : Except Exc (List Str) := do
  let out ← ws.mapM (wellLines sp s)
  pure (kwLine kwWells :: out.flatten ++ [['\n']])

/-- the lines `mulgrid.write` writes -/
def writeLines (g : Geo) : Except Exc (List Str) := do
  let sp ← specs
  let s ← unitScale g.hdr.unitType       -- (the attribute unit_scale set by set_unit_type)
  let h ← writeHeader sp g.hdr
  let n ← writeNodes sp s g.nodes
  let c ← writeColumns sp s g.columns
  let k ← writeConnections sp g.connections
  let l ← writeLayers sp s g.layers
  let sf ← (if g.columns.all (·.defaultSurface) then pure [] else writeSurface sp s g.columns : Except Exc (List Str))
  let w ← (if g.wells.length > 0 then writeWells sp s g.wells else pure [] : Except Exc (List Str))
  pure (h :: (n ++ c ++ k ++ l ++ sf ++ w ++ [['\n']]))

/-- `mulgrid.write`: the text of the file -/
def write (g : Geo) : Except Exc Str := do
  let ls ← writeLines g
  pure ls.flatten

/-! ### derived name lists -/

def charAt (s : Str) (i : Nat) : Except Exc Char :=
  match s[i]? with
  | some c => .ok c
  | none => .error .indexError

/-- `fix_blockname` -/
def fixBlockname (name : Str) : Except Exc Str := do
  let c2 ← charAt name 2
  if isDigit c2 then
    let c4 ← charAt name 4
    if isDigit c4 then
      let c3 ← charAt name 3
      if c3 = ' ' then pure (slice name 0 3 ++ ['0'] ++ slice name 4 5) else pure name
    else pure name
  else pure name

/-- `block_name`: which part comes first and the slice bounds of the two parts, as coded
    (`if self.convention in [0, 3]: … elif self.convention == 1: … else: …`);
    `Props.C03.tables_are_current` checks it against the table extracted from /repo -/
def blockParts (conv : Int) : Bool × (Nat × Nat) × (Nat × Nat) :=
  if conv = 0 ∨ conv = 3 then (true, (0, 3), (0, 2))
  else if conv = 1 then (false, (0, 3), (0, 2))
  else (false, (0, 2), (0, 3))

/-- `block_name(layername, colname)` -/
def blockName (conv : Int) (layername colname : Str) : Except Exc Str :=
  let p := blockParts conv
  if p.1 then fixBlockname (slice colname p.2.1.1 p.2.1.2 ++ slice layername p.2.2.1 p.2.2.2)
  else fixBlockname (slice layername p.2.1.1 p.2.1.2 ++ slice colname p.2.2.1 p.2.2.2)

/-- `col.surface > lay.bottom` (`None > float` raises TypeError) -/
def above (c : GColumn) (l : GLayer) : Except Exc Bool :=
  match c.surface with
  | some z => .ok (decide (z.toRat > l.bottom.toRat))
  | none => .error .typeError

/-- a list comprehension `[x for x in xs if p(x)]` whose test can raise -/
def filterE {α : Type} (p : α → Except Exc Bool) : List α → Except Exc (List α)
  | [] => .ok []
  | a :: r =>
    match p a with
    | .error e => .error e
    | .ok b =>
      match filterE p r with
      | .error e => .error e
      | .ok t => .ok (if b then a :: t else t)

def layerColumns (cs : List GColumn) (l : GLayer) : Except Exc (List GColumn) :=
  filterE (fun c => above c l) cs

/-- `block_name_list_layer_column` -/
def namesLayerColumn (conv : Int) (g : Geo) : Except Exc (List Str) := do
  let per ← (g.layers.drop 1).mapM fun l => do
    let cols ← layerColumns g.columns l
    cols.mapM fun c => blockName conv l.name c.name
  pure per.flatten

/-- `block_name_list_dmplex`: hexahedra (4-node columns) of all layers, then wedges -/
def namesDmplex (conv : Int) (g : Geo) : Except Exc (List Str) := do
  let per ← (g.layers.drop 1).mapM fun l => do
    let cols ← layerColumns g.columns l
    cols.mapM fun c => do
      let b ← blockName conv l.name c.name
      if c.nodes.length = 4 then pure (b, true)
      else if c.nodes.length = 3 then pure (b, false)
      else .error .generic               -- 'Blocks with %d nodes not supported by DMPlex ordering'
  let all := per.flatten
  pure ((all.filter (·.2)).map (·.1) ++ (all.filter (!·.2)).map (·.1))

/-- the atmosphere part of `setup_block_name_index` -/
def atmosNames (g : Geo) : Except Exc (List Str) :=
  match g.layers with
  | [] => .ok []
  | l0 :: _ =>
    if g.hdr.atmosType = 0 then do
      let a ← atmosColumnName g.hdr.convention
      let b ← blockName g.hdr.convention l0.name a
      pure [b]
    else if g.hdr.atmosType = 1 then g.columns.mapM fun c => blockName g.hdr.convention l0.name c.name
    else .ok []

/-- `setup_block_name_index`: `block_name_list` -/
def blockNameList (g : Geo) : Except Exc (List Str) :=
  match g.layers with
  | [] => .ok []
  | _ :: _ => do
    let atm ← atmosNames g
    let under ← (match g.hdr.blockOrder with
      | none => namesLayerColumn g.hdr.convention g
      | some 0 => namesLayerColumn g.hdr.convention g
      | some 1 => namesDmplex g.hdr.convention g
      | some _ => .error .generic)
    pure (atm ++ under)

/-- vertical connections of one layer (`ilay` = index in `layerlist[1:]`) -/
def verticalNames (g : Geo) (atm0 : Option Str) (ilay : Nat) (l aboveL : GLayer) (l0 : GLayer)
    (cols : List GColumn) : Except Exc (List (Str × Str)) := do
  let conv := g.hdr.convention
  let per ← cols.mapM fun c => do
    let this ← blockName conv l.name c.name
    let toAtm : Bool := ilay = 0 || (match c.surface with
      | some z => decide (z.toRat ≤ l.top.toRat)
      | none => false)
    if toAtm then
      if g.hdr.atmosType = 0 then
        match atm0 with
        | some a => pure [(this, a)]
        | none => .error .indexError       -- self.block_name_list[0]
      else if g.hdr.atmosType = 1 then do
        let a ← blockName conv l0.name c.name
        pure [(this, a)]
      else pure []
    else do
      let a ← blockName conv aboveL.name c.name
      pure [(this, a)]
  pure per.flatten

/-- `[con for con in self.connectionlist if set(con.column).issubset(layercolset)]`, on the
    surfaces of the two columns of each connection (looked up once) -/
def connSurfaces (g : Geo) : List ((Str × Str) × Option Flt × Option Flt) :=
  g.connections.map fun k =>
    (k, (lookupColumn g.columns k.1).bind (·.surface), (lookupColumn g.columns k.2).bind (·.surface))

def inLayer (z : Option Flt) (l : GLayer) : Bool :=
  match z with
  | some z => decide (z.toRat > l.bottom.toRat)
  | none => false

def connLoop (g : Geo) (atm0 : Option Str) (l0 : GLayer) (cs : List ((Str × Str) × Option Flt × Option Flt)) :
    Nat → GLayer → List GLayer → Except Exc (List (Str × Str))
  | _, _, [] => .ok []
  | ilay, aboveL, l :: r => do
    let cols ← layerColumns g.columns l
    let v ← verticalNames g atm0 ilay l aboveL l0 cols
    let h ← (cs.filter fun k => inLayer k.2.1 l && inLayer k.2.2 l).mapM fun k => do
      let a ← blockName g.hdr.convention l.name k.1.1
      let b ← blockName g.hdr.convention l.name k.1.2
      pure (a, b)
    let rest ← connLoop g atm0 l0 cs (ilay + 1) l r
    pure (v ++ h ++ rest)

/-- `setup_block_connection_name_index`: `block_connection_name_list` -/
def blockConnectionNameList (g : Geo) : Except Exc (List (Str × Str)) :=
  match g.layers with
  | [] => .ok []
  | l0 :: r => do
    let names ← (match r with
      | [] => pure []
      | _ => blockNameList g : Except Exc (List Str))
    connLoop g names.head? l0 (connSurfaces g) 0 l0 r

/-! ### what a written file carries: the canonical form of a geometry

  `canonGeo g` is the geometry with every number replaced by the decimal its text field holds
  (two decimals, wells one, header sizes three significant digits) — in file units, i.e. divided
  by the unit scale before rounding and multiplied back after — with unspecified column centres
  recomputed as centroids of the rounded nodes, layer tops from the rounded bottoms, default
  surfaces at the rounded ground level and `num_layers` recounted.  `Props/C03.lean` proves
  `read (write g) = canonGeo g` for well-formed `g`. -/

def Flt.isNeg : Flt → Bool
  | .q r => decide (r < 0)
  | .negZero => true
def Flt.absNum : Flt → Nat
  | .q r => r.num.natAbs
  | .negZero => 0
def Flt.den : Flt → Nat
  | .q r => r.den
  | .negZero => 1

/-- the float `float(text)` gives for the decimal `±m·10^e` (a zero keeps its sign) -/
def ofDec (neg : Bool) (m : Nat) (e : Int) : Flt :=
  if m = 0 then (if neg then .negZero else .q 0)
  else .q (scale10 (if neg then -(m : Int) else (m : Int)) e)

/-- `float('%.{p}f' % x)`: `x` rounded half-even to `p` decimals -/
def roundF (p : Nat) (x : Flt) : Flt :=
  ofDec x.isNeg (roundHalfEven (x.absNum * 10 ^ p) x.den) (-(p : Int))

/-- `float('%.{p}e' % x)`: `x` rounded half-even to `p+1` significant digits -/
def roundE (p : Nat) (x : Flt) : Flt :=
  ofDec x.isNeg (fmtEParts p x.absNum x.den).1 ((fmtEParts p x.absNum x.den).2 - p)

/-- a coordinate after the trip through the file: to file units, `p` decimals, back -/
def canonC (p : Nat) (s : Rat) (x : Flt) : Flt := (roundF p (x.div s)).mul s

/-- the field specifications the theorems are proved for (`Proofs.GeoFile.specs_eq` checks, by
    evaluation, that the table regenerated from /repo is exactly this one) -/
def fS (w : Nat) : FieldSpec := { raw := Nat.toDigits 10 w, width := w, left := false, prec := none, typ := 's' }
def fD (w : Nat) : FieldSpec := { raw := Nat.toDigits 10 w, width := w, left := false, prec := none, typ := 'd' }
def fF (p : Nat) : FieldSpec := { raw := ['1', '0', '.'] ++ Nat.toDigits 10 p, width := 10, left := false, prec := some p, typ := 'f' }
def fE : FieldSpec := { raw := ['1', '0', '.', '2'], width := 10, left := false, prec := some 2, typ := 'e' }
def SP : Specs :=
  { headerNames := ["type", "_convention", "_atmosphere_type", "atmosphere_volume", "atmosphere_connection",
                    "_unit_type", "gdcx", "gdcy", "cntype", "permeability_angle", "_block_order_int"],
    header := [fS 5, fD 1, fD 1, fE, fE, fS 5, fF 2, fF 2, fD 1, fF 2, fD 2],
    node := [fS 3, fF 2, fF 2], column := [fS 3, fD 1, fD 2, fF 2, fF 2], columnNode := [fS 3],
    connection := [fS 3, fS 3], layer := [fS 3, fF 2, fF 2], surface := [fS 3, fF 2],
    well := [fS 5, fF 1, fF 1, fF 1] }

/-- the formatted value is not wider than its field (else `fit_value` reduces the precision or raises) -/
def fitsB (f : FieldSpec) (v : Val) : Bool :=
  match fmtVal f v with
  | .ok s => decide (s.length ≤ f.width)
  | .error _ => false

/-- `x` (in metres) fits its ten columns with `p` decimals after division by the unit scale -/
def fitsC (p : Nat) (s : Rat) (x : Flt) : Bool := fitsB (fF p) (x.div s).toVal

def canonHeader (h : Header) : Header :=
  { h with atmosVolume := roundE 2 h.atmosVolume, atmosConnection := roundE 2 h.atmosConnection,
           gdcx := h.gdcx.map (roundF 2), gdcy := h.gdcy.map (roundF 2), permAngle := roundF 2 h.permAngle,
           blockOrder := h.blockOrderInt.map Int.toNat, extra := [] }

def canonNode (s : Rat) (n : GNode) : GNode := { n with x := canonC 2 s n.x, y := canonC 2 s n.y }

/-- the centre the reader gives a layer when the field is blank or zero -/
def defaultCentre (above : Option GLayer) (b : Flt) : Flt :=
  match above with
  | some a => (b.add a.bottom).mul (1 / 2)
  | none => b

/-- a layer whose written centre is kept by the reader -/
def canonLayer (s : Rat) (l : GLayer) : GLayer :=
  { l with bottom := canonC 2 s l.bottom, centre := canonC 2 s l.centre, top := .q 0 }

/-- a layer after the trip through the file, `above` being the (already re-read) layer before it:
    `read_layers` keeps a written centre only `if centre:` — a centre written as `0.00` / `-0.00`
    is replaced by the default (mid-point of the two bottoms; the bottom itself for the first layer) -/
def canonLayerAt (s : Rat) (above : Option GLayer) (l : GLayer) : GLayer :=
  { l with bottom := canonC 2 s l.bottom,
           centre := (if (roundF 2 (l.centre.div s)).truthy then canonC 2 s l.centre
                      else defaultCentre above (canonC 2 s l.bottom)),
           top := .q 0 }

def canonLayersAux (s : Rat) : Option GLayer → List GLayer → List GLayer
  | _, [] => []
  | above, l :: r => canonLayerAt s above l :: canonLayersAux s (some (canonLayerAt s above l)) r

def canonLayers (s : Rat) (ls : List GLayer) : List GLayer :=
  match canonLayersAux s none ls with
  | [] => []
  | l0 :: r => layerTops l0.bottom (l0 :: r)

/-- positions of the named nodes -/
def nodePositions (ns : List GNode) (names : List Str) : List (Rat × Rat) :=
  (names.filterMap (lookupNode ns)).map fun n => (n.x.toRat, n.y.toRat)

def centroidCentre (ns : List GNode) (names : List Str) : Centre :=
  if names.isEmpty then .none
  else match polygonCentroid (nodePositions ns names) with
    | some (x, y) => .at (.q x) (.q y)
    | none => .nan

def canonColumn (s : Rat) (nodes' : List GNode) (layers' : List GLayer) (c : GColumn) : GColumn :=
  let surface' : Option Flt :=
    if c.defaultSurface then layers'.head?.map (·.bottom) else c.surface.map (canonC 2 s)
  { c with
    centre := (if c.centreSpecified != 0 then
        match c.centre with
        | .at x y => .at (canonC 2 s x) (canonC 2 s y)
        | o => o
      else centroidCentre nodes' c.nodes),
    surface := surface',
    numLayers := (if c.defaultSurface then (layers'.length : Int) - 1
      else match surface' with
        | some z => columnNumLayers layers' z
        | none => 0) }

/-- a well after the trip: the name comes back right-justified in its five columns (`'%5s'`; the
    reader neither strips nor justifies it), each track point at one decimal -/
def canonWell (s : Rat) (w : GWell) : GWell :=
  { name := rjust w.name 5, pos := w.pos.map fun p => (canonC 1 s p.1, canonC 1 s p.2.1, canonC 1 s p.2.2) }

/-- the unit scale of a geometry (1 for anything but `'FEET '`) -/
def scaleOf (g : Geo) : Rat := match unitScale g.hdr.unitType with
  | .ok s => s
  | .error _ => 1

def canonGeo (g : Geo) : Geo :=
  let s := scaleOf g
  let nodes' := g.nodes.map (canonNode s)
  let layers' := canonLayers s g.layers
  { hdr := canonHeader g.hdr, nodes := nodes', columns := g.columns.map (canonColumn s nodes' layers'),
    connections := g.connections, layers := layers', wells := g.wells.map (canonWell s) }

/-! ### well-formedness: the hypotheses of the round-trip theorems (all decidable) -/

/-- blanks, then a non-empty core that neither starts nor ends with whitespace -/
def coreOK (n : Str) : Bool :=
  let core := n.dropWhile (· == ' ')
  match core.head?, core.getLast? with
  | some a, some b => !isStrWs a && !isStrWs b
  | _, _ => false

def noNewline (n : Str) : Bool := n.all fun c => c != '\n' && c != '\r'

/-- a right-justified name of exactly `L` characters -/
def nameOK (L : Nat) (n : Str) : Bool := n.length == L && coreOK n && noNewline n

def headerOK (h : Header) : Bool :=
  h.type == ['G', 'E', 'N', 'E', 'R'] &&
  decide (0 ≤ h.convention ∧ h.convention ≤ 3) && decide (0 ≤ h.atmosType ∧ h.atmosType ≤ 9) &&
  (h.unitType == [] || h.unitType == feet) &&
  fitsB fE h.atmosVolume.toVal && fitsB fE h.atmosConnection.toVal &&
  (match h.gdcx with | some x => fitsB (fF 2) x.toVal | none => true) &&
  (match h.gdcy with | some x => fitsB (fF 2) x.toVal | none => true) &&
  (match h.cntype with | some i => decide (0 ≤ i ∧ i ≤ 9) | none => true) &&
  fitsB (fF 2) h.permAngle.toVal &&
  (match h.blockOrderInt with | some i => i == 0 || i == 1 | none => true) &&
  h.blockOrder == h.blockOrderInt.map Int.toNat &&
  h.extra.isEmpty

/-- every layer centre survives: its written decimal is non-zero, or the default the reader
    substitutes for a zero is the very same float (KNOWN FINDING `layer-centre-zero-recomputed`
    when this fails) -/
def layerCentresKeptAux (s : Rat) : Option GLayer → List GLayer → Bool
  | _, [] => true
  | above, l :: r =>
    let c := roundF 2 (l.centre.div s)
    let l' := canonLayer s l
    (c.truthy || defaultCentre above l'.bottom == c.mul s) && layerCentresKeptAux s (some l') r

def LayerCentresKept (g : Geo) : Bool := layerCentresKeptAux (scaleOf g) none g.layers

/-- the rounded polygon of a column is not clockwise (else the reader reverses its nodes) -/
def orientationOK (nodes' : List GNode) (c : GColumn) : Bool :=
  decide (0 ≤ polygonArea (nodePositions nodes' c.nodes))

def columnOK (L : Nat) (s : Rat) (g : Geo) (nodes' : List GNode) (c : GColumn) : Bool :=
  nameOK L c.name && decide (c.nodes.length ≤ 99) &&
  c.nodes.all (fun nm => (lookupNode g.nodes nm).isSome) &&
  (c.centreSpecified == 0 ||
    (c.centreSpecified == 1 && match c.centre with | .at x y => fitsC 2 s x && fitsC 2 s y | _ => false)) &&
  (c.defaultSurface || match c.surface with | some z => fitsC 2 s z | none => false) &&
  orientationOK nodes' c

def wellOK (s : Rat) (w : GWell) : Bool :=
  decide (w.name.length ≤ 5) && noNewline w.name && !w.pos.isEmpty &&
  w.pos.all fun p => fitsC 1 s p.1 && fitsC 1 s p.2.1 && fitsC 1 s p.2.2

def nodup (l : List Str) : Bool := decide l.Nodup

/-- hypotheses of `geo_roundtrip`, except `LayerCentresKept` -/
def WF (g : Geo) : Bool :=
  headerOK g.hdr &&
  (match colnameLength g.hdr.convention, layernameLength g.hdr.convention with
   | .ok L, .ok LL =>
     let s := scaleOf g
     let nodes' := g.nodes.map (canonNode s)
     g.nodes.all (fun n => nameOK L n.name && fitsC 2 s n.x && fitsC 2 s n.y) &&
     nodup (g.nodes.map (·.name)) &&
     g.columns.all (columnOK L s g nodes') &&
     nodup (g.columns.map (·.name)) &&
     g.connections.all (fun k => (lookupColumn g.columns k.1).isSome && (lookupColumn g.columns k.2).isSome) &&
     decide g.connections.Nodup &&
     !g.layers.isEmpty &&
     g.layers.all (fun l => nameOK LL l.name && fitsC 2 s l.bottom && fitsC 2 s l.centre) &&
     nodup (g.layers.map (·.name)) &&
     g.wells.all (wellOK s) &&
     nodup (g.wells.map fun w => rjust w.name 5)
   | _, _ => false)

/-- the two header sizes (`10.2e` fields) print identically before and after rounding to three
    significant digits (always true when they fit: `Proofs.GeoFile.sizesStable_of_fits`; kept as an
    executable cross-check) -/
def SizesStable (g : Geo) : Bool :=
  writeField fE (roundE 2 g.hdr.atmosVolume).toVal == writeField fE g.hdr.atmosVolume.toVal &&
  writeField fE (roundE 2 g.hdr.atmosConnection).toVal == writeField fE g.hdr.atmosConnection.toVal

/-- rounding moves no surface across a layer boundary: every comparison the name lists make has
    the same outcome in `g` and in `canonGeo g` -/
def StableSurfaces (g : Geo) : Bool :=
  let g' := canonGeo g
  (g.columns.zip g'.columns).all fun (c, c') =>
    (g.layers.zip g'.layers).all fun (l, l') =>
      (match c.surface, c'.surface with
       | some z, some z' =>
         (decide (z.toRat > l.bottom.toRat) == decide (z'.toRat > l'.bottom.toRat)) &&
         (decide (z.toRat ≤ l.top.toRat) == decide (z'.toRat ≤ l'.top.toRat))
       | _, _ => false)


/-- layer tops are the bottoms of the layers above (`identify_layer_tops`) -/
def layerTopsOK : Flt → List GLayer → Bool
  | _, [] => true
  | t, l :: r => l.top == t && layerTopsOK l.bottom r

/-- the stored tops and default surfaces of `g` are what `identify_layer_tops` and
    `set_default_surface` make them (true of every geometry built or read by the library);
    every column has a surface -/
def Consistent (g : Geo) : Bool :=
  match g.layers with
  | [] => true
  | l0 :: _ =>
    layerTopsOK l0.bottom g.layers &&
    g.columns.all fun c => if c.defaultSurface then c.surface == some l0.bottom else c.surface.isSome

/-- no column surface lies strictly above a layer bottom and yet is written as the same decimal:
    the only way rounding can move a surface across a layer boundary
    (`Proofs.GeoFile.stableSurfaces_iff`) -/
def SurfaceClear (g : Geo) : Bool :=
  let s := scaleOf g
  g.columns.all fun c => g.layers.all fun l =>
    match c.surface with
    | some z => !(decide (z.toRat > l.bottom.toRat) && decide ((canonC 2 s z).toRat = (canonC 2 s l.bottom).toRat))
    | none => true

end Model.GeoFile
