/-
  Model of `t2incons.py` (C13): `t2incon.read`, `t2incon.write`, `add_incon`, `empty`,
  `t2blockincon`, on top of the record layer `Model/Fixed.lean` and the name functions of
  `Model/Names.lean` (`fix_blockname`, `unfix_blockname`, `valid_blockname`), `padstring`.

  A file is a list of lines as `readline()` returns them (each with its `'\n'`; the last one
  possibly without).  Written values are `Val` (exact rationals of the doubles), values read back
  are `PVal` (the exact decimals written; binary rounding is outside the model: A-float).

  The seven record layouts are parameters (`Specs`); the drivers and the theorems instantiate them
  with the table regenerated from /repo (`Gen/Specs.lean`, section `t2incon`).
  Mathlib-free (executed by `drv_c13`).
-/
import PyTough.Model.Fixed
import PyTough.Model.Names
namespace Model.Incon
open Py Model Model.Names

/-- the record kinds of `t2incon_format_specification` -/
structure Specs where
  headerShort : List FieldSpec
  headerLong : List FieldSpec
  incon1 : List FieldSpec
  incon1Tr : List FieldSpec
  incon2 : List FieldSpec
  timing : List FieldSpec
  timingTr : List FieldSpec

/-- `t2blockincon` -/
structure Block (α : Type) where
  block : Str
  vars : List α                       -- `variable`
  porosity : α
  permeability : Option (α × α × α)
  nseq : α
  nadd : α
  deriving Repr, DecidableEq

/-- the `timing` dictionary (all five keys present, as `read` creates it) -/
structure Timing (α : Type) where
  kcyc : α
  iter : α
  nm : α
  tstart : α
  sumtim : α
  deriving Repr, DecidableEq

/-- `t2incon`: `simulator`, `_blocklist` (the `_block` dict is the same blocks keyed by name), `timing` -/
structure Incon (α : Type) where
  simulator : Str
  blocks : List (Block α)
  timing : Option (Timing α)
  deriving Repr, DecidableEq

def TOUGHREACT : Str := ['T', 'O', 'U', 'G', 'H', 'R', 'E', 'A', 'C', 'T']
def TOUGH2 : Str := ['T', 'O', 'U', 'G', 'H', '2']

/-- `padstring(s, 80)` -/
def padstring (s : Str) : Str := ljust s 80

/-! ### write -/

/-- `write_values(vals, linetype)`: the record and a newline -/
def writeLine (fs : List FieldSpec) (vals : List Val) : Except Exc Str := do
  let s ← writeValues fs vals
  pure (s ++ ['\n'])

/-- `while vals: linevals = vals[:min(len(vals), 4)]; …; vals = vals[4:]` -/
def chunks4 {α : Type} : Nat → List α → List (List α)
  | 0, _ => []
  | _, [] => []
  | fuel + 1, a :: r => (a :: r).take 4 :: chunks4 fuel ((a :: r).drop 4)

def headerTitle : Str := "INCON -- INITIAL CONDITIONS FOR".toList
def headerMiddle : Str := " ELEMENTS AT TIME  ".toList
def headerShortTitle : Str := "INCON".toList

/-- the lines `write` emits for one block -/
def writeBlock (S : Specs) (sim : Str) (b : Block Val) : Except Exc (List Str) := do
  let blkname := unfixBlockname b.block
  let l1 ←
    match decide (sim = TOUGHREACT), b.permeability with
    | true, some (k1, k2, k3) => writeLine S.incon1Tr [.str blkname, b.nseq, b.nadd, b.porosity, k1, k2, k3]
    | _, _ => writeLine S.incon1 [.str blkname, b.nseq, b.nadd, b.porosity]
  let ls ← (chunks4 b.vars.length b.vars).mapM (writeLine S.incon2)
  pure (l1 :: ls)

/-- `t2incon.write(filename, reset)`: the lines of the file (or the exception raised on the way) -/
def write (S : Specs) (x : Incon Val) (reset : Bool) : Except Exc (List Str) := do
  let plain := x.timing.isNone || reset
  let header ←
    match x.timing, plain with
    | some t, false => writeLine S.headerLong [.str headerTitle, .int x.blocks.length, .str headerMiddle, t.sumtim]
    | _, _ => writeLine S.headerShort [.str headerShortTitle]
  let body ← x.blocks.mapM (writeBlock S x.simulator)
  let footer ←
    match x.timing, plain with
    | some t, false => do
      let l ← writeLine (if x.simulator = TOUGHREACT then S.timingTr else S.timing) [t.kcyc, t.iter, t.nm, t.tstart, t.sumtim]
      pure [['+', '+', '+', '\n'], l]
    | _, _ => pure [['\n'], ['\n']]
  pure (header :: body.flatten ++ footer)

/-! ### read -/

/-- `file.readline()`: the next line, `''` at end of file -/
def readline : List Str → Str × List Str
  | [] => ([], [])
  | l :: r => (l, r)

/-- `while linevals and linevals[-1] is None: linevals.pop()` -/
def popNones (l : List PVal) : List PVal := (l.reverse.dropWhile (· == PVal.none)).reverse

/-- marker for "the real loop does not terminate here" (`NamingConventionError` cannot arise in
    t2incons.py, so the value is free to serve as the marker) -/
def diverges : Exc := .naming

/-- the inner loop of `read` that collects a block's primary variables.  At end of file with
    `num_variables` still unmet the real loop never terminates (`readline()` keeps returning `''`);
    the model reports that as `diverges` when its fuel (one more than the number of lines left)
    runs out. -/
def readVals (rf : ReadFn) (S : Specs) (nvars : Option Nat) : Nat → List Str → List PVal →
    Except Exc (List PVal × List Str)
  | 0, _, _ => .error diverges
  | fuel + 1, lines, acc => do
    let (line, rest) := readline lines
    let linevals ← parseString rf S.incon2 line
    let vals := acc ++ popNones linevals
    match nvars with
    | none => pure (vals, rest)
    | some n => if vals.length < n then readVals rf S nvars fuel rest vals else pure (vals, rest)

/-- `add_incon`: a block of the same name is replaced in place, otherwise appended -/
def addIncon {α : Type} (bs : List (Block α)) (b : Block α) : List (Block α) :=
  if bs.any (fun x => x.block = b.block) then bs.map (fun x => if x.block = b.block then b else x)
  else bs ++ [b]

/-- result of the block loop: simulator, blocks, whether a `+++` line ended it, remaining lines -/
abbrev LoopOut := Str × List (Block PVal) × Bool × List Str

/-- the `while not finished` loop of `read` (one block per iteration) -/
def readBlocks (rf : ReadFn) (S : Specs) (nvars : Option Nat) (check : Bool) :
    Nat → List Str → Str → List (Block PVal) → Except Exc LoopOut
  | 0, _, _, _ => .error .generic
  | fuel + 1, lines, sim, bs =>
    let (line, rest) := readline lines
    if (strip line).isEmpty then .ok (sim, bs, false, rest)
    else if line.take 3 = ['+', '+', '+'] then .ok (sim, bs, true, rest)
    else
      match parseString rf S.incon1Tr (padstring line) with
      | .error e => .error e
      | .ok [blk, nseq, nadd, porosity, k1, k2, k3] =>
        match blk with
        | .str blkname =>
          match (if check then validBlockname blkname else .ok true) with
          | .error e => .error e
          | .ok false => .error .generic       -- raise Exception('Invalid block name …')
          | .ok true =>
            match fixBlockname blkname with
            | .error e => .error e
            | .ok name =>
              let noperm := k1 = PVal.none ∨ k2 = PVal.none ∨ k3 = PVal.none
              let perm : Option (PVal × PVal × PVal) := if noperm then none else some (k1, k2, k3)
              let sim' := if noperm then sim else TOUGHREACT
              match readVals rf S nvars (rest.length + 1) rest [] with
              | .error e => .error e
              | .ok (vals, rest') =>
                readBlocks rf S nvars check fuel rest' sim'
                  (addIncon bs { block := name, vars := vals, porosity := porosity, permeability := perm,
                                 nseq := nseq, nadd := nadd })
        | _ => .error .typeError
      | .ok _ => .error .valueError              -- unpacking into seven names

/-- `t2incon.read(filename, num_variables, check_blocknames)` on an object whose `simulator`
    attribute is `sim0` (`'TOUGH2'` when called from the constructor) -/
def read (rf : ReadFn) (S : Specs) (sim0 : Str) (nvars : Option Nat) (check : Bool) (file : List Str) :
    Except Exc (Incon PVal) := do
  let (_, lines) := readline file                     -- skip header
  let (sim, bs, timing, rest) ← readBlocks rf S nvars check (lines.length + 1) lines sim0 []
  if timing then
    let (line, _) := readline rest
    if (strip line).isEmpty then pure { simulator := sim, blocks := bs, timing := none }
    else
      match ← parseString rf (if sim = TOUGHREACT then S.timingTr else S.timing) (padstring line) with
      | [kcyc, itr, nm, tstart, sumtim] =>
        pure { simulator := sim, blocks := bs,
               timing := some { kcyc := kcyc, iter := itr, nm := nm, tstart := tstart, sumtim := sumtim } }
      | _ => .error .valueError
  else pure { simulator := sim, blocks := bs, timing := none }

/-! ### text ↔ lines, and read values handed back to `write` -/

/-- universal-newline translation of text mode, then split after each `'\n'` -/
def splitLines (text : Str) : List Str :=
  let rec norm : Str → Str
    | '\r' :: '\n' :: r => '\n' :: norm r
    | '\r' :: r => '\n' :: norm r
    | c :: r => c :: norm r
    | [] => []
  let rec go (cur : Str) : Str → List Str
    | [] => if cur.isEmpty then [] else [cur.reverse]
    | c :: r => if c = '\n' then ('\n' :: cur).reverse :: go [] r else go (c :: cur) r
  go [] (norm text)

/-- a value read from a file as the Python value it becomes (exact decimal; `float()` rounds it to
    the nearest double outside the model) -/
def pvalToVal : PVal → Val
  | .none => .none
  | .int i => .int i
  | .str s => .str s
  | .flt (.inf n) => .inf n
  | .flt .nan => .nan
  | .flt (.fin neg m e) =>
    if m = 0 then (if neg then .negZero else .real 0)
    else
      let q : Rat := if e ≥ 0 then mkRat ((m * 10 ^ e.toNat : Nat) : Int) 1 else mkRat (m : Int) (10 ^ (-e).toNat)
      .real (if neg then -q else q)

/-- the IEEE-754 double nearest to `n/d` (round-half-even on the 53-bit significand, subnormals,
    overflow to infinity), as an exact rational: CPython's correctly rounded `float(text)` -/
def nearestDouble (neg : Bool) (n d : Nat) : Val :=
  if n = 0 then (if neg then .negZero else .real 0)
  else
    let t : Int := (Nat.log2 n : Int) - (Nat.log2 d : Int)
    let ge : Bool := if t ≥ 0 then decide (n ≥ d * 2 ^ t.toNat) else decide (n * 2 ^ (-t).toNat ≥ d)
    let l : Int := if ge then t else t - 1                 -- floor(log2(n/d))
    let k : Int := if l - 52 ≥ -1074 then l - 52 else -1074
    let q : Nat := if k ≥ 0 then roundHalfEven n (d * 2 ^ k.toNat) else roundHalfEven (n * 2 ^ (-k).toNat) d
    if q = 0 then (if neg then .negZero else .real 0)
    else if (if k ≥ 0 then decide (q * 2 ^ k.toNat ≥ 2 ^ 1024) else false) then .inf neg
    else
      let r : Rat := if k ≥ 0 then mkRat ((q * 2 ^ k.toNat : Nat) : Int) 1 else mkRat (q : Int) (2 ^ (-k).toNat)
      .real (if neg then -r else r)

/-- a value read from a file as the Python `float` it becomes (used by the driver for the second
    generation; the theorems use the exact decimal `pvalToVal`, the difference is assumption A-float) -/
def pvalToDouble : PVal → Val
  | .flt (.fin neg m e) =>
    if e ≥ 0 then nearestDouble neg (m * 10 ^ e.toNat) 1 else nearestDouble neg m (10 ^ (-e).toNat)
  | v => pvalToVal v

def Block.mapVals {α β : Type} (f : α → β) (b : Block α) : Block β :=
  { block := b.block, vars := b.vars.map f, porosity := f b.porosity,
    permeability := b.permeability.map (fun k => (f k.1, f k.2.1, f k.2.2)),
    nseq := f b.nseq, nadd := f b.nadd }

def Incon.mapVals {α β : Type} (f : α → β) (x : Incon α) : Incon β :=
  { simulator := x.simulator, blocks := x.blocks.map (Block.mapVals f),
    timing := x.timing.map (fun t => { kcyc := f t.kcyc, iter := f t.iter, nm := f t.nm,
                                       tstart := f t.tstart, sumtim := f t.sumtim }) }

/-- the re-read object handed back to `write`, values as exact decimals -/
def Incon.toVal (x : Incon PVal) : Incon Val := x.mapVals pvalToVal
/-- … values as the doubles Python holds -/
def Incon.toDouble (x : Incon PVal) : Incon Val := x.mapVals pvalToDouble

end Model.Incon
