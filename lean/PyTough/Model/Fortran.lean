/-
  Model of `fixed_format_file.fortran_float` / `fortran_int`, transcribed
  statement by statement including the `try/except` structure:

    try: return float(s)
    except ValueError:
        s = s.strip()
        if not s: return blank_value
        else:
            try:
                s = s.lower().replace('d', 'e').replace(' ', '')
                return float(s)
            except:                       # bare: catches everything
                try:
                    return float(''.join([s[0], s[1:].replace('-', 'e-')]))
                except ValueError:
                    try:
                        return float(''.join([s[0], s[1:].replace('+', 'e')]))
                    except ValueError: return nan
    except: return nan

  An exception raised inside the `except ValueError:` handler is *not* caught by
  the sibling bare `except:`; in particular an `IndexError` from `s[0]` would
  escape.  The model keeps that possibility (`Except Exc`), and the totality
  theorem shows it cannot happen.
-/
import PyTough.Py.Num
namespace Model
open Py

/-- result of a Fortran reader: a value, or the caller's `blank_value` -/
inductive FOut (α : Type) where
  | val (v : α)
  | blank
  deriving DecidableEq, Repr

/-- `s[0]` -/
def index0 : Str → Except Exc Char
  | [] => .error .indexError
  | c :: _ => .ok c

/-- `''.join([s[0], s[1:].replace(c, t)])` -/
def headReplace (s : Str) (c : Char) (t : Str) : Except Exc Str := do
  let h ← index0 s
  pure (h :: replaceChar c t (s.drop 1))

def fortranFloat (s : Str) : Except Exc (FOut FVal) :=
  match pyFloat s with
  | .ok v => .ok (.val v)
  | .error .valueError =>
    let s1 := strip s
    if s1.isEmpty then .ok .blank
    else
      -- the assignment to `s` completes before `float` can raise
      let s2 := replaceChar ' ' [] (replaceChar 'd' ['e'] (lower s1))
      match pyFloat s2 with
      | .ok v => .ok (.val v)
      | .error _ =>
        match (headReplace s2 '-' ['e', '-'] >>= pyFloat) with
        | .ok v => .ok (.val v)
        | .error .valueError =>
          match (headReplace s2 '+' ['e'] >>= pyFloat) with
          | .ok v => .ok (.val v)
          | .error .valueError => .ok (.val .nan)
          | .error e => .error e
        | .error e => .error e
  | .error _ => .ok (.val .nan)

/-- `fortran_int`; `none` inside `val` stands for Python `None` (the error result). -/
def fortranInt (s : Str) : Except Exc (FOut (Option Int)) :=
  match pyInt s with
  | .ok v => .ok (.val (some v))
  | .error .valueError =>
    let s1 := strip s
    if s1.isEmpty then .ok .blank
    else
      match pyInt (replaceChar ' ' [] s1) with
      | .ok v => .ok (.val (some v))
      | .error _ => .ok (.val none)
  | .error e => .error e   -- not a ValueError: propagates (there is no bare `except`)

end Model
