/-
  Column subdivision as coded in `/repo/mulgrids.py`, at the level of ONE parent column with
  symbolic vertices (C11, and used by the whole-geometry operations in `Model/GeoOps.lean`).

    mulgrid.refine            nested `transition_type`, the `transition_column` table
                              (from `Gen/RefineTables.lean`), the vertex resolution
                              `col.node[(istart + vert) % nn]` / `sidenodes[frozenset(...)]` / centre node
    mulgrid.subdivide_column  `col.node[col.index_plus(i0, i)]` / centre node
    mulgrid.triangulate_column, decompose_column (case table from `Gen/`), split_column

  A sub-column is a list of `Vert` (parent corner index, mid-side node of a parent side, centre
  node).  `subdivision nn sides` is what `refine` builds for a parent with `nn` nodes whose
  refined sides (ascending local indices) are `sides`.

  The combinatorial content of "the new columns tile the old one" is `boundaryOK`: the directed
  edges of all sub-columns, after cancelling each edge against its reverse, are exactly the
  parent's boundary with the refined sides split at their mid-side nodes.
-/
import PyTough.Py.Str
import PyTough.Model.Geo
import PyTough.Gen.RefineTables
namespace Model.Refine
open Gen.RefineTables Model.Geo

/-! ### `transition_type` -/

/--
```
    nref = len(sides)
    missing = list(set(range(nn)) - set(sides))
    nunref = len(missing)
    if nref == 1: return 1, sides[0], 0
    elif nref == nn: return nn, 0, nn - 1
    elif nunref == 1: return nref, (missing[0] + 1) % nn, nn - 2
    elif nn == 4 and nref == 2:
        diff = sides[1] - sides[0]
        if diff < 3: return nref, sides[0], diff
        else: return nref, sides[1], 1
    else: print('Error ...')          # returns None
```
-/
def transitionType (nn : Nat) (sides : List Nat) : Option (Nat × Nat × Nat) :=
  let nref := sides.length
  let missing := (List.range nn).filter (fun i => !sides.contains i)
  let nunref := missing.length
  if nref = 1 then some (1, sides.getD 0 0, 0)
  else if nref = nn then some (nn, 0, nn - 1)
  else if nunref = 1 then some (nref, (missing.getD 0 0 + 1) % nn, nn - 2)
  else if nn = 4 ∧ nref = 2 then
    let diff := sides.getD 1 0 - sides.getD 0 0
    if diff < 3 then some (nref, sides.getD 0 0, diff) else some (nref, sides.getD 1 0, 1)
  else none

/-- `transition_column[nn][nrefined, irange]` (`none` = KeyError) -/
def tableEntry (nn nref irange : Nat) : Option (List Poly) :=
  (transitionColumn.lookup nn).bind (·.lookup (nref, irange))

/-- the condition guarding the creation of a centre node in `refine`, as written:
    `(col.num_nodes == 4) and ((nrefined == 4) or ((nrefined == 2) and (irange == 1)))` -/
def needsCentre (nn nref irange : Nat) : Bool :=
  nn == 4 && (nref == 4 || (nref == 2 && irange == 1))

/-! ### vertex resolution -/

/-- `sidenodes` is keyed by the *unordered* pair of end-node names: normalise `mid i j` to `i ≤ j` -/
def normVert : Vert → Vert
  | .mid i j => if i ≤ j then .mid i j else .mid j i
  | v => v

/-- a table vertex (relative to `istart`) as a vertex of the parent:
    `col.node[(istart + vert) % nn]`, `sidenodes[frozenset(col.node[(istart + i) % nn] for i in vert)]`, centre -/
def shiftVert (nn istart : Nat) : Vert → Vert
  | .corner i => .corner ((istart + i) % nn)
  | .mid i j => normVert (.mid ((istart + i) % nn) ((istart + j) % nn))
  | .centre => .centre

/-- the sub-columns `refine` creates for a parent with `nn` nodes and refined sides `sides` -/
def subdivision (nn : Nat) (sides : List Nat) : Option (List Poly) :=
  match transitionType nn sides with
  | none => none
  | some (nref, istart, irange) =>
    match tableEntry nn nref irange with
    | none => none
    | some e => some (e.map (·.map (shiftVert nn istart)))

/-- does `refine` create a centre node for this parent? -/
def subdivisionCentre (nn : Nat) (sides : List Nat) : Bool :=
  match transitionType nn sides with
  | none => false
  | some (nref, _, irange) => needsCentre nn nref irange

/-! ### `subdivide_column`, `triangulate_column`, `decompose_column`, `split_column` -/

/-- `subdivide_column(column_name, i0, colnodelist)`: `col.node[col.index_plus(i0, i)]` or the centre node -/
def subdivide (nn i0 : Nat) (colnodelist : List Poly) : List Poly :=
  colnodelist.map (·.map fun
    | .corner i => .corner ((i0 + i) % nn)
    | v => v)

/-- `triangulate_column`: `(i, index_plus(i, 1), 'c')` for every node `i`, subdivided from 0 -/
def triangulate (nn : Nat) : List Poly :=
  subdivide nn 0 ((List.range nn).map fun i => [.corner i, .corner ((i + 1) % nn), .centre])

/-- `col.index_minus(i, d)` -/
def indexMinus (nn i d : Nat) : Nat := if i < d then i + nn - d else i - d
/-- `col.index_dist(i1, i2)` -/
def indexDist (nn i1 i2 : Nat) : Nat :=
  let d := if i1 ≤ i2 then i2 - i1 else i1 - i2
  if 2 * d > nn then nn - d else d

/-- `[s for s, l in zip(straight, last2) if l not in straight][0]` (`none` = IndexError) -/
def afterGapStart (nn : Nat) (straight : List Nat) : Option Nat :=
  (straight.filter fun s => !straight.contains (indexMinus nn s 2)).head?

/-- `decompose_column` for a column with `nn` nodes whose straight nodes (ascending local indices) are
    `straight`.  `none` = the column is returned unchanged (`nn ≤ 4`); `some (ok polys)` otherwise. -/
def decompose (nn : Nat) (straight : List Nat) : Option (Except Py.Exc (List Poly)) :=
  if nn ≤ 4 then none
  else if nn ≤ 8 then
    let ns := straight.length
    let d := indexDist nn (straight.getD 0 0) (straight.getD 1 0)
    -- the first listed case that matches (nn, ns) and, where the code branches on it, d
    let hit := decomposeCases.filter fun c => c.nn = nn ∧ c.ns = ns
    if hit.isEmpty then some (.ok (triangulate nn))
    else
      match hit.find? (fun c => c.d = none ∨ c.d = some d) with
      | none => some (.ok (triangulate nn))
      | some c =>
        match c.start with
        | .first => some (.ok (subdivide nn (straight.getD 0 0) c.polys))
        | .afterGap =>
          match afterGapStart nn straight with
          | none => some (.error .indexError)
          | some s => some (.ok (subdivide nn s c.polys))
  else some (.ok (triangulate nn))

/-- `split_column(colname, nodename)` with `i0` the local index of the chosen node in a 4-node
    column: the old column keeps its nodes minus `i[3]`, the new one is `[i[2], i[3], i[0]]`.
    Returned in the *old column's node order* (deleting an element does not rotate the list). -/
def splitOld (i0 : Nat) : Poly :=
  ((List.range 4).filter (· ≠ (i0 + splitDeleted) % 4)).map .corner
def splitNewPoly (i0 : Nat) : Poly := splitNew.map fun k => .corner ((i0 + k) % 4)

/-! ### the tiling identity on directed edges -/

abbrev Edge := Vert × Vert

/-- cancel every directed edge against a later-surviving reverse edge -/
def cancel : List Edge → List Edge
  | [] => []
  | e :: es =>
    let r := cancel es
    if (e.2, e.1) ∈ r then r.erase (e.2, e.1) else e :: r

def polyEdges (ps : List Poly) : List Edge := ps.flatMap cyc

/-- the parent's boundary, counter-clockwise, each refined side split at its mid-side node -/
def refBoundary (nn : Nat) (sides : List Nat) : List Edge :=
  (List.range nn).flatMap fun i =>
    let j := (i + 1) % nn
    if sides.contains i then [(.corner i, normVert (.mid i j)), (normVert (.mid i j), .corner j)]
    else [(.corner i, .corner j)]

/-- the directed edges of the sub-columns, after cancellation, are a rearrangement of the parent's
    (refined) boundary -/
def boundaryOK (nn : Nat) (sides : List Nat) (subs : List Poly) : Bool :=
  (cancel (polyEdges subs)).isPerm (refBoundary nn sides)

/-- every vertex used exists: corners `< nn`; a mid-side node only on a refined side; the centre
    node only when one is created -/
def vertsAvailable (nn : Nat) (sides : List Nat) (centre : Bool) (subs : List Poly) : Bool :=
  subs.all fun p => p.all fun
    | .corner i => i < nn
    | .mid i j => (sides.contains i && j = (i + 1) % nn) || (sides.contains j && i = (j + 1) % nn)
    | .centre => centre

/-- all ascending sub-lists (Python: `refined_sides` is built in ascending order) -/
def sublists {α} : List α → List (List α)
  | [] => [[]]
  | a :: t => (sublists t).map (a :: ·) ++ sublists t

/-! ### evaluation on coordinates -/

/-- a valuation of the symbolic vertices -/
structure Val where
  corner : Nat → Pt
  centre : Pt

/-- mid-side nodes are created at `0.5 * (node1.pos + node2.pos)` -/
def Val.at (ρ : Val) : Vert → Pt
  | .corner i => ρ.corner i
  | .mid i j => Pt.mid (ρ.corner i) (ρ.corner j)
  | .centre => ρ.centre

/-- twice the signed area of a symbolic polygon under a valuation (shoelace) -/
def area2 (ρ : Val) (p : Poly) : Rat := shoelace2 (p.map ρ.at)

def parentPoly (nn : Nat) : Poly := (List.range nn).map .corner

end Model.Refine
