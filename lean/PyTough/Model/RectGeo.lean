/-
  Model of `t2grid.rectgeo` (property C18): reverse-engineering a rectangular geometry from a
  TOUGH2 grid.

    t2grids.py   rectgeo and its nested helpers: blockelevs / topmost_block / find_origin_block,
                 con_name_index, next_block_in_direction, block_direction_track, block_spacings,
                 block_mapping, match_position, find_surface, required_centres_present
    mulgrids.py  rectangular (geometry; the *names* come from `Model.Names.rectangular`),
                 add_layers, rotate, translate, set_column_num_layers, snap_columns_to_layers
    geometry.py  vector_heading (through the rotation it induces), polygon_centroid (rectangles)

  Exact rationals.  The only irrational step is the normalisation of the direction vector in
  `match_position` (`asin(p[0]/norm(p))`, then `cos`/`sin` of the angle): the model takes the
  norm `‖Δ‖` as a parameter `nrm` supplied by the caller — the driver passes the exact root when
  `‖Δ‖²` is a perfect square (axis-aligned grids), else a rational approximation to 10⁻³⁰.

  A block's `connection_name` is a Python *set*; its iteration order is not defined.  The model
  iterates in `connectionlist` order; `Props.C18.direction_track_sizes` shows that on a line of
  blocks the candidate is unique, so the order is immaterial there.
-/
import PyTough.Model.FromGeo
import PyTough.Model.Names
namespace Model.RectGeo
open Py Model.FromGeo

structure GBlock where
  name : Str
  volume : Rat
  centre : Option P3
  deriving DecidableEq, Repr, Inhabited

structure GConn where
  b0 : Str
  b1 : Str
  dirn : Nat
  d0 : Rat
  d1 : Rat
  deriving DecidableEq, Repr, Inhabited

structure TGrid where
  blocks : List GBlock
  conns : List GConn
  deriving Repr, Inhabited

/-- `grid.block[name]` -/
def findB (T : TGrid) (n : Str) : Except Exc GBlock :=
  match T.blocks.find? (fun b => b.name = n) with
  | some b => .ok b
  | none => .error .keyError

/-- `grid.connection[con].distance[con_name_index(con, blkname)]`; index `None` is a `TypeError` -/
def conDist (c : GConn) (n : Str) : Except Exc Rat :=
  if c.b0 = n then .ok c.d0 else if c.b1 = n then .ok c.d1 else .error .typeError

/-- `0. < blk.volume < max_volume` (`max_volume is None`: always true) -/
def volOk (maxVol : Option Rat) (b : GBlock) : Bool :=
  match maxVol with
  | none => true
  | some mv => decide (0 < b.volume) && decide (b.volume < mv)

/-- `blk.connection_name` (a set: listed here in `connectionlist` order) -/
def connsOf (T : TGrid) (n : Str) : List GConn :=
  T.conns.filter (fun c => c.b0 = n || c.b1 = n)

/-- the block at the other end: `grid.block[con[(con_name_index(con, blk.name) + 1) % 2]]` -/
def otherEnd (c : GConn) (n : Str) : Str := if c.b0 = n then c.b1 else c.b0

/-- the `for con in cons` loop of `next_block_in_direction` -/
def nextScan (T : TGrid) (blk : Str) (maxVol : Option Rat) : List GConn → Except Exc (Option (GBlock × GConn))
  | [] => .ok none
  | c :: cs =>
    match findB T (otherEnd c blk) with
    | .error e => .error e
    | .ok nb => if volOk maxVol nb then .ok (some (nb, c)) else nextScan T blk maxVol cs

/-- candidates of `next_block_in_direction` -/
def candidates (T : TGrid) (blk : Str) (last : Option Str) (dirn : Nat) : List GConn :=
  let cons := (connsOf T blk).filter (fun c => c.dirn = dirn)
  match last with
  | some l => cons.filter (fun c => c.b0 ≠ l && c.b1 ≠ l)
  | none => cons

/-- `next_block_in_direction(blk, last, direction, grid, max_volume)` -/
def nextBlock (T : TGrid) (blk : Str) (last : Option Str) (dirn : Nat) (maxVol : Option Rat) :
    Except Exc (Option (GBlock × GConn)) :=
  nextScan T blk maxVol (candidates T blk last dirn)

/-- the `while not done` loop of `block_direction_track`; `fuel` bounds the number of steps
    (a cyclic grid would loop for ever in Python: `generic` when exhausted). -/
def trackLoop (T : TGrid) (dirn : Nat) (maxVol : Option Rat) :
    Nat → GBlock → Option Str → Option GConn → List GBlock → List Rat → Except Exc (List GBlock × List Rat)
  | 0, _, _, _, _, _ => .error .generic
  | fuel + 1, blk, last, con, blks, sizes =>
    let ok := volOk maxVol blk
    let blks1 := if ok then blks ++ [blk] else blks
    match nextBlock T blk.name last dirn maxVol with
    | .error e => .error e
    | .ok (some (nb, c)) =>
      if ok then
        match conDist c blk.name with
        | .error e => .error e
        | .ok d => trackLoop T dirn maxVol fuel nb (some blk.name) (some c) blks1 (sizes ++ [2 * d])
      else trackLoop T dirn maxVol fuel nb (some blk.name) (some c) blks1 sizes
    | .ok none =>
      match con with
      | some lc =>
        match conDist lc blk.name with
        | .error e => .error e
        | .ok d => .ok (blks1, sizes ++ [2 * d])
      | none => .ok (blks1, sizes)

/-- `block_direction_track(grid, start_block, dirn, max_volume)` -/
def track (T : TGrid) (start : GBlock) (dirn : Nat) (maxVol : Option Rat) :
    Except Exc (List GBlock × List Rat) :=
  trackLoop T dirn maxVol (T.blocks.length + 1) start none none [] []

/-! ### lines of blocks (hypothesis of `Props.C18.direction_track_sizes`, evaluated by the driver) -/

/-- connection `c` joins the blocks named `a` and `b` (either orientation) -/
def joins (c : GConn) (a b : Str) : Bool := (c.b0 = a && c.b1 = b) || (c.b0 = b && c.b1 = a)

def touches (c : GConn) (l : Str) : Bool := c.b0 = l || c.b1 = l

/-- the block at the other end of `c` is registered but not admissible (a boundary block:
    zero or huge volume), so `next_block_in_direction` passes over it -/
def inadmissible (T : TGrid) (mv : Option Rat) (n : Str) (c : GConn) : Bool :=
  match findB T (otherEnd c n) with
  | .ok nb => !volOk mv nb
  | .error _ => false

/-- every direction-`k` connection of `T` that touches block `n` is in `allowed`, or leads to a
    boundary block -/
def incidentAmong (T : TGrid) (k : Nat) (mv : Option Rat) (n : Str) (allowed : List GConn) : Bool :=
  T.conns.all fun c => !(decide (c.dirn = k) && touches c n) || allowed.contains c || inadmissible T mv n c

/-- `isLine T k mv last prev b steps`: standing on block `b`, reached from the block named `last`
    through connection `prev` (both absent at the start): the only direction-`k` connections of `b`
    are `prev`, the next step's connection and connections to boundary blocks; each step's connection is a connection of the grid
    in direction `k` joining `b` to the next block and not touching `last`; the next block is
    registered and admissible (`0 < volume < max_volume`). -/
def isLine (T : TGrid) (k : Nat) (mv : Option Rat) : Option Str → Option GConn → GBlock → List (GConn × GBlock) → Bool
  | last, prev, b, [] =>
    incidentAmong T k mv b.name prev.toList &&
    prev.all (fun p => match last with | some l => touches p l | none => false)
  | last, prev, b, (c, nb) :: rest =>
    incidentAmong T k mv b.name (prev.toList ++ [c]) &&
    prev.all (fun p => match last with | some l => touches p l | none => false) &&
    T.conns.contains c && decide (c.dirn = k) && joins c b.name nb.name &&
    (match last with | some l => !touches c l | none => true) &&
    decide (findB T nb.name = .ok nb) && volOk mv nb && isLine T k mv (some b.name) (some c) nb rest

/-- the connection's own distance for block `n` -/
def distAt (c : GConn) (n : Str) : Rat := if c.b0 = n then c.d0 else c.d1

def lineBlocks (b : GBlock) (steps : List (GConn × GBlock)) : List GBlock := b :: steps.map (·.2)

def lineSizes : Option GConn → GBlock → List (GConn × GBlock) → List Rat
  | none, _, [] => []
  | some lc, b, [] => [2 * distAt lc b.name]
  | _, b, (c, nb) :: rest => 2 * distAt c b.name :: lineSizes (some c) nb rest

/-- the steps `block_direction_track` takes from `b` (used by the driver to *evaluate* `isLine`
    on the tracks of an actual grid) -/
def stepsFrom (T : TGrid) (k : Nat) (mv : Option Rat) : Nat → GBlock → Option Str → List (GConn × GBlock)
  | 0, _, _ => []
  | fuel + 1, b, last =>
    match nextBlock T b.name last k mv with
    | .ok (some (nb, c)) => (c, nb) :: stepsFrom T k mv fuel nb (some b.name)
    | _ => []

/-- elevation used by `blockelevs`: `none` is `nan` -/
def elev (maxVol : Option Rat) (b : GBlock) : Option Rat :=
  match b.centre with
  | none => none
  | some c => if volOk maxVol b then some c.z else none

/-- `np.nanargmax` / `np.nanargmin` (first extremum); all-nan raises `ValueError` -/
def argBest (better : Rat → Rat → Bool) (maxVol : Option Rat) : List GBlock → Option (GBlock × Rat)
  | [] => none
  | b :: bs =>
    match elev maxVol b, argBest better maxVol bs with
    | none, r => r
    | some z, none => some (b, z)
    | some z, some (b', z') => if better z' z then some (b', z') else some (b, z)

def topmostBlock (T : TGrid) (maxVol : Option Rat) : Except Exc GBlock :=
  match argBest (fun a b => decide (b < a)) maxVol T.blocks with
  | some (b, _) => .ok b
  | none => .error .valueError

def findOriginBlock (T : TGrid) : Except Exc GBlock :=
  match argBest (fun a b => decide (a < b)) none T.blocks with
  | some (b, _) => .ok b
  | none => .error .valueError

/-- `blks[0].centre[2] < blks[-1].centre[2]` -/
def firstBelowLast (blks : List GBlock) : Except Exc Bool :=
  match blks.head?, blks.getLast? with
  | some a, some b =>
    match a.centre, b.centre with
    | some ca, some cb => .ok (decide (ca.z < cb.z))
    | _, _ => .error .typeError
  | _, _ => .error .indexError

/-- the origin block's own size in a present direction: `spacings[pd][0] if pd < 3 else
    spacings[pd][-1]` (it is first along directions 1 and 2 and in the bottom layer) -/
def ownSpacing (s1 s2 s3 : List Rat) (pd : Nat) : Except Exc Rat :=
  match (if pd = 1 then s1.head? else if pd = 2 then s2.head? else s3.getLast?) with
  | some x => .ok x
  | none => .error .indexError

/-- `d /= spacings[pd][...]` over the present directions -/
def missingSpacing (s1 s2 s3 : List Rat) : List Nat → Rat → Except Exc Rat
  | [], d => .ok d
  | pd :: rest, d =>
    match ownSpacing s1 s2 s3 pd with
    | .error e => .error e
    | .ok x => missingSpacing s1 s2 s3 rest (d / x)

/-- `block_spacings(grid, ob, max_volume)`: the spacings in directions 1, 2, 3 -/
def blockSpacings (T : TGrid) (ob : GBlock) (maxVol : Rat) : Except Exc (List Rat × List Rat × List Rat) :=
  match track T ob 1 (some maxVol) with
  | .error e => .error e
  | .ok (_, s1) =>
  match track T ob 2 (some maxVol) with
  | .error e => .error e
  | .ok (_, s2) =>
  match topmostBlock T (some maxVol) with
  | .error e => .error e
  | .ok tb =>
  match track T tb 3 (some maxVol) with
  | .error e => .error e
  | .ok (b3, s3raw) =>
  match firstBelowLast b3 with
  | .error e => .error e
  | .ok rev =>
    let s3 := if rev then s3raw.reverse else s3raw
    let missing := (if s1.isEmpty then [1] else []) ++ (if s2.isEmpty then [2] else []) ++ (if s3.isEmpty then [3] else [])
    match missing with
    | [dm] =>
      match missingSpacing s1 s2 s3 ([1, 2, 3].filter (· ≠ dm)) ob.volume with
      | .error e => .error e
      | .ok d =>
        if dm = 1 then .ok ([d], s2, s3) else if dm = 2 then .ok (s1, [d], s3) else .ok (s1, s2, [d])
    | [_, _] => .error .generic       -- "Mesh appears to be 1-D"
    | _ => .ok (s1, s2, s3)

/-! ### `mulgrid().rectangular(spacings...)` with the default origin -/

/-- `[0.] + np.cumsum(blocks)` -/
def verts : Rat → List Rat → List Rat
  | x, [] => [x]
  | x, d :: ds => x :: verts (x + d) ds

/-- columns, row by row (`for j in range(nyb): for i in range(nxb)`), named by `names` -/
def rectRow (y0 y1 : Rat) (surface : Rat) : List Rat → List Str → List Column
  | x0 :: x1 :: xs, n :: ns =>
    -- nodes (j,i), (j+1,i), (j+1,i+1), (j,i+1); centre = polygon_centroid = midpoint
    mkColumn n [⟨x0, y0⟩, ⟨x0, y1⟩, ⟨x1, y1⟩, ⟨x1, y0⟩] ⟨(x0 + x1) / 2, (y0 + y1) / 2⟩ surface
      :: rectRow y0 y1 surface (x1 :: xs) ns
  | _, _ => []

def rectCols (xv : List Rat) (nx : Nat) (surface : Rat) : List Rat → List Str → List Column
  | y0 :: y1 :: ys, names => rectRow y0 y1 surface xv (names.take nx) ++ rectCols xv nx surface (y1 :: ys) (names.drop nx)
  | _, _ => []

/-- `add_layers(thicknesses, 0)` + `identify_layer_tops` -/
def rectLayers : Rat → List Rat → List Str → List Layer
  | z, t :: ts, n :: ns => ⟨n, z - t, (z - t) + (1 / 2 : Rat) * t, z⟩ :: rectLayers (z - t) ts ns
  | _, _, _ => []

/-- x-connections (`for j: for i in range(nxb-1)`) then y-connections (`for i: for j in range(nyb-1)`) -/
def colAt (cols : List Column) (nx j i : Nat) : Column := cols.getD (j * nx + i) default

/-- `connection_nodes([a, b])` for two columns with more than two nodes: the first pair of
    consecutive nodes of `a` (cyclically) that both belong to `b` (nodes are identified by
    position: distinct nodes of a rectangular grid have distinct positions) -/
def connectionNodes (a b : Column) : P2 × P2 :=
  match (cyclicPairs a.nodes).find? (fun pq => b.nodes.contains pq.1 && b.nodes.contains pq.2) with
  | some pq => pq
  | none => (default, default)

def mkConn (a b : Column) : Conn :=
  let pq := connectionNodes a b
  ⟨a, b, pq.1, pq.2⟩

def rectConns (cols : List Column) (nx ny : Nat) : List Conn :=
  ((List.range ny).flatMap fun j => (List.range (nx - 1)).map fun i =>
      mkConn (colAt cols nx j i) (colAt cols nx j (i + 1))) ++
  ((List.range nx).flatMap fun i => (List.range (ny - 1)).map fun j =>
      mkConn (colAt cols nx j i) (colAt cols nx (j + 1) i))

structure NameOpts where
  conv : Nat
  atm : Nat
  left : Bool
  chars : Str
  spaces : Bool
  blockOrder : Nat
  deriving Repr, Inhabited

/-- the geometry `rectangular` returns (default origin, default surface, caches fresh) -/
def rectangularGeo (o : NameOpts) (dx dy dz : List Rat) : Except Exc Geo :=
  match Model.Names.rectangular dx.length dy.length dz.length o.conv o.atm o.left none o.chars o.spaces with
  | .error e => .error e
  | .ok nm =>
    match nm.layers with
    | [] => .error .generic
    | n0 :: lnames =>
      let xv := verts 0 dx
      let yv := verts 0 dy
      let cols := rectCols xv dx.length 0 yv nm.cols
      let g : Geo :=
        { convention := o.conv, atmType := o.atm, atmVolume := 10 ^ 25, atmConn := mkRat 1 1000000,
          blockOrder := o.blockOrder, layer0 := ⟨n0, 0, 0, 0⟩, layers := rectLayers 0 dz lnames,
          columns := cols, conns := rectConns cols dx.length dy.length,
          tilt := ⟨0, 0, -1⟩, rot := ⟨1, 0⟩, blockNames := [] }
      match blockNameList g with
      | .error e => .error e
      | .ok bn => .ok { g with blockNames := bn }

/-! ### `block_mapping` -/

/-- the `for lay in geo.layerlist[::-1]` loop for one column, starting at block `blk` -/
def mapColumn (T : TGrid) (g : Geo) (maxVol : Rat) (col : Column) :
    List Layer → GBlock → Option Str → BlockMap → Except Exc BlockMap
  | [], _, _, mp => .ok mp
  | lay :: ls, blk, last3, mp =>
    match blockName g.convention lay.name col.name with
    | .error e => .error e
    | .ok gn =>
      let mp1 := mp ++ [(gn, blk.name)]
      match nextBlock T blk.name last3 3 (some maxVol) with
      | .error e => .error e
      | .ok (some (nb, _)) => mapColumn T g maxVol col ls nb (some blk.name) mp1
      | .ok none =>
        match nextBlock T blk.name last3 3 none with
        | .error e => .error e
        | .ok none => .ok mp1
        | .ok (some (ab, _)) =>
          if g.atmType = 0 then
            match blockName g.convention g.layer0.name (atmColName g.convention) with
            | .error e => .error e
            | .ok an => .ok (mp1 ++ [(an, ab.name)])
          else if g.atmType = 1 then
            match blockName g.convention g.layer0.name col.name with
            | .error e => .error e
            | .ok an => .ok (mp1 ++ [(an, ab.name)])
          else .ok mp1

/-- `start1 = next1` may become `None`; using it afterwards is an `AttributeError` -/
def needBlock (b : Option GBlock) : Except Exc GBlock :=
  match b with
  | some x => .ok x
  | none => .error .generic

/-- inner loop `for i1 in range(nblks[1])` -/
def mapRow (T : TGrid) (g : Geo) (maxVol : Rat) :
    Nat → List Column → Option GBlock → Option Str → BlockMap → Except Exc (BlockMap × List Column)
  | 0, cols, _, _, mp => .ok (mp, cols)
  | n + 1, cols, start1, last1, mp =>
    match cols with
    | [] => .error .indexError
    | col :: rest =>
      match needBlock start1 with
      | .error e => .error e
      | .ok s1 =>
        match mapColumn T g maxVol col g.layerlist.reverse s1 none mp with
        | .error e => .error e
        | .ok mp1 =>
          match nextBlock T s1.name last1 1 (some maxVol) with
          | .error e => .error e
          | .ok nx => mapRow T g maxVol n rest (nx.map (·.1)) (some s1.name) mp1

/-- outer loop `for i2 in range(nblks[2])` -/
def mapRows (T : TGrid) (g : Geo) (maxVol : Rat) (n1 : Nat) :
    Nat → List Column → Option GBlock → Option Str → BlockMap → Except Exc BlockMap
  | 0, _, _, _, mp => .ok mp
  | n + 1, cols, start2, last2, mp =>
    -- `start1, last1 = start2, None`
    match mapRow T g maxVol n1 cols start2 none mp with
    | .error e => .error e
    | .ok (mp1, rest) =>
      match needBlock start2 with
      | .error e => .error e
      | .ok s2 =>
        match nextBlock T s2.name last2 2 (some maxVol) with
        | .error e => .error e
        | .ok nx => mapRows T g maxVol n1 n rest (nx.map (·.1)) (some s2.name) mp1

/-- a Python dict built by successive assignments: a later value for the same key replaces the
    earlier one in place -/
def dictOf : BlockMap → BlockMap
  | [] => []
  | (k, v) :: rest =>
    let r := dictOf rest
    -- the final value of key k is the last assignment; its position is that of the first
    match (rest.reverse.lookup k) with
    | some v' => (k, v') :: r.filter (fun p => p.1 ≠ k)
    | none => (k, v) :: r

/-! ### `match_position` -/

/-- rotate by the matrix `[[c, -s], [s, c]]` about the origin (`geo.rotate(-angle, 0)`) -/
def rotP (c s : Rat) (p : P2) : P2 := ⟨c * p.x - s * p.y, s * p.x + c * p.y⟩

def rotateGeo (c s : Rat) (g : Geo) : Geo :=
  let rc (k : Column) : Column := { k with nodes := k.nodes.map (rotP c s), centre := rotP c s k.centre }
  { g with columns := g.columns.map rc,
           conns := g.conns.map fun k => ⟨rc k.col0, rc k.col1, rotP c s k.n0, rotP c s k.n1⟩ }

def translateGeo (t : P3) (g : Geo) : Geo :=
  let sh (p : P2) : P2 := ⟨p.x + t.x, p.y + t.y⟩
  let tc (k : Column) : Column := { k with nodes := k.nodes.map sh, centre := sh k.centre, surface := k.surface + t.z }
  let tl (l : Layer) : Layer := ⟨l.name, l.bottom + t.z, l.centre + t.z, l.top + t.z⟩
  { g with columns := g.columns.map tc, layer0 := tl g.layer0, layers := g.layers.map tl,
           conns := g.conns.map fun k => ⟨tc k.col0, tc k.col1, sh k.n0, sh k.n1⟩ }

/-- the vector from `ob` to the last block of the direction track used for the orientation:
    direction 1 when it has more than one block, else direction 2 (then `second = true`) -/
def orientationVector (T : TGrid) (ob : GBlock) : Except Exc (P2 × Bool) :=
  let delta (blks : List GBlock) : Except Exc P2 :=
    match blks.getLast?, ob.centre with
    | some b, some oc =>
      match b.centre with
      | some bc => .ok ⟨bc.x - oc.x, bc.y - oc.y⟩
      | none => .error .typeError
    | none, _ => .error .indexError
    | _, none => .error .typeError
  match track T ob 1 none with
  | .error e => .error e
  | .ok (blks, _) =>
    if blks.length > 1 then
      match delta blks with
      | .ok d => .ok (d, false)
      | .error e => .error e
    else
      match track T ob 2 none with
      | .error e => .error e
      | .ok (blks2, _) =>
        match delta blks2 with
        | .ok d => .ok (d, true)
        | .error e => .error e

/-- `(cos, sin)` of the angle `match_position` finds, given the vector and its norm `nrm`:
    direction 1: `angle = π/2 - heading(Δ)`, so `(Δx, Δy)/‖Δ‖`;
    direction 2: `angle = -heading(Δ)`, so `(Δy, -Δx)/‖Δ‖`. -/
def cosSin (d : P2) (second : Bool) (nrm : Rat) : P2 :=
  if second then ⟨d.y / nrm, -d.x / nrm⟩ else ⟨d.x / nrm, d.y / nrm⟩

/-- `match_position(geo, grid, ob)` with the rotation `(c, s)` already determined -/
def matchPosition (g : Geo) (ob : GBlock) (cs : P2) : Except Exc Geo :=
  let g1 := { rotateGeo cs.x cs.y g with rot := cs }
  match g1.columns.head?, g1.layerlist.getLast?, ob.centre with
  | some col, some lay, some oc =>
    match blockCentre g1 lay col with
    | some origin => .ok (translateGeo ⟨oc.x - origin.x, oc.y - origin.y, oc.z - origin.z⟩ g1)
    | none => .error .typeError
  | none, _, _ => .error .indexError
  | _, none, _ => .error .indexError
  | _, _, none => .error .typeError

/-! ### `find_surface`, `snap_columns_to_layers` -/

/-- the two-case formula for the column surface -/
def surfaceFormula (zc blockHeight lt : Rat) : Rat :=
  if blockHeight ≤ lt then zc + (1 / 2 : Rat) * blockHeight else zc - (1 / 2 : Rat) * lt + blockHeight

/-- the blocks `find_surface` treats as inactive when `remove_inactive` is set: every block of
    `blocklist` from the first one with `volume <= 0` onwards (TOUGH2's convention) -/
def inactiveNames : List GBlock → List Str
  | [] => []
  | b :: bs => if b.volume ≤ 0 then (b :: bs).map (·.name) else inactiveNames bs

/-- `for blk in remove_col: i = colblocks.index(blk); del colblocks[i]; del layerthicks[i]`
    (`del` past the end of `layerthicks` is an `IndexError`) -/
def removeLoop : List GBlock → List Rat → List GBlock → Except Exc (List GBlock × List Rat)
  | blks, thicks, [] => .ok (blks, thicks)
  | blks, thicks, r :: rs =>
    let i := blks.findIdx (fun b => b.name = r.name)
    if i < thicks.length then removeLoop (blks.eraseIdx i) (thicks.eraseIdx i) rs else .error .indexError

/-- `layerthicks[-1] if layerthicks else block_height` -/
def lastOr (l : List Rat) (d : Rat) : Rat :=
  match l.getLast? with
  | some t => t
  | none => d

/-- the new surface of one column (`none`: left as it is because the track is empty);
    `removed` are the names of the inactive blocks (`[]` unless `remove_inactive`) -/
def columnSurface (T : TGrid) (g : Geo) (mp : BlockMap) (maxVol : Rat) (col : Column)
    (removed : List Str := []) : Except Exc (Option Rat) :=
  match g.layerlist.getLast? with
  | none => .error .indexError
  | some bottomLayer =>
    match blockName g.convention bottomLayer.name col.name with
    | .error e => .error e
    | .ok gn =>
      match mp.lookup gn with
      | none => .error .keyError
      | some bn =>
        match findB T bn with
        | .error e => .error e
        | .ok bb =>
          match track T bb 3 (some maxVol) with
          | .error e => .error e
          | .ok (colblocks0, thicks0) =>
            if colblocks0.isEmpty then .ok none else
            match removeLoop colblocks0 thicks0 (colblocks0.filter (fun b => removed.contains b.name)) with
            | .error e => .error e
            | .ok (colblocks, thicks) =>
            match colblocks.getLast? with
            | none => .error .indexError
            | some top =>
              match top.centre with
              | none => .error .typeError
              | some c =>
                if top.volume > 0 then
                  let bh := top.volume / col.area
                  .ok (some (surfaceFormula c.z bh (lastOr thicks bh)))
                else
                  match thicks.getLast? with
                  | some t => .ok (some (c.z + (1 / 2 : Rat) * t))
                  | none => .error .indexError

def findSurfaceCols (T : TGrid) (g : Geo) (mp : BlockMap) (maxVol : Rat) (removed : List Str) :
    List Column → Except Exc (List Column)
  | [] => .ok []
  | col :: rest =>
    match columnSurface T g mp maxVol col removed with
    | .error e => .error e
    | .ok s =>
      match findSurfaceCols T g mp maxVol removed rest with
      | .error e => .error e
      | .ok r => .ok ((match s with | some v => { col with surface := v } | none => col) :: r)

/-- `col.num_layers` as `set_column_num_layers` computes it -/
def numLayers (g : Geo) (col : Column) : Nat := (colLayers g col).length

/-- `snap_columns_to_layers(min_thickness)` for one column, with `col.num_layers = nl`:
    `toplayer = layerlist[num_layers - col.num_layers]` -/
def snapColumn (g : Geo) (minThick : Rat) (nl : Nat) (col : Column) : Except Exc Column :=
  match g.layerlist[g.layerlist.length - nl]? with
  | none => .error .indexError
  | some top => if col.surface - top.bottom < minThick then .ok { col with surface := top.bottom } else .ok col

def snapCols (g : Geo) (minThick : Rat) : List (Column × Nat) → Except Exc (List Column)
  | [] => .ok []
  | (col, nl) :: rest =>
    match snapColumn g minThick nl col with
    | .error e => .error e
    | .ok c =>
      match snapCols g minThick rest with
      | .error e => .error e
      | .ok r => .ok (c :: r)

/-- replace the columns of a geometry (connections refer to columns by value: update them too) -/
def withColumns (g : Geo) (cols : List Column) : Geo :=
  let upd (k : Column) : Column := match cols.find? (fun c => c.name = k.name) with
    | some c => c
    | none => k
  { g with columns := cols, conns := g.conns.map fun k => ⟨upd k.col0, upd k.col1, k.n0, k.n1⟩ }

def refresh (g : Geo) : Except Exc Geo :=
  match blockNameList g with
  | .error e => .error e
  | .ok bn => .ok { g with blockNames := bn }

structure Params where
  maxVol : Rat
  names : NameOpts
  layerSnap : Rat
  /-- `remove_inactive` -/
  removeInactive : Bool
  /-- the origin block's name, when given by the caller -/
  originBlock : Option Str
  deriving Repr, Inhabited

/-- `required_centres_present` -/
def centresPresent (T : TGrid) (maxVol : Rat) : Bool :=
  T.blocks.all fun b => !(volOk (some maxVol) b) || b.centre.isSome

/-- the part of `rectgeo` before the rotation is known: origin block, spacings, geometry, block
    mapping, and the orientation vector -/
structure Stage1 where
  ob : GBlock
  spacings : List Rat × List Rat × List Rat
  geo : Geo
  mapping : BlockMap
  delta : P2
  second : Bool
  deriving Repr

def stage1 (T : TGrid) (p : Params) : Except Exc Stage1 :=
  if !centresPresent T p.maxVol then .error .generic else
  match (match p.originBlock with
         | some n => findB T n
         | none => findOriginBlock T) with
  | .error e => .error e
  | .ok ob =>
  match blockSpacings T ob p.maxVol with
  | .error e => .error e
  | .ok (s1, s2, s3) =>
  match rectangularGeo p.names s1 s2 s3 with
  | .error e => .error e
  | .ok g =>
  match mapRows T g p.maxVol s1.length s2.length g.columns (some ob) none [] with
  | .error e => .error e
  | .ok mp =>
  match orientationVector T ob with
  | .error e => .error e
  | .ok (d, second) => .ok ⟨ob, (s1, s2, s3), g, dictOf mp, d, second⟩

/-- the rest of `rectgeo`, given the norm of the orientation vector -/
def stage2 (T : TGrid) (p : Params) (s : Stage1) (nrm : Rat) : Except Exc (Geo × BlockMap) :=
  match matchPosition s.geo s.ob (cosSin s.delta s.second nrm) with
  | .error e => .error e
  | .ok g1 =>
  match findSurfaceCols T g1 s.mapping p.maxVol (if p.removeInactive then inactiveNames T.blocks else []) g1.columns with
  | .error e => .error e
  | .ok cols =>
    let g2 := withColumns g1 cols
    -- find_surface: set_column_num_layers per column, then the name caches
    let nls := cols.map (numLayers g2)
    match refresh g2 with
    | .error e => .error e
    | .ok g3 =>
      if p.layerSnap > 0 then
        match snapCols g3 p.layerSnap (cols.zip nls) with
        | .error e => .error e
        | .ok cols' =>
          match refresh (withColumns g3 cols') with
          | .error e => .error e
          | .ok g4 => .ok (g4, s.mapping.filter (fun kv => g4.blockNames.contains kv.1))
      else .ok (g3, s.mapping.filter (fun kv => g3.blockNames.contains kv.1))

end Model.RectGeo
