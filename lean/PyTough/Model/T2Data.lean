/-
  Model of the `t2data` object, its section bookkeeping and the `read()` / `write()` drivers of
  `t2data.py` (C01): title line, keyword dispatch, `_sections`, `ENDCY/ENDFI`, the auxiliary ASCII
  mesh file and the extra-precision companion file.  (The binary MESHA/MESHB pair is not modelled.)
  Mathlib-free (executed by the driver).
-/
import PyTough.Model.T2Sections
namespace Model.T2
open Py
open Gen.Sections (Rec)

structure T2Data where
  title : Str := []
  simulator : Str := []
  rocks : List Rock := []
  parameter : Dict := Gen.Sections.defaultParameter.filter (fun p => p.1 != c!"_option_str")
  option : List Int := List.replicate Gen.Sections.numOptions 0
  timestep : List Val := []
  defaultIncons : List Val := []
  moreOption : List Int := List.replicate Gen.Sections.numMoreOptions 0
  multi : Dict := []
  start : Bool := false
  noversion : Bool := false
  rpcap : RPCap := ⟨none, none⟩
  lineq : Dict := []
  solver : Dict := []
  outputTimes : OutputTimes := ⟨[], none⟩
  blocks : List Block := []
  conns : List Conn := []
  gens : List Gener := []
  short : Short := ⟨none, none, none, none⟩
  historyBlock : List HItem := []
  historyConn : List HConn := []
  historyGen : List HItem := []
  incon : List Incon := []
  indom : Indom := []
  diffusion : List (List Val) := []
  selection : Option Selection := none
  meshmaker : List MeshMaker := []
  sections : List Str := []
  endKeyword : Str := Gen.Sections.defaultEndKeyword
  extraPrecision : List Str := []
  echo : Bool := true
  deriving Repr, DecidableEq

def T2Data.empty : T2Data := {}

/-- `self.type == 'AUTOUGH2'` -/
def T2Data.autough2 (d : T2Data) : Bool := !d.simulator.isEmpty

/-! ### section bookkeeping -/

def allSections : List Str := Gen.Sections.sections

/-- `present_sections` -/
def T2Data.present (d : T2Data) (kw : Str) : Bool :=
  if kw == c!"SIMUL" then !d.simulator.isEmpty
  else if kw == c!"ROCKS" then !d.rocks.isEmpty
  else if kw == c!"PARAM" then !d.parameter.isEmpty || true     -- the dict also holds option, timestep, default_incons
  else if kw == c!"MOMOP" then d.moreOption.any (· != 0)
  else if kw == c!"START" then d.start
  else if kw == c!"NOVER" then d.noversion
  else if kw == c!"RPCAP" then d.rpcap.rp.isSome || d.rpcap.cp.isSome
  else if kw == c!"LINEQ" then !d.lineq.isEmpty
  else if kw == c!"SOLVR" then !d.solver.isEmpty
  else if kw == c!"MULTI" then !d.multi.isEmpty
  else if kw == c!"TIMES" then !d.outputTimes.isEmpty
  else if kw == c!"SELEC" then d.selection.isSome
  else if kw == c!"DIFFU" then !d.diffusion.isEmpty
  else if kw == c!"ELEME" then true                               -- a t2grid object is always true
  else if kw == c!"CONNE" then true
  else if kw == c!"MESHM" then !d.meshmaker.isEmpty
  else if kw == c!"GENER" then !d.gens.isEmpty
  else if kw == c!"SHORT" then !d.short.isEmpty
  else if kw == c!"FOFT" then !d.historyBlock.isEmpty
  else if kw == c!"COFT" then !d.historyConn.isEmpty
  else if kw == c!"GOFT" then !d.historyGen.isEmpty
  else if kw == c!"INCON" then !d.incon.isEmpty
  else if kw == c!"INDOM" then !d.indom.isEmpty
  else false

def presentSections (d : T2Data) : List Str := allSections.filter d.present

/-- first index of `x` in `l` -/
def indexOf? (l : List Str) (x : Str) : Option Nat :=
  let i := l.findIdx (· == x)
  if i < l.length then some i else none

/-- `section_insertion_index(section)` over a list of all section keywords `all` -/
def insertionIndex (all : List Str) (secs : List Str) (s : Str) : Nat :=
  match indexOf? all s with
  | none => secs.length
  | some 0 => 0
  | some li =>
    -- sections above the one specified, nearest first: put the new one just after the first found
    match ((all.take li).reverse.filterMap fun a => indexOf? secs a).head? with
    | some i => i + 1
    | none =>
      -- sections from the one specified downwards: put the new one just before the first found
      match ((all.drop li).filterMap fun a => indexOf? secs a).head? with
      | some i => i
      | none => secs.length

def insertAt (l : List Str) (i : Nat) (x : Str) : List Str := l.take i ++ [x] ++ l.drop i

/-- `insert_section` -/
def insertSection (all secs : List Str) (s : Str) : List Str :=
  if secs.contains s then secs else insertAt secs (insertionIndex all secs s) s

/-- `delete_section` (`list.remove`: the first occurrence) -/
def deleteSection (secs : List Str) (s : Str) : List Str := secs.erase s

/-- `update_sections` given the list of present sections -/
def updateSectionsWith (all present secs : List Str) : List Str :=
  let missing := present.filter (fun kw => !secs.contains kw)
  let secs := missing.foldl (insertSection all) secs
  let extra := secs.filter (fun kw => !present.contains kw)
  extra.foldl deleteSection secs

def T2Data.updateSections (d : T2Data) : T2Data :=
  { d with sections := updateSectionsWith allSections (presentSections d) d.sections }

/-! ### PARAM, MOMOP -/

def param1Rec (T : Tabs) (d : T2Data) : Except Exc Rec :=
  T.get (if d.autough2 then c!"param1_autough2" else c!"param1")

def multiRec (T : Tabs) (d : T2Data) : Except Exc Rec :=
  T.get (if d.autough2 then c!"multi_autough2" else c!"multi")

def constTimestep (d : Dict) : Except Exc Rat :=
  match d.get (c!"const_timestep") with
  | none => .error .keyError
  | some v => match v.rat? with | some r => .ok r | none => .error .typeError

/-- `-int(const_timestep)` lines -/
def timestepLines (c : Rat) : Nat := ((-c).floor).toNat

/-- `paramw['print_block'] = unfix_blockname(paramw['print_block'])` unless it is None -/
def printBlockUnfixed (dict1 : Dict) : Except Exc Dict :=
  match dict1.get c!"print_block" with
  | some (.str s) => .ok (dict1.set c!"print_block" (.str (unfixBlockname s)))
  | some .none => .ok dict1
  | none => .error .keyError
  | some _ => .error .typeError

/-- a blank `print_block` read from the file is None -/
def printBlockRead (p : Dict) : Except Exc Dict :=
  match p.get c!"print_block" with
  | some (.str s) => .ok (if isBlank s then p.set c!"print_block" .none else p)
  | some .none => .ok p
  | none => .error .keyError
  | some _ => .error .generic           -- AttributeError: a number has no strip()

/-- `write_timesteps`: the list is written only for a negative `const_timestep`, in `-int(const_timestep)` lines -/
def writeTimesteps (r : Rec) (c : Rat) (ts : List Val) : Except Exc (List Str) :=
  if c < 0 then writeChunks r 8 ts ts.length (timestepLines c) else .ok []

/-- `read_timesteps` -/
def readTimesteps (rf : ReadFn) (r : Rec) (p : Dict) (c : Rat) (ls : List Str) : Except Exc (List Val × List Str) :=
  if c ≥ 0 then .ok ([(p.get c!"const_timestep").getD .none], ls)
  else
    match readChunks rf r (timestepLines c) ls with
    | .error e => .error e
    | .ok (vs, rest) => .ok (nonNone vs, rest)

/-- the default initial conditions at the end of `write_parameters`: lines of four, or one blank line -/
def writeDefaultIncons (r : Rec) (di : List Val) : Except Exc (List Str) :=
  if di.length > 0 then writeChunks r 4 di di.length ((di.length + 3) / 4) else .ok [nl []]

/-- … and of `read_parameters`: the first line, then continuation lines until a blank line or a keyword line
    (section keywords and, since the repair, ENDCY / ENDFI) -/
def readDefaultIncons (rf : ReadFn) (r : Rec) (old : List Val) (l4 : Str) (ls : List Str) :
    Except Exc (List Val × Option Str × List Str) :=
  match readValues rf r l4 with
  | .error e => .error e
  | .ok di =>
    match untilKeyword rf r (allSections ++ [c!"ENDCY", c!"ENDFI"]) ls with
    | .error e => .error e
    | .ok (more, nxt, rest) => .ok (trimTrailingNones (old ++ di) ++ more, nxt, rest)

/-- `write_parameters` -/
def writeParameters (T : Tabs) (d : T2Data) : Except Exc (List Str) := do
  let dict1 := d.parameter.set (c!"_option_str") (.str (digitsOfOptions d.option))
  let paramw ← printBlockUnfixed dict1
  let l1 ← writeValueLine (← param1Rec T d) dict1
  let l2 ← writeValueLine (← T.get c!"param2") paramw
  let c ← constTimestep dict1
  let ts ← writeTimesteps (← T.get c!"timestep") c d.timestep
  let l3 ← writeValueLine (← T.get c!"param3") dict1
  let di ← writeDefaultIncons (← T.get c!"default_incons") d.defaultIncons
  pure ([nl (c!"PARAM"), l1, l2] ++ ts ++ [l3] ++ di)

/-- `read_parameters`; returns the line it read ahead (a section keyword line, padded), if any -/
def readParameters (rf : ReadFn) (T : Tabs) (d : T2Data) (ls : List Str) : Except Exc (T2Data × Option Str × List Str) := do
  let (l1, r1) := readline ls
  let p ← readValueLine rf (← param1Rec T d) (d.parameter.set (c!"_option_str") (.str (digitsOfOptions d.option))) l1
  let ostr ← match p.get (c!"_option_str") with | some v => v.str? | none => .error .keyError
  let option ← optionsOfStr ostr 24
  let p := p.filter (fun e => e.1 != c!"_option_str")
  let (l2, r2) := readline r1
  let p ← readValueLine rf (← T.get c!"param2") p l2
  let p ← printBlockRead p
  let c ← constTimestep p
  let (timestep, r3) ← readTimesteps rf (← T.get c!"timestep") p c r2
  let (l3, r4) := readline r3
  let p ← readValueLine rf (← T.get c!"param3") p l3
  let (l4, r5) := readline r4
  let (dis, nxt, r6) ← readDefaultIncons rf (← T.get c!"default_incons") d.defaultIncons l4 r5
  pure ({ d with parameter := p, option, timestep, defaultIncons := dis }, nxt, r6)

def writeMoreOptions (T : Tabs) (d : T2Data) : Except Exc (List Str) := do
  let l ← writeValueLine (← T.get c!"_more_option_str") [(c!"_more_option_str", .str (digitsOfOptions d.moreOption))]
  pure [nl (c!"MOMOP"), l]

def readMoreOptions (rf : ReadFn) (T : Tabs) (d : T2Data) (ls : List Str) : Except Exc (T2Data × List Str) := do
  let (l, rest) := readline ls
  let e ← readValueLine rf (← T.get c!"_more_option_str") [] l
  let s ← match e.get (c!"_more_option_str") with | some v => v.str? | none => .error .generic
  pure ({ d with moreOption := ← optionsOfStr s 21 }, rest)

/-! ### writing -/

inductive MeshKind where
  | infile | ascii | binary
  deriving DecidableEq, Repr

structure WriteCfg where
  mesh : MeshKind
  xp : Option (List Str)        -- `extra_precision` argument (None = none; True = all five; False = [])
  echo : Option Bool            -- `echo_extra_precision` argument
  deriving Repr

structure Files where
  main : List Str
  mesh : Option (List Str)
  pdat : Option (List Str)
  deriving Repr, DecidableEq

/-- `write_fn[keyword](outfile)` -/
def writeSection (T : Tabs) (d : T2Data) (kw : Str) : Except Exc (List Str) :=
  if kw == c!"SIMUL" then .ok (if d.simulator.isEmpty then [] else [nl (c!"SIMUL"), nl (strip d.simulator)])
  else if kw == c!"ROCKS" then writeRocks T d.rocks
  else if kw == c!"PARAM" then writeParameters T d
  else if kw == c!"MOMOP" then writeMoreOptions T d
  else if kw == c!"START" then .ok (if d.start then [nl (c!"START")] else [])
  else if kw == c!"NOVER" then .ok (if d.noversion then [nl (c!"NOVER")] else [])
  else if kw == c!"RPCAP" then writeRPCap T d.rpcap
  else if kw == c!"LINEQ" then writeDictSection T c!"LINEQ" c!"lineq" d.lineq
  else if kw == c!"SOLVR" then writeDictSection T c!"SOLVR" c!"solver" d.solver
  else if kw == c!"MULTI" then writeDictSection T c!"MULTI" (if d.autough2 then c!"multi_autough2" else c!"multi") d.multi
  else if kw == c!"TIMES" then writeTimes T d.outputTimes
  else if kw == c!"SELEC" then writeSelection T d.selection
  else if kw == c!"DIFFU" then writeDiffusion T d.diffusion
  else if kw == c!"ELEME" then writeBlocks T d.blocks
  else if kw == c!"CONNE" then writeConns T d.conns
  else if kw == c!"MESHM" then writeMeshMaker T d.meshmaker
  else if kw == c!"GENER" then writeGeners T d.gens
  else if kw == c!"SHORT" then writeShort d.short
  else if kw == c!"FOFT" then .ok (writeHistoryBlocks c!"FOFT" d.historyBlock)
  else if kw == c!"COFT" then .ok (writeHistoryConns d.historyConn)
  else if kw == c!"GOFT" then .ok (writeHistoryBlocks c!"GOFT" d.historyGen)
  else if kw == c!"INCON" then writeIncons T d.blocks d.incon
  else if kw == c!"INDOM" then writeIndom T d.indom
  else .error .keyError

/-- the `extra_precision` setter -/
def T2Data.setExtraPrecision (d : T2Data) (value : List Str) : T2Data :=
  let removed := Gen.Sections.xpSections.filter (fun s => d.extraPrecision.contains s && !value.contains s)
  { d with sections := removed.foldl (insertSection allSections) d.sections, extraPrecision := value }

/-- the `echo_extra_precision` setter -/
def T2Data.setEcho (d : T2Data) (value : Bool) : T2Data :=
  if value == d.echo then d
  else if value == false then { d with sections := d.extraPrecision.foldl deleteSection d.sections, echo := false }
  else { d with sections := d.extraPrecision.foldl (insertSection allSections) d.sections, echo := true }

/-- `write_extra_precision`: the companion file's lines (none = no file written) and the updated object -/
def writeExtraPrecision (d : T2Data) (xp : Option (List Str)) (echo : Option Bool) : Except Exc (T2Data × Option (List Str)) := do
  let d := match xp with | some v => d.setExtraPrecision v | none => d
  let d := match echo with | some e => d.setEcho e | none => d
  if d.extraPrecision.isEmpty then pure (d, none) else
  let rec go : List Str → T2Data → List Str → Except Exc (T2Data × List Str)
    | [], d, acc => .ok (d, acc)
    | s :: rest, d, acc =>
      if !Gen.Sections.xpSections.contains s then .error .keyError else
      match writeSection xpTabs d s with
      | .error e => .error e
      | .ok ls =>
        let d := if d.sections.contains s && !d.echo then { d with sections := deleteSection d.sections s } else d
        go rest d (acc ++ ls)
  let (d, ls) ← go d.extraPrecision d []
  pure (d, some ls)

/-- `write(filename, meshfilename, extra_precision, echo_extra_precision)` -/
def T2Data.write (d : T2Data) (cfg : WriteCfg) : Except Exc (T2Data × Files) := do
  let d := d.updateSections
  let meshSections : List Str := if cfg.mesh == .infile then [] else [c!"ELEME", c!"CONNE"]
  let mesh ← if cfg.mesh == .ascii then do
      let b ← writeBlocks mainTabs d.blocks
      let c ← writeConns mainTabs d.conns
      pure (some (b ++ c))
    else pure none
  let (d, pdat) ← if d.autough2 then writeExtraPrecision d cfg.xp cfg.echo else pure (d, none)
  let body ← d.sections.mapM fun kw =>
    if !meshSections.contains kw && (!d.extraPrecision.contains kw || d.echo) then writeSection mainTabs d kw else pure []
  pure (d, { main := [nl (strip d.title)] ++ body.flatten ++ [nl d.endKeyword], mesh, pdat })

/-! ### reading -/

def xpReadable (kw : Str) : Bool := Gen.Sections.xpSections.contains kw

/-- the extra-precision sections that `read_extra_precision` / `read()` read with the full readers -/
def readGridSection (rf : ReadFn) (T : Tabs) (d : T2Data) (kw : Str) (ls : List Str) : Except Exc (T2Data × List Str) :=
  if kw == c!"ROCKS" then do let (x, r) ← readRocks rf T ls; pure ({ d with rocks := x }, r)
  else if kw == c!"ELEME" then do let (x, r) ← readBlocks rf T d.rocks ls; pure ({ d with blocks := x }, r)
  else if kw == c!"CONNE" then do let (x, r) ← readConns rf T d.blocks ls; pure ({ d with conns := x }, r)
  else if kw == c!"RPCAP" then do let (x, r) ← readRPCap rf T ls; pure ({ d with rpcap := x }, r)
  else if kw == c!"GENER" then do let (x, r) ← readGeners rf T ls; pure ({ d with gens := x }, r)
  else .error .keyError

/-- `read_extra_precision()` on the lines of the companion file -/
def readExtraPrecision (rf : ReadFn) (d : T2Data) (pdat : Option (List Str)) : Except Exc T2Data :=
  match pdat with
  | none => .ok d
  | some ls =>
    let rec go : Nat → T2Data → List Str → Except Exc T2Data
      | 0, _, _ => .error .generic
      | _ + 1, d, [] => .ok d
      | fuel + 1, d, line :: rest =>
        let kw := keywordOf line
        if kw == c!"ENDCY" || kw == c!"ENDFI" then .ok d
        else if xpReadable kw then
          match readGridSection rf xpTabs { d with extraPrecision := d.extraPrecision ++ [kw] } kw rest with
          | .error e => .error e
          | .ok (d, r) => go fuel d r
        else go fuel d rest
    match go (ls.length + 1) d ls with
    | .error e => .error e
    | .ok d =>
      if !d.extraPrecision.isEmpty then .ok (d.setEcho (d.extraPrecision.any d.sections.contains))
      else .ok (d.setEcho false)

/-- skip functions installed for the extra-precision sections when they are not echoed -/
def skipSection (kw : Str) (ls : List Str) : List Str :=
  if kw == c!"RPCAP" then ls.drop 2 else skipToBlank ls

/-- `read_fn[keyword](infile)` for the main file; `line` is the keyword line itself -/
def readSection (rf : ReadFn) (pdat : Option (List Str)) (d : T2Data) (kw line : Str) (ls : List Str) :
    Except Exc (T2Data × Option Str × List Str) :=
  let T := mainTabs
  let plain (x : Except Exc (T2Data × List Str)) : Except Exc (T2Data × Option Str × List Str) :=
    match x with | .error e => .error e | .ok (d, r) => .ok (d, none, r)
  if xpReadable kw && !d.echo && d.extraPrecision.contains kw then .ok (d, none, skipSection kw ls)
  else if kw == c!"SIMUL" then
    let (l, rest) := readline ls
    match readValueLine rf ⟨[c!"simulator"], [{ raw := ['8', '0'], width := 80, left := false, prec := none, typ := 's' }]⟩
            [(c!"simulator", .str d.simulator)] l with
    | .error e => .error e
    | .ok e =>
      match (e.get (c!"simulator")).getD .none with
      | .str s =>
        let d := { d with simulator := s }
        if d.autough2 then (match readExtraPrecision rf d pdat with | .error e => .error e | .ok d => .ok (d, none, rest))
        else .ok (d, none, rest)
      | _ => .error .typeError
  else if xpReadable kw then plain (readGridSection rf T d kw ls)
  else if kw == c!"PARAM" then readParameters rf T d ls
  else if kw == c!"MOMOP" then plain (readMoreOptions rf T d ls)
  else if kw == c!"START" then .ok ({ d with start := true }, none, ls)
  else if kw == c!"NOVER" then .ok ({ d with noversion := true }, none, ls)
  else if kw == c!"LINEQ" then plain (do let (x, r) ← readDictSection rf T c!"lineq" d.lineq ls; pure ({ d with lineq := x }, r))
  else if kw == c!"SOLVR" then plain (do let (x, r) ← readDictSection rf T c!"solver" d.solver ls; pure ({ d with solver := x }, r))
  else if kw == c!"MULTI" then plain (do
    let (x, r) ← readDictSection rf T (if d.autough2 then c!"multi_autough2" else c!"multi") d.multi ls
    pure ({ d with multi := ← stripEos x }, r))
  else if kw == c!"TIMES" then plain (do let (x, r) ← readTimes rf T d.outputTimes ls; pure ({ d with outputTimes := x }, r))
  else if kw == c!"SELEC" then plain (do let (x, r) ← readSelection rf T ls; pure ({ d with selection := some x }, r))
  else if kw == c!"DIFFU" then plain (do let (x, r) ← readDiffusion rf T d.multi d.diffusion ls; pure ({ d with diffusion := x }, r))
  else if kw == c!"MESHM" then plain (do
    let (x, r) ← readMeshMaker rf T (ls.length + 2) d.meshmaker ls; pure ({ d with meshmaker := x }, r))
  else if kw == c!"SHORT" then plain (do
    let (x, r) ← readShort rf T d.blocks d.conns d.gens d.short line ls; pure ({ d with short := x }, r))
  else if kw == c!"FOFT" then plain (do let (x, r) ← readHistoryBlocks d.blocks ls; pure ({ d with historyBlock := x }, r))
  else if kw == c!"COFT" then plain (do let (x, r) ← readHistoryConns d.blocks d.conns ls; pure ({ d with historyConn := x }, r))
  else if kw == c!"GOFT" then plain (do let (x, r) ← readHistoryBlocks d.blocks ls; pure ({ d with historyGen := x }, r))
  else if kw == c!"INCON" then plain (do let (x, r) ← readIncons rf T d.incon ls; pure ({ d with incon := x }, r))
  else if kw == c!"INDOM" then plain (do let (x, r) ← readIndom rf T d.indom ls; pure ({ d with indom := x }, r))
  else .error .keyError

/-- the keyword loop of `read()`; `nxt` is a line read ahead by PARAM -/
def readLoop (rf : ReadFn) (pdat : Option (List Str)) : Nat → T2Data → Option Str → List Str → Except Exc T2Data
  | 0, _, _, _ => .error .generic
  | fuel + 1, d, nxt, ls =>
    let (line, rest) := match nxt with
      | some l => (l, ls)
      | none => readline ls
    if line.isEmpty then .ok d
    else
      let kw := keywordOf line
      if kw == c!"ENDCY" || kw == c!"ENDFI" then .ok { d with endKeyword := kw }
      else if allSections.contains kw then
        match readSection rf pdat d kw line rest with
        | .error e => .error e
        | .ok (d, nxt, r) => readLoop rf pdat fuel { d with sections := d.sections ++ [kw] } nxt r
      else readLoop rf pdat fuel d none rest

/-- `read_meshfile` -/
def readMeshfile (rf : ReadFn) : Nat → T2Data → List Str → Except Exc T2Data
  | 0, _, _ => .error .generic
  | _ + 1, d, [] => .ok d
  | fuel + 1, d, line :: rest =>
    let kw := keywordOf line
    if kw == c!"ELEME" || kw == c!"CONNE" then
      match readGridSection rf mainTabs d kw rest with
      | .error e => .error e
      | .ok (d, r) => readMeshfile rf fuel { d with sections := d.sections ++ [kw] } r
    else readMeshfile rf fuel d rest

/-- `t2data(filename, meshfilename, read_function)`: a new object reading its files -/
def T2Data.read (rf : ReadFn) (f : Files) : Except Exc T2Data := do
  let d := T2Data.empty
  let (l0, rest) := readline f.main
  let title := rstripNewline (slice l0 0 80)
  let d ← readLoop rf f.pdat (rest.length + 2) { d with title := title, sections := [] } none rest
  match f.mesh with
  | some m => if d.blocks.isEmpty then readMeshfile rf (m.length + 1) d m else pure d
  | none => pure d

/-! ### text ↔ lines -/

/-- split a file's text into the lines `readline()` returns (each with its '\n'; the last may lack it) -/
def splitLines (s : Str) : List Str :=
  let rec go : Str → Str → List Str
    | [], acc => if acc.isEmpty then [] else [acc.reverse]
    | c :: r, acc => if c = '\n' then (c :: acc).reverse :: go r [] else go r (c :: acc)
  go s []

end Model.T2
