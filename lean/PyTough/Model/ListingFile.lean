/-
  Model of the whole-file reader of t2listing.py (class t2listing): a machine over the list of lines
  of a listing file.

  * A file position is the list of lines still to be read (plus its line number, used only for
    the `pos >= self._fullpos[...]` comparisons): every `seek` target in the Python code is a `tell()`
    taken at a line start.  A line keeps its terminator, as with a binary `readline()`; end of file
    reads as `''`.
  * Python loops that read lines until a condition holds are structural recursions over the remaining
    lines; a loop that would spin at end of file (where `readline()` returns `''` for ever) is the
    distinguished outcome `LErr.diverges`.
  * Exceptions are values (`LErr.py` with the class of Py.Exc, `LErr.named` for classes outside it).

  The simulator-specific methods bound by `detect_simulator` are selected by `Fam`.
-/
import PyTough.Model.Listing
import PyTough.Gen.ListingBind
namespace Model.Listing
open Py Model

inductive LErr where
  | py (e : Exc)
  | named (cls : String)
  | diverges
  deriving DecidableEq, Repr, Inhabited

def LErr.toString : LErr → String
  | .py e => e.toString
  | .named c => c
  | .diverges => "diverges"

structure Pos where
  no : Nat
  rest : List Str
  deriving Inhabited

inductive Fam where
  | autough2 | tough2 | tough2mp | toughplus | toughreact | tough3
  deriving DecidableEq, Repr, Inhabited

/-- `simname` → the method family bound by `detect_simulator` (anything else: `getattr` fails) -/
def famOf (sim : Str) : Option Fam :=
  if sim = "AUTOUGH2".toList then some .autough2
  else if sim = "TOUGH2".toList then some .tough2
  else if sim = "TOUGH2_MP".toList then some .tough2mp
  else if sim = "TOUGH+".toList then some .toughplus
  else if sim = "TOUGHREACT".toList then some .toughreact
  else if sim = "TOUGH3".toList then some .tough3
  else none

def Fam.simname : Fam → String
  | .autough2 => "AUTOUGH2" | .tough2 => "TOUGH2" | .tough2mp => "TOUGH2_MP"
  | .toughplus => "TOUGH+" | .toughreact => "TOUGHREACT" | .tough3 => "TOUGH3"

/-- the method `detect_simulator` binds to `self.<fname>` for this simulator, read from the table generated from the
    current source (Gen/ListingBind.lean); `""` when there is none (`getattr` raises AttributeError) -/
def bound (fam : Fam) (fname : String) : String :=
  match Gen.ListingBind.binding.lookup fam.simname with
  | some row => (row.lookup fname).getD ""
  | none => ""

/-- `self._step`: an int, or `None` when the field holds something else -/
abbrev Step := Option Int

structure Rd where
  all : List Str
  isOutputData : Bool
  pos : Pos
  simulator : Option Str := none
  fam : Fam := .tough2
  title : Str := []
  time : FVal := zero
  step : Step := some 0
  index : Int := 0
  fullpos : Array Pos := #[]
  allpos : Array Pos := #[]
  short : Array Bool := #[]
  times : Array FVal := #[]
  steps : Array Step := #[]
  fulltimes : Array FVal := #[]
  fullsteps : Array Step := #[]
  tables : List (String × Table) := []       -- self._table, in insertion order
  tablenames : List String := []
  skipTables : List String := []
  shortTypes : List Str := []
  shortIndices : List (Str × List (Int × Nat)) := []
  deriving Inhabited

abbrev M := StateT Rd (Except LErr)

def raise {α} (e : Exc) : M α := throw (.py e)
def liftE {α} (x : Except Exc α) : M α :=
  match x with
  | .ok v => pure v
  | .error e => throw (.py e)

/-! ### the cursor: what reading lines and history() may change

  `C` computations see the reader (`Rd`, read-only) and may move the file position and the index, nothing else.
  Everything history() does is a `C` computation, so that it cannot touch a table, the time or the step
  (`liftC_frame` in Proofs/ListingFile.lean). -/

structure Cur where
  pos : Pos
  index : Int

abbrev C := ReaderT Rd (StateT Cur (Except LErr))

def liftC {α} (c : C α) : M α := fun s =>
  match c s ⟨s.pos, s.index⟩ with
  | .ok (a, cur) => .ok (a, { s with pos := cur.pos, index := cur.index })
  | .error e => .error e

/-- `skipto(keywords, start)` on the remaining lines: the keyword found and the position after that line,
    or `none` at end of file (Python returns `False`) -/
def skipToL (kws : List Str) (start : Nat) : List Str → Nat → Option Str × Pos
  | [], n => (none, ⟨n, []⟩)
  | l :: r, n =>
    match kws.find? (fun kw => startsWith (l.drop start) kw) with
    | some kw => (some kw, ⟨n + 1, r⟩)
    | none => skipToL kws start r (n + 1)

def isBlank (l : Str) : Bool := (strip l).isEmpty

/-- `skip_to_nonblank`: the position of the next non-blank line; spins at end of file -/
def skipToNonblankL : List Str → Nat → Option Pos
  | [], _ => none
  | l :: r, n => if isBlank l then skipToNonblankL r (n + 1) else some ⟨n, l :: r⟩

/-- `skip_to_blank`: the position of the next blank line (or end of file) -/
def skipToBlankL : List Str → Nat → Pos
  | [], n => ⟨n, []⟩
  | l :: r, n => if isBlank l then ⟨n, l :: r⟩ else skipToBlankL r (n + 1)

/-- generic line loop: read lines until `stop line` holds; `eofStops` says whether `''` ends the loop
    (otherwise the loop spins at end of file).  Returns the line that stopped it. -/
def readUntilL (stop : Str → Bool) (eofStops : Bool) : List Str → Nat → Option (Str × Pos)
  | [], n => if eofStops || stop [] then some ([], ⟨n, []⟩) else none
  | l :: r, n => if stop l then some (l, ⟨n + 1, r⟩) else readUntilL stop eofStops r (n + 1)

namespace Cu

def raise {α} (e : Exc) : C α := throw (.py e)
def liftE {α} (x : Except Exc α) : C α :=
  match x with
  | .ok v => pure v
  | .error e => throw (.py e)

def readline : C Str := do
  let s ← get
  match s.pos.rest with
  | [] => return []
  | l :: r => set { s with pos := ⟨s.pos.no + 1, r⟩ }; return l

def tell : C Pos := return (← get).pos
def seek (p : Pos) : C Unit := modify fun s => { s with pos := p }
def seek0 : C Unit := do
  let env ← read
  modify fun s => { s with pos := ⟨0, env.all⟩ }

def skiplines : Nat → C Unit
  | 0 => pure ()
  | n + 1 => do let _ ← readline; skiplines n

def atEof : C Bool := return (← get).pos.rest.isEmpty

def skipto (kws : List Str) (start : Nat := 1) : C (Option Str) := do
  let s ← get
  let (r, p) := skipToL kws start s.pos.rest s.pos.no
  set { s with pos := p }
  return r

def skipto1 (kw : String) (start : Nat := 1) : C (Option Str) := skipto [kw.toList] start

def skipToNonblank : C Unit := do
  let s ← get
  match skipToNonblankL s.pos.rest s.pos.no with
  | none => throw .diverges
  | some p => set { s with pos := p }

def skipToBlank : C Unit := modify fun s => { s with pos := skipToBlankL s.pos.rest s.pos.no }

def readUntil (stop : Str → Bool) (eofStops : Bool) : C Str := do
  let s ← get
  match readUntilL stop eofStops s.pos.rest s.pos.no with
  | none => throw .diverges
  | some (l, p) => set { s with pos := p }; return l

end Cu

def readline : M Str := liftC Cu.readline
def tell : M Pos := liftC Cu.tell
def seek (p : Pos) : M Unit := liftC (Cu.seek p)
def seek0 : M Unit := liftC Cu.seek0
def skiplines (n : Nat) : M Unit := liftC (Cu.skiplines n)
def atEof : M Bool := liftC Cu.atEof
def skipto (kws : List Str) (start : Nat := 1) : M (Option Str) := liftC (Cu.skipto kws start)
def skipto1 (kw : String) (start : Nat := 1) : M (Option Str) := liftC (Cu.skipto1 kw start)
def skipToNonblank : M Unit := liftC Cu.skipToNonblank
def skipToBlank : M Unit := liftC Cu.skipToBlank
def readUntil (stop : Str → Bool) (eofStops : Bool) : M Str := liftC (Cu.readUntil stop eofStops)

/-! ### small helpers -/

def findI (s p : Str) : Int := match find s p with | some i => i | none => -1

def getTable (name : String) : M Table := do
  match (← get).tables.lookup name with
  | some t => return t
  | none => raise .keyError

def hasTable (name : String) : M Bool := return ((← get).tables.lookup name).isSome

/-- `self._table[name] = t` (a dict: an existing key keeps its place) -/
def putTable (name : String) (t : Table) : M Unit := modify fun s =>
  if (s.tables.lookup name).isSome then { s with tables := s.tables.map fun (n, x) => if n = name then (n, t) else (n, x) }
  else { s with tables := s.tables ++ [(name, t)] }

def numFull : M Nat := return (← get).fulltimes.size

def fvalOfInt (o : FOut (Option Int)) : Step :=
  match o with
  | .val v => v
  | .blank => some 0

/-- `tablename[0].upper() * 5` -/
def keyword5 (tablename : String) : Str :=
  match tablename.toList with
  | [] => []
  | c :: _ => List.replicate 5 (upperChar c)

def tableChar (tablename : String) : M Char :=
  match tablename.toList with
  | [] => raise .indexError
  | c :: _ => pure (upperChar c)

/-! ### detect_simulator -/

def detectLoop : List Str → Nat → Option Str → Except LErr (Str × Pos × Option Str)
  | [], n, sim => .ok ([], ⟨n, []⟩, sim)
  | l :: r, n, sim =>
    let line := lower l
    let ip := find line "is a program for".toList
    let sim' : Except LErr (Option Str) :=
      match ip, sim with
      | some i, none =>
        match splitWs (strip (line.take i)) with
        | [] => .error (.py .indexError)
        | w :: _ => .ok (some (upper w))
      | _, _ => .ok sim
    match sim' with
    | .error e => .error e
    | .ok sim'' =>
      if isIn "output data after".toList line || isIn "output after".toList line then .ok (line, ⟨n + 1, r⟩, sim'')
      else detectLoop r (n + 1) sim''

def detectSimulator : M Unit := do
  modify fun s => { s with simulator := none }
  seek0
  let s ← get
  -- MP = filename.endswith('OUTPUT_DATA') and readline().startswith('\f') and not ('@@@@@' in readline())
  let mp ← if s.isOutputData then do
      let l1 ← readline
      if startsWith l1 ['\x0c'] then do
        let l2 ← readline
        pure (!(isIn "@@@@@".toList l2))
      else pure false
    else pure false
  let s ← get
  match detectLoop s.pos.rest s.pos.no none with
  | .error e => throw e
  | .ok (line, p, sim) =>
    set { s with pos := p, simulator := sim }
    if line != [] && sim.isNone then
      skipToNonblank
      let mut line ← readline
      if startsWith (line.drop 1) "THE TIME IS".toList then line ← readline
      let chars := slice line 1 6
      let found : Option Str :=
        if chars = "EEEEE".toList || chars = "BBBBB".toList then some "AUTOUGH2".toList
        else if chars = "@@@@@".toList then some (if mp then "TOUGH2_MP".toList else "TOUGH2".toList)
        else if chars = "=====".toList then some "TOUGH+".toList
        else none
      if found.isSome then modify fun s => { s with simulator := found }
    let s ← get
    match s.simulator with
    | none => pure ()
    | some sim =>
      if sim.isEmpty then pure ()
      else match famOf sim with
        | some f =>
          if Gen.ListingBind.internalFns.any (fun fn => bound f fn == "") then throw (.named "AttributeError")
          modify fun s => { s with fam := f }
        | none => throw (.named "AttributeError")

def isAutough2 : M Bool := return (← get).fam == .autough2
def isPlus : M Bool := return (← get).fam == .toughplus

/-! ### titles and headers -/

def readTitle : M Unit := do
  match bound (← get).fam "read_title" with
  | "read_title_AUTOUGH2" =>
    let l ← readline
    modify fun s => { s with title := strip l }
  | "read_title_TOUGH2_MP" =>
    seek0
    let _ ← readline
    let l ← readline
    modify fun s => { s with title := strip l }
  | "read_title_TOUGH2" =>
    seek0
    -- while not ('problem title' in line.lower() and ':' in line) or (line == ''): spins at end of file
    let line ← readUntil (fun l => isIn "problem title".toList (lower l) && l.contains ':' && l != []) false
    match findChar line ':' with
    | some c => modify fun s => { s with title := strip (line.drop (c + 1)) }
    | none => modify fun s => { s with title := [] }
  | _ => throw (.named "AttributeError")

def readHeaderAUTOUGH2 : M Unit := do
  readTitle
  let line ← readline
  let istart := findI line "AFTER".toList + 5
  let iend := findI line "TIME STEPS".toList
  let step ← liftE (fortranInt (sliceI line istart iend))
  let istart := iend + 10
  let iend := findI line "SECONDS".toList
  let time ← liftE (fortranFloat (sliceI line istart iend))
  modify fun s => { s with step := fvalOfInt step, time := fvalOf time }
  let _ ← readline

def readHeaderTOUGH2 : M Unit := do
  let strs := splitWs (← readline)
  match strs with
  | a :: b :: _ =>
    let time ← liftE (fortranFloat a)
    let step ← liftE (fortranInt b)
    modify fun s => { s with step := fvalOfInt step, time := fvalOf time }
  | _ => raise .indexError
  let marker := if (← isPlus) then "=====" else "@@@@@"
  let _ ← skipto1 marker
  skipToNonblank
  let pos ← tell
  let strs := splitWs (← readline)
  if strs.length < 4 then skipToNonblank else seek pos

def readHeader : M Unit := do
  match bound (← get).fam "read_header" with
  | "read_header_AUTOUGH2" => readHeaderAUTOUGH2
  | "read_header_TOUGH2" => readHeaderTOUGH2
  | _ => throw (.named "AttributeError")

/-! ### positions of the result sets -/

def setupShortTypes : M Unit := do
  modify fun s => { s with shortTypes := [] }
  if (← isAutough2) then
    let startpos ← tell
    seek0
    let kws := ["ESHORT".toList, "CSHORT".toList, "GSHORT".toList]
    -- at most one iteration per keyword plus the closing one
    let rec loop : Nat → M Unit
      | 0 => pure ()
      | f + 1 => do
        match (← skipto kws) with
        | none => pure ()
        | some kw =>
          if (← get).shortTypes.contains kw then pure ()
          else
            modify fun s => { s with shortTypes := s.shortTypes ++ [kw] }
            let _ ← skipto [kw]
            let _ ← skipto [kw]
            loop f
    loop 4
    seek startpos

def setupPosAUTOUGH2 : M Unit := do
  seek0
  modify fun s => { s with fullpos := #[], allpos := #[], short := #[], times := #[], steps := #[], fulltimes := #[], fullsteps := #[] }
  let s ← get
  let kws := ["EEEEE".toList] ++ (match s.shortTypes with | [] => [] | k :: _ => [k])
  let rec loop : Nat → M Unit
    | 0 => pure ()
    | f + 1 => do
      match (← skipto kws) with
      | none => pure ()
      | some kw =>
        let p ← tell
        modify fun s => { s with allpos := s.allpos.push p }
        readHeaderAUTOUGH2
        modify fun s =>
          let s := if kw = "EEEEE".toList then
            { s with fullpos := s.fullpos.push p, fulltimes := s.fulltimes.push s.time, fullsteps := s.fullsteps.push s.step, short := s.short.push false }
          else { s with short := s.short.push true }
          { s with times := s.times.push s.time, steps := s.steps.push s.step }
        let _ ← readline
        let _ ← skipto [kw]
        loop f
  loop (s.all.length + 1)

def setupPosTOUGH2 : M Unit := do
  seek0
  modify fun s => { s with fullpos := #[], allpos := #[], short := #[], times := #[], steps := #[], fulltimes := #[], fullsteps := #[] }
  let n := (← get).all.length
  let rec loop : Nat → M Unit
    | 0 => pure ()
    | f + 1 => do
      let line ← readUntil (fun l => startsWith (lower (lstrip l)) "output data after".toList) true
      if line != [] then
        let _ ← readUntil (fun l => isIn "total time".toList (lower l)) false
        let p ← tell
        modify fun s => { s with allpos := s.allpos.push p, fullpos := s.fullpos.push p }
        readHeader
        modify fun s => { s with times := s.times.push s.time, steps := s.steps.push s.step,
                                 fulltimes := s.fulltimes.push s.time, fullsteps := s.fullsteps.push s.step,
                                 short := s.short.push false }
        let _ ← skipto1 "@@@@@"
        loop f
      else pure ()
  loop (n + 1)

def setupPos : M Unit := do
  match bound (← get).fam "setup_pos" with
  | "setup_pos_AUTOUGH2" => setupPosAUTOUGH2
  | "setup_pos_TOUGH2" => setupPosTOUGH2
  | _ => throw (.named "AttributeError")

/-! ### table types and the walk from one table to the next -/

def tableTypeAUTOUGH2 (kw : Str) : Option String :=
  if kw = "EEEEE".toList then some "element"
  else if kw = "CCCCC".toList then some "connection"
  else if kw = "GGGGG".toList then some "generation"
  else none

def S (s : String) : Str := s.toList

namespace Cu

def tableTypeTOUGH2 (h : List Str) : C (Option String) := do
  let h2 := h.take 2
  let h3 := h.take 3
  if h2 = [S "ELEM.", S "INDEX"] || h2 = [S "ELEM.", S "IND."] then
    match h[2]? with
    | none => raise .indexError
    | some x =>
      if x = S "P" then return some "element"
      else if x = S "X1" then return some "primary"
      else return none
  else if h3 = [S "ELEM1", S "ELEM2", S "INDEX"] then return some "connection"
  else if h3 = [S "ELEMENT", S "SOURCE", S "INDEX"] || h3 = [S "ELEM.", S "SOURCE", S "INDEX"] then return some "generation"
  else return none

def tableTypePlus (h : List Str) : C (Option String) := do
  if h.take 2 = [S "ELEM", S "INDEX"] then
    match h[2]? with
    | none => raise .indexError
    | some x => return some (if x = S "X1" then "primary" else "element")
  else if h = [S "ELEM1", S "ELEM2", S "INDEX"] then return some "connection"
  else if h = [S "ELEMENT", S "SOURCE", S "INDEX"] then return some "generation"
  else return none

/-- `(self.num_fulltimes > 1) and (self.index < self.num_fulltimes-1)` and `pos >= self._fullpos[self.index+1]` -/
def pastThisResult (p : Pos) : C Bool := do
  let s ← read
  let index := (← get).index
  let n : Int := s.fulltimes.size
  if n > 1 && index < n - 1 then
    -- self._fullpos[self.index + 1] with Python indexing
    let k := index + 1
    let sz : Int := s.fullpos.size
    let j := if k < 0 then k + sz else k
    if j < 0 ∨ j ≥ sz then raise .indexError
    else return p.no ≥ (s.fullpos[j.toNat]!).no
  else return false

/-- `self.table_type(x)` as bound for this simulator (`x`: the first three header words, or the keyword of an AUTOUGH2 line) -/
def tableType (x : List Str) : C (Option String) := do
  match bound (← read).fam "table_type" with
  | "table_type_AUTOUGH2" => return tableTypeAUTOUGH2 (x.headD [])
  | "table_type_TOUGH2" => tableTypeTOUGH2 x
  | "table_type_TOUGHplus" => tableTypePlus x
  | _ => throw (.named "AttributeError")

def nextTableAUTOUGH2 : C (Option String) := do
  let l ← readline
  tableType [slice l 1 6]

def nextTableTOUGH2 : C (Option String) := do
  let rec loop : Nat → C (Option String)
    | 0 => throw .diverges
    | f + 1 => do
      let line ← readUntil (fun l => startsWith (strip l) (S "KCYC") && isIn (S "ITER") l) true
      if line = [] then return none
      let pos ← tell
      if (← pastThisResult pos) then return none
      skipToNonblank
      let headpos ← tell
      let line := strip (← readline)
      if line = S "MASS FLOW RATES (KG/S) FROM DIFFUSION" then
        let _ ← skipto1 "@@@@@"
        loop f
      else
        seek headpos
        tableType ((splitWs line).take 3)
  loop ((← get).pos.rest.length + 2)

def nextTablePlus : C (Option String) := do
  match (← skipto1 "_____" 0) with
  | none => return none
  | some _ =>
    let _ ← readline
    let pos ← tell
    if (← pastThisResult pos) then return none
    let headpos ← tell
    let line ← readline
    seek headpos
    tableType ((splitWs (strip line)).take 3)

def nextTable : C (Option String) := do
  match bound (← read).fam "next_table" with
  | "next_table_AUTOUGH2" => nextTableAUTOUGH2
  | "next_table_TOUGHplus" => nextTablePlus
  | "next_table_TOUGH2" => nextTableTOUGH2
  | _ => throw (.named "AttributeError")

end Cu

def nextTable : M (Option String) := liftC Cu.nextTable
def nextTableTOUGH2 : M (Option String) := liftC Cu.nextTableTOUGH2
def nextTablePlus : M (Option String) := liftC Cu.nextTablePlus

/-! ### setting up a table (layout inference) -/

def isResultsLine (line : Str) (expected : Int) : Bool := (countDotDigits line : Int) ≥ expected

/-- `skip_to_results_line`: number of lines skipped + 1; spins at end of file -/
def skipToResultsLineL (expected : Int) : List Str → Nat → Nat → Option (Nat × Pos)
  | [], n, k => if isResultsLine [] expected then some (k, ⟨n, []⟩) else none
  | l :: r, n, k =>
    if isResultsLine (strip l) expected then some (k, ⟨n, l :: r⟩)
    else skipToResultsLineL expected r (n + 1) (k + 1)

namespace Cu

def skipToResultsLine (expected : Int) : C Nat := do
  let s ← get
  match skipToResultsLineL expected s.pos.rest s.pos.no 1 with
  | none => throw .diverges
  | some (k, p) => set { s with pos := p }; return k

def tableExpectedFloats (tablename : String) (cols : List Str) : C Int := do
  let n : Int := if tablename = "generation" then 1 else cols.length
  match cols with
  | [] => raise .indexError
  | c :: _ => return (if c = ['I'] then n - 1 else n)

def getTable (name : String) : C Table := do
  match (← read).tables.lookup name with
  | some t => return t
  | none => raise .keyError

end Cu

def skipToResultsLine (expected : Int) : M Nat := liftC (Cu.skipToResultsLine expected)
def tableExpectedFloats (tablename : String) (cols : List Str) : M Int := liftC (Cu.tableExpectedFloats tablename cols)

def parseTableHeaderTOUGH2 : M (Nat × List Str) := do
  let flow := if (← isPlus) then [S "Flow", S "Veloc"] else [S "RATE"]
  let headstrs := splitWs (strip (← readline))
  let nkeys ← match headstrs.idxOf? (S "INDEX") with
    | some k => pure k
    | none => match headstrs.idxOf? (S "IND.") with
      | some k => pure k
      | none => throw (.named "UnboundLocalError")
  let rec go : List Str → List Str → M (List Str)
    | [], acc => pure acc.reverse
    | s :: r, acc =>
      if flow.contains s then
        match acc with
        | [] => raise .indexError
        | last :: more => go r ((last ++ [' '] ++ s) :: more)
      else go r (s :: acc)
  let cols ← go (headstrs.drop (nkeys + 1)) []
  return (nkeys, cols)

def parseTableHeaderAUTOUGH2 : M (Nat × List Str) := do
  let headstrs := splitWs (strip (← readline))
  let nkeys ← match headstrs.idxOf? (S "INDEX") with
    | some k => pure k
    | none => raise .valueError
  let rec go : List Str → List Str → M (List Str)
    | [], acc => pure acc.reverse
    | s :: r, acc =>
      match s with
      | [] => raise .indexError
      | c :: _ =>
        if c = upperChar c then go r (s :: acc)
        else match acc with
          | [] => raise .indexError
          | last :: more => go r ((last ++ [' '] ++ s) :: more)
  let cols ← go (headstrs.drop (nkeys + 1)) []
  return (nkeys, cols)

def keyOfLine (line : Str) (keypos : List Int) : M Key := liftE (keyFromLine line keypos)

/-- `rowdict[index] = (count, keyval)` -/
def dictSet (d : List (Int × Nat × Key)) (i : Int) (v : Nat × Key) : List (Int × Nat × Key) :=
  if d.any (·.1 = i) then d.map (fun e => if e.1 = i then (i, v) else e) else (i, v) :: d

def insertSorted (e : Int × Nat × Key) : List (Int × Nat × Key) → List (Int × Nat × Key)
  | [] => [e]
  | x :: r => if e.1 ≤ x.1 then e :: x :: r else x :: insertSorted e r

def sortByIndex (d : List (Int × Nat × Key)) : List (Int × Nat × Key) := d.foldr insertSorted []

def isHeaderLine (cols : List Str) (line : Str) : Bool := cols.all (fun c => isIn c line)

/-- `len(line) > lsep and line[1:lsep+1] == line[1]*lsep` with `lsep = 60` -/
def isSeparator (line : Str) : Bool :=
  line.length > 60 && (match line[1]? with
    | some c => slice line 1 61 == List.replicate 60 c
    | none => false)

structure SetupSt where
  line : Str
  count : Nat := 0
  index : Int := -1
  longest : Str
  rowdict : List (Int × Nat × Key) := []
  skips : List Nat := []           -- reversed
  ihs : Option Nat := none         -- internal_header_skiplines

def setupTableTOUGH2 (tablename : String) : M Unit := do
  let (nkeys, cols) ← parseTableHeaderTOUGH2
  let expected ← tableExpectedFloats tablename cols
  let headerSkip ← skipToResultsLine expected
  let line ← readline
  let start ← liftE (startOfValues line cols)
  let keypos? ← liftE (keyPositions (sliceO line none start) nkeys)
  match keypos? with
  | none => raise .generic
  | some [] => raise .generic
  | some keypos =>
    let lastKey := keypos.getLast!
    let title := (← get).title
    let rec loop : Nat → SetupSt → M SetupSt
      | 0, _ => throw .diverges
      | f + 1, st => do
        let line := st.line
        let keyval ← keyOfLine line keypos
        let indexstr := sliceO line (some (lastKey + 5)) start
        let index := match pyInt indexstr with
          | .ok v => v - 1
          | .error _ => st.index + 1
        let rowdict := dictSet st.rowdict index (st.count, keyval)
        let longest := if (strip line).length > st.longest.length then line else st.longest
        let pos ← tell
        let lastCount := st.count
        let mut line ← readline
        let mut count := st.count + 1
        let mut more := true
        let mut internalHeader := false
        if isHeaderLine cols line then internalHeader := true
        else if isSeparator line then
          more := false
          seek pos
        else if isBlank line then
          let pos2 ← tell
          line ← readline
          count := count + 1
          let stripline := strip line
          if isHeaderLine cols line then internalHeader := true
          else if isSeparator line || stripline = title || stripline.isEmpty then
            more := false
            seek pos2
        let mut ihs := st.ihs
        if more && internalHeader then
          match ihs with
          | none =>
            let k ← skipToResultsLine expected
            ihs := some k
            count := count + k
            line ← readline
          | some k =>
            for _ in [0:k] do
              line ← readline
              count := count + 1
        let st' : SetupSt := { line, count, index, longest, rowdict, skips := (count - lastCount - 1) :: st.skips, ihs }
        if more then loop f st' else return st'
    let st ← loop ((← get).pos.rest.length + 3) { line, longest := line }
    let sorted := sortByIndex st.rowdict
    let rowLine := sorted.map (·.2.1)
    let rows := sorted.map (·.2.2)
    let numpos ← liftE (parseTableLine st.longest start cols)
    let t : Table := { mkTable cols rows.toArray nkeys (tablename = "connection") with
                       keyPos := keypos, numpos := numpos, rowLine := some rowLine.toArray,
                       headerSkip := headerSkip, skips := st.skips.reverse, longest := st.longest }
    putTable tablename t
    modify fun s => { s with tablenames := s.tablenames ++ [tablename] }

def setupTableAUTOUGH2 (tablename : String) : M Unit := do
  let keyword := keyword5 tablename
  skiplines 3
  let (nkeys, cols) ← parseTableHeaderAUTOUGH2
  let _ ← readline
  let line ← readline
  let start ← liftE (startOfValues line cols)
  let nvalues := (splitWs (strip (sliceO line start none))).length
  if cols.length = nvalues then
    let keypos? ← liftE (keyPositions (sliceO line none start) nkeys)
    match keypos? with
    | none => raise .generic
    | some [] => raise .generic
    | some keypos =>
      let rec loop : Nat → Str → List Key → M (List Key)
        | 0, _, _ => throw .diverges
        | f + 1, line, acc =>
          if slice line 1 6 != keyword then do
            let k ← keyOfLine line keypos
            let l ← readline
            loop f l (k :: acc)
          else pure acc.reverse
      let rows ← loop ((← get).pos.rest.length + 3) line []
      let t : Table := { mkTable cols rows.toArray nkeys (tablename = "connection") with keyPos := keypos, numpos := [start] }
      putTable tablename t
      modify fun s => { s with tablenames := s.tablenames ++ [tablename] }
      let _ ← readline
  else raise .generic

def setupTable (tablename : String) : M Unit := do
  match bound (← get).fam "setup_table" with
  | "setup_table_AUTOUGH2" => setupTableAUTOUGH2 tablename
  | "setup_table_TOUGH2" => setupTableTOUGH2 tablename
  | _ => throw (.named "AttributeError")

/-! ### reading and skipping tables -/

def readTableAUTOUGH2 (tablename : String) : M Unit := do
  let t ← getTable tablename
  let start := t.numpos.headD none
  let keyword := keyword5 tablename
  skipToBlank
  let _ ← readline
  skipToBlank
  skipToNonblank
  let line ← readline
  let rec loop : Nat → Str → Nat → Table → M Table
    | 0, _, _, _ => throw .diverges
    | f + 1, line, row, t =>
      if slice line 1 6 != keyword then do
        let vals ← liftE (readTableLineAUTOUGH2 line start)
        let t' ← liftE (t.setRowAt row vals)
        let l ← readline
        loop f l (row + 1) t'
      else pure t
  let t' ← loop ((← get).pos.rest.length + 3) line 0 t
  putTable tablename t'
  let _ ← readline

def skipTableAUTOUGH2 (tablename : String) : M Unit := do
  let keyword := keyword5 tablename
  skipToBlank
  -- line = readline(); while line[1:6] != keyword: line = readline()   (spins at end of file)
  let _ ← readUntil (fun l => slice l 1 6 == keyword) false
  let _ ← readline

/-- the row loop of read_table_TOUGH2 over the lines still to be read:
    `for skip in table.skiplines: line = readline(); table[key_from_line(line)] = read_table_line(line); skiplines(skip)`;
    returns the table and the lines left (at end of file `readline()` gives `''` and stays) -/
def readRowsL (keyPos : List Int) (ncols : Nat) (numpos : List (Option Int)) : List Nat → List Str → Table → Except Exc (Table × List Str)
  | [], rest, t => .ok (t, rest)
  | skip :: more, rest, t =>
    match keyFromLine (rest.headD []) keyPos with
    | .error e => .error e
    | .ok key =>
      match readTableLineTOUGH2 (rest.headD []) ncols numpos with
      | .error e => .error e
      | .ok vals =>
        match t.setRow key vals with
        | .error e => .error e
        | .ok t' => readRowsL keyPos ncols numpos more ((rest.drop 1).drop skip) t'

def readTableTOUGH2 (tablename : String) : M Unit := do
  let t ← getTable tablename
  skiplines t.headerSkip
  let s ← get
  match readRowsL t.keyPos t.cols.length t.numpos t.skips s.pos.rest t with
  | .error e => raise e
  | .ok (t', rest') =>
    set { s with pos := ⟨s.pos.no + (s.pos.rest.length - rest'.length), rest'⟩ }
    putTable tablename t'

def skipTableTOUGH2 (tablename : String) : M Unit := do
  match (← get).tables.lookup tablename with
  | some t => skiplines (t.headerSkip + t.rows.size + t.skips.sum)
  | none =>
    let chars := if (← isPlus) && tablename = "primary" then "_____" else "@@@@@"
    let _ ← skipto1 chars

def readTable (tablename : String) : M Unit := do
  match bound (← get).fam "read_table" with
  | "read_table_AUTOUGH2" => readTableAUTOUGH2 tablename
  | "read_table_TOUGH2" => readTableTOUGH2 tablename
  | _ => throw (.named "AttributeError")

def skipTable (tablename : String) : M Unit := do
  match bound (← get).fam "skip_table" with
  | "skip_table_AUTOUGH2" => skipTableAUTOUGH2 tablename
  | "skip_table_TOUGH2" => skipTableTOUGH2 tablename
  | _ => throw (.named "AttributeError")

/-- the loop shared by setup_tables_* and read_tables_*; `act` sets up or reads one table -/
def tablesLoop (act : String → M Unit) (headerEach : Bool) (countElements : Bool) : Nat → String → Nat → M Unit
  | 0, _, _ => throw .diverges
  | f + 1, tablename, nelt => do
    if headerEach then readHeader
    act tablename
    match (← nextTable) with
    | none => pure ()
    | some tn =>
      if countElements && tn = "element" then
        tablesLoop act headerEach countElements f ("element" ++ toString (nelt + 1)) (nelt + 1)
      else tablesLoop act headerEach countElements f tn nelt

def setupTables : M Unit := do
  let fam := (← get).fam
  let act (tn : String) : M Unit := do
    if (← get).skipTables.contains tn then skipTable tn else setupTable tn
  let fuel := (← get).all.length + 2
  match (← get).fullpos[0]? with
  | none => raise .indexError
  | some p0 =>
    match bound fam "setup_tables" with
    | "setup_tables_AUTOUGH2" =>
      seek p0
      tablesLoop act true false fuel "element" 0
    | "setup_tables_TOUGH2" =>
      readTitle
      seek p0
      readHeader
      tablesLoop act false false fuel "element" 0
    | "setup_tables_TOUGHplus" =>
      readTitle
      seek p0
      readHeader
      tablesLoop act false true fuel "element" 0
    | _ => throw (.named "AttributeError")

def readTables : M Unit := do
  let fam := (← get).fam
  let fuel := (← get).pos.rest.length + 2
  match bound fam "read_tables" with
  | "read_tables_AUTOUGH2" =>
    let act (tn : String) : M Unit := do
      if (← get).skipTables.contains tn then skipTable tn else readTable tn
    tablesLoop act true false fuel "element" 0
  | "read_tables_TOUGHplus" =>
    readHeader
    let act (tn : String) : M Unit := do
      if (← get).skipTables.contains tn then skipTable tn else readTable tn
    tablesLoop act false true fuel "element" 0
  | "read_tables_TOUGH2" =>
    readHeader
    let act (tn : String) : M Unit := do
      if (← get).skipTables.contains tn then skipTable tn
      else if (← hasTable tn) then readTable tn
      else skipTable tn                      -- a table not present at the first result time
    tablesLoop act false false fuel "element" 0
  | _ => throw (.named "AttributeError")

/-! ### short output (AUTOUGH2) -/

def setupShortIndices : M Unit := do
  modify fun s => { s with shortIndices := [] }
  if (← isAutough2) then
    let startpos ← tell
    let s ← get
    let shortpos := (s.allpos.toList.zip s.short.toList).filter (·.2) |>.map (·.1)
    match shortpos with
    | [] => pure ()
    | p0 :: _ =>
      seek p0
      let rec tables : List Str → Nat → M Unit
        | [], _ => pure ()
        | table :: more, itable => do
          let fulltable := match table with
            | [] => none
            | c :: _ => tableTypeAUTOUGH2 (List.replicate 5 (upperChar c))
          if itable > 0 then let _ ← skipto [table]
          let _ ← skipto [table]
          skipToBlank
          skipToNonblank
          let ft? ← match fulltable with
            | none => pure none
            | some ft => pure ((← get).tables.lookup ft)
          let rowindex : Str → M Int ← match ft? with
            | some ft =>
              skipToBlank
              pure (fun (line : Str) => do
                let key ← keyOfLine line ft.keyPos
                match lastIdx ft.rows key with
                | some i => pure (i : Int)
                | none => raise .keyError)
            | none =>
              let l ← readline
              match find l (S "INDEX") with
              | none => raise .valueError
              | some ip =>
                pure (fun (line : Str) => do
                  match (← liftE (fortranInt (slice line ip (ip + 5)))) with
                  | .val (some v) => pure (v - 1)
                  | .val none => raise .typeError
                  | .blank => pure (-1))
          skipToNonblank
          let rec rows : Nat → Nat → List (Int × Nat) → M (List (Int × Nat))
            | 0, _, _ => throw .diverges
            | f + 1, lineindex, acc => do
              let eof ← atEof
              let line ← readline
              if startsWith (line.drop 1) table then pure acc
              else
                let idx ← rowindex line
                let acc' := if acc.any (·.1 = idx) then acc.map (fun e => if e.1 = idx then (idx, lineindex) else e) else acc ++ [(idx, lineindex)]
                if eof then throw .diverges
                rows f (lineindex + 1) acc'
          let d ← rows ((← get).pos.rest.length + 3) 0 []
          modify fun s => { s with shortIndices := s.shortIndices ++ [(table, d)] }
          tables more (itable + 1)
      tables s.shortTypes 0
    seek startpos

/-! ### navigation -/

def setIndex (i : Int) : M Unit := do
  let s ← get
  let n : Int := s.fullpos.size
  let j := if i < 0 then i + n else i
  if j < 0 ∨ j ≥ n then raise .indexError
  seek (s.fullpos[j.toNat]!)
  modify fun s => { s with index := if i < 0 then i + (s.fulltimes.size : Int) else i }
  readTables

/-- `t2listing.__init__` -/
def openReader : M Unit := do
  detectSimulator
  match (← get).simulator with
  | none => raise .generic
  | some _ =>
    setupShortTypes
    setupPos
    if (← numFull) > 0 then
      modify fun s => { s with index := 0 }
      setupTables
      setupShortIndices
      setIndex 0
    else raise .generic

/-- lines of a file: split after every `\n` (the terminator stays with its line) -/
def splitLines : Str → List Str
  | [] => []
  | s =>
    let rec go : Str → Str → List Str
      | [], cur => if cur.isEmpty then [] else [cur.reverse]
      | c :: r, cur => if c = '\n' then (c :: cur).reverse :: go r [] else go r (c :: cur)
    go s []

def initRd (content : Str) (isOutputData : Bool) (skip : List String) : Rd :=
  let ls := splitLines content
  { all := ls, isOutputData, pos := ⟨0, ls⟩, skipTables := skip }

end Model.Listing
