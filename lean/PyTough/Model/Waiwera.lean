/-
  Model of the parts of the Waiwera JSON export (`t2data.json`) that property C20 speaks about:

    eos_json         which equation of state is recognised (explicit name / index, MULTI, simulator string)
    rocks_json       the `cells` list of every rock type (partition of the non-boundary blocks)
    generators_json  the `source` list: one entry per generator whose type is not the group type,
                     its generated name (`unique_name`) and its `cell`
    boundaries_json  which blocks are boundary blocks (the complement of the rock cells)

  Volumes are exact rationals (the harness passes `Fraction(double)`), so `0. < v < atmos_volume`
  is decided exactly as the doubles decide it.
-/
import PyTough.Model.Convert
namespace Model.Waiwera
open Py
open Gen.ConvertTables
open Model.Convert (Dict PyV Gener)

/-! ### eos_json -/

inductive EosArg where
  | none
  | idx (i : Int)
  | name (s : Str)
  deriving DecidableEq, Repr, Inhabited

/-- the loop `for eosname in supported_eos.keys(): if simulator.endswith(eosname): aut2eosname = eosname`
    (the last match in dict order wins) -/
def eosFromSimulator (sim : Str) : Str :=
  supportedEos.foldl (fun acc e => if e.1.isSuffixOf sim then e.1 else acc) []

/-- `if self.multi: if 'eos' in self.multi: if self.multi['eos']: aut2eosname = self.multi['eos'].strip()` -/
def eosFromMulti (multi : Dict) : Str :=
  if multi.isEmpty then []
  else match Dict.get? multi Model.Convert.kEos with
    | some (.str s) => if s.isEmpty then [] else strip s
    | _ => []

/-- the AUTOUGH2 EOS name that `eos_json` settles on (`[]` = not detected) -/
def aut2EosName (eos : EosArg) (multi : Dict) (sim : Str) : Str :=
  match eos with
  | .none =>
    if (eosFromMulti multi).isEmpty && !sim.isEmpty then eosFromSimulator sim else eosFromMulti multi
  | .idx i => (eosFromIndex.lookup i).getD []
  | .name s => s

structure EosOut where
  name : Str          -- Waiwera EOS name
  tracer : Bool       -- a tracer section is produced
  deriving DecidableEq, Repr

/-- `eos_json`; `nIncons = len(parameter['default_incons'])` (EOS `w` reads element 1 of it).
    The diffusion test of `EWTD` is outside the model (the harness gives such models a uniform
    negative DIFFU table). -/
def eosJson (eos : EosArg) (multi : Dict) (sim : Str) (nIncons : Nat) : Except Exc EosOut :=
  let a := aut2EosName eos multi sim
  if a.isEmpty then .error .generic                        -- 'EOS not detected.'
  else match supportedEos.lookup a with
    | Option.none => .error .generic                       -- 'EOS not supported:'
    | some w =>
      if w = ['w'] ∧ nIncons < 2 then .error .indexError   -- default_incons[1]
      else .ok { name := w, tracer := tracerEos.contains a }

/-! ### rocks_json -/

structure WBlock where
  name : Str
  rock : Str         -- blk.rocktype.name
  volume : Rat
  deriving DecidableEq, Repr, Inhabited

/-- `dict` built from a list of pairs / by repeated assignment: the last value for a key wins -/
def lastIdx : List Str → Str → Option Nat
  | [], _ => Option.none
  | x :: r, k =>
    match lastIdx r k with
    | some j => some (j + 1)
    | Option.none => if x == k then some 0 else Option.none

/-- `0. < blk.volume < atmos_volume` -/
def interior (atmos : Rat) (b : WBlock) : Bool := decide (0 < b.volume) && decide (b.volume < atmos)

/-- `grid.block[name]` (the dict is keyed by block name) -/
def findBlock (bs : List WBlock) (n : Str) : Option WBlock := bs.find? (·.name == n)

/-- `list[i].append(x)` -/
def appendAt (cells : List (List Int)) (i : Nat) (x : Int) : List (List Int) :=
  cells.modify i (· ++ [x])

/-- the second loop of `rocks_json`: `rockNames` = names of `grid.rocktypelist` in order,
    `geoNames` = `geo.block_name_list`, `nAtm` = `geo.num_atmosphere_blocks`. -/
def rockCellsLoop (rockNames geoNames : List Str) (nAtm : Nat) (blocks : List WBlock) (atmos : Rat) :
    List Str → List (List Int) → Except Exc (List (List Int))
  | [], cells => .ok cells
  | n :: rest, cells =>
    match findBlock blocks n with
    | Option.none => .error .keyError                       -- self.grid.block[blkname]
    | some b =>
      match lastIdx geoNames b.name with
      | Option.none => .error .keyError                     -- geo.block_name_index[blk.name]
      | some i =>
        if interior atmos b then
          match lastIdx rockNames b.rock with
          | Option.none => .error .keyError                 -- rock_index[rockname]
          | some r => rockCellsLoop rockNames geoNames nAtm blocks atmos rest
                        (appendAt cells r ((i : Int) - nAtm))
        else rockCellsLoop rockNames geoNames nAtm blocks atmos rest cells

def rockCells (rockNames geoNames : List Str) (nAtm : Nat) (blocks : List WBlock) (atmos : Rat) :
    Except Exc (List (List Int)) :=
  rockCellsLoop rockNames geoNames nAtm blocks atmos geoNames (rockNames.map fun _ => [])

/-- the blocks for which `boundaries_json` builds a boundary condition candidate:
    `for blk in self.grid.blocklist: if not (0. < blk.volume < atmos_volume)` -/
def boundaryBlocks (blocks : List WBlock) (atmos : Rat) : List Str :=
  (blocks.filter (fun b => !interior atmos b)).map (·.name)

/-! ### generators_json: the `source` list -/

/-- decimal digits of a natural number -/
def natDigits (n : Nat) : Str := (Nat.toDigits 10 n)

/-- `unique_name(gen)` with its `used_names` counter dict -/
def uniqueName (useBlockNames : Bool) (used : List (Str × Nat)) (g : Gener) : Str × List (Str × Nat) :=
  if g.name.isEmpty then (g.name, used)
  else
    let name := if useBlockNames then rjust g.block 5 ++ rjust g.name 5 else g.name
    match used.lookup name with
    | some c => (name ++ ['_'] ++ natDigits c, used.map (fun e => if e.1 == name then (e.1, c + 1) else e))
    | Option.none => (name, used ++ [(name, 1)])

/-- the `cell` of a generator: index of its block in the geometry minus the atmosphere blocks,
    `None` when negative or when the block is unknown to the geometry -/
def cellOf (geoNames : List Str) (nAtm : Nat) (block : Str) : Option Int :=
  match lastIdx geoNames block with
  | some i => if (i : Int) - nAtm < 0 then Option.none else some ((i : Int) - nAtm)
  | Option.none => Option.none

structure Source where
  name : Str
  cell : Option Int
  deriving DecidableEq, Repr

def sourcesLoop (geoNames : List Str) (nAtm : Nat) (ubn : Bool) :
    List Gener → List (Str × Nat) → List Source → Except Exc (List Source)
  | [], _, acc => .ok acc
  | g :: rest, used, acc =>
    if unsupportedGenTypes.contains g.type then .error .generic
    else
      let (nm, used') := uniqueName ubn used g
      let s : Source := { name := nm, cell := cellOf geoNames nAtm g.block }
      sourcesLoop geoNames nAtm ubn rest used' (if g.type != groupType then acc ++ [s] else acc)

/-- `jsondata['source']` of `generators_json` (`[]` when the key is absent); `dictSize = len(self.generator)` -/
def sources (geoNames : List Str) (nAtm : Nat) (gens : List Gener) (dictSize : Nat) : Except Exc (List Source) :=
  sourcesLoop geoNames nAtm (decide (dictSize < gens.length)) gens [] []


/-! ### boundaries_json: which cells the faces of a boundary block name

  For every block of `grid.blocklist` that is a boundary block (`not (0. < volume < atmos_volume)`), and every
  connection name of that block (`blk.connection_name` is a *set*: the order in which its members come is not
  fixed, so results are compared as multisets), the other end of the connection — if it is a non-boundary
  block — contributes a face with `cells = [its cell index]`.  A boundary block whose faces list stays empty
  yields no boundary entry at all.  (Normals, primary variables and the two "collapse equal entries" passes
  are outside the model.) -/

/-- `names = list(conname); names.remove(blk.name); names[0]` -/
def otherEnd (c : Str × Str) (b : Str) : Str := if c.1 == b then c.2 else c.1

/-- the faces loop of one boundary block over its connection names -/
def faceCellsLoop (geoNames : List Str) (nAtm : Nat) (blocks : List WBlock) (atmos : Rat) (b : Str) :
    List (Str × Str) → Except Exc (List Int)
  | [] => .ok []
  | c :: rest =>
    match findBlock blocks (otherEnd c b) with
    | Option.none => .error .keyError                       -- self.grid.block[interior_blkname]
    | some w =>
      if interior atmos w then
        match lastIdx geoNames (otherEnd c b) with
        | Option.none => .error .keyError                   -- geo.block_name_index[interior_blkname]
        | some i =>
          match faceCellsLoop geoNames nAtm blocks atmos b rest with
          | .ok cs => .ok (((i : Int) - nAtm) :: cs)
          | .error e => .error e
      else faceCellsLoop geoNames nAtm blocks atmos b rest

/-- the connection names of a block (those that contain its name) -/
def connsOf (conns : List (Str × Str)) (b : Str) : List (Str × Str) := conns.filter (fun c => c.1 == b || c.2 == b)

/-- the boundary entries: (boundary block, cells of its faces) for the boundary blocks that have faces -/
def boundaryFacesLoop (geoNames : List Str) (nAtm : Nat) (blocks : List WBlock) (atmos : Rat) (conns : List (Str × Str)) :
    List WBlock → Except Exc (List (Str × List Int))
  | [] => .ok []
  | b :: rest =>
    if interior atmos b then boundaryFacesLoop geoNames nAtm blocks atmos conns rest
    else
      match faceCellsLoop geoNames nAtm blocks atmos b.name (connsOf conns b.name) with
      | .error e => .error e
      | .ok cs =>
        match boundaryFacesLoop geoNames nAtm blocks atmos conns rest with
        | .error e => .error e
        | .ok r => .ok (if cs.isEmpty then r else (b.name, cs) :: r)

def boundaryFaces (geoNames : List Str) (nAtm : Nat) (blocks : List WBlock) (atmos : Rat) (conns : List (Str × Str)) :
    Except Exc (List (Str × List Int)) :=
  boundaryFacesLoop geoNames nAtm blocks atmos conns blocks

end Model.Waiwera
