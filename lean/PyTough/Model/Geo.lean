/-
  Plane geometry primitives of `/repo/geometry.py` used by the geometry models, over exact
  rationals (core `Rat`; Mathlib-free, executable).

    polygon_area      -> polygonArea      (as written: shift by the first vertex, shoelace, halve)
    polygon_centroid  -> polygonCentroid  (as written, n ≥ 3 branch and n < 3 branch)
    in_polygon        -> inPolygon        (as written: crossing number relative to polygon[0], tolerance 1e-6)
-/
import PyTough.Py.Str
import PyTough.Model.Names
namespace Model.Geo
open Py

abbrev Pt := Rat × Rat

namespace Pt
@[inline] def add (a b : Pt) : Pt := (a.1 + b.1, a.2 + b.2)
@[inline] def sub (a b : Pt) : Pt := (a.1 - b.1, a.2 - b.2)
@[inline] def smul (k : Rat) (a : Pt) : Pt := (k * a.1, k * a.2)
/-- `p1[0] * p2[1] - p2[0] * p1[1]` -/
@[inline] def cross (a b : Pt) : Rat := a.1 * b.2 - b.1 * a.2
@[inline] def mid (a b : Pt) : Pt := smul (1/2) (add a b)
end Pt

/-- consecutive pairs of a cyclic list, `(l[j], l[(j+1) % n])` for `j = 0..n-1`, in order -/
def cycGo {α} (first : α) : List α → List (α × α)
  | [] => []
  | [x] => [(x, first)]
  | x :: y :: r => (x, y) :: cycGo first (y :: r)

def cyc {α} : List α → List (α × α)
  | [] => []
  | a :: t => cycGo a (a :: t)

def sumRat (l : List Rat) : Rat := l.foldr (· + ·) 0

/-- twice the signed area by the shoelace formula, no shift -/
def shoelace2 (p : List Pt) : Rat := sumRat ((cyc p).map fun e => Pt.cross e.1 e.2)

/-- `geometry.polygon_area`: `polygon -= polygon[0]` (a fresh array: the node positions are not
    modified), shoelace sum, times 0.5.  Positive for counter-clockwise polygons. -/
def polygonArea (p : List Pt) : Rat :=
  match p with
  | [] => 0
  | p0 :: _ => (1/2) * shoelace2 (p.map (Pt.sub · p0))

/-- `geometry.polygon_centroid`; `none` = ZeroDivisionError-like (nan/inf in numpy) for a degenerate polygon -/
def polygonCentroid (p : List Pt) : Option Pt :=
  match p with
  | [] => none
  | p0 :: _ =>
    let q := p.map (Pt.sub · p0)
    let n := p.length
    if n < 3 then
      some (Pt.add (Pt.smul (1 / (n : Rat)) (q.foldr Pt.add (0, 0))) p0)
    else
      let es := cyc q
      let area2 := sumRat (es.map fun e => Pt.cross e.1 e.2)
      let c := (es.map fun e => Pt.smul (Pt.cross e.1 e.2) (Pt.add e.1 e.2)).foldr Pt.add (0, 0)
      let area := (1/2) * area2
      if area = 0 then none else some (Pt.add (Pt.smul (1 / (6 * area)) c) p0)

/-- `geometry.in_polygon` (crossing number; tolerance 1e-6 on |dy|) -/
def inPolygon (pos : Pt) (poly : List Pt) : Bool :=
  match poly with
  | [] => false
  | ref :: _ =>
    let v := Pt.sub pos ref
    let q := poly.map (Pt.sub · ref)
    let n := ((cyc q).filter fun (p1, p2) =>
      ((p1.2 ≤ v.2 && v.2 < p2.2) || (p2.2 ≤ v.2 && v.2 < p1.2)) &&
        (let d := Pt.sub p2 p1
         let ady := if d.2 < 0 then -d.2 else d.2
         decide (ady > 1/1000000) &&
           decide (v.1 < p1.1 + (v.2 - p1.2) * d.1 / d.2))).length
    n % 2 == 1


/-! ## The geometry heap

Python objects have identity: the same column object sits in `columnlist`, in the `column` dict,
in the `column` sets of its nodes, in the `neighbour` sets of other columns and in two-element
`column` lists of connections, and `rename_column` mutates it in place.  Objects are therefore
records in append-only heaps (`Array`), referred to by index; lists, dicts and sets hold indices.

A Python `set` of objects is a duplicate-free `List Nat`; where the code iterates over a set the
model iterates in list (insertion) order — results are compared up to that order. -/

abbrev Name := Str

structure Node where
  name : Name
  pos : Pt
  cols : List Nat            -- `node.column`
  deriving Repr, Inhabited

structure Column where
  name : Name
  nodes : List Nat           -- `col.node`
  centre : Pt
  centreSpecified : Bool
  surface : Option Rat       -- `None` = default surface
  area : Rat
  numLayers : Int
  nbrs : List Nat            -- `col.neighbour`
  cons : List Nat            -- `col.connection`
  deriving Repr, Inhabited

structure Conn where
  c0 : Nat
  c1 : Nat
  nodes : Option (Nat × Nat) -- `con.node` (`None` when the columns share no side)
  deriving Repr, Inhabited

structure Layer where
  name : Name
  bottom : Rat
  centre : Rat
  top : Rat
  deriving Repr, Inhabited

structure Well where
  name : Name
  pos : List (Rat × Rat × Rat)
  deriving Repr, Inhabited

/-- an insertion-ordered `dict` with keys `κ` and object values -/
abbrev Dict (κ : Type) := List (κ × Nat)

namespace Dict
variable {κ : Type} [DecidableEq κ]
def get? (d : Dict κ) (k : κ) : Option Nat := (d.find? (fun p => p.1 = k)).map (·.2)
def contains (d : Dict κ) (k : κ) : Bool := d.any (fun p => p.1 = k)
/-- `d[k] = v`: an existing key keeps its position -/
def set : Dict κ → κ → Nat → Dict κ
  | [], k, v => [(k, v)]
  | (k', v') :: r, k, v => if k' = k then (k, v) :: r else (k', v') :: set r k v
/-- `del d[k]` (the caller has checked that `k` is present) -/
def del (d : Dict κ) (k : κ) : Dict κ := d.filter (fun p => p.1 ≠ k)
def keys (d : Dict κ) : List κ := d.map (·.1)
end Dict

structure Geo where
  convention : Nat := 0
  atmosType : Nat := 0
  N : Array Node := #[]
  C : Array Column := #[]
  K : Array Conn := #[]
  L : Array Layer := #[]
  W : Array Well := #[]
  nodelist : List Nat := []
  nodeD : Dict Name := []
  columnlist : List Nat := []
  columnD : Dict Name := []
  connlist : List Nat := []
  connD : Dict (Name × Name) := []
  layerlist : List Nat := []
  layerD : Dict Name := []
  welllist : List Nat := []
  wellD : Dict Name := []
  blockNames : List Name := []            -- `block_name_list` (`block_name_index` is `dict(enumerate)` of it)
  connNames : List (Name × Name) := []    -- `block_connection_name_list`
  deriving Inhabited

namespace Geo

@[inline] def node (g : Geo) (i : Nat) : Node := g.N[i]!
@[inline] def col (g : Geo) (i : Nat) : Column := g.C[i]!
@[inline] def con (g : Geo) (i : Nat) : Conn := g.K[i]!
@[inline] def lay (g : Geo) (i : Nat) : Layer := g.L[i]!
@[inline] def well (g : Geo) (i : Nat) : Well := g.W[i]!

def updNode (g : Geo) (i : Nat) (f : Node → Node) : Geo := { g with N := g.N.modify i f }
def updCol (g : Geo) (i : Nat) (f : Column → Column) : Geo := { g with C := g.C.modify i f }
def updCon (g : Geo) (i : Nat) (f : Conn → Conn) : Geo := { g with K := g.K.modify i f }
def updLay (g : Geo) (i : Nat) (f : Layer → Layer) : Geo := { g with L := g.L.modify i f }

/-- `s.add(x)` -/
def setAdd (s : List Nat) (x : Nat) : List Nat := if s.contains x then s else s ++ [x]
/-- `s.remove(x)` raises `KeyError` when `x` is absent (a set has no multiplicities: every copy goes) -/
def setRemove (s : List Nat) (x : Nat) : Except Exc (List Nat) :=
  if s.contains x then .ok (s.filter (· != x)) else .error .keyError

/-- `s.discard(x)` -/
def setDiscard (s : List Nat) (x : Nat) : List Nat := s.filter (· != x)
/-- `l.remove(x)` raises `ValueError` when `x` is absent -/
def listRemove (l : List Nat) (x : Nat) : Except Exc (List Nat) :=
  if l.contains x then .ok (l.erase x) else .error .valueError

def colnameLength (g : Geo) : Nat := Names.colnameLength g.convention
def layernameLength (g : Geo) : Nat := Names.layernameLength g.convention

def polygon (g : Geo) (nodes : List Nat) : List Pt := nodes.map fun i => (g.node i).pos

/-! ### `column.__init__` -/

/-- `column(name, node, centre, surface)`: centre = centroid when not given, area by the shoelace
    formula, node list reversed when the area is negative; empty neighbour / connection sets,
    `num_layers = 0`.  `none`: the centroid of a degenerate polygon is nan in numpy — outside the model. -/
def mkColumn (g : Geo) (name : Name) (nodes : List Nat) (centre : Option Pt) (surface : Option Rat) :
    Option Column :=
  let poly := g.polygon nodes
  let ctr : Option Pt := match centre with
    | some c => some c
    | none => polygonCentroid poly
  match ctr with
  | none => none
  | some c =>
    let a := polygonArea poly
    some { name, nodes := if a < 0 then nodes.reverse else nodes, centre := c,
           centreSpecified := centre.isSome, surface, area := if a < 0 then -a else a,
           numLayers := 0, nbrs := [], cons := [] }

/-! ### `add_*` / `delete_*` -/

/-- `add_node(node(name, pos))` -/
def addNode (g : Geo) (name : Name) (pos : Pt) : Geo :=
  if g.nodeD.contains name then g
  else
    let i := g.N.size
    { g with N := g.N.push { name, pos, cols := [] }, nodelist := g.nodelist ++ [i], nodeD := g.nodeD.set name i }

/-- `delete_node(nodename)` -/
def deleteNode (g : Geo) (name : Name) : Except Exc Geo :=
  match g.nodeD.get? name with
  | none => .error .keyError
  | some i => do
    let g1 := { g with nodeD := g.nodeD.del name }
    let l ← listRemove g1.nodelist i
    pure { g1 with nodelist := l }

/-- a column object exists (Python heap) before it is handed to `add_column` -/
def allocColumn (g : Geo) (c : Column) : Geo × Nat := ({ g with C := g.C.push c }, g.C.size)

/-- `add_column(col)` for the column object `i` -/
def registerColumn (g : Geo) (i : Nat) : Geo :=
  let c := g.col i
  if g.columnD.contains c.name then g
  else
    let g1 := { g with columnlist := g.columnlist ++ [i], columnD := g.columnD.set c.name i }
    c.nodes.foldl (fun g n => g.updNode n fun nd => { nd with cols := setAdd nd.cols i }) g1

/-- `add_column(col)` for a freshly constructed column record -/
def addColumnRec (g : Geo) (c : Column) : Geo :=
  let (g, i) := g.allocColumn c
  g.registerColumn i

/-- `add_column(column(name, nodes, centre, surface))`; `num_layers` as the caller then sets it -/
def addColumn (g : Geo) (name : Name) (nodes : List Nat) (centre : Option Pt) (surface : Option Rat)
    (numLayers : Int := 0) : Except Exc Geo :=
  match g.mkColumn name nodes centre surface with
  | none => .error .zeroDivision
  | some c => .ok (g.addColumnRec { c with numLayers })

/-- `connection_nodes(cols)`: the first side of `cols[a]` whose two nodes both belong to `cols[b]`,
    in the order of the first column of the connection -/
def connectionNodes (g : Geo) (c0 c1 : Nat) : Option (Nat × Nat) :=
  let n0 := (g.col c0).nodes
  let n1 := (g.col c1).nodes
  let find (a b : List Nat) : Option (Nat × Nat) :=
    ((cyc a).find? fun e => b.contains e.1 && b.contains e.2)
  if n0.length > 2 then find n0 n1
  else if n1.length > 2 then (find n1 n0).map fun e => (e.2, e.1)
  else none

/-- `add_connection(connection([col0, col1]))`: registers the connection, computes its node pair, adds it
    to both columns' connection sets and makes the two columns neighbours -/
def addConnection (g : Geo) (c0 c1 : Nat) : Geo :=
  let names := ((g.col c0).name, (g.col c1).name)
  if g.connD.contains names then g
  else
    let i := g.K.size
    let g1 := { g with K := g.K.push { c0, c1, nodes := g.connectionNodes c0 c1 },
                       connlist := g.connlist ++ [i], connD := g.connD.set names i }
    let g2 := [c0, c1].foldl (fun g c => g.updCol c fun cl => { cl with cons := setAdd cl.cons i }) g1
    let g3 := g2.updCol c0 fun cl => { cl with nbrs := setAdd cl.nbrs c1 }
    g3.updCol c1 fun cl => { cl with nbrs := setAdd cl.nbrs c0 }

/-- `col.is_against(other)`: they share more than one node -/
def isAgainst (g : Geo) (a b : Nat) : Bool :=
  (((g.col a).nodes.eraseDups).filter fun n => (g.col b).nodes.contains n).length > 1

/-- `connects(col1, col2)` -/
def connects (g : Geo) (a b : Nat) : Bool :=
  g.connlist.any fun k => let c := g.con k; (c.c0 = a || c.c1 = a) && (c.c0 = b || c.c1 = b)

/-- `col.connection.remove(con)` on a column record -/
def rmCon (i : Nat) (cl : Column) : Column := { cl with cons := cl.cons.filter (· != i) }

/-- the state after a successful `delete_connection` of the connection object `i` stored under `names`:
    `col.connection.remove(con)` for both columns; the two columns stop being neighbours unless another
    connection of the first column still joins them (`set.discard`); dict entry and list entry removed -/
def delConn (g : Geo) (names : Name × Name) (i : Nat) : Geo :=
  let k := g.con i
  let C1 := (g.C.modify k.c0 (rmCon i)).modify k.c1 (rmCon i)
  let still := (C1[k.c0]!).cons.any fun j => (g.con j).c0 = k.c1 || (g.con j).c1 = k.c1
  let C2 := if still then C1 else
    (C1.modify k.c0 fun cl => { cl with nbrs := setDiscard cl.nbrs k.c1 }).modify k.c1 fun cl =>
      { cl with nbrs := setDiscard cl.nbrs k.c0 }
  { g with C := C2, connD := g.connD.del names, connlist := g.connlist.erase i }

/-- `delete_connection(colnames)`: `KeyError` when the key is unknown or a column does not list the connection
    (`set.remove`), `ValueError` when the connection is not in `connectionlist` (`list.remove`) -/
def deleteConnection (g : Geo) (names : Name × Name) : Except Exc Geo :=
  match g.connD.get? names with
  | none => .error .keyError
  | some i =>
    let k := g.con i
    if !(g.col k.c0).cons.contains i then .error .keyError
    else if !((g.updCol k.c0 (rmCon i)).col k.c1).cons.contains i then .error .keyError
    else if !g.connlist.contains i then .error .valueError
    else .ok (g.delConn names i)

/-- `delete_column(colname)` -/
def deleteColumn (g : Geo) (name : Name) : Except Exc Geo :=
  match g.columnD.get? name with
  | none => .error .keyError
  | some i => do
    let cons := g.connlist.filter fun k => (g.con k).c0 = i || (g.con k).c1 = i
    let g1 ← cons.foldlM (fun (g : Geo) k =>
      g.deleteConnection ((g.col (g.con k).c0).name, (g.col (g.con k).c1).name)) g
    let g2 ← (g1.col i).nbrs.foldlM (fun (g : Geo) nb => do
      let s ← setRemove (g.col nb).nbrs i
      pure (g.updCol nb fun cl => { cl with nbrs := s })) g1
    let g3 ← (g2.col i).nodes.foldlM (fun (g : Geo) n => do
      let s ← setRemove (g.node n).cols i
      pure (g.updNode n fun nd => { nd with cols := s })) g2
    let g4 := { g3 with columnD := g3.columnD.del name }
    let l ← listRemove g4.columnlist i
    pure { g4 with columnlist := l }

def addLayer (g : Geo) (l : Layer) : Geo :=
  if g.layerD.contains l.name then g
  else
    let i := g.L.size
    { g with L := g.L.push l, layerlist := g.layerlist ++ [i], layerD := g.layerD.set l.name i }

def deleteLayer (g : Geo) (name : Name) : Except Exc Geo :=
  match g.layerD.get? name with
  | none => .error .keyError
  | some i => do
    let g1 := { g with layerD := g.layerD.del name }
    let l ← listRemove g1.layerlist i
    pure { g1 with layerlist := l }

def addWell (g : Geo) (w : Well) : Geo :=
  if g.wellD.contains w.name then g
  else
    let i := g.W.size
    { g with W := g.W.push w, welllist := g.welllist ++ [i], wellD := g.wellD.set w.name i }

def deleteWell (g : Geo) (name : Name) : Except Exc Geo :=
  match g.wellD.get? name with
  | none => .error .keyError
  | some i => do
    let g1 := { g with wellD := g.wellD.del name }
    let l ← listRemove g1.welllist i
    pure { g1 with welllist := l }

/-- `clear_layers()` -/
def clearLayers (g : Geo) : Geo := { g with layerD := [], layerlist := [] }

/-- `identify_neighbours()` -/
def identifyNeighbours (g : Geo) : Geo :=
  g.connlist.foldl (fun g k =>
    let c := g.con k
    let g := g.updCol c.c0 fun cl => { cl with nbrs := setAdd cl.nbrs c.c1 }
    g.updCol c.c1 fun cl => { cl with nbrs := setAdd cl.nbrs c.c0 }) g

/-! ### block and connection name lists -/

/-- `col.surface > lay.bottom` (a `None` surface cannot be compared: `TypeError`) -/
def surfaceAbove (c : Column) (l : Layer) : Except Exc Bool :=
  match c.surface with
  | none => .error .typeError
  | some s => .ok (decide (s > l.bottom))

/-- `col.surface <= lay.top` (only evaluated for columns that passed `surfaceAbove`, so never `None`) -/
def surfaceNotAbove (c : Column) (top : Rat) : Bool :=
  match c.surface with
  | some s => decide (s ≤ top)
  | none => false

def blockName (g : Geo) (lay col : Name) : Except Exc Name := Names.blockName g.convention lay col

/-- the columns of `columnlist` with `col.surface > lay.bottom` -/
def layerCols (g : Geo) (l : Layer) : Except Exc (List Nat) :=
  g.columnlist.filterM fun c => surfaceAbove (g.col c) l

/-- `setup_block_name_index()` (block order `None` / `'layer_column'`) -/
def computeBlockNames (g : Geo) : Except Exc (List Name) :=
  match g.layerlist with
  | [] => .ok []
  | l0 :: below => do
    let top := (g.lay l0).name
    let atm ← (if g.atmosType = 0 then do
                 let b ← g.blockName top (Names.atmosphereColumnName g.convention)
                 pure [b]
               else if g.atmosType = 1 then
                 g.columnlist.mapM fun c => g.blockName top (g.col c).name
               else pure [])
    let under ← below.mapM fun li => do
      let cols ← g.layerCols (g.lay li)
      cols.mapM fun c => g.blockName (g.lay li).name (g.col c).name
    pure (atm ++ under.flatten)

def setupBlockNames (g : Geo) : Except Exc Geo := do
  let b ← g.computeBlockNames
  pure { g with blockNames := b }

/-- `setup_block_connection_name_index()`; `ilay` counts from 0 over `layerlist[1:]` -/
def computeConnNames (g : Geo) : Except Exc (List (Name × Name)) :=
  match g.layerlist with
  | [] => .ok []
  | l0 :: below => do
    let per ← (List.range below.length).mapM fun ilay => do
      let li := below.getD ilay 0
      let lay := g.lay li
      let layercols ← g.layerCols lay
      let vert ← layercols.mapM fun c => do
        let col := g.col c
        let this ← g.blockName lay.name col.name
        let toAtm := ilay = 0 || surfaceNotAbove col lay.top
        if toAtm then
          if g.atmosType = 0 then
            match g.blockNames.head? with
            | some a => pure [(this, a)]
            | none => throw Exc.indexError
          else if g.atmosType = 1 then do
            let a ← g.blockName (g.lay l0).name col.name
            pure [(this, a)]
          else pure []
        else do
          let above := g.lay ((l0 :: below).getD ilay 0)
          let a ← g.blockName above.name col.name
          pure [(this, a)]
      let cons := g.connlist.filter fun k => layercols.contains (g.con k).c0 && layercols.contains (g.con k).c1
      let horiz ← cons.mapM fun k => do
        let a ← g.blockName lay.name (g.col (g.con k).c0).name
        let b ← g.blockName lay.name (g.col (g.con k).c1).name
        pure (a, b)
      pure (vert.flatten ++ horiz)
    pure per.flatten

def setupConnNames (g : Geo) : Except Exc Geo := do
  let b ← g.computeConnNames
  pure { g with connNames := b }

/-- the two `setup_*` calls that end most editing operations -/
def setupNames (g : Geo) : Except Exc Geo := do
  let g ← g.setupBlockNames
  g.setupConnNames

/-! ### renaming -/

/-- `self.connection = dict([(tuple([c.name for c in con.column]), con) for con in self.connectionlist])` -/
def rekeyConnections (g : Geo) : Geo :=
  { g with connD := g.connlist.foldl (fun d k => d.set ((g.col (g.con k).c0).name, (g.col (g.con k).c1).name) k) [] }

/-- `rename_column(old, new)` for lists (`zip` truncates).  A missing old name raises `KeyError`
    out of the loop (it is not a `ValueError`); what was renamed before stays renamed. -/
def renameColumn (g : Geo) (olds news : List Name) : Except Exc Geo := do
  let g ← (olds.zip news).foldlM (fun (g : Geo) (p : Name × Name) =>
    match g.columnD.get? p.1 with
    | none => throw Exc.keyError
    | some i =>
      if !g.columnlist.contains i then throw Exc.valueError     -- caught below: `return False`
      else
        let g := g.updCol i fun c => { c with name := p.2 }
        pure { g with columnD := (g.columnD.del p.1).set p.2 i }) g
  g.rekeyConnections.setupNames

/-- `rename_layer(old, new)` -/
def renameLayer (g : Geo) (olds news : List Name) : Except Exc Geo := do
  let g ← (olds.zip news).foldlM (fun (g : Geo) (p : Name × Name) =>
    match g.layerD.get? p.1 with
    | none => throw Exc.keyError
    | some i =>
      if !g.layerlist.contains i then throw Exc.valueError
      else
        let g := g.updLay i fun l => { l with name := p.2 }
        pure { g with layerD := (g.layerD.del p.1).set p.2 i }) g
  g.setupNames

/-! ### layers and surfaces -/

/-- `set_column_num_layers(col)` -/
def setColumnNumLayers (g : Geo) (c : Nat) : Except Exc Geo :=
  match (g.col c).surface with
  | none => .error .typeError
  | some s =>
    let n := ((g.layerlist.drop 1).filter fun l => decide ((g.lay l).bottom < s)).length
    .ok (g.updCol c fun cl => { cl with numLayers := n })

/-- `col.surface = z; set_column_num_layers(col)` (what `read_surface` and `fit_surface` do per column) -/
def setSurface (g : Geo) (c : Nat) (z : Rat) : Except Exc Geo :=
  (g.updCol c fun cl => { cl with surface := some z }).setColumnNumLayers c

/-- `identify_layer_tops()` -/
def identifyLayerTops (g : Geo) : Geo :=
  match g.layerlist with
  | [] => g
  | l0 :: rest =>
    let g := g.updLay l0 fun l => { l with top := l.bottom }
    ((l0 :: rest).zip rest).foldl (fun g p => g.updLay p.2 fun l => { l with top := (g.lay p.1).bottom }) g

/-- `set_default_surface()` -/
def setDefaultSurface (g : Geo) : Geo :=
  match g.layerlist with
  | [] => g
  | l0 :: _ =>
    let ground := (g.lay l0).bottom
    g.columnlist.foldl (fun g' c => g'.updCol c fun cl =>
      { cl with surface := some ground, numLayers := (g.layerD.length : Int) - 1 }) g

/-- `column_surface_layer(col)`: `layerlist[num_layers - col.num_layers]` (negative indices wrap) -/
def columnSurfaceLayer (g : Geo) (c : Nat) : Except Exc Nat :=
  let n : Int := g.layerlist.length
  let i : Int := (g.layerD.length : Int) - (g.col c).numLayers      -- `self.num_layers` is `len(self.layer)`
  let j : Int := if i < 0 then i + n else i
  if j < 0 ∨ j ≥ n then .error .indexError
  else match g.layerlist[j.toNat]? with
    | some l => .ok l
    | none => .error .indexError

/-- `snap_columns_to_layers(min_thickness, columns)` (`columns = []` means all) -/
def snapColumnsToLayers (g : Geo) (minThickness : Rat) (cols : List Nat) : Except Exc Geo :=
  if minThickness > 0 then do
    let cols := if cols.isEmpty then g.columnlist else cols
    let g ← cols.foldlM (fun (g : Geo) c => do
      let tl ← g.columnSurfaceLayer c
      match (g.col c).surface with
      | none => throw Exc.typeError
      | some s =>
        if s - (g.lay tl).bottom < minThickness then
          pure (g.updCol c fun cl => { cl with surface := some (g.lay tl).bottom, numLayers := cl.numLayers - 1 })
        else pure g) g
    g.setupNames
  else .ok g

/-- `snap_columns_to_nearest_layers(columns)` -/
def snapColumnsToNearestLayers (g : Geo) (cols : List Nat) : Except Exc Geo := do
  let cols := if cols.isEmpty then g.columnlist else cols
  let g ← cols.foldlM (fun (g : Geo) c => do
    let tl ← g.columnSurfaceLayer c
    match (g.col c).surface with
    | none => throw Exc.typeError
    | some s =>
      if s > (g.lay tl).centre then
        pure (g.updCol c fun cl => { cl with surface := some (g.lay tl).top })
      else
        pure (g.updCol c fun cl => { cl with surface := some (g.lay tl).bottom, numLayers := cl.numLayers - 1 })) g
  g.setupNames

/-- `right_justified_names`: `all(blk[0:3] == blk[0:3].rjust(3) for blk in block_name_list)` -/
def rightJustifiedNames (g : Geo) : Bool :=
  g.blockNames.all fun b => slice b 0 3 == rjust (slice b 0 3) 3

/-- `add_layers(thicknesses, top_elevation, justify, chars, spaces)` with the default alphabet -/
def addLayers (g : Geo) (thicknesses : List Rat) (top : Rat) (left : Bool) : Except Exc Geo := do
  let chars := Names.uniqstring "abcdefghijklmnopqrstuvwxyz".toList
  let g := g.clearLayers
  let surf := Names.surfaceLayerName g.convention
  let g := g.addLayer { name := surf, bottom := top, centre := top, top := 0 }
  let (g, _, _) ← thicknesses.foldlM (fun (st : Geo × Rat × Nat) t => do
    let (g, z, num) := st
    let z := z - t
    let centre := z + (1/2) * t
    let (name, num) ← Names.nextLayerName g.convention left chars true surf 3 num
    pure (g.addLayer { name, bottom := z, centre, top := 0 }, z, num)) (g, top, 0)
  pure g.identifyLayerTops

/-- `copy_layers_from(geo)`: the other geometry's layers, deep-copied in order -/
def copyLayersFrom (g : Geo) (layers : List Layer) : Except Exc Geo := do
  let g := layers.foldl addLayer g.clearLayers
  let g ← g.columnlist.foldlM (fun (g : Geo) c => g.setColumnNumLayers c) g
  g.setupNames

/-- the thickness list `refine_layers` hands to `add_layers`: a selected layer of thickness `t` becomes `factor`
    layers of thickness `t / factor`, the others stay -/
def refinedThicknesses (ts : List (Rat × Bool)) (factor : Nat) : List Rat :=
  ts.flatMap fun p => if p.2 then List.replicate factor (p.1 / factor) else [p.1]

/-- `refine_layers` up to and including its `add_layers` call: the new layer stack under generated names, the
    atmosphere layer still carrying the convention's default name; returned with the old atmosphere layer's name -/
def refineLayersStack (g : Geo) (layers : List Name) (factor : Nat) : Except Exc (Geo × Name) := do
  let sel ← (if layers.isEmpty then pure g.layerlist
             else layers.mapM fun n => match g.layerD.get? n with
               | some i => pure i
               | none => throw Exc.keyError)
  match g.layerlist with
  | [] => throw Exc.indexError
  | l0 :: below =>
    if factor = 0 then throw Exc.zeroDivision
    let topElevation := (g.lay l0).top
    let atmName := (g.lay l0).name
    let thicknesses := refinedThicknesses (below.map fun l => ((g.lay l).top - (g.lay l).bottom, sel.contains l)) factor
    let left := !g.rightJustifiedNames
    let g ← g.clearLayers.addLayers thicknesses topElevation left
    pure (g, atmName)

/-- `refine_layers(layers, factor)` (`layers = []` means all; layer names regenerated, then the atmosphere layer
    gets its old name back) -/
def refineLayers (g : Geo) (layers : List Name) (factor : Nat) : Except Exc Geo := do
  let (g, atmName) ← g.refineLayersStack layers factor
  let g ← (match g.layerlist with
           | [] => throw Exc.indexError
           | n0 :: _ => g.renameLayer [(g.lay n0).name] [atmName])
  let g ← g.columnlist.foldlM (fun (g : Geo) c => g.setColumnNumLayers c) g
  g.setupNames

/-! ### rigid motions -/

/-- `translate(shift)` (wells optionally) -/
def translate (g : Geo) (dx dy dz : Rat) (wells : Bool) : Geo :=
  let g := g.nodelist.foldl (fun g n => g.updNode n fun nd => { nd with pos := Pt.add nd.pos (dx, dy) }) g
  let g := g.columnlist.foldl (fun g c => g.updCol c fun cl =>
    { cl with centre := Pt.add cl.centre (dx, dy), surface := cl.surface.map (· + dz) }) g
  let g := g.layerlist.foldl (fun g l => g.updLay l fun la =>
    { la with top := la.top + dz, bottom := la.bottom + dz, centre := la.centre + dz }) g
  if wells then
    { g with W := g.welllist.foldl (fun W w => W.modify w fun wl =>
        { wl with pos := wl.pos.map fun p => (p.1 + dx, p.2.1 + dy, p.2.2 + dz) }) g.W }
  else g

/-- the map `x ↦ R (x - c) + c` with `R = [[cos, sin], [-sin, cos]]` (clockwise rotation) -/
def rot (cs sn : Rat) (c : Pt) (x : Pt) : Pt :=
  let d := Pt.sub x c
  (cs * d.1 + sn * d.2 + c.1, -sn * d.1 + cs * d.2 + c.2)

/-- `mulgrid.centre`: area-weighted average of the column centres; with no column it is `None` and
    `rotation` then turns about the origin; `none` here = division by a zero total area (nan in numpy) -/
def gridCentre (g : Geo) : Option Pt :=
  let a := sumRat (g.columnlist.map fun c => (g.col c).area)
  if g.columnD.isEmpty then some (0, 0)
  else if a = 0 then none
  else
    let s := (g.columnlist.map fun c => Pt.smul (g.col c).area (g.col c).centre).foldr Pt.add (0, 0)
    some (Pt.smul (1 / a) s)

/-- the rotation about a known centre -/
def rotateAbout (g : Geo) (cs sn : Rat) (c : Pt) (wells : Bool) : Geo :=
  let g := g.nodelist.foldl (fun g n => g.updNode n fun nd => { nd with pos := rot cs sn c nd.pos }) g
  let g := g.columnlist.foldl (fun g k => g.updCol k fun cl => { cl with centre := rot cs sn c cl.centre }) g
  if wells then
    { g with W := g.welllist.foldl (fun W w => W.modify w fun wl =>
        { wl with pos := wl.pos.map fun p => let q := rot cs sn c (p.1, p.2.1); (q.1, q.2, p.2.2) }) g.W }
  else g

/-- `rotate(angle, centre)`, the angle given by its cosine and sine -/
def rotate (g : Geo) (cs sn : Rat) (centre : Option Pt) (wells : Bool) : Except Exc Geo :=
  match centre with
  | some c => .ok (g.rotateAbout cs sn c wells)
  | none =>
    match g.gridCentre with
    | some c => .ok (g.rotateAbout cs sn c wells)
    | none => .error .typeError

end Geo
end Model.Geo
