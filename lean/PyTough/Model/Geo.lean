/-
  Plane geometry primitives of `/repo/geometry.py` used by the geometry models, over exact
  rationals (core `Rat`; Mathlib-free, executable).

    polygon_area      -> polygonArea      (as written: shift by the first vertex, shoelace, halve)
    polygon_centroid  -> polygonCentroid  (as written, n ≥ 3 branch and n < 3 branch)
    in_polygon        -> inPolygon        (as written: crossing number relative to polygon[0], tolerance 1e-6)
-/
namespace Model.Geo

abbrev Pt := Rat × Rat

namespace Pt
@[inline] def add (a b : Pt) : Pt := (a.1 + b.1, a.2 + b.2)
@[inline] def sub (a b : Pt) : Pt := (a.1 - b.1, a.2 - b.2)
@[inline] def smul (k : Rat) (a : Pt) : Pt := (k * a.1, k * a.2)
/-- `p1[0] * p2[1] - p2[0] * p1[1]` -/
@[inline] def cross (a b : Pt) : Rat := a.1 * b.2 - b.1 * a.2
@[inline] def mid (a b : Pt) : Pt := smul (1/2) (add a b)
end Pt

/-- consecutive pairs of a cyclic list, `(l[j], l[(j+1) % n])` for `j = 0..n-1`, in order -/
def cycGo {α} (first : α) : List α → List (α × α)
  | [] => []
  | [x] => [(x, first)]
  | x :: y :: r => (x, y) :: cycGo first (y :: r)

def cyc {α} : List α → List (α × α)
  | [] => []
  | a :: t => cycGo a (a :: t)

def sumRat (l : List Rat) : Rat := l.foldr (· + ·) 0

/-- twice the signed area by the shoelace formula, no shift -/
def shoelace2 (p : List Pt) : Rat := sumRat ((cyc p).map fun e => Pt.cross e.1 e.2)

/-- `geometry.polygon_area`: `polygon -= polygon[0]` (a fresh array: the node positions are not
    modified), shoelace sum, times 0.5.  Positive for counter-clockwise polygons. -/
def polygonArea (p : List Pt) : Rat :=
  match p with
  | [] => 0
  | p0 :: _ => (1/2) * shoelace2 (p.map (Pt.sub · p0))

/-- `geometry.polygon_centroid`; `none` = ZeroDivisionError-like (nan/inf in numpy) for a degenerate polygon -/
def polygonCentroid (p : List Pt) : Option Pt :=
  match p with
  | [] => none
  | p0 :: _ =>
    let q := p.map (Pt.sub · p0)
    let n := p.length
    if n < 3 then
      some (Pt.add (Pt.smul (1 / (n : Rat)) (q.foldr Pt.add (0, 0))) p0)
    else
      let es := cyc q
      let area2 := sumRat (es.map fun e => Pt.cross e.1 e.2)
      let c := (es.map fun e => Pt.smul (Pt.cross e.1 e.2) (Pt.add e.1 e.2)).foldr Pt.add (0, 0)
      let area := (1/2) * area2
      if area = 0 then none else some (Pt.add (Pt.smul (1 / (6 * area)) c) p0)

/-- `geometry.in_polygon` (crossing number; tolerance 1e-6 on |dy|) -/
def inPolygon (pos : Pt) (poly : List Pt) : Bool :=
  match poly with
  | [] => false
  | ref :: _ =>
    let v := Pt.sub pos ref
    let q := poly.map (Pt.sub · ref)
    let n := ((cyc q).filter fun (p1, p2) =>
      ((p1.2 ≤ v.2 && v.2 < p2.2) || (p2.2 ≤ v.2 && v.2 < p1.2)) &&
        (let d := Pt.sub p2 p1
         let ady := if d.2 < 0 then -d.2 else d.2
         decide (ady > 1/1000000) &&
           decide (v.1 < p1.1 + (v.2 - p1.2) * d.1 / d.2))).length
    n % 2 == 1

end Model.Geo
