/-
  C19 — transfers between geometries.

  Executable model of

    mulgrids.py   fix_blockname, mulgrid.block_name / column_name / layer_name,
                  setup_block_name_index (+ block_name_list_layer_column / _dmplex),
                  num_atmosphere_blocks, column_surface_layer,
                  column_mapping, layer_mapping, block_mapping
    t2incons.py   t2incon.__setitem__/add_incon, t2incon.transfer_from
    t2data.py     t2data.transfer_rocktypes_from, transfer_generators_from and the
                  print_block / incon-dict parts of transfer_from

  transcribed statement by statement.  Numbers are exact rationals (`Rat`, core Lean);
  Python exceptions are `Except Exc`.  `scipy.spatial.cKDTree.query` is NOT modelled:
  it is the parameter `q` ("the index of a nearest centre"), constrained in the
  theorems by `IsNearest q`; the executable instance is `nearestFirst`.

  What a geometry is here: exactly the attributes the anchored functions read —
  convention, atmosphere type, block order, for each column its name, centre, surface,
  `num_layers`, number of nodes and area, for each layer its name, bottom and centre.
  `block_name_list` (a stored attribute in Python, refreshed by
  `setup_block_name_index`) is recomputed by the model from those.
-/
import PyTough.Py.Str
namespace Model.Mapping
open Py

/-! ### small Python primitives -/

/-- `[f(x) for x in xs]` where `f` may raise: the first exception escapes -/
def mapE {α β : Type} (f : α → Except Exc β) : List α → Except Exc (List β)
  | [] => .ok []
  | a :: as =>
    match f a with
    | .error e => .error e
    | .ok b =>
      match mapE f as with
      | .error e => .error e
      | .ok bs => .ok (b :: bs)

/-- `l[i]` with Python's negative-index wrap-around -/
def pyIdx {α : Type} (l : List α) (i : Int) : Except Exc α :=
  let j : Int := if i < 0 then i + l.length else i
  if j < 0 then .error .indexError
  else match l[j.toNat]? with
    | some a => .ok a
    | none => .error .indexError

/-- insertion-ordered `dict` with `str` keys -/
abbrev Dict (β : Type) := List (Str × β)

/-- `d[k]` -/
def dget {β : Type} (d : Dict β) (k : Str) : Except Exc β :=
  match d.find? (fun p => p.1 == k) with
  | some p => .ok p.2
  | none => .error .keyError

/-- `d[k] = v` : an existing key keeps its position -/
def dset {β : Type} (d : Dict β) (k : Str) (v : β) : Dict β :=
  if d.any (fun p => p.1 == k) then d.map (fun p => if p.1 == k then (k, v) else p)
  else d ++ [(k, v)]

/-- the dict obtained by assigning the pairs in order -/
def dictOf {β : Type} (ps : List (Str × β)) : Dict β :=
  ps.foldl (fun d p => dset d p.1 p.2) []

def absQ (x : Rat) : Rat := if 0 ≤ x then x else -x

/-- `numpy.argmin`: index of the first minimum (`none` for an empty array: ValueError) -/
def argminFirst : List Rat → Option Nat
  | [] => none
  | x :: xs =>
    match argminFirst xs with
    | none => some 0
    | some i => if x ≤ xs.getD i 0 then some 0 else some (i + 1)

/-! ### names -/

inductive Conv where
  | c0 | c1 | c2 | c3
  deriving DecidableEq, Repr, Inhabited

/-- `['ATM', ' 0', '  0', 'ATM'][convention]` -/
def atmColName : Conv → Str
  | .c0 => ['A', 'T', 'M']
  | .c1 => [' ', '0']
  | .c2 => [' ', ' ', '0']
  | .c3 => ['A', 'T', 'M']

/-- `colname_length`, `layername_length` -/
def colLen : Conv → Nat
  | .c1 => 2
  | _ => 3
def layLen : Conv → Nat
  | .c1 => 3
  | _ => 2

/-- `fix_blockname`: `name[2].isdigit() and name[4].isdigit() and name[3] == ' '`
    (short-circuit; an index past the end raises IndexError) -/
def fixBlockname (n : Str) : Except Exc Str :=
  match n[2]? with
  | none => .error .indexError
  | some c2 =>
    if !isDigit c2 then .ok n
    else match n[4]? with
      | none => .error .indexError
      | some c4 =>
        if !isDigit c4 then .ok n
        else match n[3]? with
          | none => .error .indexError
          | some c3 => if c3 = ' ' then .ok (slice n 0 3 ++ ['0'] ++ slice n 4 5) else .ok n

/-- the concatenation made by `block_name` before `fix_blockname` -/
def rawName (cv : Conv) (lay col : Str) : Str :=
  match cv with
  | .c0 => slice col 0 3 ++ slice lay 0 2
  | .c3 => slice col 0 3 ++ slice lay 0 2
  | .c1 => slice lay 0 3 ++ slice col 0 2
  | .c2 => slice lay 0 2 ++ slice col 0 3

/-- `mulgrid.block_name(layername, colname)` (no blockmap) -/
def blockName (cv : Conv) (lay col : Str) : Except Exc Str := fixBlockname (rawName cv lay col)

/-- `mulgrid.column_name(blockname)` -/
def columnName (cv : Conv) (b : Str) : Str :=
  match cv with
  | .c0 => slice b 0 3
  | .c1 => slice b 3 5
  | .c2 => slice b 2 5
  | .c3 => slice b 0 3

/-- `mulgrid.layer_name(blockname)` -/
def layerName (cv : Conv) (b : Str) : Str :=
  match cv with
  | .c0 => slice b 3 5
  | .c1 => slice b 0 3
  | .c2 => slice b 0 2
  | .c3 => slice b 3 5

/-! ### geometry -/

structure Col where
  name : Str
  cx : Rat
  cy : Rat
  surface : Rat
  /-- `col.num_layers` as stored on the column -/
  numLayers : Nat
  numNodes : Nat
  area : Rat
  deriving Repr, Inhabited

structure Lay where
  name : Str
  bottom : Rat
  centre : Rat
  deriving Repr, Inhabited

structure Geo where
  conv : Conv
  /-- atmosphere type: 0 single block, 1 one per column, otherwise none -/
  atm : Nat
  /-- block order: `false` = None / 'layer_column', `true` = 'dmplex' -/
  dmplex : Bool
  cols : List Col
  /-- `layerlist`; element 0 is the atmosphere layer -/
  lays : List Lay
  deriving Repr, Inhabited

/-- columns with a block in layer `l`: `col.surface > lay.bottom` -/
def Geo.layerCols (g : Geo) (l : Lay) : List Col := g.cols.filter (fun c => l.bottom < c.surface)

/-- (layer, column) of every underground block, layer by layer -/
def Geo.underPairs (g : Geo) : List (Lay × Col) :=
  (g.lays.drop 1).flatMap (fun l => (g.layerCols l).map (fun c => (l, c)))

/-- name of the atmosphere block over a column -/
def atmEntry (cv : Conv) (l0 : Lay) (c : Col) : Except Exc Str := blockName cv l0.name c.name

/-- atmosphere part of `setup_block_name_index` -/
def Geo.atmNames (g : Geo) : Except Exc (List Str) :=
  match g.lays with
  | [] => .ok []
  | l0 :: _ =>
    if g.atm = 0 then
      match blockName g.conv l0.name (atmColName g.conv) with
      | .ok n => .ok [n]
      | .error e => .error e
    else if g.atm = 1 then mapE (atmEntry g.conv l0) g.cols
    else .ok []

/-- one step of the loop of `block_name_list_dmplex`: the name, filed under 8 or 6 nodes -/
def dmplexEntry (cv : Conv) (p : Lay × Col) : Except Exc (Bool × Str) :=
  match blockName cv p.1.name p.2.name with
  | .error e => .error e
  | .ok n => if p.2.numNodes = 4 then .ok (true, n)
             else if p.2.numNodes = 3 then .ok (false, n)
             else .error .generic

/-- one step of the loop of `block_name_list_layer_column` -/
def underEntry (cv : Conv) (p : Lay × Col) : Except Exc Str := blockName cv p.1.name p.2.name

/-- `block_name_list_layer_column` / `block_name_list_dmplex` -/
def Geo.underNames (g : Geo) : Except Exc (List Str) :=
  if g.dmplex then
    match mapE (dmplexEntry g.conv) g.underPairs with
    | .error e => .error e
    | .ok l => .ok (((l.filter (fun x => x.1)).map (·.2)) ++ ((l.filter (fun x => !x.1)).map (·.2)))
  else mapE (underEntry g.conv) g.underPairs

/-- `block_name_list` as `setup_block_name_index` leaves it -/
def Geo.blockNameList (g : Geo) : Except Exc (List Str) :=
  match g.lays with
  | [] => .ok []
  | _ :: _ =>
    match g.atmNames with
    | .error e => .error e
    | .ok a =>
      match g.underNames with
      | .error e => .error e
      | .ok u => .ok (a ++ u)

/-- `num_atmosphere_blocks = [1, num_columns, 0][atmosphere_type]` -/
def Geo.numAtmBlocks (g : Geo) : Except Exc Nat :=
  match g.atm with
  | 0 => .ok 1
  | 1 => .ok g.cols.length
  | 2 => .ok 0
  | _ => .error .indexError

/-- `self.column[name]` -/
def Geo.findCol (g : Geo) (n : Str) : Except Exc Col :=
  match g.cols.find? (fun c => c.name == n) with
  | some c => .ok c
  | none => .error .keyError

/-- `self.layer[name]` -/
def Geo.findLay (g : Geo) (n : Str) : Except Exc Lay :=
  match g.lays.find? (fun l => l.name == n) with
  | some l => .ok l
  | none => .error .keyError

/-- `column_surface_layer(col)` = `layerlist[num_layers - col.num_layers]` -/
def Geo.surfaceLayer (g : Geo) (c : Col) : Except Exc Lay :=
  pyIdx g.lays ((g.lays.length : Int) - (c.numLayers : Int))

/-! ### the three mappings -/

def sqDist (a b : Rat × Rat) : Rat := (a.1 - b.1) * (a.1 - b.1) + (a.2 - b.2) * (a.2 - b.2)

/-- executable stand-in for `cKDTree.query`: first index of minimal squared distance -/
def nearestFirst (pts : List (Rat × Rat)) (p : Rat × Rat) : Nat :=
  (argminFirst (pts.map (fun x => sqDist x p))).getD 0

def Col.centre (c : Col) : Rat × Rat := (c.cx, c.cy)

/-- the specification `cKDTree.query` is assumed to meet: on a non-empty point set it
    returns the index of a point at minimal (squared) distance from the query point -/
def IsNearest (q : List (Rat × Rat) → Rat × Rat → Nat) : Prop :=
  ∀ (pts : List (Rat × Rat)) (p : Rat × Rat), pts ≠ [] →
    ∃ y, pts[q pts p]? = some y ∧ ∀ x ∈ pts, sqDist y p ≤ sqDist x p

/-- `C` is a column of `self` whose centre is nearest to the point `p` -/
def NearestCol (self : Geo) (p : Rat × Rat) (C : Col) : Prop :=
  C ∈ self.cols ∧ ∀ X ∈ self.cols, sqDist C.centre p ≤ sqDist X.centre p

/-- `S` is one of the layers `srest` whose centre is nearest to the elevation `z` -/
def NearestLay (srest : List Lay) (z : Rat) (S : Lay) : Prop :=
  S ∈ srest ∧ ∀ X ∈ srest, absQ (S.centre - z) ≤ absQ (X.centre - z)

/-- the column's first layer below ground: the first of `layerlist[1:]` whose bottom is
    below the column's surface -/
def Geo.firstBelow (g : Geo) (c : Col) : Option Lay := (g.lays.drop 1).find? (fun l => l.bottom < c.surface)

/-- `closest_col(col)`: `self.columnlist[kdtree.query(col.centre)[1]]`, as a (key, value) pair -/
def colPair (q : List (Rat × Rat) → Rat × Rat → Nat) (self : Geo) (c : Col) : Except Exc (Str × Str) :=
  match self.cols[q (self.cols.map Col.centre) c.centre]? with
  | some s => .ok (c.name, s.name)
  | none => .error .indexError

/-- `column_mapping(geo)`; `q` is `kdtree.query` (index part) -/
def columnMapping (q : List (Rat × Rat) → Rat × Rat → Nat) (self geo : Geo) : Except Exc (Dict Str) :=
  let init : List (Str × Str) :=
    if self.atm = 0 ∧ geo.atm = 0 then [(atmColName geo.conv, atmColName self.conv)] else []
  match mapE (colPair q self) geo.cols with
  | .error e => .error e
  | .ok ps => .ok (dictOf (init ++ ps))

/-- nearest source layer (first minimiser of |Δcentre| among `layerlist[1:]`) -/
def nearestLayer (srest : List Lay) (l : Lay) : Except Exc Lay :=
  match argminFirst (srest.map (fun s => absQ (s.centre - l.centre))) with
  | none => .error .valueError
  | some i =>
    match srest[i]? with
    | some s => .ok s
    | none => .error .indexError

/-- (layer name, name of the nearest source layer) -/
def layPair (srest : List Lay) (l : Lay) : Except Exc (Str × Str) :=
  match nearestLayer srest l with
  | .ok s => .ok (l.name, s.name)
  | .error e => .error e

/-- `layer_mapping(geo)` -/
def layerMapping (self geo : Geo) : Except Exc (Dict Str) :=
  match geo.lays, self.lays with
  | g0 :: grest, s0 :: srest =>
    match mapE (layPair srest) grest with
    | .error e => .error e
    | .ok ps => .ok (dictOf ((g0.name, s0.name) :: ps))
  | _, _ => .error .indexError

/-- body of the loop of `block_mapping` for one destination block name -/
def mapOne (self geo : Geo) (colMap layMap : Dict Str) (dest : Str) : Except Exc Str :=
  let destcol := columnName geo.conv dest
  let destlayer := layerName geo.conv dest
  match dget colMap destcol with
  | .error e => .error e
  | .ok sourcecol =>
    match dget layMap destlayer with
    | .error e => .error e
    | .ok sourcelayer =>
      match geo.lays with
      | [] => .error .indexError
      | g0 :: _ =>
        if destlayer = g0.name then
          match self.lays with
          | [] => .error .indexError
          | s0 :: _ =>
            blockName self.conv s0.name (if self.atm = 0 then atmColName self.conv else sourcecol)
        else
          match self.findCol sourcecol with
          | .error e => .error e
          | .ok c =>
            match self.findLay sourcelayer with
            | .error e => .error e
            | .ok l =>
              if c.surface ≤ l.bottom then
                match self.surfaceLayer c with
                | .error e => .error e
                | .ok sl => blockName self.conv sl.name sourcecol
              else blockName self.conv sourcelayer sourcecol

/-- `self.block_mapping(geo, True)`: (block mapping, column mapping) -/
def blockMapping (q : List (Rat × Rat) → Rat × Rat → Nat) (self geo : Geo) :
    Except Exc (Dict Str × Dict Str) :=
  match columnMapping q self geo with
  | .error e => .error e
  | .ok cm =>
    match layerMapping self geo with
    | .error e => .error e
    | .ok lm =>
      match geo.blockNameList with
      | .error e => .error e
      | .ok names =>
        match mapE (mapOne self geo cm lm) names with
        | .error e => .error e
        | .ok vals => .ok (dictOf (names.zip vals), cm)

/-! ### t2incon.transfer_from -/

/-- a `t2blockincon` without its name: primary variables, porosity, and `tag`, which
    stands for the attributes `copy()` carries over untouched (permeability, nseq,
    nadd): `some i` = those of the i-th source block, `none` = a freshly made object -/
structure IncVal where
  vars : List Rat
  porosity : Option Rat
  tag : Option Nat
  deriving Repr, Inhabited, DecidableEq

/-- `t2incon`: `_blocklist` in order, `_block` by name (`self[key] = value` is `dset`) -/
abbrev Incon := Dict IncVal

/-- `t2blockincon([1.013e5, 20.])` -/
def defaultAtm : IncVal := ⟨[101300, 20], none, none⟩

/-- `varsum += np.array(v)` (numpy broadcasting of a length-1 operand; other length
    mismatches raise ValueError) -/
def addVec (acc v : List Rat) : Except Exc (List Rat) :=
  if v.length = acc.length then .ok (List.zipWith (· + ·) acc v)
  else match v with
    | [x] => .ok (acc.map (· + x))
    | _ => .error .valueError

def sumVecs (acc : List Rat) : List (List Rat) → Except Exc (List Rat)
  | [] => .ok acc
  | v :: vs =>
    match addVec acc v with
    | .error e => .error e
    | .ok a => sumVecs a vs

/-- `sourceinc[0]` -/
def firstInc (src : Incon) : Except Exc IncVal :=
  match src with
  | [] => .error .indexError
  | p :: _ => .ok p.2

/-- `geo.layerlist[0]` -/
def Geo.lay0 (g : Geo) : Except Exc Lay :=
  match g.lays with
  | [] => .error .indexError
  | l :: _ => .ok l

/-- target type 1, source type 0: `self[blk] = copy(sourceinc[0])` for the block over column `c` -/
def atmBroadcast (geo : Geo) (src : Incon) (c : Col) : Except Exc (Str × IncVal) :=
  match geo.lay0 with
  | .error e => .error e
  | .ok g0 =>
    match blockName geo.conv g0.name c.name with
    | .error e => .error e
    | .ok blk =>
      match firstInc src with
      | .error e => .error e
      | .ok v => .ok (blk, v)

/-- target type 1, source type 1: the state of the source's atmosphere block over the mapped column -/
def atmPerColumn (sgeo geo : Geo) (src : Incon) (colmapping : Dict Str) (c : Col) : Except Exc (Str × IncVal) :=
  match dget colmapping c.name with
  | .error e => .error e
  | .ok mappedcol =>
    match sgeo.lay0 with
    | .error e => .error e
    | .ok s0 =>
      match blockName sgeo.conv s0.name mappedcol with
      | .error e => .error e
      | .ok old =>
        match geo.lay0 with
        | .error e => .error e
        | .ok g0 =>
          match blockName geo.conv g0.name c.name with
          | .error e => .error e
          | .ok blk =>
            match dget src old with
            | .error e => .error e
            | .ok v => .ok (blk, v)

/-- target type 1, source without atmosphere: the default state -/
def atmDefaultCol (geo : Geo) (c : Col) : Except Exc (Str × IncVal) :=
  match geo.lay0 with
  | .error e => .error e
  | .ok g0 =>
    match blockName geo.conv g0.name c.name with
    | .error e => .error e
    | .ok blk => .ok (blk, defaultAtm)

/-- the variables of the source's atmosphere block over column `c` (for the average) -/
def atmColVars (sgeo : Geo) (src : Incon) (c : Col) : Except Exc (List Rat) :=
  match sgeo.lay0 with
  | .error e => .error e
  | .ok s0 =>
    match blockName sgeo.conv s0.name c.name with
    | .error e => .error e
    | .ok blk =>
      match dget src blk with
      | .error e => .error e
      | .ok v => .ok v.vars

/-- a `for` loop whose body may raise -/
def foldE {α β : Type} (f : β → α → Except Exc β) : β → List α → Except Exc β
  | b, [] => .ok b
  | b, a :: as =>
    match f b a with
    | .error e => .error e
    | .ok b' => foldE f b' as

/-- `varsum += np.array(sourceinc[blk].variable)` for the atmosphere block over column `c` -/
def avgStep (sgeo : Geo) (src : Incon) (acc : List Rat) (c : Col) : Except Exc (List Rat) :=
  match atmColVars sgeo src c with
  | .error e => .error e
  | .ok v => addVec acc v

/-- target type 0, source type 1: the average over the source's atmosphere blocks, as a
    fresh `t2blockincon` (no porosity etc.).  (With no source columns numpy yields nan with a
    warning; the model has no nan and reports ZeroDivisionError — unreachable under GeoInv.) -/
def atmAverage (sgeo : Geo) (src : Incon) : Except Exc IncVal :=
  match firstInc src with
  | .error e => .error e
  | .ok first =>
    match foldE (avgStep sgeo src) (List.replicate first.vars.length 0) sgeo.cols with
    | .error e => .error e
    | .ok total =>
      if sgeo.cols.isEmpty then .error .zeroDivision
      else .ok ⟨total.map (· / (sgeo.cols.length : Rat)), none, none⟩

/-- the atmosphere part of `transfer_from` -/
def transferAtm (src : Incon) (sgeo geo : Geo) (colmapping : Dict Str) : Except Exc Incon :=
  if geo.atm = 0 then
    match geo.lay0 with
    | .error e => .error e
    | .ok g0 =>
      match blockName geo.conv g0.name (atmColName geo.conv) with
      | .error e => .error e
      | .ok atmblk =>
        match (if sgeo.atm = 0 then firstInc src
               else if sgeo.atm = 1 then atmAverage sgeo src
               else .ok defaultAtm) with
        | .error e => .error e
        | .ok v => .ok [(atmblk, v)]
  else if geo.atm = 1 then
    match mapE (if sgeo.atm = 0 then atmBroadcast geo src
                else if sgeo.atm = 1 then atmPerColumn sgeo geo src colmapping
                else atmDefaultCol geo) geo.cols with
    | .error e => .error e
    | .ok ps => .ok (dictOf ps)
  else .ok []

/-- `if (colmapping == {}) or (mapping == {}): mapping, colmapping = sourcegeo.block_mapping(geo, True)` -/
def effectiveMaps (q : List (Rat × Rat) → Rat × Rat → Nat) (sgeo geo : Geo) (mapping colmapping : Dict Str) :
    Except Exc (Dict Str × Dict Str) :=
  if colmapping.isEmpty || mapping.isEmpty then blockMapping q sgeo geo else .ok (mapping, colmapping)

/-- `self[blk] = copy(sourceinc[mapping[blk]])` as a (key, value) pair -/
def incUnder (src : Incon) (mapping : Dict Str) (blk : Str) : Except Exc (Str × IncVal) :=
  match dget mapping blk with
  | .error e => .error e
  | .ok sb =>
    match dget src sb with
    | .error e => .error e
    | .ok v => .ok (blk, v)

/-- `t2incon.transfer_from(sourceinc, sourcegeo, geo, mapping, colmapping)`;
    the result is the new contents of `self` -/
def transferFrom (q : List (Rat × Rat) → Rat × Rat → Nat) (src : Incon) (sgeo geo : Geo)
    (mapping colmapping : Dict Str) : Except Exc Incon :=
  match effectiveMaps q sgeo geo mapping colmapping with
  | .error e => .error e
  | .ok (mapping, colmapping) =>
    match transferAtm src sgeo geo colmapping with
    | .error e => .error e
    | .ok atmPart =>
      match geo.blockNameList with
      | .error e => .error e
      | .ok names =>
        match geo.numAtmBlocks with
        | .error e => .error e
        | .ok na =>
          match mapE (incUnder src mapping) (names.drop na) with
          | .error e => .error e
          | .ok ps => .ok (ps.foldl (fun d p => dset d p.1 p.2) atmPart)

/-! ### t2incon.transfer_from on an object heap (for the clause "without altering the source")

  The functional model above cannot say that the source object is left alone.  Here the same
  method is modelled imperatively: `t2blockincon` objects live in a heap (object id = position),
  a `t2incon` is a dict from names to object ids, `copy()` allocates, and
  `self[key] = value` performs the one mutation the method makes: `value.block = key`. -/

structure Obj where
  block : Str
  val : IncVal
  deriving Repr, Inhabited, DecidableEq

abbrev Heap := List Obj

/-- a `t2incon`: block name → id of its `t2blockincon`, in `_blocklist` order -/
abbrev InconH := Dict Nat

/-- a new object; its id is the old heap size -/
def Heap.alloc (h : Heap) (o : Obj) : Heap × Nat := (h ++ [o], h.length)

def modifyAt (h : Heap) (id : Nat) (f : Obj → Obj) : Heap :=
  match h, id with
  | [], _ => []
  | o :: r, 0 => f o :: r
  | o :: r, n + 1 => o :: modifyAt r n f

/-- `self[key] = value` with `value` the object `id`:
    `if value.block != key: value.block = key; self.add_incon(value)` -/
def setItem (st : Heap × InconH) (key : Str) (id : Nat) : Heap × InconH :=
  (modifyAt st.1 id (fun o => if o.block != key then { o with block := key } else o), dset st.2 key id)

/-- `self[key] = copy(obj)` -/
def assignCopy (st : Heap × InconH) (key : Str) (id : Nat) : Except Exc (Heap × InconH) :=
  match st.1[id]? with
  | none => .error .generic
  | some o =>
    let (h1, c) := st.1.alloc o
    .ok (setItem (h1, st.2) key c)

/-- `self[key] = t2blockincon(vals)` (a fresh object, block name '') -/
def assignNew (st : Heap × InconH) (key : Str) (v : IncVal) : Heap × InconH :=
  let (h1, c) := st.1.alloc ⟨[], v⟩
  setItem (h1, st.2) key c

/-- `sourceinc[0]` : id of the first object -/
def firstId (src : InconH) : Except Exc Nat :=
  match src with
  | [] => .error .indexError
  | p :: _ => .ok p.2

/-- `sourceinc[name].variable` -/
def varsOf (h : Heap) (src : InconH) (name : Str) : Except Exc (List Rat) :=
  match dget src name with
  | .error e => .error e
  | .ok id =>
    match h[id]? with
    | none => .error .generic
    | some o => .ok o.val.vars

def avgStepH (h : Heap) (sgeo : Geo) (src : InconH) (acc : List Rat) (c : Col) : Except Exc (List Rat) :=
  match sgeo.lay0 with
  | .error e => .error e
  | .ok s0 =>
    match blockName sgeo.conv s0.name c.name with
    | .error e => .error e
    | .ok blk =>
      match varsOf h src blk with
      | .error e => .error e
      | .ok v => addVec acc v

/-- loop body, target type 1 / source type 0 -/
def stepBroadcast (geo : Geo) (src : InconH) (st : Heap × InconH) (c : Col) : Except Exc (Heap × InconH) :=
  match geo.lay0 with
  | .error e => .error e
  | .ok g0 =>
    match blockName geo.conv g0.name c.name with
    | .error e => .error e
    | .ok blk =>
      match firstId src with
      | .error e => .error e
      | .ok id => assignCopy st blk id

/-- loop body, target type 1 / source type 1 -/
def stepPerColumn (sgeo geo : Geo) (src : InconH) (colmapping : Dict Str) (st : Heap × InconH) (c : Col) :
    Except Exc (Heap × InconH) :=
  match dget colmapping c.name with
  | .error e => .error e
  | .ok mappedcol =>
    match sgeo.lay0 with
    | .error e => .error e
    | .ok s0 =>
      match blockName sgeo.conv s0.name mappedcol with
      | .error e => .error e
      | .ok old =>
        match geo.lay0 with
        | .error e => .error e
        | .ok g0 =>
          match blockName geo.conv g0.name c.name with
          | .error e => .error e
          | .ok blk =>
            match dget src old with
            | .error e => .error e
            | .ok id => assignCopy st blk id

/-- loop body, target type 1 / source without atmosphere; `dflt` is the id of `default_atm_incons` -/
def stepDefault (geo : Geo) (dflt : Nat) (st : Heap × InconH) (c : Col) : Except Exc (Heap × InconH) :=
  match geo.lay0 with
  | .error e => .error e
  | .ok g0 =>
    match blockName geo.conv g0.name c.name with
    | .error e => .error e
    | .ok blk => assignCopy st blk dflt

/-- loop body, underground blocks -/
def stepUnder (src : InconH) (mapping : Dict Str) (st : Heap × InconH) (blk : Str) : Except Exc (Heap × InconH) :=
  match dget mapping blk with
  | .error e => .error e
  | .ok sb =>
    match dget src sb with
    | .error e => .error e
    | .ok id => assignCopy st blk id

/-- the atmosphere part; `dflt` is the id of `default_atm_incons` -/
def transferAtmH (src : InconH) (sgeo geo : Geo) (colmapping : Dict Str) (dflt : Nat) (st : Heap × InconH) :
    Except Exc (Heap × InconH) :=
  if geo.atm = 0 then
    match geo.lay0 with
    | .error e => .error e
    | .ok g0 =>
      match blockName geo.conv g0.name (atmColName geo.conv) with
      | .error e => .error e
      | .ok atmblk =>
        if sgeo.atm = 0 then
          match firstId src with
          | .error e => .error e
          | .ok id => assignCopy st atmblk id
        else if sgeo.atm = 1 then
          match firstId src with
          | .error e => .error e
          | .ok id =>
            match st.1[id]? with
            | none => .error .generic
            | some first =>
              match foldE (avgStepH st.1 sgeo src) (List.replicate first.val.vars.length 0) sgeo.cols with
              | .error e => .error e
              | .ok total =>
                if sgeo.cols.isEmpty then .error .zeroDivision
                else .ok (assignNew st atmblk ⟨total.map (· / (sgeo.cols.length : Rat)), none, none⟩)
        else assignCopy st atmblk dflt
  else if geo.atm = 1 then
    foldE (if sgeo.atm = 0 then stepBroadcast geo src
           else if sgeo.atm = 1 then stepPerColumn sgeo geo src colmapping
           else stepDefault geo dflt) st geo.cols
  else .ok st

/-- `t2incon.transfer_from` on the heap: `h` holds (at least) the source's objects, `src` is the
    source `t2incon`; returns the new heap and the new contents of `self` (after `self.empty()`) -/
def transferFromH (q : List (Rat × Rat) → Rat × Rat → Nat) (h : Heap) (src : InconH) (sgeo geo : Geo)
    (mapping colmapping : Dict Str) : Except Exc (Heap × InconH) :=
  match effectiveMaps q sgeo geo mapping colmapping with
  | .error e => .error e
  | .ok (mapping, colmapping) =>
    -- default_atm_incons = t2blockincon([1.013e5, 20.])
    let (h1, dflt) := h.alloc ⟨[], defaultAtm⟩
    match transferAtmH src sgeo geo colmapping dflt (h1, []) with
    | .error e => .error e
    | .ok st =>
      match geo.blockNameList with
      | .error e => .error e
      | .ok names =>
        match geo.numAtmBlocks with
        | .error e => .error e
        | .ok na => foldE (stepUnder src mapping) st (names.drop na)

/-- the state of object `id` -/
def valAt (h : Heap) (id : Nat) : IncVal :=
  match h[id]? with
  | some o => o.val
  | none => ⟨[], none, none⟩

/-- a heap `t2incon` seen as the functional model's dict of states -/
def viewD (h : Heap) (d : InconH) : Incon := d.map (fun p => (p.1, valAt h p.2))

/-- the contents of a `t2incon` read through the heap: (name in the dict, the object) -/
def readInc (h : Heap) (inc : InconH) : List (Str × Option Obj) := inc.map (fun p => (p.1, h[p.2]?))

/-! ### t2data: rock types, generators, print block, incon dict -/

/-- `source.grid.block[mapping[blk.name]].rocktype.name` -/
def rockOf (sgridRock : Dict Str) (mapping : Dict Str) (b : Str) : Except Exc Str :=
  match dget mapping b with
  | .error e => .error e
  | .ok sb => dget sgridRock sb

/-- `transfer_rocktypes_from`: rock type name of every target block, in `blocklist`
    order.  `sgridRock` is `source.grid.block[name].rocktype.name`. -/
def transferRocktypes (sgridRock : Dict Str) (mapping : Dict Str) (tblocks : List Str) :
    Except Exc (List Str) :=
  mapE (rockOf sgridRock mapping) tblocks

/-- the attributes of a `t2generator` that `transfer_generators_from` reads or writes -/
structure Gen where
  name : Str
  block : Str
  type : Str
  /-- `ltab`: `None` or an integer -/
  ltab : Option Int
  /-- `gx`: `None` or a number -/
  gx : Option Rat
  /-- `rate`: `None` or a list -/
  rate : Option (List Rat)
  deriving Repr, Inhabited, DecidableEq

/-- a transferred generator: `deepcopy` of source generator number `src`, with the
    four attributes the method may change -/
structure GenOut where
  src : Nat
  name : Str
  block : Str
  gx : Option Rat
  rate : Option (List Rat)
  deriving Repr, Inhabited, DecidableEq

def tablegens : List Str :=
  [[' ', 'A', 'I', 'R'], ['C', 'O', 'M', '1'], ['C', 'O', 'M', '2'], ['C', 'O', 'M', '3'],
   ['C', 'O', 'M', '4'], ['C', 'O', 'M', '5'], ['H', 'E', 'A', 'T'], ['M', 'A', 'S', 'S'],
   ['N', 'A', 'C', 'L'], ['T', 'R', 'A', 'C'], [' ', 'V', 'O', 'L']]

/-- `if gen.ltab: ntimes = abs(gen.ltab) else: ntimes = 1` -/
def ntimes (g : Gen) : Nat :=
  match g.ltab with
  | none => 1
  | some l => if l = 0 then 1 else l.natAbs

/-- `if gen.gx: gen.gx *= ratio` (`None` and `0.0` are falsy) -/
def scaleGx (gx : Option Rat) (ratio : Rat) : Option Rat :=
  match gx with
  | none => none
  | some x => if x = 0 then some x else some (x * ratio)

/-- the scaling of `gx` and `rate` by an area or volume ratio -/
def scaleGen (g : Gen) (ratio : Rat) : Except Exc (Option Rat × Option (List Rat)) :=
  if tablegens.contains g.type then
    if ntimes g > 1 then
      match g.rate with
      | none => .error .typeError
      | some r => .ok (scaleGx g.gx ratio, some (r.map (· * ratio)))
    else .ok (scaleGx g.gx ratio, g.rate)
  else .ok (g.gx, g.rate)

def listIndex (l : List Str) (x : Str) : Option Nat :=
  match l with
  | [] => none
  | y :: ys => if y = x then some 0 else (listIndex ys x).map (· + 1)

/-- `'%2d' % n` -/
def fmt2d (n : Nat) : Str := rjust (Nat.toDigits 10 n) 2

/-- `[first, cat, cat][geo.convention]` -/
def pick3 (cv : Conv) (first cat : Str) : Except Exc Str :=
  match cv with
  | .c0 => .ok first
  | .c1 => .ok cat
  | .c2 => .ok cat
  | .c3 => .error .indexError

def sumQ (l : List Rat) : Rat := l.foldl (· + ·) 0

/-- `colmapping[col.name] == sourcecolname`, for the list comprehension of mapped columns -/
def colFlag (colmapping : Dict Str) (sourcecolname : Str) (c : Col) : Except Exc (Col × Bool) :=
  match dget colmapping c.name with
  | .error e => .error e
  | .ok m => .ok (c, decide (m = sourcecolname))

/-- the `category` of a column (top/bottom) generator's new name -/
def colGenCategory (sgeo geo : Geo) (colGenerator : List Str) (sourcecategory : Str) : Except Exc Str :=
  if geo.conv = sgeo.conv then .ok sourcecategory
  else match listIndex colGenerator sourcecategory with
    | none => .error .valueError
    | some i => pick3 geo.conv (fmt2d i) sourcecategory

/-- the layer of a column generator's new block: the column's top layer, or the bottom layer -/
def colGenLayer (geo : Geo) (top : List Str) (sourcecategory : Str) (col : Col) : Except Exc Str :=
  if top.contains sourcecategory then
    match geo.surfaceLayer col with
    | .error e => .error e
    | .ok l => .ok l.name
  else
    match pyIdx geo.lays (-1) with
    | .error e => .error e
    | .ok l => .ok l.name

/-- body of the loop over the mapped columns -/
def colGenOne (sgeo geo : Geo) (top bottom : List Str) (idx : Nat) (sg : Gen) (area : Rat) (col : Col) :
    Except Exc GenOut :=
  if area = 0 then .error .zeroDivision
  else
    match scaleGen sg (col.area / area) with
    | .error e => .error e
    | .ok (gx, rate) =>
      match colGenCategory sgeo geo (top ++ bottom) (layerName sgeo.conv sg.name) with
      | .error e => .error e
      | .ok category =>
        match blockName geo.conv category col.name with
        | .error e => .error e
        | .ok gname =>
          match colGenLayer geo top (layerName sgeo.conv sg.name) col with
          | .error e => .error e
          | .ok layername =>
            match blockName geo.conv layername col.name with
            | .error e => .error e
            | .ok gblock => .ok ⟨idx, gname, gblock, gx, rate⟩

/-- `mapping[blk.name] == sourceblock.name`, for the list comprehension of mapped blocks -/
def blkFlag (mapping : Dict Str) (blockname : Str) (b : Str × Rat) : Except Exc ((Str × Rat) × Bool) :=
  match dget mapping b.1 with
  | .error e => .error e
  | .ok m => .ok (b, decide (m = blockname))

/-- body of the loop over the mapped blocks -/
def blkGenOne (sgeo geo : Geo) (rename : Bool) (idx : Nat) (sg : Gen) (vol : Rat) (b : Str × Rat) :
    Except Exc GenOut :=
  if vol = 0 then .error .zeroDivision
  else
    match scaleGen sg (b.2 / vol) with
    | .error e => .error e
    | .ok (gx, rate) =>
      if rename then
        match (if geo.conv = sgeo.conv then .ok (layerName sgeo.conv sg.name)
               else pick3 geo.conv [' ', '0'] (layerName sgeo.conv sg.name) : Except Exc Str) with
        | .error e => .error e
        | .ok category =>
          match blockName geo.conv category (columnName geo.conv b.1) with
          | .error e => .error e
          | .ok gname => .ok ⟨idx, gname, b.1, gx, rate⟩
      else .ok ⟨idx, sg.name, b.1, gx, rate⟩

/-- the generators made from one source generator -/
def transferOneGen (sgeo geo : Geo) (sgridVol : Dict Rat) (tgrid : List (Str × Rat))
    (incols : List Col) (top bottom : List Str) (mapping colmapping : Dict Str)
    (rename preserve : Bool) (idx : Nat) (sg : Gen) : Except Exc (List GenOut) :=
  if (top ++ bottom).contains (layerName sgeo.conv sg.name) then
    match mapE (colFlag colmapping (columnName sgeo.conv sg.block)) incols with
    | .error e => .error e
    | .ok flagged =>
      match (if preserve then .ok (sumQ (((flagged.filter (·.2)).map (·.1)).map (·.area)))
             else match sgeo.findCol (columnName sgeo.conv sg.block) with
               | .error e => .error e
               | .ok c => .ok c.area : Except Exc Rat) with
      | .error e => .error e
      | .ok area => mapE (colGenOne sgeo geo top bottom idx sg area) ((flagged.filter (·.2)).map (·.1))
  else
    match dget sgridVol sg.block with
    | .error e => .error e
    | .ok svol =>
      match mapE (blkFlag mapping sg.block) tgrid with
      | .error e => .error e
      | .ok flagged =>
        mapE (blkGenOne sgeo geo rename idx sg
                (if preserve then sumQ (((flagged.filter (·.2)).map (·.1)).map (·.2)) else svol))
             ((flagged.filter (·.2)).map (·.1))

def enumFrom {α : Type} (n : Nat) : List α → List (Nat × α)
  | [] => []
  | a :: as => (n, a) :: enumFrom (n + 1) as

/-- one iteration of `for sourcegen in source.generatorlist` -/
def genStep (sgeo geo : Geo) (sgridVol : Dict Rat) (tgrid : List (Str × Rat))
    (incols : List Col) (top bottom : List Str) (mapping colmapping : Dict Str)
    (rename preserve : Bool) (p : Nat × Gen) : Except Exc (List GenOut) :=
  transferOneGen sgeo geo sgridVol tgrid incols top bottom mapping colmapping rename preserve p.1 p.2

/-- `transfer_generators_from`: the new `generatorlist`.
    `incolFlags[i]` says whether the centre of target column `i` lies in some source
    column (`column_containing_point`, not modelled here); `sgridVol` is
    `source.grid.block[name].volume`; `tgrid` is `self.grid.blocklist` as (name, volume). -/
def transferGenerators (q : List (Rat × Rat) → Rat × Rat → Nat) (gens : List Gen) (sgeo geo : Geo)
    (sgridVol : Dict Rat) (tgrid : List (Str × Rat)) (incolFlags : List Bool)
    (top bottom : List Str) (mapping colmapping : Dict Str) (rename preserve : Bool) :
    Except Exc (List GenOut) :=
  match effectiveMaps q sgeo geo mapping colmapping with
  | .error e => .error e
  | .ok (mapping, colmapping) =>
    let incols := ((geo.cols.zip incolFlags).filter (·.2)).map (·.1)
    match mapE (genStep sgeo geo sgridVol tgrid incols top bottom mapping colmapping rename preserve)
        (enumFrom 0 gens) with
    | .error e => .error e
    | .ok ls => .ok ls.flatten

/-- `parameter['print_block']` after `t2data.transfer_from` -/
def transferPrintBlock (mapping : Dict Str) (tblocks : List Str) (pb : Option Str) :
    Except Exc (Option Str) :=
  match pb with
  | none => .ok none
  | some b =>
    match mapE (fun (t : Str) =>
        match dget mapping t with
        | .error e => .error e
        | .ok m => .ok (t, decide (m = b))) tblocks with
    | .error e => .error e
    | .ok flagged => .ok (((flagged.filter (·.2)).map (·.1)).head?)

/-- the `incon` dict of the data file after `t2data.transfer_from`: for every
    (source block name, value) in order, every target block mapped to it gets the value -/
def transferInconDict {β : Type} (mapping : Dict Str) (tblocks : List Str) (srcIncon : Dict β) :
    Except Exc (Dict β) :=
  match mapE (fun (p : Str × β) =>
      match mapE (fun (t : Str) =>
          match dget mapping t with
          | .error e => .error e
          | .ok m => .ok (t, decide (m = p.1))) tblocks with
      | .error e => .error e
      | .ok flagged => .ok (((flagged.filter (·.2)).map (fun x => (x.1, p.2))))) srcIncon with
  | .error e => .error e
  | .ok ls => .ok (dictOf ls.flatten)

/-! ### decidable hypotheses of the theorems (evaluated by the driver on every explored case) -/

def nodupB : List Str → Bool
  | [] => true
  | a :: as => !as.contains a && nodupB as

/-- layer bottoms never increase going down `layerlist[1:]` -/
def bottomsDesc : List Lay → Bool
  | a :: b :: r => decide (b.bottom ≤ a.bottom) && bottomsDesc (b :: r)
  | _ => true

/-- `fix_blockname` leaves the name alone -/
def fixInert (n : Str) : Bool := decide (fixBlockname n = .ok n)

/-- names have the convention's lengths and are pairwise distinct -/
def namesOK (g : Geo) : Bool :=
  g.cols.all (fun c => c.name.length == colLen g.conv) &&
  g.lays.all (fun l => l.name.length == layLen g.conv) &&
  nodupB (g.cols.map (·.name)) && nodupB (g.lays.map (·.name))

/-- the number of underground layers whose bottom is below the column's surface -/
def layersBelow (g : Geo) (c : Col) : Nat := ((g.lays.drop 1).filter (fun l => l.bottom < c.surface)).length

/-- `GeoInv` for the geometry mapped FROM (`self` of `block_mapping`): at least one column
    and one underground layer, well-formed names, layer bottoms descending, and every
    column's stored `num_layers` equal to the number of layers below its surface, ≥ 1
    (and DMPlex block order only with 3/4-node columns, else `block_name_list` does not exist) -/
def srcOK (g : Geo) : Bool :=
  decide (g.atm ≤ 2) && !g.cols.isEmpty && decide (2 ≤ g.lays.length) && namesOK g &&
  bottomsDesc (g.lays.drop 1) &&
  g.cols.all (fun c => c.numLayers == layersBelow g c && decide (1 ≤ c.numLayers)) &&
  (!g.dmplex || g.cols.all (fun c => c.numNodes == 4 || c.numNodes == 3))

/-- `GeoInv` for the geometry mapped ONTO (`geo`): an atmosphere layer exists, names are
    well formed and survive `fix_blockname` unchanged, DMPlex order only with 3/4-node columns -/
def tgtOK (g : Geo) : Bool :=
  decide (g.atm ≤ 2) && decide (1 ≤ g.lays.length) && namesOK g &&
  g.lays.all (fun l => (atmColName g.conv :: g.cols.map (·.name)).all (fun c => fixInert (rawName g.conv l.name c))) &&
  (!g.dmplex || g.cols.all (fun c => c.numNodes == 4 || c.numNodes == 3))

/-- excludes exactly the two known-defect combinations: source atmosphere type 1 or 2
    onto target type 0 -/
def atmOK (s t : Geo) : Bool := !(t.atm == 0 && s.atm != 0)

def distinctQ : List Rat → Bool
  | [] => true
  | a :: as => as.all (fun b => decide (a ≠ b)) && distinctQ as

def distinctPts : List (Rat × Rat) → Bool
  | [] => true
  | a :: as => as.all (fun b => decide (a ≠ b)) && distinctPts as

/-- pairwise distinct column centres and pairwise distinct underground layer centres -/
def distinctCentres (g : Geo) : Bool :=
  distinctPts (g.cols.map Col.centre) && distinctQ ((g.lays.drop 1).map (·.centre))

/-- a generator sits where its name says (the situation of the identity clause): its name is
    the block name of (its category, its block's column); a top / bottom generator is on the
    top block of its column / in the bottom layer; an interior one is on a block of the grid
    with the same volume in source and target; tables are consistent (`rate` present) -/
def genPlaced (g : Geo) (sgridVol : Dict Rat) (tgrid : List (Str × Rat)) (top bottom : List Str) (sg : Gen) : Bool :=
  let cat := layerName g.conv sg.name
  let scn := columnName g.conv sg.block
  (decide (ntimes sg ≤ 1) || sg.rate.isSome) &&
  decide (blockName g.conv cat scn = .ok sg.name) &&
  (if (top ++ bottom).contains cat then
     match g.findCol scn with
     | .error _ => false
     | .ok c =>
       decide (c.area ≠ 0) &&
       (match colGenLayer g top cat c with
        | .error _ => false
        | .ok ln => decide (blockName g.conv ln c.name = .ok sg.block))
   else
     match dget sgridVol sg.block with
     | .error _ => false
     | .ok vol => decide (vol ≠ 0) && tgrid.contains (sg.block, vol))

/-- identical geometry, identity mappings, all columns inside, unique block names -/
def genIdentitySetting (g : Geo) (tgrid : List (Str × Rat)) (incolFlags : List Bool) (m cm : Dict Str) : Bool :=
  namesOK g && nodupB (tgrid.map (·.1)) &&
  decide (incolFlags = g.cols.map (fun _ => true)) &&
  !m.isEmpty && !cm.isEmpty &&
  tgrid.all (fun b => decide (dget m b.1 = .ok b.1)) &&
  g.cols.all (fun c => decide (dget cm c.name = .ok c.name))

end Model.Mapping
