/-
  Model of the section readers / writers of `t2data.py` (C01), on top of the shared record
  layer `Model/Fixed.lean` and the record tables regenerated into `Gen/Sections.lean`.

  A file is a list of *lines*, each carrying its trailing '\n' (what `readline()` returns);
  `readline` at end of file returns `''`.  A reader has type
      `List Str → Except Exc (α × List Str)`      (value, remaining lines)
  and a writer returns the list of lines it emits.  Values are `Model.Val` (reals are exact
  rationals: what was read is the decimal written; the double nearest to it is outside the model).

  Three loop shapes cover every section:
    * `untilBlank`   records until a blank line / end of file        (ROCKS ELEME CONNE GENER INCON INDOM FOFT …)
    * `readChunks` / `writeChunks`   a list in lines of n values      (time steps, TIMES, generator tables, SELEC, MESHMAKER lists)
    * `untilKeyword` lines until a blank line or a section keyword   (PARAM's further default incons)
  Mathlib-free (executed by the driver).
-/
import PyTough.Model.Fixed
import PyTough.Model.Names
import PyTough.Gen.Sections
/-- `c!"abc"` is the character list `['a','b','c']` (string literals are opaque to the kernel, character
    lists are not: everything the proofs evaluate is written with this macro) -/
macro:max "c!" s:str : term => do
  let cs := s.getString.toList
  let elems := cs.toArray.map fun c => Lean.Syntax.mkCharLit c
  if cs.isEmpty then `(([] : List Char)) else `([$elems,*])

namespace Model
open Py
open Gen.Sections (Rec)

/-! ### Python values and dictionaries -/

def natToRat (n : Nat) : Rat := mkRat (Int.ofNat n) 1

/-- the exact value of a decimal read from text -/
def fvalToVal : FVal → Val
  | .fin neg m e =>
    if m = 0 then (if neg then .negZero else .real 0)
    else
      let mi : Int := if neg then -(Int.ofNat m) else Int.ofNat m
      if e ≥ 0 then .real (mkRat (mi * (10 ^ e.toNat : Nat)) 1) else .real (mkRat mi (10 ^ (-e).toNat))
  | .inf n => .inf n
  | .nan => .nan

def PVal.toVal : PVal → Val
  | .none => .none
  | .int i => .int i
  | .flt v => fvalToVal v
  | .str s => .str s

/-- Python truthiness of a scalar -/
def Val.truthy : Val → Bool
  | .none => false
  | .int i => i != 0
  | .real r => r != 0
  | .negZero => false
  | .str s => !s.isEmpty
  | _ => true

/-- numeric value (for comparisons and `int()`) -/
def Val.rat? : Val → Option Rat
  | .int i => some (mkRat i 1)
  | .real r => some r
  | .negZero => some 0
  | _ => Option.none

/-- `int(x)` for a number: truncation towards zero -/
def Val.toInt? : Val → Option Int
  | .int i => some i
  | .real r => some (if r < 0 then -((-r).floor) else r.floor)
  | .negZero => some 0
  | _ => Option.none

/-- `int(ceil(x / k.))` for a number `x` (integers: exact integer arithmetic) -/
def ceilDiv (v : Val) (k : Nat) : Except Exc Nat :=
  match v with
  | .int i => .ok (if i ≤ 0 then 0 else (i.toNat + k - 1) / k)
  | _ =>
    match v.rat? with
    | some r => .ok ((r / natToRat k).ceil).toNat
    | Option.none => .error .typeError

/-- `x == 0` -/
def Val.isZero : Val → Bool
  | .int i => i == 0
  | .real r => r == 0
  | .negZero => true
  | _ => false

/-- `if x == 0: x = None` -/
def zeroNone (v : Val) : Val := if v.isZero then .none else v

def trimTrailingNones (vals : List Val) : List Val :=
  (vals.reverse.dropWhile (· == .none)).reverse

def Val.str? : Val → Except Exc Str
  | .str s => .ok s
  | _ => .error .typeError

end Model

namespace Model.T2
open Py
open Gen.Sections (Rec)

/-- insertion-ordered `dict` with string keys -/
abbrev Dict := List (Str × Val)

def Dict.get (d : Dict) (k : Str) : Option Val := (d.find? (·.1 == k)).map (·.2)
def Dict.has (d : Dict) (k : Str) : Bool := d.any (·.1 == k)
/-- `d[k] = v` (an existing key keeps its position) -/
def Dict.set (d : Dict) (k : Str) (v : Val) : Dict :=
  if d.has k then d.map (fun p => if p.1 == k then (k, v) else p) else d ++ [(k, v)]

/-! ### lines -/

def nl (s : Str) : Str := s ++ ['\n']

/-- `infile.readline()` -/
def readline : List Str → Str × List Str
  | [] => ([], [])
  | l :: r => (l, r)

/-- `padstring(s)` = `s.ljust(80)` -/
def padstring (s : Str) : Str := ljust s 80

def isBlank (s : Str) : Bool := (strip s).isEmpty

def startsWith (s p : Str) : Bool := p.isPrefixOf s

/-- `line[0:5].strip()` -/
def keywordOf (line : Str) : Str := strip (slice line 0 5)

/-! ### block names: TOUGH2 reads them as (A3, I2) -/

/-- `fix_blockname(name)` / `unfix_blockname(name)`: the models (and their theory) of `Model/Names.lean` -/
abbrev fixBlockname (name : Str) : Except Exc Str := Model.Names.fixBlockname name
abbrev unfixBlockname (name : Str) : Str := Model.Names.unfixBlockname name

/-! ### records -/

/-- `infile.parse_string(line, rec)` with values converted to `Val` -/
def readValues (rf : ReadFn) (r : Rec) (line : Str) : Except Exc (List Val) := do
  let vs ← parseString rf r.fs line
  pure (vs.map PVal.toVal)

/-- `outfile.write_values(vals, rec)` -/
def writeValuesLine (r : Rec) (vals : List Val) : Except Exc Str := do
  let s ← writeValues r.fs vals
  pure (nl s)

/-- `infile.read_value_line(d, rec)`: null values are ignored -/
def readValueLine (rf : ReadFn) (r : Rec) (d : Dict) (line : Str) : Except Exc Dict := do
  let vs ← readValues rf r line
  pure ((r.names.zip vs).foldl (fun d (p : Str × Val) => if p.2 == .none then d else d.set p.1 p.2) d)

/-- `outfile.write_value_line(d, rec)`: missing keys are blank -/
def writeValueLine (r : Rec) (d : Dict) : Except Exc Str :=
  writeValuesLine r (r.names.map fun n => (d.get n).getD .none)

/-! ### combinators -/

/-- `line = f.readline(); while line.strip(): rec(line); line = f.readline()` — with an optional
    transformation of each line read (`padstring`) and an extra stop condition (`+++`).
    `rd line rest` returns the record and the number of further lines it consumed. -/
def untilBlank {α} (pad : Str → Str) (stop : Str → Bool) (rd : Str → List Str → Except Exc (α × Nat)) :
    List Str → Except Exc (List α × List Str)
  | [] => .ok ([], [])
  | l :: rest =>
    let line := pad l
    if isBlank line || stop line then .ok ([], rest)
    else
      match rd line rest with
      | .error e => .error e
      | .ok (a, k) =>
        match untilBlank pad stop rd (rest.drop k) with
        | .error e => .error e
        | .ok (as, r) => .ok (a :: as, r)
termination_by l => l.length
decreasing_by simp only [List.length_drop, List.length_cons]; omega

/-- `for i in range(nlines): vals += f.read_values(rec)` -/
def readChunks (rf : ReadFn) (r : Rec) : Nat → List Str → Except Exc (List Val × List Str)
  | 0, ls => .ok ([], ls)
  | k + 1, ls =>
    let (line, rest) := readline ls
    match readValues rf r line with
    | .error e => .error e
    | .ok vs =>
      match readChunks rf r k rest with
      | .error e => .error e
      | .ok (more, r') => .ok (vs ++ more, r')

def nonNone (vs : List Val) : List Val := vs.filter (· != .none)

/-- one line of a chunked list: `vals = xs[i*n : min((i+1)*n, lim)]`, padded with None to `n` values -/
def chunkLine (r : Rec) (n : Nat) (xs : List Val) (lim i : Nat) : Except Exc Str :=
  let vals := (xs.take (min ((i + 1) * n) lim)).drop (i * n)
  writeValuesLine r (vals ++ List.replicate (n - vals.length) Val.none)

/-- `for i in range(nlines): …write_values(vals, rec)` starting at line `i` -/
def writeChunksFrom (r : Rec) (n : Nat) (xs : List Val) (lim : Nat) : Nat → Nat → Except Exc (List Str)
  | _, 0 => .ok []
  | i, k + 1 =>
    match chunkLine r n xs lim i with
    | .error e => .error e
    | .ok l =>
      match writeChunksFrom r n xs lim (i + 1) k with
      | .error e => .error e
      | .ok ls => .ok (l :: ls)

def writeChunks (r : Rec) (n : Nat) (xs : List Val) (lim nlines : Nat) : Except Exc (List Str) :=
  writeChunksFrom r n xs lim 0 nlines

/-- PARAM's further lines of default initial conditions: lines until a blank line (consumed) or a line
    starting with a section keyword (returned, padded, to the caller). -/
def untilKeyword (rf : ReadFn) (r : Rec) (keywords : List Str) :
    List Str → Except Exc (List Val × Option Str × List Str)
  | [] => .ok ([], none, [])          -- readline() = '' : blank
  | l :: rest =>
    let line := padstring l
    if isBlank line then .ok ([], none, rest)
    else if keywords.any (startsWith line) then .ok ([], some line, rest)
    else
      match readValues rf r line with
      | .error e => .error e
      | .ok vs =>
        match untilKeyword rf r keywords rest with
        | .error e => .error e
        | .ok (more, nxt, r') => .ok (trimTrailingNones vs ++ more, nxt, r')

/-! ### the record tables -/

structure Tabs where
  tab : List (Str × Rec)

def Tabs.get (T : Tabs) (n : Str) : Except Exc Rec :=
  match Gen.Sections.lookup T.tab n with
  | some r => .ok r
  | none => .error .keyError

def mainTabs : Tabs := ⟨Gen.Sections.mainTable⟩
def xpTabs : Tabs := ⟨Gen.Sections.xpTable⟩


/-! ### ROCKS -/

structure RP where
  type : Val
  params : List Val
  deriving Repr, DecidableEq

structure Rock where
  name : Val
  nad : Val
  density : Val
  porosity : Val
  perm : List Val
  conductivity : Val
  specificHeat : Val
  extra : Dict              -- compressibility … xkd4 entries of the object's `__dict__`
  rp : Option RP            -- `relative_permeability` ({} = none)
  cp : Option RP
  deriving Repr, DecidableEq

def defaultRockExtra : Dict :=
  [(c!"compressibility", .real 0), (c!"expansivity", .real 0), (c!"dry_conductivity", .real 0), (c!"tortuosity", .real 0)]

/-- `x >= n` for a Python number -/
def _root_.Model.Val.ge (v : Val) (n : Int) : Except Exc Bool :=
  match v with
  | .int i => .ok (decide (n ≤ i))
  | _ =>
    match v.rat? with
    | some r => .ok (decide (mkRat n 1 ≤ r))
    | Option.none => .error .typeError

def writeRP (r : Rec) (p : Option RP) : Except Exc Str :=
  match p with
  | none => .error .keyError
  | some p => writeValuesLine r ([p.type, Val.none] ++ p.params)

def writeRock (T : Tabs) (rt : Rock) : Except Exc (List Str) := do
  let l1 ← writeValuesLine (← T.get c!"rocks1")
    ([rt.name, rt.nad, rt.density, rt.porosity] ++ rt.perm ++ [rt.conductivity, rt.specificHeat])
  if rt.nad == .none then pure [l1] else
  if !(← rt.nad.ge 1) then pure [l1] else
  let l2 ← writeValueLine (← T.get c!"rocks1.1") rt.extra
  if !(← rt.nad.ge 2) then pure [l1, l2] else
  let l3 ← writeRP (← T.get c!"rocks1.2") rt.rp
  let l4 ← writeRP (← T.get c!"rocks1.2") rt.cp
  pure [l1, l2, l3, l4]

/-- `write_rocktypes` -/
def writeRocks (T : Tabs) (rs : List Rock) : Except Exc (List Str) := do
  let ls ← rs.mapM (writeRock T)
  pure ([nl (c!"ROCKS")] ++ ls.flatten ++ [nl []])

def readRPLine (rf : ReadFn) (r : Rec) (line : Str) : Except Exc RP := do
  let vs ← readValues rf r line
  pure { type := vs.headD .none, params := vs.drop 2 }

/-- one rock type: header line (already padded) + continuation lines -/
def readRock (rf : ReadFn) (T : Tabs) (line : Str) (rest : List Str) : Except Exc (Rock × Nat) := do
  let vs ← readValues rf (← T.get c!"rocks1") line
  match vs with
  | [name, nad, density, porosity, k1, k2, k3, cond, sh] =>
    let rt : Rock := { name, nad, density, porosity, perm := [k1, k2, k3], conductivity := cond, specificHeat := sh,
                       extra := defaultRockExtra, rp := none, cp := none }
    let nad0 := if nad == .none then Val.int 0 else nad
    if !(← nad0.ge 1) then pure (rt, 0) else
    let ex ← readValueLine rf (← T.get c!"rocks1.1") rt.extra (readline rest).1
    let rt := { rt with extra := ex }
    if !(← nad0.ge 2) then pure (rt, 1) else
    let rp ← readRPLine rf (← T.get c!"rocks1.2") (readline (rest.drop 1)).1
    let cp ← readRPLine rf (← T.get c!"rocks1.3") (readline (rest.drop 2)).1
    pure ({ rt with rp := some rp, cp := some cp }, 3)
  | _ => .error .valueError     -- unpacking a record of another length

/-- `grid.add_rocktype`: an existing rock type of the same name is replaced in place -/
def addRock (rs : List Rock) (r : Rock) : List Rock :=
  if rs.any (·.name == r.name) then rs.map (fun x => if x.name == r.name then r else x) else rs ++ [r]

/-- `read_rocktypes` -/
def readRocks (rf : ReadFn) (T : Tabs) (ls : List Str) : Except Exc (List Rock × List Str) := do
  let (rs, rest) ← untilBlank padstring (fun _ => false) (readRock rf T) ls
  pure (rs.foldl addRock [], rest)

/-- `skip_rocktypes` etc.: `while infile.readline().strip(): pass` -/
def skipToBlank : List Str → List Str
  | [] => []
  | l :: rest => if isBlank l then rest else skipToBlank rest

/-! ### ELEME -/

structure Block where
  name : Str
  nseq : Val
  nadd : Val
  rock : Str                 -- name of the rock type object the block refers to
  volume : Val
  ahtx : Val
  pmx : Val
  centre : Option (List Val)
  deriving Repr, DecidableEq

def writeBlock (T : Tabs) (b : Block) : Except Exc Str := do
  let r ← T.get c!"blocks"
  let c := match b.centre with
    | none => [Val.none, Val.none, Val.none]
    | some c => c
  match b.centre with
  | none =>
    -- write_value_line(blkw, 'blocks'): x, y, z are not attributes
    writeValueLine r [(c!"name", .str (unfixBlockname b.name)), (c!"nseq", b.nseq), (c!"nadd", b.nadd),
                      (c!"rocktype", .str b.rock), (c!"volume", b.volume), (c!"ahtx", b.ahtx), (c!"pmx", b.pmx)]
  | some _ =>
    writeValuesLine r ([.str (unfixBlockname b.name), b.nseq, b.nadd, .str b.rock, b.volume, b.ahtx, b.pmx] ++ c)

/-- `write_blocks` -/
def writeBlocks (T : Tabs) (bs : List Block) : Except Exc (List Str) := do
  let ls ← bs.mapM (writeBlock T)
  pure ([nl (c!"ELEME")] ++ ls ++ [nl []])

/-- rock type of a block line: by name, blank = first, else by 1-based index (negative indices wrap) -/
def lookupRock (rocks : List Rock) (rockname : Str) : Except Exc Str :=
  if rocks.any (·.name == .str rockname) then .ok rockname
  else if isBlank rockname && !rocks.isEmpty then
    (match rocks.head? with | some r => r.name.str? | none => .error .generic)
  else
    match pyInt rockname with
    | .error _ => .error .generic          -- RuntimeError("Unknown rocktype …")
    | .ok i =>
      let idx := i - 1
      let n : Int := rocks.length
      let j : Int := if idx < 0 then idx + n else idx
      if 0 ≤ j ∧ j < n then (match rocks[j.toNat]? with | some r => r.name.str? | none => .error .generic)
      else .error .generic

def readBlock (rf : ReadFn) (T : Tabs) (rocks : List Rock) (line : Str) (_rest : List Str) : Except Exc (Block × Nat) := do
  let vs ← readValues rf (← T.get c!"blocks") line
  match vs with
  | [name, nseq, nadd, rockname, volume, ahtx, pmx, x, y, z] =>
    let name ← fixBlockname (← name.str?)
    let rock ← lookupRock rocks (← rockname.str?)
    let centre := if x != .none && y != .none && z != .none then some [x, y, z] else none
    pure ({ name, nseq := zeroNone nseq, nadd := zeroNone nadd, rock, volume, ahtx, pmx, centre }, 0)
  | _ => .error .valueError

/-- `grid.add_block`: a block of the same name is replaced in place -/
def addBlock (bs : List Block) (b : Block) : List Block :=
  if bs.any (·.name == b.name) then bs.map (fun x => if x.name == b.name then b else x) else bs ++ [b]

/-- `read_blocks` -/
def readBlocks (rf : ReadFn) (T : Tabs) (rocks : List Rock) (ls : List Str) : Except Exc (List Block × List Str) := do
  let (bs, rest) ← untilBlank padstring (fun _ => false) (readBlock rf T rocks) ls
  pure (bs.foldl addBlock [], rest)

/-! ### CONNE -/

structure Conn where
  b1 : Str
  b2 : Str
  nseq : Val
  nad1 : Val
  nad2 : Val
  direction : Val
  dist : List Val
  area : Val
  dircos : Val
  sigma : Val
  deriving Repr, DecidableEq

def writeConn (T : Tabs) (c : Conn) : Except Exc Str := do
  writeValuesLine (← T.get c!"connections")
    ([.str (unfixBlockname c.b1), .str (unfixBlockname c.b2), c.nseq, c.nad1, c.nad2, c.direction] ++ c.dist ++
     [c.area, c.dircos, c.sigma])

/-- `write_connections` -/
def writeConns (T : Tabs) (cs : List Conn) : Except Exc (List Str) := do
  let ls ← cs.mapM (writeConn T)
  pure ([nl (c!"CONNE")] ++ ls ++ [nl []])

def readConn (rf : ReadFn) (T : Tabs) (blocks : List Block) (line : Str) (_rest : List Str) : Except Exc (Conn × Nat) := do
  let vs ← readValues rf (← T.get c!"connections") line
  match vs with
  | [n1, n2, nseq, nad1, nad2, isot, d1, d2, areax, betax, sigx] =>
    let b1 ← fixBlockname (← n1.str?)
    let b2 ← fixBlockname (← n2.str?)
    if !(blocks.any (·.name == b1)) || !(blocks.any (·.name == b2)) then .error .keyError else
    pure ({ b1, b2, nseq := zeroNone nseq, nad1 := zeroNone nad1, nad2 := zeroNone nad2, direction := isot,
            dist := [d1, d2], area := areax, dircos := betax, sigma := sigx }, 0)
  | _ => .error .valueError

def addConn (cs : List Conn) (c : Conn) : List Conn :=
  if cs.any (fun x => x.b1 == c.b1 && x.b2 == c.b2) then cs.map (fun x => if x.b1 == c.b1 && x.b2 == c.b2 then c else x)
  else cs ++ [c]

/-- `read_connections` (stops at a blank line or at `+++`) -/
def readConns (rf : ReadFn) (T : Tabs) (blocks : List Block) (ls : List Str) : Except Exc (List Conn × List Str) := do
  let (cs, rest) ← untilBlank padstring (fun l => startsWith l (c!"+++")) (readConn rf T blocks) ls
  pure (cs.foldl addConn [], rest)

/-! ### GENER -/

structure Gener where
  block : Str
  name : Str
  nseq : Val
  nadd : Val
  nads : Val
  ltab : Val
  type : Val
  itab : Val
  gx : Val
  ex : Val
  hg : Val
  fg : Val
  time : List Val
  rate : List Val
  enthalpy : List Val
  deriving Repr, DecidableEq

/-- `abs(ltab)` when `ltab and type != 'DELV'`, else 1 (writer) / 0 (reader: no table) -/
def tableTimes (ltab type : Val) : Except Exc (Option Nat) :=
  if ltab.truthy && type != .str (c!"DELV") then
    match ltab with
    | .int i => .ok (some i.natAbs)
    | .real r => .ok (some r.floor.natAbs)     -- only integral values are meaningful
    | _ => .error .typeError
  else .ok none

def writeGener (T : Tabs) (g : Gener) : Except Exc (List Str) := do
  let d : Dict := [(c!"name", .str (unfixBlockname g.name)), (c!"block", .str (unfixBlockname g.block)),
                   (c!"nseq", g.nseq), (c!"nadd", g.nadd), (c!"nads", g.nads), (c!"type", g.type), (c!"ltab", g.ltab),
                   (c!"itab", g.itab), (c!"gx", g.gx), (c!"ex", g.ex), (c!"hg", g.hg), (c!"fg", g.fg)]
  let l1 ← writeValueLine (← T.get c!"generator") d
  let ntimes := ((← tableTimes g.ltab g.type).getD 1)
  if ntimes ≤ 1 then pure [l1] else
  let nlines := (ntimes + 3) / 4
  let t ← writeChunks (← T.get c!"generation_times") 4 g.time ntimes nlines
  let r ← writeChunks (← T.get c!"generation_rates") 4 g.rate ntimes nlines
  let e ← if g.enthalpy.isEmpty then pure [] else writeChunks (← T.get c!"generation_enthalpy") 4 g.enthalpy ntimes nlines
  pure ([l1] ++ t ++ r ++ e)

/-- `write_generators` -/
def writeGeners (T : Tabs) (gs : List Gener) : Except Exc (List Str) :=
  if gs.isEmpty then .ok [] else do
    let ls ← gs.mapM (writeGener T)
    pure ([nl (c!"GENER")] ++ ls.flatten ++ [nl []])

/-- `read_generator(line, infile)` -/
def readGener (rf : ReadFn) (T : Tabs) (line : Str) (rest : List Str) : Except Exc (Gener × Nat) := do
  let vs ← readValues rf (← T.get c!"generator") line
  match vs with
  | [block, name, nseq, nadd, nads, ltab, _empty, gentype, itab, gx, ex, hg, fg] =>
    let block ← fixBlockname (← block.str?)
    let name ← fixBlockname (← name.str?)
    let g : Gener := { block, name, nseq, nadd, nads, ltab, type := gentype, itab, gx, ex, hg, fg,
                       time := [], rate := [], enthalpy := [] }
    match ← tableTimes ltab gentype with
    | none => pure (g, 0)
    | some ntimes =>
      if ntimes ≤ 1 then pure (g, 0) else
      let nlines := (ntimes + 3) / 4
      let (t, r1) ← readChunks rf (← T.get c!"generation_times") nlines rest
      let (r, r2) ← readChunks rf (← T.get c!"generation_rates") nlines r1
      let hasE := !(isBlank (← itab.str?))
      let (e, _) ← if hasE then readChunks rf (← T.get c!"generation_enthalpy") nlines r2 else pure ([], r2)
      pure ({ g with time := nonNone t, rate := nonNone r, enthalpy := nonNone e },
            if hasE then 3 * nlines else 2 * nlines)
  | _ => .error .valueError

/-- `read_generators` -/
def readGeners (rf : ReadFn) (T : Tabs) (ls : List Str) : Except Exc (List Gener × List Str) :=
  untilBlank id (fun _ => false) (readGener rf T) ls

/-! ### INCON, INDOM -/

structure Incon where
  name : Str
  porosity : Val
  vars : List Val
  seq : Option (Val × Val)       -- the 4-element form `[porosity, variables, nseq, nadd]`
  deriving Repr, DecidableEq

/-- `d[key] = value` for an insertion-ordered dict keyed by block name -/
def setIncon (d : List Incon) (e : Incon) : List Incon :=
  if d.any (·.name == e.name) then d.map (fun x => if x.name == e.name then e else x) else d ++ [e]

def readIncon (rf : ReadFn) (T : Tabs) (line : Str) (rest : List Str) : Except Exc (Incon × Nat) := do
  let vs ← readValues rf (← T.get c!"incon1") line
  match vs with
  | [blockname, nseq, nadd, porosity] =>
    let name ← fixBlockname (← blockname.str?)
    let vars ← readValues rf (← T.get c!"incon2") (readline rest).1
    let nseq := zeroNone nseq
    let nadd := zeroNone nadd
    pure ({ name, porosity, vars := trimTrailingNones vars, seq := if nseq == .none then none else some (nseq, nadd) }, 1)
  | _ => .error .valueError

/-- `read_incons` (updates the existing dictionary) -/
def readIncons (rf : ReadFn) (T : Tabs) (d : List Incon) (ls : List Str) : Except Exc (List Incon × List Str) := do
  let (es, rest) ← untilBlank id (fun _ => false) (readIncon rf T) ls
  pure (es.foldl setIncon d, rest)

def writeIncon (T : Tabs) (e : Incon) : Except Exc (List Str) := do
  let (nseq, nadd) := match e.seq with | some p => p | none => (Val.none, Val.none)
  let l1 ← writeValuesLine (← T.get c!"incon1") [.str (unfixBlockname e.name), nseq, nadd, e.porosity]
  let l2 ← writeValuesLine (← T.get c!"incon2") e.vars
  pure [l1, l2]

/-- `write_incons`: in block order, only for blocks of the grid -/
def writeIncons (T : Tabs) (blocks : List Block) (d : List Incon) : Except Exc (List Str) :=
  if d.isEmpty then .ok [] else do
    let es := blocks.filterMap fun b => d.find? (·.name == b.name)
    let ls ← es.mapM (writeIncon T)
    pure ([nl (c!"INCON")] ++ ls.flatten ++ [nl []])

abbrev Indom := List (Str × List Val)

def setIndom (d : Indom) (e : Str × List Val) : Indom :=
  if d.any (·.1 == e.1) then d.map (fun x => if x.1 == e.1 then e else x) else d ++ [e]

def readIndomRec (rf : ReadFn) (T : Tabs) (line : Str) (rest : List Str) : Except Exc ((Str × List Val) × Nat) := do
  let vars ← readValues rf (← T.get c!"indom2") (readline rest).1
  pure ((slice line 0 5, trimTrailingNones vars), 1)

def readIndom (rf : ReadFn) (T : Tabs) (d : Indom) (ls : List Str) : Except Exc (Indom × List Str) := do
  let (es, rest) ← untilBlank id (fun _ => false) (readIndomRec rf T) ls
  pure (es.foldl setIndom d, rest)

def writeIndomEntry (T : Tabs) (e : Str × List Val) : Except Exc (List Str) := do
  let l2 ← writeValuesLine (← T.get c!"indom2") e.2
  pure [nl e.1, l2]

def writeIndom (T : Tabs) (d : Indom) : Except Exc (List Str) :=
  if d.isEmpty then .ok [] else do
    let ls ← d.mapM (writeIndomEntry T)
    pure ([nl c!"INDOM"] ++ ls.flatten ++ [nl []])

/-! ### TIMES -/

structure OutputTimes where
  d : Dict                         -- scalar entries
  time : Option (List Val)         -- the 'time' entry
  deriving Repr, DecidableEq

def OutputTimes.isEmpty (o : OutputTimes) : Bool := o.d.isEmpty && o.time.isNone

def writeTimes (T : Tabs) (o : OutputTimes) : Except Exc (List Str) :=
  if o.isEmpty then .ok [] else do
    let l1 ← writeValueLine (← T.get c!"output_times1") o.d
    let n ← match o.d.get (c!"num_times_specified") with | some v => pure v | none => .error .keyError
    let nlines ← ceilDiv n 8
    let ts ← match o.time with | some t => pure t | none => if nlines = 0 then pure [] else .error .keyError
    let ls ← writeChunks (← T.get c!"output_times2") 8 ts ts.length nlines
    pure ([nl (c!"TIMES"), l1] ++ ls)

def readTimes (rf : ReadFn) (T : Tabs) (o : OutputTimes) (ls : List Str) : Except Exc (OutputTimes × List Str) := do
  let (l1, rest) := readline ls
  let d ← readValueLine rf (← T.get c!"output_times1") o.d l1
  let n ← match d.get (c!"num_times_specified") with | some v => pure v | none => .error .keyError
  let nlines ← ceilDiv n 8
  let (vs, rest) ← readChunks rf (← T.get c!"output_times2") nlines rest
  pure ({ d, time := some (nonNone vs) }, rest)

/-! ### one-line and flag sections -/

/-- `str(i)` for an integer, as a character list -/
def intStr (i : Int) : Str := (if i < 0 then ['-'] else []) ++ natDigits i.natAbs

def digitsOfOptions (opts : List Int) : Str := (opts.drop 1).flatMap intStr

/-- `[0] + [int(c) for c in s.rstrip().ljust(n).replace(' ', '0')]` -/
def optionsOfStr (s : Str) (n : Nat) : Except Exc (List Int) := do
  let t := replaceChar ' ' ['0'] (ljust (rstrip s) n)
  let ds ← t.mapM fun c => pyInt [c]
  pure (0 :: ds)

structure RPCap where
  rp : Option RP
  cp : Option RP
  deriving Repr, DecidableEq

def writeRPCap (T : Tabs) (x : RPCap) : Except Exc (List Str) :=
  if x.rp.isNone then .ok [] else do
    let l1 ← writeRP (← T.get c!"relative_permeability") x.rp
    let l2 ← writeRP (← T.get c!"capillarity") x.cp
    pure [nl (c!"RPCAP"), l1, l2]

def readRPCap (rf : ReadFn) (T : Tabs) (ls : List Str) : Except Exc (RPCap × List Str) := do
  let (l1, r1) := readline ls
  let rp ← readRPLine rf (← T.get c!"relative_permeability") l1
  let (l2, r2) := readline r1
  let cp ← readRPLine rf (← T.get c!"capillarity") l2
  pure ({ rp := some rp, cp := some cp }, r2)

/-- a section that is one dictionary written with `write_value_line` under a keyword (LINEQ, SOLVR, MULTI) -/
def writeDictSection (T : Tabs) (kw : Str) (rec : Str) (d : Dict) : Except Exc (List Str) :=
  if d.isEmpty then .ok [] else do
    let l ← writeValueLine (← T.get rec) d
    pure [nl kw, l]

def readDictSection (rf : ReadFn) (T : Tabs) (rec : Str) (d : Dict) (ls : List Str) : Except Exc (Dict × List Str) := do
  let (l, rest) := readline ls
  let d ← readValueLine rf (← T.get rec) d l
  pure (d, rest)

/-- `if 'eos' in multi: multi['eos'] = multi['eos'].strip()` -/
def stripEos (d : Dict) : Except Exc Dict :=
  match d.get (c!"eos") with
  | none => .ok d
  | some v => do pure (d.set (c!"eos") (.str (strip (← v.str?))))

/-! ### DIFFU, SELEC -/

def writeDiffusion (T : Tabs) (rows : List (List Val)) : Except Exc (List Str) :=
  if rows.isEmpty then .ok [] else do
    let r ← T.get c!"diffusion"
    let ls ← rows.mapM (writeValuesLine r)
    pure (nl (c!"DIFFU") :: ls)

def readDiffusion (rf : ReadFn) (T : Tabs) (multi : Dict) (rows : List (List Val)) (ls : List Str) :
    Except Exc (List (List Val) × List Str) := do
  match multi.get (c!"num_components"), multi.get (c!"num_phases") with
  | some nc, some np =>
    let nc ← match nc with | .int i => pure i.toNat | _ => .error .typeError
    let np ← match np with | .int i => pure i | .none => .error .typeError | _ => .error .typeError
    let r ← T.get c!"diffusion"
    let rec go : Nat → List Str → Except Exc (List (List Val) × List Str)
      | 0, ls => .ok ([], ls)
      | n + 1, ls =>
        let (l, rest) := readline ls
        match readValues rf r l with
        | .error e => .error e
        | .ok vs =>
          -- `[0: num_phases]` (a negative bound counts from the end)
          let row := if np ≥ 0 then vs.take np.toNat else vs.take (vs.length - np.natAbs)
          match go n rest with
          | .error e => .error e
          | .ok (more, r') => .ok (row :: more, r')
    let (newrows, rest) ← go nc ls
    pure (rows ++ newrows, rest)
  | _, _ => pure (rows, ls)           -- 'Unable to read DIFFU block: no MULTI block specified.'

structure Selection where
  integer : List Val
  float : List Val
  deriving Repr, DecidableEq

def selecLines (v : Option Val) : Except Exc Nat :=
  match v with
  | some (.int i) => .ok i.toNat
  | some _ => .error .typeError
  | none => .error .indexError

def writeSelection (T : Tabs) (s : Option Selection) : Except Exc (List Str) :=
  match s with
  | none => .ok []
  | some s => do
    let l1 ← writeValuesLine (← T.get c!"selec1") s.integer
    let nlines ← selecLines s.integer.head?
    let ls ← writeChunks (← T.get c!"selec2") 8 s.float s.float.length nlines
    pure ([nl (c!"SELEC"), l1] ++ ls)

def readSelection (rf : ReadFn) (T : Tabs) (ls : List Str) : Except Exc (Selection × List Str) := do
  let (l1, rest) := readline ls
  let ints ← readValues rf (← T.get c!"selec1") l1
  let nlines ← selecLines ints.head?
  let (fl, rest) ← readChunks rf (← T.get c!"selec2") nlines rest
  pure ({ integer := ints, float := fl }, rest)

/-! ### history requests (FOFT, COFT, GOFT) and SHORT -/

/-- an item is a block object of the grid (`obj`) or a bare name (`name`: read without a grid) -/
structure HItem where
  isObj : Bool
  name : Str
  deriving Repr, DecidableEq

structure HConn where
  isObj : Bool
  n1 : Str
  n2 : Str
  deriving Repr, DecidableEq

def writeHistoryBlocks (kw : Str) (items : List HItem) : List Str :=
  if items.isEmpty then [] else [nl kw] ++ items.map (fun i => nl (unfixBlockname i.name)) ++ [nl []]

def writeHistoryConns (items : List HConn) : List Str :=
  if items.isEmpty then [] else
    [nl (c!"COFT")] ++ items.map (fun i => nl (unfixBlockname i.n1 ++ unfixBlockname i.n2)) ++ [nl []]

/-- `read_history_blocks` / `read_history_generators`: names are checked against the grid when it has blocks -/
def readHistoryBlocks (blocks : List Block) (ls : List Str) : Except Exc (List HItem × List Str) := do
  let (names, rest) ← untilBlank id (fun _ => false) (fun line _ => do pure (← fixBlockname (slice line 0 5), 0)) ls
  if blocks.isEmpty then pure (names.map (fun n => { isObj := false, name := n }), rest)
  else pure ((names.filter fun n => blocks.any (·.name == n)).map (fun n => { isObj := true, name := n }), rest)

def readHistoryConns (blocks : List Block) (conns : List Conn) (ls : List Str) : Except Exc (List HConn × List Str) := do
  let (names, rest) ← untilBlank id (fun _ => false)
    (fun line _ => do pure ((← fixBlockname (slice line 0 5), ← fixBlockname (slice line 5 10)), 0)) ls
  if blocks.isEmpty then pure (names.map (fun n => { isObj := false, n1 := n.1, n2 := n.2 }), rest)
  else pure ((names.filter fun n => conns.any (fun c => c.b1 == n.1 && c.b2 == n.2)).map
                (fun n => { isObj := true, n1 := n.1, n2 := n.2 }), rest)

structure Short where
  frequency : Option Val
  block : Option (List Str)
  connection : Option (List (Str × Str))
  generator : Option (List (Str × Str))
  deriving Repr, DecidableEq

def Short.isEmpty (s : Short) : Bool :=
  s.frequency.isNone && s.block.isNone && s.connection.isNone && s.generator.isNone

/-- `'%2d' % frequency` when the entry is present and true, else nothing -/
def shortFreqText (s : Short) : Except Exc Str :=
  match s.frequency with
  | some v => if v.truthy then fmtVal { raw := ['2'], width := 2, left := false, prec := none, typ := 'd' } v else .ok []
  | none => .ok []

def writeShort (s : Short) : Except Exc (List Str) :=
  if s.isEmpty then .ok [] else do
    let f ← shortFreqText s
    let b := match s.block with
      | some ns => nl (c!"ELEME") :: ns.map (fun n => nl (unfixBlockname n))
      | none => []
    let c := match s.connection with
      | some ns => nl (c!"CONNE") :: ns.map (fun n => nl (unfixBlockname n.1 ++ unfixBlockname n.2))
      | none => []
    let g := match s.generator with
      | some ns => nl (c!"GENER") :: ns.map (fun n => nl (unfixBlockname n.1 ++ unfixBlockname n.2))
      | none => []
    pure ([nl (c!"SHORT" ++ f)] ++ b ++ c ++ g ++ [nl []])

def shortKeywords : List Str := [c!"ELEME", c!"CONNE", c!"GENER"]

/-- the loop shared by `read_short_blocks/connections/generators`: items until a blank line (returned) or a
    sub-keyword line (returned) -/
def readShortItems {α} (item : Str → Except Exc (Option α)) : List Str → Except Exc (List α × Str × List Str)
  | [] => .ok ([], [], [])
  | l :: rest =>
    if isBlank l then .ok ([], l, rest)
    else if shortKeywords.contains (slice l 0 5) then .ok ([], l, rest)
    else
      match item l with
      | .error e => .error e
      | .ok a =>
        match readShortItems item rest with
        | .error e => .error e
        | .ok (as, nxt, r) => .ok ((match a with | some x => x :: as | none => as), nxt, r)

/-- one line of SHORT's ELEME list: a block of the grid, or nothing -/
def shortBlockItem (blocks : List Block) (l : Str) : Except Exc (Option Str) := do
  let n ← fixBlockname (slice l 0 5)
  pure (if blocks.any (·.name == n) then some n else none)

/-- one line of SHORT's CONNE list -/
def shortConnItem (conns : List Conn) (l : Str) : Except Exc (Option (Str × Str)) := do
  let n1 ← fixBlockname (slice l 0 5)
  let n2 ← fixBlockname (slice l 5 10)
  pure (if conns.any (fun c => c.b1 == n1 && c.b2 == n2) then some (n1, n2) else none)

/-- one line of SHORT's GENER list -/
def shortGenItem (gens : List Gener) (l : Str) : Except Exc (Option (Str × Str)) := do
  let n1 ← fixBlockname (slice l 0 5)
  let n2 ← fixBlockname (slice l 5 10)
  pure (if gens.any (fun g => g.block == n1 && g.name == n2) then some (n1, n2) else none)

/-- the sub-section loop of `read_short_output` -/
def shortLoop (blocks : List Block) (conns : List Conn) (gens : List Gener) :
    Nat → Short → Str → List Str → Except Exc (Short × List Str)
  | 0, _, _, _ => .error .generic
  | fuel + 1, s, line, rest =>
    if isBlank line then .ok (s, rest)
    else
      let kw := slice line 0 5
      if kw == c!"ELEME" then
        match readShortItems (shortBlockItem blocks) rest with
        | .error e => .error e
        | .ok (items, nxt, r) => shortLoop blocks conns gens fuel { s with block := some items } nxt r
      else if kw == c!"CONNE" then
        match readShortItems (shortConnItem conns) rest with
        | .error e => .error e
        | .ok (items, nxt, r) => shortLoop blocks conns gens fuel { s with connection := some items } nxt r
      else if kw == c!"GENER" then
        match readShortItems (shortGenItem gens) rest with
        | .error e => .error e
        | .ok (items, nxt, r) => shortLoop blocks conns gens fuel { s with generator := some items } nxt r
      else .error .keyError

/-- `read_short_output(infile, headerline)` -/
def readShort (rf : ReadFn) (T : Tabs) (blocks : List Block) (conns : List Conn) (gens : List Gener)
    (s0 : Short) (header : Str) (ls : List Str) : Except Exc (Short × List Str) := do
  let vals ← readValues rf (← T.get c!"short") header
  let s := if vals.length > 1 then { s0 with frequency := some (vals.getD 1 .none) } else s0
  let (l1, rest) := readline ls
  shortLoop blocks conns gens (ls.length + 2) s l1 rest

/-! ### MESHMAKER -/

inductive RZSub where
  | radii (xs : List Val)
  | equid (d : Dict)
  | logar (d : Dict)
  | layer (xs : List Val)
  deriving Repr, DecidableEq

structure XYZSub where
  ntype : Val
  no : Val
  del : Val
  deli : Option (List Val)
  deriving Repr, DecidableEq

structure Minc where
  type : Val
  dual : Val
  numContinua : Val
  where_ : Val
  spacing : List Val
  vol : List Val
  deriving Repr, DecidableEq

inductive MeshMaker where
  | rz2d (subs : List RZSub)
  | xyz (deg : Val) (subs : List XYZSub)
  | minc (m : Minc)
  deriving Repr, DecidableEq

def writeCounted (T : Tabs) (rec1 rec2 : Str) (xs : List Val) : Except Exc (List Str) := do
  let n := xs.length
  let l1 ← writeValuesLine (← T.get rec1) [.int n]
  let ls ← writeChunks (← T.get rec2) 8 xs n ((n + 7) / 8)
  pure (l1 :: ls)

def writeRZSub (T : Tabs) (s : RZSub) : Except Exc (List Str) :=
  match s with
  | .radii xs => do pure (nl c!"RADII" :: (← writeCounted T c!"radii1" c!"radii2" xs))
  | .equid d => do pure [nl c!"EQUID", ← writeValueLine (← T.get c!"equid") d]
  | .logar d => do pure [nl c!"LOGAR", ← writeValueLine (← T.get c!"logar") d]
  | .layer xs => do pure (nl c!"LAYER" :: (← writeCounted T c!"layer1" c!"layer2" xs))

def writeRZ2D (T : Tabs) (subs : List RZSub) : Except Exc (List Str) := do
  let ls ← subs.mapM (writeRZSub T)
  pure (nl c!"RZ2D" :: ls.flatten)

def countOf (v : Option Val) : Except Exc Val :=
  match v with
  | some v => .ok v
  | none => .error .indexError

/-- `read_meshmaker_rz2d`: sub-sections until LAYER (which never comes at end of file: the real loop does not end) -/
def readRZ2D (rf : ReadFn) (T : Tabs) : Nat → List Str → Except Exc (List RZSub × List Str)
  | 0, _ => .error .generic
  | fuel + 1, ls =>
    let (line, rest) := readline ls
    let kw := keywordOf line
    if kw == c!"RADII" then do
      let nrad ← countOf (← readValues rf (← T.get c!"radii1") (readline rest).1).head?
      let nlines ← ceilDiv nrad 8
      let (vs, r) ← readChunks rf (← T.get c!"radii2") nlines (readline rest).2
      let (more, r') ← readRZ2D rf T fuel r
      pure (.radii (nonNone vs) :: more, r')
    else if kw == c!"EQUID" then do
      let d ← readValueLine rf (← T.get c!"equid") [] (readline rest).1
      let (more, r') ← readRZ2D rf T fuel (readline rest).2
      pure (if d.isEmpty then more else .equid d :: more, r')
    else if kw == c!"LOGAR" then do
      let d ← readValueLine rf (← T.get c!"logar") [] (readline rest).1
      let (more, r') ← readRZ2D rf T fuel (readline rest).2
      pure (if d.isEmpty then more else .logar d :: more, r')
    else if kw == c!"LAYER" then do
      let nlay ← countOf (← readValues rf (← T.get c!"layer1") (readline rest).1).head?
      let nlines ← ceilDiv nlay 8
      let (vs, r) ← readChunks rf (← T.get c!"layer2") nlines (readline rest).2
      let n ← match nlay with | .int i => pure i | _ => .error .typeError
      let xs := if n ≥ 0 then vs.take n.toNat else vs.take (vs.length - n.natAbs)
      pure ([.layer xs], r)
    else readRZ2D rf T fuel rest

def writeXYZSub (T : Tabs) (s : XYZSub) : Except Exc (List Str) := do
  let h ← writeValueLine (← T.get c!"xyz2") [(c!"ntype", s.ntype), (c!"no", s.no), (c!"del", s.del)]
  if s.del.isZero then
    let nlines ← ceilDiv s.no 8
    let no ← match s.no with | .int i => pure i.toNat | _ => .error .typeError
    let deli ← match s.deli with | some d => pure d | none => .error .keyError
    pure (h :: (← writeChunks (← T.get c!"xyz3") 8 deli no nlines))
  else pure [h]

def writeXYZ (T : Tabs) (deg : Val) (subs : List XYZSub) : Except Exc (List Str) := do
  let l1 ← writeValuesLine (← T.get c!"xyz1") [deg]
  let ls ← subs.mapM (writeXYZSub T)
  pure ([nl c!"XYZ", l1] ++ ls.flatten ++ [nl []])

def readXYZSub (rf : ReadFn) (T : Tabs) (line : Str) (rest : List Str) : Except Exc (XYZSub × Nat) := do
  let vs ← readValues rf (← T.get c!"xyz2") line
  match vs with
  | [ntype, _, no, del] =>
    if del.isZero then
      let nlines ← ceilDiv no 8
      let (vs, _) ← readChunks rf (← T.get c!"xyz3") nlines rest
      let n ← match no with | .int i => pure i | _ => .error .typeError
      let xs := if n ≥ 0 then vs.take n.toNat else vs.take (vs.length - n.natAbs)
      pure ({ ntype, no, del, deli := some xs }, nlines)
    else pure ({ ntype, no, del, deli := none }, 0)
  | _ => .error .valueError

def readXYZ (rf : ReadFn) (T : Tabs) (ls : List Str) : Except Exc (MeshMaker × List Str) := do
  let (l1, rest) := readline ls
  let deg ← countOf (← readValues rf (← T.get c!"xyz1") l1).head?
  let (subs, r) ← untilBlank id (fun _ => false) (readXYZSub rf T) rest
  pure (.xyz deg subs, r)

def writeMinc (T : Tabs) (m : Minc) : Except Exc (List Str) := do
  let l1 ← writeValuesLine (← T.get c!"minc") [.str (c!"PART "), m.type, .str [], m.dual]
  let nvol := m.vol.length
  let l2 ← writeValuesLine (← T.get c!"part1") ([m.numContinua, .int nvol, m.where_] ++ m.spacing)
  let ls ← writeChunks (← T.get c!"part2") 8 m.vol nvol ((nvol + 7) / 8)
  pure ([nl (c!"MINC"), l1, l2] ++ ls)

/-- `read_meshmaker_minc` -/
def readMinc (rf : ReadFn) (T : Tabs) (ls : List Str) : Except Exc (Option Minc × List Str) := do
  let (l0, rest) := readline ls
  let line := strip l0
  if keywordOf line == c!"PART" then
    let vs ← readValues rf (← T.get c!"minc") line
    match vs with
    | [_part, type, _dummy, dual] =>
      let (l1, rest) := readline rest
      let p ← readValues rf (← T.get c!"part1") l1
      let nvolV := p.getD 1 .none
      let nlines ← ceilDiv nvolV 8
      let (vs, r) ← readChunks rf (← T.get c!"part2") nlines rest
      let n ← match nvolV with | .int i => pure i | _ => .error .typeError
      let vol := if n ≥ 0 then vs.take n.toNat else vs.take (vs.length - n.natAbs)
      pure (some { type, dual, numContinua := p.getD 0 .none, where_ := p.getD 2 .none, spacing := p.drop 3, vol }, r)
    | _ => .error .valueError
  else pure (none, rest)

def writeMeshEntry (T : Tabs) (m : MeshMaker) : Except Exc (List Str) :=
  match m with
  | .rz2d subs => writeRZ2D T subs
  | .xyz deg subs => writeXYZ T deg subs
  | .minc m => writeMinc T m

def writeMeshMaker (T : Tabs) (mm : List MeshMaker) : Except Exc (List Str) :=
  if mm.isEmpty then .ok [] else do
    let ls ← mm.mapM (writeMeshEntry T)
    pure ([nl c!"MESHMAKER"] ++ ls.flatten ++ [nl []])

/-- `read_meshmaker`: sub-sections until a blank line -/
def readMeshMaker (rf : ReadFn) (T : Tabs) : Nat → List MeshMaker → List Str → Except Exc (List MeshMaker × List Str)
  | 0, _, _ => .error .generic
  | fuel + 1, acc, ls =>
    match ls with
    | [] => .ok (acc, [])
    | line :: rest =>
      if isBlank line then .ok (acc, rest) else
      let kw := keywordOf line
      if kw == c!"RZ2D" then
        match readRZ2D rf T (rest.length + 2) rest with
        | .error e => .error e
        | .ok (subs, r) => readMeshMaker rf T fuel (acc ++ [.rz2d subs]) r
      else if kw == c!"XYZ" then
        match readXYZ rf T rest with
        | .error e => .error e
        | .ok (m, r) => readMeshMaker rf T fuel (acc ++ [m]) r
      else if kw == c!"MINC" then
        match readMinc rf T rest with
        | .error e => .error e
        | .ok (m, r) => readMeshMaker rf T fuel (match m with | some m => acc ++ [.minc m] | none => acc) r
      else readMeshMaker rf T fuel acc rest

end Model.T2
