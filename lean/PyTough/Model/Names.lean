/-
  Model of the naming code of `/repo/mulgrids.py`, transcribed function by function
  (C17).  Python `str` is `List Char` (ASCII); `dict` membership is list membership;
  exceptions are explicit (`Except Py.Exc`).  Tables that the code indexes by naming
  convention come from `Gen/Conventions.lean` (regenerated from the source every run).

    int_to_chars, new_dict_key, uniqstring, fix_blockname, unfix_blockname,
    fix_block_mapping, valid_blockname,
    mulgrid.block_name / column_name / layer_name,
    mulgrid.node_col_name_from_number / column_name_from_number / node_name_from_number /
            layer_name_from_number / new_node_name / new_column_name,
    mulgrid.add_layers (names), mulgrid.rectangular (names), mulgrid.setup_block_name_index
    (block order None / 'layer_column').
-/
import PyTough.Py.Str
import PyTough.Gen.Conventions
namespace Model.Names
open Py

/-! ### `int_to_chars` -/

/-- `chars[k]` for an index that the code has reduced modulo `len(chars)` -/
def charAt (chars : Str) (k : Nat) : Char := chars.getD k ' '

/--
```
    if i > 0:
        n = len(chars)
        char_index = i - 1 if spaces else i
        st = int_to_chars(char_index // n, ''.join([chars[char_index % n], st]), chars, spaces, length = 0)
    return ... st
```
The inner calls have `length = 0`, so they return `st` unpadded: the recursion just prepends
characters.  Lean needs a structurally decreasing argument: `fuel` bounds the recursion depth;
with `fuel ≥ i` it is never exhausted when `char_index // n < i` (always for `spaces`, and for
`n ≥ 2` otherwise) — `Proofs.Names.itcAux_fuel`. -/
def itcAux (chars : Str) (spaces : Bool) : Nat → Nat → Str → Str
  | 0, _, st => st
  | fuel + 1, i, st =>
    if i = 0 then st
    else
      let ci := if spaces then i - 1 else i
      itcAux chars spaces fuel (ci / chars.length) (charAt chars (ci % chars.length) :: st)

/-- `pad_to_length(st)`: `''.join([chars[0] * (length - len(st)), st])` -/
def padToLength (chars : Str) (length : Nat) (st : Str) : Except Exc Str :=
  match chars with
  | [] => .error .indexError
  | c0 :: _ => .ok (List.replicate (length - st.length) c0 ++ st)

/-- `int_to_chars(i, st, chars, spaces, length)` for `i ≥ 0`.
    `len(chars) = 0` divides by zero; `len(chars) = 1` without spaces recurses for ever
    (`i // 1 = i`): Python raises `RecursionError`, mapped to `generic`. -/
def intToChars (i : Nat) (st : Str) (chars : Str) (spaces : Bool) (length : Nat) : Except Exc Str :=
  let pad (s : Str) : Except Exc Str :=
    if length ≠ 0 && !spaces then padToLength chars length s else .ok s
  if i = 0 then pad st
  else if chars.length = 0 then .error .zeroDivision
  else if chars.length = 1 && !spaces then .error .generic
  else pad (itcAux chars spaces i i st)

/-- `justfn(s, n)` with `justfn` one of `str.rjust` (`left = false`) / `str.ljust` -/
def just (left : Bool) (s : Str) (n : Nat) : Str := if left then ljust s n else rjust s n

/-! ### `new_dict_key` -/

/--
```
    i = istart; used = True
    while used:
        i += 1
        name = justfn(int_to_chars(i, chars = chars, spaces = spaces, length = length), length)
        used = name in d
    return name, i
```
`d` is represented by its keys.  The Python loop is unbounded; the model runs at most `fuel`
iterations and reports `generic` when they are used up.  `newDictKey` gives `len(d) + 1`
iterations, which always suffice for a duplicate-free alphabet without blanks
(`Props.C17.new_dict_key_fresh`). -/
def newDictKeyLoop (d : List Str) (left : Bool) (length : Nat) (chars : Str) (spaces : Bool) :
    Nat → Nat → Except Exc (Str × Nat)
  | 0, _ => .error .generic
  | fuel + 1, i =>
    match intToChars (i + 1) [] chars spaces length with
    | .error e => .error e
    | .ok s =>
      let name := just left s length
      if d.contains name then newDictKeyLoop d left length chars spaces fuel (i + 1)
      else .ok (name, i + 1)

def newDictKey (d : List Str) (istart : Nat) (left : Bool) (length : Nat) (chars : Str) (spaces : Bool) :
    Except Exc (Str × Nat) :=
  newDictKeyLoop d left length chars spaces (d.length + 1) istart

/-! ### `uniqstring` -/

/-- `''.join(sorted(set(s), key = s.index))`: the distinct characters in order of first occurrence -/
def uniqstring : Str → Str
  | [] => []
  | c :: s => c :: (uniqstring s).filter (· != c)

/-! ### `fix_blockname`, `unfix_blockname`, `valid_blockname`, `fix_block_mapping` -/

/-- `name[k]` -/
def getIdx (s : Str) (k : Nat) : Except Exc Char :=
  match s[k]? with
  | some c => .ok c
  | none => .error .indexError

/--
```
    if name[2].isdigit() and name[4].isdigit() and name[3] == ' ':
        return '0'.join((name[0:3], name[4:5]))
    else: return name
```
(`and` short-circuits: `name[4]` is only evaluated when `name[2]` is a digit.) -/
def fixBlockname (name : Str) : Except Exc Str :=
  match getIdx name 2 with
  | .error e => .error e
  | .ok c2 =>
    if isDigit c2 then
      match getIdx name 4 with
      | .error e => .error e
      | .ok c4 =>
        if isDigit c4 then
          match getIdx name 3 with
          | .error e => .error e
          | .ok c3 => if c3 = ' ' then .ok (slice name 0 3 ++ '0' :: slice name 4 5) else .ok name
        else .ok name
    else .ok name

/-- `s.isdigit()` (ASCII): non-empty and all digits -/
def strIsDigit (s : Str) : Bool := !s.isEmpty && s.all isDigit

def decChars : Str := ['0', '1', '2', '3', '4', '5', '6', '7', '8', '9']

/-- `str(n)` for `n ≥ 0` -/
def natStr (n : Nat) : Str := if n = 0 then ['0'] else itcAux decChars false n n []

/-- `"%3s%2d" % (name[0:3], int(name[3:5])) if name[3:5].isdigit() else name` -/
def unfixBlockname (name : Str) : Str :=
  let t := slice name 3 5
  if strIsDigit t then rjust (slice name 0 3) 3 ++ rjust (natStr (digitsVal t)) 2 else name

/--
```
    return all([s in letter_digit_space_punct for s in name[0:3]]) and \
        (name[3] in digit_space) and (name[4] in digits)
```
-/
def validBlockname (name : Str) : Except Exc Bool :=
  if (slice name 0 3).all (fun c => Gen.Conventions.validFirst3.contains c) then
    match getIdx name 3 with
    | .error e => .error e
    | .ok c3 =>
      if Gen.Conventions.validFourth.contains c3 then
        match getIdx name 4 with
        | .error e => .error e
        | .ok c4 => .ok (Gen.Conventions.validFifth.contains c4)
      else .ok false
  else .ok false

/-- an insertion-ordered `dict` with string keys and values -/
abbrev SDict := List (Str × Str)

/-- `d[k] = v`: an existing key keeps its position -/
def SDict.set : SDict → Str → Str → SDict
  | [], k, v => [(k, v)]
  | (k', v') :: r, k, v => if k' = k then (k, v) :: r else (k', v') :: SDict.set r k v

def SDict.get? (d : SDict) (k : Str) : Option Str := (d.find? (fun p => p.1 = k)).map (·.2)
def SDict.del (d : SDict) (k : Str) : SDict := d.filter (fun p => p.1 ≠ k)

/--
```
    keys_to_fix = {}
    for k, v in blockmap.items():
        fixedk = fix_blockname(k)
        if k != fixedk: keys_to_fix[k] = fixedk
        blockmap[k] = fix_blockname(v)
    for k,v in keys_to_fix.items():
        item = blockmap[k]; del blockmap[k]; blockmap[v] = item
```
An exception leaves the dictionary partly updated; the model returns only the exception then. -/
def fixBlockMapping (blockmap : SDict) : Except Exc SDict := do
  -- first loop: the keys iterated are those of the original dict (values are replaced in place)
  let step1 ← blockmap.foldlM (init := (blockmap, ([] : SDict))) fun (acc : SDict × SDict) (kv : Str × Str) => do
    let fixedk ← fixBlockname kv.1
    let toFix := if kv.1 ≠ fixedk then acc.2.set kv.1 fixedk else acc.2
    let fv ← fixBlockname kv.2
    pure (acc.1.set kv.1 fv, toFix)
  step1.2.foldlM (init := step1.1) fun (bm : SDict) (kv : Str × Str) =>
    match bm.get? kv.1 with
    | none => .error .keyError
    | some item => pure ((bm.del kv.1).set kv.2 item)

/-! ### methods of `mulgrid` that depend only on the naming convention -/

def colnameLength (conv : Nat) : Nat := Gen.Conventions.colnameLength.getD conv 0
def layernameLength (conv : Nat) : Nat := Gen.Conventions.layernameLength.getD conv 0
def atmosphereColumnName (conv : Nat) : Str := Gen.Conventions.atmosphereColumnName.getD conv []
def surfaceLayerName (conv : Nat) : Str := Gen.Conventions.surfaceLayerName.getD conv []

/-- `column_name(blockname)`; `none` is Python's `None` (convention not in 0..3) -/
def columnName (conv : Nat) (blockname : Str) : Option Str :=
  (Gen.Conventions.columnSlice[conv]?).map fun p => slice blockname p.1 p.2

def layerName (conv : Nat) (blockname : Str) : Option Str :=
  (Gen.Conventions.layerSlice[conv]?).map fun p => slice blockname p.1 p.2

/-- the concatenation in `block_name` before `fix_blockname` (the last branch is an `else`) -/
def rawBlockName (conv : Nat) (layername colname : Str) : Str :=
  let p := Gen.Conventions.blockParts.getD conv (Gen.Conventions.blockParts.getLastD (true, (0, 0), (0, 0)))
  if p.1 then slice colname p.2.1.1 p.2.1.2 ++ slice layername p.2.2.1 p.2.2.2
  else slice layername p.2.1.1 p.2.1.2 ++ slice colname p.2.2.1 p.2.2.2

/-- `block_name(layername, colname, blockmap)` -/
def blockName (conv : Nat) (layername colname : Str) (blockmap : SDict := []) : Except Exc Str :=
  match fixBlockname (rawBlockName conv layername colname) with
  | .error e => .error e
  | .ok blk =>
    match SDict.get? blockmap blk with
    | some v => .ok v
    | none => .ok blk

/-- `node_col_name_from_number(num, justfn, chars, spaces)` -/
def nodeColNameFromNumber (conv num : Nat) (left : Bool) (chars : Str) (spaces : Bool) : Except Exc Str :=
  if Gen.Conventions.alphaColumnConventions.contains conv then
    match intToChars num [] chars spaces (colnameLength conv) with
    | .error e => .error e
    | .ok s => .ok (just left s (colnameLength conv))
  else .ok (rjust (natStr num) (colnameLength conv))

/-- `column_name_from_number` -/
def columnNameFromNumber (conv num : Nat) (left : Bool) (chars : Str) (spaces : Bool) : Except Exc Str :=
  match nodeColNameFromNumber conv num left chars spaces with
  | .error e => .error e
  | .ok name => if name.length > colnameLength conv then .error .naming else .ok name

/-- `node_name_from_number` (same code, different message) -/
def nodeNameFromNumber (conv num : Nat) (left : Bool) (chars : Str) (spaces : Bool) : Except Exc Str :=
  match nodeColNameFromNumber conv num left chars spaces with
  | .error e => .error e
  | .ok name => if name.length > colnameLength conv then .error .naming else .ok name

/-- `layer_name_from_number` -/
def layerNameFromNumber (conv num : Nat) (left : Bool) (chars : Str) (spaces : Bool) : Except Exc Str :=
  let r : Except Exc Str :=
    if Gen.Conventions.numericLayerConventions.contains conv then
      .ok (just left (natStr num) (layernameLength conv))
    else
      match intToChars num [] chars spaces (layernameLength conv) with
      | .error e => .error e
      | .ok s => .ok (just left s (layernameLength conv))
  match r with
  | .error e => .error e
  | .ok name => if name.length > layernameLength conv then .error .naming else .ok name

/-- `new_node_name` / `new_column_name` (`d` = keys of `self.node` / `self.column`) -/
def newNodeName (conv : Nat) (d : List Str) (istart : Nat) (left : Bool) (chars : Str) (spaces : Bool) :
    Except Exc (Str × Nat) :=
  match newDictKey d istart left (colnameLength conv) chars spaces with
  | .error e => .error e
  | .ok (name, i) => if name.length > colnameLength conv then .error .naming else .ok (name, i)

def newColumnName := newNodeName

/-! ### `add_layers`: the layer names -/

/--
```
            name = surfacelayername
            while name == surfacelayername:
                num += 1
                name = self.layer_name_from_number(num, justfn, chars, spaces)
```
at most `fuel` iterations (`generic` afterwards; two suffice because the names are
injective — `Props.C17.add_layers_names`). -/
def nextLayerName (conv : Nat) (left : Bool) (chars : Str) (spaces : Bool) (surf : Str) :
    Nat → Nat → Except Exc (Str × Nat)
  | 0, _ => .error .generic
  | fuel + 1, num =>
    match layerNameFromNumber conv (num + 1) left chars spaces with
    | .error e => .error e
    | .ok name =>
      if name = surf then nextLayerName conv left chars spaces surf fuel (num + 1)
      else .ok (name, num + 1)

/-- the `for thickness in thicknesses` loop: `m` layers still to be named, `num` the counter -/
def addLayersLoop (conv : Nat) (left : Bool) (chars : Str) (spaces : Bool) (surf : Str) :
    Nat → Nat → Except Exc (List Str)
  | 0, _ => .ok []
  | m + 1, num =>
    match nextLayerName conv left chars spaces surf 3 num with
    | .error e => .error e
    | .ok (name, num') =>
      match addLayersLoop conv left chars spaces surf m num' with
      | .error e => .error e
      | .ok rest => .ok (name :: rest)

/-- names of `self.layerlist` after `add_layers(thicknesses, …, justify, chars, spaces)` with
    `len(thicknesses) = m`: the surface layer, then the generated names -/
def addLayers (conv m : Nat) (left : Bool) (chars : Str) (spaces : Bool) : Except Exc (List Str) :=
  let chars := uniqstring chars
  let surf := surfaceLayerName conv
  match addLayersLoop conv left chars spaces surf m 0 with
  | .error e => .error e
  | .ok names => .ok (surf :: names)

/-! ### `setup_block_name_index` and `rectangular` (names only) -/

def mapM' {α β} (f : α → Except Exc β) : List α → Except Exc (List β)
  | [] => .ok []
  | a :: r =>
    match f a with
    | .error e => .error e
    | .ok b =>
      match mapM' f r with
      | .error e => .error e
      | .ok bs => .ok (b :: bs)

/-- tail-recursive version used by the compiled driver (lists of 10⁶ block names) -/
def mapMTRAux {α β} (f : α → Except Exc β) : List α → List β → Except Exc (List β)
  | [], acc => .ok acc.reverse
  | a :: r, acc =>
    match f a with
    | .error e => .error e
    | .ok b => mapMTRAux f r (b :: acc)

theorem mapMTRAux_eq {α β} (f : α → Except Exc β) (l : List α) (acc : List β) :
    mapMTRAux f l acc =
      (match mapM' f l with
       | .error e => .error e
       | .ok bs => .ok (acc.reverse ++ bs)) := by
  induction l generalizing acc with
  | nil => simp [mapMTRAux, mapM']
  | cons a r ih =>
    simp only [mapMTRAux, mapM']
    cases f a with
    | error e => rfl
    | ok b =>
      simp only [ih]
      cases mapM' f r with
      | error e => rfl
      | ok bs => simp

def mapMTR {α β} (f : α → Except Exc β) (l : List α) : Except Exc (List β) := mapMTRAux f l []

@[csimp] theorem mapM'_eq_TR : @mapM' = @mapMTR := by
  funext α β f l
  rw [mapMTR, mapMTRAux_eq]
  cases mapM' f l <;> simp

/-- pairs an element with its index -/
def withIndex {α} (l : List α) : List (Nat × α) := (List.range l.length).zip l

/-- `block_name_list` for block order `None`/`'layer_column'`.
    `layers` = names in `layerlist`, `cols` = names in `columnlist`,
    `present l c` = `columnlist[c].surface > layerlist[l].bottom`. -/
def blockNameList (conv atmos : Nat) (layers cols : List Str) (present : Nat → Nat → Bool) :
    Except Exc (List Str) :=
  match layers with
  | [] => .ok []
  | top :: below =>
    let atmBlocks : Except Exc (List Str) :=
      if atmos = 0 then mapM' (fun c => blockName conv top c) [atmosphereColumnName conv]
      else if atmos = 1 then mapM' (fun c => blockName conv top c) cols
      else .ok []
    match atmBlocks with
    | .error e => .error e
    | .ok atm =>
      let pairs : List (Str × Str) :=
        (withIndex below).flatMap fun (li, lay) =>
          ((withIndex cols).filter fun (ci, _) => present (li + 1) ci).map fun (_, col) => (lay, col)
      match mapM' (fun p => blockName conv p.1 p.2) pairs with
      | .error e => .error e
      | .ok under => .ok (atm ++ under)

structure RectNames where
  nodes : List Str
  cols : List Str
  layers : List Str
  blocks : List Str
  deriving DecidableEq, Repr

/-- `case`: `none` = `None`, `some true` = `'l'`, `some false` = anything else (upper) -/
def applyCase (case : Option Bool) (chars : Str) : Str :=
  match case with
  | none => chars
  | some true => lower chars
  | some false => upper chars

/-- names created by `rectangular(xblocks, yblocks, zblocks, convention, atmos_type, justify = …,
    case = …, chars = …, spaces = …)` with `nx, ny, nz` blocks: nodes `1..(nx+1)(ny+1)`, columns
    `1..nx·ny`, layers by `add_layers`, then `setup_block_name_index` with the default surface.
    The first naming error aborts, in the order of the code (nodes, columns, layers). -/
def rectangular (nx ny nz conv atmos : Nat) (left : Bool) (case : Option Bool) (chars : Str) (spaces : Bool)
    (present : Nat → Nat → Bool := fun _ _ => true) : Except Exc RectNames :=
  let chars := uniqstring (applyCase case chars)
  match mapM' (fun k => nodeNameFromNumber conv (k + 1) left chars spaces) (List.range ((nx + 1) * (ny + 1))) with
  | .error e => .error e
  | .ok nodes =>
    match mapM' (fun k => columnNameFromNumber conv (k + 1) left chars spaces) (List.range (nx * ny)) with
    | .error e => .error e
    | .ok cols =>
      match addLayers conv nz left chars spaces with
      | .error e => .error e
      | .ok layers =>
        match blockNameList conv atmos layers cols present with
        | .error e => .error e
        | .ok blocks => .ok { nodes, cols, layers, blocks }

end Model.Names
