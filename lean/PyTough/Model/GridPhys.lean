/-
  The physical flow network a `t2grid` describes (property C09), read off the heap model of
  `Model/Grid.lean`.  Blocks and connections are identified by object id (names may change).
-/
import PyTough.Model.GridInv
namespace Model.Grid
open Py

/-- what a block means physically: volume, rock type (by name) and centre -/
structure BlkPhys where
  volume : Rat
  rockName : Name
  centre : Option (List Rat)
  deriving DecidableEq, Repr

def blkPhys (w : World) (b : Nat) : BlkPhys := ⟨(w.bk b).volume, w.rname (w.bk b).rock, (w.bk b).centre⟩

/-- what a connection means physically, independent of the order in which its two blocks are
    written: each block with *its own* distance to the interface, the interface area, the
    permeability direction, and the gravity cosine oriented from the block with the lower id to
    the other one (so it still says which of the two is the upper block) -/
structure ConPhys where
  lo : Nat × Rat
  hi : Nat × Rat
  area : Rat
  direction : Int
  dircos : Option Rat
  deriving DecidableEq, Repr

def conSig (con : Con) : ConPhys :=
  if con.b0 ≤ con.b1 then ⟨(con.b0, con.d0), (con.b1, con.d1), con.area, con.direction, con.dircos⟩
  else ⟨(con.b1, con.d1), (con.b0, con.d0), con.area, con.direction, con.dircos.map (fun x => -x)⟩

def conPhys (w : World) (c : Nat) : ConPhys := conSig (w.cn c)

/-- two states describe the same physical network: the same block and connection objects (in any
    order), every block with the same volume, rock type and centre, every connection with the same
    oriented signature -/
structure PhysEq (w w' : World) : Prop where
  blocks : w'.blocklist.Perm w.blocklist
  connections : w'.connectionlist.Perm w.connectionlist
  blk : ∀ b, blkPhys w' b = blkPhys w b
  con : ∀ c, conPhys w' c = conPhys w c

/-- total volume of the grid's blocks -/
def totalVolume (w : World) : Rat := World.sumRat (w.blocklist.map fun b => (w.bk b).volume)

end Model.Grid
